"""Recursive-descent parser for the regex subset used by the rule patterns of ctparse.

Anything outside the subset raises Untranslatable (a broken tie, reported as such by the checks).
AST (tuples):
  ("eps",) ("lit", cp, icase) ("cls", neg, icase, items) items: ("r", lo, hi) | ("d",) | ("s",) | ("w",)
  ("seq", a, b) ("alt", a, b) ("opt", a) ("star", a) ("plus", a) ("grp", idx, a) ("nla", a) ("nlb", a) ("wordb",)
"""


_PROP_CACHE = {}


def prop_ranges(spec, negate=False):
    """code point ranges of a Unicode property escape (\\p{spec} / \\P{spec}), enumerated with the `regex` module"""
    key = (spec, negate)
    if key not in _PROP_CACHE:
        import regex
        rx = regex.compile(r"\%s{%s}" % ("P" if negate else "p", spec), regex.VERSION1)
        out, lo, prev = [], None, None
        for cp in range(0x110000):
            ok = not (0xD800 <= cp <= 0xDFFF) and rx.fullmatch(chr(cp)) is not None
            if ok:
                if lo is None: lo = cp
                prev = cp
            elif lo is not None:
                out.append(("r", lo, prev)); lo = None
        if lo is not None:
            out.append(("r", lo, prev))
        _PROP_CACHE[key] = out
    return list(_PROP_CACHE[key])


class Untranslatable(Exception):
    pass


class P:
    def __init__(self, s, flavour="regex"):
        self.s = s
        self.i = 0
        self.ngroups = 0
        self.names = {}      # name -> idx
        self.defs = {}       # name -> ast (for (?&name) calls)
        self.icase = False
        self.flavour = flavour

    def peek(self, k=1):
        return self.s[self.i:self.i + k]

    def eat(self, t):
        if not self.s.startswith(t, self.i):
            raise Untranslatable("expected %r at %d in %r" % (t, self.i, self.s[max(0, self.i - 10):self.i + 10]))
        self.i += len(t)

    def parse(self):
        r = self.alt()
        if self.i != len(self.s):
            raise Untranslatable("trailing %r" % self.s[self.i:self.i + 10])
        return r

    def alt(self):
        branches = [self.seq()]
        while self.peek() == "|":
            self.i += 1
            branches.append(self.seq())
        r = branches[-1]
        for b in reversed(branches[:-1]):
            r = ("alt", b, r)
        return r

    def seq(self):
        items = []
        while self.i < len(self.s) and self.peek() not in ("|", ")"):
            a = self.atom()
            if a is None:
                continue
            while self.peek() in ("?", "*", "+"):
                q = self.peek()
                self.i += 1
                if self.peek() in ("?", "+"):
                    raise Untranslatable("lazy/possessive quantifier")
                a = ({"?": "opt", "*": "star", "+": "plus"}[q], a)
            while self.peek() == "{":
                # counted repetition, greedy: a{m} a{m,} a{m,n} -> m copies, then nested optional copies / a star
                j = self.s.find("}", self.i)
                body = self.s[self.i + 1:j] if j > 0 else ""
                import re as _re
                mm = _re.fullmatch(r"(\d+)(,(\d*))?", body)
                if not mm:
                    raise Untranslatable("counted repetition {%s}" % body)
                lo = int(mm.group(1)); hi = lo if mm.group(2) is None else (None if mm.group(3) == "" else int(mm.group(3)))
                if lo > 64 or (hi is not None and (hi > 64 or hi < lo)):
                    raise Untranslatable("counted repetition bounds {%s}" % body)
                self.i = j + 1
                if self.peek() in ("?", "+"):
                    raise Untranslatable("lazy/possessive quantifier")
                if hi is None:
                    tail = ("star", a)
                else:
                    tail = ("eps",)
                    for _ in range(hi - lo):
                        tail = ("opt", a if tail == ("eps",) else ("seq", a, tail))
                r0 = tail
                for _ in range(lo):
                    r0 = a if r0 == ("eps",) else ("seq", a, r0)
                a = r0
            items.append(a)
        r = ("eps",)
        for a in reversed(items):
            r = a if r == ("eps",) else ("seq", a, r)
        return r

    def newgroup(self, name=None):
        self.ngroups += 1
        if name is not None:
            self.names[name] = self.ngroups
        return self.ngroups

    def atom(self):
        c = self.peek()
        if c == "(":
            if self.peek(3) == "(?:":
                self.eat("(?:"); r = self.alt(); self.eat(")"); return r
            if self.peek(4) == "(?i)":
                self.eat("(?i)"); self.icase = True; return None
            if self.peek(10) == "(?(DEFINE)":
                self.eat("(?(DEFINE)")
                save = self.icase
                self.alt()          # registers named groups into defs
                self.eat(")")
                self.icase = save
                return None
            if self.peek(4) == "(?<!":
                self.eat("(?<!"); r = self.alt(); self.eat(")")
                if not single_char(r):
                    raise Untranslatable("look-behind over more than one code point")
                return ("nlb", r)
            if self.peek(3) == "(?!":
                self.eat("(?!"); r = self.alt(); self.eat(")"); return ("nla", r)
            if self.peek(3) == "(?&":
                self.eat("(?&"); j = self.s.index(")", self.i); name = self.s[self.i:j]; self.i = j + 1
                if name not in self.defs:
                    raise Untranslatable("call of unknown group " + name)
                return self.defs[name]          # inline (non-recursive), captures dropped
            if self.peek(4) == "(?P<" or (self.peek(3) == "(?<" and self.peek(4) not in ("(?<!", "(?<=")):
                self.eat("(?P<" if self.peek(4) == "(?P<" else "(?<")
                j = self.s.index(">", self.i); name = self.s[self.i:j]; self.i = j + 1
                idx = self.newgroup(name)
                r = self.alt(); self.eat(")")
                self.defs[name] = strip_groups(r)
                return ("grp", idx, r)
            if self.peek(2) == "(?":
                raise Untranslatable("group construct " + self.s[self.i:self.i + 6])
            self.eat("("); idx = self.newgroup(); r = self.alt(); self.eat(")")
            return ("grp", idx, r)
        if c == "[":
            return self.cls()
        if c == "\\":
            e = self.peek(2)[1:]
            self.i += 2
            if e == "d": return ("cls", False, False, [("d",)])
            if e == "s": return ("cls", False, False, [("s",)])
            if e == "w": return ("cls", False, False, [("w",)])
            if e == "b": return ("wordb",)
            if e in ("p", "P"): return ("cls", False, False, prop_ranges(self.prop_name(), e == "P"))
            if e and e in ".-'/\\()[]|+*?#": return ("lit", ord(e), False)
            raise Untranslatable("escape \\" + e)
        if c in "*+?{}^$.":
            raise Untranslatable("metacharacter %r at %d" % (c, self.i))
        self.i += 1
        return ("lit", ord(c), self.icase)

    def prop_name(self):
        """the name after \\p / \\P: one letter or {Name}"""
        if self.peek() == "{":
            j = self.s.index("}", self.i)
            name = self.s[self.i + 1:j]; self.i = j + 1
        else:
            name = self.peek(); self.i += 1
        if not name or not all(ch.isalnum() or ch in "_= " for ch in name):
            raise Untranslatable("property escape %r" % name)
        return name

    def cls(self):
        self.eat("[")
        neg = False
        if self.peek() == "^":
            neg = True; self.i += 1
        items = []
        while self.peek() != "]":
            if self.i >= len(self.s):
                raise Untranslatable("unterminated class")
            c = self.peek()
            if c == "\\":
                e = self.peek(2)[1:]; self.i += 2
                if e == "d": items.append(("d",)); continue
                if e == "s": items.append(("s",)); continue
                if e == "w": items.append(("w",)); continue
                if e in ("p", "P"): items.extend(prop_ranges(self.prop_name(), e == "P")); continue
                if e in "bBDSW" or e.isalnum():
                    raise Untranslatable("class escape \\" + e)
                lo = ord(e)
            else:
                lo = ord(c); self.i += 1
            if self.peek() == "-" and self.peek(2)[1:] != "]":
                self.i += 1
                h = self.peek()
                if h == "\\":
                    h = self.peek(2)[1:]; self.i += 2
                else:
                    self.i += 1
                items.append(("r", lo, ord(h)))
            else:
                items.append(("r", lo, lo))
        self.eat("]")
        return ("cls", neg, self.icase, items)


def single_char(r):
    t = r[0]
    if t in ("lit", "cls"): return True
    if t == "alt": return single_char(r[1]) and single_char(r[2])
    if t == "grp": return single_char(r[2])
    return False


def strip_groups(r):
    if r[0] == "grp":
        return strip_groups(r[2])
    if r[0] in ("seq", "alt"):
        return (r[0], strip_groups(r[1]), strip_groups(r[2]))
    if r[0] in ("opt", "star", "plus", "nla", "nlb"):
        return (r[0], strip_groups(r[1]))
    return r


def walk(r):
    yield r
    t = r[0]
    if t in ("seq", "alt"):
        yield from walk(r[1]); yield from walk(r[2])
    elif t in ("opt", "star", "plus", "nla", "nlb"):
        yield from walk(r[1])
    elif t == "grp":
        yield from walk(r[2])


def lang(r, limit=20000):
    """finite sample language of a pattern: \\s* in {"", " "}, star = 0 or 1 repetition"""
    t = r[0]
    if t == "eps": return {""}
    if t == "lit": return {chr(r[1])}
    if t == "cls":
        out = set()
        for it in r[3]:
            if it[0] == "r":
                for c in range(it[1], it[2] + 1): out.add(chr(c))
            elif it[0] == "s": out.add(" ")
            elif it[0] == "d": out.update("0123456789")
        return out
    if t == "seq":
        a, b = lang(r[1], limit), lang(r[2], limit)
        if len(a) * len(b) > limit: raise OverflowError
        return {x + y for x in a for y in b}
    if t == "alt": return lang(r[1], limit) | lang(r[2], limit)
    if t == "opt": return lang(r[1], limit) | {""}
    if t == "star": return {""} | lang(r[1], limit)
    if t == "plus": return lang(r[1], limit)
    if t == "grp": return lang(r[2], limit)
    if t in ("nla", "nlb", "wordb"): return {""}
    raise ValueError(t)


def find_group(r, idx):
    if r[0] == "grp":
        if r[1] == idx: return r
        return find_group(r[2], idx)
    if r[0] in ("seq", "alt"): return find_group(r[1], idx) or find_group(r[2], idx)
    if r[0] in ("opt", "star", "plus", "nla", "nlb"): return find_group(r[1], idx)
    return None
