"""Common harness pieces: driver process, encoding, evidence/violation protocol, known findings."""
import json, os, subprocess, sys, time, random, hashlib, re as _re

VERIF = os.path.dirname(os.path.dirname(os.path.abspath(__file__)))
REPO = os.environ.get("QUICKADD_REPO", "/repo")
LEAN = os.path.join(VERIF, "lean")
DRIVER = os.path.join(LEAN, ".lake", "build", "bin", "qa_driver")
if REPO not in sys.path:
    sys.path.insert(0, REPO)


def enc(text):
    return " ".join(str(ord(c)) for c in text) if text else "-"


class Driver:
    """Runs the compiled Lean model on a batch of operation lines."""

    def run(self, lines):
        if not lines:
            return []
        p = subprocess.run([DRIVER], input="\n".join(lines) + "\n", capture_output=True, text=True)
        if p.returncode != 0:
            raise RuntimeError("qa_driver failed: " + p.stderr[-2000:])
        out = p.stdout.split("\n")
        if out and out[-1] == "":
            out.pop()
        if len(out) != len(lines):
            raise RuntimeError("qa_driver answered %d lines for %d operations" % (len(out), len(lines)))
        return out


def seed():
    try:
        return int(os.environ.get("VERIF_SEED", "0"))
    except ValueError:
        return 0


def tier():
    t = os.environ.get("VERIF_TIER", "quick")
    return t if t in ("quick", "thorough") else "quick"


def samp(rng, population, k):
    """`rng.sample` that never asks for more than there is (pools derived from the library may shrink)"""
    population = list(population)
    return rng.sample(population, min(k, len(population)))
