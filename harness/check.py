#!/venv/bin/python
"""bin/check <Cxx> [--tier quick|thorough] [--replay file]

One check run: translator -> lake build (theorems re-checked by the kernel against the regenerated data) ->
axiom audit -> regression corpus -> unit/system correspondence in the property's cone -> property sweep ->
known findings -> evidence.  Exit 0: property held on everything explored; 1: VIOLATION line; 2: infrastructure."""
import collections, fcntl, hashlib, json, os, random, re, subprocess, sys, time, traceback, warnings

warnings.simplefilter("ignore")
HERE = os.path.dirname(os.path.abspath(__file__))
VERIF = os.path.dirname(HERE)
LEAN = os.path.join(VERIF, "lean")
sys.path.insert(0, HERE)
import qa  # noqa

ALL_RULES = None
CLOCK = ["ruleHHMM", "ruleHHMMmilitary", "ruleHHOClock", "ruleNamedHour", "ruleMidnight", "ruleQuarterBeforeHH", "ruleQuarterAfterHH", "ruleHalfBeforeHH", "ruleHalfAfterHH",
         "ruleTODPOD", "rulePODTOD", "rulePOD", "ruleAbsorbOnTime", "latent"]
DAYS = ["ruleToday", "ruleNow", "ruleTomorrow", "ruleAfterTomorrow", "ruleYesterday", "ruleBeforeYesterday", "ruleEOM", "ruleEOY", "ruleAtDOW", "ruleNextDOW", "ruleDOWNextWeek",
        "ruleNamedDOW", "ruleLatentDOW", "ruleAbsorbOnTime"]
PARTIAL = ["ruleNamedDOW", "ruleLatentDOW", "ruleDOM1", "ruleDOM2", "ruleLatentDOM", "ruleDDMM", "ruleMMDD", "ruleNamedMonth", "ruleDOMMonth", "ruleDOMMonth2", "ruleMonthDOM", "ruleLatentDOY",
           "rulePOD", "ruleLatentPOD", "ruleDOWDOM", "ruleAbsorbOnTime", "ruleMonthOrdinal"]
ABSOLUTE = ["ruleDDMMYYYY", "ruleDDMM", "ruleNamedMonth", "ruleDOM1", "ruleDOM2", "ruleYear", "ruleDOMMonth", "ruleDOMMonth2", "ruleMonthDOM", "ruleDOYYear", "ruleDateTOD", "ruleTODDate",
            "ruleHHMM", "ruleHHMMmilitary", "ruleAbsorbOnTime", "ruleMonthOrdinal", "ruleLatentDOY"]
DURATION = ["ruleDigitDuration", "ruleNamedNumberDuration", "ruleDurationHalf", "ruleTimeDuration", "ruleDurationInterval", "ruleIntervalDuration", "ruleIntervalConjDuration",
            "ruleDDMMYYYY", "ruleDateDate", "ruleDateTOD", "ruleHHMM"]

# property -> correspondence suites and, per suite, the cone (None = everything)
PROPS = {
    "C01": {"corr": {"rx": None, "rules": None, "search": None}, "sweep": ("sweeps2", "sweep_c01")},
    "C02": {"corr": {"rx": None, "rules": None, "search": None}, "sweep": ("sweeps2", "sweep_c02")},
    "C03": {"corr": {"rx": DAYS, "rules": DAYS}, "sweep": ("sweeps", "sweep_c03")},
    "C04": {"corr": {"rx": PARTIAL, "rules": PARTIAL}, "sweep": ("sweeps", "sweep_c04")},
    "C05": {"corr": {"rx": ABSOLUTE, "rules": ABSOLUTE}, "sweep": ("sweeps", "sweep_c05")},
    "C06": {"corr": {"rx": CLOCK, "rules": CLOCK}, "sweep": ("sweeps", "sweep_c06")},
    "C07": {"corr": {"rx": None, "rules": None}, "sweep": ("sweeps", "sweep_c07")},
    "C08": {"corr": {"rx": DURATION, "rules": DURATION}, "sweep": ("sweeps", "sweep_c08")},
    "C09": {"corr": {"rx": None, "search": ["tokens", "stack", "parse"]}, "sweep": ("sweeps2", "sweep_c09")},
    "C10": {"corr": {"search": ["labels", "nomatch", "parse", "pre"]}, "sweep": ("sweeps2", "sweep_c10")},
    "C11": {"corr": {"rx": None, "search": ["pre"]}, "sweep": ("sweeps2", "sweep_c11")},
    "C12": {"corr": {"rules": None, "search": ["parse"]}, "sweep": ("sweeps2", "sweep_c12")},
    "C13": {"corr": {"search": ["parse", "stack"]}, "sweep": ("sweeps2", "sweep_c13")},
    "C14": {"corr": {"search": ["parse"], "types": None}, "sweep": ("sweeps2", "sweep_c14")},
    "C15": {"corr": {"rules": None, "search": ["tokens", "stack", "parse"]}, "sweep": ("sweeps2", "sweep_c15")},
    "C16": {"corr": {"nb": None}, "sweep": ("sweeps2", "sweep_c16")},
    "C17": {"corr": {"nb": None, "types": None}, "sweep": ("sweeps2", "sweep_c17")},
    "C18": {"corr": {"types": None}, "sweep": ("sweeps2", "sweep_c18")},
    "C19": {"corr": {"rx": None}, "sweep": ("sweeps2", "sweep_c19")},
    "C20": {"corr": {"rx": None, "rules": None}, "sweep": ("sweeps", "sweep_c20")},
}

TRUSTED = ["Lean 4.33.0 kernel", "axioms: propext, Classical.choice, Quot.sound only (audited by #print axioms on every run)", "translator/gen.py (declarative data: regex ASTs, signatures, tables, Unicode classes)",
           "correspondence harness (agreement on generated inputs, not proved)", "modelled not verified: regex/re matching semantics, datetime, dateutil, int(), str methods, pickle/bz2, IEEE arithmetic",
           "ranking by the pickled model is observed by the sweep, never proved"]


def log(*a):
    print(*a, flush=True)


class Lock:
    def __enter__(self):
        self.f = open(os.path.join(VERIF, ".lock"), "w")
        fcntl.flock(self.f, fcntl.LOCK_EX)
        return self

    def __exit__(self, *a):
        fcntl.flock(self.f, fcntl.LOCK_UN)
        self.f.close()


EXT_OFFSET = 1000000


def theorems_of(pid):
    path = os.path.join(LEAN, "QuickAdd", "Props", pid + ".lean")
    if not os.path.exists(path):
        return [], path
    names = []
    src = open(path, encoding="utf-8").read()
    for m in re.finditer(r"^theorem\s+([A-Za-z0-9_'.]+)", src, re.M):
        names.append((m.group(1), src[:m.start()].count("\n") + 1))
    # optional second module of the same namespace (theorems that need lemma files which themselves build on Props/<pid>.lean);
    # its line numbers are offset so that both files share one ordering
    ext = os.path.join(LEAN, "QuickAdd", "Props", pid + "Ext.lean")
    if os.path.exists(ext):
        src = open(ext, encoding="utf-8").read()
        for m in re.finditer(r"^theorem\s+([A-Za-z0-9_'.]+)", src, re.M):
            names.append((m.group(1), EXT_OFFSET + src[:m.start()].count("\n") + 1))
    return names, path


def build_and_audit(pid):
    """returns dict(translator=..., built=bool, theorems=[(name, ok, axioms)], errors=[...], import_error=...)"""
    out = {"translator": None, "built": False, "theorems": [], "errors": [], "import_error": None, "driver_ok": False, "forbidden": []}
    with Lock():
        p = subprocess.run(["/venv/bin/python", os.path.join(VERIF, "translator", "gen.py")], capture_output=True, text=True)
        try:
            out["translator"] = json.loads(p.stdout.strip().split("\n")[-1])
        except Exception:
            out["translator"] = {"raw": (p.stdout + p.stderr)[-500:]}
        if p.returncode == 3:
            out["import_error"] = out["translator"].get("import_error", "import failed")
            return out
        b = subprocess.run(["lake", "build", "qa_driver"], cwd=LEAN, capture_output=True, text=True)
        out["driver_ok"] = b.returncode == 0 and os.path.exists(qa.DRIVER)
        if not out["driver_ok"]:
            out["errors"].append("model/driver does not build: " + (b.stdout + b.stderr)[-1500:])
        names, path = theorems_of(pid)
        has_ext = os.path.exists(os.path.join(LEAN, "QuickAdd", "Props", pid + "Ext.lean"))
        targets = ["QuickAdd.Props." + pid] + (["QuickAdd.Props." + pid + "Ext"] if has_ext else [])
        b = subprocess.run(["lake", "build"] + targets, cwd=LEAN, capture_output=True, text=True)
        out["built"] = b.returncode == 0
        failing_lines = set()
        if not out["built"]:
            txt = b.stdout + b.stderr
            for m in re.finditer(r"error: (\S+?):(\d+):(\d+)", txt):
                if m.group(1).endswith("Props/%s.lean" % pid):
                    failing_lines.add(int(m.group(2)))
                elif m.group(1).endswith("Props/%sExt.lean" % pid):
                    failing_lines.add(EXT_OFFSET + int(m.group(2)))
                else:
                    out["errors"].append("dependency %s does not build" % m.group(1))
            out["errors"].append(txt[-1200:])
        # audit: axioms of every property theorem (only possible when the module built)
        axioms = {}
        if out["built"] and names:
            os.makedirs(os.path.join(LEAN, "Audit"), exist_ok=True)
            af = os.path.join(LEAN, "Audit", pid + ".lean")
            with open(af, "w") as fd:
                fd.write("import QuickAdd.Props.%s\n" % pid + ("import QuickAdd.Props.%sExt\n" % pid if has_ext else "") + "".join("#print axioms QuickAdd.%s.%s\n" % (pid, n) for n, _ in names))
            a = subprocess.run(["lake", "env", "lean", af], cwd=LEAN, capture_output=True, text=True)
            cur = None
            txt = a.stdout + a.stderr
            for m in re.finditer(r"'QuickAdd\.%s\.([^']+)' (depends on axioms: \[([^\]]*)\]|does not depend on any axioms)" % pid, txt.replace("\n", " ")):
                axioms[m.group(1)] = [x.strip() for x in (m.group(3) or "").split(",") if x.strip()]
        for i, (n, line) in enumerate(names):
            nxt = names[i + 1][1] if i + 1 < len(names) else 10 ** 9
            ok = out["built"] or (not any(line <= l < nxt for l in failing_lines) and False)
            if not out["built"]:
                ok = False if (failing_lines and any(line <= l < nxt for l in failing_lines)) or not failing_lines else None   # None = unknown (module did not build)
            ax = axioms.get(n)
            if ok and ax is None:
                ok = False; out["errors"].append("no axiom report for " + n)
            if ok and any(x not in ("propext", "Classical.choice", "Quot.sound") for x in ax):
                ok = False; out["forbidden"].append("%s uses %s" % (n, ax))
            out["theorems"].append({"name": n, "ok": ok, "axioms": ax})
        # thorough tier: the toolchain's independent re-checker replays the compiled property modules in a fresh kernel
        out["rechecked"] = None
        if out["built"] and os.environ.get("VERIF_TIER_EFFECTIVE") == "thorough":
            try:
                rc = subprocess.run(["lake", "env", "leanchecker"] + targets, cwd=LEAN, capture_output=True, text=True, timeout=1800)
                out["rechecked"] = rc.returncode == 0
                if rc.returncode != 0:
                    out["forbidden"].append("leanchecker rejects %s: %s" % (" ".join(targets), (rc.stdout + rc.stderr)[-300:]))
            except Exception as e:      # the re-checker is an extra: if it cannot run, say so, do not alarm
                out["rechecked"] = "not run: %s" % type(e).__name__
        # forbidden constructs in the sources
        g = subprocess.run(["grep", "-rnE", r"\bsorry\b|\badmit\b|native_decide|bv_decide|implemented_by|\bunsafe\b|maxHeartbeats 0|^axiom ", "--include=*.lean", "QuickAdd", "Driver.lean"], cwd=LEAN, capture_output=True, text=True)
        for l in g.stdout.splitlines():
            body = l.split(":", 2)[-1]
            if body.strip().startswith("--") or "/-" in body or body.strip().startswith("*") or "`" in body:
                continue
            out["forbidden"].append(l[:200])
    return out


def load_known(pid):
    findings, fixed = [], []
    path = os.path.join(VERIF, "known_findings.txt")
    if os.path.exists(path):
        for l in open(path, encoding="utf-8"):
            l = l.strip()
            m = re.match(r"finding: property=(\S+) key=input-regex:(\S+) probe=(\{.*?\}) (.*)$", l)
            if m and m.group(1) == pid:
                rx = m.group(2)
                # optional criteria after the input pattern: `;obs:<regex>` = the way it fails (the observed value), `;depth0-ok`
                obs = None
                if ";obs:" in rx:
                    rx, obs = rx.split(";obs:", 1)
                    if obs.endswith(";depth0-ok"): obs = obs[:-len(";depth0-ok")]; rx += ";depth0-ok"
                d0 = rx.endswith(";depth0-ok")
                if d0: rx = rx[:-len(";depth0-ok")]
                findings.append({"regex": rx, "depth0": d0, "obs": obs, "probe": json.loads(m.group(3)), "what": m.group(4)})
            m = re.match(r"fixed: property=(\S+) (\S+) (.*)$", l)
            if m and m.group(1) == pid:
                fixed.append({"commit": m.group(2), "what": m.group(3)})
    return findings, fixed


def run_corpus(pid):
    """minimised inputs of every repaired defect / past failure: run first"""
    path = os.path.join(VERIF, "corpus", pid + ".jsonl")
    fails, n = [], 0
    if not os.path.exists(path):
        return fails, n
    from realparse import eval_case
    for l in open(path, encoding="utf-8"):
        l = l.strip()
        if not l or l.startswith("#"):
            continue
        c = json.loads(l)
        n += 1
        rec = eval_case((c["text"], tuple(c["ts"]) if c.get("ts") else None, c.get("opts") or {}))
        obs = rec.get("res") if not rec.get("err") else "EXC " + rec["err"]
        ok = True
        if "expected" in c: ok = ok and obs == c["expected"]
        if "not_expected" in c: ok = ok and obs != c["not_expected"]
        if "span" in c: ok = ok and [rec.get("ms"), rec.get("me")] == c["span"]
        if "subject" in c: ok = ok and rec.get("subject") == c["subject"]
        if "labels" in c: ok = ok and rec.get("labels") == c["labels"]
        if c.get("no_exception"): ok = ok and not rec.get("err")
        if not ok:
            fails.append({"text": c["text"], "ts": c.get("ts"), "opts": c.get("opts") or {}, "expected": c.get("expected", c.get("why", "")), "observed": obs, "what": "regression corpus: " + c.get("why", "")})
    return fails, n


def in_cone(suite, cone, d):
    if cone is None:
        return True
    if suite == "rules":
        return d.get("rule") in cone
    if suite == "rx":
        from ctparse.rule import rules
        pid = d.get("pattern")
        users = [n for n, (f, pats) in rules.items() if any(getattr(p, "__name__", "") == "_regex_match" and p.__closure__[0].cell_contents == pid for p in pats)]
        return any(u in cone for u in users)
    if suite == "search":
        return d.get("kind") in cone
    return True


def run_corr(pid, rng, tier):
    res = {}
    for suite, cone in PROPS[pid]["corr"].items():
        try:
            if suite == "rx":
                import corr_rx; r = corr_rx.run(rng)
            elif suite == "rules":
                import corr_rules; r = corr_rules.run(rng, per_rule=4000 if tier == "thorough" else 1200)
            elif suite == "search":
                import corr_search; r = corr_search.run(rng, n_texts=120 if tier == "thorough" else 28)
            elif suite == "nb":
                import corr_nb; r = corr_nb.run(rng, n_cases=1500 if tier == "thorough" else 300)
            elif suite == "types":
                import corr_types; r = corr_types.run(rng, n=6000 if tier == "thorough" else 1500)
            inc = [d for d in r["disagreements"] if in_cone(suite, cone, d)]
            res[suite] = {"cases": r["cases"], "nontrivial": r["nontrivial"], "disagreements": len(inc), "out_of_cone_disagreements": len(r["disagreements"]) - len(inc), "first": [{k: v for k, v in d.items() if k != "hint"} for d in inc[:3]],
                          "hints": [d["hint"] for d in inc if d.get("hint")][:40]}
        except Exception as e:
            res[suite] = {"cases": 0, "nontrivial": 0, "disagreements": 1, "out_of_cone_disagreements": 0, "first": [{"op": "suite crashed", "model": "", "impl": "%s: %s" % (type(e).__name__, str(e)[:300])}], "crash": traceback.format_exc()[-800:]}
    return res


def write_replay(pid, rec):
    d = os.path.join(VERIF, "replays", pid)
    os.makedirs(d, exist_ok=True)
    h = hashlib.sha1(json.dumps(rec, sort_keys=True, default=str).encode()).hexdigest()[:12]
    path = os.path.join(d, h + ".json")
    with open(path, "w", encoding="utf-8") as fd:
        json.dump(rec, fd, indent=1, ensure_ascii=False, default=str)
    return os.path.relpath(path, VERIF)


def main():
    t0 = time.time()
    # process environment is an input too: the checks run under a local zone with daylight saving; nothing the library
    # computes may depend on it (the C03 sweep additionally brackets the real clock under other zones in child processes)
    os.environ["TZ"] = os.environ.get("QA_TZ", "Europe/Berlin")
    time.tzset()
    args = sys.argv[1:]
    pid = args[0]
    tier = qa.tier()
    replay = None
    if "--tier" in args: tier = args[args.index("--tier") + 1]
    if "--replay" in args: replay = args[args.index("--replay") + 1]
    os.environ["VERIF_TIER"] = tier
    seed = qa.seed()
    rng = random.Random(seed * 1000003 + int(pid[1:]))
    if replay:
        return do_replay(pid, replay)
    ev_path = os.path.join(os.environ.get("QA_EVIDENCE_DIR") or os.path.join(VERIF, "evidence"), pid + ".json")   # QA_EVIDENCE_DIR: seeded-change trials write elsewhere
    os.makedirs(os.path.dirname(ev_path), exist_ok=True)
    violations = []       # (replay_path, no_failing_input_found)
    known_lines = []
    os.environ["VERIF_TIER_EFFECTIVE"] = tier
    ba = build_and_audit(pid)
    broken = []           # names of obligations that no longer check
    obligations, discharged = 0, 0
    for t in ba["theorems"]:
        obligations += 1
        if t["ok"]: discharged += 1
        else: broken.append("theorem QuickAdd.%s.%s" % (pid, t["name"]))
    if ba["forbidden"]:
        broken.append("audit: " + "; ".join(ba["forbidden"][:3]))
    if not ba["theorems"] and not ba["import_error"]:
        broken.append("no property theorems found for " + pid)
    corr = {}
    sweep = None
    corpus_fails, corpus_n = [], 0
    fails = []
    if ba["import_error"]:
        path = write_replay(pid, {"property": pid, "kind": "import-error", "what": "the package cannot be imported: every input fails", "error": ba["import_error"], "replay": "python -c 'import ctparse'"})
        violations.append((path, False))
    else:
        sys.path.insert(0, qa.REPO)
        try:
            corpus_fails, corpus_n = run_corpus(pid)
        except Exception as e:
            corpus_fails = [{"text": "(corpus)", "ts": None, "opts": {}, "expected": "runs", "observed": "%s: %s" % (type(e).__name__, e), "what": "regression corpus crashed"}]
        if ba["driver_ok"]:
            corr = run_corr(pid, rng, tier)
        else:
            broken.append("model does not build against the regenerated data (see errors)")
        for s, r in corr.items():
            obligations += 1
            if r["disagreements"] == 0: discharged += 1
            else: broken.append("correspondence %s: %d disagreements, first: %s" % (s, r["disagreements"], json.dumps(r["first"][:1], ensure_ascii=False, default=str)[:700]))
        mod, fn = PROPS[pid]["sweep"]
        # known findings (the listed ones only; the file is never written at run time)
        findings, fixed = load_known(pid)
        from realparse import eval_case
        stale = []
        matched = collections.Counter()
        for f in findings:
            pr = f["probe"]
            rec = eval_case((pr["text"], tuple(pr["ts"]) if pr.get("ts") else None, pr.get("opts") or {}))
            obs = rec.get("res") if not rec.get("err") else "EXC " + rec["err"]
            if obs != pr.get("expected"):
                known_lines.append("KNOWN-FINDING: property=%s %s (probe %r -> %s, specification %s)" % (pid, f["what"], pr["text"], obs, pr.get("expected")))
            else:
                stale.append(f["what"])

        def _normalised(t):
            try:
                return sys.modules["ctparse.ctparse"]._preprocess_string(t)
            except Exception:
                return t

        def _variants(t):
            # the input as given, normalised, in lower case, and with its hashtags cut out (separator, letter-case and label
            # variants of a listed input are the same finding: the equivalences of C11 and C10)
            n = _normalised(t)
            nl = re.sub(" +", " ", re.sub("#[a-zA-Z0-9_-]+", "", n)).strip()
            return [t, n, n.lower(), nl, nl.lower()]

        def unlisted(fs):
            rest = []
            for x in fs:
                hit = None
                for f in findings:
                    # the key is matched against the input as given, against its normalised form and against that in lower case
                    # (separator and letter-case variants of a listed input are the same finding: C11's equivalences)
                    if x.get("text") is not None and any(re.search(f["regex"], v) for v in _variants(x["text"])):
                        # a finding is identified by the input *and by the way it fails*: another wrong answer on a listed
                        # input is another violation
                        if f.get("obs") and not re.search(f["obs"], str(x.get("observed"))):
                            continue
                        if f.get("depth0"):
                            o2 = dict(x.get("opts") or {}); o2["max_stack_depth"] = 0
                            r2 = eval_case((x["text"], tuple(x["ts"]) if x.get("ts") else None, {k: v for k, v in o2.items() if k in ("latent_time", "max_stack_depth", "relative_match_len")}))
                            if r2.get("res") != x.get("expected"):
                                continue
                        hit = f; break
                if hit: matched[hit["what"]] += 1
                else: rest.append(x)
            return rest

        def run_sweep(r, t):
            try:
                return getattr(__import__(mod), fn)(r, t)
            except Exception as e:
                # the harness itself could not evaluate the property on this tree (e.g. a pattern outside the translated regex
                # subset): the property is then not shown to hold, but there is no input on which it was seen to fail
                msg = "sweep could not run: %s: %s" % (type(e).__name__, str(e)[:300])
                if msg not in broken: broken.append(msg)
                return {"evaluations": 0, "distinct_nontrivial": 0, "failures": [], "samples": [], "rule": "", "distribution": {}, "crash": traceback.format_exc()[-1500:]}
        sweep = run_sweep(rng, tier)
        fails = unlisted(corpus_fails + sweep["failures"])
        if broken and tier == "quick" and not fails:
            # failing-input search: a proof obligation or the correspondence broke -> look deeper on the real code
            log("tie broken (%s) - escalating the sweep to look for a failing input" % broken[0][:160])
            matched.clear()
            deeper = run_sweep(random.Random(seed + 7919), "thorough")
            deeper["escalated"] = True
            sweep = deeper
            fails = unlisted(corpus_fails + sweep["failures"])
        directed_n = 0
        if broken and not fails and ba["driver_ok"]:
            # directed failing-input search: the argument tuples on which a rule-level obligation broke, rendered as text and
            # parsed end to end by the code and by the model
            hints = [h for v in corr.values() for h in v.get("hints", [])]
            if hints:
                try:
                    import corr_search
                    found = corr_search.directed(hints)
                    directed_n = len(hints)
                    for f in found:
                        f["what"] = "%s: end-to-end stream of the code deviates from the verified model on an input derived from the broken obligation" % pid
                    fails = fails + found
                    log("directed search on %d rendered argument tuples: %d deviating inputs" % (len(hints), len(found)))
                except Exception as e:
                    log("directed search crashed: %s: %s" % (type(e).__name__, str(e)[:200]))
        if fails:
            first = fails[0]
            rec = {"property": pid, "kind": "failing-input", "text": first.get("text"), "ts": first.get("ts"), "opts": first.get("opts"), "expected": first.get("expected"), "observed": first.get("observed"),
                   "what": first.get("what"), "seed": seed, "tier": tier, "other_failures": len(fails) - 1, "broken_obligations": broken[:5],
                   "more": [{k: v for k, v in f.items() if k in ("text", "ts", "expected", "observed", "what")} for f in fails[1:6]]}
            violations.append((write_replay(pid, rec), False))
        elif broken:
            rec = {"property": pid, "kind": "no-failing-input-found", "what": "a proof obligation or the correspondence no longer checks and the escalated sweep found no input violating the property",
                   "broken_obligations": broken, "errors": ba["errors"][:3], "seed": seed, "tier": tier, "sweep_evaluations": sweep["evaluations"] if sweep else 0}
            violations.append((write_replay(pid, rec), True))
    wall = time.time() - t0
    cov = {"obligations": max(obligations, 1), "discharged": discharged,
           "checker_cmd": "cd lean && lake build QuickAdd.Props.%s && lake env lean Audit/%s.lean   (plus harness/check.py %s for the correspondences and the sweep)" % (pid, pid, pid),
           "trusted_base": TRUSTED,
           "theorems": ba["theorems"], "correspondence": {k: {kk: vv for kk, vv in v.items() if kk not in ("crash", "hints")} for k, v in corr.items()},
           "evaluations": (sweep or {}).get("evaluations", 0) + sum(v["cases"] for v in corr.values()) + corpus_n,
           "distinct_nontrivial": (sweep or {}).get("distinct_nontrivial", 0),
           "rule": (sweep or {}).get("rule", ""), "samples": (sweep or {}).get("samples", [])[:6] or [{"note": "no sweep sample"}],
           "distribution": (sweep or {}).get("distribution", {}), "traces_validated_against_impl": sum(v["cases"] for v in corr.values()),
           "regression_corpus_cases": corpus_n, "translator": ba["translator"], "broken_obligations": broken,
           "known_findings_matched": dict(matched) if not ba["import_error"] else {}, "known_findings_stale": stale if not ba["import_error"] else [],
           "escalated": bool((sweep or {}).get("escalated")),
           "independent_recheck": ba.get("rechecked")}       # thorough tier: `lake env leanchecker` on the property modules
    ev = {"property_id": pid, "tier": tier, "seed": seed, "level": "proof", "coverage": cov, "wall_s": round(wall, 1), "violations": len(violations),
          "assumptions": ["the hand-written model agrees with the code on the generated inputs (correspondence), not proved", "ranking of the intended reading by the pickled float model is observed by the sweep, not proved",
                          "third-party behaviour (regex, datetime, dateutil) is modelled"]}
    with open(ev_path, "w", encoding="utf-8") as fd:
        json.dump(ev, fd, indent=1, ensure_ascii=False, default=str)
    for l in known_lines:
        log(l)
    log("%s tier=%s seed=%d theorems=%d/%d corr=%s sweep=%s wall=%.0fs" % (pid, tier, seed, sum(1 for t in ba["theorems"] if t["ok"]), len(ba["theorems"]),
                                                                        {k: "%d/%d" % (v["disagreements"], v["cases"]) for k, v in corr.items()}, "%d evaluations, %d failures" % ((sweep or {}).get("evaluations", 0), len(fails)), wall))
    if violations:
        for path, nf in violations:
            log("VIOLATION property=%s replay=%s%s" % (pid, path, " no-failing-input-found" if nf else ""))
        return 1
    return 0


def do_replay(pid, path):
    rec = json.load(open(path if os.path.isabs(path) else os.path.join(VERIF, path), encoding="utf-8"))
    sys.path.insert(0, qa.REPO)
    if rec.get("kind") == "failing-input" and rec.get("text") is not None and not str(rec.get("text")).startswith("("):
        from realparse import eval_case
        r = eval_case((rec["text"], tuple(rec["ts"]) if rec.get("ts") else None, {k: v for k, v in (rec.get("opts") or {}).items() if k in ("latent_time", "max_stack_depth", "relative_match_len", "timeout")}))
        log("input %r ts=%s -> %s (recorded: observed %s, expected %s)" % (rec["text"], rec.get("ts"), r.get("res") if not r.get("err") else "EXC " + r["err"], rec.get("observed"), rec.get("expected")))
    else:
        log(json.dumps(rec, indent=1, ensure_ascii=False)[:3000])
    # the authoritative answer is the check itself
    os.execv(sys.executable, [sys.executable, os.path.abspath(__file__), pid, "--tier", "quick"])


if __name__ == "__main__":
    try:
        # the generated tables and the compiled driver are shared: runs on the registered repository may overlap (they regenerate
        # the same data), a run on another tree (QUICKADD_REPO, used for trials of changed code) excludes every other run
        _rl = open(os.path.join(VERIF, ".runlock"), "w")
        fcntl.flock(_rl, fcntl.LOCK_SH if os.path.realpath(qa.REPO) == "/repo" else fcntl.LOCK_EX)
        sys.exit(main())
    except SystemExit:
        raise
    except Exception:
        traceback.print_exc()
        sys.exit(2)
