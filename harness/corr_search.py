"""Search-level correspondence: pre-processing, labels, tokens, sequence enumeration, and the complete
candidate stream (value, span, trace, score; subject; labels; best) under an injective synthetic scorer
(sequence compared) and the constant scorer (multiset compared), incl. depth limits, relative_match_len,
latent on/off and every deadline-check index (deadline oracle)."""
import random, sys, itertools, collections
from qa import samp
from datetime import datetime
from qa import Driver, enc
from codec import enc_art, enc_ts
from realparse import label_free

C = None


def mods():
    global C
    import ctparse  # noqa
    C = sys.modules["ctparse.ctparse"]
    return C


def strhash(s):
    h = 7
    for c in s:
        h = (h * 131 + ord(c)) % 1000000007
    return h


def prod_key(pp):
    return " ".join(enc_art(a) for a in pp.prod) + "|" + ",".join(str(r) for r in pp.rules)


def make_scorers():
    from ctparse.scorer import Scorer, DummyScorer

    class HashScorer(Scorer):
        def score(self, txt, ts, pp):
            return float(strhash(prod_key(pp)))

        def score_final(self, txt, ts, pp, prod):
            return float(strhash(prod_key(pp) + "#" + enc_art(prod)))
    return {"hash": HashScorer, "const": DummyScorer}


def cps(s):
    return " ".join(str(ord(c)) for c in s) if s else "-"


class Deadline(Exception):
    pass


def run_real(txt, ts, scorer_name, latent, depth, num, den, deadline):
    """returns the same line the driver prints for `parse`"""
    C = mods()
    from ctparse.timers import CTParseTimeoutError
    sc = make_scorers()[scorer_name]()
    calls = [0]
    orig = C.timeout_

    def fake_timeout(t):
        def _tt():
            k = calls[0]
            calls[0] += 1
            if deadline is not None and k >= deadline:
                raise CTParseTimeoutError()
        return _tt
    C.timeout_ = fake_timeout
    out, err = [], "-"
    subject = labels = None
    try:
        try:
            for p in C.ctparse_gen(txt, ts=ts, timeout=1, relative_match_len=num / den, max_stack_depth=depth, scorer=sc, latent_time=latent):
                if p is None:
                    continue
                out.append((enc_art(p.resolution), ",".join(str(r) for r in p.production), p.score))
                subject, labels = p.subject, p.labels
        except Exception as e:
            err = type(e).__name__
    finally:
        C.timeout_ = orig
    single = None
    if deadline is None and err == "-":
        # the single-result call with identical arguments (fresh scorer instance): must be the stream's last maximum
        try:
            r = C.ctparse(txt, ts=ts, timeout=0, relative_match_len=num / den, max_stack_depth=depth, scorer=make_scorers()[scorer_name](), latent_time=latent)
            single = "N" if r.resolution is None else "%s|%s|%d" % (enc_art(r.resolution), ",".join(str(x) for x in r.production), int(r.score))
        except Exception as e:
            single = "EXC " + type(e).__name__
    return out, subject, labels, err, calls[0], single


def fmt(out, subject, labels, err):
    cands = ";;".join("%s|%s|%d" % (a, t, int(s)) for a, t, s in out)
    best = "N"
    if out:
        b = sorted(out, key=lambda x: x[2])[-1]
        # last maximum of the stable sort
        best = "%s|%s|%d" % (b[0], b[1], int(b[2]))
    return cands, cps(subject) if subject is not None else None, "|".join(cps(l) for l in labels) if labels is not None else None, err, best


def texts(rng, n):
    from ctparse.time.corpus import corpus
    from ctparse.time.auto_corpus import corpus as ac
    base = [(t, datetime.strptime(tss, "%Y-%m-%dT%H:%M")) for _, tss, tests in corpus for t in tests]
    auto = [(t, datetime.strptime(tss, "%Y-%m-%dT%H:%M")) for _, tss, tests in ac for t in tests]
    pool = [x for x in base if len(x[0]) <= 28] + samp(rng, auto, 100)
    pool = [x for x in pool if len(x[0]) <= 28]
    extra = [("lunch tomorrow 5pm #work", datetime(2018, 3, 7, 12, 43)), ("5 5 5", datetime(2018, 3, 7, 12, 43)), ("9-5", datetime(2020, 2, 29, 23, 59, 59)),
             ("a #x b", datetime(2018, 3, 7)), ("gargelbabel", datetime(2018, 3, 7)), ("", datetime(2018, 3, 7)), ("#only", datetime(2018, 3, 7)),
             ("foo, bar tomorrow", datetime(2018, 3, 7)), ("early early morning", datetime(2018, 3, 7, 5, 0)), ("31.", datetime(2019, 2, 10)),
             ("12 am", datetime(2019, 2, 10, 0, 0)), ("monday foo", datetime(2019, 2, 10)), ("tomorrow #work 5pm", datetime(2019, 2, 10)),
             ("call call bob monday", datetime(2019, 2, 10)), ("8 - 9 uhr #a-b", datetime(2019, 2, 10))]
    # two expressions joined by one character and no blank (which characters separate, glue or leave a gap is the code's decision)
    for g in samp(rng, list("!$%&'()*+,./:;<=>?@[]^_`{|}~") + ["x", "§", "×"], 8):
        a, b = rng.choice(["tomorrow", "5.12.2020", "monday", "3 may"]), rng.choice(["5pm", "8:30", "9h", "noon"])
        extra.append((a + g + b, datetime(2018, 3, 7, 12, 43)))
    rng.shuffle(pool)
    return extra + pool[:n]


def run(rng, n_texts=60, deadlines=True):
    C = mods()
    drv = Driver()
    ops, want, meta = [], [], []
    sample = texts(rng, n_texts)
    # function-level ops on all texts
    for txt, ts in sample:
        pt = C._preprocess_string(txt)
        ops.append("pre " + enc(txt)); want.append(cps(pt)); meta.append(("pre", txt))
        lab = C._get_labels(pt)
        stripped = label_free(pt)
        ops.append("labels " + enc(pt)); want.append("|".join(cps(l) for l in lab) + " ## " + cps(stripped)); meta.append(("labels", pt))
        ms = C._match_regex(stripped, C.global_regex)
        ops.append("tokens " + enc(stripped))
        want.append(" ".join(sorted((enc_art(m) for m in ms), key=lambda s: s)))
        meta.append(("tokens", stripped))
        n = [0]
        seqs = C._regex_stack(stripped, sorted(ms, key=lambda x: (x.mstart, x.mend, x.id)), lambda: n.__setitem__(0, n[0] + 1))
        ops.append("stack " + enc(stripped))
        want.append("%d " % n[0] + ";".join(" ".join(enc_art(m) for m in s) for s in seqs))
        meta.append(("stack", stripped))
        r = C.ctparse(txt, ts=ts, timeout=0)
        if r.resolution is None:
            ops.append("nomatch " + enc(txt)); want.append(cps(r.subject) + " ## " + "|".join(cps(l) for l in r.labels)); meta.append(("nomatch", txt))
    # full streams
    cfgs = [("hash", True, 10, 1, 1), ("hash", False, 0, 1, 1), ("hash", True, 1, 1, 1), ("hash", False, 3, 1, 2), ("const", False, 0, 1, 1), ("const", True, 10, 3, 4)]
    for txt, ts in sample:
        for (scn, latent, depth, num, den) in cfgs:
            out, subject, labels, err, ncalls, single = run_real(txt, ts, scn, latent, depth, num, den, None)
            ops.append("parse %s %s %d %d %d %d - %s" % (scn, enc_ts(ts), 1 if latent else 0, depth, num, den, enc(txt)))
            want.append((scn, fmt(out, subject, labels, err), single))
            meta.append(("parse", txt, ts, scn, latent, depth, num, den, None))
            if deadlines and scn == "hash" and depth in (10, 0) and ncalls <= 60:
                for k in range(0, ncalls + 1):
                    o2, s2, l2, e2, _, _s = run_real(txt, ts, scn, latent, depth, num, den, k)
                    ops.append("parse %s %s %d %d %d %d %d %s" % (scn, enc_ts(ts), 1 if latent else 0, depth, num, den, k, enc(txt)))
                    want.append((scn, fmt(o2, s2, l2, e2), None))
                    meta.append(("parse", txt, ts, scn, latent, depth, num, den, k))
    got = drv.run(ops)
    bad = []
    nontrivial = 0
    for op, w, g, m in zip(ops, want, got, meta):
        if m[0] == "tokens":
            g2 = " ".join(sorted(g.split(" "))) if g else ""
            ok = g2 == w
        elif m[0] == "parse":
            scn, (cands, subj, labs, err, best), single = w
            parts = g.split(" ## ")
            if len(parts) != 5:
                ok = False
            else:
                gc, gs, gl, ge, gb = parts
                if scn == "hash":
                    ok = gc == cands
                else:
                    # constant scorer: ties are broken by set iteration order (not modelled); without a depth
                    # limit the *set of values* is order independent, with one nothing is compared but errors
                    # (even the *set* of emitted values depends on the visiting order: a production emits its partial values exactly when
                    # all its successors were already seen) -> only the exception status and emptiness are compared
                    ok = (gc == "") == (cands == "")
                ok = ok and ge == err
                if cands:
                    nontrivial += 1
                    if scn == "hash":
                        ok = ok and gs == subj and gl == labs
                    if scn == "hash":
                        ok = ok and gb == best
                        if single is not None:
                            ok = ok and single == gb        # real ctparse() vs the model's best of the stream
            w = "%s ## %s ## %s ## %s ## %s" % (cands, subj, labs, err, best)
        else:
            ok = g == w
            if w not in ("-", "", " ## -"):
                nontrivial += 1
        if not ok:
            bad.append({"op": op, "kind": m[0], "input": repr(m[1:]), "model": g, "impl": w})
    return {"name": "search", "cases": len(ops), "nontrivial": nontrivial, "disagreements": bad}


def directed(hints, limit=24):
    """failing-input search after a broken rule-level obligation: the rendered argument texts are parsed end to end by the real
    code and by the model (injective scorer, no depth limit, latent on and off); returns the inputs whose streams differ.
    Timezone-aware reference times are replayed *after* a parse of the same text at the same instant in the other pool zones
    (a cache keyed by the reference time needs that history); every text is also tried at a reference year below 100."""
    mods()
    from datetime import timedelta, timezone
    drv = Driver()
    ops, want, meta = [], [], []
    seen = set()
    try:
        from corr_rules import aware_pool
        apool = aware_pool()
    except Exception:
        apool = []
    for h in hints:
        if not h:
            continue
        base = datetime(*h["ts"])
        if h.get("utcoffset_min") is not None:
            base = base.replace(tzinfo=timezone(timedelta(minutes=h["utcoffset_min"])))
        variants = [base] + ([datetime(50, 6, 15, 12, 0)] if base.tzinfo is None else [])
        for ts in variants:
            for txt in h["texts"]:
                key = (txt, ts.isoformat())
                if key in seen or len(seen) >= limit:
                    continue
                seen.add(key)
                history = [p for p in apool if ts.tzinfo is not None and p == ts and p.utcoffset() != ts.utcoffset()]
                for latent in (False, True):
                    for p in history:
                        try:
                            run_real(txt, p, "hash", latent, 0, 1, 1, None)
                        except Exception:
                            pass
                    out, subject, labels, err, ncalls, single = run_real(txt, ts, "hash", latent, 0, 1, 1, None)
                    ops.append("parse hash %s %d 0 1 1 - %s" % (enc_ts(ts), 1 if latent else 0, enc(txt)))
                    want.append(fmt(out, subject, labels, err))
                    meta.append((txt, [ts.year, ts.month, ts.day, ts.hour, ts.minute, ts.second], latent, None if ts.tzinfo is None else int(ts.utcoffset().total_seconds() // 60), [p.isoformat() for p in history]))
    got = drv.run(ops) if ops else []
    bad = []
    for g, (cands, subj, labs, err, best), (txt, ts, latent, off, hist) in zip(got, want, meta):
        parts = g.split(" ## ")
        if len(parts) == 5 and parts[3].lower().startswith("unmodelled"):
            # the model has no answer here (a production or construct it does not cover, or its fuel): that is a gap of the
            # model, not an input on which the property fails
            continue
        if len(parts) != 5 or parts[0] != cands or parts[3] != err:
            mc = parts[0].split(";;") if len(parts) == 5 else [g]
            ic = cands.split(";;")
            only_m = [x for x in mc if x not in ic][:3]; only_i = [x for x in ic if x not in mc][:3]
            o = {"latent_time": latent, "max_stack_depth": 0, "scorer": "injective synthetic"}
            if off is not None:
                o["reference_utcoffset_min"] = off
                o["history"] = "the same text was parsed before at the same instant given in other zones: %s" % hist
            bad.append({"text": txt, "ts": ts, "opts": o,
                        "expected": "model: error=%s; candidates only in the model: %s" % (parts[3] if len(parts) == 5 else "?", only_m),
                        "observed": "code: error=%s; candidates only in the code: %s" % (err, only_i)})
    return bad


if __name__ == "__main__":
    r = run(random.Random(int(sys.argv[1]) if len(sys.argv) > 1 else 0), int(sys.argv[2]) if len(sys.argv) > 2 else 60)
    print(r["cases"], r["nontrivial"], len(r["disagreements"]))
    c = collections.Counter(b["kind"] for b in r["disagreements"])
    print(c)
    shown = collections.Counter()
    for b in r["disagreements"]:
        if shown[b["kind"]] < 4:
            shown[b["kind"]] += 1
            print(b["kind"], b["input"]); print("   model:", b["model"][:600]); print("   impl: ", b["impl"][:600])
