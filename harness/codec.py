"""Encoding of ctparse artifacts into the driver's token format (mirror of QuickAdd/Model/Codec.lean)."""
from datetime import datetime


def _n(x):
    return "N" if x is None else str(x)


def enc_time(t):
    return ":".join([_n(t.year), _n(t.month), _n(t.day), _n(t.hour), _n(t.minute), _n(t.DOW), _n(t.POD)])


def enc_opt_time(t):
    return "N" if t is None else enc_time(t)


def enc_val(a):
    from ctparse.types import Time, Interval, Duration, RegexMatch
    if isinstance(a, RegexMatch):
        gi = a.match.re.groupindex
        caps = []
        for n in gi:
            if n.startswith("_") or n == a.key:
                continue
            if a.match.span(n) != (-1, -1):
                caps.append("%s=%s" % (n, ".".join(str(ord(c)) for c in a.match.group(n))))
        return "K:%d:%s" % (a.id, ";".join(sorted(caps, key=lambda c: c.split("=")[0])))
    if isinstance(a, Time):
        return "T:" + enc_time(a)
    if isinstance(a, Interval):
        return "I:%s/%s" % (enc_opt_time(a.t_from), enc_opt_time(a.t_to))
    if isinstance(a, Duration):
        return "D:%d:%s" % (a.value, a.unit.value)
    raise TypeError(type(a))


def enc_art(a):
    return "%s@%d:%d" % (enc_val(a), a.mstart, a.mend)


def enc_ts(ts):
    return "%d,%d,%d,%d,%d" % (ts.year, ts.month, ts.day, ts.hour, ts.minute)


def canon_val(s):
    """tokens' capture lists are irrelevant in results (a rule never returns a token)"""
    return s
