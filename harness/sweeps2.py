"""Sweeps for C01, C02, C09-C19 (statement-level oracles on the real code)."""
import calendar, collections, copy, itertools, json, math, os, random, re, subprocess, sys, threading
from datetime import date, datetime, timedelta
import grammar as G
from realparse import parse_many, T, I, _init, to_ts
from sweeps import finish, dec_time, dec_interval, dt_of
from qa import REPO, VERIF

TOKS = ["31.04.", "30.02.2019", "29.02.2019", "9-5", "8pm", "8", "20:00", "morning", "early", "late", "very", "früh", "spät", "sehr", "night", "friday", "mon", "next", "this", "at", "on", "am", "um",
        "for", "für", "3 days", "two nights", "half an hour", "1/2 day", "from", "to", "-", "until", "before", "after", "not before", "tomorrow", "heute", "now", "eom", "eoy", "march", "5th", "5.",
        "12.5.", "2019", "1930", "quarter to", "half", "halb", "noon", "midnight", "first", "last", "#x", "foo", "between", "and", "von", "bis", "31", "0:00", "24", "12 am", "12 pm", "13am", "0 pm",
        "12.12.2020", "May 5th", "of", "the", "in the", "uhr", "h", "o'clock", "twelve", "zwölf", "einundzwanzig tage", "1 month", "monat", "weeks", "31 jan", "jan", "feb 29", "29. feb",
        "30. februar", "februar", "april", "31.", "30.", "29.", "12:30-12:15", "tonight", "12", "99999999 days", "8 uhr", "İ", "ß", "ﬁ", "٣", "１２", "٣ tage", " ", "(", ")", ";", "—", "12:00-0:00"]


def wf_time(t, where, bad):
    from ctparse.types import pod_hours
    if t.month is not None and not 1 <= t.month <= 12: bad.append(where + " month")
    if t.hour is not None and not 0 <= t.hour <= 23: bad.append(where + " hour %r" % t.hour)
    if t.minute is not None and not 0 <= t.minute <= 59: bad.append(where + " minute")
    if t.DOW is not None and not 0 <= t.DOW <= 6: bad.append(where + " dow")
    if t.POD is not None and t.POD not in pod_hours: bad.append(where + " pod %r" % t.POD)
    if t.day is not None:
        if not 1 <= t.day <= 31: bad.append(where + " day")
        elif t.month is not None and 1 <= t.month <= 12:
            y = t.year if t.year is not None else 2000
            if 1 <= y <= 9999 and t.day > calendar.monthrange(y, t.month)[1]: bad.append(where + " day-not-in-month")
    for acc in ("start", "end"):
        try: getattr(t, acc)
        except Exception as e: bad.append(where + " %s raises %s" % (acc, type(e).__name__))
    if t.hasDate:
        try: t.dt
        except Exception as e: bad.append(where + " dt raises %s" % (type(e).__name__))


def fuzz_case(case):
    """all candidates of one generated text under one option setting; returns a list of problems"""
    _init()
    from ctparse import ctparse, ctparse_gen
    from ctparse.types import Time, Interval, Duration
    from ctparse.scorer import DummyScorer, RandomScorer
    from ctparse.ctparse import _preprocess_string
    text, ts, o = case
    probs = []
    kw = dict(timeout=o.get("timeout", 0), latent_time=o["latent"], max_stack_depth=o["depth"], relative_match_len=o["rml"])
    if o["scorer"] == "const": kw["scorer"] = DummyScorer()
    elif o["scorer"] == "random": kw["scorer"] = RandomScorer(random.Random(o["seed"]))
    n = 0
    try:
        norm = _preprocess_string(text)
        for r in ctparse_gen(text, ts=to_ts(ts), **kw):
            if r is None: continue
            n += 1
            if n > 4000: break
            str(r); repr(r)
            res = r.resolution; bad = []
            if not isinstance(r.subject, str): bad.append("subject not str")
            if not (isinstance(r.labels, list) and all(isinstance(l, str) for l in r.labels)): bad.append("labels not list[str]")
            if not (isinstance(r.score, float) and math.isfinite(r.score)) and not isinstance(r.score, int): bad.append("score not finite %r" % (r.score,))
            if isinstance(res, Time): wf_time(res, "T", bad)
            elif isinstance(res, Interval):
                for nm, x in (("from", res.t_from), ("to", res.t_to)):
                    if x is not None: wf_time(x, "I." + nm, bad)
                try:
                    res.start; res.end
                    if res.t_from is not None and res.t_to is not None and res.t_from.hasDate and res.t_to.hasDate:
                        if res.t_from.start.dt > res.t_to.end.dt: bad.append("I inverted")
                except Exception as e: bad.append("I accessor raises " + type(e).__name__)
            if not (0 <= res.mstart < res.mend <= len(norm)): bad.append("span %d-%d outside normalised text of length %d" % (res.mstart, res.mend, len(norm)))
            for b in bad: probs.append(("WF", b, repr(res)))
        # the single-result call, incl. debug flag
        r = ctparse(text, ts=to_ts(ts), debug=o.get("debug", False), **kw)
        if o.get("debug", False):
            for x in r:
                if x is not None: str(x); repr(x)
        else:
            str(r); repr(r)
            if not isinstance(r.subject, str): probs.append(("WF", "subject not str", ""))
            if not isinstance(r.labels, list): probs.append(("WF", "labels not list", ""))
    except Exception as e:
        import traceback
        tb = traceback.extract_tb(e.__traceback__)
        probs.append(("EXC", type(e).__name__ + ": " + str(e)[:60], " < ".join("%s:%d" % (f.name, f.lineno) for f in tb[-3:])))
    return {"n": n, "probs": probs}


def gen_fuzz_cases(rng, n):
    refs = [(2018, 3, 7, 12, 43, 0), (2020, 2, 29, 23, 59, 59), (2019, 12, 31, 0, 0, 0), (2021, 1, 31, 9, 0, 1), (1970, 1, 1, 0, 0, 0), (2100, 12, 31, 23, 59, 59), (2019, 2, 28, 12, 0, 0)]
    cases = []
    import unicodedata
    for i in range(n):
        k = rng.randint(1, 4)
        mode = rng.random()
        if mode < 0.8:
            t = " ".join(rng.choice(TOKS) for _ in range(k))
        elif mode < 0.9:
            t = "".join(chr(rng.choice([rng.randint(32, 126), rng.randint(160, 0x2FF), rng.randint(0x600, 0x6FF), rng.randint(0x2000, 0x206F), rng.randint(0x1D7CE, 0x1D7FF), rng.randint(0xFF10, 0xFF19)])) for _ in range(rng.randint(0, 24)))
        else:
            t = rng.choice(TOKS) + rng.choice(["", " ", "\t", ",", "("]) + "".join(chr(rng.randint(32, 0x24F)) for _ in range(rng.randint(0, 6))) + rng.choice(TOKS)
        o = {"latent": rng.random() < 0.5, "depth": rng.choice([0, 1, 10]), "rml": rng.choice([1.0, 0.5, 0.25, 0.0625, 0.75]), "scorer": rng.choice(["shipped", "shipped", "const", "random"]),
             "seed": rng.randrange(1000), "debug": rng.random() < 0.15, "timeout": 0 if rng.random() < 0.8 else 0.5}
        cases.append((t, rng.choice(refs), o))
    return cases


def sweep_fuzz(rng, tier, which):
    """shared by C01 (exceptions, rendering, types) and C02 (well-formedness of all candidates)"""
    import multiprocessing as mp
    n = 12000 if tier == "thorough" else 1500
    cases = gen_fuzz_cases(rng, n)
    ctx = mp.get_context("fork")
    with ctx.Pool(min(16, os.cpu_count() or 1)) as pool:
        recs = pool.map(fuzz_case, cases, chunksize=20)
    fails = []
    ncand = 0
    seen = set()
    dist = collections.Counter()
    for c, r in zip(cases, recs):
        ncand += r["n"]
        if r["n"]: seen.add((c[0], c[1], json.dumps(c[2], sort_keys=True)))
        dist["scorer=" + c[2]["scorer"]] += 1; dist["depth=%d" % c[2]["depth"]] += 1; dist["latent=%s" % c[2]["latent"]] += 1
        for kind, what, detail in r["probs"]:
            if (which == "C01" and kind == "EXC") or (which == "C01" and kind == "WF" and ("subject" in what or "labels" in what or "score" in what)) or (which == "C02" and kind == "WF" and not ("subject" in what or "labels" in what)):
                fails.append({"text": c[0], "ts": list(c[1]), "opts": c[2], "expected": "no exception, well-formed candidates", "observed": "%s %s %s" % (kind, what, detail), "what": "%s fuzz: %s" % (which, what.split(":")[0])})
    samples = [{"text": c[0], "ts": list(c[1]), "opts": c[2], "candidates": r["n"]} for c, r in list(zip(cases, recs))[:4]]
    dist["candidates_checked"] = ncand
    return {"evaluations": len(cases), "distinct_nontrivial": len(seen), "failures": fails, "samples": samples,
            "rule": "token-soup and random-Unicode texts x reference times 1970-2100 x {latent, depth 0/1/10, relative_match_len, scorer shipped/const/random, debug, timeout}; every candidate of the stream is rendered and checked; non-trivial = distinct case with >= 1 candidate",
            "distribution": dict(dist)}


def sweep_c01(rng, tier):
    r = sweep_fuzz(rng, tier, "C01")
    # configuration fault: shipped model file absent -> documented fallback to the constant scorer (fresh interpreter, os.path.exists intercepted)
    code = r'''
import os, sys
sys.path.insert(0, %r)
_real = os.path.exists
os.path.exists = lambda p: False if str(p).endswith("model.pbz") else _real(p)
import warnings; warnings.simplefilter("ignore")
import ctparse
C = sys.modules["ctparse.ctparse"]
os.path.exists = _real
from datetime import datetime
bad = []
from ctparse.scorer import DummyScorer
if not isinstance(C._DEFAULT_SCORER, DummyScorer): bad.append("default scorer is %%r" %% (C._DEFAULT_SCORER,))
for t in ["tomorrow 5pm", "", "gargelbabel", "9-5", "friday 8pm-9pm #x", "12.12.2020 for 3 days"]:
    try:
        r = ctparse.ctparse(t, ts=datetime(2018, 3, 7, 12, 43), timeout=0)
        str(r); repr(r)
        assert isinstance(r.subject, str) and isinstance(r.labels, list)
        for x in ctparse.ctparse_gen(t, ts=datetime(2018, 3, 7, 12, 43), timeout=0): str(x)
    except Exception as e:
        bad.append("%%r: %%s: %%s" %% (t, type(e).__name__, e))
print("\n".join(bad))
sys.exit(1 if bad else 0)
''' % REPO
    p = subprocess.run(["/venv/bin/python", "-c", code], capture_output=True, text=True, timeout=300)
    r["evaluations"] += 6
    r["distribution"]["model-absent configuration"] = 6
    if p.returncode != 0:
        r["failures"].append({"text": "tomorrow 5pm", "ts": [2018, 3, 7, 12, 43, 0], "opts": {"config_fault": "model.pbz absent (os.path.exists intercepted in a fresh interpreter)"},
                              "expected": "fallback to the constant scorer, results as usual", "observed": (p.stdout + p.stderr)[-600:], "what": "C01 model-absent fallback"})
    return r


def sweep_c02(rng, tier):
    return sweep_fuzz(rng, tier, "C02")


# ------------------------------------------------------------------ C09
INERT = ["xyzzy", "qwrk", "lunch", "with", "bob", "call", "buy", "milk", "pay", "rent", "gym", "zoo", "jog", "привет", "会议", "ξένος", "hello", "hxyz", "hybrid", "blorp"]


def c09_case(case):
    _init()
    from ctparse import ctparse as cp
    C = sys.modules["ctparse.ctparse"]
    from ctparse.rule import _regex
    from codec import enc_val
    e, ts, pre, suf, latent = case
    t0 = to_ts(ts)
    pe = C._preprocess_string(e)
    try:
        base = cp(e, ts=t0, timeout=0, latent_time=latent)
    except Exception as x:
        return {"skip": "base-exc"}
    if base.resolution is None:
        return {"skip": "base-none"}
    txt = " ".join(pre + [pe] + suf)
    off = len(" ".join(pre)) + (1 if pre else 0)
    ms = C._match_regex(txt, _regex)

    def touches(lo, hi):
        return any(m.mstart < hi and m.mend > lo for m in ms)
    if (pre and touches(0, off - 1)) or (suf and touches(off + len(pe) + 1, len(txt))):
        return {"skip": "word-not-inert-in-context"}
    inner = {(m.id, m.mstart - off, m.mend - off) for m in ms}
    alone = {(m.id, m.mstart, m.mend) for m in C._match_regex(pe, _regex)}
    if inner != alone:
        return {"skip": "lexical-context-differs"}
    try:
        r = cp(txt, ts=t0, timeout=0, latent_time=latent)
    except Exception as x:
        return {"fail": "exception %s" % type(x).__name__, "text": txt}
    if r.resolution != base.resolution:
        return {"fail": "value: %s vs alone %s" % (r.resolution, base.resolution), "text": txt}
    got = txt[r.resolution.mstart:r.resolution.mend]; want = pe[base.resolution.mstart:base.resolution.mend]
    if got != want or not (0 <= r.resolution.mstart < r.resolution.mend):
        return {"fail": "span: %r vs alone %r" % (got, want), "text": txt}
    if r.subject.split() != pre + base.subject.split() + suf:
        return {"fail": "subject: %r vs %r + surrounding words" % (r.subject, base.subject), "text": txt}
    return {"ok": True, "text": txt}


def c09_expressions(rng, n_auto):
    from ctparse.time.corpus import corpus
    from ctparse.time.auto_corpus import corpus as ac
    P = lambda s: tuple(datetime.strptime(s, "%Y-%m-%dT%H:%M").timetuple()[:5]) + (0,)
    ex = [(t, P(tss)) for _, tss, tests in corpus for t in tests]
    ex += rng.sample([(t, P(tss)) for _, tss, tests in ac for t in tests], n_auto)
    ts0 = (2018, 3, 7, 12, 43, 0)
    ex += [(t, ts0) for t in ["8pm", "9-5", "11 to 1", "from 5pm - 7pm", "von 9 bis 11 uhr", "10", "tomorrow 8", "morgen 9", "friday 11", "am 3.4. um 7", "3 Feb 2020", "monday", "5pm - 7pm",
                               "tomorrow 5pm", "12.12.2020 8 uhr", "in the morning", "17:30", "heute 14 uhr"]]
    return ex


def sweep_c09(rng, tier):
    import multiprocessing as mp
    ex = c09_expressions(rng, 600 if tier == "thorough" else 120)
    cases = []
    reps = 4 if tier == "thorough" else 2
    for e, ts in ex:
        for _ in range(reps):
            pre = [rng.choice(INERT) for _ in range(rng.randint(0, 3))]
            suf = [rng.choice(INERT) for _ in range(rng.randint(0, 3))]
            if not pre and not suf: suf = [rng.choice(INERT)]
            cases.append((e, ts, pre, suf, rng.random() < 0.8))
    ctx = mp.get_context("fork")
    with ctx.Pool(min(16, os.cpu_count() or 1)) as pool:
        recs = pool.map(c09_case, cases, chunksize=10)
    fails, seen, dist = [], set(), collections.Counter()
    for c, r in zip(cases, recs):
        if "skip" in r: dist["skipped:" + r["skip"]] += 1; continue
        dist["checked"] += 1
        seen.add(r["text"])
        if "fail" in r:
            fails.append({"text": r["text"], "ts": list(c[1]), "opts": {"latent_time": c[4], "expression": c[0]}, "expected": "same resolution, span = the expression, subject = surrounding words", "observed": r["fail"], "what": "C09 embedding: " + r["fail"].split(":")[0]})
    samples = [{"text": r.get("text"), "expression": c[0], "ts": list(c[1])} for c, r in zip(cases, recs) if "ok" in r][:5]
    return {"evaluations": len(cases), "distinct_nontrivial": len(seen), "failures": fails, "samples": samples, "distribution": dict(dist),
            "rule": "corpus + grammar expressions embedded in 0-3 words before/after; a word counts as inert only if, in the concrete text, no pattern match overlaps it and the matches inside the expression equal the stand-alone ones (decided by the library's own patterns); non-trivial = distinct embedded text checked"}


# ------------------------------------------------------------------ C10
def c10_case(case):
    _init()
    from ctparse import ctparse as cp
    C = sys.modules["ctparse.ctparse"]
    from ctparse.rule import _regex
    items, txt, ts = case
    t0 = to_ts(ts)
    ws = [x[1] for x in items if x[0] == "w"]; tg = [x[1] for x in items if x[0] == "t"]; e = [x[1] for x in items if x[0] == "e"]
    norm = C._preprocess_string(txt)
    ms = C._match_regex(re.sub('#[a-zA-Z0-9_-]+', '', norm).strip(), _regex)
    stripped = re.sub('#[a-zA-Z0-9_-]+', '', norm).strip()
    for w in ws:
        for m_ in re.finditer(re.escape(w), stripped):
            if any(m.mstart < m_.end() and m.mend > m_.start() for m in ms): return {"skip": "word-not-inert"}
    txt_noexpr = " ".join(x[1] for x in items if x[0] != "e")
    txt_notags = " ".join(x[1] for x in items if x[0] != "t")
    try:
        r = cp(txt, ts=t0, timeout=0); r0 = cp(txt_noexpr, ts=t0, timeout=0); r1 = cp(txt_notags, ts=t0, timeout=0)
        rb = cp(e[0], ts=t0, timeout=0) if e else None
    except Exception as x:
        return {"fail": "exception %s" % type(x).__name__}
    want_labels = [t[1:] for t in tg]
    probs = []
    if r.labels != want_labels: probs.append("labels %r != %r" % (r.labels, want_labels))
    if r0.labels != want_labels: probs.append("labels on the no-match path %r != %r" % (r0.labels, want_labels))
    sw = r.subject.split()
    if any(t[1:] in sw or t in r.subject for t in tg if t[1:] not in ws): probs.append("hashtag in subject %r" % r.subject)
    if rb is not None and r.resolution != rb.resolution: probs.append("resolution changed by surrounding words/hashtags: %s vs %s" % (r.resolution, rb.resolution))
    if r.resolution != r1.resolution or r.subject != r1.subject: probs.append("hashtags change resolution or rest of subject: %r vs %r" % (r.subject, r1.subject))
    if [w for w in sw if w in ws] != ws: probs.append("inert word lost, duplicated or reordered: %r from %r" % (r.subject, ws))
    if r0.subject.split() != ws: probs.append("no-match path subject %r != inert words %r" % (r0.subject, ws))
    inp = re.split(r'[\s-]+', stripped)
    it = iter(inp)
    if not all(any(w == x for x in it) for w in sw): probs.append("subject %r is not a subsequence of the input words" % r.subject)
    if r.resolution is not None and e:
        # words wholly inside the expression's own matches must be gone (the expression is one of the fixed, fully consumed ones)
        for w in re.split(r'[\s-]+', C._preprocess_string(e[0])):
            if w and w in sw and w not in ws: probs.append("word %r of the consumed expression leaked into the subject" % w)
    if probs: return {"fail": "; ".join(probs)}
    return {"ok": True}


def sweep_c10(rng, tier):
    import multiprocessing as mp
    inert = ["xyzzy", "qwrk", "zoo", "gym", "jog", "привет", "会议", "Lunch", "Bob", "rent", "milk", "call", "plugh"]
    tags = ["#fun", "#work-1", "#a", "#_x", "#Home_2", "#b-c", "#follow-up", "#to-do", "#urgent", "#family"]
    exprs = ["tomorrow", "friday 8pm-9pm", "12.12.2020", "next monday", "8pm", "3 days", "heute 14 uhr", "5th of may", "May 5th 2:30 in the afternoon", "monday", "tomorrow 5pm"]
    seps = [" ", "  ", ", ", "; ", "\t", " (", ") ", " ", " ", "  "]
    ts = (2018, 3, 7, 12, 43, 0)
    cases = []
    n = 6000 if tier == "thorough" else 700
    for _ in range(n):
        ws = [rng.choice(inert) for _ in range(rng.randint(0, 4))]
        tg = [rng.choice(tags) for _ in range(rng.randint(0, 3))]
        items = [("w", w) for w in ws] + [("t", t) for t in tg] + ([("e", rng.choice(exprs))] if rng.random() < 0.85 else [])
        rng.shuffle(items)
        if not items: continue
        txt = "".join(x[1] + rng.choice(seps) for x in items).rstrip() if rng.random() < 0.8 else " ".join(x[1] for x in items)
        cases.append((items, txt, ts))
    ctx = mp.get_context("fork")
    with ctx.Pool(min(16, os.cpu_count() or 1)) as pool:
        recs = pool.map(c10_case, cases, chunksize=10)
    fails, seen, dist = [], set(), collections.Counter()
    for c, r in zip(cases, recs):
        if "skip" in r: dist["skipped:" + r["skip"]] += 1; continue
        dist["checked"] += 1; seen.add(c[1])
        if "fail" in r:
            fails.append({"text": c[1], "ts": list(ts), "opts": {"items": c[0]}, "expected": "labels = hashtags in order; subject = non-time words in order; same on both paths", "observed": r["fail"], "what": "C10: " + r["fail"].split(":")[0].split(" %")[0][:40]})
    samples = [{"text": c[1], "items": c[0]} for c, r in zip(cases, recs) if "ok" in r][:5]
    return {"evaluations": len(cases), "distinct_nontrivial": len(seen), "failures": fails, "samples": samples, "distribution": dict(dist),
            "rule": "texts assembled from inert words (incl. repeated ones), valid hashtags (incl. dashes, several per text) and one time expression in random order with the library's separator characters; each also without the expression and without the hashtags"}


# ------------------------------------------------------------------ C11
def c11_case(case):
    _init()
    from ctparse import ctparse as cp
    text, variant, ts = case
    try:
        a = cp(text, ts=to_ts(ts), timeout=0); b = cp(variant, ts=to_ts(ts), timeout=0)
    except Exception as x:
        return {"fail": "exception %s" % type(x).__name__}
    if a.resolution != b.resolution:
        return {"fail": "%s vs %s" % (b.resolution, a.resolution)}
    return {"ok": a.resolution is not None}


def sweep_c11(rng, tier):
    import multiprocessing as mp
    _init()
    C = sys.modules["ctparse.ctparse"]
    import regex
    fails = []
    dist = collections.Counter()
    # every code point the two substitution classes know, as a single separator / dash (function level, exhaustive)
    sep = regex.compile(r"[,;\pZ\pC\p{Ps}\p{Pe}]", regex.VERSION1)
    dash = regex.compile(r"\p{Pd}|[‐-―]|⁃", regex.VERSION1)
    nsep = ndash = 0
    for i in range(0x110000):
        if 0xD800 <= i <= 0xDFFF: continue
        c = chr(i)
        if sep.fullmatch(c):
            nsep += 1
            if C._preprocess_string("a" + c + "b") != "a b" or C._preprocess_string(c + "a" + c) != "a":
                fails.append({"text": "a%sb" % c, "ts": None, "opts": {"codepoint": i}, "expected": "'a b'", "observed": repr(C._preprocess_string("a" + c + "b")), "what": "C11 separator code point"})
        elif dash.fullmatch(c):
            ndash += 1
            if C._preprocess_string("a" + c + "b") != "a-b":
                fails.append({"text": "a%sb" % c, "ts": None, "opts": {"codepoint": i}, "expected": "'a-b'", "observed": repr(C._preprocess_string("a" + c + "b")), "what": "C11 dash code point"})
    dist["separator code points"] = nsep; dist["dash code points"] = ndash
    # random runs + idempotence
    seps = [" ", ",", ";", "\t", "\n", "(", ")", "[", "]", " ", " ", "​", "\x00", "　", "{", "}", "﻿"]
    dashes = ["-", "–", "—", "‒", "―", "⁃", "﹘", "－", "‐"]
    from ctparse.time.corpus import corpus
    from ctparse.time.auto_corpus import corpus as ac
    P = lambda s: tuple(datetime.strptime(s, "%Y-%m-%dT%H:%M").timetuple()[:5]) + (0,)
    ex = [(t, P(tss)) for _, tss, tests in corpus for t in tests] + rng.sample([(t, P(tss)) for _, tss, tests in ac for t in tests], 400 if tier == "thorough" else 60)
    ex += [(t, (2018, 3, 7, 12, 43, 0)) for t in ["5pm - 7pm", "12.12.2020 - 14.12.2020", "übermorgen 5pm", "5. märz", "nächste woche freitag", "in fünf tagen", "für zwölf tage", "8 uhr - 9 uhr", "früh am morgen", "spätestens morgen", "dreißig tage"]]
    cases = []
    nrun = 0
    for t, ts in ex:
        n = C._preprocess_string(t)
        if C._preprocess_string(n) != n:
            fails.append({"text": t, "ts": None, "opts": {}, "expected": "normalising twice = once", "observed": repr(C._preprocess_string(n)), "what": "C11 idempotence"})
        for _ in range(2 if tier == "quick" else 4):
            nrun += 1
            run = lambda: "".join(rng.choice(seps) for _ in range(rng.randint(1, 4)))
            v = run().join(n.split(" ")) if " " in n else n
            v = rng.choice(["", run()]) + v + rng.choice(["", run()])
            v = "".join((rng.choice(dashes) * rng.randint(1, 3)) if ch == "-" else ch for ch in v)
            cases.append((t, v, ts))
        for v in (t.upper(), t.lower(), t.title(), t.swapcase()):
            if v != t: cases.append((t, v, ts))
    # multi-character case folds are outside the domain (DESIGN §9): variants containing them are not generated by str.upper() of these texts except ß -> SS
    cases = [c for c in cases if not ("ß" in c[0] and "SS" in c[1]) and not ("ß" in c[0] and "Ss" in c[1])]
    ctx = mp.get_context("fork")
    with ctx.Pool(min(16, os.cpu_count() or 1)) as pool:
        recs = pool.map(c11_case, cases, chunksize=10)
    seen = set()
    for c, r in zip(cases, recs):
        dist["variant parses"] += 1
        if r.get("ok"): seen.add(c[1])
        if "fail" in r:
            fails.append({"text": c[1], "ts": list(c[2]), "opts": {"canonical": c[0]}, "expected": "same resolution as %r" % c[0], "observed": r["fail"], "what": "C11 variant"})
    samples = [{"canonical": c[0], "variant": c[1]} for c in cases[:: max(1, len(cases) // 5)]][:6]
    return {"evaluations": len(cases) + nsep + ndash, "distinct_nontrivial": len(seen), "failures": fails, "samples": samples, "distribution": dict(dist), "exhaustive_part": "all %d separator and %d dash code points" % (nsep, ndash),
            "rule": "every code point of the separator and dash classes as a single separator (exhaustive, function level); corpus/grammar expressions with random separator runs, dash runs (incl. ASCII runs) and upper/lower/title/swap case; non-trivial = distinct variant that resolved"}
