"""Sweeps for C01, C02, C09-C19 (statement-level oracles on the real code)."""
import calendar, collections, copy, itertools, json, math, os, random, re, subprocess, sys, threading
from qa import samp
from datetime import date, datetime, timedelta
import grammar as G
from realparse import parse_many, T, I, _init, to_ts, label_free
from sweeps import finish, dec_time, dec_interval, dt_of
from qa import REPO, VERIF

TOKS = ["31.04.", "30.02.2019", "29.02.2019", "9-5", "8pm", "8", "20:00", "morning", "early", "late", "very", "früh", "spät", "sehr", "night", "friday", "mon", "next", "this", "at", "on", "am", "um",
        "for", "für", "3 days", "two nights", "half an hour", "1/2 day", "from", "to", "-", "until", "before", "after", "not before", "tomorrow", "heute", "now", "eom", "eoy", "march", "5th", "5.",
        "12.5.", "2019", "1930", "quarter to", "half", "halb", "noon", "midnight", "first", "last", "#x", "foo", "between", "and", "von", "bis", "31", "0:00", "24", "12 am", "12 pm", "13am", "0 pm",
        "12.12.2020", "May 5th", "00", "5.5.", "99", "of", "the", "in the", "uhr", "h", "o'clock", "twelve", "zwölf", "einundzwanzig tage", "1 month", "monat", "weeks", "31 jan", "jan", "feb 29", "29. feb",
        "30. februar", "februar", "april", "31.", "30.", "29.", "12:30-12:15", "tonight", "12", "99999999 days", "8 uhr", "İ", "ß", "ﬁ", "٣", "１２", "٣ tage", " ", "(", ")", ";", "—", "12:00-0:00"]


def wf_time(t, where, bad):
    from ctparse.types import pod_hours
    if t.month is not None and not 1 <= t.month <= 12: bad.append(where + " month")
    if t.hour is not None and not 0 <= t.hour <= 23: bad.append(where + " hour %r" % t.hour)
    if t.minute is not None and not 0 <= t.minute <= 59: bad.append(where + " minute")
    if t.DOW is not None and not 0 <= t.DOW <= 6: bad.append(where + " dow")
    if t.POD is not None and t.POD not in pod_hours: bad.append(where + " pod %r" % t.POD)
    if t.day is not None:
        if not 1 <= t.day <= 31: bad.append(where + " day")
        elif t.month is not None and 1 <= t.month <= 12:
            y = t.year if t.year is not None else 2000
            if 1 <= y <= 9999 and t.day > calendar.monthrange(y, t.month)[1]: bad.append(where + " day-not-in-month")
    for acc in ("start", "end"):
        try: getattr(t, acc)
        except Exception as e: bad.append(where + " %s raises %s" % (acc, type(e).__name__))
    if t.hasDate:
        try: t.dt
        except Exception as e: bad.append(where + " dt raises %s" % (type(e).__name__))


def fuzz_case(case):
    """all candidates of one generated text under one option setting; returns a list of problems"""
    _init()
    from ctparse import ctparse, ctparse_gen
    from ctparse.types import Time, Interval, Duration
    from ctparse.scorer import DummyScorer, RandomScorer
    from ctparse.ctparse import _preprocess_string
    text, ts, o = case
    probs = []
    kw = dict(timeout=o.get("timeout", 0), latent_time=o["latent"], max_stack_depth=o["depth"], relative_match_len=o["rml"])
    if o["scorer"] == "const": kw["scorer"] = DummyScorer()
    elif o["scorer"] == "random": kw["scorer"] = RandomScorer(random.Random(o["seed"]))
    n = 0
    import logging as _logging
    _lg = _logging.getLogger("ctparse")
    _old_level = _lg.level
    if o.get("debug_logging"):
        # the host application's logging configuration is part of the process environment
        if not any(isinstance(h, _logging.NullHandler) for h in _lg.handlers): _lg.addHandler(_logging.NullHandler())
        _lg.setLevel(_logging.DEBUG); _lg.propagate = False
    try:
        norm = _preprocess_string(text)
        for r in ctparse_gen(text, ts=to_ts(ts), **kw):
            if r is None: continue
            n += 1
            if n > 4000: break
            str(r); repr(r)
            res = r.resolution; bad = []
            if not isinstance(r.subject, str): bad.append("subject not str")
            if not (isinstance(r.labels, list) and all(isinstance(l, str) for l in r.labels)): bad.append("labels not list[str]")
            if not (isinstance(r.score, float) and math.isfinite(r.score)) and not isinstance(r.score, int): bad.append("score not finite %r" % (r.score,))
            if isinstance(res, Time):
                wf_time(res, "T", bad)
                # C01.candidate_year_bounded on the real stream: a plain time carries no year beyond max(2999, reference year + 401)
                if res.year is not None and ts is not None and res.year > max(2999, ts[0] + 401): bad.append("year %r beyond the bound of any production" % (res.year,))
            elif isinstance(res, Interval):
                for nm, x in (("from", res.t_from), ("to", res.t_to)):
                    if x is not None: wf_time(x, "I." + nm, bad)
                try:
                    res.start; res.end
                    if res.t_from is not None and res.t_to is not None and res.t_from.hasDate and res.t_to.hasDate:
                        if res.t_from.start.dt > res.t_to.end.dt: bad.append("I inverted")
                except Exception as e: bad.append("I accessor raises " + type(e).__name__)
            if not (0 <= res.mstart < res.mend <= len(norm)): bad.append("span %d-%d outside normalised text of length %d" % (res.mstart, res.mend, len(norm)))
            for b in bad: probs.append(("WF", b, repr(res)))
        # the single-result call, incl. debug flag
        r = ctparse(text, ts=to_ts(ts), debug=o.get("debug", False), **kw)
        if o.get("debug", False):
            for x in r:
                if x is not None: str(x); repr(x)
        else:
            str(r); repr(r)
            if not isinstance(r.subject, str): probs.append(("WF", "subject not str", ""))
            if not isinstance(r.labels, list): probs.append(("WF", "labels not list", ""))
    except Exception as e:
        import traceback
        tb = traceback.extract_tb(e.__traceback__)
        probs.append(("EXC", type(e).__name__ + ": " + str(e)[:60], " < ".join("%s:%d" % (f.name, f.lineno) for f in tb[-3:])))
    finally:
        if o.get("debug_logging"):
            _lg.setLevel(_old_level)
    return {"n": n, "probs": probs}


def gen_fuzz_cases(rng, n):
    refs = [(2018, 3, 7, 12, 43, 0), (2020, 2, 29, 23, 59, 59), (2019, 12, 31, 0, 0, 0), (2021, 1, 31, 9, 0, 1), (1970, 1, 1, 0, 0, 0), (2100, 12, 31, 23, 59, 59), (2019, 2, 28, 12, 0, 0),
            (50, 6, 15, 12, 0, 0), (99, 12, 31, 23, 59, 59), (2020, 3, 28, 22, 30, 0), (2020, 10, 25, 2, 30, 0)]
    cases = []
    import unicodedata
    for i in range(n):
        k = rng.randint(1, 4)
        mode = rng.random()
        if mode < 0.8:
            t = " ".join(rng.choice(TOKS) for _ in range(k))
        elif mode < 0.9:
            t = "".join(chr(rng.choice([rng.randint(32, 126), rng.randint(160, 0x2FF), rng.randint(0x600, 0x6FF), rng.randint(0x2000, 0x206F), rng.randint(0x1D7CE, 0x1D7FF), rng.randint(0xFF10, 0xFF19)])) for _ in range(rng.randint(0, 24)))
        else:
            t = rng.choice(TOKS) + rng.choice(["", " ", "\t", ",", "("]) + "".join(chr(rng.randint(32, 0x24F)) for _ in range(rng.randint(0, 6))) + rng.choice(TOKS)
        o = {"latent": rng.random() < 0.5, "depth": rng.choice([0, 1, 10]), "rml": rng.choice([1.0, 0.5, 0.25, 0.0625, 0.75]), "scorer": rng.choice(["shipped", "shipped", "const", "random"]),
             "seed": rng.randrange(1000), "debug": rng.random() < 0.15, "timeout": 0 if rng.random() < 0.8 else 0.5, "debug_logging": rng.random() < 0.12}
        if o["depth"] == 0 and k >= 3 and o["timeout"] == 0:
            o["timeout"] = 1.0          # unlimited depth on 3-4 ambiguous chunks is exponential: bound the wall time of the case
        cases.append((t, rng.choice(refs), o))
    return cases


def sweep_fuzz(rng, tier, which):
    """shared by C01 (exceptions, rendering, types) and C02 (well-formedness of all candidates)"""
    import multiprocessing as mp
    n = 12000 if tier == "thorough" else 1500
    cases = gen_fuzz_cases(rng, n)
    ctx = mp.get_context("fork")
    with ctx.Pool(min(16, os.cpu_count() or 1)) as pool:
        recs = pool.map(fuzz_case, cases, chunksize=20)
    fails = []
    ncand = 0
    seen = set()
    dist = collections.Counter()
    for c, r in zip(cases, recs):
        ncand += r["n"]
        if r["n"]: seen.add((c[0], c[1], json.dumps(c[2], sort_keys=True)))
        dist["scorer=" + c[2]["scorer"]] += 1; dist["depth=%d" % c[2]["depth"]] += 1; dist["latent=%s" % c[2]["latent"]] += 1; dist["debug_logging=%s" % bool(c[2].get("debug_logging"))] += 1
        for kind, what, detail in r["probs"]:
            if (which == "C01" and kind == "EXC") or (which == "C01" and kind == "WF" and ("subject" in what or "labels" in what or "score" in what)) or (which == "C02" and kind == "WF" and not ("subject" in what or "labels" in what)):
                fails.append({"text": c[0], "ts": list(c[1]), "opts": c[2], "expected": "no exception, well-formed candidates", "observed": "%s %s %s" % (kind, what, detail), "what": "%s fuzz: %s" % (which, what.split(":")[0])})
    samples = [{"text": c[0], "ts": list(c[1]), "opts": c[2], "candidates": r["n"]} for c, r in list(zip(cases, recs))[:4]]
    dist["candidates_checked"] = ncand
    return {"evaluations": len(cases), "distinct_nontrivial": len(seen), "failures": fails, "samples": samples,
            "rule": "token-soup and random-Unicode texts x reference times 1970-2100 x {latent, depth 0/1/10, relative_match_len, scorer shipped/const/random, debug, timeout}; every candidate of the stream is rendered and checked; non-trivial = distinct case with >= 1 candidate",
            "distribution": dict(dist)}


def sweep_c01(rng, tier):
    r = sweep_fuzz(rng, tier, "C01")
    # configuration fault: shipped model file absent -> documented fallback to the constant scorer (fresh interpreter, os.path.exists intercepted)
    code = r'''
import os, sys
sys.path.insert(0, %r)
_real = os.path.exists
os.path.exists = lambda p: False if str(p).endswith("model.pbz") else _real(p)
import warnings; warnings.simplefilter("ignore")
import ctparse
C = sys.modules["ctparse.ctparse"]
os.path.exists = _real
from datetime import datetime
bad = []
from ctparse.scorer import DummyScorer
if not isinstance(C._DEFAULT_SCORER, DummyScorer): bad.append("default scorer is %%r" %% (C._DEFAULT_SCORER,))
for t in ["tomorrow 5pm", "", "gargelbabel", "9-5", "friday 8pm-9pm #x", "12.12.2020 for 3 days"]:
    try:
        r = ctparse.ctparse(t, ts=datetime(2018, 3, 7, 12, 43), timeout=0)
        str(r); repr(r)
        assert isinstance(r.subject, str) and isinstance(r.labels, list)
        for x in ctparse.ctparse_gen(t, ts=datetime(2018, 3, 7, 12, 43), timeout=0): str(x)
    except Exception as e:
        bad.append("%%r: %%s: %%s" %% (t, type(e).__name__, e))
print("\n".join(bad))
sys.exit(1 if bad else 0)
''' % REPO
    p = subprocess.run(["/venv/bin/python", "-c", code], capture_output=True, text=True, timeout=300)
    r["evaluations"] += 6
    r["distribution"]["model-absent configuration"] = 6
    if p.returncode != 0:
        r["failures"].append({"text": "tomorrow 5pm", "ts": [2018, 3, 7, 12, 43, 0], "opts": {"config_fault": "model.pbz absent (os.path.exists intercepted in a fresh interpreter)"},
                              "expected": "fallback to the constant scorer, results as usual", "observed": (p.stdout + p.stderr)[-600:], "what": "C01 model-absent fallback"})
    return r


def sweep_c02(rng, tier):
    return sweep_fuzz(rng, tier, "C02")


# ------------------------------------------------------------------ C09
INERT = ["xyzzy", "qwrk", "lunch", "with", "bob", "call", "buy", "milk", "pay", "rent", "gym", "zoo", "jog", "привет", "会议", "ξένος", "hello", "hxyz", "hybrid", "blorp",
         # decomposed spellings (base letter + combining mark): any normalisation between matching and reporting shifts offsets
         "cafe\u0301", "Zoe\u0308", "sen\u0303or", "Lu\u0308beck", "x\u0301y", "a\u030a"]


def c09_case(case):
    _init()
    from ctparse import ctparse as cp
    C = sys.modules["ctparse.ctparse"]
    from ctparse.rule import _regex
    from codec import enc_val
    e, ts, pre, suf, latent = case
    t0 = to_ts(ts)
    pe = C._preprocess_string(e)
    try:
        base = cp(e, ts=t0, timeout=0, latent_time=latent)
    except Exception as x:
        return {"skip": "base-exc"}
    if base.resolution is None:
        return {"skip": "base-none"}
    # the text handed to the parser carries the expression as written (not its stand-alone normal form): normalisation is part
    # of what must not depend on the surrounding words; `txt` is the normalised text positions refer to
    txt = " ".join(pre + [pe] + suf)
    txt_raw = " ".join(pre + [e] + suf)
    off = len(" ".join(pre)) + (1 if pre else 0)
    # inertness as the property defines it: no time pattern matches anything inside the word itself
    for w in set(pre + suf):
        if C._match_regex(w, _regex):
            return {"skip": "word-not-inert"}
    try:
        r = cp(txt_raw, ts=t0, timeout=0, latent_time=latent)
    except Exception as x:
        return {"fail": "exception %s" % type(x).__name__, "text": txt_raw}
    if r.resolution != base.resolution:
        return {"fail": "value: %s vs alone %s" % (r.resolution, base.resolution), "text": txt_raw}
    # the span is the stretch of text the reported derivation consumed: replay the production with own position bookkeeping
    try:
        bn = base if not latent else cp(e, ts=t0, timeout=0, latent_time=False)
        if bn.resolution is not None:
            sp = hull_spans(e, t0, bn.production, val_key(bn.resolution))
            if len(sp) == 1 and (bn.resolution.mstart, bn.resolution.mend) not in sp:
                a, b = next(iter(sp))
                return {"fail": "span: stand-alone %r reported as %r, but the matches its derivation %s consumed span %r" % (pe, pe[bn.resolution.mstart:bn.resolution.mend], list(bn.production), pe[a:b]), "text": e}
    except Exception as x:
        return {"fail": "exception %s in the derivation replay" % type(x).__name__, "text": e}
    got = txt[r.resolution.mstart:r.resolution.mend]; want = pe[base.resolution.mstart:base.resolution.mend]
    if got != want or not (0 <= r.resolution.mstart < r.resolution.mend):
        return {"fail": "span: %r vs alone %r" % (got, want), "text": txt}
    # exact positions (slices clip, so the comparison above cannot see an end beyond the text)
    if not (0 <= base.resolution.mstart < base.resolution.mend <= len(pe)):
        return {"fail": "span: stand-alone span %d-%d lies outside the expression of length %d" % (base.resolution.mstart, base.resolution.mend, len(pe)), "text": e}
    if (r.resolution.mstart, r.resolution.mend) != (off + base.resolution.mstart, off + base.resolution.mend):
        return {"fail": "span: positions %d-%d, expected %d-%d (stand-alone span shifted by the words in front)" % (r.resolution.mstart, r.resolution.mend, off + base.resolution.mstart, off + base.resolution.mend), "text": txt}
    if r.subject.split() != pre + base.subject.split() + suf:
        return {"fail": "subject: %r vs %r + surrounding words" % (r.subject, base.subject), "text": txt}
    return {"ok": True, "text": txt}


def c09_expressions(rng, n_auto):
    from ctparse.time.corpus import corpus
    from ctparse.time.auto_corpus import corpus as ac
    P = lambda s: tuple(datetime.strptime(s, "%Y-%m-%dT%H:%M").timetuple()[:5]) + (0,)
    ex = [(t, P(tss)) for _, tss, tests in corpus for t in tests]
    ex += samp(rng, [(t, P(tss)) for _, tss, tests in ac for t in tests], n_auto)
    ts0 = (2018, 3, 7, 12, 43, 0)
    ex += [(t, ts0) for t in ["8pm", "9-5", "11 to 1", "from 5pm - 7pm", "von 9 bis 11 uhr", "10", "tomorrow 8", "morgen 9", "friday 11", "am 3.4. um 7", "3 Feb 2020", "monday", "5pm - 7pm",
                               "tomorrow 5pm", "12.12.2020 8 uhr", "in the morning", "17:30", "heute 14 uhr"]]
    # words of the pattern languages that contain non-ASCII letters (case folding / normalisation can change their length)
    from ctparse.rule import rules as _rules
    na = set()
    for name in _rules:
        k = 0
        while True:
            try:
                ws = G.L(name, k, limit=4000)
            except IndexError:
                break
            except Exception:
                # language too large to enumerate as a whole: enumerate its named groups one by one
                ws = []
                try:
                    from rxparse import lang as _lang, find_group as _fg
                    pp, aa = G.ast_of(G.regex_id_of(name, k))
                    for gname, gi in pp.names.items():
                        try:
                            ws += [w.strip() for w in _lang(_fg(aa, gi), 4000) if w.strip()]
                        except Exception:
                            pass
                except Exception:
                    pass
            na.update(w for w in ws if any(ord(c) > 127 for c in w))
            k += 1
    na = sorted(na)
    # every non-ASCII character of the pattern languages is covered by at least two words; the rest is sampled
    must = []
    for ch in sorted({c for w in na for c in w if ord(c) > 127}):
        ws = [w for w in na if ch in w]
        must += samp(rng, ws, min(2, len(ws)))
    pick = sorted(set(must) | set(na if len(na) <= 40 else samp(rng, na, 40)))
    for w in pick:
        for form in ("%s", "%s tage", "für %s minuten", "morgen %s", "%s 8 uhr", "am %s"):
            ex.append((form % w, ts0))
            ex.append(((form % w).upper(), ts0))
    return ex


def c09_glue_cases(rng, n):
    """words that are inert by the property's definition (no pattern matches inside the word) but END in the first word of a
    multi-word alternative of some pattern ('pizza' ends in 'a', as in 'a quarter to'): each is put directly in front of the
    rest of that alternative (+ a tail that makes it an expression), so a pattern without a leading word boundary would
    start its match inside the inert word"""
    _init()
    C = sys.modules["ctparse.ctparse"]
    from ctparse.rule import rules as _rules, _regex
    pairs = set()
    for name in sorted(_rules):
        k = 0
        while True:
            try:
                ws = G.L(name, k, limit=6000)
            except IndexError:
                break
            except Exception:
                ws = []
            for w in ws:
                if " " in w:
                    u, rest = w.split(" ", 1)
                    if u and rest and u.isalpha():
                        pairs.add((u, rest))
            k += 1
    inert = {}
    out = []
    for u, rest in sorted(pairs):
        for pre in ("pizz", "zq", "Ann"):
            g = pre + u
            if g not in inert:
                inert[g] = not C._match_regex(g, _regex)
            if inert[g]:
                for tail in ("", " 8", " eight", " monday"):
                    out.append((rest + tail, g))
    return samp(rng, out, n)


def sweep_c09(rng, tier):
    import multiprocessing as mp
    ex = c09_expressions(rng, 600 if tier == "thorough" else 120)
    cases = []
    reps = 4 if tier == "thorough" else 2
    for e, g in c09_glue_cases(rng, 2400 if tier == "thorough" else 300):
        cases.append((e, (2018, 3, 7, 12, 43, 0), [g], [], rng.random() < 0.5))
    for e, ts in ex:
        for _ in range(reps):
            pre = [rng.choice(INERT) for _ in range(rng.randint(0, 3))]
            suf = [rng.choice(INERT) for _ in range(rng.randint(0, 3))]
            if not pre and not suf: suf = [rng.choice(INERT)]
            cases.append((e, ts, pre, suf, rng.random() < 0.8))
    ctx = mp.get_context("fork")
    with ctx.Pool(min(16, os.cpu_count() or 1)) as pool:
        recs = pool.map(c09_case, cases, chunksize=10)
    fails, seen, dist = [], set(), collections.Counter()
    for c, r in zip(cases, recs):
        if "skip" in r: dist["skipped:" + r["skip"]] += 1; continue
        dist["checked"] += 1
        seen.add(r["text"])
        if "fail" in r:
            fails.append({"text": r["text"], "ts": list(c[1]), "opts": {"latent_time": c[4], "expression": c[0]}, "expected": "same resolution, span = the expression, subject = surrounding words", "observed": r["fail"], "what": "C09 embedding: " + r["fail"].split(":")[0]})
    samples = [{"text": r.get("text"), "expression": c[0], "ts": list(c[1])} for c, r in zip(cases, recs) if "ok" in r][:5]
    return {"evaluations": len(cases), "distinct_nontrivial": len(seen), "failures": fails, "samples": samples, "distribution": dict(dist),
            "rule": "corpus + grammar expressions embedded in 0-3 words before/after; a word counts as inert only if, in the concrete text, no pattern match overlaps it and the matches inside the expression equal the stand-alone ones (decided by the library's own patterns); non-trivial = distinct embedded text checked"}


# ------------------------------------------------------------------ C10
def c10_case(case):
    _init()
    from ctparse import ctparse as cp
    C = sys.modules["ctparse.ctparse"]
    from ctparse.rule import _regex
    items, txt, ts = case
    t0 = to_ts(ts)
    ws = [x[1] for x in items if x[0] == "w"]; tg = [x[1] for x in items if x[0] == "t"]; e = [x[1] for x in items if x[0] == "e"]
    ordinary = [x[1] for x in items if x[0] == "o"]
    norm = C._preprocess_string(txt)
    stripped = label_free(norm)
    ms = C._match_regex(stripped, _regex)
    for w in ws:
        for m_ in re.finditer(re.escape(w), stripped):
            if any(m.mstart < m_.end() and m.mend > m_.start() for m in ms): return {"skip": "word-not-inert"}
    txt_noexpr = " ".join(x[1] for x in items if x[0] != "e")
    txt_notags = " ".join(x[1] for x in items if x[0] != "t")
    try:
        r = cp(txt, ts=t0, timeout=0); r0 = cp(txt_noexpr, ts=t0, timeout=0); r1 = cp(txt_notags, ts=t0, timeout=0)
        rb = cp(e[0], ts=t0, timeout=0) if e else None
    except Exception as x:
        return {"fail": "exception %s" % type(x).__name__}
    want_labels = [t[1:] for t in tg]
    probs = []
    if ordinary:
        if r.labels != want_labels: probs.append("labels %r != %r" % (r.labels, want_labels))
        if any(t in r.subject for t in tg): probs.append("hashtag in subject %r" % r.subject)
        if r.resolution != r1.resolution or r.subject != r1.subject: probs.append("hashtags change resolution or rest of subject: %r / %s vs %r / %s" % (r.subject, r.resolution, r1.subject, r1.resolution))
        if probs: return {"fail": "; ".join(probs)}
        return {"ok": True}
    if r.labels != want_labels: probs.append("labels %r != %r" % (r.labels, want_labels))
    if r0.labels != want_labels: probs.append("labels on the no-match path %r != %r" % (r0.labels, want_labels))
    sw = r.subject.split()
    if any(t[1:] in sw or t in r.subject for t in tg if t[1:] not in ws): probs.append("hashtag in subject %r" % r.subject)
    if rb is not None and r.resolution != rb.resolution: probs.append("resolution changed by surrounding words/hashtags: %s vs %s" % (r.resolution, rb.resolution))
    if r.resolution != r1.resolution or r.subject != r1.subject: probs.append("hashtags change resolution or rest of subject: %r vs %r" % (r.subject, r1.subject))
    if [w for w in sw if w in ws] != ws: probs.append("inert word lost, duplicated or reordered: %r from %r" % (r.subject, ws))
    if r0.subject.split() != ws: probs.append("no-match path subject %r != inert words %r" % (r0.subject, ws))
    inp = re.split(r'[\s-]+', stripped)
    it = iter(inp)
    if not all(any(w == x for x in it) for w in sw): probs.append("subject %r is not a subsequence of the input words" % r.subject)
    if r.resolution is not None and e:
        # words wholly inside the expression's own matches must be gone (the expression is one of the fixed, fully consumed ones)
        for w in re.split(r'[\s-]+', C._preprocess_string(e[0])):
            if w and w in sw and w not in ws: probs.append("word %r of the consumed expression leaked into the subject" % w)
    if probs: return {"fail": "; ".join(probs)}
    return {"ok": True}


def sweep_c10(rng, tier):
    import multiprocessing as mp
    inert = ["xyzzy", "qwrk", "zoo", "gym", "jog", "привет", "会议", "Lunch", "Bob", "rent", "milk", "call", "plugh"]
    # incl. hashtags that are prefixes / extensions of one another and repeated ones
    tags = ["#fun", "#work-1", "#a", "#_x", "#Home_2", "#b-c", "#follow-up", "#to-do", "#urgent", "#family", "#work", "#a1", "#ab", "#fun2", "#b", "#urgent-2", "#v", "#v2", "#follow"]
    exprs = ["tomorrow", "friday 8pm-9pm", "12.12.2020", "next monday", "8pm", "3 days", "heute 14 uhr", "5th of may", "May 5th 2:30 in the afternoon", "monday", "tomorrow 5pm",
             "12-12-2020", "12-12-2020 - 14-12-2020", "8pm-9pm",
             # words with more than one tokenisation (one pattern matches the whole word, others its pieces): which sequence ranks
             # first and which one the result is built from need not be the same
             "May/8", "Dec/24", "on May/8", "Jan/5 8pm", "24.12.", "2020-12-24", "17:30h", "8:30pm"]
    seps = [" ", "  ", ", ", "; ", "\t", " (", ") ", " ", " ", "  "]
    ts = (2018, 3, 7, 12, 43, 0)
    cases = []
    n = 6000 if tier == "thorough" else 700
    for _ in range(n):
        ws = [rng.choice(inert) for _ in range(rng.randint(0, 4))]
        tg = [rng.choice(tags) for _ in range(rng.randint(0, 3))]
        items = [("w", w) for w in ws] + [("t", t) for t in tg] + ([("e", rng.choice(exprs))] if rng.random() < 0.85 else [])
        if rng.random() < 0.25:
            # ordinary words (ones a time pattern does match: the property's quantifier names them): hashtags next to them must not
            # change anything either - only the hashtag clauses are checked on such texts
            items += [("o", rng.choice(["at", "on", "first", "may", "one", "march", "um", "am", "to", "in"])) for _ in range(rng.randint(1, 2))]
        rng.shuffle(items)
        if not items: continue
        txt = "".join(x[1] + rng.choice(seps) for x in items).rstrip() if rng.random() < 0.8 else " ".join(x[1] for x in items)
        cases.append((items, txt, ts))
    # long texts: dozens of words before / around the expression (nothing in the statement bounds the number of words)
    _init()
    _C = sys.modules["ctparse.ctparse"]
    from ctparse.rule import _regex as _rxs
    really_inert = [w for w in inert if not _C._match_regex(_C._preprocess_string(w), _rxs)]
    for _ in range(60 if tier == "thorough" else 12):
        nw = rng.randint(34, 90)
        ws = [rng.choice(really_inert) for _ in range(nw)]
        tg = [rng.choice(tags) for _ in range(rng.randint(0, 3))]
        pos_e = rng.choice([nw, nw, rng.randint(33, nw), rng.randint(0, nw)])
        items = [("w", w) for w in ws[:pos_e]] + [("e", rng.choice(exprs))] + [("w", w) for w in ws[pos_e:]]
        for t in tg:
            items.insert(rng.randint(0, len(items)), ("t", t))
        cases.append((items, " ".join(x[1] for x in items), ts))
    ctx = mp.get_context("fork")
    with ctx.Pool(min(16, os.cpu_count() or 1)) as pool:
        recs = pool.map(c10_case, cases, chunksize=10)
    fails, seen, dist = [], set(), collections.Counter()
    for c, r in zip(cases, recs):
        if "skip" in r: dist["skipped:" + r["skip"]] += 1; continue
        dist["checked"] += 1; seen.add(c[1])
        if "fail" in r:
            fails.append({"text": c[1], "ts": list(ts), "opts": {"items": c[0]}, "expected": "labels = hashtags in order; subject = non-time words in order; same on both paths", "observed": r["fail"], "what": "C10: " + r["fail"].split(":")[0].split(" %")[0][:40]})
    samples = [{"text": c[1], "items": c[0]} for c, r in zip(cases, recs) if "ok" in r][:5]
    return {"evaluations": len(cases), "distinct_nontrivial": len(seen), "failures": fails, "samples": samples, "distribution": dict(dist),
            "rule": "texts assembled from inert words (incl. repeated ones), valid hashtags (incl. dashes, several per text) and one time expression in random order with the library's separator characters; each also without the expression and without the hashtags"}


# ------------------------------------------------------------------ C11
def c11_case(case):
    _init()
    from ctparse import ctparse as cp
    text, variant, ts = case[:3]
    whole = len(case) > 3 and case[3]
    try:
        a = cp(text, ts=to_ts(ts), timeout=0); b = cp(variant, ts=to_ts(ts), timeout=0)
    except Exception as x:
        return {"fail": "exception %s" % type(x).__name__}
    if a.resolution != b.resolution:
        return {"fail": "%s vs %s" % (b.resolution, a.resolution)}
    if whole and (a.labels != b.labels or a.subject != b.subject):
        # separator / dash variants leave the letters alone: labels and subject agree as well
        return {"fail": "labels/subject %r %r vs %r %r" % (b.labels, b.subject, a.labels, a.subject)}
    return {"ok": a.resolution is not None}


def sweep_c11(rng, tier):
    import multiprocessing as mp
    _init()
    C = sys.modules["ctparse.ctparse"]
    import regex
    fails = []
    dist = collections.Counter()
    # every code point the two substitution classes know, as a single separator / dash (function level, exhaustive)
    sep = regex.compile(r"[,;\pZ\pC\p{Ps}\p{Pe}]", regex.VERSION1)
    dash = regex.compile(r"\p{Pd}|[‐-―]|⁃", regex.VERSION1)
    nsep = ndash = 0
    for i in range(0x110000):
        if 0xD800 <= i <= 0xDFFF: continue
        c = chr(i)
        if sep.fullmatch(c):
            nsep += 1
            if C._preprocess_string("a" + c + "b") != "a b" or C._preprocess_string(c + "a" + c) != "a":
                fails.append({"text": "a%sb" % c, "ts": None, "opts": {"codepoint": i}, "expected": "'a b'", "observed": repr(C._preprocess_string("a" + c + "b")), "what": "C11 separator code point"})
        elif dash.fullmatch(c):
            ndash += 1
            if C._preprocess_string("a" + c + "b") != "a-b":
                fails.append({"text": "a%sb" % c, "ts": None, "opts": {"codepoint": i}, "expected": "'a-b'", "observed": repr(C._preprocess_string("a" + c + "b")), "what": "C11 dash code point"})
    dist["separator code points"] = nsep; dist["dash code points"] = ndash
    # random runs + idempotence
    seps = [" ", ",", ";", "\t", "\n", "(", ")", "[", "]", " ", " ", "​", "\x00", "　", "{", "}", "﻿"]
    dashes = ["-", "–", "—", "‒", "―", "⁃", "﹘", "－", "‐"]
    from ctparse.time.corpus import corpus
    from ctparse.time.auto_corpus import corpus as ac
    P = lambda s: tuple(datetime.strptime(s, "%Y-%m-%dT%H:%M").timetuple()[:5]) + (0,)
    ex = [(t, P(tss)) for _, tss, tests in corpus for t in tests] + samp(rng, [(t, P(tss)) for _, tss, tests in ac for t in tests], 400 if tier == "thorough" else 60)
    ex += [(t, (2018, 3, 7, 12, 43, 0)) for t in ["Hauptstraße morgen 15 Uhr", "Fußball tomorrow 5pm", "Spaß 12.05.2020 von 8 bis 10", "5pm - 7pm", "12.12.2020 - 14.12.2020", "übermorgen 5pm", "5. märz", "nächste woche freitag", "in fünf tagen", "für zwölf tage", "8 uhr - 9 uhr", "früh am morgen", "spätestens morgen", "dreißig tage"]]
    # grammar expressions the corpora lack (no '12 am' in them): 12-hour clock forms with every marker spelling of the pattern
    # language, at the boundary hours (all hours in the thorough tier), and words sampled from every enumerable pattern language
    try:
        marks = G.group_words("ruleHHMM", "ampm")
    except Exception:
        marks = ["am", "pm", "a.m.", "p.m."]
    hours = range(1, 13) if tier == "thorough" else sorted({1, 11, 12, rng.randint(2, 10)})
    for h in hours:
        for mk in marks:
            for form in ("%d %s", "%d:30 %s", "%d%s", "tomorrow %d %s"):
                ex.append((form % (h, mk), (2018, 3, 7, 12, 43, 0)))
    from ctparse.rule import rules as _rules0
    for name in sorted(_rules0):
        try:
            ws = [w for w in G.L(name, 0, limit=3000) if any(ch.isalpha() for ch in w)]
        except Exception:
            continue
        for w in samp(rng, ws, 6 if tier == "thorough" else 2):
            ex.append((w, (2018, 3, 7, 12, 43, 0)))
    cases = []
    nrun = 0
    for t, ts in ex:
        n = C._preprocess_string(t)
        if C._preprocess_string(n) != n:
            fails.append({"text": t, "ts": None, "opts": {}, "expected": "normalising twice = once", "observed": repr(C._preprocess_string(n)), "what": "C11 idempotence"})
        for _ in range(2 if tier == "quick" else 4):
            nrun += 1
            run = lambda: "".join(rng.choice(seps) for _ in range(rng.randint(1, 4)))
            v = run().join(n.split(" ")) if " " in n else n
            v = rng.choice(["", run()]) + v + rng.choice(["", run()])
            v = "".join((rng.choice(dashes) * rng.randint(1, 3)) if ch == "-" else ch for ch in v)
            cases.append((t, v, ts))
        for v in (t.upper(), t.lower(), t.title(), t.swapcase()):
            if v != t: cases.append((t, v, ts))
    # hashtags and plain words next to separators and dashes: the variant must agree in resolution, labels and subject
    tagged = ["#sales-5pm", "#sales - 5pm", "lunch #work tomorrow 5pm", "tomorrow #x-8pm", "#a 8pm - 9pm #b", "call bob #follow-up friday", "#to-do - monday 9-5", "5pm #x-y",
              "jog #gym - tomorrow", "#v 12.12.2020 - 14.12.2020 #v2", "pay rent #home 1.2.2021", "bob - tomorrow 5pm"]
    for t in tagged:
        n = C._preprocess_string(t)
        for _ in range(4 if tier == "quick" else 12):
            run = lambda: "".join(rng.choice(seps) for _ in range(rng.randint(1, 3)))
            v = run().join(n.split(" "))
            v = rng.choice(["", run()]) + v + rng.choice(["", run()])
            v = "".join((rng.choice(dashes) * rng.randint(1, 2)) if ch == "-" else ch for ch in v)
            cases.append((t, v, (2018, 3, 7, 12, 43, 0), True))
    # ligature spellings (one code point that upper-cases to two letters): every word of the pattern languages that contains
    # ff/fi/fl/ffi/ffl/st, written with the ligature, alone and in three short frames, against its own upper case
    LIG = [("ffi", "\ufb03"), ("ffl", "\ufb04"), ("ff", "\ufb00"), ("fi", "\ufb01"), ("fl", "\ufb02"), ("st", "\ufb06")]
    from ctparse.rule import rules as _rules
    lw = set()
    for name in _rules:
        k = 0
        while True:
            try:
                ws = G.L(name, k, limit=3000)
            except IndexError:
                break
            except Exception:
                ws = []
            lw.update(w for w in ws if any(a in w for a, _ in LIG))
            k += 1
    lw = sorted(lw)
    if tier != "thorough" and len(lw) > 160:
        lw = samp(rng, lw, 160) + [w for w in lw if w in ("five", "1sten", "august", "stunden", "first", "gestern")]
    for w in lw:
        x = w
        for a, b in LIG: x = x.replace(a, b)
        for form in ("%s", "%s 8 uhr", "5 %s", "am %s"):
            cases.append(((form % x).upper(), form % x, (2018, 3, 7, 12, 43, 0)))
    # multi-character case folds are outside the domain (DESIGN §9): variants containing them are not generated by str.upper() of these texts except ß -> SS
    cases = [c for c in cases if not ("ß" in c[0] and "SS" in c[1]) and not ("ß" in c[0] and "Ss" in c[1])]
    ctx = mp.get_context("fork")
    with ctx.Pool(min(16, os.cpu_count() or 1)) as pool:
        recs = pool.map(c11_case, cases, chunksize=10)
    seen = set()
    for c, r in zip(cases, recs):
        dist["variant parses"] += 1
        if r.get("ok"): seen.add(c[1])
        if "fail" in r:
            fails.append({"text": c[1], "ts": list(c[2]), "opts": {"canonical": c[0]}, "expected": "same resolution%s as %r" % (", labels and subject" if len(c) > 3 else "", c[0]), "observed": r["fail"], "what": "C11 variant"})
    samples = [{"canonical": c[0], "variant": c[1]} for c in cases[:: max(1, len(cases) // 5)]][:6]
    return {"evaluations": len(cases) + nsep + ndash, "distinct_nontrivial": len(seen), "failures": fails, "samples": samples, "distribution": dict(dist), "exhaustive_part": "all %d separator and %d dash code points" % (nsep, ndash),
            "rule": "every code point of the separator and dash classes as a single separator (exhaustive, function level); corpus/grammar expressions with random separator runs, dash runs (incl. ASCII runs) and upper/lower/title/swap case; non-trivial = distinct variant that resolved"}


# ------------------------------------------------------------------ C12
def stream_digest(text, ts, kw):
    from ctparse import ctparse_gen
    from codec import enc_art
    out = []
    for p in ctparse_gen(text, ts=to_ts(ts), **kw):
        if p is not None:
            out.append((enc_art(p.resolution), tuple(str(x) for x in p.production), round(p.score, 9), p.subject, tuple(p.labels)))
    return out


C12_POOL = [("tomorrow 5pm #work #home", {}), ("9-5", {}), ("friday 8pm-9pm lunch with bob", {}), ("12.12.2020 for 3 days", {}), ("gargelbabel", {}), ("monday morning 5.12.2020", {}),
            ("5 5 5", {"max_stack_depth": 3}), ("next friday", {"latent_time": False}), ("heute 14 uhr #a #b #c", {}), ("in fünf tagen", {}), ("early early morning", {}),
            ("15-18 Nov für 3 Nächte", {}), ("tomorrow #work 5pm", {"relative_match_len": 0.5}), ("Übermorgen 5pm", {}), ("3 days 15-18 Nov", {"max_stack_depth": 0})]


def c12_hashseed_probe(seed):
    code = r'''
import sys, json, warnings
warnings.simplefilter("ignore")
sys.path.insert(0, %r); sys.path.insert(0, %r)
import sweeps2
out = []
for t, kw in sweeps2.C12_POOL:
    k = dict(timeout=0); k.update(kw)
    out.append(sweeps2.stream_digest(t, (2018, 3, 7, 12, 43, 0), k))
print(json.dumps(out))
''' % (REPO, os.path.join(VERIF, "harness"))
    env = dict(os.environ); env["PYTHONHASHSEED"] = str(seed)
    p = subprocess.run(["/venv/bin/python", "-c", code], capture_output=True, text=True, env=env, timeout=600)
    if p.returncode != 0:
        return None, p.stderr[-400:]
    return json.loads(p.stdout.strip().split("\n")[-1]), None


def sweep_c12(rng, tier):
    _init()
    import ctparse
    from ctparse import ctparse_gen
    from ctparse.rule import rules, _regex, _regex_str, _str_regex
    C = sys.modules["ctparse.ctparse"]
    ts = (2018, 3, 7, 12, 43, 0)
    fails = []
    dist = collections.Counter()
    norm = lambda x: json.loads(json.dumps(x))
    ref = {}
    for t, kw in C12_POOL:
        k = dict(timeout=0); k.update(kw)
        ref[t] = norm(stream_digest(t, ts, k))

    def snapshot_world():
        import pickle
        mdl = C._DEFAULT_SCORER
        return (tuple(rules.keys()), tuple((n, len(v[1])) for n, v in rules.items()), tuple(sorted(_regex_str.items())), tuple(sorted(_str_regex.items())), tuple(sorted(_regex)),
                pickle.dumps(getattr(mdl, "_model", None).__dict__ if hasattr(mdl, "_model") else None, protocol=4) if True else None)
    w0 = snapshot_world()
    # 1. random call histories incl. abandoned streams and failing calls
    n_hist = 60 if tier == "thorough" else 12
    for h in range(n_hist):
        steps = []
        for _ in range(rng.randint(3, 10)):
            t, kw = rng.choice(C12_POOL); k = dict(timeout=0); k.update(kw)
            mode = rng.choice(["full", "abandon", "fail", "check", "timedout"])
            steps.append((mode, t))
            try:
                if mode == "full": list(ctparse_gen(t, ts=to_ts(ts), **k))
                elif mode == "abandon":
                    g = ctparse_gen(t, ts=to_ts(ts), **k)
                    for _ in range(rng.randint(0, 2)): next(g, None)
                    del g
                elif mode == "fail":
                    try: list(ctparse_gen(t, ts="not a datetime", **k))
                    except Exception: pass
                elif mode == "timedout":
                    # a call that ran out of time is a call that failed: it must leave nothing behind either
                    list(ctparse_gen(t, ts=to_ts(ts), **dict(k, timeout=1e-9)))
                    ctparse.ctparse(t, ts=to_ts(ts), **dict(k, timeout=1e-9))
            except Exception as e:
                fails.append({"text": t, "ts": list(ts), "opts": {"history": steps}, "expected": "no exception", "observed": type(e).__name__, "what": "C12 history"})
            t2, kw2 = rng.choice(C12_POOL); k2 = dict(timeout=0); k2.update(kw2)
            if mode == "timedout": t2, k2 = t, k            # the text whose call just failed is the one to look at
            got = norm(stream_digest(t2, ts, k2)); dist["history checks"] += 1
            if got != ref[t2]:
                fails.append({"text": t2, "ts": list(ts), "opts": {"history": steps}, "expected": "same stream as in a fresh state", "observed": "stream differs after the history", "what": "C12 history"})
                break
    # 2. interleavings of two streams (all merges of their step sequences for short ones, random otherwise)
    pairs = [(a, b) for a in C12_POOL[:8] for b in C12_POOL[:8] if a is not b]
    for (ta, ka), (tb, kb) in (pairs if tier == "thorough" else samp(rng, pairs, 10)):
        la, lb = len(ref[ta]), len(ref[tb])
        scheds = []
        if la + lb <= 8:
            for comb in itertools.combinations(range(la + lb + 2), la + 1):
                scheds.append([0 if i in comb else 1 for i in range(la + lb + 2)])
        else:
            for _ in range(6):
                s = [0] * (la + 1) + [1] * (lb + 1); rng.shuffle(s); scheds.append(s)
        for s in scheds[:80]:
            ka2 = dict(timeout=0); ka2.update(ka); kb2 = dict(timeout=0); kb2.update(kb)
            ga = ctparse_gen(ta, ts=to_ts(ts), **ka2); gb = ctparse_gen(tb, ts=to_ts(ts), **kb2)
            oa, ob = [], []
            from codec import enc_art
            for who in s:
                g, o = (ga, oa) if who == 0 else (gb, ob)
                p = next(g, None)
                if p is not None: o.append([enc_art(p.resolution), [str(x) for x in p.production], round(p.score, 9), p.subject, list(p.labels)])
            dist["interleavings"] += 1
            if oa != ref[ta][:len(oa)] or ob != ref[tb][:len(ob)] or len(oa) != la or len(ob) != lb:
                fails.append({"text": ta + " || " + tb, "ts": list(ts), "opts": {"schedule": s}, "expected": "each stream as when consumed alone", "observed": "interleaved consumption changed a stream", "what": "C12 interleaving"})
                break
    # 3. threads with a microsecond switch interval on cold texts; in every second round one thread is slowed down inside the
    #    package (a trace hook that sleeps at every function call in ctparse/*) and the others start with a varying delay, so that
    #    half-finished shared state - if there is any - is observable (schedule exploration from outside, no source hook)
    import time as _time
    old = sys.getswitchinterval(); sys.setswitchinterval(1e-6)
    try:
        rounds = 10 if tier == "thorough" else 6
        for rnd in range(rounds):
            cold = ["%s %d.%d.20%02d %d:%02d" % (rng.choice(["meet", "", "call"]), rng.randint(1, 28), rng.randint(1, 12), rng.randint(10, 29), rng.randint(0, 23), rng.randint(0, 59)) for _ in range(5)] + \
                   [rng.choice(["next", "this", "am", ""]) + " " + rng.choice(["mon", "friday", "sonntag"]) + " " + rng.choice(["morning", "8pm", "früh", "at noon"]) for _ in range(5)] + \
                   ["tomorrow %dpm" % rng.randint(1, 11), "next friday", "%d days" % rng.randint(2, 40), "heute %d uhr" % rng.randint(1, 23)]
            slow = (rnd % 2 == 1)
            if slow: cold = cold[:3] + cold[5:7] + cold[10:12]
            delay = [0.0, 0.002, 0.01, 0.03, 0.06][rnd % 5]
            results = [None] * 8
            errors = []
            go = threading.Event()

            def tracer(frame, event, arg):
                if event == "call" and "/ctparse/" in frame.f_code.co_filename:
                    _time.sleep(0.0002)
                return None

            def worker(i):
                try:
                    if slow and i == 0:
                        sys.settrace(tracer)
                    else:
                        go.wait()
                        if slow: _time.sleep(delay)
                    out = {}
                    for t in cold:
                        out[t] = norm(stream_digest(t, ts, dict(timeout=0)))
                    results[i] = out
                except Exception as e:
                    errors.append("%s: %s" % (type(e).__name__, e))
                finally:
                    sys.settrace(None)
            th = [threading.Thread(target=worker, args=(i,)) for i in range(8)]
            for x in th: x.start()
            go.set()
            for x in th: x.join()
            dist["thread rounds"] += 1
            solo = {t: norm(stream_digest(t, ts, dict(timeout=0))) for t in cold}
            if errors:
                fails.append({"text": cold[0], "ts": list(ts), "opts": {"threads": 8, "texts": cold, "slow_thread": slow, "delay": delay}, "expected": "no exception", "observed": errors[0], "what": "C12 threads"})
            for i, r in enumerate(results):
                if r is not None and r != solo:
                    bad = [t for t in solo if r.get(t) != solo[t]]
                    fails.append({"text": bad[0], "ts": list(ts), "opts": {"threads": 8, "texts": cold, "slow_thread": slow, "delay": delay}, "expected": "same stream as single-threaded", "observed": "thread %d got a different stream for %d texts" % (i, len(bad)), "what": "C12 threads"})
                    break
    finally:
        sys.setswitchinterval(old)
    # 3b. deterministic lock-step schedules (no reliance on the OS scheduler): two threads parse the same *cold* texts; a trace
    #     hook hands the turn to the other thread after every k-th function call inside the package, for several k — so one
    #     thread observes the other in the middle of whatever it does at call granularity
    class _Lockstep:
        def __init__(self, n, period, lag=0):
            self.cv = threading.Condition(); self.turn = 0; self.alive = [True] * n; self.period = period; self.count = [0] * n; self.n = n; self.lag = lag

        def _next(self, i):
            for d in range(1, self.n + 1):
                j = (i + d) % self.n
                if self.alive[j]: return j
            return i

        def wait_turn(self, i):
            with self.cv:
                while self.turn != i and self.alive[self.turn]:
                    self.cv.wait(0.5)

        def step(self, i):
            self.count[i] += 1
            if i == 0 and self.count[i] <= self.lag: return          # head start: thread 0 runs `lag` calls ahead of the others
            if self.count[i] % self.period: return
            with self.cv:
                self.turn = self._next(i); self.cv.notify_all()
                while self.turn != i and self.alive[self.turn]:
                    self.cv.wait(0.5)

        def done(self, i):
            with self.cv:
                self.alive[i] = False
                if self.turn == i: self.turn = self._next(i)
                self.cv.notify_all()
    # (switch period, head start of thread 0): thread 1 follows thread 0 at a constant distance of `lag` calls
    scheds = [(1, 0), (7, 0), (40, 0)] + [(3, lag) for lag in ([10, 25, 50, 75, 100, 130, 160, 200, 240, 280, 330, 400, 500, 700, 1000] if tier == "thorough" else [20, 60, 110, 160, 210, 260, 330, 450])]
    for period, lag in scheds:
        # cold = a *shape* (sequence of pattern ids) this process has not parsed before: fragment soups, a fresh one per schedule
        _fr = ["zwei", "abends", "am Dienstag", "in the morning", "12 am", "next week", "5th", "tomorrow", "8pm", "friday", "morgen", "um 8", "at noon", "heute", "3 days", "for 2 hours", "monday",
               "5.5.", "may", "2019", "8 uhr", "early", "late", "night", "9-5", "von 9 bis 11", "17:30", "half past 3", "viertel vor 4", "12.12.2020", "next friday", "this evening", "first", "last", "eom",
               "übermorgen", "yesterday", "1730", "3 o'clock", "midnight", "until", "before", "nach", "7.30 a.m.", "dec 24", "31/12/2019", "sonntag", "thu", "quarter to nine", "half an hour"]
        cold2 = [" ".join(samp(rng, _fr, rng.randint(2, 3))) for _ in range(3)]
        ls = _Lockstep(2, period, lag)
        res2 = [None, None]; err2 = []

        def mk_tracer(i):
            def tr(frame, event, arg):
                if event == "call" and "/ctparse/" in frame.f_code.co_filename:
                    ls.step(i)
                return None
            return tr

        def worker2(i):
            try:
                ls.wait_turn(i)
                sys.settrace(mk_tracer(i))
                out = {}
                for t in cold2:
                    out[t] = norm(stream_digest(t, ts, dict(timeout=0)))
                res2[i] = out
            except Exception as e:
                err2.append("%s: %s" % (type(e).__name__, e))
            finally:
                sys.settrace(None)
                ls.done(i)
        th2 = [threading.Thread(target=worker2, args=(i,)) for i in range(2)]
        for x in th2: x.start()
        for x in th2: x.join(300)
        dist["lock-step schedules"] += 1
        solo2 = {t: norm(stream_digest(t, ts, dict(timeout=0))) for t in cold2}
        if err2:
            fails.append({"text": cold2[0], "ts": list(ts), "opts": {"threads": 2, "texts": cold2, "lockstep_period": period, "lag": lag}, "expected": "no exception", "observed": err2[0], "what": "C12 threads (lock-step)"})
        for i, r in enumerate(res2):
            if r is not None and r != solo2:
                bad = [t for t in solo2 if r.get(t) != solo2[t]]
                fails.append({"text": bad[0], "ts": list(ts), "opts": {"threads": 2, "texts": cold2, "lockstep_period": period, "lag": lag}, "expected": "same stream as single-threaded",
                              "observed": "thread %d got a different stream for %d texts under the lock-step schedule (switch every %d calls, thread 0 ahead by %d calls)" % (i, len(bad), period, lag), "what": "C12 threads (lock-step)"})
                break
    # 4. hash seeds (fresh interpreters)
    seeds = [0, 1, 2, 42, "random"] if tier == "thorough" else [0, 1, "random"]
    base = None
    for sd in seeds:
        got, err = c12_hashseed_probe(sd)
        dist["hash seeds"] += 1
        if err:
            fails.append({"text": "(fresh interpreter)", "ts": list(ts), "opts": {"PYTHONHASHSEED": sd}, "expected": "runs", "observed": err, "what": "C12 hash seed"}); continue
        if base is None: base = got
        elif got != base:
            k = [i for i, (a, b) in enumerate(zip(got, base)) if a != b]
            fails.append({"text": C12_POOL[k[0]][0], "ts": list(ts), "opts": {"PYTHONHASHSEED": sd}, "expected": "same result under every hash seed", "observed": "stream differs between hash seeds", "what": "C12 hash seed"})
    if base is not None and norm(base) != [ref[t] for t, _ in C12_POOL]:
        nb = norm(base)
        k = [i for i, (t, _) in enumerate(C12_POOL) if nb[i] != ref[t]]
        fails.append({"text": C12_POOL[k[0]][0], "ts": list(ts), "opts": {"history": "this process had parsed the whole pool (and other texts) before; the fresh interpreter parses the pool once, in order",
                                                                       "pool_before_it": [t for t, _ in C12_POOL[:k[0]]][-6:], "texts_that_differ": len(k)},
                      "expected": "the answer of a fresh interpreter: %s" % str(nb[k[0]])[:160], "observed": "in this process, after earlier calls: %s" % str(ref[C12_POOL[k[0]][0]])[:160], "what": "C12 fresh process"})
    # 4b. every rule whose whole pattern is one literal-like regex (these are the productions that can hand out a constant):
    #     a word of its language parsed at two different offsets; the result handed out first must not change afterwards,
    #     and a stream over the first text suspended after one candidate must not be affected by a complete parse of the second
    from codec import enc_art as _enc
    import grammar as _G
    singles = [n for n, (fn, pats) in rules.items() if len(pats) == 1 and getattr(pats[0], "__name__", "") == "_regex_match"]
    if tier != "thorough":
        singles = sorted(singles); rng.shuffle(singles)
    for name in singles:
        try:
            ws = _G.L(name, 0, limit=3000)
        except Exception:
            continue
        if not ws: continue
        w = rng.choice(ws)
        ta, tb = "friday 5.5. " + w, "xyzzy plugh at " + w
        for kw in ({"latent_time": False}, {}):
            try:
                r1 = ctparse.ctparse(w, ts=to_ts(ts), timeout=0, **kw)
                s1 = None if r1.resolution is None else _enc(r1.resolution)
                r2 = ctparse.ctparse(tb, ts=to_ts(ts), timeout=0, **kw)
                s1b = None if r1.resolution is None else _enc(r1.resolution)
                dist["retained results"] += 1
                if s1 != s1b:
                    fails.append({"text": w + " || " + tb, "ts": list(ts), "opts": dict(kw, rule=name), "expected": "a result handed out earlier does not change: %s" % s1, "observed": "after parsing the second text it reads %s" % s1b, "what": "C12 retained result"})
                alone = norm(stream_digest(ta, ts, dict(timeout=0, **kw)))
                g = ctparse_gen(ta, ts=to_ts(ts), timeout=0, **kw)
                got = []
                p = next(g, None)
                if p is not None: got.append([_enc(p.resolution), [str(x) for x in p.production], round(p.score, 9), p.subject, list(p.labels)])
                list(ctparse_gen(tb, ts=to_ts(ts), timeout=0, **kw))
                for p in g:
                    if p is not None: got.append([_enc(p.resolution), [str(x) for x in p.production], round(p.score, 9), p.subject, list(p.labels)])
                dist["suspended streams"] += 1
                if norm(got) != alone:
                    fails.append({"text": ta + " || " + tb, "ts": list(ts), "opts": dict(kw, rule=name, schedule="A x1, B complete, A rest"), "expected": "stream A as when consumed alone (%d candidates)" % len(alone),
                                  "observed": "%d candidates, first difference at #%d" % (len(got), next((i for i, (x, y) in enumerate(zip(got, alone)) if x != y), min(len(got), len(alone)))), "what": "C12 interleaving"})
            except Exception as e:
                fails.append({"text": ta + " || " + tb, "ts": list(ts), "opts": dict(kw, rule=name), "expected": "no exception", "observed": "%s: %s" % (type(e).__name__, str(e)[:80]), "what": "C12 interleaving"})
    # 4c. "a function of text, reference time and options": equal-but-not-identical arguments.  Timezone-aware reference times
    #     that denote one instant in several zones are different reference times (different wall clocks); calls with one of
    #     them must not influence calls with another.  Oracle: the wall clock alone decides (the naive reference time with the
    #     same fields, asked first in this process, gives the same result).
    from datetime import timedelta as _td, timezone as _tzc
    tzs = [_tzc.utc, _tzc(_td(hours=2)), _tzc(_td(hours=-11)), _tzc(_td(hours=14))]
    insts = [datetime(2020, 10, 5, 23, 30, tzinfo=_tzc.utc), datetime(2024, 2, 28, 22, 30, tzinfo=_tzc.utc), datetime(2019, 12, 31, 23, 59, 59, tzinfo=_tzc.utc), datetime(2023, 10, 30, 10, 45, tzinfo=_tzc.utc)]
    txts = ["tomorrow", "gestern", "monday 5th", "friday 13.", "15.", "30.", "5pm", "next friday", "eom", "tuesday", "31.12.", "now", "9-5", "for 3 days", "1.11. for 2 hours"]
    if tier != "thorough": txts = samp(rng, txts, 8)
    for t in txts:
        for inst in insts:
            want = {}
            for z in tzs:            # naive wall clocks first
                loc = inst.astimezone(z)
                try:
                    want[z] = norm(stream_digest(t, tuple(loc.timetuple()[:6]), dict(timeout=0)))
                except Exception as e:
                    want[z] = "EXC " + type(e).__name__
            for z in tzs:
                loc = inst.astimezone(z)
                try:
                    from ctparse import ctparse_gen as _cg2
                    got = norm([( _enc(p.resolution), tuple(str(x) for x in p.production), round(p.score, 9), p.subject, tuple(p.labels)) for p in _cg2(t, ts=loc, timeout=0) if p is not None])
                except Exception as e:
                    got = "EXC " + type(e).__name__
                dist["same instant, other zone"] += 1
                if got != want[z]:
                    fails.append({"text": t, "ts": list(loc.timetuple()[:6]), "opts": {"reference_utcoffset_min": int(loc.utcoffset().total_seconds() // 60), "history": "the same text was parsed before at the same instant given in other zones"},
                                  "expected": "the result for this wall clock (as for the naive reference time with the same fields)", "observed": "differs", "what": "C12 equal-but-not-identical reference times"})
                    break
    # 4d. overlapping parses of same-layout texts (same pattern ids and offsets, other content)
    pairs2 = [("5 March 2017", "6 April 2018"), ("05.03.2017 14:30", "06.04.2018 15:45"), ("monday 5pm", "friday 7pm"), ("in 3 days", "in 5 days"), ("12:30 - 14:15", "11:20 - 16:45"), ("3rd of may", "7th of jun")]
    for ta, tb in pairs2:
        for kw in ({}, {"latent_time": False}):
            try:
                alone = norm(stream_digest(ta, ts, dict(timeout=0, **kw)))
                for k in (1, 2):
                    g = ctparse_gen(ta, ts=to_ts(ts), timeout=0, **kw)
                    got = []
                    for _ in range(k):
                        p = next(g, None)
                        if p is not None: got.append([_enc(p.resolution), [str(x) for x in p.production], round(p.score, 9), p.subject, list(p.labels)])
                    list(ctparse_gen(tb, ts=to_ts(ts), timeout=0, **kw))
                    for p in g:
                        if p is not None: got.append([_enc(p.resolution), [str(x) for x in p.production], round(p.score, 9), p.subject, list(p.labels)])
                    dist["same-layout overlaps"] += 1
                    if norm(got) != alone:
                        fails.append({"text": ta + " || " + tb, "ts": list(ts), "opts": dict(kw, schedule="A x%d, B complete, A rest" % k), "expected": "stream A as when consumed alone", "observed": "differs", "what": "C12 interleaving (same layout)"})
                        break
            except Exception as e:
                fails.append({"text": ta + " || " + tb, "ts": list(ts), "opts": dict(kw), "expected": "no exception", "observed": "%s: %s" % (type(e).__name__, str(e)[:80]), "what": "C12 interleaving (same layout)"})
    # 5. arguments, scorer model and rule base unchanged
    if snapshot_world() != w0:
        fails.append({"text": "(world)", "ts": list(ts), "opts": {}, "expected": "registry, regex tables and scorer model unchanged by parsing", "observed": "changed", "what": "C12 world"})
    n = sum(dist.values())
    return {"evaluations": n, "distinct_nontrivial": len(C12_POOL) + dist["interleavings"], "failures": fails, "samples": [{"text": t, "opts": kw, "stream_len": len(ref[t])} for t, kw in C12_POOL[:5]], "distribution": dict(dist),
            "rule": "call histories (full / abandoned / failing calls) over a pool of inputs and options, each followed by a comparison with the fresh-state stream; all merges of the steps of two short streams; 8 threads at 1 µs switch interval on cold texts; fresh interpreters under several PYTHONHASHSEED; deep snapshot of registry, regex tables and pickled model before/after"}


# ------------------------------------------------------------------ C13
def c13_run(text, ts, timeout, depth, clock_factory, single=False):
    """one run under a virtual clock; returns emissions, counts between consecutive deadline checks, whether anything raised"""
    import ctparse.timers as TM
    C = sys.modules["ctparse.ctparse"]
    PPm = sys.modules["ctparse.partial_parse"]
    from ctparse.scorer import Scorer
    from codec import enc_art
    clock = clock_factory()
    log = []           # events: ("check", t) ("score", t) ("final", t) ("filter", t) ("rule", t)
    real_timeout = TM.timeout

    def counting_timeout(t):
        inner = real_timeout(t)
        def _tt():
            log.append(("check", clock.t))
            return inner()
        return _tt

    class CountScorer(Scorer):
        def __init__(self, inner): self.inner = inner
        def score(self, txt, ts_, pp): log.append(("score", clock.t)); return self.inner.score(txt, ts_, pp)
        def score_final(self, txt, ts_, pp, prod): log.append(("final", clock.t)); return self.inner.score_final(txt, ts_, pp, prod)
    orig_pc, orig_to, orig_filter, orig_apply = TM.perf_counter, C.timeout_, PPm.PartialParse._filter_rules, PPm.PartialParse.apply_rule

    def filt(self, rules): log.append(("filter", clock.t)); return orig_filter(self, rules)
    def appl(self, *a, **k): log.append(("rule", clock.t)); return orig_apply(self, *a, **k)
    TM.perf_counter = clock
    C.timeout_ = counting_timeout
    PPm.PartialParse._filter_rules = filt; PPm.PartialParse.apply_rule = appl
    raised = None
    out = []
    try:
        if single:
            # the single-result call under the same instrumentation: `out` is its one result (or empty when it has no resolution)
            r = C.ctparse(text, ts=to_ts(ts), timeout=timeout, max_stack_depth=depth, scorer=CountScorer(C._DEFAULT_SCORER))
            str(r)
            if r is not None and r.resolution is not None: out.append((enc_art(r.resolution), tuple(str(x) for x in r.production), round(r.score, 9)))
        else:
            for p in C.ctparse_gen(text, ts=to_ts(ts), timeout=timeout, max_stack_depth=depth, scorer=CountScorer(C._DEFAULT_SCORER)):
                if p is not None: out.append((enc_art(p.resolution), tuple(str(x) for x in p.production), round(p.score, 9)))
    except Exception as e:
        raised = type(e).__name__
    finally:
        TM.perf_counter = orig_pc; C.timeout_ = orig_to; PPm.PartialParse._filter_rules = orig_filter; PPm.PartialParse.apply_rule = orig_apply
    return out, log, raised, clock.reads


class VClock:
    def __init__(self): self.t = 0; self.reads = 0
    def __call__(self): self.reads += 1; self.t += 1; return float(self.t)


def c13_text(job):
    text, depth, tier, seed = job
    _init()
    rng = random.Random(seed)
    fails = []
    dist = collections.Counter()
    ts = (2018, 3, 7, 12, 43, 0)
    from ctparse.rule import rules
    nrules = len(rules)
    if True:
        full, log, raised, reads = c13_run(text, ts, 10 ** 9, depth, VClock)
        full0, _, raised0, _ = c13_run(text, ts, 0, depth, VClock)
        dist["runs"] += 2
        if raised or raised0 or full0 != full:
            fails.append({"text": text, "ts": list(ts), "opts": {"timeout": 0}, "expected": "timeout 0 = no limit, nothing raised", "observed": "raised=%s/%s, stream equal=%s" % (raised, raised0, full0 == full), "what": "C13 timeout 0"})
        # work between two consecutive checks (no expiry): must not grow with the number of candidate sequences
        def max_between(lg):
            best = collections.Counter(); cur = collections.Counter()
            for k, _ in lg:
                if k == "check":
                    for kk in cur: best[kk] = max(best[kk], cur[kk])
                    cur = collections.Counter()
                else: cur[k] += 1
            for kk in cur: best[kk] = max(best[kk], cur[kk])
            return best
        mb = max_between(log)
        maxlen = max(1, len(text.split()) * 3)
        bound = {"filter": 1, "score": nrules * maxlen + 1, "rule": nrules * maxlen, "final": maxlen}
        for k, v in mb.items():
            if v > bound.get(k, 10 ** 9):
                fails.append({"text": text, "ts": list(ts), "opts": {"depth": depth}, "expected": "at most %d %s operations between two deadline checks" % (bound[k], k), "observed": "%d" % v, "what": "C13 work between checks"})
        # the phase before the first rule application handles the candidate sequences one by one: one analysis and one scoring
        # per deadline check, however many sequences there are (their number grows exponentially with repeated tokens)
        first_rule = next((i for i, (k, _) in enumerate(log) if k == "rule"), len(log))
        mb0 = max_between(log[:first_rule])
        if mb0.get("score", 0) > 1:
            fails.append({"text": text, "ts": list(ts), "opts": {"depth": depth}, "expected": "at most 1 scoring between two deadline checks while the candidate sequences are set up", "observed": "%d" % mb0["score"], "what": "C13 work between checks"})
        step = 1 if (reads <= (2000 if tier == "thorough" else 120)) else max(1, reads // (600 if tier == "thorough" else 100))
        # wall-time budget per text: boundary deadlines first, the rest in random order until the budget is used up
        import time as _time
        dls = list(range(0, reads + 2, step))
        head = list(dict.fromkeys(dls[:6] + dls[-6:]))
        rest_dl = [d for d in dls if d not in set(head)]
        rng.shuffle(rest_dl)
        t_start = _time.time(); budget = 240 if tier == "thorough" else 45
        for deadline in head + rest_dl:
            if _time.time() - t_start > budget:
                dist["expiry points not run (wall-time budget)"] += 1
                continue
            got, lg, raised, _ = c13_run(text, ts, deadline, depth, VClock)
            dist["expiry points"] += 1
            if raised:
                fails.append({"text": text, "ts": list(ts), "opts": {"virtual_deadline": deadline, "depth": depth}, "expected": "never raises", "observed": raised, "what": "C13 raises"}); break
            if got != full[:len(got)]:
                fails.append({"text": text, "ts": list(ts), "opts": {"virtual_deadline": deadline, "depth": depth}, "expected": "prefix of the stream without timeout", "observed": "not a prefix (%d emitted)" % len(got), "what": "C13 prefix"}); break
            # stop at the first check after the deadline: after the first check made when time is up, no further work
            late_checks = [i for i, (k, t) in enumerate(lg) if k == "check" and t - 1 > deadline]   # start_time = 1.0 ; expires when t_now - 1 > timeout
            if late_checks and deadline > 0:
                after = lg[late_checks[0] + 1:]
                # the check itself reads the clock once more; anything logged after the first late check is work after expiry
                if after:
                    fails.append({"text": text, "ts": list(ts), "opts": {"virtual_deadline": deadline, "depth": depth}, "expected": "stop at the first check after the deadline", "observed": "%d operations after it: %s" % (len(after), collections.Counter(k for k, _ in after)), "what": "C13 work after expiry"}); break
            # work after the deadline passed on the clock but before the next check is bounded as above
            lateops = collections.Counter(k for k, t in lg if k != "check" and t - 1 > deadline) if deadline > 0 else {}
            for k, v in lateops.items():
                if v > bound.get(k, 10 ** 9):
                    fails.append({"text": text, "ts": list(ts), "opts": {"virtual_deadline": deadline, "depth": depth}, "expected": "at most %d %s operations after expiry" % (bound[k], k), "observed": "%d" % v, "what": "C13 work after expiry"}); break
        # the single-result call under a timeout returns the best so far or a result without resolution, never raises
        C = sys.modules["ctparse.ctparse"]
        import ctparse.timers as TM
        first_emit = next((t for k, t in log if k == "final"), reads)
        early = [d for d in range(1, reads + 1) if d < first_emit]          # deadlines before the first emission: the empty-handed case
        for deadline in samp(rng, early, min(4, len(early))) + samp(rng, range(1, reads + 1), min(6, reads)):
            one, lg1, raised1, _ = c13_run(text, ts, deadline, depth, VClock, single=True)
            dist["single-result under timeout"] += 1
            if raised1:
                fails.append({"text": text, "ts": list(ts), "opts": {"virtual_deadline": deadline}, "expected": "clean partial result", "observed": raised1, "what": "C13 raises"}); continue
            # the single-result call stops where the stream stops: nothing is computed after the first check made when time is up
            late1 = [i for i, (k, t) in enumerate(lg1) if k == "check" and t - 1 > deadline]
            if late1 and lg1[late1[0] + 1:]:
                after = lg1[late1[0] + 1:]
                fails.append({"text": text, "ts": list(ts), "opts": {"virtual_deadline": deadline, "depth": depth, "call": "ctparse()"}, "expected": "stop at the first check after the deadline", "observed": "%d operations after it: %s" % (len(after), dict(collections.Counter(k for k, _ in after))), "what": "C13 work after expiry"}); continue
            # ... and returns the best of what the stream produced until then, or a result without resolution
            got1, _, _, _ = c13_run(text, ts, deadline, depth, VClock)
            if not got1 and one:
                fails.append({"text": text, "ts": list(ts), "opts": {"virtual_deadline": deadline, "depth": depth, "call": "ctparse()"}, "expected": "a result without resolution (nothing was produced before the deadline)", "observed": "%s" % (one[0][0],), "what": "C13 single result"})
            elif got1:
                mx = max(x[2] for x in got1)
                if not one or one[0][2] != mx or one[0] not in got1:
                    fails.append({"text": text, "ts": list(ts), "opts": {"virtual_deadline": deadline, "depth": depth, "call": "ctparse()"}, "expected": "the best (score %r) of the %d candidates produced before the deadline" % (mx, len(got1)), "observed": "%s" % (one[0] if one else None,), "what": "C13 single result"})
    return fails, dict(dist)


def sweep_c13(rng, tier):
    import multiprocessing as mp
    texts = [("tomorrow 8 yesterday Sep 9 9 12 2023 1923", 10), ("1 1 1", 0), ("1 1 1 1", 0), ("5 5 5 5 5", 10), ("friday 8pm-9pm", 10), ("12.12.2020 for 3 days", 10), ("gargelbabel", 10), ("9-5", 0)]
    if tier == "thorough": texts += [("1 1 1 1 1", 0), ("5 5 5 5 5 5", 10), ("monday morning 5.12.2020 8 8", 10)]
    jobs = [(t, d, tier, rng.randrange(10 ** 6)) for t, d in texts]
    ctx = mp.get_context("fork")
    with ctx.Pool(min(len(jobs), os.cpu_count() or 1)) as pool:
        res = pool.map(c13_text, jobs, chunksize=1)
    fails = []
    dist = collections.Counter()
    for f, d in res:
        fails += f
        for k, v in d.items(): dist[k] += v
    # spellings of "practically unlimited" and of zero: every int and float is a legal timeout
    _init()
    from ctparse import ctparse as _cp, ctparse_gen as _cg
    from codec import enc_art as _ea
    ts0 = (2018, 3, 7, 12, 43, 0)
    for t in ["tomorrow 5pm", "9-5", "gargelbabel"]:
        base = [(_ea(p.resolution), round(p.score, 9)) for p in _cg(t, ts=to_ts(ts0), timeout=0) if p is not None]
        for v in [10 ** 400, 2 ** 1024, sys.maxsize, float("inf"), 1e308, 10 ** 18, 0, 0.0, -0.0, False]:
            dist["timeout spellings"] += 1
            try:
                got = [(_ea(p.resolution), round(p.score, 9)) for p in _cg(t, ts=to_ts(ts0), timeout=v) if p is not None]
                r = _cp(t, ts=to_ts(ts0), timeout=v); str(r)
                if got != base:
                    fails.append({"text": t, "ts": list(ts0), "opts": {"timeout": repr(v)}, "expected": "the stream without a limit", "observed": "%d candidates instead of %d" % (len(got), len(base)), "what": "C13 unlimited spelling"})
            except Exception as e:
                fails.append({"text": t, "ts": list(ts0), "opts": {"timeout": repr(v)}, "expected": "never raises", "observed": "%s: %s" % (type(e).__name__, str(e)[:80]), "what": "C13 raises"})
    return {"evaluations": sum(dist.values()), "distinct_nontrivial": dist["expiry points"], "failures": fails, "samples": [{"text": t, "depth": d} for t, d in texts[:4]], "distribution": dict(dist),
            "rule": "virtual clock (ctparse.timers.perf_counter replaced by a counter): every expiry point between two clock reads of each run is enumerated; emissions must be a prefix of the unlimited stream, nothing raises, "
                    "no operation after the first failing check, and rule-applicability analyses / rule applications / scorings between two checks stay within a bound that does not depend on the number of candidate sequences"}


# ------------------------------------------------------------------ C14
def c14_case(case):
    _init()
    from ctparse import ctparse, ctparse_gen
    from ctparse.scorer import DummyScorer, RandomScorer
    from codec import enc_art
    text, ts, o = case
    kw = dict(timeout=0, latent_time=o["latent"], max_stack_depth=o["depth"], relative_match_len=o["rml"])
    mk = {"shipped": lambda: None, "const": DummyScorer, "random": lambda: RandomScorer(random.Random(o["seed"]))}[o["scorer"]]
    probs = []
    try:
        stream = [p for p in ctparse_gen(text, ts=to_ts(ts), scorer=mk(), **kw) if p is not None]
        single = ctparse(text, ts=to_ts(ts), scorer=mk(), **kw)
    except Exception as e:
        return {"n": 0, "probs": ["exception " + type(e).__name__]}
    key = lambda p: (enc_art(p.resolution), tuple(str(x) for x in p.production), p.subject, tuple(p.labels))
    if not stream:
        if single.resolution is not None: probs.append("stream empty but a resolution was returned")
    else:
        if single.resolution is None: probs.append("empty resolution although the stream has %d candidates" % len(stream))
        else:
            mx = max(p.score for p in stream)
            if single.score != mx: probs.append("returned score %r is not the maximum %r of the stream" % (single.score, mx))
            if o["scorer"] != "random" or True:
                if not any(key(p) == key(single) and p.score == single.score for p in stream): probs.append("returned parse is not one of the streamed candidates")
    for p in stream:
        if not (isinstance(p.score, (int, float)) and math.isfinite(p.score)): probs.append("score %r not finite" % (p.score,))
    if not o["latent"]:
        seen = {}
        for p in stream:
            k = p.resolution
            if k in seen and not (p.score > seen[k]): probs.append("value %s streamed again with score %r <= %r" % (p.resolution, p.score, seen[k]))
            seen[k] = max(p.score, seen.get(k, p.score))
    return {"n": len(stream), "probs": probs}


def sweep_c14(rng, tier):
    import multiprocessing as mp
    from ctparse.time.corpus import corpus
    P = lambda s: tuple(datetime.strptime(s, "%Y-%m-%dT%H:%M").timetuple()[:5]) + (0,)
    ex = [(t, P(tss)) for _, tss, tests in corpus for t in tests]
    ex = samp(rng, ex, min(len(ex), 400 if tier == "thorough" else 90)) + [("22.05.2017 früh", (2018, 3, 7, 12, 43, 0)), ("12-11-2017", (2017, 10, 18, 18, 45, 37)), ("on Monday 20th November", (2017, 10, 18, 18, 45, 37)),
                                                               ("Mon, Jul 31 7:30 AM", (2017, 7, 25, 13, 33, 14)), ("gargelbabel", (2018, 3, 7, 12, 43, 0)), ("", (2018, 3, 7, 12, 43, 0))]
    cases = []
    for t, ts in ex:
        for o in ({"latent": False, "depth": 0, "rml": 1.0, "scorer": "shipped", "seed": 0}, {"latent": True, "depth": 10, "rml": 1.0, "scorer": "shipped", "seed": 0},
                  {"latent": False, "depth": rng.choice([0, 3, 10]), "rml": 1.0, "scorer": "const", "seed": 0}, {"latent": rng.random() < 0.5, "depth": rng.choice([0, 1, 3]), "rml": rng.choice([1.0, 0.5]), "scorer": "random", "seed": rng.randrange(99)}):
            cases.append((t, ts, o))
    # fragment soups under the shipped model: the same value is reached along several rule orders whose scores differ by
    # summation-order noise only - the re-emission clause is about exactly these
    frags = ["zwei", "abends", "am Dienstag", "in the morning", "12 am", "next week", "5th", "tomorrow", "8pm", "friday", "morgen", "um 8", "at noon", "heute", "3 days", "for 2 hours", "monday",
             "5.5.", "may", "2019", "8 uhr", "early", "late", "night", "9-5", "von 9 bis 11", "17:30", "half past 3", "viertel vor 4", "12.12.2020", "next friday", "this evening", "first", "last", "eom"]
    refs = [(2020, 2, 29, 12, 0, 0), (2018, 3, 7, 12, 43, 0), (2019, 12, 31, 23, 59, 0)]
    for _ in range(8000 if tier == "thorough" else 2500):
        t = " ".join(rng.choice(frags) for _ in range(rng.randint(2, 4)))
        cases.append((t, rng.choice(refs), {"latent": False, "depth": rng.choice([10, 10, 3]), "rml": 1.0, "scorer": "shipped", "seed": 0}))
    # a long chain of matches that cannot be reduced to a value (connecting words only) next to a shorter real expression: under
    # relative_match_len=1 only the longest chains are tried, the stream is empty - "an empty resolution only when the stream is
    # empty" is decided on exactly these texts (and the converse: no resolution may be invented for them)
    glue = ["quarter to", "at", "on", "this", "from", "between", "to", "until", "of", "the", "in the", "um", "am", "von", "bis", "half", "next", "nächsten", "and", "-", "viertel vor", "after", "before"]
    shorts = ["5pm", "tomorrow", "may 5th", "17:30", "friday", "heute", "8 uhr", "12.12.2020"]
    words = ["lunch", "xyzzy", "call", "then", "qwrk"]
    for _ in range(600 if tier == "thorough" else 160):
        chain = " ".join(rng.choice(glue) for _ in range(rng.randint(3, 5)))
        parts = [chain, rng.choice(words), rng.choice(shorts)]
        if rng.random() < 0.5: parts.reverse()
        cases.append((" ".join(parts), rng.choice(refs), {"latent": rng.random() < 0.5, "depth": rng.choice([10, 0]), "rml": rng.choice([1.0, 1.0, 0.8]), "scorer": rng.choice(["shipped", "const"]), "seed": 0}))
    ctx = mp.get_context("fork")
    with ctx.Pool(min(16, os.cpu_count() or 1)) as pool:
        recs = pool.map(c14_case, cases, chunksize=4)
    fails, seen, dist = [], set(), collections.Counter()
    # call histories with ONE scorer object whose state changes between calls (a seeded random scorer re-seeded before each
    # pair of calls): "identical arguments" includes the scorer's state at the time of the call
    _init()
    from ctparse import ctparse as _cp, ctparse_gen as _cg
    from ctparse.scorer import RandomScorer as _RS
    from codec import enc_art as _ea
    for t, ts in samp(rng, ex, 12) + [("at 8", (2018, 3, 7, 12, 43, 0)), ("tomorrow 5pm", (2018, 3, 7, 12, 43, 0))]:
        rr = random.Random(0); shared = _RS(rr)
        for sd in (1, 2, 3, 1):
            try:
                rr.seed(sd); stream = [p for p in _cg(t, ts=to_ts(ts), timeout=0, scorer=shared) if p is not None]
                rr.seed(sd); single = _cp(t, ts=to_ts(ts), timeout=0, scorer=shared)
                dist["shared stateful scorer"] += 1
                key = lambda p: (_ea(p.resolution), tuple(str(x) for x in p.production))
                if stream:
                    mx = max(p.score for p in stream)
                    if single.resolution is None or single.score != mx or not any(key(p) == key(single) and p.score == single.score for p in stream):
                        fails.append({"text": t, "ts": list(ts), "opts": {"scorer": "one RandomScorer object, rng re-seeded to %d before each call" % sd, "history": "same arguments were used before with seeds 1.."},
                                      "expected": "single result = a maximal-score candidate of the stream under the scorer's current state (max %r)" % mx,
                                      "observed": "returned score %r" % (single.score,), "what": "C14: returned parse"})
                elif single.resolution is not None:
                    fails.append({"text": t, "ts": list(ts), "opts": {"scorer": "shared"}, "expected": "empty", "observed": "resolution although the stream is empty", "what": "C14: stream empty"})
            except Exception as e:
                fails.append({"text": t, "ts": list(ts), "opts": {"scorer": "shared"}, "expected": "no exception", "observed": type(e).__name__, "what": "C14: exception"})
    for c, r in zip(cases, recs):
        dist["scorer=" + c[2]["scorer"]] += 1; dist["candidates"] += r["n"]
        if r["n"] == 0: dist["empty stream"] += 1
        if r["n"] > 1: seen.add((c[0], json.dumps(c[2], sort_keys=True)))
        for p in r["probs"]:
            fails.append({"text": c[0], "ts": list(c[1]), "opts": c[2], "expected": "single result = a maximal-score candidate of the stream; finite scores; re-emission only with a strictly higher score", "observed": p, "what": "C14: " + p.split(" ")[0] + " " + p.split(" ")[1]})
    return {"evaluations": len(cases), "distinct_nontrivial": len(seen), "failures": fails, "samples": [{"text": c[0], "opts": c[2], "candidates": r["n"]} for c, r in list(zip(cases, recs))[:5]], "distribution": dict(dist),
            "rule": "corpus texts x {shipped, constant, seeded random scorer} x depth limits x latent on/off, no timeout; stream vs single-result call with identical arguments; non-trivial = distinct case with >= 2 candidates"}


# ------------------------------------------------------------------ C15
def val_key(a):
    from ctparse.types import RegexMatch, Time, Interval, Duration
    if isinstance(a, RegexMatch): return ("R", a.id, a.mstart, a.mend)
    if isinstance(a, Time): return ("T", a.year, a.month, a.day, a.hour, a.minute, a.DOW, a.POD)
    if isinstance(a, Interval): return ("I", val_key(a.t_from) if a.t_from else None, val_key(a.t_to) if a.t_to else None)
    if isinstance(a, Duration): return ("D", a.value, a.unit.value)


def own_matches(txt0):
    """every match of every registered pattern at every position, overlapping ones included - found with the regex module
    directly, not through the library's matching function (the specification of 'the pattern matches of the text')"""
    from ctparse.rule import _regex
    from ctparse.types import RegexMatch
    out, seen = [], set()
    for rid, rx in _regex.items():
        for m in rx.finditer(txt0, overlapped=True):
            r = RegexMatch(rid, m)
            k = (rid, r.mstart, r.mend)
            if k not in seen and r.mend > r.mstart:
                seen.add(k); out.append(r)
    return sorted(out, key=lambda m: (m.mstart, m.mend, m.id))


def hull_spans(txt, ts, production, target):
    """replay the reported derivation with own bookkeeping of positions: a value spans from the first to the last of the
    matches it consumed.  Returns the set of spans under which `target` can be derived along `production`."""
    C = sys.modules["ctparse.ctparse"]
    from ctparse.rule import rules
    from ctparse.types import RegexMatch
    txt0 = label_free(C._preprocess_string(txt))
    ids = [x for x in production if isinstance(x, int)]
    names = [x for x in production if isinstance(x, str)]
    ms = own_matches(txt0)
    seqs = [s for s in C._regex_stack(txt0, ms) if [m.id for m in s] == ids]
    frontier = [tuple((m, m.mstart, m.mend) for m in s) for s in seqs]
    for nm in names:
        if nm not in rules: return set()
        f, pat = rules[nm]
        nxt = []
        for p in frontier:
            objs = tuple(x[0] for x in p)
            for (i, j) in C._match_rule(objs, pat):
                args = [a if isinstance(a, RegexMatch) else copy.deepcopy(a) for a in objs[i:j]]
                r = f(ts, *args)
                if r is not None:
                    nxt.append(p[:i] + ((r, min(x[1] for x in p[i:j]), max(x[2] for x in p[i:j])),) + p[j:])
        frontier = nxt[:400]
        if not frontier: return set()
    return {(x[1], x[2]) for p in frontier for x in p if not isinstance(x[0], RegexMatch) and val_key(x[0]) == target}


def brute(txt, ts, limit=6000):
    """independent closure of the derivation relation: gap-free maximal-coverage sequences, all rule applications on private copies"""
    C = sys.modules["ctparse.ctparse"]
    from ctparse.rule import rules, _regex
    from ctparse.types import RegexMatch
    txt0 = label_free(C._preprocess_string(txt))
    ms = own_matches(txt0)
    # own enumeration of maximal gap-free sequences
    n = len(ms)
    adj = lambda a, b: b.mstart >= a.mend and txt0[a.mend:b.mstart].strip() == "" and True
    succ = {i: [j for j in range(i + 1, n) if adj(ms[i], ms[j]) and not ms[j].mstart < ms[i].mend] for i in range(n)}
    haspred = {j for i in range(n) for j in succ[i]}
    seqs = []
    def walk(path):
        if len(seqs) > 3000: return
        nx = succ[path[-1]]
        if not nx: seqs.append(tuple(ms[i] for i in path)); return
        for j in nx: walk(path + [j])
    for i in range(n):
        if i not in haspred: walk([i])
    if not seqs: return set(), set(), {}, 0
    cov = lambda s: s[-1].mend - s[0].mstart
    mx = max(cov(s) for s in seqs)
    seqs = [s for s in seqs if cov(s) >= mx]
    seen = {}
    traces = {}
    work = list(seqs)
    for s in work:
        k = tuple(val_key(x) for x in s); seen[k] = s; traces[k] = {tuple(str(r.id) for r in s)}
    terminals = set(); cnt = 0
    while work:
        p = work.pop(); cnt += 1
        if cnt > limit: return None, None, None, cnt
        kp = tuple(val_key(x) for x in p)
        any_succ = False
        for name, (f, pat) in rules.items():
            for (i, j) in C._match_rule(p, pat):
                args = [a if isinstance(a, RegexMatch) else copy.deepcopy(a) for a in p[i:j]]
                r = f(ts, *args)
                if r is None: continue
                any_succ = True
                q = p[:i] + (r,) + p[j:]
                k = tuple(val_key(x) for x in q)
                if k not in seen:
                    seen[k] = q; work.append(q)
        if not any_succ:
            for x in p:
                if not isinstance(x, RegexMatch): terminals.add(val_key(x))
    allvals = {v for k in seen for v in k if v[0] != "R"}
    return terminals, allvals, seen, cnt


def replay_trace(txt, ts, production, target):
    """is `production` a real derivation of `target`: some maximal sequence with these ids, rules applied in this order at some window"""
    C = sys.modules["ctparse.ctparse"]
    from ctparse.rule import rules, _regex
    from ctparse.types import RegexMatch
    txt0 = label_free(C._preprocess_string(txt))
    ids = [x for x in production if isinstance(x, int)]
    names = [x for x in production if isinstance(x, str)]
    ms = C._match_regex(txt0, _regex)
    seqs = [s for s in C._regex_stack(txt0, ms) if [m.id for m in s] == ids]
    frontier = [tuple(s) for s in seqs]
    for nm in names:
        if nm not in rules: return False
        f, pat = rules[nm]
        nxt = []
        for p in frontier:
            for (i, j) in C._match_rule(p, pat):
                args = [a if isinstance(a, RegexMatch) else copy.deepcopy(a) for a in p[i:j]]
                r = f(ts, *args)
                if r is not None: nxt.append(p[:i] + (r,) + p[j:])
        frontier = nxt[:400]
        if not frontier: return False
    return any(val_key(x) == target for p in frontier for x in p)


def c15_case(case):
    _init()
    from ctparse import ctparse_gen
    from ctparse.scorer import DummyScorer, RandomScorer
    from ctparse.rule import rules
    C = sys.modules["ctparse.ctparse"]
    text, ts, o = case
    t0 = to_ts(ts)
    terminals, allvals, seen, cnt = brute(text, t0)
    if terminals is None: return {"skip": "closure too large"}
    mk = {"shipped": lambda: None, "const": DummyScorer, "random": lambda: RandomScorer(random.Random(o["seed"]))}[o["scorer"]]
    probs = []
    # argument snapshots around every rule application (registry wrappers)
    mutated = []
    saved = {}
    for name, (f, pat) in list(rules.items()):
        def mkw(f=f, name=name):
            def w(ts_, *args):
                before = [val_key(a) + ((a.mstart, a.mend),) for a in args]
                r = f(ts_, *args)
                after = [val_key(a) + ((a.mstart, a.mend),) for a in args]
                if before != after: mutated.append(name)
                return r
            return w
        saved[name] = (f, pat); rules[name] = (mkw(), pat)
    try:
        yielded = []
        for p in ctparse_gen(text, ts=t0, timeout=0, max_stack_depth=o["depth"], latent_time=False, scorer=mk()):
            if p is None: continue
            yielded.append((p, val_key(p.resolution) + ((p.resolution.mstart, p.resolution.mend),)))
    except Exception as e:
        return {"fail": ["exception " + type(e).__name__]}
    finally:
        for name, v in saved.items(): rules[name] = v
    got = {k[:-1] for _, k in yielded}
    if not got <= allvals: probs.append("underivable candidate %s" % sorted(got - allvals, key=str)[:2])
    if o["depth"] == 0 and not terminals <= got: probs.append("fully reduced derivation result never streamed: %s" % sorted(terminals - got, key=str)[:2])
    if mutated: probs.append("rule %s altered the values it was applied to" % sorted(set(mutated))[:3])
    for p, k in yielded:
        if val_key(p.resolution) + ((p.resolution.mstart, p.resolution.mend),) != k: probs.append("a candidate changed after it was yielded"); break
    for p, k in yielded[:6]:
        if not replay_trace(text, t0, p.production, k[:-1]): probs.append("reported production %s is not a derivation of %s" % (p.production, p.resolution)); break
    # the same search with latent-time anchoring switched on: anchoring is post-processing of each yielded candidate, so the stream
    # must be the element-wise anchored form (computed here on private deep copies) of the stream without anchoring, and what was
    # yielded must not change afterwards
    if not probs:
        try:
            from ctparse.time.postprocess_latent import apply_postprocessing_rules
            want = [val_key(apply_postprocessing_rules(t0, copy.deepcopy(p.resolution))) for p, _ in yielded]
            snaps = []
            for p in ctparse_gen(text, ts=t0, timeout=0, max_stack_depth=o["depth"], latent_time=True, scorer=mk()):
                if p is None: continue
                snaps.append((p, val_key(p.resolution) + ((p.resolution.mstart, p.resolution.mend),)))
            got_l = [k[:-1] for _, k in snaps]
            if o["scorer"] != "random" or True:
                if got_l != want:
                    bad = [g for g in got_l if g not in want][:2]
                    probs.append("with latent_time the stream is not the anchored form of the stream without: %s" % (bad or "order/length differs"))
            for p, k in snaps:
                if val_key(p.resolution) + ((p.resolution.mstart, p.resolution.mend),) != k: probs.append("a candidate changed after it was yielded (latent_time on)"); break
        except Exception as e:
            probs.append("exception %s with latent_time on" % type(e).__name__)
    if probs: return {"fail": probs}
    return {"ok": len(yielded), "closure": cnt}


def c15_history_main():
    """fresh interpreter: the rule base is a live registry (`@rule` may be used at any time); what the registered rules license
    is re-decided after every change of the registry, also for texts of a shape that was parsed before the change"""
    _init()
    from ctparse.rule import rule, predicate, rules
    from ctparse.types import Time
    ts = (2020, 11, 25, 12, 0, 0)
    out = []
    def run(phase, texts):
        for t in texts:
            for o in ({"scorer": "const", "depth": 0, "seed": 0}, {"scorer": "shipped", "depth": 0, "seed": 0}):
                r = c15_case((t, ts, o))
                for p in r.get("fail", []):
                    out.append({"text": t, "ts": list(ts), "opts": dict(o, history=phase), "observed": p})
    run("shipped rules only", ["5pm monday", "8:30 friday", "montag 9 uhr"])

    @rule(predicate("isTOD"), predicate("isDOW"))
    def ruleQaTodDow(ts_, tod, dow):
        return Time(hour=tod.hour, minute=tod.minute, DOW=dow.DOW)

    @rule(predicate("isDOW"), predicate("isTOD"))
    def ruleQaDowTod(ts_, dow, tod):
        return Time(hour=tod.hour, minute=tod.minute, DOW=dow.DOW)
    run("after two rules were registered at run time (texts of shapes parsed before)", ["7pm friday", "9:15 sunday", "dienstag 10 uhr", "5pm monday"])
    del rules["ruleQaTodDow"]; del rules["ruleQaDowTod"]
    run("after the two rules were removed again", ["6pm tuesday", "mittwoch 11 uhr", "5pm monday"])
    print(json.dumps(out))


def sweep_c15(rng, tier):
    import multiprocessing as mp
    from ctparse.time.corpus import corpus
    C = sys.modules.get("ctparse.ctparse")
    _init()
    C = sys.modules["ctparse.ctparse"]
    P = lambda s: tuple(datetime.strptime(s, "%Y-%m-%dT%H:%M").timetuple()[:5]) + (0,)
    ex = [(t, P(tss)) for _, tss, tests in corpus for t in tests if len(C._preprocess_string(t)) <= 24]
    ex = samp(rng, ex, 160 if tier == "thorough" else 45)
    ts0 = (2020, 11, 25, 12, 0, 0)
    ex += [(t, ts0) for t in ["monday morning 5.12.2020", "freitag abend 4.12.2020", "tomorrow #work 5pm", "5.12.2020 #trip-1 8:30 - 9:30", "9-5", "8 - 9 uhr", "3 days 15-18 Nov", "15-18 Nov für 3 Nächte", "am 5.5. um 8"]]
    # texts whose match sequences of maximal coverage cannot be reduced to anything (connecting words, or a pattern match inside an
    # ordinary word) next to a shorter sequence that can: the stream must stay empty - "derived from a sequence of maximal coverage"
    # is decided on these (and on the same family with longer texts in C14)
    dead = ["since", "beginning", "minutes this", "between", "quarter to at", "until from", "at on the", "this of the"]
    live = ["5", "8", "1.", "may", "9h"]
    for a in (dead if tier == "thorough" else dead[:2] + samp(rng, dead[2:], 2)):
        for b in live:
            ex.append((a + " " + b, ts0)); ex.append((b + " " + a, ts0))
    # junction family: two expressions with one character between them and no blank - every printable ASCII punctuation mark and a few
    # letters / symbols.  Whether the character separates (pre-processing turns it into a blank), belongs to a pattern, or is an unmatched
    # gap is for the code to say; the closure above decides adjacency on its own ("nothing but blanks between two matches")
    left = ["tomorrow", "5.12.2020", "monday", "morgen", "3 may"]; right = ["5pm", "8:30", "9h", "17 uhr", "noon"]
    marks = [c for c in "!\"$%&'()*+,./:;<=>?@[\\]^_`{|}~"] + ["x", "§", "×", "→", "&&", "+ +"]
    for g in marks:
        pairs = [(a, b) for a in left for b in right] if tier == "thorough" else [(rng.choice(left), rng.choice(right))]
        for a, b in pairs:
            ex.append((a + g + b, ts0))
            if tier == "thorough": ex.append((b + g + a, ts0))
    cases = []
    for t, ts in ex:
        cases.append((t, ts, {"scorer": "const", "depth": 0, "seed": 0}))
        cases.append((t, ts, {"scorer": "shipped", "depth": 0, "seed": 0}))
        cases.append((t, ts, {"scorer": "random", "depth": rng.choice([0, 3]), "seed": rng.randrange(99)}))
    ctx = mp.get_context("fork")
    with ctx.Pool(min(16, os.cpu_count() or 1)) as pool:
        recs = pool.map(c15_case, cases, chunksize=2)
    fails, seen, dist = [], set(), collections.Counter()
    for c, r in zip(cases, recs):
        if "skip" in r: dist["skipped:" + r["skip"]] += 1; continue
        dist["checked"] += 1
        if r.get("ok", 0) >= 1: seen.add((c[0], json.dumps(c[2], sort_keys=True)))
        for p in r.get("fail", []):
            fails.append({"text": c[0], "ts": list(c[1]), "opts": c[2], "expected": "streamed = derivable; complete without depth limit; traces replay; rules do not alter their arguments", "observed": p, "what": "C15: " + " ".join(p.split(" ")[:3])})
    # registry history in a fresh interpreter
    code = "import sys; sys.path.insert(0, %r); sys.path.insert(0, %r); import warnings; warnings.simplefilter('ignore'); import sweeps2; sweeps2.c15_history_main()" % (REPO, os.path.join(VERIF, "harness"))
    pr = subprocess.run(["/venv/bin/python", "-c", code], capture_output=True, text=True, timeout=900)
    dist["registry histories"] = 3
    if pr.returncode != 0:
        fails.append({"text": "(registry history)", "ts": None, "opts": {}, "expected": "runs", "observed": pr.stderr[-400:], "what": "C15: registry history"})
    else:
        for f in json.loads(pr.stdout.strip().split("\n")[-1]):
            fails.append({"text": f["text"], "ts": f["ts"], "opts": f["opts"], "expected": "streamed = what the *currently registered* rules license", "observed": f["observed"], "what": "C15: registry history"})
    return {"evaluations": len(cases), "distinct_nontrivial": len(seen), "failures": fails, "samples": [{"text": c[0], "opts": c[2], "closure": r.get("closure")} for c, r in list(zip(cases, recs))[:5]], "distribution": dict(dist),
            "rule": "short texts (<= 24 chars, derivation closure enumerable) x {constant, shipped, seeded random scorer} x depth limits; independent brute-force closure of rule applications on private copies vs the real stream; replay of reported productions; argument snapshots around every rule application"}


# ------------------------------------------------------------------ C16 / C17
def textbook_nb(docs, labels, q, alpha=1.0):
    """independent reference: Laplace-smoothed multinomial NB over all 1-3-grams; returns (log P(neg|q), log P(pos|q))"""
    def grams(d):
        out = list(d)
        for n in (2, 3):
            out += [" ".join(d[i:i + n]) for i in range(len(d) - n + 1)]
        return out
    vocab = sorted({g for d in docs for g in grams(d)})
    cnt = {c: collections.Counter() for c in (0, 1)}
    for d, y in zip(docs, labels):
        cnt[1 if y else 0].update(grams(d))
    tot = {c: sum(cnt[c][g] for g in vocab) + alpha * len(vocab) for c in (0, 1)}
    n1 = sum(1 for y in labels if y); n0 = len(labels) - n1
    lp = {0: math.log(n0 / (n0 + n1)), 1: math.log(n1 / (n0 + n1))}
    for g in grams(q):
        if g in set(vocab):
            for c in (0, 1): lp[c] += math.log((cnt[c][g] + alpha) / tot[c])
    m = max(lp.values()); lse = m + math.log(sum(math.exp(v - m) for v in lp.values()))
    return lp[0] - lse, lp[1] - lse


def gen_corpus(rng):
    k = rng.choice([1, 2, 3, 5, 8, 12])
    alpha = ["r%d" % i for i in range(k)]
    n = rng.choice([2, 3, 5, 9, 20, 40])
    docs = [[rng.choice(alpha) for _ in range(rng.choice([1, 1, 2, 3, 4, 7, 12]))] for _ in range(n)]
    # documents without any token (a candidate whose production sequence is empty) belong to the training set like any other:
    # they add no n-gram counts but count towards their class's prior
    if rng.random() < 0.3:
        for _ in range(rng.randint(1, 3)):
            docs.insert(rng.randint(1, len(docs)), [])
        n = len(docs)
    labels = [rng.random() < rng.choice([0.2, 0.5, 0.8]) for _ in range(n)]
    if all(labels): labels[0] = False
    if not any(labels): labels[0] = True
    return alpha, docs, labels


def sweep_c16(rng, tier):
    _init()
    import bz2, pickle, tempfile
    from ctparse.nb_scorer import train_naive_bayes, NaiveBayesScorer, save_naive_bayes
    from ctparse.partial_parse import PartialParse
    from ctparse.types import Time
    C = sys.modules["ctparse.ctparse"]
    fails, dist = [], collections.Counter()
    n = 1500 if tier == "thorough" else 200
    seen = set()
    for i in range(n):
        alpha, docs, labels = gen_corpus(rng)
        try:
            mdl = train_naive_bayes(docs, labels)
        except Exception as e:
            fails.append({"text": json.dumps(docs), "ts": None, "opts": {"labels": labels}, "expected": "trains", "observed": type(e).__name__, "what": "C16 fit raises"}); continue
        vocab_sorted = sorted(mdl.transformer.vocabulary)
        for _ in range(4):
            L = rng.choice([0, 1, 2, 3, 5, 9, 30]) if rng.random() < 0.9 else rng.choice([150, 500])
            q = [rng.choice(alpha + ["unseen"]) for _ in range(L)]
            if rng.random() < 0.3 and vocab_sorted:
                q = q + vocab_sorted[-1].split(" ")          # the lexicographically greatest n-gram
            if rng.random() < 0.2 and docs: q = list(docs[0])
            dist["queries"] += 1
            try:
                got = mdl.predict_log_proba([q])[0]
            except Exception as e:
                fails.append({"text": json.dumps(q), "ts": None, "opts": {"docs": docs, "labels": labels}, "expected": "finite log-probabilities", "observed": type(e).__name__ + ": " + str(e), "what": "C16 predict raises"}); continue
            want = textbook_nb(docs, labels, q)
            seen.add((i, tuple(q)))
            ok = all(math.isfinite(x) for x in got) and abs(got[0] - want[0]) < 1e-9 and abs(got[1] - want[1]) < 1e-9 and abs(math.exp(got[0]) + math.exp(got[1]) - 1) < 1e-9
            if not ok:
                fails.append({"text": json.dumps(q), "ts": None, "opts": {"docs": docs, "labels": labels}, "expected": "textbook NB %r" % (want,), "observed": repr(got), "what": "C16 log-probabilities"})
            # score composition
            sc = NaiveBayesScorer(mdl)
            a = Time(); a.mstart, a.mend = 0, rng.randint(1, 9)
            x = Time(); x.mstart, x.mend = 2, 2 + rng.randint(1, 7)
            txt = "x" * rng.randint(9, 30)
            if q:
                pp = PartialParse((a,), tuple(q))
                s1 = sc.score(txt, None, pp); s2 = sc.score_final(txt, None, pp, x)
                e1 = (want[1] - want[0]) + math.log((a.mend - a.mstart) / len(txt)); e2 = (want[1] - want[0]) + 1000 * math.log((x.mend - x.mstart) / len(txt))
                if abs(s1 - e1) > 1e-9 or abs(s2 - e2) > 1e-7:
                    fails.append({"text": json.dumps(q), "ts": None, "opts": {"docs": docs, "labels": labels}, "expected": "log-odds + log share (x1000 final): %r %r" % (e1, e2), "observed": "%r %r" % (s1, s2), "what": "C16 score composition"})
        if i % 10 == 0:
            with tempfile.TemporaryDirectory() as td:
                fn = os.path.join(td, "m.pbz"); save_naive_bayes(mdl, fn)
                sc2 = NaiveBayesScorer.from_model_file(fn)
                q = docs[0]
                if sc2._model.predict_log_proba([q]) != mdl.predict_log_proba([q]):
                    fails.append({"text": json.dumps(q), "ts": None, "opts": {}, "expected": "same scores after save/load", "observed": "differs", "what": "C16 save/load"})
                dist["save/load"] += 1
    # "for any training set": the SAME model object fitted again on another training set answers for the new set — also for
    # documents it was asked about before the re-fit, also after save/re-load
    for i in range(40 if tier == "thorough" else 10):
        alpha, docsA, labelsA = gen_corpus(rng)
        _, docsB, labelsB = gen_corpus(rng)
        try:
            mdl = train_naive_bayes(docsA, labelsA)
            qs = [list(docsA[0]), list(docsB[0]), [rng.choice(alpha + ["unseen"]) for _ in range(rng.randint(1, 9))]]
            sc = NaiveBayesScorer(mdl)
            a = Time(); a.mstart, a.mend = 0, 4
            for q in qs:
                mdl.predict_log_proba([q])
                if q: sc.score("x" * 12, None, PartialParse((a,), tuple(q)))
            mdl.fit(docsB, [1 if y_ else -1 for y_ in labelsB])      # the label encoding of train_naive_bayes
            for q in qs:
                dist["queries after re-fit"] += 1
                got = mdl.predict_log_proba([q])[0]
                want = textbook_nb(docsB, labelsB, q)
                if not (abs(got[0] - want[0]) < 1e-9 and abs(got[1] - want[1]) < 1e-9):
                    fails.append({"text": json.dumps(q), "ts": None, "opts": {"history": "fitted on A, queried, fitted again on B", "docsB": docsB, "labelsB": labelsB},
                                  "expected": "textbook NB of the current training set %r" % (want,), "observed": repr(got), "what": "C16 re-fit"})
                if q:
                    s1 = sc.score("x" * 12, None, PartialParse((a,), tuple(q)))
                    e1 = (want[1] - want[0]) + math.log(4 / 12)
                    if abs(s1 - e1) > 1e-9:
                        fails.append({"text": json.dumps(q), "ts": None, "opts": {"history": "scorer built before the re-fit"}, "expected": repr(e1), "observed": repr(s1), "what": "C16 re-fit score"})
        except Exception as e:
            fails.append({"text": json.dumps(docsB), "ts": None, "opts": {"history": "re-fit"}, "expected": "re-fit works", "observed": "%s: %s" % (type(e).__name__, e), "what": "C16 re-fit raises"})
    # every candidate of (a sample of) the bundled corpus under the shipped model: finite, normalised, equals the recomputation from the pickled tables
    from ctparse.time.corpus import corpus
    from ctparse import ctparse_gen
    mdl = C._DEFAULT_SCORER._model
    inv = mdl.transformer.vocabulary
    for _, tss, tests in samp(rng, corpus, 40 if tier == "thorough" else 10):
        for t in tests[:3]:
            for p in ctparse_gen(t, ts=datetime.strptime(tss, "%Y-%m-%dT%H:%M"), timeout=0, latent_time=False):
                if p is None: continue
                q = [str(x) for x in p.production]
                got = mdl.predict_log_proba([q])[0]
                dist["shipped-model candidates"] += 1
                def grams(d):
                    out = list(d)
                    for n_ in (2, 3): out += [" ".join(d[i:i + n_]) for i in range(len(d) - n_ + 1)]
                    return out
                lp = [mdl.estimator.class_prior[0], mdl.estimator.class_prior[1]]
                for g, c in collections.Counter(grams(q)).items():
                    if g in inv:
                        lp[0] += mdl.estimator.log_likelihood["negative_class"][inv[g]] * c; lp[1] += mdl.estimator.log_likelihood["positive_class"][inv[g]] * c
                m = max(lp); lse = m + math.log(sum(math.exp(v - m) for v in lp))
                if not (all(math.isfinite(x) for x in got) and abs(got[0] - (lp[0] - lse)) < 1e-9 and abs(got[1] - (lp[1] - lse)) < 1e-9 and abs(math.exp(got[0]) + math.exp(got[1]) - 1) < 1e-9):
                    fails.append({"text": t, "ts": None, "opts": {"production": q}, "expected": "%r" % ((lp[0] - lse, lp[1] - lse),), "observed": repr(got), "what": "C16 shipped model"})
    return {"evaluations": sum(dist.values()), "distinct_nontrivial": len(seen), "failures": fails, "samples": [{"corpus": "random token sequences over r0..rk", "query_lengths": "0..30, some 150/500", "tolerance": 1e-9}], "distribution": dict(dist),
            "rule": "random corpora (alphabet 1-12, 2-40 documents, both classes present) x random queries incl. unseen tokens, the greatest vocabulary n-gram, a training document, and very long documents; independent textbook implementation as oracle; save/load round trip; candidates of the bundled corpus under the shipped model"}


def sweep_c17(rng, tier):
    _init()
    from ctparse.corpus import make_partial_rule_dataset, TimeParseEntry, parse_nb_string, run_corpus, load_timeparse_corpus
    from ctparse.scorer import DummyScorer
    from ctparse.nb_scorer import train_naive_bayes
    from ctparse import ctparse_gen
    from ctparse.types import Time, Interval, Duration, DurationUnit
    fails, dist = [], collections.Counter()
    seen = set()
    # 1. dataset builders: one sample per prefix, labelled by value equality with the gold (span independent)
    entries = []
    ts = datetime(2018, 3, 7, 12, 43)
    golds = [("monday morning", Time(DOW=0, POD="morning")), ("Montag früh", Time(DOW=0, POD="morning")), ("tuesday evening", Time(DOW=1, POD="evening")), ("tomorrow 5pm", Time(2018, 3, 8, 17, 0)),
             ("3 days", Duration(3, DurationUnit.DAYS)), ("two nights", Duration(2, DurationUnit.NIGHTS)), ("friday 8pm-9pm", Interval(Time(2018, 3, 9, 20, 0), Time(2018, 3, 9, 21, 0))),
             ("12.12.2020", Time(2020, 12, 12)), ("lunch 12.12.2020 with bob", Time(2020, 12, 12)), ("3 days", Duration(3, DurationUnit.HOURS)), ("before 5pm", Interval(None, Time(hour=17, minute=0))),
             # bare clock values and ranges: what the parser would anchor to a date at run time stays un-anchored in the training labels
             ("8:00 pm", Time(hour=20, minute=0)), ("5pm", Time(hour=17, minute=0)), ("call at 17:30", Time(hour=17, minute=30)),
             ("8:00 pm - 9:00 pm", Interval(Time(hour=20, minute=0), Time(hour=21, minute=0))),
             # the same text annotated differently (annotators disagree, or a value next to a range)
             ("friday 8pm-9pm", Time(2018, 3, 9, 20, 0)), ("tomorrow 5pm", Time(2018, 3, 8)), ("monday morning", Time(DOW=0))]
    try:
        ds = load_timeparse_corpus(os.path.join(REPO, "datasets", "timeparse_corpus.json"))
        extra = samp(rng, list(ds), 60 if tier == "thorough" else 12)
    except Exception:
        extra = []
    for text, gold in golds:
        entries.append(TimeParseEntry(text=text, ts=ts, gold=gold))
        # gold written with nb_str and loaded back must denote the same value
        dist["gold round trips"] += 1
        try:
            back = parse_nb_string(gold.nb_str())
        except Exception as e:
            fails.append({"text": gold.nb_str(), "ts": None, "opts": {}, "expected": "parse_nb_string(nb_str(x)) == x", "observed": type(e).__name__, "what": "C17 gold round trip"}); continue
        if back != gold:
            fails.append({"text": gold.nb_str(), "ts": None, "opts": {}, "expected": "parse_nb_string(nb_str(x)) == x", "observed": back.nb_str(), "what": "C17 gold round trip"})
    # the same text at another reference time (its gold differs because the day differs)
    entries.append(TimeParseEntry(text="tomorrow 5pm", ts=datetime(2020, 2, 29, 23, 30), gold=Time(2020, 3, 1, 17, 0)))
    entries.append(TimeParseEntry(text="tomorrow 5pm", ts=datetime(2020, 2, 29, 23, 30), gold=Time(2018, 3, 8, 17, 0)))
    entries += extra
    # every option the builder forwards is honoured: relative_match_len incl. 0 (every initial sequence), depth limits
    optsets = [(1.0, 0), (0.0, 0), (0.5, 0), (1.0, 10), (0.0, 3)]
    want_by_entry = {}
    for ei, e in enumerate(entries):
        for (rml, depth) in (optsets if ei < len(golds) else optsets[:2]):
            cands = [p for p in ctparse_gen(e.text, e.ts, relative_match_len=rml, timeout=0, max_stack_depth=depth, scorer=DummyScorer(), latent_time=False) if p is not None]
            want = []
            for p in cands:
                def same(a, b):
                    if type(a) != type(b): return False
                    if isinstance(a, Time): return all(getattr(a, k) == getattr(b, k) for k in ("year", "month", "day", "hour", "minute", "DOW", "POD"))
                    if isinstance(a, Interval): return all((x is None and y is None) or (x is not None and y is not None and same(x, y)) for x, y in ((a.t_from, b.t_from), (a.t_to, b.t_to)))
                    return a.value == b.value and a.unit == b.unit
                y = same(p.resolution, e.gold)
                for i in range(1, len(p.production) + 1):
                    want.append(([str(x) for x in p.production[:i]], y))
            if (rml, depth) == (1.0, 0): want_by_entry[ei] = list(want)
            got = [(list(X), bool(y)) for X, y in make_partial_rule_dataset([e], DummyScorer(), timeout=0, max_stack_depth=depth, relative_match_len=rml)]
            got_list = list(make_partial_rule_dataset([e], DummyScorer(), timeout=0, max_stack_depth=depth, relative_match_len=rml))     # materialised: aliases would show here
            got2 = [(list(X), bool(y)) for X, y in got_list]
            dist["dataset entries"] += 1
            seen.add(e.text)
            # with a depth limit the constant scorer's tie order is not fixed: compare as multisets
            norm_ = (lambda l: sorted(l, key=repr)) if depth else (lambda l: l)
            if norm_(got) != norm_(want) or norm_(got2) != norm_(want):
                fails.append({"text": e.text, "ts": str(e.ts), "opts": {"gold": e.gold.nb_str(), "relative_match_len": rml, "max_stack_depth": depth}, "expected": "%d samples: one per trace prefix, label = value equality with gold" % len(want), "observed": "%d samples, %d positive (expected %d positive)" % (len(got2), sum(y for _, y in got2), sum(y for _, y in want)), "what": "C17 dataset"})
    # the builder over a whole corpus is the concatenation of what it yields per entry, in the order of the entries: no state is carried
    # from one entry to the next (the corpus holds the same text with different golds, exact repeats, and the same text at another reference time)
    idx = list(range(len(entries)))
    orders = [idx, idx[::-1], idx + idx]
    sh = idx[:]; rng.shuffle(sh); orders.append(sh)
    rep = [i for i in idx if i < len(golds)]
    orders.append([i for pair in zip(rep, rep[1:] + rep[:1]) for i in pair])
    for order in orders:
        if any(i not in want_by_entry for i in order): continue
        want_all = [s_ for i in order for s_ in want_by_entry[i]]
        try:
            got_all = [(list(X), bool(y)) for X, y in make_partial_rule_dataset([entries[i] for i in order], DummyScorer(), timeout=0, max_stack_depth=0, relative_match_len=1.0)]
        except Exception as ex:
            got_all = "%s: %s" % (type(ex).__name__, ex)
        dist["whole-corpus datasets"] += 1
        if got_all != want_all:
            bad = next((k for k, (a, b) in enumerate(zip(got_all, want_all)) if a != b), min(len(got_all), len(want_all))) if isinstance(got_all, list) else 0
            # which entry does the first differing sample belong to
            acc, culprit = 0, order[-1]
            for i in order:
                acc += len(want_by_entry[i])
                if bad < acc: culprit = i; break
            e = entries[culprit]
            fails.append({"text": e.text, "ts": str(e.ts), "opts": {"gold": e.gold.nb_str(), "corpus": [[entries[i].text, str(entries[i].ts), entries[i].gold.nb_str()] for i in order][:40], "relative_match_len": 1.0, "max_stack_depth": 0},
                          "expected": "the samples of a corpus are the samples of its entries one after the other (%d samples); sample %d: %r" % (len(want_all), bad, want_all[bad] if bad < len(want_all) else None),
                          "observed": ("%d samples; sample %d: %r" % (len(got_all), bad, got_all[bad] if bad < len(got_all) else None)) if isinstance(got_all, list) else got_all, "what": "C17 dataset over a corpus"})
    # run_corpus on a mini corpus of every result type
    mini = [(g.nb_str(), "2018-03-07T12:43", [t]) for t, g in golds[:-3] if not (t == "3 days" and g.unit == DurationUnit.HOURS)]
    try:
        Xs, ys = run_corpus(mini)
        dist["run_corpus samples"] += len(Xs)
        if not any(ys): fails.append({"text": "mini corpus", "ts": None, "opts": {}, "expected": "positives", "observed": "none", "what": "C17 run_corpus"})
    except Exception as e:
        fails.append({"text": "mini corpus (Monday morning, durations, intervals)", "ts": None, "opts": {}, "expected": "every gold is produced and recognised", "observed": "%s: %s" % (type(e).__name__, e), "what": "C17 run_corpus"})
    # 2. duplication monotonicity
    n = 1500 if tier == "thorough" else 250
    for i in range(n):
        alpha, docs, labels = gen_corpus(rng)
        if rng.random() < 0.4:      # small saturated sets
            k = rng.choice([1, 2]); alpha = ["r%d" % j for j in range(k)]
            docs = [[rng.choice(alpha) for _ in range(rng.choice([1, 1, 2]))] for _ in range(rng.choice([2, 3, 4]))]
            labels = [True] + [rng.random() < 0.5 for _ in docs[1:]]
            if all(labels): labels[-1] = False
        pos = [j for j, y in enumerate(labels) if y]
        if not pos: continue
        j = rng.choice(pos); x = docs[j]
        if not x: continue
        prev = None
        for k in (0, 1, 2, 5, 20):
            mdl = train_naive_bayes(docs + [x] * k, labels + [True] * k)
            pr = mdl.predict_log_proba([x])[0]
            s = pr[1] - pr[0]
            dist["retrainings"] += 1
            if prev is not None and s < prev - 1e-9:
                fails.append({"text": json.dumps(x), "ts": None, "opts": {"docs": docs, "labels": labels, "copies": k}, "expected": "score of the duplicated positive example does not drop (was %r)" % prev, "observed": repr(s), "what": "C17 duplication monotonicity"}); break
            prev = s
        seen.add(("dup", i))
    return {"evaluations": sum(dist.values()), "distinct_nontrivial": len(seen), "failures": fails, "samples": [{"text": t, "gold": g.nb_str()} for t, g in golds[:5]], "distribution": dict(dist),
            "rule": "generated entries of every result type (incl. Monday = DOW 0, durations, open intervals, surrounding words) + entries of the bundled dataset through both dataset builders, materialised and streamed; gold strings round-tripped; random training sets (incl. small saturated ones) with a positive example duplicated k = 1, 2, 5, 20 times"}


# ------------------------------------------------------------------ C18
def sweep_c18(rng, tier):
    _init()
    from ctparse.types import Time, Interval, Duration, DurationUnit, pod_hours
    from ctparse.corpus import parse_nb_string, load_timeparse_corpus
    fails, dist = [], collections.Counter()
    pools = {"year": [None, 1, 1970, 1999, 2000, 2020, 9999], "month": [None, 1, 2, 12], "day": [None, 1, 28, 31], "hour": [None, 0, 12, 23], "minute": [None, 0, 30, 59],
             "DOW": [None, 0, 1, 6], "POD": [None, "morning", "earlymorning", "last", "verylatenight"]}
    keys = list(pools)
    allt = [Time(**dict(zip(keys, combo))) for combo in itertools.product(*[pools[k] for k in keys])]
    if tier == "quick": allt = samp(rng, allt, 2500) + [Time(), Time(DOW=0), Time(DOW=0, POD="morning"), Time(hour=0, minute=0), Time(year=1, month=1, day=1)]
    vk = lambda t: tuple(getattr(t, k) for k in keys)

    def check_value(x, valkey, kind):
        dist[kind] += 1
        s = x.nb_str()
        try:
            back = parse_nb_string(s)
        except Exception as e:
            fails.append({"text": s, "ts": None, "opts": {}, "expected": "text form parses back", "observed": type(e).__name__, "what": "C18 round trip"}); return s
        if not (back == x) or back.nb_str() != s:
            fails.append({"text": s, "ts": None, "opts": {}, "expected": "parse(print(x)) == x", "observed": back.nb_str(), "what": "C18 round trip"})
        y = copy.copy(x); y.mstart, y.mend = 3, 17
        if not (x == y) or hash(x) != hash(y):
            fails.append({"text": s, "ts": None, "opts": {"spans": [(x.mstart, x.mend), (3, 17)]}, "expected": "equal and equal hashes regardless of the character span", "observed": "eq=%s hash_eq=%s" % (x == y, hash(x) == hash(y)), "what": "C18 span independence"})
        return s
    strs = {}
    for t in allt:
        s = check_value(t, vk(t), "time values")
        if s in strs and strs[s] != vk(t):
            fails.append({"text": s, "ts": None, "opts": {"a": strs[s], "b": vk(t)}, "expected": "text form injective", "observed": "two different values print the same", "what": "C18 injectivity"})
        strs[s] = vk(t)
    sample = samp(rng, allt, 220 if tier == "thorough" else 70)
    for a in sample:
        for b in sample:
            dist["time pairs"] += 1
            eq = (a == b)
            if eq != (vk(a) == vk(b)):
                fails.append({"text": a.nb_str() + " == " + b.nb_str(), "ts": None, "opts": {}, "expected": str(vk(a) == vk(b)), "observed": str(eq), "what": "C18 equality"})
            if vk(a) == vk(b) and hash(a) != hash(b):
                fails.append({"text": a.nb_str(), "ts": None, "opts": {}, "expected": "equal hashes", "observed": "differ", "what": "C18 hash"})
    ends = [None] + samp(rng, allt, 12)
    ivs = [Interval(t_from=a, t_to=b) for a in ends for b in ends]
    ik = lambda i: (None if i.t_from is None else vk(i.t_from), None if i.t_to is None else vk(i.t_to))
    for i in ivs: check_value(i, ik(i), "interval values")
    for a in ivs[::3]:
        for b in ivs[::2]:
            dist["interval pairs"] += 1
            if (a == b) != (ik(a) == ik(b)):
                fails.append({"text": a.nb_str() + " == " + b.nb_str(), "ts": None, "opts": {}, "expected": str(ik(a) == ik(b)), "observed": str(a == b), "what": "C18 equality"})
    durs = [Duration(n, u) for n in (0, 1, 2, 7, 30, 100, 10 ** 6) for u in DurationUnit]
    for d in durs: check_value(d, (d.value, d.unit), "duration values")
    for a in durs:
        for b in durs:
            dist["duration pairs"] += 1
            want = (a.value, a.unit) == (b.value, b.unit)
            if (a == b) != want or (want and hash(a) != hash(b)):
                fails.append({"text": a.nb_str() + " == " + b.nb_str(), "ts": None, "opts": {}, "expected": str(want), "observed": str(a == b), "what": "C18 equality"})
    # histories: a value that was hashed before it reached its final field values, and values that crossed a process boundary
    # (pickled in an interpreter with another string-hash seed, after having been hashed there) still hash like a fresh equal value
    def hist(kind, x, y, how):
        dist["history: " + kind] += 1
        ok_eq = (x == y); ok_h = (hash(x) == hash(y)); ok_d = ({x: 1}.get(y) == 1)
        if not (ok_eq and ok_h and ok_d):
            fails.append({"text": y.nb_str(), "ts": None, "opts": {"history": how}, "expected": "equal to a freshly built equal value, same hash, found in a dict",
                          "observed": "eq=%s hash_eq=%s dict_lookup=%s" % (ok_eq, ok_h, ok_d), "what": "C18 hash after " + kind})
    for _ in range(300 if tier == "thorough" else 60):
        a = rng.choice(allt); b = rng.choice(allt)
        x = copy.copy(a); hash(x)
        for k in keys: setattr(x, k, getattr(b, k))
        hist("field assignment", x, Time(**dict(zip(keys, vk(b)))), "hashed, then all fields reassigned")
        x = copy.copy(a); hash(x); x.update_span(b, b); hist("update_span", x, Time(**dict(zip(keys, vk(a)))), "hashed, then update_span")
        i = Interval(t_from=copy.copy(a), t_to=copy.copy(b)); hash(i); i.t_to = None
        hist("field assignment", i, Interval(t_from=Time(**dict(zip(keys, vk(a)))), t_to=None), "interval hashed, then t_to cleared")
        i = Interval(t_from=copy.copy(a), t_to=copy.copy(b)); hash(i); i.t_from.minute = 7
        ta = Time(**dict(zip(keys, vk(a)))); ta.minute = 7
        hist("nested field assignment", i, Interval(t_from=ta, t_to=Time(**dict(zip(keys, vk(b))))), "interval hashed, then a field of its start assigned")
        d = Duration(rng.randrange(100), rng.choice(list(DurationUnit))); hash(d); d.value += 1; u2 = rng.choice(list(DurationUnit)); d.unit = u2
        hist("field assignment", d, Duration(d.value, u2), "duration hashed, then amount and unit reassigned")
    code = r'''
import sys, pickle, base64, warnings
warnings.simplefilter("ignore")
sys.path.insert(0, %r)
from ctparse.types import Time, Interval, Duration, DurationUnit
from ctparse import ctparse
from datetime import datetime
vals = [Duration(3, DurationUnit.DAYS), Duration(45, DurationUnit.MINUTES), Time(POD="morning"), Time(year=2020, month=2, day=29, POD="lateevening"), Time(hour=5, minute=30),
        Interval(t_from=Time(hour=9), t_to=Time(POD="evening")), Interval(t_from=None, t_to=Time(year=2020, month=1, day=1))]
for t in ("tomorrow morning", "for 3 days", "friday 8pm-9pm", "12.12.2020 for 2 weeks"):
    r = ctparse(t, ts=datetime(2018, 3, 7, 12, 43), timeout=0)
    if r is not None and r.resolution is not None: vals.append(r.resolution)
for v in vals: hash(v); {v: 1}
sys.stdout.write(base64.b64encode(pickle.dumps(vals, protocol=4)).decode())
''' % REPO
    import base64, pickle
    for sd in (["1", "2", "77"] if tier == "thorough" else ["1", "77"]):
        env = dict(os.environ); env["PYTHONHASHSEED"] = sd
        pr = subprocess.run(["/venv/bin/python", "-c", code], capture_output=True, text=True, env=env, timeout=300)
        if pr.returncode != 0:
            fails.append({"text": "(pickle producer)", "ts": None, "opts": {"PYTHONHASHSEED": sd}, "expected": "runs", "observed": pr.stderr[-300:], "what": "C18 pickle"}); continue
        for v in pickle.loads(base64.b64decode(pr.stdout.strip().split("\n")[-1])):
            if isinstance(v, Time): fresh = Time(**dict(zip(keys, vk(v))))
            elif isinstance(v, Interval):
                mk = lambda t: None if t is None else Time(**dict(zip(keys, vk(t))))
                fresh = Interval(t_from=mk(v.t_from), t_to=mk(v.t_to))
            else: fresh = Duration(v.value, v.unit)
            hist("unpickling (producer hash seed %s)" % sd, v, fresh, "hashed in another interpreter, pickled, loaded here")
    # different kinds are never equal
    if Time() == Interval() or Duration(1, DurationUnit.DAYS) == Time():
        fails.append({"text": "Time() == Interval()", "ts": None, "opts": {}, "expected": "False", "observed": "True", "what": "C18 equality"})
    try:
        # the gold strings of the bundled dataset, one by one (the loader parses them all at once: one string that does not parse
        # back would abort it - that string is the failing input, not a reason to stop looking)
        with open(os.path.join(REPO, "datasets", "timeparse_corpus.json"), encoding="utf-8") as fd:
            golds_ = sorted({e["gold_parse"] for e in json.load(fd)})
        for gs in golds_:
            dist["dataset gold strings"] += 1
            try:
                v = parse_nb_string(gs)
                if v.nb_str() != gs or parse_nb_string(v.nb_str()) != v:
                    fails.append({"text": gs, "ts": None, "opts": {}, "expected": "round trip", "observed": v.nb_str(), "what": "C18 round trip"})
            except Exception as e:
                fails.append({"text": gs, "ts": None, "opts": {}, "expected": "text form of the bundled dataset parses back", "observed": "%s: %s" % (type(e).__name__, str(e)[:60]), "what": "C18 round trip"})
    except FileNotFoundError:
        pass
    n = sum(dist.values())
    return {"evaluations": n, "distinct_nontrivial": len(strs) + len(ivs) + len(durs), "failures": fails, "samples": [allt[0].nb_str(), ivs[5].nb_str(), durs[3].nb_str()], "distribution": dict(dist),
            "rule": "product of present/absent and boundary values over all seven Time fields (DOW 0 and hour/minute 0 included); Interval pairs incl. open ends; Duration amounts x units; equality vs field-wise equality, hash agreement, span independence, injective text form, parse(print) round trip; gold strings of the bundled dataset"}


# ------------------------------------------------------------------ C19
def sweep_c19(rng, tier):
    _init()
    import ast as pyast
    from ctparse.rule import rules, _regex, _regex_str, _str_regex
    from ctparse.types import pod_hours, Time, RegexMatch
    C = sys.modules["ctparse.ctparse"]
    fails, dist = [], collections.Counter()
    # 1. every @rule definition in the source is registered under a unique name
    src = open(os.path.join(REPO, "ctparse", "time", "rules.py"), encoding="utf-8").read()
    tree = pyast.parse(src)
    defs = []
    for node in tree.body:
        if isinstance(node, pyast.FunctionDef) and any(isinstance(d, pyast.Call) and getattr(d.func, "id", None) == "rule" for d in node.decorator_list):
            nargs = [len(d.args) for d in node.decorator_list if isinstance(d, pyast.Call) and getattr(d.func, "id", None) == "rule"][0]
            defs.append((node.name, nargs))
    dist["rule definitions"] = len(defs)
    names = [n for n, _ in defs]
    dup = [n for n, c in collections.Counter(names).items() if c > 1]
    if dup: fails.append({"text": dup[0], "ts": None, "opts": {}, "expected": "unique rule names", "observed": "defined %d times" % names.count(dup[0]), "what": "C19 duplicate definition"})
    for n, k in defs:
        if n not in rules: fails.append({"text": n, "ts": None, "opts": {}, "expected": "registered", "observed": "not in the registry", "what": "C19 unregistered"})
        elif names.count(n) == 1 and len(rules[n][1]) != k: fails.append({"text": n, "ts": None, "opts": {}, "expected": "%d pattern elements" % k, "observed": "%d" % len(rules[n][1]), "what": "C19 registry mismatch"})
    if len(rules) != len(set(names)): fails.append({"text": "registry", "ts": None, "opts": {}, "expected": "%d rules" % len(set(names)), "observed": "%d" % len(rules), "what": "C19 registry size"})
    # 2. no adjacent regex predicates; identical pattern text shares one id
    for n, (f, pat) in rules.items():
        for a, b in zip(pat[:-1], pat[1:]):
            if a.__name__ == "_regex_match" and b.__name__ == "_regex_match": fails.append({"text": n, "ts": None, "opts": {}, "expected": "no two adjacent patterns", "observed": "adjacent", "what": "C19 adjacent patterns"})
    if len(set(_regex_str.values())) != len(_regex_str) or any(_regex_str[i] != s for s, i in _str_regex.items()):
        fails.append({"text": "regex ids", "ts": None, "opts": {}, "expected": "identical pattern text shares one id", "observed": "duplicate pattern text under two ids", "what": "C19 ids"})
    # 2b. the registration guards reject faulty definitions *without leaving anything behind* (fresh interpreter: the rejected
    #     definitions must not pollute this process): tables unchanged, no live pattern matches the empty string, parsing works
    code = r'''
import sys, warnings
warnings.simplefilter("ignore")
sys.path.insert(0, %r)
import ctparse
from ctparse.rule import rule, rules, _regex, _regex_str, _str_regex, predicate, dimension
from ctparse.types import Time
from datetime import datetime
snap = lambda: (sorted(rules), sorted(_regex), sorted(_regex_str.items()), sorted(_str_regex.items()), [(k, v.pattern) for k, v in sorted(_regex.items())])
s0 = snap()
bad = []
for pats in [("",), ("a*",), (r"\s*",), ("x?",), ("(foo)?",), ("foo", "bar"), (dimension(Time), "foo", "bar"), ("|x",)]:
    try:
        @rule(*pats)
        def ruleFaulty(ts, *a): return None
        bad.append("definition %%r was accepted" %% (pats,))
    except ValueError:
        pass
    except Exception as e:
        bad.append("definition %%r: %%s instead of ValueError" %% (pats, type(e).__name__))
    if snap() != s0:
        bad.append("rejected definition %%r left something behind in the rule / pattern tables" %% (pats,)); break
for k, rx in _regex.items():
    if rx.match("") or any(m.end() == m.start() for m in rx.finditer("a 5 x", overlapped=True)):
        bad.append("live pattern %%r matches the empty string" %% k)
try:
    r = ctparse.ctparse("tomorrow 5pm", ts=datetime(2018, 3, 7, 12, 43), timeout=0)
    if r is None or r.resolution is None or str(r.resolution) != "2018-03-08 17:00 (X/X)": bad.append("parse after rejected definitions: %%s" %% (r,))
except Exception as e:
    bad.append("parse after rejected definitions raises %%s: %%s" %% (type(e).__name__, e))
print("\n".join(bad))
''' % REPO
    pr = subprocess.run(["/venv/bin/python", "-c", code], capture_output=True, text=True, timeout=300)
    dist["registration guards"] = 8
    out_lines = [l for l in pr.stdout.split("\n") if l.strip()]
    if pr.returncode != 0:
        out_lines.append("guard probe crashed: " + pr.stderr[-300:])
    for l in out_lines[:5]:
        fails.append({"text": "(rule definitions)", "ts": None, "opts": {"history": "faulty definitions are attempted, then the tables are inspected and a text is parsed"}, "expected": "ValueError and nothing left behind", "observed": l, "what": "C19 registration guard"})
    # 3. no pattern matches the empty string / yields a zero-length match on probe texts
    probes = ["", " ", "  ", "a", "1", ".", "12", "h", "x y", "montag 5", "5.5.", "-", "am", "uhr", "\t", " ", "5 ", " 5", "früh", "5th of may 2020 8pm to 9pm for 3 days"]
    from ctparse.time.corpus import corpus
    probes += [t for _, _, tests in samp(rng, corpus, 30) for t in tests[:2]]
    for rid, rx in _regex.items():
        for t in probes:
            dist["pattern x probe"] += 1
            for m in rx.finditer(t, overlapped=True):
                if m.end() == m.start() or RegexMatch(rid, m).mend <= RegexMatch(rid, m).mstart:
                    fails.append({"text": t, "ts": None, "opts": {"pattern": rid}, "expected": "no zero-length match", "observed": "span %r" % (m.span(),), "what": "C19 zero-length match"}); break
    # 4. every rule can fire (witness: appears in a production of the corpus run or of a generated text)
    fired = set()
    from ctparse import ctparse_gen
    from ctparse.time.auto_corpus import corpus as ac
    wit = [(t, tss) for _, tss, tests in corpus for t in tests] + [(t, tss) for _, tss, tests in samp(rng, ac, 150) for t in tests[:1]]
    wit += [(t, "2018-03-07T12:43") for t in ["15-18 Nov für 3 Nächte", "15-18 Nov 3 Nächte", "3 days 15-18 Nov", "monday 5th", "5th of may", "early morning", "very late evening", "end of month", "eoy", "übermorgen", "vorgestern",
                                              "quarter past 3", "half past 8", "halb nach 8", "morning to evening", "friday next week", "late 8-9", "12.12.2020 for 3 days", "midnight", "1230 uhr", "3 o'clock", "now", "before 5pm", "after friday", "12/24", "vom 5.5. bis 7.5.2020"]]
    for t, tss in wit:
        if len(fired) == len(rules): break
        for p in ctparse_gen(t, ts=datetime.strptime(tss, "%Y-%m-%dT%H:%M"), timeout=0, max_stack_depth=0, latent_time=False):
            if p is not None: fired.update(x for x in p.production if isinstance(x, str))
    dist["rules fired"] = len(fired & set(rules))
    for n in rules:
        if n not in fired: fails.append({"text": n, "ts": None, "opts": {}, "expected": "the rule fires on some text", "observed": "no witness among %d texts" % len(wit), "what": "C19 rule never fires"})
    # 5. part-of-day closure: all modifier chains the registered productions can build stay inside the table
    rid = G.regex_id_of("ruleEarlyLatePOD")
    mods = []
    for w in ["early", "late", "very early", "very late", "früh", "spät", "sehr früh", "sehr spät"]:
        for m in _regex[rid].finditer(w, overlapped=True):
            if m.span() == (0, len(w)): mods.append(RegexMatch(rid, m))
    frontier = [Time(POD=k) for k in pod_hours]
    seenp = set(pod_hours)
    depth = 5 if tier == "thorough" else 4
    for _ in range(depth):
        nxt = []
        for p in frontier:
            for m in mods:
                dist["modifier chains"] += 1
                r = rules["ruleEarlyLatePOD"][0](datetime(2018, 3, 7), m, copy.copy(p))
                if r is None: continue
                if r.POD not in pod_hours:
                    fails.append({"text": r.POD, "ts": None, "opts": {"from": p.POD}, "expected": "a key of the part-of-day table", "observed": "unknown part of day", "what": "C19 part-of-day closure"})
                elif r.POD not in seenp: seenp.add(r.POD); nxt.append(r)
        frontier = nxt
    for k, (a, b) in pod_hours.items():
        if not (0 <= a <= 23 and 0 <= b <= 23): fails.append({"text": k, "ts": None, "opts": {}, "expected": "hours within 0..23", "observed": repr((a, b)), "what": "C19 part-of-day hours"})
    # 6. shipped vocabulary speaks the rule base's language
    mdl = getattr(C._DEFAULT_SCORER, "_model", None)
    if mdl is not None:
        toks = {w for g in mdl.transformer.vocabulary for w in g.split(" ")}
        dist["vocabulary unigrams"] = len(toks)
        for w in toks:
            if not (w in rules or (w.isdigit() and int(w) in _regex)):
                fails.append({"text": w, "ts": None, "opts": {}, "expected": "a pattern id or rule name", "observed": "unknown token in the shipped vocabulary", "what": "C19 vocabulary"})
    return {"evaluations": sum(dist.values()), "distinct_nontrivial": len(defs) + len(_regex), "failures": fails, "samples": [{"rule": defs[0][0]}, {"patterns": len(_regex)}, {"pods_reached": len(seenp)}], "distribution": dict(dist),
            "rule": "syntax tree of ctparse/time/rules.py vs the registry; all patterns x probe texts (zero-length matches); adjacency and id sharing; a firing witness per rule from corpus/generated texts; all early/late/very modifier chains up to depth 4-5 over every table key; all unigram tokens of the shipped vocabulary"}
