"""Property sweeps: statement-level oracles on the real parser (system correspondence / failing-input search).
Each sweep returns {"evaluations", "distinct_nontrivial", "failures": [...], "samples", "rule", "distribution"}.
A failure record has "text", "ts", "opts", "expected", "observed", "what"."""
import calendar, collections, itertools, random, re, sys
from qa import samp
from datetime import date, datetime, timedelta
import grammar as G
from realparse import parse_many, T, I, to_ts


# ------------------------------------------------------------------ reference times
def boundary_dates():
    ds = set()
    for y in (2016, 2018, 2019, 2020, 2021, 2023, 2024, 2027, 2028, 2043):
        for m in range(1, 13):
            last = calendar.monthrange(y, m)[1]
            ds.add(date(y, m, last)); ds.add(date(y, m, 1))
        for m, d in ((2, 27), (2, 28), (1, 29), (1, 30), (12, 30), (3, 7), (6, 15), (3, 30), (5, 31)):
            ds.add(date(y, m, d))
    ds.add(date(2020, 2, 29)); ds.add(date(2024, 2, 29)); ds.add(date(2016, 2, 29))
    return sorted(ds)


TIMES = [(0, 0, 0), (12, 43, 0), (23, 59, 59, 999999)]


def ref_times(rng, tier, n_quick):
    ds = boundary_dates()
    if tier == "thorough":
        d0 = date(2016, 1, 1)
        ds = [d0 + timedelta(i) for i in range((date(2043, 12, 31) - d0).days + 1)]
        return [(d.year, d.month, d.day) + rng.choice(TIMES) for d in ds]
    picked = samp(rng, ds, min(n_quick, len(ds)))
    return [(d.year, d.month, d.day) + t for d in picked for t in (samp(rng, TIMES, 2))]


def dT(d):
    return T(d.year, d.month, d.day)


def finish(name, cases, expect, recs, rule, extra_check=None, families=None):
    fails = []
    dist = collections.Counter()
    seen = set()
    for (case, exp, fam), rec in zip(zip(cases, expect, families or [""] * len(cases)), recs):
        dist[fam] += 1
        if rec.get("res") is not None:
            seen.add((case[0], case[1]))
        obs = rec.get("res") if not rec.get("err") else "EXC " + rec["err"]
        ok = (obs == exp) if not callable(exp) else exp(rec)
        if not ok:
            fails.append({"text": case[0], "ts": list(case[1]) if case[1] else None, "opts": case[2], "expected": exp if not callable(exp) else "predicate", "observed": obs,
                          "what": "%s: %s" % (name, fam)})
    samples = [{"text": c[0], "ts": list(c[1]) if c[1] else None, "expected": e if not callable(e) else "predicate", "impl": r.get("res")} for c, e, r in list(zip(cases, expect, recs))[:: max(1, len(cases) // 5)]][:6]
    try:
        hist = history_check(name, cases, recs)
        dist["history replays"] = 40
        fails += hist
    except Exception as e:
        dist["history replays skipped: %s" % type(e).__name__] = 1
    return {"evaluations": len(cases), "distinct_nontrivial": len(seen), "failures": fails, "samples": samples, "rule": rule, "distribution": dict(dist)}


def label_stratum(rng, cases, exp, fam, k, preds_ok=False):
    """hashtags never change a resolution (C10) - also not when they stand between the parts of an expression: a sample of the
    multi-word cases again with a '#tag' at a blank that no single pattern match spans (decided by the library's own matcher)"""
    from realparse import _init
    _init()
    C = sys.modules["ctparse.ctparse"]
    from ctparse.rule import _regex
    cand = [i for i, c in enumerate(cases) if isinstance(c[0], str) and " " in c[0].strip() and "#" not in c[0] and (preds_ok or not callable(exp[i])) and not (c[2] or {}).get("frozen_now")]
    for i in samp(rng, cand, k):
        t = cases[i][0]
        n = C._preprocess_string(t)
        if n != t:
            continue
        ms = C._match_regex(n, _regex)
        pos = [j for j, ch in enumerate(n) if ch == " " and not any(m.mstart < j < m.mend for m in ms)]
        if not pos:
            continue
        j = rng.choice(pos)
        v = n[:j] + " " + rng.choice(["#work", "#a-b", "#x_1"]) + n[j:]
        cases.append((v,) + tuple(cases[i][1:])); exp.append(exp[i]); fam.append("label inside: " + str(fam[i]))


def option_stratum(rng, cases, exp, fam, k):
    """what an expression resolves to does not depend on how generously shorter match sequences are admitted: a sample of the
    cases again with relative_match_len=0.7 (the intended reading still covers the whole expression, so it still wins)"""
    cand = [i for i, c in enumerate(cases) if isinstance(c[0], str) and not callable(exp[i]) and not (c[2] or {}).get("frozen_now") and "relative_match_len" not in (c[2] or {})]
    # half of the sample from the texts with most words (more matches, more competing sequences), one per text
    byw = sorted(cand, key=lambda i: (-len(cases[i][0].split()), rng.random()))
    seen, longest = set(), []
    for i in byw:
        if cases[i][0] not in seen:
            seen.add(cases[i][0]); longest.append(i)
        if len(longest) >= k // 2: break
    idx = longest + samp(rng, [i for i in cand if i not in set(longest)], k - len(longest))
    for i in idx:
        o = dict(cases[i][2] or {}); o["relative_match_len"] = 0.7
        cases.append((cases[i][0], cases[i][1], o)); exp.append(exp[i]); fam.append("relative_match_len 0.7: " + str(fam[i]))
    tz_stratum(rng, cases, exp, fam, max(10, k // 3))


def tz_stratum(rng, cases, exp, fam, k):
    """a reference time is a wall-clock reading: the same fields in a timezone-aware datetime (any UTC offset) give the same answer
    (the reference is never converted to another zone).  A sample of the cases again with an aware reference time; reference
    times near midnight first (there a conversion would change the date)"""
    cand = [i for i, c in enumerate(cases) if isinstance(c[0], str) and c[1] is not None and len(c[1]) >= 5 and not isinstance(c[1][-1], str)
            and not callable(exp[i]) and not (c[2] or {}).get("frozen_now")]
    night = [i for i in cand if cases[i][1][3] in (0, 1, 22, 23)]
    idx = samp(rng, night, k // 2)
    idx += samp(rng, [i for i in cand if i not in set(idx)], k - len(idx))
    for i in idx:
        off = rng.choice([330, -600, 120, 765, -210, 60])
        ts = tuple(cases[i][1]) + ("tz%d" % off,)
        cases.append((cases[i][0], ts, cases[i][2])); exp.append(exp[i]); fam.append("aware reference time (UTC%+d min): %s" % (off, fam[i]))


def history_check(name, cases, recs, k=40):
    """a parse is a function of its arguments, not of earlier calls (C12): a sample of the cases again, in this process, after
    the same text was parsed with latent_time toggled, with another coverage option and in upper case - the answer must be
    the one the worker process gave first"""
    from realparse import eval_case
    rng = random.Random(len(cases))
    API = {"latent_time", "max_stack_depth", "relative_match_len", "timeout"}
    cand = [i for i, c in enumerate(cases) if isinstance(c[0], str) and c[1] is not None and set(c[2] or {}) <= API and recs[i].get("err") is None]
    out = []
    for i in samp(rng, cand, k):
        text, ts, o = cases[i][0], cases[i][1], dict(cases[i][2] or {})
        o2 = dict(o); o2["latent_time"] = not o.get("latent_time", True)
        for c in ((text, ts, o2), (text.upper(), ts, o), (text, ts, o2)):
            eval_case(c)
        r = eval_case((text, ts, o))
        if r.get("res") != recs[i].get("res") or r.get("err") != recs[i].get("err"):
            out.append({"text": text, "ts": list(ts), "opts": dict(o, history="parsed before in this process with latent_time=%s and in upper case" % o2["latent_time"]),
                        "expected": "the answer of a first call: %s" % recs[i].get("res"), "observed": r.get("res") if not r.get("err") else "EXC " + r["err"], "what": "%s: history" % name})
    return out


def case_stratum(rng, cases, exp, fam, k):
    """all patterns are compiled case-insensitively, so every expression also exists in upper and title case: for a random
    sample of the cases add both spellings with the same expectation (family 'case: ...')"""
    cand = [i for i, c in enumerate(cases) if isinstance(c[0], str) and c[0].upper() != c[0]]
    # letters outside ASCII first (their case folding is the part that depends on how the patterns are compiled), one per text
    seen, special = set(), []
    for i in cand:
        if not cases[i][0].isascii() and cases[i][0] not in seen:
            seen.add(cases[i][0]); special.append(i)
    idx = samp(rng, special, k // 2)
    idx += samp(rng, [i for i in cand if i not in set(idx)], k - len(idx))
    for i in idx:
        t = cases[i][0]
        for v in {t.upper(), t.title()} - {t}:
            if v.lower() != t.lower():
                continue            # a spelling whose case mapping changes its letters (e.g. sharp s) is another text
            cases.append((v,) + tuple(cases[i][1:])); exp.append(exp[i]); fam.append("case: " + str(fam[i]))



# ------------------------------------------------------------------ C03
def c03_forms():
    out = []   # (family, text, kind, arg)
    for w in G.L("ruleToday"): out.append(("today", w, "plus", 0))
    for w in G.L("ruleNow"): out.append(("now", w, "now", 0))
    for w in G.L("ruleTomorrow"): out.append(("tomorrow", w, "plus", 1))
    for w in G.L("ruleAfterTomorrow"): out.append(("aftertomorrow", w, "plus", 2))
    for w in G.L("ruleYesterday"): out.append(("yesterday", w, "plus", -1))
    for w in G.L("ruleBeforeYesterday"): out.append(("beforeyesterday", w, "plus", -2))
    for w in G.L("ruleEOM"): out.append(("eom", w, "eom", 0))
    for w in G.L("ruleEOY"): out.append(("eoy", w, "eoy", 0))
    this_w = G.L("ruleAtDOW"); next_w = G.L("ruleNextDOW"); nw = G.L("ruleDOWNextWeek")
    for k, words in enumerate(G.dow_words()):
        for w in words:
            out.append(("dow-bare", w, "this", k))
            for a in this_w: out.append(("dow-this", "%s %s" % (a, w), "this", k))
            for a in next_w: out.append(("dow-next", "%s %s" % (a, w), "next", k))
            for a in nw: out.append(("dow-nextweek", "%s %s" % (w, a), "next", k))
    return out


def c03_expected(ts, kind, arg):
    d = date(ts[0], ts[1], ts[2])
    if kind == "plus": return dT(d + timedelta(arg))
    if kind == "now": return T(ts[0], ts[1], ts[2], ts[3], ts[4])
    if kind == "eom": return T(ts[0], ts[1], calendar.monthrange(ts[0], ts[1])[1])
    if kind == "eoy": return T(ts[0], 12, 31)
    if kind == "this": return dT(d + timedelta((arg - d.weekday()) % 7 or 7))
    if kind == "next":
        n7 = d + timedelta(7)
        return dT(n7 + timedelta((arg - n7.weekday()) % 7))
    raise ValueError(kind)


def _bracket_child(tzname, q):
    import os, time
    os.environ["TZ"] = tzname
    time.tzset()
    from datetime import datetime as _dt
    from realparse import eval_case
    out = []
    for text in ("now", "today", "jetzt"):
        t0 = _dt.now(); rec = eval_case((text, None, {})); t1 = _dt.now()
        if text == "today":
            lo, hi = T(t0.year, t0.month, t0.day), T(t1.year, t1.month, t1.day)
        else:
            lo, hi = T(t0.year, t0.month, t0.day, t0.hour, t0.minute), T(t1.year, t1.month, t1.day, t1.hour, t1.minute)
        out.append((text, lo, hi, rec))
    q.put(out)


def _bracket_in_zone(tzname):
    """ask without a reference time in a child process whose local zone is `tzname`; records + the bracketing wall-clock readings"""
    import multiprocessing as mp
    ctx = mp.get_context("fork")
    q = ctx.Queue()
    p = ctx.Process(target=_bracket_child, args=(tzname, q))
    p.start()
    try:
        out = q.get(timeout=120)
    finally:
        p.join(30)
    return out


def sweep_c03(rng, tier):
    forms = c03_forms()
    cases, exp, fam = [], [], []
    tss = ref_times(rng, tier, 40)
    per = 14 if tier == "thorough" else 40
    byfam = collections.defaultdict(list)
    for f in forms: byfam[f[0]].append(f)
    for ts in tss:
        pick = []
        for k, fs in byfam.items():
            pick += samp(rng, fs, min(len(fs), max(1, per // len(byfam) + 1)))
        for (family, text, kind, arg) in pick:
            cases.append((text, ts, {})); exp.append(c03_expected(ts, kind, arg)); fam.append(family)
    # every form at least once
    ts0 = (2018, 3, 7, 12, 43, 0)
    if tier == "thorough":
        for (family, text, kind, arg) in forms:
            cases.append((text, ts0, {})); exp.append(c03_expected(ts0, kind, arg)); fam.append(family)
    case_stratum(rng, cases, exp, fam, 240 if tier == "thorough" else 60)
    label_stratum(rng, cases, exp, fam, 200 if tier == "thorough" else 50)
    option_stratum(rng, cases, exp, fam, 200 if tier == "thorough" else 60)
    recs = parse_many(cases)
    # an omitted reference time means the current time: freeze `datetime.now` of the module (no source hook) and ask without ts
    import sys as _sys
    from realparse import _init, eval_case
    _init()
    Cm = _sys.modules["ctparse.ctparse"]
    real_dt = Cm.datetime
    # the frozen clock is faithful to the `tz` argument: the fake local zone is `off` hours ahead of UTC, so `now(tz)` is an
    # aware instant and only the naive `now()` is the local wall clock the property speaks of
    from datetime import timezone as _tz
    for now, off in [((2020, 2, 29, 23, 59, 59), 13), ((2019, 12, 31, 0, 0, 1), -11), ((2018, 3, 7, 12, 43, 0), 0), ((2021, 1, 1, 1, 30, 0), 13)]:
        class _Frozen(real_dt):
            @classmethod
            def now(cls, tz=None):
                local = real_dt(*now)
                if tz is None:
                    return local
                return (local - timedelta(hours=off)).replace(tzinfo=_tz.utc).astimezone(tz)

            @classmethod
            def utcnow(cls):
                return real_dt(*now) - timedelta(hours=off)

            @classmethod
            def today(cls):
                return real_dt(*now)
        Cm.datetime = _Frozen
        try:
            for (family, text, kind, arg) in [f for f in forms if f[1] in ("today", "tomorrow", "now", "eom", "gestern", "next friday", "übermorgen")]:
                c = (text, None, {}); r = eval_case(c)
                cases.append((text, now, {"ts": None, "frozen_now": list(now), "utc_offset_h": off})); exp.append(c03_expected(now, kind, arg)); fam.append("ts omitted"); recs.append(r)
        finally:
            Cm.datetime = real_dt
    # the same with the real clock under real non-UTC process time zones (child process; TZ + tzset): 'now' lies between two
    # readings of the local wall clock, 'today' is the local date
    for tzname in ("UTC-13", "UTC+11", "UTC"):
        br = _bracket_in_zone(tzname)
        for (text, lo, hi, rec) in br:
            tup = lambda x: tuple(-1 if v == "N" else int(v) for v in x.split(":")[1:6])
            ok = rec.get("err") is None and rec.get("res") is not None and rec["res"].startswith("T:") and tup(lo) <= tup(rec["res"]) <= tup(hi)
            cases.append((text, None, {"ts": None, "TZ": tzname, "bracket": [lo, hi]})); fam.append("ts omitted, TZ=" + tzname); recs.append(rec)
            exp.append(rec["res"] if ok else lo)
    return finish("C03", cases, exp, recs, "pattern-language forms of the relative-day rules x reference times (month/year ends, leap days, 3 times of day); "
                  "non-trivial = distinct (form, reference time) that resolved", families=fam)


# ------------------------------------------------------------------ C04
def next_with_day(d, k):
    x = d + timedelta(1)
    while x.day != k: x += timedelta(1)
    return x


def next_doy(d, m, k):
    x = d
    while not (x.day == k and x.month == m): x += timedelta(1)
    return x


def sweep_c04(rng, tier):
    cases, exp, fam = [], [], []
    tss = ref_times(rng, tier, 45)
    dows = G.dow_words()
    months = G.month_words()
    pods = {}
    from ctparse.time.rules import _pods
    from ctparse.types import pod_hours
    for name, _ in _pods:
        pods[name] = G.group_words("rulePOD", name)
    n_each = 3 if tier == "thorough" else 6
    for ts in tss:
        d = date(ts[0], ts[1], ts[2])
        # weekday
        for _ in range(n_each):
            k = rng.randrange(7); w = rng.choice(dows[k])
            cases.append((w, ts, {})); exp.append(dT(d + timedelta((k - d.weekday()) % 7 or 7))); fam.append("dow")
        # day of month
        for k in set([1, 28, 29, 30, 31, d.day] + [rng.randint(1, 31) for _ in range(n_each)]):
            form = rng.choice(["%d.", "the %dth", "%d.", "am %d.", "den %d."])
            if form == "the %dth":
                suf = "st" if k in (1, 21, 31) else "nd" if k in (2, 22) else "rd" if k in (3, 23) else "th"
                txt = "the %d%s" % (k, suf)
            else:
                txt = form % k
            cases.append((txt, ts, {})); exp.append(dT(next_with_day(d, k))); fam.append("dom")
        # day + month
        for (m, k) in set([(2, 29), (12, 31), (1, 1), (d.month, d.day), (2, 28)] + [(rng.randint(1, 12), rng.randint(1, 28)) for _ in range(n_each)]):
            mw = rng.choice(months[m - 1])
            form = rng.choice(["%d.%d.", "%d. %s", "%d %s", "%s %d", "%dth of %s"])
            if form == "%d.%d.": txt = "%d.%d." % (k, m)
            elif form == "%s %d": txt = "%s %d" % (mw, k)
            elif form == "%dth of %s":
                suf = "st" if k in (1, 21, 31) else "nd" if k in (2, 22) else "rd" if k in (3, 23) else "th"
                txt = "%d%s of %s" % (k, suf, mw)
            else: txt = form % (k, mw)
            cases.append((txt, ts, {})); exp.append(dT(next_doy(d, m, k))); fam.append("doy")
        # part of day
        for _ in range(2):
            name = rng.choice(list(pods)); w = rng.choice(pods[name])
            h_from = pod_hours[name][0]
            dd = d + timedelta(1) if (h_from, 0) <= (ts[3], ts[4]) else d
            cases.append((w, ts, {})); exp.append(T(dd.year, dd.month, dd.day, pod=name)); fam.append("pod")
    case_stratum(rng, cases, exp, fam, 240 if tier == "thorough" else 60)
    label_stratum(rng, cases, exp, fam, 200 if tier == "thorough" else 50)
    option_stratum(rng, cases, exp, fam, 200 if tier == "thorough" else 60)
    recs = parse_many(cases)
    return finish("C04", cases, exp, recs, "weekday / day-of-month / day+month / part-of-day forms from the pattern languages x boundary reference dates; "
                  "expected = nearest matching date by brute-force day stepping; non-trivial = distinct (form, ts) that resolved", families=fam)


# ------------------------------------------------------------------ C05
def sweep_c05(rng, tier):
    from ctparse.time.rules import _is_valid_military_time
    from ctparse.types import Time
    cases, exp, fam = [], [], []
    months = G.month_words()
    refs = [(2018, 3, 7, 12, 43, 0), (1999, 12, 31, 23, 59, 59), (2030, 6, 1, 0, 0, 0), (2020, 2, 29, 8, 0, 0), (1975, 1, 1, 1, 1, 1), (2095, 5, 5, 5, 5, 5),
            (2015, 7, 25, 10, 0, 0), (2024, 5, 15, 9, 30, 0), (2009, 12, 31, 0, 0, 0)]
    # 'independent of the reference time': leap days of several centuries (century start leap / not leap), century and year
    # boundaries, and reference times drawn at random from 1970-2130 on every run
    refs += [(1996, 2, 29, 12, 0, 0), (1992, 2, 29, 0, 0, 1), (2000, 2, 29, 23, 59, 59), (2104, 2, 29, 9, 0, 0), (2096, 2, 29, 9, 0, 0), (2099, 12, 31, 23, 59, 59), (2100, 1, 1, 0, 0, 0), (2000, 1, 1, 0, 0, 0)]
    for _ in range(12 if tier == "thorough" else 5):
        yy = rng.randint(1970, 2130); mm = rng.randint(1, 12)
        refs.append((yy, mm, rng.randint(1, calendar.monthrange(yy, mm)[1]), rng.randint(0, 23), rng.randint(0, 59), rng.randint(0, 59)))
    n = 2500 if tier == "thorough" else 260
    dates = []
    for _ in range(n):
        y = rng.randint(1990, 2029); m = rng.randint(1, 12); d = rng.randint(1, calendar.monthrange(y, m)[1]); dates.append((y, m, d))
    dates += [(2020, 2, 29), (2000, 2, 29), (1999, 12, 31), (2029, 12, 31), (1990, 1, 1), (2024, 2, 29), (2021, 2, 24), (2024, 2, 29), (2029, 12, 8)]
    for (y, m, d) in dates:
        e = T(y, m, d)
        for ts in samp(rng, refs, 4):
            for name, t in {"dd.mm.yyyy": "%02d.%02d.%d" % (d, m, y), "d.m.yyyy": "%d.%d.%d" % (d, m, y), "dd/mm/yyyy": "%02d/%02d/%d" % (d, m, y), "dd-mm-yyyy": "%02d-%02d-%d" % (d, m, y)}.items():
                cases.append((t, ts, {})); exp.append(e); fam.append(name)
            if y >= 2000:
                cases.append(("%02d.%02d.%02d" % (d, m, y % 100), ts, {})); exp.append(e); fam.append("dd.mm.yy")
            tsd = datetime(*ts)
            military = (y // 100 <= 23 and y % 100 <= 59 and _is_valid_military_time(tsd, Time(hour=y // 100, minute=y % 100)))
            if not military:
                mw = rng.choice(months[m - 1])
                suf = "st" if d in (1, 21, 31) else "nd" if d in (2, 22) else "rd" if d in (3, 23) else "th"
                for name, t in {"d M yyyy": "%d %s %d" % (d, mw, y), "M d yyyy": "%s %d %d" % (mw, d, y), "d. M yyyy": "%d. %s %d" % (d, mw, y),
                                "dth of M yyyy": "%d%s of %s %d" % (d, suf, mw, y), "M dth yyyy": "%s %d%s %d" % (mw, d, suf, y)}.items():
                    cases.append((t, ts, {})); exp.append(e); fam.append(name)
                h = rng.randint(0, 23); mi = rng.randint(0, 59)
                cases.append(("%d. %s %d %02d:%02d" % (d, mw, y, h, mi), ts, {})); exp.append(T(y, m, d, h, mi)); fam.append("d. M yyyy hh:mm")
                # month-name notations with the clock joined by a connector or written first
                arr = rng.choice(["%(d)d %(M)s %(y)d at %(h)02d:%(mi)02d", "%(h)02d:%(mi)02d %(d)d %(M)s %(y)d", "%(h)02d:%(mi)02d %(M)s %(d)d %(y)d", "%(d)d. %(M)s %(y)d um %(h)02d:%(mi)02d"])
                cases.append((arr % {"d": d, "M": mw, "y": y, "h": h, "mi": mi}, ts, {})); exp.append(T(y, m, d, h, mi)); fam.append("month name + clock: " + arr.replace("%(", "").replace(")d", "").replace(")s", "").replace(")02d", ""))
            h = rng.randint(0, 23); mi = rng.randint(0, 59)
            cases.append(("%02d.%02d.%d %02d:%02d" % (d, m, y, h, mi), ts, {})); exp.append(T(y, m, d, h, mi)); fam.append("+hh:mm")
            cases.append(("%02d.%02d.%d um %02d:%02d uhr" % (d, m, y, h, mi), ts, {})); exp.append(T(y, m, d, h, mi)); fam.append("+um hh:mm uhr")
            cases.append(("%02d:%02d %02d.%02d.%d" % (h, mi, d, m, y), ts, {})); exp.append(T(y, m, d, h, mi)); fam.append("hh:mm +")
    case_stratum(rng, cases, exp, fam, 240 if tier == "thorough" else 60)
    label_stratum(rng, cases, exp, fam, 200 if tier == "thorough" else 50)
    option_stratum(rng, cases, exp, fam, 200 if tier == "thorough" else 60)
    recs = parse_many(cases)
    # overlapping parses (this process, deterministic): a stream over text A is suspended after its first candidate, a text B of
    # the same notation (same layout, other numbers) is parsed completely, then A is resumed - A's best candidate is still A's date
    from realparse import _init as _ri
    _ri()
    from ctparse import ctparse_gen as _gen
    from codec import enc_val as _ev
    byfam = collections.defaultdict(list)
    for c, e, f in zip(cases, exp, fam):
        if not callable(e): byfam[f].append((c, e))
    for f, lst in byfam.items():
        for _ in range(6 if tier == "thorough" else 2):
            (ca, ea), (cb, eb) = samp(rng, lst, 2) if len(lst) >= 2 else (lst[0], lst[0])
            if ea == eb: continue
            try:
                g = _gen(ca[0], ts=to_ts(ca[1]), timeout=0)
                got = [next(g, None)]
                list(_gen(cb[0], ts=to_ts(cb[1]), timeout=0))
                got += list(g)
                got = [x for x in got if x is not None]
                best = max(got, key=lambda x: x.score) if got else None
                rec = {"err": None, "res": None if best is None else _ev(best.resolution)}
            except Exception as ex:
                rec = {"err": "%s: %s" % (type(ex).__name__, str(ex)[:60]), "res": None}
            cases.append((ca[0], ca[1], {"overlapping_parse": cb[0], "schedule": "A x1, B complete, A rest"})); exp.append(ea); fam.append("overlap: " + f); recs.append(rec)
    return finish("C05", cases, exp, recs, "valid dates 1990-2029 x numeric and month-name notations (month words from the pattern language) x clock suffix x 3 of 9 reference times; "
                  "month-name notations skipped when the year reads as a valid military time (computed from the library's own heuristic)", families=fam)


# ------------------------------------------------------------------ C06
def sweep_c06(rng, tier):
    cases, exp, fam = [], [], []
    ts0 = (2018, 3, 7, 12, 43, 0)
    minutes = range(60) if tier == "thorough" else sorted(set([0, 1, 5, 15, 29, 30, 45, 59] + samp(rng, range(60), 6)))
    off = {"latent_time": False}
    for h in range(24):
        for m in minutes:
            e = T(h=h, mi=m)
            h12 = h % 12 or 12; ap = "am" if h < 12 else "pm"
            forms = {"hh:mm": "%02d:%02d" % (h, m), "h:mm": "%d:%02d" % (h, m), "hh:mm uhr": "%02d:%02d uhr" % (h, m), "hhmm uhr": "%02d%02d uhr" % (h, m), "hhhmm": "%dh%02d" % (h, m),
                     "huhrmm": "%duhr%02d" % (h, m),
                     "h:mm ap": "%d:%02d %s" % (h12, m, ap), "h:mmap": "%d:%02d%s" % (h12, m, ap), "h.mm a.m.": "%d.%02d %s.m." % (h12, m, ap[0]), "h:mm AP": "%d:%02d %s" % (h12, m, ap.upper()),
                     "um hh:mm": "um %02d:%02d" % (h, m), "at h:mm ap": "at %d:%02d %s" % (h12, m, ap)}
            if m % 5 == 0 and h * 100 + m not in (2018,):
                forms["hhmm"] = "%02d%02d" % (h, m)
            for n, t in forms.items():
                cases.append((t, ts0, off)); exp.append(e); fam.append(n)
            # latent on: both sides of the reference minute, roll-overs
            for ts in ((2018, 3, 7, h, m, 0), (2018, 12, 31, 23, 59, 59), (2020, 2, 28, h, (m + 1) % 60, 30), (2019, 1, 31, (h + 1) % 24, m, 0)):
                tsd = datetime(*ts)
                want = tsd.replace(hour=h, minute=m, second=0, microsecond=0)
                if want <= tsd.replace(second=0, microsecond=0): want += timedelta(days=1)
                cases.append(("%02d:%02d" % (h, m), ts, {})); exp.append(T(want.year, want.month, want.day, h, m)); fam.append("latent")
        e0 = T(h=h, mi=0)
        for n, t in {"h ap": "%d %s" % (h % 12 or 12, "am" if h < 12 else "pm"), "hap": "%d%s" % (h % 12 or 12, "am" if h < 12 else "pm"), "h uhr": "%d uhr" % h, "hh": "%dh" % h,
                     "h a.m.": "%d %s.m." % (h % 12 or 12, "a" if h < 12 else "p")}.items():
            cases.append((t, ts0, off)); exp.append(e0); fam.append(n)
        cases.append(("%d o'clock" % h, ts0, off)); exp.append(T(h=h)); fam.append("h oclock")
    # named hours, quarter/half, hour + part of day
    from ctparse.time.rules import _named_ts
    for n, _ in _named_ts:
        for w in G.group_words("ruleNamedHour", "t_%d" % n):
            for suffix in ("", " uhr", " o'clock"):
                cases.append((w + suffix, ts0, off)); exp.append(T(h=n, mi=0)); fam.append("named")
    for h in range(1, 13):
        for w, (dh, mi) in {"quarter to %d": (-1, 45), "viertel vor %d": (-1, 45), "quarter past %d": (0, 15), "viertel nach %d": (0, 15), "half past %d": (0, 30),
                            "halb %d": (-1, 30), "a quarter before %d": (-1, 45), "quarter after %d": (0, 15), "half %d": (-1, 30)}.items():
            cases.append((w % h, ts0, off)); exp.append(T(h=(h + dh) % 24, mi=mi)); fam.append("quarter/half")
        named = G.group_words("ruleNamedHour", "t_%d" % h)
        for hw, mi in [(rng.choice(named), 0), ("%d o'clock" % h, None), ("%d uhr" % h, 0), ("%d:00" % h, 0), ("%d" % h, 0)]:
            for w, add in {"%s in the afternoon": 12, "%s in the evening": 12, "%s in the morning": 0, "%s nachmittags": 12, "%s abends": 12, "%s at night": 12, "%s morgens": 0}.items():
                hh = h + add if h < 12 else h
                cases.append((w % hw, ts0, off)); exp.append(T(h=hh, mi=mi)); fam.append("h + pod" if hw != "%d" % h else "bare h + pod")
    for w in G.L("ruleMidnight"):
        cases.append((w, ts0, off)); exp.append(T(h=0, mi=0)); fam.append("midnight")
    case_stratum(rng, cases, exp, fam, 240 if tier == "thorough" else 60)
    label_stratum(rng, cases, exp, fam, 200 if tier == "thorough" else 50)
    option_stratum(rng, cases, exp, fam, 200 if tier == "thorough" else 60)
    recs = parse_many(cases)
    return finish("C06", cases, exp, recs, "24 hours x minutes x 18 clock notations (latent off), named hours from the pattern language, quarter/half, hour + part of day, "
                  "and latent anchoring at reference times on both sides of the minute incl. day/month/year roll-over", families=fam)


# ------------------------------------------------------------------ C07
def dec_time(s):
    """'y:m:d:h:mi:dow:pod' -> dict"""
    f = s.split(":")
    g = lambda x: None if x == "N" else int(x)
    return {"y": g(f[0]), "m": g(f[1]), "d": g(f[2]), "h": g(f[3]), "mi": g(f[4]), "dow": g(f[5]), "pod": None if f[6] == "N" else f[6]}


def dec_interval(res):
    if not res or not res.startswith("I:"): return None
    a, b = res[2:].split("/")
    return (None if a == "N" else dec_time(a), None if b == "N" else dec_time(b))


def dt_of(t):
    return datetime(t["y"], t["m"], t["d"], t["h"] or 0, t["mi"] or 0)


def sweep_c07(rng, tier):
    cases, exp, fam = [], [], []
    ts0 = (2018, 3, 7, 12, 43, 0)
    joiners = G.L("ruleTODTOD")
    dateforms = ["", "12.12.2020 ", "tomorrow ", "friday ", "am 5.5. ", "31.01.2020 ", "29.02.2020 ", "31.12.2020 "]
    mvs = [(0, 0), (15, 15), (0, 30), (45, 10), (30, 15)]
    pairs = [(a, b) for a in range(24) for b in range(24)]

    def clock_pred(a, b, mv, dated):
        def pred(rec):
            iv = dec_interval(rec.get("res"))
            if rec.get("err") or not iv or iv[0] is None or iv[1] is None: return False
            f, t = iv
            if f["y"] is None or t["y"] is None or f["h"] is None or t["h"] is None: return False
            df, dtt = dt_of(f), dt_of(t)
            ok = (f["h"], f["mi"] or 0) == (a, mv[0]) and df < dtt <= df + timedelta(hours=24) and (t["mi"] or 0) == mv[1] and (t["h"] - b) % 12 == 0
            if ok and (dtt - df) % timedelta(hours=12) != ((b * 60 + mv[1]) - (a * 60 + mv[0])) % 720 * timedelta(minutes=1): ok = False
            # 9-5: both <= 12 and start hour after end hour -> + 12 h, same day
            if ok and a > b and a <= 12 and b <= 12 and (b + 12, mv[1]) > (a, mv[0]) and not (t["h"] == b + 12 and dtt.date() == df.date()): ok = False
            return ok
        return pred
    n_forms = 4 if tier == "thorough" else 2
    for (a, b) in pairs:
        for _ in range(n_forms):
            j = rng.choice(joiners); df = rng.choice(dateforms); mv = rng.choice(mvs)
            A = "%d:%02d" % (a, mv[0]); B = "%d:%02d" % (b, mv[1])
            if a == b and mv[0] == mv[1]:
                continue
            form = rng.choice(["j", "-", "between", "von"])
            txt = {"j": "%s%s %s %s" % (df, A, j, B), "-": "%s%s-%s" % (df, A, B), "between": "%sbetween %s and %s" % (df, A, B), "von": "%svon %s bis %s" % (df, A, B)}[form]
            cases.append((txt, ts0, {})); exp.append(clock_pred(a, b, mv, bool(df))); fam.append("clock range " + ("dated" if df else "undated"))

    # half-open
    def half_pred(side, val):
        def pred(rec):
            iv = dec_interval(rec.get("res"))
            if rec.get("err") or not iv: return False
            f, t = iv
            ok = (side == "to" and f is None and t is not None) or (side == "from" and t is None and f is not None)
            if ok and val is not None:
                x = t if side == "to" else f
                ok = "T:" + ":".join("N" if x[k] is None else str(x[k]) for k in ("y", "m", "d", "h", "mi", "dow", "pod")) == val
            return ok
        return pred
    # words that are also complete part-of-day words (latest, earliest, ...) are homographs: excluded by computation
    from ctparse.rule import _regex
    podrx = _regex[G.regex_id_of("rulePOD")]
    is_pod = lambda w: any(m.span() == (0, len(w)) for m in podrx.finditer(w, overlapped=True))
    before = [w for w in G.L("ruleBeforeTime") if not is_pod(w)]
    after = [w for w in G.L("ruleAfterTime") if not is_pod(w)]
    for w in before + after:
        neg = w.startswith("not ") or w.startswith("nicht ")
        side = ("to" if w in before else "from")
        if neg: side = "from" if side == "to" else "to"
        for X, val in [("12.12.2020", T(2020, 12, 12)), ("tomorrow", T(2018, 3, 8)), ("5pm", None), ("12.12.2020 17:00", T(2020, 12, 12, 17, 0))]:
            cases.append(("%s %s" % (w, X), ts0, {})); exp.append(half_pred(side, val)); fam.append("half-open")
    # date pairs
    ds = [date(2020, 2, 28), date(2020, 2, 29), date(2020, 3, 1), date(2019, 12, 31), date(2020, 1, 1), date(2021, 6, 15), date(2020, 12, 15), date(2021, 12, 10), date(2021, 12, 15), date(2022, 1, 1)]

    def date_pred(d1, d2):
        def pred(rec):
            iv = dec_interval(rec.get("res"))
            if rec.get("err"): return False
            if d1 < d2:
                return bool(iv) and iv[0] is not None and iv[1] is not None and rec["res"] == I(dT(d1), dT(d2))
            if iv and iv[0] is not None and iv[1] is not None and iv[0]["y"] is not None and iv[1]["y"] is not None:
                return dt_of(iv[0]) < dt_of(iv[1])      # never inverted
            return True
        return pred
    def never_inverted(rec):
        if rec.get("err"): return False
        iv = dec_interval(rec.get("res"))
        if iv and iv[0] is not None and iv[1] is not None and all(iv[k][f] is not None for k in (0, 1) for f in ("y", "m", "d")):
            return dt_of(iv[0]) <= dt_of(iv[1])
        return True
    for d1 in ds:
        for d2 in ds:
            if d1 == d2: continue
            for j in (["-", "to", "bis", "until"] if tier == "thorough" else [rng.choice(["-", "to", "bis", "until"])]):
                txt = "%d.%d.%d %s %d.%d.%d" % (d1.day, d1.month, d1.year, j, d2.day, d2.month, d2.year)
                cases.append((txt, ts0, {})); exp.append(date_pred(d1, d2)); fam.append("date pair")
            txt = "between %d.%d.%d and %d.%d.%d" % (d1.day, d1.month, d1.year, d2.day, d2.month, d2.year)
            cases.append((txt, ts0, {})); exp.append(date_pred(d1, d2)); fam.append("date pair")
            # a lower-bound word in front and an upper-bound word between (both of the pattern language, e.g. 'from A until B',
            # 'ab A bis B', 'after A before B'): whatever reading wins, a fully dated interval is never inverted
            for _ in range(2 if tier == "thorough" else 1):
                a, b = rng.choice(after), rng.choice(before)
                for fmt in ("%d.%d.%d", "%d.%d."):
                    f = (lambda d: fmt % ((d.day, d.month, d.year) if fmt.count("%d") == 3 else (d.day, d.month)))
                    txt = "%s %s %s %s" % (a, f(d1), b, f(d2))
                    cases.append((txt, (2019, 6, 1, 12, 0, 0), {})); exp.append(never_inverted); fam.append("bounded pair '<after-word> A <before-word> B'")
    case_stratum(rng, cases, exp, fam, 240 if tier == "thorough" else 60)
    label_stratum(rng, cases, exp, fam, 200 if tier == "thorough" else 50, preds_ok=True)
    option_stratum(rng, cases, exp, fam, 200 if tier == "thorough" else 60)
    recs = parse_many(cases)
    return finish("C07", cases, exp, recs, "all 24x24 hour pairs x minute variants x joiners of the pattern language x date forms (none, explicit incl. month ends, relative, weekday); "
                  "before/after words of the pattern language incl. negations; ordered and reversed date pairs incl. multi-year. Oracle: start = A, start < end <= start + 24 h, "
                  "end = B mod 12 h, 9-5 rule; half-open side; ordered pair gives exactly [A, B], reversed never inverted", families=fam)


# ------------------------------------------------------------------ C08
def add_months(d, n):
    mi = d.year * 12 + d.month - 1 + n
    y, m = divmod(mi, 12); m += 1
    return date(y, m, min(d.day, calendar.monthrange(y, m)[1]))


UNIT_OF = {"nights": "nights", "days": "days", "minutes": "minutes", "hours": "hours", "weeks": "weeks", "months": "months"}


def sweep_c08(rng, tier):
    from ctparse.time.rules import _durations, _named_number
    cases, exp, fam = [], [], []
    ts0 = (2018, 3, 7, 12, 43, 0)
    units = {u.value: G.group_words("ruleDigitDuration", "d_" + u.value) for u, _ in _durations}
    correct = {1: ["one", "a", "an", "ein", "eine", "eins"], 2: ["two", "zwei"], 3: ["three", "drei"], 4: ["four", "vier"], 5: ["five", "fünf"], 6: ["six", "sechs"], 7: ["seven", "sieben"],
               8: ["eight", "acht"], 9: ["nine", "neun"], 10: ["ten", "zehn"], 11: ["eleven", "elf"], 12: ["twelve", "zwölf"], 13: ["thirteen", "dreizehn"], 14: ["fourteen", "vierzehn"],
               15: ["fifteen", "fünfzehn"], 16: ["sixteen", "sechzehn"], 17: ["seventeen", "siebzehn"], 18: ["eighteen", "achtzehn"], 19: ["nineteen", "neunzehn"], 20: ["twenty", "zwanzig"],
               21: ["twentyone", "einundzwanzig"], 22: ["twentytwo", "zweiundzwanzig"], 23: ["twentythree", "dreiundzwanzig"], 24: ["twentyfour", "vierundzwanzig"],
               25: ["twentyfive", "fünfundzwanzig"], 26: ["twentysix", "sechsundzwanzig"], 27: ["twentyseven", "siebenundzwanzig"], 28: ["twentyeight", "achtundzwanzig"],
               29: ["twentynine", "neunundzwanzig"], 30: ["thirty", "dreißig", "dreissig"], 31: ["thirtyone", "einunddreißig", "einunddreissig"]}
    for u, words in units.items():
        ws = words if tier == "thorough" else samp(rng, words, min(3, len(words)))
        for w in ws:
            if w in ("m", "h"):
                ns = list(range(24, 121, 7))      # N h / N m with N < 24 are clock notations (C06)
            else:
                ns = list(range(0, 121)) if tier == "thorough" else sorted(set([0, 1, 2, 9, 10, 11, 24, 31, 60, 99, 100, 120] + samp(rng, range(121), 6)))
                # amounts of every length: the whole digit run is the amount
                ns = list(ns) + [999, 1000, 1440, 9999, 10000, 10080, 43200, 99999, 525600, 1234567] + [rng.randrange(10 ** k, 10 ** (k + 1)) for k in (3, 4, 5, 6)]
            for n in ns:
                if 1000 <= n <= 2359 and n % 100 < 60 and w in ("night", "nacht"):
                    continue      # '<hhmm> night' is a clock time with a part of day (C06 notation), not an amount of nights
                for form in ("%d %s", "%d%s"):
                    if form == "%d%s" and w in ("m", "h") : continue
                    cases.append((form % (n, w), ts0, {})); exp.append("D:%d:%s" % (n, u)); fam.append("digits")
            for n, nws in correct.items():
                for nw in (nws if tier == "thorough" else [rng.choice(nws)]):
                    if w in ("m", "h"): continue
                    cases.append(("%s %s" % (nw, w), ts0, {})); exp.append("D:%d:%s" % (n, u)); fam.append("number word")
    for t, e in [("half an hour", "D:30:minutes"), ("half a day", "D:12:hours"), ("halbe stunde", "D:30:minutes"), ("1/2 hour", "D:30:minutes"), ("half hour", "D:30:minutes")]:
        cases.append((t, ts0, {})); exp.append(e); fam.append("half")
    # X for N units
    starts = [date(2020, 1, 31), date(2019, 1, 31), date(2020, 2, 29), date(2019, 12, 31), date(2020, 3, 7), date(2020, 11, 30), date(2021, 8, 31), date(2024, 2, 28)]
    for d in starts:
        for n in ([0, 1, 2, 7, 12, 13, 24, 30, 31, 59, 100, 365, 500, 1461, 10000, 10080] if tier == "thorough" else [1, 2, 13, 31, 100, 1461, 10080]):
            if n > 2000 and d != starts[0] and d != starts[3]: continue
            ds = "%02d.%02d.%d" % (d.day, d.month, d.year)
            for uw, f in [("days", lambda x, n: x + timedelta(n)), ("nights", lambda x, n: x + timedelta(n)), ("weeks", lambda x, n: x + timedelta(7 * n)), ("months", add_months)]:
                e = f(d, n)
                cases.append(("%s for %d %s" % (ds, n, uw), ts0, {})); exp.append(I(dT(d), dT(e))); fam.append("date for N " + uw)
            for hh, mm in [(23, 0), (9, 30)]:
                st = datetime(d.year, d.month, d.day, hh, mm)
                for uw, delta in [("hours", timedelta(hours=n)), ("minutes", timedelta(minutes=n))]:
                    if n < 24 and uw in ("hours",) and False: continue
                    e = st + delta
                    cases.append(("%s %02d:%02d for %d %s" % (ds, hh, mm, n, uw), ts0, {})); exp.append(I(T(d.year, d.month, d.day, hh, mm), T(e.year, e.month, e.day, e.hour, e.minute))); fam.append("datetime for N " + uw)
    # N days/nights <date range>: accepted only when the range really is N days long.  "Accepted" = the duration words are
    # consumed into the resolution (its span covers the whole text); the bare range has the same value, so the span decides.
    def range_pred(a, b, n, ok_expected, text):
        def pred(rec):
            if rec.get("err"): return False
            full = I(dT(a), dT(b))
            consumed = rec.get("res") == full and rec.get("ms") == 0 and rec.get("me") == len(text)
            return consumed if ok_expected else not consumed
        return pred
    for a, b in [(date(2020, 11, 15), date(2020, 11, 18)), (date(2020, 11, 15), date(2020, 12, 16)), (date(2020, 2, 27), date(2020, 3, 2)), (date(2019, 12, 30), date(2020, 1, 2)),
                 (date(2020, 1, 31), date(2020, 3, 1)), (date(2019, 11, 15), date(2020, 2, 20))]:
        n = (b - a).days
        for form in ("%d days %s - %s", "%s - %s for %d days", "%s - %s %d nights", "%s - %s für %d tage"):
            A = "%d.%d.%d" % (a.day, a.month, a.year); B = "%d.%d.%d" % (b.day, b.month, b.year)
            for nn in (n, 1 if n != 1 else 2, n % 30 if n % 30 not in (0, n) else n + 1, n + 30):
                txt = form % ((nn, A, B) if form.startswith("%d") else (A, B, nn))
                cases.append((txt, ts0, {})); exp.append(range_pred(a, b, n, nn == n, txt)); fam.append("N days + range" + ("" if nn == n else " (wrong N)"))
    # ranges written with small day numbers and a month name (every number is also a possible hour, day, month ...: many competing
    # match sequences of the same coverage), in the year of their next occurrence
    for (m, mw) in ((12, "Dec"), (11, "Nov"), (12, "Dezember")):
        for d1 in (1, 9, 10, 11):
            for n in (1, 2, 3):
                d2 = d1 + n
                a = date(2018, m, d1); b = date(2018, m, d2)
                nwd = {1: "one", 2: "two", 3: "three"}[n]
                for txt in ("%d days %d-%d %s" % (n, d1, d2, mw), "%s days %d-%d %s" % (nwd, d1, d2, mw), "%d nights %d-%d %s" % (n, d1, d2, mw),
                            "%d-%d %s for %s night%s" % (d1, d2, mw, nwd, "" if n == 1 else "s"), "%d-%d %s %d days" % (d1, d2, mw, n)):
                    if n == 1 and " 1 nights" in " " + txt: continue     # singular night is known finding D13
                    cases.append((txt, ts0, {})); exp.append(I(dT(a), dT(b))); fam.append("N days + small-number range")
    case_stratum(rng, cases, exp, fam, 240 if tier == "thorough" else 60)
    label_stratum(rng, cases, exp, fam, 200 if tier == "thorough" else 50)
    option_stratum(rng, cases, exp, fam, 200 if tier == "thorough" else 60)
    recs = parse_many(cases)
    return finish("C08", cases, exp, recs, "N in 0..120 x unit words of the pattern language (digits, glued and blank separated); correctly spelt number words one..thirtyone / ein..einunddreissig x unit words; "
                  "half forms; '<date[ time]> for N units' from month ends and leap days vs calendar arithmetic; 'N days <range>' with the right N", families=fam)


# ------------------------------------------------------------------ C20
def c20_days(rng, n):
    dows = [w for ws in G.dow_words() for w in ws]
    days = []
    days += G.L("ruleToday") + G.L("ruleTomorrow") + G.L("ruleAfterTomorrow") + G.L("ruleYesterday") + G.L("ruleBeforeYesterday") + G.L("ruleEOM") + G.L("ruleEOY")
    days += samp(rng, dows, 12) + ["this " + w for w in samp(rng, dows, 6)] + ["next " + w for w in samp(rng, dows, 6)] + [w + " next week" for w in samp(rng, dows, 4)] + ["am " + w for w in samp(rng, dows, 4)]
    days += ["12.12.2020", "1.2.2021", "31/12/2019", "5th", "the 5th", "5.", "23.", "5. mai", "may 5th", "5th of may", "12.5.", "31.12.", "3 march 2021", "march 3rd", "dec 24", "29.02.2020"]
    return sorted(set(days))


def c20_clocks(rng):
    clocks = []
    for h in [0, 1, 7, 9, 11, 12, 13, 17, 23]:
        for m in [0, 5, 30, 59]:
            clocks += ["%02d:%02d" % (h, m), "%d:%02d" % (h, m), "%d:%02d uhr" % (h, m), "%dh%02d" % (h, m)]
            h12 = h % 12 or 12; ap = "am" if h < 12 else "pm"
            clocks += ["%d:%02d %s" % (h12, m, ap), "%d:%02d%s" % (h12, m, ap), "%d.%02d %s" % (h12, m, ap)]
            if m % 5 == 0: clocks += ["%02d%02d" % (h, m), "%02d%02d uhr" % (h, m)]
        clocks += ["%d uhr" % h, "%dh" % h, "%d o'clock" % h, "%d %s" % (h % 12 or 12, "am" if h < 12 else "pm"), "%d%s" % (h % 12 or 12, "am" if h < 12 else "pm")]
    clocks += samp(rng, G.L("ruleNamedHour"), 15) + ["half past 8", "quarter to nine", "viertel vor 9", "halb 9", "quarter past 3", "midnight", "mitternacht"]
    return sorted(set(clocks))


def c20_families(rng, ts):
    """day families and clock families (each a list of surface forms), incl. the boundary 'weekday named = weekday of the reference day'"""
    d = date(ts[0], ts[1], ts[2])
    dws = G.dow_words()
    own = dws[d.weekday()]
    other = [w for k, ws in enumerate(dws) if k != d.weekday() for w in ws]
    at = G.L("ruleAtDOW")
    dayf = {
        "today": G.L("ruleToday"), "tomorrow": G.L("ruleTomorrow"), "aftertomorrow": G.L("ruleAfterTomorrow"), "yesterday": G.L("ruleYesterday") + G.L("ruleBeforeYesterday"),
        "eom/eoy": G.L("ruleEOM") + G.L("ruleEOY"),
        "weekday": samp(rng, other, 6), "weekday = today's": samp(rng, own, min(3, len(own))),
        "at weekday": [a + " " + w for a in at for w in samp(rng, other, 2)], "at weekday = today's": [a + " " + w for a in at for w in samp(rng, own, 2)],
        "next weekday": ["next " + w for w in samp(rng, other + own, 4)] + [w + " next week" for w in samp(rng, other + own, 3)] + ["nächsten " + w for w in samp(rng, other, 2)],
        "numeric date": ["12.12.2020", "1.2.2021", "31/12/2019", "29.02.2020", "3-3-2021"], "day of month": ["5th", "the 5th", "5.", "23.", "am 5."],
        "day + month": ["5. mai", "may 5th", "5th of may", "12.5.", "31.12.", "dec 24", "3 march 2021", "march 3rd"],
    }
    clockf = collections.defaultdict(list)
    for h in [0, 1, 7, 9, 11, 12, 13, 17, 23]:
        for m in [0, 5, 30, 59]:
            clockf["hh:mm"].append("%02d:%02d" % (h, m)); clockf["h:mm"].append("%d:%02d" % (h, m)); clockf["h:mm uhr"].append("%d:%02d uhr" % (h, m)); clockf["hhmm h"].append("%dh%02d" % (h, m))
            h12 = h % 12 or 12; ap = "am" if h < 12 else "pm"
            clockf["h:mm ap"].append("%d:%02d %s" % (h12, m, ap)); clockf["h:mmap"].append("%d:%02d%s" % (h12, m, ap)); clockf["h.mm ap"].append("%d.%02d %s" % (h12, m, ap))
            if m % 5 == 0:
                clockf["hhmm"].append("%02d%02d" % (h, m)); clockf["hhmm uhr"].append("%02d%02d uhr" % (h, m))
        clockf["h uhr"].append("%d uhr" % h); clockf["hh"].append("%dh" % h); clockf["h oclock"].append("%d o'clock" % h)
        clockf["h ap"].append("%d %s" % (h % 12 or 12, "am" if h < 12 else "pm")); clockf["hap"].append("%d%s" % (h % 12 or 12, "am" if h < 12 else "pm"))
    # a bare number after a day ('monday 8') is deliberately not a clock family: it is as much a day of the month as an hour, and
    # the unchanged library itself reads 'at friday 7' as Friday the 7th (round 8, C20-m11)
    clockf["named hour"] = samp(rng, G.L("ruleNamedHour"), 12)
    clockf["spoken"] = ["half past 8", "quarter to nine", "viertel vor 9", "halb 9", "quarter past 3", "midnight", "mitternacht"]
    return dayf, dict(clockf)


def sweep_c20(rng, tier):
    tss = [(2018, 3, 7, 12, 43, 0), (2020, 2, 28, 23, 59, 30), (2019, 12, 31, 0, 0, 0), (2021, 3, 5, 18, 0, 0), (2021, 3, 3, 18, 0, 0)]
    reps = 3 if tier == "thorough" else 1
    combos = []
    for ts in (tss if tier == "thorough" else samp(rng, tss, 3)):
        dayf, clockf = c20_families(rng, ts)
        for dn, ds in dayf.items():
            for cn, cs in clockf.items():
                for form in ["%s %s", "%s at %s", "%s um %s", "rev"]:
                    for _ in range(reps):
                        combos.append((rng.choice(ds), rng.choice(cs), ts, form, dn + " x " + cn))
    # separator stratum (C11 at the junction): the blank between the two parts written as any separator the normalisation
    # knows - incl. invisible format characters - must not keep the parts from being glued
    junctions = [",", ";", "\t", "\u00a0", "\u200b", "\ufeff", "\u2060", "\u200e", "\u00ad", " (", ") ", "  ", "\u2028", "\u180e", "\x00"]
    ts_j = (2021, 3, 5, 18, 0, 0)
    dayf_j, clockf_j = c20_families(rng, ts_j)
    for dn, ds in dayf_j.items():
        for cn, cs in clockf_j.items():
            j = rng.choice(junctions)
            combos.append((rng.choice(ds), rng.choice(cs), ts_j, rng.choice(["%s" + j + "%s", "rev" + j]), "junction U+%04X " % ord(j.strip() or j[0]) + dn + " x " + cn))
    # lexical adjacency stratum: every word of the small day families next to a form of every clock family, both orders, at a
    # reference time late in the day (so that a clock that lost its day cannot land on the right day by coincidence)
    late = (2020, 2, 28, 23, 59, 30)
    dayf, clockf = c20_families(rng, late)
    for dn in ("today", "tomorrow", "aftertomorrow", "yesterday", "eom/eoy"):
        for dw in dayf[dn]:
            for cn, cs in clockf.items():
                for form in ("%s %s", "rev"):
                    combos.append((dw, rng.choice(cs), late, form, "adjacency " + dn + " x " + cn))
    solo_cases = {}
    for d, c, ts, form, famname in combos:
        solo_cases[(d, ts, True)] = (d, ts, {})
        solo_cases[(c, ts, False)] = (c, ts, {"latent_time": False})
    keys = list(solo_cases)
    solo = dict(zip(keys, parse_many([solo_cases[k] for k in keys])))
    cases, exp, fam = [], [], []
    skipped = collections.Counter()
    for d, c, ts, form, famname in combos:
        rd, rc = solo[(d, ts, True)], solo[(c, ts, False)]
        td = dec_time(rd["res"][2:]) if rd.get("res", "") and rd["res"].startswith("T:") else None
        tc = dec_time(rc["res"][2:]) if rc.get("res", "") and rc["res"].startswith("T:") else None
        if not (td and tc and td["y"] is not None and td["h"] is None and td["pod"] is None and tc["h"] is not None and tc["y"] is None):
            skipped["solo-not-applicable"] += 1
            continue
        if form.startswith("rev") and len(form) > 3:
            txt = c + form[3:] + d
        else:
            txt = ("%s %s" % (c, d)) if form == "rev" else form % (d, c)
        # the property's own exclusion: 12:xx directly followed by German "am <day>"
        if form.startswith("rev") and c.startswith("12") and d.startswith("am "):
            skipped["excluded-by-property"] += 1
            continue
        # a clock ending in a number directly followed by a day form starting with a month name or a number is itself a date
        # notation ('9 dec 24' = 9 December '24, '8 5.' ...): genuinely ambiguous juxtaposition, not asked
        months_flat = {w for ws in G.month_words() for w in ws}
        if form.startswith("rev") and c[-1].isdigit() and (d[0].isdigit() or d.split(" ")[0].lower() in months_flat):
            skipped["ambiguous-number+date-juxtaposition"] += 1
            continue
        cases.append((txt, ts, {})); exp.append(T(td["y"], td["m"], td["d"], tc["h"], tc["mi"])); fam.append(("clock first: " if form.startswith("rev") else form + ": ") + famname)
    case_stratum(rng, cases, exp, fam, 240 if tier == "thorough" else 60)
    label_stratum(rng, cases, exp, fam, 200 if tier == "thorough" else 50)
    option_stratum(rng, cases, exp, fam, 200 if tier == "thorough" else 60)
    recs = parse_many(cases)
    r = finish("C20", cases, exp, recs, "every (day family x clock family x order/connector) at several reference times incl. the boundary 'named weekday = weekday of the reference day'; expected = date the day part alone "
               "resolves to at hour:minute the clock part alone denotes (latent off); combinations whose parts alone are not a pure date / pure clock are skipped (counted)", families=fam)
    r["distribution"] = {"families": len(set(fam)), "cases": len(cases)}
    r["distribution"].update({"skipped:" + k: v for k, v in skipped.items()})
    return r
