"""Unit correspondence of the productions: every registered rule wrapper and the latent post-processing
vs the Lean model (`applyRule`, `applyLatent`), on argument tuples from boundary pools that satisfy the
rule's own predicates; compares result value / None / exception kind, result span, and that the
arguments are unchanged after the call (value and span)."""
import copy, itertools, random, sys
from datetime import datetime, timedelta, timezone
from qa import Driver, enc, REPO
from codec import enc_art, enc_ts

sys.path.insert(0, __file__.rsplit("/", 2)[0] + "/translator")


def ts_pool():
    return [datetime(2018, 3, 7, 12, 43), datetime(2020, 2, 29, 23, 59, 59, 999999), datetime(2019, 12, 31, 0, 0),
            datetime(2021, 1, 31, 9, 0, 1), datetime(2019, 2, 28, 12, 0), datetime(2024, 2, 28, 23, 59, 30), datetime(2020, 12, 31, 23, 59),
            datetime(2023, 4, 30, 8, 15), datetime(1970, 1, 1, 0, 0), datetime(2100, 12, 31, 23, 59, 59), datetime(2000, 2, 29, 6, 30),
            datetime(2019, 1, 30, 10, 10), datetime(2022, 10, 31, 17, 0), datetime(2018, 3, 11, 15, 15, 15), datetime(2020, 3, 7, 0, 0, 1),
            datetime(1996, 2, 29, 12, 0), datetime(2104, 2, 29, 8, 30, 30),
            # reference years below 100 (two-digit year arithmetic reaches year 0)
            datetime(50, 6, 15, 12, 0), datetime(99, 12, 31, 23, 59),
            # days around daylight-saving switches of the process zone (checks run under TZ=Europe/Berlin): results must not
            # depend on the local zone of the process
            datetime(2020, 3, 28, 10, 30), datetime(2020, 10, 24, 10, 30), datetime(2020, 3, 29, 1, 30), datetime(2020, 10, 25, 2, 30)] + aware_pool()


def aware_pool():
    """timezone-aware reference times: the model sees their wall-clock fields.  Consecutive entries denote the SAME instant in
    different zones with different local dates (a cache keyed by the reference time conflates them)"""
    tz = lambda h: timezone(timedelta(hours=h))
    out = []
    for base, offs in [(datetime(2020, 10, 5, 23, 30, tzinfo=timezone.utc), (0, 2, -11)), (datetime(2024, 2, 28, 22, 30, tzinfo=timezone.utc), (0, 2, 14)),
                       (datetime(2023, 10, 30, 10, 45, tzinfo=timezone.utc), (-11, 14, 0)), (datetime(2019, 12, 31, 23, 59, 59, tzinfo=timezone.utc), (0, 1, -8)),
                       (datetime(2024, 3, 15, 10, 30, tzinfo=timezone.utc), (0, 14, -11))]:
        for h in offs:
            out.append(base.astimezone(tz(h)))
    return out


def grid_ts():
    import calendar as _c
    out = []
    for y in range(2017, 2033):
        for m in range(1, 13):
            out.append(datetime(y, m, 1, 0, 0))
            out.append(datetime(y, m, _c.monthrange(y, m)[1], 23, 59, 59, 999999))
    return out


def pools():
    from ctparse.types import Time, Interval, Duration, DurationUnit, pod_hours
    P = {}
    days = [1, 9, 15, 28, 29, 30, 31]
    P["isDOM"] = [Time(day=d) for d in days]
    P["isMonth"] = [Time(month=m) for m in range(1, 13)]
    P["isDOW"] = [Time(DOW=w) for w in range(7)]
    podkeys = list(pod_hours)
    base = [k for k in podkeys if not any(k.startswith(p) and k != p for p in ("early", "late", "very"))]
    P["isPOD"] = [Time(POD=k) for k in ["morning", "afternoon", "evening", "night", "noon", "forenoon", "first", "last", "earlymorning",
                                        "lateevening", "earlyevening", "latemorning", "veryearlymorning", "verylatenight", "earlyearlymorning",
                                        "latelatenight", "veryearlyfirst"] if k in pod_hours]
    hours = [0, 1, 5, 9, 11, 12, 13, 17, 23]
    P["isTOD"] = [Time(hour=h, minute=m) for h in hours for m in (None, 0, 15, 30, 59)]
    dates = [(2020, 2, 28), (2020, 2, 29), (2020, 3, 1), (2019, 12, 31), (2020, 1, 1), (2020, 3, 28), (2020, 10, 25), (2021, 6, 15), (2019, 2, 28), (2018, 3, 7),
             (2020, 1, 31), (2020, 4, 30), (2020, 12, 31), (1999, 12, 31), (2000, 1, 1)]
    P["isDate"] = [Time(year=y, month=m, day=d) for y, m, d in dates]
    P["isDateTime"] = [Time(year=y, month=m, day=d, hour=h, minute=mi) for (y, m, d) in dates[:7] for h in (0, 2, 8, 12, 22, 23) for mi in (None, 0, 30)]
    P["isDOY"] = [Time(month=m, day=d) for m, d in [(2, 28), (2, 29), (3, 1), (12, 31), (1, 1), (4, 30), (1, 31), (6, 15), (3, 7)]]
    P["isYear"] = [Time(year=y) for y in (1990, 1999, 2000, 2019, 2020, 2024, 2029, 2100, 0, 1, 99, 9999)]
    P["hasDate"] = P["isDate"][:8] + P["isDateTime"][:10] + [Time(year=2020, month=2, day=28, POD="evening"), Time(year=2020, month=12, day=31, hour=23, minute=30),
                                                             Time(year=2020, month=1, day=31, POD="morning"), Time(year=2020, month=1, day=31, hour=10)]
    P["hasDOW"] = P["isDOW"] + [Time(DOW=0, POD="morning"), Time(DOW=4, POD="evening"), Time(DOW=6, POD="lateevening")]
    P["Time"] = (P["isDOM"][:3] + P["isMonth"][:2] + P["isDOW"][:2] + P["isPOD"][:3] + P["isTOD"][:6] + P["isDate"][:4] + P["isDateTime"][:4]
                 + P["isDOY"][:3] + P["isYear"][:2] + P["hasDate"][-4:] + P["hasDOW"][-2:] + [Time(day=5, POD="morning"), Time(year=2020, month=5)])
    tod = P["isTOD"]
    ivs = []
    for a in tod[::3]:
        for b in tod[1::4]:
            ivs.append(Interval(t_from=a, t_to=b))
    ivs += [Interval(t_from=a, t_to=None) for a in tod[:4]] + [Interval(t_from=None, t_to=a) for a in tod[:4]]
    ivs += [Interval(t_from=a, t_to=b) for a in P["isPOD"][:4] for b in P["isPOD"][1:4]]
    ivs += [Interval(t_from=a, t_to=b) for a in P["isDate"][:6] for b in P["isDate"][:6]]
    ivs += [Interval(t_from=a, t_to=b) for a in P["isDateTime"][:6:2] for b in P["isDateTime"][1:12:3]]
    ivs += [Interval(t_from=P["isTOD"][3], t_to=P["isPOD"][0]), Interval(t_from=P["isDate"][0], t_to=P["isTOD"][2]), Interval()]
    P["Interval"] = ivs
    P["isDateInterval"] = [Interval(t_from=a, t_to=b) for a in P["isDate"] for b in P["isDate"]]
    P["Duration"] = [Duration(n, u) for u in DurationUnit for n in (0, 1, 2, 3, 7, 24, 30, 31, 59, 60, 61, 100, 365, 1440, 10 ** 6, 10 ** 9, 10 ** 20)]
    return P


def tokens_for(rid, rng, cap=60):
    """real RegexMatch objects for pattern rid: matches of the pattern on words of its own finite language"""
    from ctparse.rule import _regex, _regex_str, _defines
    from ctparse.types import RegexMatch
    from rxparse import P as RP, lang
    full = r"{defines}(?i)(?P<R{k}>{re})".format(defines=_defines, re=_regex_str[rid], k=rid)
    p = RP(full); a = p.parse()
    try:
        words = sorted(lang(a, 4000))
    except OverflowError:
        words = []
    if len(words) > cap:
        words = rng.sample(words, cap)
    extra = {108: ["1.", "31", "09", "29."], 109: ["1", "12.", "09"], 110: ["1st", "22nd", "31 th", "3ten"], 111: ["2019", "99", "05", "1950", "2029", "1999", "18", "28", "29"],
             126: ["5.5.2020", "31/12/19", "29.02.2020", "1-jan-2020", "12.12.99", "1.1.00"], 124: ["5.5.", "31.12", "24/dec", "1.jan."], 125: ["12/24", "dec-24", "2-29"],
             127: ["1230", "0000", "2359", "1200 uhr", "1230pm", "0930 a.m.", "2015", "2019", "1205h", "1200 am"],
             128: ["5", "12am", "12 pm", "5pm", "17:30", "5:30 pm", "0:00", "12:15am", "23h59", "8 uhr", "8uhr30", "7.30 a.m.", "12 a.m.", "5 uhr pm", "00", "12", "13am"],
             129: ["5 uhr", "17h", "3 o'clock", "12 oclock", "0h"], 137: ["3 days", "1night", "120 m", "2 h", "10 wochen", "٣ tage", "0 days", "99999999 days", "6 months", "1 monat"],
             138: ["one day", "zwei nächte", "thirtyone days", "einunddreißig tage", "sechzehn tage", "a week", "an hour", "siebenundzwanzig minuten", "eine übernachtung"],
             139: ["half an hour", "half a day", "halbe stunde", "1/2 day", "halber tag", "half week"],
             104: ["one", "zwölf uhr", "eins", "twelve o'clock", "elf h"], 106: ["very early", "sehr spät", "late", "früher"], 107: ["morning", "abends", "very late", "so früh wie möglich", "first", "tonight"]}
    words = list(words) + extra.get(rid, [])
    # four-digit clock notation interacts with the reference year (military-time heuristic): forms derived from the pool years
    if rid in (127, 128, 111):
        for y in sorted({t.year + d for t in ts_pool() for d in (-1, 0, 1)}):
            hh, mm = y // 100, y % 100
            if rid == 111:
                words.append(str(y)); continue
            if mm > 59 or hh > 23:
                continue
            forms = ["%02d%02d" % (hh, mm), "%02d%02d uhr" % (hh, mm)]
            if hh >= 12:
                forms += ["%02d%02d pm" % (hh - 12, mm), "%02d%02dpm" % (hh - 12, mm), "%02d%02d p.m." % (hh - 12, mm), "%02d%02d am" % (hh - 12, mm), "%02d%02d pm" % (hh, mm)]
            else:
                forms += ["%02d%02d am" % (hh, mm), "%02d%02d pm" % (hh, mm)]
            if rid == 128:
                forms = [f[:2] + ":" + f[2:] for f in forms]
            words += forms
    out = []
    seen = set()
    for w in words:
        for t in (w, "x " + w + " y"):
            for m in _regex[rid].finditer(t, overlapped=True):
                k = (t, m.span())
                if k in seen:
                    continue
                seen.add(k)
                out.append(RegexMatch(rid, m))
    return out


def arg_pool(pred, P, rng, tokcache):
    n = getattr(pred, "__name__", "")
    cell = pred.__closure__[0].cell_contents
    if n == "_regex_match":
        if cell not in tokcache:
            tokcache[cell] = tokens_for(cell, rng)
        return tokcache[cell]
    if n == "_dimension":
        return P[cell.__name__]
    return P[cell]


_DOW = ["monday", "tuesday", "wednesday", "thursday", "friday", "saturday", "sunday"]
_MON = ["january", "february", "march", "april", "may", "june", "july", "august", "september", "october", "november", "december"]
_POD = {"morning": "morning", "afternoon": "afternoon", "evening": "evening", "night": "night", "noon": "noon", "forenoon": "vormittag", "first": "first", "last": "last",
        "earlymorning": "early morning", "lateevening": "late evening", "earlyevening": "early evening", "latemorning": "late morning",
        "veryearlymorning": "very early morning", "verylatenight": "very late night"}


def render(a):
    """a plausible surface form of an argument value (for the directed failing-input search; best effort, may return None)"""
    from ctparse.types import Time, Interval, Duration
    if hasattr(a, "match"):
        return a.match.group(0)
    if isinstance(a, Time):
        parts = []
        if a.DOW is not None: parts.append(_DOW[a.DOW % 7])
        if a.year is not None and a.month is not None and a.day is not None: parts.append("%d.%d.%d" % (a.day, a.month, a.year))
        elif a.month is not None and a.day is not None: parts.append("%d.%d." % (a.day, a.month))
        elif a.day is not None: parts.append("%d%s" % (a.day, {1: "st", 2: "nd", 3: "rd"}.get(a.day % 10 if a.day not in (11, 12, 13) else 0, "th")))
        elif a.month is not None: parts.append(_MON[(a.month - 1) % 12] + ("" if a.year is None else " %d" % a.year))
        elif a.year is not None: parts.append(str(a.year) if a.year >= 100 else "%02d" % a.year)
        if a.hour is not None: parts.append("%d:%02d" % (a.hour, a.minute) if a.minute is not None else "%d o'clock" % a.hour)
        if a.POD is not None:
            if a.POD not in _POD: return None
            parts.append(_POD[a.POD])
        return " ".join(parts) or None
    if isinstance(a, Interval):
        f, t = (render(a.t_from) if a.t_from is not None else None), (render(a.t_to) if a.t_to is not None else None)
        if f and t: return "%s - %s" % (f, t)
        if f: return "from %s" % f
        if t: return "until %s" % t
        return None
    if isinstance(a, Duration):
        return "%d %s" % (a.value, a.unit.value)
    return None


def hint_for(ts, args):
    rs = [render(a) for a in args]
    if any(r is None for r in rs):
        return None
    h = {"texts": [" ".join(rs), "x " + " ".join(rs) + " y"], "ts": [ts.year, ts.month, ts.day, ts.hour, ts.minute, ts.second]}
    if ts.tzinfo is not None:
        h["utcoffset_min"] = int(ts.utcoffset().total_seconds() // 60)
    return h


def snapshot(a):
    return enc_art(a)


def run(rng, per_rule=1200):
    from ctparse.rule import rules
    from ctparse.time.postprocess_latent import apply_postprocessing_rules
    P = pools()
    tss = ts_pool()
    tokcache = {}
    grid_phase = rng.randrange(3)
    ops, meta, hints = [], [], []
    dist = {}
    for name, (fn, pats) in rules.items():
        poolz = [arg_pool(p, P, rng, tokcache) for p in pats]
        total = 1
        for pl in poolz:
            total *= max(1, len(pl))
        uses_ts = True
        tuples = []
        if total * len(tss) <= 10 * per_rule:
            for combo in itertools.product(*poolz):
                for ts in tss:
                    tuples.append((ts, combo))
        elif total * 3 <= per_rule:
            for combo in itertools.product(*poolz):
                for ts in rng.sample(tss, 3):
                    tuples.append((ts, combo))
        else:
            for _ in range(per_rule):
                tuples.append((rng.choice(tss), tuple(rng.choice(pl) for pl in poolz)))
        # boundary: the argument names the reference day itself (same day+month / day of month / weekday), at every pool time
        from ctparse.types import Time as _T
        if len(pats) == 1 and getattr(pats[0], "__name__", "") == "_predicate":
            pn = pats[0].__closure__[0].cell_contents
            for ts in tss:
                own = {"isDOY": _T(month=ts.month, day=ts.day), "isDOM": _T(day=ts.day), "isDOW": _T(DOW=ts.weekday())}.get(pn)
                if own is not None:
                    tuples.append((ts, (own,)))
        # calendar grid: rules whose whole argument pool is small are run at the first and last day of every month of 16 years
        # (reference-date dependent arithmetic has rare windows: leap years, 31sts, weekday/day-of-month coincidences)
        if total <= 64:
            step = 1 if per_rule >= 2000 else 3
            combos = list(itertools.product(*poolz))
            for gi, ts in enumerate(grid_ts()):
                for ci, combo in enumerate(combos):
                    if (gi + ci + grid_phase) % step == 0:
                        tuples.append((ts, combo))
        for ts, combo in tuples:
            args = [copy.copy(a) if not hasattr(a, "match") else a for a in combo]
            # give arguments distinct, contiguous spans
            pos = 0
            for a in args:
                if not hasattr(a, "match"):
                    a.mstart, a.mend = pos, pos + 3
                pos = a.mend + 1
            before = [snapshot(a) for a in args]
            try:
                r = fn(ts, *args)
                res = "ok N" if r is None else "ok " + enc_art(r)
            except Exception as e:
                res = "err " + type(e).__name__
            after = [snapshot(a) for a in args]
            ops.append("rule %s %s %s" % (name, enc_ts(ts), " ".join(before)))
            meta.append((name, ts, before, res, after))
            hints.append((ts, args))
            k = res.split(" ")[0] + ("" if res != "ok N" else "-none")
            dist.setdefault(name, {}).setdefault(k, 0)
            dist[name][k] += 1
    # latent post-processing
    lat_pool = P["isTOD"] + P["Interval"] + P["isDate"][:3] + P["Duration"][:3]
    for a0 in lat_pool:
        for ts in tss:
            a = copy.copy(a0); a.mstart, a.mend = 2, 9
            before = snapshot(a)
            try:
                r = apply_postprocessing_rules(ts, a)
                res = "ok " + enc_art(r)
            except Exception as e:
                res = "err " + type(e).__name__
            ops.append("latent %s %s" % (enc_ts(ts), before))
            meta.append(("latent", ts, [before], res, [snapshot(a)]))
            hints.append((ts, [a0]))
    got = Driver().run(ops)
    bad = []
    nontrivial = 0
    for (name, ts, before, res, after), g, op, (hts, hargs) in zip(meta, got, ops, hints):
        if res != "ok N":
            nontrivial += 1
        if g != res:
            bad.append({"op": op, "rule": name, "ts": str(ts), "model": g, "impl": res, "hint": hint_for(hts, hargs) if len(bad) < 200 else None})
        elif before != after:
            bad.append({"op": op, "rule": name, "ts": str(ts), "impl": "arguments changed by the call: %s -> %s" % (before, after), "model": "arguments unchanged",
                        "hint": hint_for(hts, hargs) if len(bad) < 200 else None})
    return {"name": "rules", "cases": len(ops), "nontrivial": nontrivial, "disagreements": bad, "distribution": dist}


if __name__ == "__main__":
    r = run(random.Random(int(sys.argv[1]) if len(sys.argv) > 1 else 0))
    print(r["cases"], r["nontrivial"], len(r["disagreements"]))
    import collections
    c = collections.Counter(b["rule"] for b in r["disagreements"])
    print(c)
    shown = collections.Counter()
    for b in r["disagreements"]:
        if shown[b["rule"]] < 3:
            shown[b["rule"]] += 1
            print(b)
