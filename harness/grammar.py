"""Specification grammar: surface forms derived from the shipped patterns (finite language of the
generated AST), never typed in by hand, so that the grammar follows the source."""
import sys, os
sys.path.insert(0, os.path.join(os.path.dirname(os.path.abspath(__file__)), "..", "translator"))
from rxparse import P, lang, find_group

_cache = {}


def regex_id_of(rule_name, k=0):
    """id of the k-th regex predicate in the registered pattern of rule_name (looked up by content)"""
    from ctparse.rule import rules
    ids = [p.__closure__[0].cell_contents for p in rules[rule_name][1] if getattr(p, "__name__", "") == "_regex_match"]
    return ids[k]


def ast_of(rid):
    from ctparse.rule import _regex_str, _defines
    if rid not in _cache:
        p = P(r"{defines}(?i)(?P<R{k}>{re})".format(defines=_defines, re=_regex_str[rid], k=rid))
        _cache[rid] = (p, p.parse())
    return _cache[rid]


def L(rule_name, k=0, limit=20000):
    rid = regex_id_of(rule_name, k)
    p, a = ast_of(rid)
    return sorted({w.strip() for w in lang(a, limit) if w.strip()})


def group_words(rule_name, group, k=0):
    rid = regex_id_of(rule_name, k)
    p, a = ast_of(rid)
    g = find_group(a, p.names[group])
    return sorted({w.strip() for w in lang(g) if w.strip()})


def dow_words():
    from ctparse.time.rules import _dows
    return [group_words("ruleNamedDOW", n) for n, _ in _dows]


def month_words():
    from ctparse.time.rules import _months
    return [group_words("ruleNamedMonth", n) for n, _ in _months]
