"""Specification grammar: surface forms derived from the shipped patterns (finite language of the
generated AST), never typed in by hand, so that the grammar follows the source."""
import sys, os
sys.path.insert(0, os.path.join(os.path.dirname(os.path.abspath(__file__)), "..", "translator"))
from rxparse import P, lang, find_group

_cache = {}


def regex_id_of(rule_name, k=0):
    """id of the k-th regex predicate in the registered pattern of rule_name (looked up by content)"""
    from ctparse.rule import rules
    ids = [p.__closure__[0].cell_contents for p in rules[rule_name][1] if getattr(p, "__name__", "") == "_regex_match"]
    return ids[k]


def ast_of(rid):
    from ctparse.rule import _regex_str, _defines
    if rid not in _cache:
        p = P(r"{defines}(?i)(?P<R{k}>{re})".format(defines=_defines, re=_regex_str[rid], k=rid))
        _cache[rid] = (p, p.parse())
    return _cache[rid]


def L(rule_name, k=0, limit=20000):
    rid = regex_id_of(rule_name, k)
    p, a = ast_of(rid)
    return sorted({w.strip() for w in lang(a, limit) if w.strip()})


def group_words(rule_name, group, k=0):
    rid = regex_id_of(rule_name, k)
    p, a = ast_of(rid)
    g = find_group(a, p.names[group])
    return sorted({w.strip() for w in lang(g) if w.strip()})


# ---- what a written weekday / month *means* is not taken from the code's table: the surface forms come from the shipped
# patterns (so every accepted spelling is exercised), their meaning from this lexicon of English/German stems.  A spelling
# filed under the wrong table entry in the source (e.g. "Sonnabend" under Sunday) is then a wrong answer, not a new truth.
_DOW_STEMS = [("sonnabend", 5), ("mo", 0), ("di", 1), ("tu", 1), ("mi", 2), ("we", 2), ("do", 3), ("th", 3), ("fr", 4), ("sa", 5), ("so", 6), ("su", 6)]
_MONTH_STEMS = [("jan", 1), ("feb", 2), ("mar", 3), ("mrz", 3), ("mär", 3), ("apr", 4), ("mai", 5), ("may", 5), ("jun", 6), ("jul", 7), ("aug", 8),
                ("sep", 9), ("oct", 10), ("okt", 10), ("nov", 11), ("dec", 12), ("dez", 12)]
UNCLASSIFIED = []       # accepted spellings the lexicon cannot place (reported in the evidence; empty on the shipped tree)


def _classify(word, stems):
    w = word.lower()
    for stem, k in stems:
        if w.startswith(stem):
            return k
    return None


def _bucket(words, stems, n, base):
    out = [[] for _ in range(n)]
    for w in sorted(set(words)):
        k = _classify(w, stems)
        if k is None:
            if w not in UNCLASSIFIED:
                UNCLASSIFIED.append(w)
        else:
            out[k - base].append(w)
    return out


def dow_words():
    """spellings of the weekday pattern, grouped by the weekday they *mean* (Monday = 0)"""
    from ctparse.time.rules import _dows
    return _bucket([w for n, _ in _dows for w in group_words("ruleNamedDOW", n)], _DOW_STEMS, 7, 0)


def month_words():
    """spellings of the month pattern, grouped by the month they *mean* (index 0 = January)"""
    from ctparse.time.rules import _months
    return _bucket([w for n, _ in _months for w in group_words("ruleNamedMonth", n)], _MONTH_STEMS, 12, 1)
