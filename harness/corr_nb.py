"""Naive-Bayes correspondence: vocabulary with indices, smoothed counts, priors, joint log-likelihoods,
score and final score of the real pipeline vs the Lean model's exact counts / log forms (the harness
evaluates the log forms with math.log and requires agreement within 1e-9); error branches by kind."""
import math, random, sys
from qa import Driver


def eval_form(s):
    tot = 0.0
    if not s:
        return 0.0
    for term in s.split(","):
        c, frac = term.split(":")
        a, b = frac.split("/")
        tot += int(c) * math.log(int(a) / int(b))
    return tot


def enc_docs(docs):
    return ";".join((",".join(d) if d else "_") for d in docs) if docs else "-"


def gen_case(rng):
    k = rng.choice([1, 2, 3, 5, 8])
    alpha = ["t%d" % i for i in range(k)] + rng.sample(["ruleX", "100", "101", "ruleDateTOD", "z", "A", "a b".replace(" ", "_")], rng.randint(0, 3))
    n = rng.choice([0, 1, 2, 3, 5, 9, 20])
    docs = [[rng.choice(alpha) for _ in range(rng.choice([0, 1, 1, 2, 3, 4, 7]))] for _ in range(n)]
    mode = rng.random()
    if mode < 0.1:
        labels = [True] * n
    elif mode < 0.2:
        labels = [False] * n
    else:
        labels = [rng.random() < rng.choice([0.2, 0.5, 0.8]) for _ in range(n)]
    q = [rng.choice(alpha + ["unseen", "u2"]) for _ in range(rng.choice([0, 1, 2, 3, 5, 9]))]
    return docs, labels, q


def run(rng, n_cases=300):
    from ctparse.nb_scorer import train_naive_bayes, NaiveBayesScorer
    from ctparse.partial_parse import PartialParse
    from ctparse.types import Time
    ops, meta = [], []
    for _ in range(n_cases):
        docs, labels, q = gen_case(rng)
        cov, tl, pl = rng.randint(1, 9), rng.randint(9, 30), rng.randint(1, 9)
        ops.append("nbfit %s %s" % (enc_docs(docs), ",".join("1" if l else "0" for l in labels) or "-"))
        meta.append(("fit", docs, labels, q, cov, tl, pl))
        ops.append("nbscore %s %s %s %d %d %d" % (enc_docs(docs), ",".join("1" if l else "0" for l in labels) or "-", enc_docs([q]), cov, tl, pl))
        meta.append(("score", docs, labels, q, cov, tl, pl))
    got = Driver().run(ops)
    bad = []
    nontrivial = 0
    errs = {}
    for op, m, g in zip(ops, meta, got):
        kind, docs, labels, q, cov, tl, pl = m
        try:
            mdl = train_naive_bayes(docs, labels)
            real_err = None
        except Exception as e:
            mdl = None
            real_err = type(e).__name__
        if kind == "fit":
            if real_err:
                errs[real_err] = errs.get(real_err, 0) + 1
                ok = g == "err " + real_err
                impl = "err " + real_err
            else:
                nontrivial += 1
                vocab = [w for w, i in sorted(mdl.transformer.vocabulary.items(), key=lambda x: x[1])]
                impl = "vocab=%r" % vocab
                parts = g.split(" ")
                ok = parts[0] == "ok" and len(parts) == 6
                if ok:
                    gv = [x.replace("+", " ") for x in parts[1].split("|")] if parts[1] else []
                    neg = [int(x) for x in parts[2].split(",")] if parts[2] else []
                    pos = [int(x) for x in parts[3].split(",")] if parts[3] else []
                    nn, npos = int(parts[4]), int(parts[5])
                    ok = gv == vocab and len(neg) == len(mdl.estimator.log_likelihood["negative_class"])
                    if ok:
                        sn, sp = sum(neg), sum(pos)
                        for i in range(len(neg)):
                            ok = ok and abs(math.log(neg[i]) - math.log(sn) - mdl.estimator.log_likelihood["negative_class"][i]) < 1e-9
                            ok = ok and abs(math.log(pos[i]) - math.log(sp) - mdl.estimator.log_likelihood["positive_class"][i]) < 1e-9
                        ok = ok and abs(math.log(nn / (nn + npos)) - mdl.estimator.class_prior[0]) < 1e-9
                        ok = ok and abs(math.log(npos / (nn + npos)) - mdl.estimator.class_prior[1]) < 1e-9
        else:
            if real_err:
                ok = g == "err " + real_err
                impl = "err " + real_err
            else:
                try:
                    pred = mdl.predict_log_proba([q])[0]
                    pp = PartialParse((Time(),), tuple(q)) if q else None
                    perr = None
                except Exception as e:
                    perr = type(e).__name__
                if perr:
                    ok = g == "err " + perr
                    impl = "err " + perr
                else:
                    nontrivial += 1
                    parts = g.split(" ")
                    impl = "pred=%r" % (pred,)
                    ok = parts[0] == "ok" and len(parts) == 5
                    if ok:
                        n, p = eval_form(parts[1]), eval_form(parts[2])
                        lse = max(n, p) + math.log(math.exp(n - max(n, p)) + math.exp(p - max(n, p)))
                        ok = abs((n - lse) - pred[0]) < 1e-9 and abs((p - lse) - pred[1]) < 1e-9
                        ok = ok and abs(math.exp(pred[0]) + math.exp(pred[1]) - 1) < 1e-9 and math.isfinite(pred[0]) and math.isfinite(pred[1])
                        # scorer: build a fake partial parse with the wanted coverage
                        sc = NaiveBayesScorer(mdl)
                        a = Time(); a.mstart, a.mend = 0, cov
                        pp = PartialParse((a,), tuple(q))
                        x = Time(); x.mstart, x.mend = 0, pl
                        txt = "x" * tl
                        ok = ok and abs(sc.score(txt, None, pp) - eval_form(parts[3])) < 1e-9
                        ok = ok and abs(sc.score_final(txt, None, pp, x) - eval_form(parts[4])) < 1e-7
        if not ok:
            bad.append({"op": op, "model": g[:400], "impl": impl[:400]})
    return {"name": "nb", "cases": len(ops), "nontrivial": nontrivial, "disagreements": bad, "distribution": {"errors": errs}}


if __name__ == "__main__":
    r = run(random.Random(int(sys.argv[1]) if len(sys.argv) > 1 else 0))
    print(r["cases"], r["nontrivial"], len(r["disagreements"]), r["distribution"])
    for b in r["disagreements"][:8]:
        print(b)
