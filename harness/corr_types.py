"""types correspondence: equality (attribute-list driven), bound-free text form and repr of Time / Interval /
Duration vs the Lean model (`Art.pyEq`, `Val.nbStr`, `Art.repr`)."""
import copy, itertools, random, sys
from qa import Driver
from codec import enc_art


def run(rng, n=1500):
    from ctparse.types import Time, Interval, Duration, DurationUnit
    pools = {"year": [None, 1, 1999, 2020, 9999], "month": [None, 1, 12], "day": [None, 1, 31], "hour": [None, 0, 12, 23], "minute": [None, 0, 59], "DOW": [None, 0, 6], "POD": [None, "morning", "verylatenight"]}
    keys = list(pools)
    def rt():
        return Time(**{k: rng.choice(pools[k]) for k in keys})
    vals = [rt() for _ in range(120)] + [Time(), Time(DOW=0), Time(hour=0, minute=0)]
    vals += [Interval(t_from=rng.choice([None, rt()]), t_to=rng.choice([None, rt()])) for _ in range(40)]
    vals += [Duration(nv, u) for nv in (0, 1, 2, 100) for u in DurationUnit]
    for v in vals:
        v.mstart, v.mend = rng.randint(0, 5), rng.randint(6, 20)
    ops, want = [], []
    for v in vals:
        ops.append("tstr " + enc_art(v)); want.append(v.nb_str() + " ## " + repr(v))
    for _ in range(n):
        a = rng.choice(vals); b = rng.choice(vals) if rng.random() < 0.7 else copy.copy(a)
        if rng.random() < 0.3:
            b = copy.copy(a); b.mstart += 1
        ops.append("teq %s %s" % (enc_art(a), enc_art(b))); want.append("1" if a == b else "0")
    got = Driver().run(ops)
    bad = [{"op": o, "model": g, "impl": w} for o, g, w in zip(ops, got, want) if g != w]
    return {"name": "types", "cases": len(ops), "nontrivial": sum(1 for w in want if w != "0"), "disagreements": bad}


if __name__ == "__main__":
    r = run(random.Random(0))
    print(r["cases"], r["nontrivial"], len(r["disagreements"]))
    for b in r["disagreements"][:8]: print(b)
