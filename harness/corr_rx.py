"""rx correspondence: generated regex ASTs interpreted by the Lean matcher vs the `regex` library
(finditer(overlapped=True)): span of the pattern group and of every named group, all 41 patterns."""
import random, sys
from qa import Driver, enc, REPO


def texts(rng, n_extra=300):
    from ctparse.time.corpus import corpus
    from ctparse.time.auto_corpus import corpus as ac
    C = sys.modules["ctparse.ctparse"]
    base = [t for _, _, tests in corpus for t in tests]
    auto = [t for _, _, tests in ac for t in tests]
    out = list(base) + rng.sample(auto, min(len(auto), n_extra))
    out = [C._preprocess_string(t) for t in out]
    more = []
    for t in rng.sample(out, min(len(out), 200)):
        more.append(t.upper()); more.append(t.title()); more.append(t.swapcase())
        i = rng.randrange(len(t) + 1)
        more.append(t[:i] + rng.choice([" ", "x", "1", ".", "h", "m", "ß", "İ", "ſ", "٣", " ", "é"]) + t[i:])
        more.append("foo " + t + " bar")
    out += more + ["", " ", "12", "h", "1h", "12 am", "1230", "12:30pm", "٣ tage", "mon.", "so früh wie möglich"]
    return sorted(set(out))


def real_matches(rid, txt):
    from ctparse.rule import _regex
    rx = _regex[rid]
    key = "R%d" % rid
    names = [n for n in rx.groupindex if not n.startswith("_")]
    res = []
    for m in rx.finditer(txt, overlapped=True):
        s, e = m.span(key)
        caps = " ".join("%s:%d:%d" % (n, m.span(n)[0], m.span(n)[1]) for n in names if m.span(n) != (-1, -1))
        res.append("%d %d %s" % (s, e, caps))
    return ";".join(res)


def run(rng, limit=None):
    from ctparse.rule import _regex
    ts = texts(rng)
    if limit:
        ts = ts[:limit]
    ops, meta = [], []
    for rid in sorted(_regex):
        for t in ts:
            ops.append("rx %d %s" % (rid, enc(t)))
            meta.append((rid, t))
    got = Driver().run(ops)
    bad = []
    nontrivial = 0
    for (rid, t), g in zip(meta, got):
        want = real_matches(rid, t)
        if want:
            nontrivial += 1
        if g.strip() != want.strip():
            bad.append({"op": "rx", "pattern": rid, "text": t, "model": g, "impl": want})
    return {"name": "rx", "cases": len(ops), "nontrivial": nontrivial, "disagreements": bad}


if __name__ == "__main__":
    r = run(random.Random(0))
    print(r["cases"], r["nontrivial"], len(r["disagreements"]))
    for b in r["disagreements"][:10]:
        print(b)
