"""Run the real parser on many cases in worker processes; results as plain canonical records."""
import os, sys, multiprocessing as mp
from datetime import datetime
from qa import REPO

_INIT = False


def _init():
    global _INIT
    if not _INIT:
        import warnings
        warnings.simplefilter("ignore")
        if REPO not in sys.path:
            sys.path.insert(0, REPO)
        import ctparse  # noqa
        _INIT = True


def to_ts(t):
    """reference time of a case: a tuple of datetime fields; a trailing string 'tz<minutes>' makes it timezone-aware with that
    UTC offset (the library reads the wall-clock fields of the reference time, whatever zone it is in)"""
    if t is None:
        return None
    if t and isinstance(t[-1], str) and t[-1].startswith("tz"):
        from datetime import timezone, timedelta
        return datetime(*t[:-1], tzinfo=timezone(timedelta(minutes=int(t[-1][2:]))))
    return datetime(*t)


def label_free(norm):
    """The text the real `_ctparse` hands to `_match_regex` for the pre-processed text `norm` -- observed, not
    re-implemented: the label removal is inline code of `_ctparse`, so the harness runs `_ctparse` with a recording
    matcher instead of copying the statements (a copy goes stale with every repair there, D31)."""
    _init()
    C = sys.modules["ctparse.ctparse"]
    seen = []
    real = C._match_regex

    def rec(txt, *a, **k):
        seen.append(txt)
        return []
    C._match_regex = rec
    try:
        from ctparse.scorer import DummyScorer
        try:
            for _ in C._ctparse(norm, datetime(2020, 1, 1), 0, 1.0, 0, DummyScorer()):
                pass
        except TypeError:
            # the internal signature changed: go through the public generator (it normalises `norm` once more, which
            # is the identity on normalised text)
            del seen[:]
            for _ in C.ctparse_gen(norm, ts=datetime(2020, 1, 1), timeout=0, max_stack_depth=0, scorer=DummyScorer()):
                pass
    finally:
        C._match_regex = real
    if not seen:
        raise RuntimeError("_ctparse never called _match_regex on %r" % (norm,))
    return seen[0]


def eval_case(case):
    """case = (text, ts tuple | None, opts dict) -> record"""
    _init()
    from ctparse import ctparse
    from codec import enc_val
    text, ts, opts = case
    kw = dict(timeout=0)
    kw.update(opts or {})
    try:
        r = ctparse(text, ts=to_ts(ts), **kw)
    except Exception as e:
        return {"err": type(e).__name__ + ": " + str(e)[:80]}
    if r is None:
        return {"err": "returned None"}
    res = r.resolution
    rec = {"err": None, "res": None if res is None else enc_val(res), "subject": r.subject, "labels": r.labels,
           "score": r.score, "prod": None if r.production is None else [str(x) for x in r.production]}
    if res is not None:
        rec["ms"], rec["me"] = res.mstart, res.mend
    try:
        str(r); repr(r)
    except Exception as e:
        rec["err"] = "str/repr: " + type(e).__name__
    return rec


def parse_many(cases, procs=None):
    procs = procs or min(16, os.cpu_count() or 1)
    if len(cases) < 200 or procs == 1:
        return [eval_case(c) for c in cases]
    ctx = mp.get_context("fork")
    with ctx.Pool(procs) as pool:
        return pool.map(eval_case, cases, chunksize=max(1, len(cases) // (procs * 8)))


def T(y=None, m=None, d=None, h=None, mi=None, dow=None, pod=None):
    n = lambda x: "N" if x is None else str(x)
    return "T:" + ":".join([n(y), n(m), n(d), n(h), n(mi), n(dow), n(pod)])


def I(a, b):
    s = lambda x: "N" if x is None else x[2:]
    return "I:%s/%s" % (s(a), s(b))
