import QuickAdd.Model.Regex
import QuickAdd.Gen.Classes
import QuickAdd.Gen.RegexTable
import QuickAdd.Gen.RuleSigs
import QuickAdd.Gen.Tables
import QuickAdd.Gen.ReLiterals
import QuickAdd.Gen.Vocab
