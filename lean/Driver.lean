import QuickAdd.Model.Regex
import QuickAdd.Gen.Classes
import QuickAdd.Gen.RegexTable
import QuickAdd.Model.Codec
import QuickAdd.Model.Search
/-! Line-protocol driver: one operation per input line, one answer line per operation.
    Texts travel as blank-separated decimal code points (`-` = empty text). -/
open QuickAdd QuickAdd.Gen

def parseCps (ws : List String) : List Nat :=
  ws.filterMap fun w => if w == "-" then none else w.toNat?

def fmtCaps (cs : Caps) (names : List (String × Nat)) : String :=
  " ".intercalate <| names.filterMap fun (n, i) =>
    match getCap cs i with
    | some (s, e) => some s!"{n}:{s}:{e}"
    | none => none

def findPat (id : Nat) : Option Pat := table.find? (·.id == id)

def opRx (args : List String) : String :=
  match args with
  | idS :: rest =>
    match idS.toNat? >>= findPat with
    | none => "bad-op"
    | some p =>
      let txt := parseCps rest
      let ms := findAll rxTabs p.rx txt
      ";".intercalate <| ms.map fun (s, e, cs) => s!"{s} {e} {fmtCaps cs p.names}"
  | _ => "bad-op"

def fmtRes (r : Except PyErr (Option Art)) : String :=
  match r with
  | .ok none => "ok N"
  | .ok (some a) => "ok " ++ a.enc
  | .error e => "err " ++ e.name

def opRule (args : List String) : String :=
  match args with
  | name :: tsS :: rest =>
    match Ts.dec tsS, rest.mapM Art.dec with
    | some ts, some as => fmtRes (applyRule name ts as)
    | _, _ => "bad-op"
  | _ => "bad-op"

def opLatent (args : List String) : String :=
  match args with
  | [tsS, a] =>
    match Ts.dec tsS, Art.dec a with
    | some ts, some a => fmtRes ((applyLatent ts a).map some)
    | _, _ => "bad-op"
  | _ => "bad-op"

def cpsOut (l : List Nat) : String := if l.isEmpty then "-" else " ".intercalate (l.map toString)

def opPre (args : List String) : String := cpsOut (preprocess (parseCps args))
def opLabels (args : List String) : String :=
  let t := parseCps args
  "|".intercalate ((getLabels t).map cpsOut) ++ " ## " ++ cpsOut (stripLabels t)

def opTokens (args : List String) : String :=
  let t := parseCps args
  " ".intercalate ((matchRegex t).map Art.enc)

def opStack (args : List String) : String :=
  let t := parseCps args
  let toks := matchRegex t
  let (seqs, n) := regexStackIdx t toks 100000
  s!"{n} " ++ ";".intercalate (seqs.map fun p => " ".intercalate (p.filterMap fun i => toks[i]?.map Art.enc))

def fmtCand (c : Cand Int) : String := c.res.enc ++ "|" ++ ",".intercalate c.trace ++ "|" ++ toString c.score

def opParse (args : List String) : String :=
  match args with
  | scS :: tsS :: latS :: depthS :: numS :: denS :: dlS :: rest =>
    match Ts.dec tsS, depthS.toNat?, numS.toNat?, denS.toNat? with
    | some ts, some depth, some num, some den =>
      let sc := if scS == "const" then constScorer else hashScorer
      let o : Opts := { relMatchLenNum := num, relMatchLenDen := den, depth := depth, latent := latS == "1",
                        deadline := if dlS == "-" then none else dlS.toNat? }
      let r := ctparseGen sc ts o (parseCps rest) 200000
      let best := match bestOf sc.lt r.cands with | some b => fmtCand b | none => "N"
      ";;".intercalate (r.cands.map fmtCand) ++ " ## " ++ cpsOut r.subject ++ " ## " ++
        "|".intercalate (r.labels.map cpsOut) ++ " ## " ++ (match r.err with | some e => e.name | none => "-") ++ " ## " ++ best
    | _, _, _, _ => "bad-op"
  | _ => "bad-op"

def opNoMatch (args : List String) : String :=
  let (s, l) := noMatchSubject (parseCps args)
  cpsOut s ++ " ## " ++ "|".intercalate (l.map cpsOut)

def handle (line : String) : String :=
  match (line.trimAscii.toString.splitOn " ").filter (· ≠ "") with
  | "rx" :: args => opRx args
  | "rule" :: args => opRule args
  | "latent" :: args => opLatent args
  | "pre" :: args => opPre args
  | "labels" :: args => opLabels args
  | "tokens" :: args => opTokens args
  | "stack" :: args => opStack args
  | "parse" :: args => opParse args
  | "nomatch" :: args => opNoMatch args
  | _ => "bad-op"

partial def loop (h : IO.FS.Stream) (out : IO.FS.Stream) : IO Unit := do
  let line ← h.getLine
  if line.isEmpty then return ()
  out.putStrLn (handle line)
  loop h out

def main : IO Unit := do
  let out ← IO.getStdout
  loop (← IO.getStdin) out
  out.flush
