import QuickAdd.Model.Regex
import QuickAdd.Gen.Classes
import QuickAdd.Gen.RegexTable
import QuickAdd.Model.Codec
import QuickAdd.Model.Search
import QuickAdd.Model.NB
/-! Line-protocol driver: one operation per input line, one answer line per operation.
    Texts travel as blank-separated decimal code points (`-` = empty text). -/
open QuickAdd QuickAdd.Gen

def parseCps (ws : List String) : List Nat :=
  ws.filterMap fun w => if w == "-" then none else w.toNat?

def fmtCaps (cs : Caps) (names : List (String × Nat)) : String :=
  " ".intercalate <| names.filterMap fun (n, i) =>
    match getCap cs i with
    | some (s, e) => some s!"{n}:{s}:{e}"
    | none => none

def findPat (id : Nat) : Option Pat := table.find? (·.id == id)

def opRx (args : List String) : String :=
  match args with
  | idS :: rest =>
    match idS.toNat? >>= findPat with
    | none => "bad-op"
    | some p =>
      let txt := parseCps rest
      let ms := findAll rxTabs p.rx txt
      ";".intercalate <| ms.map fun (s, e, cs) => s!"{s} {e} {fmtCaps cs p.names}"
  | _ => "bad-op"

def fmtRes (r : Except PyErr (Option Art)) : String :=
  match r with
  | .ok none => "ok N"
  | .ok (some a) => "ok " ++ a.enc
  | .error e => "err " ++ e.name

def opRule (args : List String) : String :=
  match args with
  | name :: tsS :: rest =>
    match Ts.dec tsS, rest.mapM Art.dec with
    | some ts, some as => fmtRes (applyRule name ts as)
    | _, _ => "bad-op"
  | _ => "bad-op"

def opLatent (args : List String) : String :=
  match args with
  | [tsS, a] =>
    match Ts.dec tsS, Art.dec a with
    | some ts, some a => fmtRes ((applyLatent ts a).map some)
    | _, _ => "bad-op"
  | _ => "bad-op"

def cpsOut (l : List Nat) : String := if l.isEmpty then "-" else " ".intercalate (l.map toString)

def opPre (args : List String) : String := cpsOut (preprocess (parseCps args))
def opLabels (args : List String) : String :=
  let t := parseCps args
  "|".intercalate ((getLabels t).map cpsOut) ++ " ## " ++ cpsOut (stripLabels t)

def opTokens (args : List String) : String :=
  let t := parseCps args
  " ".intercalate ((matchRegex t).map Art.enc)

def opStack (args : List String) : String :=
  let t := parseCps args
  let toks := matchRegex t
  let (seqs, n) := regexStackIdx t toks 100000
  s!"{n} " ++ ";".intercalate (seqs.map fun p => " ".intercalate (p.filterMap fun i => toks[i]?.map Art.enc))

def fmtCand (c : Cand Int) : String := c.res.enc ++ "|" ++ ",".intercalate c.trace ++ "|" ++ toString c.score

def opParse (args : List String) : String :=
  match args with
  | scS :: tsS :: latS :: depthS :: numS :: denS :: dlS :: rest =>
    match Ts.dec tsS, depthS.toNat?, numS.toNat?, denS.toNat? with
    | some ts, some depth, some num, some den =>
      let sc := if scS == "const" then constScorer else hashScorer
      let o : Opts := { relMatchLenNum := num, relMatchLenDen := den, depth := depth, latent := latS == "1",
                        deadline := if dlS == "-" then none else dlS.toNat? }
      let r := ctparseGen sc ts o (parseCps rest) 200000
      -- the DFS over the match graph shares the fuel and would stop silently: say so instead (`dfsFinished`, Lemmas/FuelIndep)
      let txt := stripLabels (preprocess (parseCps rest))
      let dfsOk := decide ((regexStackIdx txt (matchRegex txt) 200000).2 < 200000)
      let best := match bestOf sc.lt r.cands with | some b => fmtCand b | none => "N"
      ";;".intercalate (r.cands.map fmtCand) ++ " ## " ++ cpsOut r.subject ++ " ## " ++
        "|".intercalate (r.labels.map cpsOut) ++ " ## " ++
        (if !dfsOk then PyErr.unmodelled.name else match r.err with | some e => e.name | none => "-") ++ " ## " ++ best
    | _, _, _, _ => "bad-op"
  | _ => "bad-op"

def opNoMatch (args : List String) : String :=
  let (s, l) := noMatchSubject (parseCps args)
  cpsOut s ++ " ## " ++ "|".intercalate (l.map cpsOut)

def parseDocs (s : String) : List (List String) :=
  if s == "-" then [] else (s.splitOn ";").map fun d => if d == "_" || d == "" then [] else d.splitOn ","
def parseLabels (s : String) : List Bool := if s == "-" then [] else (s.splitOn ",").map (· == "1")
def nbErrName : NB.NBErr → String
  | .indexError => "IndexError" | .valueError => "ValueError" | .zeroDivision => "ZeroDivisionError" | .mathDomain => "ValueError"
def fmtForm (f : NB.LogForm) : String := ",".intercalate (f.map fun (c, a, b) => s!"{c}:{a}/{b}")
def natsOut (l : List Nat) : String := ",".intercalate (l.map toString)

/-- `nbfit <docs> <labels>` -/
def opNbFit (args : List String) : String :=
  match args with
  | [d, l] =>
    match NB.fit (parseDocs d) (parseLabels l) with
    | .error e => "err " ++ nbErrName e
    | .ok m => "ok " ++ "|".intercalate (m.vocab.map fun g => g.replace " " "+") ++ " " ++ natsOut m.neg ++ " " ++ natsOut m.pos ++ s!" {m.nNeg} {m.nPos}"
  | _ => "bad-op"

/-- `nbscore <docs> <labels> <doc> <covered> <textLen> <prodLen>` -/
def opNbScore (args : List String) : String :=
  match args with
  | [d, l, q, cov, tl, pl] =>
    match NB.fit (parseDocs d) (parseLabels l), cov.toNat?, tl.toNat?, pl.toNat? with
    | .error e, _, _, _ => "err " ++ nbErrName e
    | .ok m, some cov, some tl, some pl =>
      let doc := (parseDocs q).headD []
      match NB.joint m doc, NB.score m doc cov tl, NB.scoreFinal m doc pl tl with
      | .ok (n, p), .ok s, .ok f => "ok " ++ fmtForm n ++ " " ++ fmtForm p ++ " " ++ fmtForm s ++ " " ++ fmtForm f
      | .error e, _, _ => "err " ++ nbErrName e
      | _, .error e, _ => "err " ++ nbErrName e
      | _, _, .error e => "err " ++ nbErrName e
    | _, _, _, _ => "bad-op"
  | _ => "bad-op"

def opPrefixes (args : List String) : String :=
  match args with
  | [t, l] => ";".intercalate ((NB.prefixSamples ((parseDocs t).headD []) (l == "1")).map fun (x, y) => ",".intercalate x ++ (if y then ":1" else ":0"))
  | _ => "bad-op"

def opTeq (args : List String) : String :=
  match args with
  | [a, b] => match Art.dec a, Art.dec b with
    | some x, some y => if x.pyEq y then "1" else "0"
    | _, _ => "bad-op"
  | _ => "bad-op"
def opTstr (args : List String) : String :=
  match args with
  | [a] => match Art.dec a with
    | some x => x.v.nbStr ++ " ## " ++ x.repr
    | none => "bad-op"
  | _ => "bad-op"

def handle (line : String) : String :=
  match (line.trimAscii.toString.splitOn " ").filter (· ≠ "") with
  | "rx" :: args => opRx args
  | "rule" :: args => opRule args
  | "latent" :: args => opLatent args
  | "pre" :: args => opPre args
  | "labels" :: args => opLabels args
  | "tokens" :: args => opTokens args
  | "stack" :: args => opStack args
  | "parse" :: args => opParse args
  | "nomatch" :: args => opNoMatch args
  | "teq" :: args => opTeq args
  | "tstr" :: args => opTstr args
  | "nbfit" :: args => opNbFit args
  | "nbscore" :: args => opNbScore args
  | "prefixes" :: args => opPrefixes args
  | _ => "bad-op"

partial def loop (h : IO.FS.Stream) (out : IO.FS.Stream) : IO Unit := do
  let line ← h.getLine
  if line.isEmpty then return ()
  out.putStrLn (handle line)
  loop h out

def main : IO Unit := do
  let out ← IO.getStdout
  loop (← IO.getStdin) out
  out.flush
