import QuickAdd.Model.Regex
import QuickAdd.Gen.Classes
import QuickAdd.Gen.RegexTable
import QuickAdd.Model.Codec
/-! Line-protocol driver: one operation per input line, one answer line per operation.
    Texts travel as blank-separated decimal code points (`-` = empty text). -/
open QuickAdd QuickAdd.Gen

def parseCps (ws : List String) : List Nat :=
  ws.filterMap fun w => if w == "-" then none else w.toNat?

def fmtCaps (cs : Caps) (names : List (String × Nat)) : String :=
  " ".intercalate <| names.filterMap fun (n, i) =>
    match getCap cs i with
    | some (s, e) => some s!"{n}:{s}:{e}"
    | none => none

def findPat (id : Nat) : Option Pat := table.find? (·.id == id)

def opRx (args : List String) : String :=
  match args with
  | idS :: rest =>
    match idS.toNat? >>= findPat with
    | none => "bad-op"
    | some p =>
      let txt := parseCps rest
      let ms := findAll rxTabs p.rx txt
      ";".intercalate <| ms.map fun (s, e, cs) => s!"{s} {e} {fmtCaps cs p.names}"
  | _ => "bad-op"

def fmtRes (r : Except PyErr (Option Art)) : String :=
  match r with
  | .ok none => "ok N"
  | .ok (some a) => "ok " ++ a.enc
  | .error e => "err " ++ e.name

def opRule (args : List String) : String :=
  match args with
  | name :: tsS :: rest =>
    match Ts.dec tsS, rest.mapM Art.dec with
    | some ts, some as => fmtRes (applyRule name ts as)
    | _, _ => "bad-op"
  | _ => "bad-op"

def opLatent (args : List String) : String :=
  match args with
  | [tsS, a] =>
    match Ts.dec tsS, Art.dec a with
    | some ts, some a => fmtRes ((applyLatent ts a).map some)
    | _, _ => "bad-op"
  | _ => "bad-op"

def handle (line : String) : String :=
  match (line.trimAscii.toString.splitOn " ").filter (· ≠ "") with
  | "rx" :: args => opRx args
  | "rule" :: args => opRule args
  | "latent" :: args => opLatent args
  | _ => "bad-op"

partial def loop (h : IO.FS.Stream) (out : IO.FS.Stream) : IO Unit := do
  let line ← h.getLine
  if line.isEmpty then return ()
  out.putStrLn (handle line)
  loop h out

def main : IO Unit := do
  let out ← IO.getStdout
  loop (← IO.getStdin) out
  out.flush
