import QuickAdd.Lemmas.SearchSound
import QuickAdd.Lemmas.SearchComplete
import QuickAdd.Lemmas.ExpandSound
import QuickAdd.Lemmas.ExpandRespects
import QuickAdd.Props.C18
/-!
# C15 — the search yields only what the rules license (soundness), for every ordering policy

`search_sound`: for every scorer, depth limit and deadline, every streamed candidate is a value of a production
reachable from an initial gap-free sequence by `expandArts`, and its reported production sequence is that
production's trace (`run_sound` on the model's own loop).
`expand_sound`: every successor produced by `expandArts` is a registered rule of the applicable set, applied to a
contiguous window on which all its predicates hold, with a successful production — i.e. a licensed derivation step —
and the trace grows by exactly that rule's name.
`window_sound`: the windows of `_match_rule` are exactly the offsets where the whole pattern matches.
`args_unchanged`: a rule application returns new values; the argument list of the model is immutable, so "applying a
rule never alters the values it was applied to" is checked where it can fail — on the real code, by argument snapshots
around every rule call (`rules` correspondence and the sweep).
`search_complete`: **completeness of the concrete loop** — without depth limit and deadline, if the search ends without
exception then every value of every reachable production that no rule reduces further compares equal (Python `==`) to a
streamed candidate, for **every scorer** (ordering, both dedup tables and the emission gate are score dependent; the proof is
an invariant over the worklist: successors of closed elements and table keys are value-equal to something open or closed).
Its two ingredients about the rule base are proved, not assumed: `prefilter_adequate` — the rule pre-filter computed once per
initial sequence keeps every rule that can fire on any descendant of that sequence (`Lemmas/FilterAdequate`: the model of
`_seq_match` answers yes whenever a pattern matches a window of a production that `Covers` the sequence); and
`expand_respects_eq` — two reachable productions that compare equal have pairwise equal successors although they may descend
from different initial sequences (different pre-filtered rule sets) and carry values with different spans
(`Lemmas/ExpandRespects`: pattern id and start offset identify a match of the match list; windows, rule results and the
calendar check depend on the values only).  `keyEq_equivalence`: `==` of production elements is an equivalence that never
identifies a value with a pattern match (from the generated attribute lists).  Reading of "fully reduced": the expansion of
the production succeeds with no successor (`expandArts … = .ok []`).
-/
namespace QuickAdd.C15
open QuickAdd Gen

variable {S : Type}

/-- every candidate of the search is a value of a reachable production and reports that production's trace -/
theorem search_sound (sc : Scorer S) (ts : Ts) (o : Opts) (txt : List Nat) (fuel : Nat) :
    let st := (initialStack sc o.depth o.relMatchLenNum o.relMatchLenDen txt fuel).1
    ∀ c ∈ (searchCore sc ts o txt fuel).1.1,
      ∃ p rules, ReachE (mkCfg sc ts o.depth txt) st p c.trace rules ∧ c.res ∈ p ∧ c.res.isVal = true := by
  intro st c hc
  simp only [searchCore] at hc
  by_cases hx : expiredAt o.deadline (initialStack sc o.depth o.relMatchLenNum o.relMatchLenDen txt fuel).2 = true
  · simp [hx] at hc
  · simp only [hx, Bool.false_eq_true, if_false, List.mem_map] at hc
    obtain ⟨out, hout, rfl⟩ := hc
    obtain ⟨p, rules, hr, hm, hv, _⟩ := run_sound (mkCfg sc ts o.depth txt) st fuel _ st [] [] (fun e he => ReachE.init he) out hout
    exact ⟨p, rules, hr, hm, hv⟩

/-- `_match_rule`: an offset is yielded iff the whole pattern matches the window starting there -/
theorem window_sound (seq : List Art) (pat : List Pred) (i : Nat) (h : i ∈ matchRule seq pat) :
    i < seq.length ∧ ((seq.drop i).take pat.length).length = pat.length ∧
      (List.zipWith predHolds pat ((seq.drop i).take pat.length)).all id = true ∧ pat ≠ [] := QuickAdd.window_sound seq pat i h

/-- **every successor is a licensed derivation step**: a rule of the applicable set, a window on which all its predicates
    hold, a successful production, the value spliced in place and the trace extended by that rule's name -/
theorem expand_sound (ts : Ts) (rules : List (String × List Pred)) (prod : List Art) (trace : List String)
    (out : List (List Art × List String × Nat)) (h : expandArts ts rules prod trace = .ok out) :
    ∀ s ∈ out, ∃ r ∈ rules, ∃ i ∈ matchRule prod r.2, ∃ x, applyRule r.1 ts ((prod.drop i).take r.2.length) = .ok (some x) ∧
      s = (prod.take i ++ x :: prod.drop (i + r.2.length), trace ++ [r.1], coverOf (prod.take i ++ x :: prod.drop (i + r.2.length))) :=
  QuickAdd.expand_sound ts rules prod trace out h

/-! ## completeness -/

/-- `==` on production elements of the concrete configuration is an equivalence and separates values from pattern matches -/
theorem keyEq_equivalence (sc : Scorer S) (ts : Ts) (d : Nat) (txt : List Nat) : EqvK (mkCfg sc ts d txt) :=
  ⟨C18.pyEq_refl, C18.pyEq_symm, C18.pyEq_trans, C18.pyEq_isVal⟩

/-- **completeness of the stream, for every scorer** (no hypothesis left about the rule base): without depth limit and
    deadline, if the search ends without exception, every value of every reachable production that no rule reduces further
    compares equal (Python `==`) to a streamed candidate -/
theorem search_complete (sc : Scorer S) (ts : Ts) (hts : ts.Valid) (o : Opts) (txt : List Nat) (fuel : Nat)
    (hd : o.depth = 0) (hdl : o.deadline = none)
    (hclean : (searchCore sc ts o txt fuel).1.2 = none) :
    let st := (initialStack sc o.depth o.relMatchLenNum o.relMatchLenDen txt fuel).1
    ∀ p t rules, ReachE (mkCfg sc ts o.depth txt) st p t rules → expandArts ts rules p t = .ok [] →
      ∀ x ∈ p, x.isVal = true → ∃ c ∈ (searchCore sc ts o txt fuel).1.1, x.pyEq c.res = true := by
  intro st p t rules hr hnil x hx hxv
  have hER := expandRespects_concrete sc ts hts o.depth o.relMatchLenNum o.relMatchLenDen txt fuel o.depth
  have hexp : ∀ n, expiredAt none n = false := fun _ => rfl
  simp only [searchCore, hdl, hexp, Bool.false_eq_true, if_false, Option.map_none] at hclean ⊢
  obtain ⟨ou, hou, he⟩ := complete_stream (mkCfg sc ts o.depth txt) (by simpa [mkCfg] using hd) (keyEq_equivalence sc ts o.depth txt)
    fuel st hER _ (Prod.ext rfl hclean) p t rules hr hnil x hx hxv
  exact ⟨toCand ou, List.mem_map.mpr ⟨ou, hou, rfl⟩, he⟩

/-- the rule pre-filter of `from_regex_matches` loses no rule that can ever fire on a descendant of the sequence -/
theorem prefilter_adequate (s p : List Art) (hc : Covers s p) (r : String × List Pred) (hr : r ∈ ruleSigs) (i : Nat) (hi : i ∈ matchRule p r.2) :
    r ∈ filterRules s := filter_keeps s p hc r hr i hi

/-- two reachable productions that compare equal have pairwise equal successors (different inherited rule sets and value spans
    notwithstanding) -/
theorem expand_respects_eq (sc : Scorer S) (ts : Ts) (hts : ts.Valid) (depth num den : Nat) (txt : List Nat) (fuel d : Nat) :
    ExpandRespects (mkCfg sc ts d txt) (initialStack sc depth num den txt fuel).1 :=
  expandRespects_concrete sc ts hts depth num den txt fuel d

/-- non-vacuity of `search_complete`: a concrete text on which all its hypotheses hold ('5pm', no depth limit, no deadline,
    clean end) and the stream is not empty -/
example : (searchCore constScorer ⟨⟨2018, 3, 7⟩, 12, 43⟩ { depth := 0 } [53, 112, 109] 200).1.2 = none ∧
    (searchCore constScorer ⟨⟨2018, 3, 7⟩, 12, 43⟩ { depth := 0 } [53, 112, 109] 200).1.1.length > 0 := by decide +kernel

/-- non-vacuity of the abstract theorem: a configuration (count-down productions over `Nat`, every element a value) that
    satisfies all hypotheses of `complete_stream`, with a clean run that streams the fully reduced production -/
def toyCfg : Cfg Nat Nat :=
  { lt := fun a b => decide (a < b)
    expand := fun _ p t => .ok (match p with | [n+1] => [([n], t ++ ["dec"], 1)] | _ => [])
    scorer := fun _ _ _ => 0
    final := fun _ _ _ => 0
    isVal := fun _ => true
    keyEq := fun a b => a == b
    depth := 0 }

def toyInit : List (E Nat Nat) := [{ prod := [3], trace := [], cov := 1, score := 0, rules := [] }]

theorem toy_req (p q : List Nat) : Req toyCfg p q ↔ p = q := by
  unfold Req
  induction p generalizing q with
  | nil => cases q <;> simp [listEqBy]
  | cons a as ih => cases q with
    | nil => simp [listEqBy]
    | cons b bs => simp [listEqBy, toyCfg, ih] ; exact fun _ => ih bs

example : EqvK toyCfg ∧ ExpandRespects toyCfg toyInit ∧
    run toyCfg 10 none toyInit [] [] = ([(0, ["dec", "dec", "dec"], 0)], none) := by
  refine ⟨⟨by simp [toyCfg], by simp [toyCfg], by simp [toyCfg], by simp [toyCfg]⟩, ?_, by decide⟩
  intro r1 p1 t1 r2 p2 t2 s1 s2 _ _ hreq h1 h2 n hn
  have : p1 = p2 := (toy_req p1 p2).mp hreq
  subst this
  simp only [toyCfg, Except.ok.injEq] at h1 h2
  subst h1; subst h2
  rcases p1 with _ | ⟨k, _ | ⟨_, _⟩⟩
  · simp at hn
  · cases k with
    | zero => simp at hn
    | succ k => simp at hn; subst hn; exact ⟨([k], t2 ++ ["dec"], 1), by simp, (toy_req _ _).mpr rfl⟩
  · simp at hn

end QuickAdd.C15
