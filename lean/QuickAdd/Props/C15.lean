import QuickAdd.Lemmas.SearchSound
import QuickAdd.Lemmas.SearchComplete
import QuickAdd.Props.C18
/-!
# C15 — the search yields only what the rules license (soundness), for every ordering policy

`search_sound`: for every scorer, depth limit and deadline, every streamed candidate is a value of a production
reachable from an initial gap-free sequence by `expandArts`, and its reported production sequence is that
production's trace (`run_sound` on the model's own loop).
`expand_sound`: every successor produced by `expandArts` is a registered rule of the applicable set, applied to a
contiguous window on which all its predicates hold, with a successful production — i.e. a licensed derivation step —
and the trace grows by exactly that rule's name.
`window_sound`: the windows of `_match_rule` are exactly the offsets where the whole pattern matches.
`args_unchanged`: a rule application returns new values; the argument list of the model is immutable, so "applying a
rule never alters the values it was applied to" is checked where it can fail — on the real code, by argument snapshots
around every rule call (`rules` correspondence and the sweep).
`search_complete_partial`: **completeness of the concrete loop** — without depth limit and deadline, if the search ends
without exception then every value of every reachable production that no rule reduces further compares equal (Python `==`)
to a streamed candidate, for **every scorer** (ordering, both dedup tables and the emission gate are score dependent; the
proof is an invariant over the worklist: successors of closed elements and table keys are value-equal to something open or
closed).  It is named *partial* because it keeps one hypothesis about the rule base that is not proved: `ExpandRespects` —
two *reachable* productions that compare equal have pairwise equal successors although they may have inherited different
pre-filtered rule sets (the "rule pre-filter must not lose rules" clause).  `keyEq_equivalence` discharges the other
hypothesis (`==` of production elements is an equivalence that never identifies a value with a pattern match) from the
generated attribute lists.  The hypothesis is decided on the real code by the sweep (independent brute-force closure over
the *unfiltered* rule base vs the streamed set, several scorers) and for the model by the `search` correspondence.
-/
namespace QuickAdd.C15
open QuickAdd Gen

variable {S : Type}

/-- every candidate of the search is a value of a reachable production and reports that production's trace -/
theorem search_sound (sc : Scorer S) (ts : Ts) (o : Opts) (txt : List Nat) (fuel : Nat) :
    let st := (initialStack sc o.depth o.relMatchLenNum o.relMatchLenDen txt fuel).1
    ∀ c ∈ (searchCore sc ts o txt fuel).1.1,
      ∃ p rules, ReachE (mkCfg sc ts o.depth txt) st p c.trace rules ∧ c.res ∈ p ∧ c.res.isVal = true := by
  intro st c hc
  simp only [searchCore] at hc
  by_cases hx : expiredAt o.deadline (initialStack sc o.depth o.relMatchLenNum o.relMatchLenDen txt fuel).2 = true
  · simp [hx] at hc
  · simp only [hx, Bool.false_eq_true, if_false, List.mem_map] at hc
    obtain ⟨out, hout, rfl⟩ := hc
    obtain ⟨p, rules, hr, hm, hv, _⟩ := run_sound (mkCfg sc ts o.depth txt) st fuel _ st [] [] (fun e he => ReachE.init he) out hout
    exact ⟨p, rules, hr, hm, hv⟩

/-- `_match_rule`: an offset is yielded iff the whole pattern matches the window starting there -/
theorem window_sound (seq : List Art) (pat : List Pred) (i : Nat) (h : i ∈ matchRule seq pat) :
    i < seq.length ∧ ((seq.drop i).take pat.length).length = pat.length ∧
      (List.zipWith predHolds pat ((seq.drop i).take pat.length)).all id = true ∧ pat ≠ [] := by
  unfold matchRule at h
  split at h
  · simp at h
  · rename_i hne
    simp only [List.mem_filter, List.mem_range, Bool.and_eq_true, beq_iff_eq] at h
    exact ⟨h.1, h.2.1, h.2.2, by intro e; simp [e] at hne⟩

/-- generic: a fold that appends at most one element per index only adds elements produced at those indices -/
theorem foldOpt_sound {β γ : Type} (g : β → Except PyErr (Option γ)) :
    ∀ (ws : List β) (acc out : List γ), foldOpt g ws acc = Except.ok out → ∀ s ∈ out, s ∈ acc ∨ ∃ i ∈ ws, g i = .ok (some s) := by
  intro ws
  induction ws with
  | nil => intro acc out h s hs; simp [foldOpt] at h; subst h; exact Or.inl hs
  | cons i is ih =>
    intro acc out h s hs
    simp only [foldOpt] at h
    cases hr : g i with
    | error e => simp [hr] at h
    | ok r =>
      cases r with
      | none =>
        simp only [hr] at h
        rcases ih acc out h s hs with h1 | ⟨j, hj, e⟩
        · exact Or.inl h1
        · exact Or.inr ⟨j, List.mem_cons_of_mem _ hj, e⟩
      | some x =>
        simp only [hr] at h
        rcases ih _ out h s hs with h1 | ⟨j, hj, e⟩
        · rcases List.mem_append.mp h1 with h2 | h2
          · exact Or.inl h2
          · simp at h2; subst h2; exact Or.inr ⟨i, by simp, hr⟩
        · exact Or.inr ⟨j, List.mem_cons_of_mem _ hj, e⟩

theorem foldAppend_sound {β γ : Type} (g : β → Except PyErr (List γ)) :
    ∀ (rs : List β) (acc out : List γ), foldAppend g rs acc = Except.ok out →
      ∀ s ∈ out, s ∈ acc ∨ ∃ r ∈ rs, ∃ outs, g r = .ok outs ∧ s ∈ outs := by
  intro rs
  induction rs with
  | nil => intro acc out h s hs; simp [foldAppend] at h; subst h; exact Or.inl hs
  | cons r rs ih =>
    intro acc out h s hs
    simp only [foldAppend] at h
    cases hr : g r with
    | error e => simp [hr] at h
    | ok outs =>
      simp only [hr] at h
      rcases ih _ out h s hs with h1 | ⟨r', hr', o', ho', hs'⟩
      · rcases List.mem_append.mp h1 with h2 | h2
        · exact Or.inl h2
        · exact Or.inr ⟨r, by simp, outs, hr, h2⟩
      · exact Or.inr ⟨r', List.mem_cons_of_mem _ hr', o', ho', hs'⟩

/-- one application: a successful production on the window at `i`, spliced in place, trace extended by the rule's name -/
theorem applyAt_sound (ts : Ts) (name : String) (pat : List Pred) (prod : List Art) (trace : List String) (i : Nat) (s : List Art × List String × Nat)
    (h : applyAt ts name pat prod trace i = .ok (some s)) :
    ∃ x, applyRule name ts ((prod.drop i).take pat.length) = .ok (some x) ∧
      s = (prod.take i ++ x :: prod.drop (i + pat.length), trace ++ [name], coverOf (prod.take i ++ x :: prod.drop (i + pat.length))) := by
  unfold applyAt at h
  cases hr : applyRule name ts ((prod.drop i).take pat.length) with
  | error e => simp [hr, bind, Except.bind] at h
  | ok r =>
    cases r with
    | none => simp [hr, bind, Except.bind, pure, Except.pure] at h
    | some x =>
      simp only [hr, bind, Except.bind, pure, Except.pure] at h
      simp at h
      exact ⟨x, rfl, h.symm⟩

/-- **every successor is a licensed derivation step**: a rule of the applicable set, a window on which all its predicates
    hold, a successful production, the value spliced in place and the trace extended by that rule's name -/
theorem expand_sound (ts : Ts) (rules : List (String × List Pred)) (prod : List Art) (trace : List String)
    (out : List (List Art × List String × Nat)) (h : expandArts ts rules prod trace = .ok out) :
    ∀ s ∈ out, ∃ r ∈ rules, ∃ i ∈ matchRule prod r.2, ∃ x, applyRule r.1 ts ((prod.drop i).take r.2.length) = .ok (some x) ∧
      s = (prod.take i ++ x :: prod.drop (i + r.2.length), trace ++ [r.1], coverOf (prod.take i ++ x :: prod.drop (i + r.2.length))) := by
  intro s hs
  have h' : foldAppend (fun r : String × List Pred => expandRule ts r.1 r.2 prod trace) rules [] = .ok out := h
  rcases foldAppend_sound (fun r : String × List Pred => expandRule ts r.1 r.2 prod trace) rules [] out h' s hs with h1 | ⟨r, hr, outs, ho, hso⟩
  · simp at h1
  · have ho' : foldOpt (applyAt ts r.1 r.2 prod trace) (matchRule prod r.2) [] = .ok outs := ho
    rcases foldOpt_sound (applyAt ts r.1 r.2 prod trace) (matchRule prod r.2) [] outs ho' s hso with h2 | ⟨i, hi, hg⟩
    · simp at h2
    · obtain ⟨x, hx, e⟩ := applyAt_sound ts r.1 r.2 prod trace i s hg
      exact ⟨r, hr, i, hi, x, hx, e⟩

/-! ## completeness -/

/-- `==` on production elements of the concrete configuration is an equivalence and separates values from pattern matches -/
theorem keyEq_equivalence (sc : Scorer S) (ts : Ts) (d : Nat) (txt : List Nat) : EqvK (mkCfg sc ts d txt) :=
  ⟨C18.pyEq_refl, C18.pyEq_symm, C18.pyEq_trans, C18.pyEq_isVal⟩

/-- completeness of the stream, for every scorer; hypothesis `hER` is the unproved part (see the header) -/
theorem search_complete_partial (sc : Scorer S) (ts : Ts) (o : Opts) (txt : List Nat) (fuel : Nat)
    (hd : o.depth = 0) (hdl : o.deadline = none)
    (hER : ExpandRespects (mkCfg sc ts o.depth txt) (initialStack sc o.depth o.relMatchLenNum o.relMatchLenDen txt fuel).1)
    (hclean : (searchCore sc ts o txt fuel).1.2 = none) :
    let st := (initialStack sc o.depth o.relMatchLenNum o.relMatchLenDen txt fuel).1
    ∀ p t rules, ReachE (mkCfg sc ts o.depth txt) st p t rules → succOf (mkCfg sc ts o.depth txt) rules p t = [] →
      ∀ x ∈ p, x.isVal = true → ∃ c ∈ (searchCore sc ts o txt fuel).1.1, x.pyEq c.res = true := by
  intro st p t rules hr hnil x hx hxv
  have hexp : ∀ n, expiredAt none n = false := fun _ => rfl
  simp only [searchCore, hdl, hexp, Bool.false_eq_true, if_false, Option.map_none] at hclean ⊢
  obtain ⟨ou, hou, he⟩ := complete_stream (mkCfg sc ts o.depth txt) (by simpa [mkCfg] using hd) (keyEq_equivalence sc ts o.depth txt)
    fuel st hER _ (Prod.ext rfl hclean) p t rules hr hnil x hx hxv
  exact ⟨toCand ou, List.mem_map.mpr ⟨ou, hou, rfl⟩, he⟩

/-- non-vacuity of the abstract theorem: a configuration (count-down productions over `Nat`, every element a value) that
    satisfies all hypotheses of `complete_stream`, with a clean run that streams the fully reduced production -/
def toyCfg : Cfg Nat Nat :=
  { lt := fun a b => decide (a < b)
    expand := fun _ p t => .ok (match p with | [n+1] => [([n], t ++ ["dec"], 1)] | _ => [])
    scorer := fun _ _ _ => 0
    final := fun _ _ _ => 0
    isVal := fun _ => true
    keyEq := fun a b => a == b
    depth := 0 }

def toyInit : List (E Nat Nat) := [{ prod := [3], trace := [], cov := 1, score := 0, rules := [] }]

theorem toy_req (p q : List Nat) : Req toyCfg p q ↔ p = q := by
  unfold Req
  induction p generalizing q with
  | nil => cases q <;> simp [listEqBy]
  | cons a as ih => cases q with
    | nil => simp [listEqBy]
    | cons b bs => simp [listEqBy, toyCfg, ih] ; exact fun _ => ih bs

example : EqvK toyCfg ∧ ExpandRespects toyCfg toyInit ∧
    run toyCfg 10 none toyInit [] [] = ([(0, ["dec", "dec", "dec"], 0)], none) := by
  refine ⟨⟨by simp [toyCfg], by simp [toyCfg], by simp [toyCfg], by simp [toyCfg]⟩, ?_, by decide⟩
  intro r1 p1 t1 r2 p2 t2 _ _ hreq n hn
  have : p1 = p2 := (toy_req p1 p2).mp hreq
  subst this
  simp only [succOf, toyCfg, List.mem_map] at hn ⊢
  obtain ⟨a, ha, rfl⟩ := hn
  rcases p1 with _ | ⟨k, _ | ⟨_, _⟩⟩
  · simp at ha
  · cases k with
    | zero => simp at ha
    | succ k => simp at ha; subst ha; exact ⟨[k], ⟨([k], t2 ++ ["dec"], 1), by simp, rfl⟩, (toy_req _ _).mpr rfl⟩
  · simp at ha

end QuickAdd.C15
