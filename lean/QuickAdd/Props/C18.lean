import QuickAdd.Model.Types
import QuickAdd.Lemmas.StrInj
/-!
# C18 — resolutions compare and hash by value, independent of the character span

All statements are about the model's `pyEq` / `hashKey`, which iterate over the **generated** attribute lists
(`Gen.timeAttrs`, `Gen.intervalAttrs`, `Gen.durationAttrs` = the `_attrs` of the live classes): a change of an
attribute list in the source changes the data these proofs are checked against.
`text_form_injective`: **the bound-free text form is injective on values** — two printable resolutions (present numbers
non-negative, part of day a key of the table, durations non-negative) with the same `nb_str` are the same value
(`Lemmas/StrInj`: the separators split the text uniquely because a field is digits or `X`; zero padding does not lose the
number; a printed time ends at its only `)`; unit names differ).
Partial: parsing the text form back (`from_str`, a `re` pattern) is not modelled; the round trip is decided by the `types`
correspondence and the sweep over the field product.
-/
namespace QuickAdd.C18
open QuickAdd

/-- two `Time`s are equal (Python `==`) exactly when all seven fields agree -/
theorem time_eq_iff (a b : Time) : a.pyEq b = true ↔ a = b := by
  constructor
  · intro h
    simp only [Time.pyEq, Gen.timeAttrs, List.all_cons, List.all_nil, Time.fieldEq, Bool.and_true, Bool.and_eq_true, beq_iff_eq] at h
    obtain ⟨h1, h2, h3, h4, h5, h6, h7⟩ := h
    cases a; cases b; simp_all
  · intro h; subst h
    simp [Time.pyEq, Gen.timeAttrs, Time.fieldEq]

theorem optTime_eq_iff (a b : Option Time) : optTimeEq a b = true ↔ a = b := by
  cases a <;> cases b <;> simp [optTimeEq, time_eq_iff]

/-- values (not tokens): equal exactly when of the same kind and denoting the same value — spans play no role -/
theorem art_eq_iff (a b : Art) (ha : a.isVal = true) (hb : b.isVal = true) : a.pyEq b = true ↔ a.v = b.v := by
  obtain ⟨va, sa, ea⟩ := a
  obtain ⟨vb, sb, eb⟩ := b
  cases va <;> cases vb <;> simp_all [Art.isVal, Art.pyEq, time_eq_iff, optTime_eq_iff, Gen.intervalAttrs, Gen.durationAttrs]

theorem eq_span_indep (v : Val) (s e s' e' : Nat) (hv : (⟨v, s, e⟩ : Art).isVal = true) : (⟨v, s, e⟩ : Art).pyEq ⟨v, s', e'⟩ = true := by
  rw [art_eq_iff _ _ hv (by simpa [Art.isVal] using hv)]

/-- equal values have equal hashes (the hash is taken over the same attribute tuple the comparison uses) -/
theorem hash_congr (a b : Art) (ha : a.isVal = true) (hb : b.isVal = true) (h : a.pyEq b = true) : a.hashKey = b.hashKey := by
  have hv := (art_eq_iff a b ha hb).mp h
  obtain ⟨va, sa, ea⟩ := a
  obtain ⟨vb, sb, eb⟩ := b
  simp only at hv; subst hv
  cases va <;> simp_all [Art.hashKey, Art.isVal, Gen.durationAttrs]

/-- different kinds are never equal -/
theorem kinds_differ (t : Time) (f g : Option Time) (n : Int) (u : DUnit) (s e : Nat) :
    (⟨.time t, s, e⟩ : Art).pyEq ⟨.interval f g, s, e⟩ = false ∧ (⟨.time t, s, e⟩ : Art).pyEq ⟨.duration n u, s, e⟩ = false ∧
    (⟨.interval f g, s, e⟩ : Art).pyEq ⟨.duration n u, s, e⟩ = false := by
  simp [Art.pyEq]

/-- the defect of DESIGN §8 D19 stays repaired: durations of different amount or unit are different, whatever their spans -/
theorem duration_eq_iff (n m : Int) (u w : DUnit) (s e s' e' : Nat) :
    (⟨.duration n u, s, e⟩ : Art).pyEq ⟨.duration m w, s', e'⟩ = true ↔ (n = m ∧ u = w) := by
  simp [Art.pyEq, Gen.durationAttrs]

/-- tokens, in contrast, are identified by span and pattern id (`RegexMatch._attrs`) -/
theorem tok_eq_iff (k1 k2 : Tok) (s e s' e' : Nat) : (⟨.tok k1, s, e⟩ : Art).pyEq ⟨.tok k2, s', e'⟩ = true ↔ (s = s' ∧ e = e' ∧ k1.id = k2.id) := by
  simp [Art.pyEq, and_assoc]

/-- canonical identity of a production element: span and pattern id for a token, the bare value otherwise -/
def akey (a : Art) : Sum (Nat × Nat × Nat) Val :=
  match a.v with | .tok k => .inl (a.ms, a.me, k.id) | v => .inr v

/-- Python `==` on production elements is equality of canonical identities — hence an equivalence relation -/
theorem pyEq_iff_akey (a b : Art) : a.pyEq b = true ↔ akey a = akey b := by
  obtain ⟨va, sa, ea⟩ := a
  obtain ⟨vb, sb, eb⟩ := b
  cases va <;> cases vb <;> simp [akey, Art.pyEq, time_eq_iff, optTime_eq_iff, Gen.intervalAttrs, Gen.durationAttrs, and_assoc]

theorem pyEq_refl (a : Art) : a.pyEq a = true := (pyEq_iff_akey a a).mpr rfl
theorem pyEq_symm (a b : Art) (h : a.pyEq b = true) : b.pyEq a = true := (pyEq_iff_akey b a).mpr ((pyEq_iff_akey a b).mp h).symm
theorem pyEq_trans (a b c : Art) (h1 : a.pyEq b = true) (h2 : b.pyEq c = true) : a.pyEq c = true :=
  (pyEq_iff_akey a c).mpr (((pyEq_iff_akey a b).mp h1).trans ((pyEq_iff_akey b c).mp h2))
/-- a value never compares equal to a pattern match -/
theorem pyEq_isVal (a b : Art) (h : a.pyEq b = true) : a.isVal = b.isVal := by
  obtain ⟨va, sa, ea⟩ := a
  obtain ⟨vb, sb, eb⟩ := b
  cases va <;> cases vb <;> simp_all [Art.pyEq, Art.isVal]

/-! ### the text form -/
/-- values the text form is claimed injective on -/
def PrintableV : Val → Prop
  | .tok _ => False
  | .time t => t.Printable
  | .interval f t => (∀ x, f = some x → x.Printable) ∧ (∀ x, t = some x → x.Printable)
  | .duration n _ => 0 ≤ n

/-- every well-formed resolution with a non-negative year is printable -/
theorem printable_of_ok (t : Time) (h : t.Ok) (hy : ∀ y, t.year = some y → 0 ≤ y) : t.Printable := ⟨h.nonNeg hy, h.pod⟩

theorem time_text_injective (a b : Time) (ha : a.Printable) (hb : b.Printable) (h : a.str = b.str) : a = b :=
  time_str_injective a b ha.1 hb.1 ha.2 hb.2 h

/-- **the bound-free text form (`nb_str`) is injective on values** -/
theorem text_form_injective (v w : Val) (hv : PrintableV v) (hw : PrintableV w) (h : v.nbStr = w.nbStr) : v = w := by
  have hl := congrArg String.toList h
  have ts : ∀ s : String, toString s = s := fun _ => rfl
  have l1 : "[]{".toList = ['[', ']', '{'] := by decide
  have l2 : "}".toList = ['}'] := by decide
  have c1 : "Time".toList = ['T', 'i', 'm', 'e'] := by decide
  have c2 : "Interval".toList = ['I', 'n', 't', 'e', 'r', 'v', 'a', 'l'] := by decide
  have c3 : "Duration".toList = ['D', 'u', 'r', 'a', 't', 'i', 'o', 'n'] := by decide
  simp only [Val.nbStr, ts, String.toList_append, l1, l2, List.append_assoc, List.cons_append, List.nil_append] at hl
  cases v with
  | tok _ => exact False.elim hv
  | time a =>
    cases w with
    | tok _ => exact False.elim hw
    | time b =>
      simp only [Val.cls, c1, List.cons_append, List.nil_append, List.cons.injEq, true_and] at hl
      have : a.str.toList = b.str.toList := List.append_cancel_right hl
      rw [time_text_injective a b hv hw (String.toList_inj.mp this)]
    | interval _ _ => simp [Val.cls, c1, c2] at hl
    | duration _ _ => simp [Val.cls, c1, c3] at hl
  | interval f t =>
    cases w with
    | tok _ => exact False.elim hw
    | time _ => simp [Val.cls, c1, c2] at hl
    | interval f' t' =>
      simp only [Val.cls, c2, List.cons_append, List.nil_append, List.cons.injEq, true_and] at hl
      have : (Val.interval f t).str.toList = (Val.interval f' t').str.toList := List.append_cancel_right hl
      obtain ⟨e1, e2⟩ := interval_str_injective f t f' t' hv.1 hv.2 hw.1 hw.2 (String.toList_inj.mp this)
      rw [e1, e2]
    | duration _ _ => simp [Val.cls, c2, c3] at hl
  | duration n u =>
    cases w with
    | tok _ => exact False.elim hw
    | time _ => simp [Val.cls, c1, c3] at hl
    | interval _ _ => simp [Val.cls, c2, c3] at hl
    | duration m x =>
      simp only [Val.cls, c3, List.cons_append, List.nil_append, List.cons.injEq, true_and] at hl
      have : (Val.duration n u).str.toList = (Val.duration m x).str.toList := List.append_cancel_right hl
      obtain ⟨e1, e2⟩ := duration_str_injective n m u x hv hw (String.toList_inj.mp this)
      rw [e1, e2]

example : (⟨.duration 1 .days, 0, 5⟩ : Art).pyEq ⟨.duration 2 .hours, 0, 5⟩ = false := by decide
example : (⟨.time { dow := some 0 }, 0, 5⟩ : Art).pyEq ⟨.time {}, 0, 5⟩ = false := by decide
example : (⟨.time { hour := some 17, minute := some 0 }, 0, 3⟩ : Art).pyEq ⟨.time { hour := some 17, minute := some 0 }, 7, 12⟩ = true := by decide

end QuickAdd.C18
