import QuickAdd.Model.Types
/-!
# C18 — resolutions compare and hash by value, independent of the character span

All statements are about the model's `pyEq` / `hashKey`, which iterate over the **generated** attribute lists
(`Gen.timeAttrs`, `Gen.intervalAttrs`, `Gen.durationAttrs` = the `_attrs` of the live classes): a change of an
attribute list in the source changes the data these proofs are checked against.
Partial: injectivity of the bound-free text form and the parse/print round trip are decided by the `types`
correspondence and the sweep over the field product, not by a theorem (string formatting lemmas are not built).
-/
namespace QuickAdd.C18
open QuickAdd

/-- two `Time`s are equal (Python `==`) exactly when all seven fields agree -/
theorem time_eq_iff (a b : Time) : a.pyEq b = true ↔ a = b := by
  constructor
  · intro h
    simp only [Time.pyEq, Gen.timeAttrs, List.all_cons, List.all_nil, Time.fieldEq, Bool.and_true, Bool.and_eq_true, beq_iff_eq] at h
    obtain ⟨h1, h2, h3, h4, h5, h6, h7⟩ := h
    cases a; cases b; simp_all
  · intro h; subst h
    simp [Time.pyEq, Gen.timeAttrs, Time.fieldEq]

theorem optTime_eq_iff (a b : Option Time) : optTimeEq a b = true ↔ a = b := by
  cases a <;> cases b <;> simp [optTimeEq, time_eq_iff]

/-- values (not tokens): equal exactly when of the same kind and denoting the same value — spans play no role -/
theorem art_eq_iff (a b : Art) (ha : a.isVal = true) (hb : b.isVal = true) : a.pyEq b = true ↔ a.v = b.v := by
  obtain ⟨va, sa, ea⟩ := a
  obtain ⟨vb, sb, eb⟩ := b
  cases va <;> cases vb <;> simp_all [Art.isVal, Art.pyEq, time_eq_iff, optTime_eq_iff, Gen.intervalAttrs, Gen.durationAttrs]

theorem eq_span_indep (v : Val) (s e s' e' : Nat) (hv : (⟨v, s, e⟩ : Art).isVal = true) : (⟨v, s, e⟩ : Art).pyEq ⟨v, s', e'⟩ = true := by
  rw [art_eq_iff _ _ hv (by simpa [Art.isVal] using hv)]

/-- equal values have equal hashes (the hash is taken over the same attribute tuple the comparison uses) -/
theorem hash_congr (a b : Art) (ha : a.isVal = true) (hb : b.isVal = true) (h : a.pyEq b = true) : a.hashKey = b.hashKey := by
  have hv := (art_eq_iff a b ha hb).mp h
  obtain ⟨va, sa, ea⟩ := a
  obtain ⟨vb, sb, eb⟩ := b
  simp only at hv; subst hv
  cases va <;> simp_all [Art.hashKey, Art.isVal, Gen.durationAttrs]

/-- different kinds are never equal -/
theorem kinds_differ (t : Time) (f g : Option Time) (n : Int) (u : DUnit) (s e : Nat) :
    (⟨.time t, s, e⟩ : Art).pyEq ⟨.interval f g, s, e⟩ = false ∧ (⟨.time t, s, e⟩ : Art).pyEq ⟨.duration n u, s, e⟩ = false ∧
    (⟨.interval f g, s, e⟩ : Art).pyEq ⟨.duration n u, s, e⟩ = false := by
  simp [Art.pyEq]

/-- the defect of DESIGN §8 D19 stays repaired: durations of different amount or unit are different, whatever their spans -/
theorem duration_eq_iff (n m : Int) (u w : DUnit) (s e s' e' : Nat) :
    (⟨.duration n u, s, e⟩ : Art).pyEq ⟨.duration m w, s', e'⟩ = true ↔ (n = m ∧ u = w) := by
  simp [Art.pyEq, Gen.durationAttrs]

/-- tokens, in contrast, are identified by span and pattern id (`RegexMatch._attrs`) -/
theorem tok_eq_iff (k1 k2 : Tok) (s e s' e' : Nat) : (⟨.tok k1, s, e⟩ : Art).pyEq ⟨.tok k2, s', e'⟩ = true ↔ (s = s' ∧ e = e' ∧ k1.id = k2.id) := by
  simp [Art.pyEq, and_assoc]

/-- canonical identity of a production element: span and pattern id for a token, the bare value otherwise -/
def akey (a : Art) : Sum (Nat × Nat × Nat) Val :=
  match a.v with | .tok k => .inl (a.ms, a.me, k.id) | v => .inr v

/-- Python `==` on production elements is equality of canonical identities — hence an equivalence relation -/
theorem pyEq_iff_akey (a b : Art) : a.pyEq b = true ↔ akey a = akey b := by
  obtain ⟨va, sa, ea⟩ := a
  obtain ⟨vb, sb, eb⟩ := b
  cases va <;> cases vb <;> simp [akey, Art.pyEq, time_eq_iff, optTime_eq_iff, Gen.intervalAttrs, Gen.durationAttrs, and_assoc]

theorem pyEq_refl (a : Art) : a.pyEq a = true := (pyEq_iff_akey a a).mpr rfl
theorem pyEq_symm (a b : Art) (h : a.pyEq b = true) : b.pyEq a = true := (pyEq_iff_akey b a).mpr ((pyEq_iff_akey a b).mp h).symm
theorem pyEq_trans (a b c : Art) (h1 : a.pyEq b = true) (h2 : b.pyEq c = true) : a.pyEq c = true :=
  (pyEq_iff_akey a c).mpr (((pyEq_iff_akey a b).mp h1).trans ((pyEq_iff_akey b c).mp h2))
/-- a value never compares equal to a pattern match -/
theorem pyEq_isVal (a b : Art) (h : a.pyEq b = true) : a.isVal = b.isVal := by
  obtain ⟨va, sa, ea⟩ := a
  obtain ⟨vb, sb, eb⟩ := b
  cases va <;> cases vb <;> simp_all [Art.pyEq, Art.isVal]

example : (⟨.duration 1 .days, 0, 5⟩ : Art).pyEq ⟨.duration 2 .hours, 0, 5⟩ = false := by decide
example : (⟨.time { dow := some 0 }, 0, 5⟩ : Art).pyEq ⟨.time {}, 0, 5⟩ = false := by decide
example : (⟨.time { hour := some 17, minute := some 0 }, 0, 3⟩ : Art).pyEq ⟨.time { hour := some 17, minute := some 0 }, 7, 12⟩ = true := by decide

end QuickAdd.C18
