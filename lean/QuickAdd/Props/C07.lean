import QuickAdd.Model.Rules
import QuickAdd.Lemmas.Cal
import QuickAdd.Props.C03
/-!
# C07 — ranges are built from their two ends, ordered, and wrap sensibly
-/
namespace QuickAdd.C07
open QuickAdd

def date3 (y m d : Int) : Time := { year := some y, month := some m, day := some d }
/-- lexicographic order on (y, m, d) -/
def lexLt (y1 m1 d1 y2 m2 d2 : Int) : Prop := y1 < y2 ∨ (y1 = y2 ∧ (m1 < m2 ∨ (m1 = m2 ∧ d1 < d2)))

/-- 'A to B' between two dates yields exactly [A, B] iff A is before B; otherwise the production fails -/
theorem dateDate_spec (y1 m1 d1 y2 m2 d2 : Int) :
    (lexLt y1 m1 d1 y2 m2 d2 → ruleDateDate (date3 y1 m1 d1) (date3 y2 m2 d2) = .ok (some (.interval (some (date3 y1 m1 d1)) (some (date3 y2 m2 d2))))) ∧
    (¬ lexLt y1 m1 d1 y2 m2 d2 → ruleDateDate (date3 y1 m1 d1) (date3 y2 m2 d2) = .ok none) := by
  unfold lexLt
  constructor
  · intro h
    simp only [ruleDateDate, date3, need, bind, Except.bind, pure, Except.pure]
    rcases h with h | ⟨h, h' | ⟨h', h''⟩⟩
    · have a : ¬ y1 > y2 := by omega
      have b : ¬ y1 = y2 := by omega
      simp [a, b]
    · have a : ¬ y1 > y2 := by omega
      have c : ¬ m1 > m2 := by omega
      have d : ¬ m1 = m2 := by omega
      simp [a, h, c, d]
    · have a : ¬ y1 > y2 := by omega
      have c : ¬ m1 > m2 := by omega
      have d : ¬ d1 ≥ d2 := by omega
      simp [a, h, c, h', d]
  · intro h
    simp only [ruleDateDate, date3, need, bind, Except.bind, pure, Except.pure]
    by_cases a : y1 > y2
    · simp [a]
    · by_cases b : y1 = y2
      · by_cases c : m1 > m2
        · simp [a, b, c]
        · by_cases d : m1 = m2
          · have e : d1 ≥ d2 := by
              by_cases e : d1 ≥ d2
              · exact e
              · exact absurd (Or.inr ⟨b, Or.inr ⟨d, by omega⟩⟩) h
            simp [a, b, c, d, e]
          · exact absurd (Or.inr ⟨b, Or.inl (by omega)⟩) h
      · exact absurd (Or.inl (by omega)) h

def tod (h : Int) (mi : Option Int) : Time := { hour := some h, minute := mi }

/-- clock–clock range: start = A; end = B, or B + 12 h exactly when both hours ≤ 12, A.hour > B.hour and the
    shifted end is after the start ("9-5" is 09:00–17:00); the arguments are never edited (new values) -/
theorem todtod_spec (h1 h2 : Int) (m1 m2 : Option Int) :
    ruleTODTOD (tod h1 m1) (tod h2 m2) =
      .ok (some (.interval (some (tod h1 m1))
        (some (if h1 > h2 ∧ h1 ≤ 12 ∧ h2 ≤ 12 ∧ (h2 + 12) * 60 + m2.getD 0 > h1 * 60 + m1.getD 0 then tod (h2 + 12) m2 else tod h2 m2)))) := by
  simp only [ruleTODTOD, tod, need, bind, Except.bind, pure, Except.pure]
  by_cases c : h1 > h2 ∧ h1 ≤ 12 ∧ h2 ≤ 12 ∧ (h2 + 12) * 60 + m2.getD 0 > h1 * 60 + m1.getD 0
  · obtain ⟨c1, c2, c3, c4⟩ := c
    simp [c1, c2, c3, c4]
  · simp only [c, if_false]
    have : (decide (h1 > h2) && (decide (h1 ≤ 12) && decide (h2 ≤ 12)) && decide ((h2 + 12) * 60 + m2.getD 0 > h1 * 60 + m1.getD 0)) = false := by
      cases hb : (decide (h1 > h2) && (decide (h1 ≤ 12) && decide (h2 ≤ 12)) && decide ((h2 + 12) * 60 + m2.getD 0 > h1 * 60 + m1.getD 0))
      · rfl
      · simp only [Bool.and_eq_true, decide_eq_true_eq] at hb
        exact absurd ⟨hb.1.1, hb.1.2.1, hb.1.2.2, hb.2⟩ c
    simp [this]

example : ruleTODTOD (tod 9 none) (tod 5 none) = .ok (some (.interval (some (tod 9 none)) (some (tod 17 none)))) := by decide
example : ruleTODTOD (tod 12 (some 15)) (tod 0 (some 15)) = .ok (some (.interval (some (tod 12 (some 15))) (some (tod 0 (some 15))))) := by decide

/-- date-less clock range with anchoring: start strictly after the reference minute and within 24 h of it;
    **start < end ≤ start + 24 h** — never inverted, never longer than a day; hours and minutes are the written ones -/
theorem latentInterval_spec (ts : Ts) (h1 m1 h2 m2 : Int)
    (r1 : 0 ≤ h1 ∧ h1 ≤ 23 ∧ 0 ≤ m1 ∧ m1 ≤ 59) (r2 : 0 ≤ h2 ∧ h2 ≤ 23 ∧ 0 ≤ m2 ∧ m2 ≤ 59)
    (hts : 0 ≤ ts.h ∧ ts.h ≤ 23 ∧ 0 ≤ ts.mi ∧ ts.mi ≤ 59) (o1 : 1 ≤ ts.date.ord) (o2 : ts.date.ord + 2 ≤ maxOrd) (hr : ts.date.inRange = true)
    (v : Val) (hv : latentInterval ts (tod h1 (some m1)) (tod h2 (some m2)) = .ok v) :
    ∃ a b : Date, v = .interval (some { year := some a.y, month := some a.m, day := some a.d, hour := some h1, minute := some m1 })
                                (some { year := some b.y, month := some b.m, day := some b.d, hour := some h2, minute := some m2 }) ∧
      ts.minutes < (⟨a, h1, m1⟩ : Ts).minutes ∧ (⟨a, h1, m1⟩ : Ts).minutes ≤ ts.minutes + 1440 ∧
      (⟨a, h1, m1⟩ : Ts).minutes < (⟨b, h2, m2⟩ : Ts).minutes ∧ (⟨b, h2, m2⟩ : Ts).minutes ≤ (⟨a, h1, m1⟩ : Ts).minutes + 1440 := by
  have hb1 : inDay h1 m1 = true := by simp [inDay]; omega
  have hb2 : inDay h2 m2 = true := by simp [inDay]; omega
  -- the three dates that can occur
  have A0 : (ts.date.addDays 0).Valid ∧ (ts.date.addDays 0).ord = ts.date.ord + 0 := addDays_spec ts.date 0 (by omega) (by omega)
  have A1 : (ts.date.addDays 1).Valid ∧ (ts.date.addDays 1).ord = ts.date.ord + 1 := addDays_spec ts.date 1 (by omega) (by omega)
  by_cases c1 : h1 * 60 + m1 ≤ ts.h * 60 + ts.mi
  · -- start tomorrow
    have B : ((ts.date.addDays 1).addDays 1).Valid ∧ ((ts.date.addDays 1).addDays 1).ord = (ts.date.addDays 1).ord + 1 :=
      addDays_spec _ 1 (by omega) (by omega)
    have rA := C03.inRange_of_ord _ A1.1 (by omega) (by omega)
    have rB := C03.inRange_of_ord _ B.1 (by omega) (by omega)
    by_cases c2 : h2 * 60 + m2 ≤ h1 * 60 + m1
    · refine ⟨ts.date.addDays 1, (ts.date.addDays 1).addDays 1, ?_, ?_⟩
      · simp [latentInterval, tod, need, hb1, hb2, c1, c2, dateOk, rA, rB, bind, Except.bind, pure, Except.pure] at hv
        exact hv.symm
      · simp only [Ts.minutes, A1.2, B.2]; omega
    · refine ⟨ts.date.addDays 1, ts.date.addDays 1, ?_, ?_⟩
      · simp [latentInterval, tod, need, hb1, hb2, c1, c2, dateOk, rA, bind, Except.bind, pure, Except.pure] at hv
        exact hv.symm
      · simp only [Ts.minutes, A1.2]; omega
  · have rA := C03.inRange_of_ord _ A0.1 (by omega) (by omega)
    have B : ((ts.date.addDays 0).addDays 1).Valid ∧ ((ts.date.addDays 0).addDays 1).ord = (ts.date.addDays 0).ord + 1 :=
      addDays_spec _ 1 (by omega) (by omega)
    have rB := C03.inRange_of_ord _ B.1 (by omega) (by omega)
    by_cases c2 : h2 * 60 + m2 ≤ h1 * 60 + m1
    · refine ⟨ts.date.addDays 0, (ts.date.addDays 0).addDays 1, ?_, ?_⟩
      · simp [latentInterval, tod, need, hb1, hb2, c1, c2, dateOk, rA, rB, bind, Except.bind, pure, Except.pure] at hv
        exact hv.symm
      · simp only [Ts.minutes, A0.2, B.2]; omega
    · refine ⟨ts.date.addDays 0, ts.date.addDays 0, ?_, ?_⟩
      · simp [latentInterval, tod, need, hb1, hb2, c1, c2, dateOk, rA, bind, Except.bind, pure, Except.pure] at hv
        exact hv.symm
      · simp only [Ts.minutes, A0.2]; omega

/-- before/until X and after/from X: half-open on the stated side, negation flips the side -/
theorem before_after_spec (k kn : Tok) (t : Time) (hk : k.has "not" = false) (hkn : kn.has "not" = true) :
    ruleBeforeTime k t = .ok (some (.interval none (some t))) ∧ ruleAfterTime k t = .ok (some (.interval (some t) none)) ∧
    ruleBeforeTime kn t = .ok (some (.interval (some t) none)) ∧ ruleAfterTime kn t = .ok (some (.interval none (some t))) := by
  simp [ruleBeforeTime, ruleAfterTime, hk, hkn, pure, Except.pure]

/-- dated clock range: the end is never before or at the start (the 12-hour shift is applied only if that puts the
    end after the start; otherwise the end moves to the next day) — the repaired behaviour of DESIGN §8 D26 -/
example : ruleDateInterval (date3 2020 12 12) (some (tod 12 (some 45))) (some (tod 0 (some 10))) =
    .ok (some (.interval (some { year := some 2020, month := some 12, day := some 12, hour := some 12, minute := some 45 })
                         (some { year := some 2020, month := some 12, day := some 13, hour := some 0, minute := some 10 }))) := by decide +kernel
example : ruleDateInterval (date3 2020 1 31) (some (tod 23 (some 30))) (some (tod 3 (some 35))) =
    .ok (some (.interval (some { year := some 2020, month := some 1, day := some 31, hour := some 23, minute := some 30 })
                         (some { year := some 2020, month := some 2, day := some 1, hour := some 3, minute := some 35 }))) := by decide +kernel
example : ruleDateInterval (date3 2020 12 12) (some (tod 9 none)) (some (tod 5 none)) =
    .ok (some (.interval (some { year := some 2020, month := some 12, day := some 12, hour := some 9 })
                         (some { year := some 2020, month := some 12, day := some 12, hour := some 17, minute := some 0 }))) := by decide +kernel

/-- a date with a clock time is its own `datetime` -/
theorem dt_of_datetime (D : Date) (h mi : Int) (hv : D.valid = true) (hr : D.inRange = true) (hh : 0 ≤ h ∧ h ≤ 23) (hm : 0 ≤ mi ∧ mi ≤ 59) :
    (Time.dt { year := some D.y, month := some D.m, day := some D.d, hour := some h, minute := some mi }) = .ok ⟨D, h, mi⟩ := by
  have a : (0 ≤ h) = True := by simp; omega
  have b : (h ≤ 23) = True := by simp; omega
  have c : (0 ≤ mi) = True := by simp; omega
  have d : (mi ≤ 59) = True := by simp; omega
  simp [Time.dt, Time.start, hv, hr, a, b, c, d, bind, Except.bind, pure, Except.pure]

/-- **dated clock range** (`<date> A - B`): the start is A on that date; the end is B on that date, B + 12 h (the "9-5" rule:
    both hours ≤ 12, A.hour ≥ B.hour, and the shifted end after the start) or B on the next day; in every case
    **start < end ≤ start + 24 h**, for every valid date up to year 9990 and every pair of clock times -/
theorem dateInterval_spec (D : Date) (hv : D.Valid) (hy : 1 ≤ D.y ∧ D.y ≤ 9990) (h1 m1 h2 m2 : Int)
    (r1 : 0 ≤ h1 ∧ h1 ≤ 23 ∧ 0 ≤ m1 ∧ m1 ≤ 59) (r2 : 0 ≤ h2 ∧ h2 ≤ 23 ∧ 0 ≤ m2 ∧ m2 ≤ 59) :
    ∃ e : Ts, ruleDateInterval (date3 D.y D.m D.d) (some (tod h1 (some m1))) (some (tod h2 (some m2))) =
        .ok (some (.interval (some { year := some D.y, month := some D.m, day := some D.d, hour := some h1, minute := some m1 }) (some (tsToTime e none)))) ∧
      (⟨D, h1, m1⟩ : Ts).minutes < e.minutes ∧ e.minutes ≤ (⟨D, h1, m1⟩ : Ts).minutes + 1440 ∧
      (e.minutes = (⟨D, h2, m2⟩ : Ts).minutes ∨ e.minutes = (⟨D, h2, m2⟩ : Ts).minutes + 720 ∨ e.minutes = (⟨D, h2, m2⟩ : Ts).minutes + 1440) := by
  have hvb : D.valid = true := (Date.valid_iff D).mpr hv
  have hrb : D.inRange = true := by simp [Date.inRange]; omega
  obtain ⟨o1, o2⟩ := ord_bounds_of_year D hv hy
  have hA := dt_of_datetime D h1 m1 hvb hrb ⟨r1.1, r1.2.1⟩ ⟨r1.2.2.1, r1.2.2.2⟩
  have hB := dt_of_datetime D h2 m2 hvb hrb ⟨r2.1, r2.2.1⟩ ⟨r2.2.2.1, r2.2.2.2⟩
  have tod1 : ({ hour := some h1, minute := some m1 } : Time).isTOD = true := by simp [Time.isTOD, Time.hasOnly, Gen.timeAttrs, Time.isSet]
  have tod2 : ({ hour := some h2, minute := some m2 } : Time).isTOD = true := by simp [Time.isTOD, Time.hasOnly, Gen.timeAttrs, Time.isSet]
  -- the three candidate ends
  have key : ∀ k : Int, (k = 720 ∨ k = 1440) →
      let e := (⟨D, h2, m2⟩ : Ts).addMinutes k
      e.minutes = (⟨D, h2, m2⟩ : Ts).minutes + k ∧ e.date.inRange = true := by
    intro k hk
    have hmin : (⟨D, h2, m2⟩ : Ts).minutes = (D.ord * 24 + h2) * 60 + m2 := rfl
    obtain ⟨s1, s2, s3, s4, s5, s6⟩ := addMinutes_spec ⟨D, h2, m2⟩ k (by rw [hmin]; omega) (by rw [hmin]; omega)
    refine ⟨s1, ?_⟩
    apply C03.inRange_of_ord _ s2
    · have : ((⟨D, h2, m2⟩ : Ts).addMinutes k).minutes = (((⟨D, h2, m2⟩ : Ts).addMinutes k).date.ord * 24 + ((⟨D, h2, m2⟩ : Ts).addMinutes k).h) * 60 + ((⟨D, h2, m2⟩ : Ts).addMinutes k).mi := rfl
      rw [s1, hmin] at this; omega
    · have : ((⟨D, h2, m2⟩ : Ts).addMinutes k).minutes = (((⟨D, h2, m2⟩ : Ts).addMinutes k).date.ord * 24 + ((⟨D, h2, m2⟩ : Ts).addMinutes k).h) * 60 + ((⟨D, h2, m2⟩ : Ts).addMinutes k).mi := rfl
      rw [s1, hmin] at this; omega
  have hminA : (⟨D, h1, m1⟩ : Ts).minutes = (D.ord * 24 + h1) * 60 + m1 := rfl
  have hminB : (⟨D, h2, m2⟩ : Ts).minutes = (D.ord * 24 + h2) * 60 + m2 := rfl
  by_cases hge : (⟨D, h1, m1⟩ : Ts).minutes ≥ (⟨D, h2, m2⟩ : Ts).minutes
  · cases hs : shift12 h1 h2 (⟨D, h1, m1⟩ : Ts).minutes (⟨D, h2, m2⟩ : Ts).minutes with
    | true =>
      have h95 : (⟨D, h2, m2⟩ : Ts).minutes + 12 * 60 > (⟨D, h1, m1⟩ : Ts).minutes := by
        simp only [shift12, Bool.and_eq_true, decide_eq_true_eq] at hs; exact hs.2
      obtain ⟨e1, e2⟩ := key 720 (Or.inl rfl)
      refine ⟨(⟨D, h2, m2⟩ : Ts).addMinutes 720, ?_, by rw [e1]; omega, by rw [e1]; omega, Or.inr (Or.inl e1)⟩
      simp [ruleDateInterval, date3, tod, tod1, tod2, hA, hB, hge, hs, dateOk, e2, bind, Except.bind, pure, Except.pure]
    | false =>
      obtain ⟨e1, e2⟩ := key 1440 (Or.inr rfl)
      refine ⟨(⟨D, h2, m2⟩ : Ts).addMinutes 1440, ?_, by rw [e1]; omega, by rw [e1]; omega, Or.inr (Or.inr e1)⟩
      simp [ruleDateInterval, date3, tod, tod1, tod2, hA, hB, hge, hs, dateOk, e2, bind, Except.bind, pure, Except.pure]
  · refine ⟨⟨D, h2, m2⟩, ?_, by omega, by rw [hminA, hminB] at *; omega, Or.inl rfl⟩
    simp [ruleDateInterval, date3, tod, tod1, tod2, hA, hB, hge, tsToTime, bind, Except.bind, pure, Except.pure]

/-- the "9-5" rule itself: the 12-hour shift is taken exactly when both hours are ≤ 12, the start hour is not before the end
    hour, and the shifted end is after the start -/
theorem shift12_iff (ha hb da db : Int) : shift12 ha hb da db = true ↔ (ha ≤ 12 ∧ hb ≤ 12 ∧ ha ≥ hb ∧ db + 720 > da) := by
  simp [shift12, and_assoc]

end QuickAdd.C07
