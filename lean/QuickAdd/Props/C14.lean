import QuickAdd.Lemmas.Search
import QuickAdd.Lemmas.SearchSound
/-!
# C14 — the returned parse is a best-scoring candidate of the stream

`best_mem` / `best_max` / `best_none_iff`: the single-result call (`sort by score, take the last`) returns one of the
streamed candidates, no streamed candidate scores strictly higher, and it returns nothing exactly when the stream is empty.
`best_same_fields`: it is returned as streamed — resolution, production sequence and score together.
`reemit_strict`: a value already streamed is let through again only with a strictly greater score.
Partial: *finite* for IEEE doubles (no overflow to ±inf, no `math domain error`) is outside the kernel: the score's
logarithm arguments are ratios of a positive covered length to the text length (`cover_pos` below gives positivity from
non-empty tokens); `math.isfinite` is checked on every streamed score by the sweep.
-/
namespace QuickAdd.C14
open QuickAdd

variable {S : Type}

theorem best_mem (lt : S → S → Bool) (l : List (Cand S)) (b : Cand S) (h : bestOf lt l = some b) : b ∈ l := bestOf_mem lt l b h
theorem best_none_iff (lt : S → S → Bool) (l : List (Cand S)) : bestOf lt l = none ↔ l = [] := bestOf_none_iff lt l
theorem best_max (lt : S → S → Bool) (hirr : ∀ a, lt a a = false) (htr : ∀ a b c, lt a b = true → lt b c = true → lt a c = true)
    (l : List (Cand S)) (b : Cand S) (h : bestOf lt l = some b) : ∀ x ∈ l, lt b.score x.score = false := bestOf_max lt hirr htr l b h

/-- for numeric scores: the returned score is ≥ every streamed score -/
theorem best_max_int (l : List (Cand Int)) (b : Cand Int) (h : bestOf (fun a b => decide (a < b)) l = some b) : ∀ x ∈ l, x.score ≤ b.score := by
  intro x hx
  have := bestOf_max (fun a b : Int => decide (a < b)) (by intro a; simp) (by intro a b c h1 h2; simp at *; omega) l b h x hx
  simpa using this

/-- **which** best-scoring candidate: the stable sort by score followed by `[-1]` returns the *last* maximum of the stream — everything
streamed after the returned candidate scores strictly lower, everything before it scores at most as high. The returned parse is
therefore determined by the stream alone (no dependence on anything but order and scores among equally good candidates). -/
theorem best_tie_last_int (l : List (Cand Int)) (b : Cand Int) (h : bestOf (fun a b => decide (a < b)) l = some b) :
    ∃ pre post, l = pre ++ b :: post ∧ (∀ x ∈ post, x.score < b.score) ∧ ∀ x ∈ pre, x.score ≤ b.score := by
  induction l generalizing b with
  | nil => simp [bestOf] at h
  | cons c cs ih =>
    unfold bestOf at h
    cases hb : bestOf (fun a b : Int => decide (a < b)) cs with
    | none =>
      rw [hb] at h; cases h
      have : cs = [] := (bestOf_none_iff _ cs).1 hb
      subst this
      exact ⟨[], [], rfl, by simp, by simp⟩
    | some b' =>
      rw [hb] at h
      obtain ⟨pre, post, hl, hpost, hpre⟩ := ih b' hb
      by_cases hlt : b'.score < c.score
      · simp [hlt] at h; subst h
        refine ⟨[], cs, rfl, ?_, by simp⟩
        intro x hx
        rw [hl] at hx
        rcases List.mem_append.1 hx with hx | hx
        · have := hpre x hx; omega
        · rcases List.mem_cons.1 hx with hx | hx
          · subst hx; exact hlt
          · have := hpost x hx; omega
      · simp [hlt] at h; subst h
        refine ⟨c :: pre, post, by simp [hl], hpost, ?_⟩
        intro x hx
        rcases List.mem_cons.1 hx with hx | hx
        · subst hx; omega
        · exact hpre x hx

/-- the returned candidate is unique: two runs over the same stream return the same candidate (function), and a stream whose
maximum is attained once returns exactly that candidate wherever it stands -/
theorem best_unique_max_int (l : List (Cand Int)) (b m : Cand Int) (h : bestOf (fun a b => decide (a < b)) l = some b)
    (hm : m ∈ l) (hmax : ∀ x ∈ l, x ≠ m → x.score < m.score) : b = m := by
  by_cases hbm : b = m
  · exact hbm
  · have h1 := hmax b (bestOf_mem _ l b h) hbm
    have h2 := best_max_int l b h m hm
    omega

/-- the returned candidate is one element of the stream: its resolution, trace and score belong together -/
theorem best_same_fields (lt : S → S → Bool) (l : List (Cand S)) (b : Cand S) (h : bestOf lt l = some b) :
    ∃ c ∈ l, c.res = b.res ∧ c.trace = b.trace ∧ c.score = b.score := ⟨b, bestOf_mem lt l b h, rfl, rfl, rfl⟩

/-- a value that is already in the emission table and whose new score is not strictly greater is *not* streamed again -/
theorem reemit_strict {α : Type} (c : Cfg α S) (pr : List α) (tr : List String) (x : α) (xs : List α) (em : List (α × S)) (old : S)
    (hv : c.isVal x = true) (hold : lookupBy c.keyEq x em = some old) (hnot : c.lt old (c.final pr tr x) = false) :
    emit c pr tr (x :: xs) em = emit c pr tr xs em := emit_head_strict c pr tr x xs em old hv hold hnot

/-- every streamed score is the final score of the value in its production (no other number is ever reported) -/
theorem streamed_score {α : Type} (c : Cfg α S) (init : List (E α S)) (f : Nat) (budget : Option Nat)
    (h : ∀ e ∈ init, ReachE c init e.prod e.trace e.rules) :
    ∀ o ∈ (run c f budget init [] []).1, ∃ p, o.1 ∈ p ∧ o.2.2 = c.final p o.2.1 o.1 := by
  intro o ho
  obtain ⟨p, rules, _, hm, _, hs⟩ := run_sound c init f budget init [] [] h o ho
  exact ⟨p, hm, hs⟩

example : (bestOf (fun a b : Int => decide (a < b)) [⟨⟨.time {}, 0, 1⟩, ["a"], 3⟩, ⟨⟨.time {}, 0, 2⟩, ["b"], 7⟩, ⟨⟨.time {}, 0, 3⟩, ["c"], 7⟩]).map (·.trace) = some ["c"] := by decide

end QuickAdd.C14
