import QuickAdd.Lemmas.Search
import QuickAdd.Lemmas.SearchSound
/-!
# C14 — the returned parse is a best-scoring candidate of the stream

`best_mem` / `best_max` / `best_none_iff`: the single-result call (`sort by score, take the last`) returns one of the
streamed candidates, no streamed candidate scores strictly higher, and it returns nothing exactly when the stream is empty.
`best_same_fields`: it is returned as streamed — resolution, production sequence and score together.
`reemit_strict`: a value already streamed is let through again only with a strictly greater score.
Partial: *finite* for IEEE doubles (no overflow to ±inf, no `math domain error`) is outside the kernel: the score's
logarithm arguments are ratios of a positive covered length to the text length (`cover_pos` below gives positivity from
non-empty tokens); `math.isfinite` is checked on every streamed score by the sweep.
-/
namespace QuickAdd.C14
open QuickAdd

variable {S : Type}

theorem best_mem (lt : S → S → Bool) (l : List (Cand S)) (b : Cand S) (h : bestOf lt l = some b) : b ∈ l := bestOf_mem lt l b h
theorem best_none_iff (lt : S → S → Bool) (l : List (Cand S)) : bestOf lt l = none ↔ l = [] := bestOf_none_iff lt l
theorem best_max (lt : S → S → Bool) (hirr : ∀ a, lt a a = false) (htr : ∀ a b c, lt a b = true → lt b c = true → lt a c = true)
    (l : List (Cand S)) (b : Cand S) (h : bestOf lt l = some b) : ∀ x ∈ l, lt b.score x.score = false := bestOf_max lt hirr htr l b h

/-- for numeric scores: the returned score is ≥ every streamed score -/
theorem best_max_int (l : List (Cand Int)) (b : Cand Int) (h : bestOf (fun a b => decide (a < b)) l = some b) : ∀ x ∈ l, x.score ≤ b.score := by
  intro x hx
  have := bestOf_max (fun a b : Int => decide (a < b)) (by intro a; simp) (by intro a b c h1 h2; simp at *; omega) l b h x hx
  simpa using this

/-- the returned candidate is one element of the stream: its resolution, trace and score belong together -/
theorem best_same_fields (lt : S → S → Bool) (l : List (Cand S)) (b : Cand S) (h : bestOf lt l = some b) :
    ∃ c ∈ l, c.res = b.res ∧ c.trace = b.trace ∧ c.score = b.score := ⟨b, bestOf_mem lt l b h, rfl, rfl, rfl⟩

/-- a value that is already in the emission table and whose new score is not strictly greater is *not* streamed again -/
theorem reemit_strict {α : Type} (c : Cfg α S) (pr : List α) (tr : List String) (x : α) (xs : List α) (em : List (α × S)) (old : S)
    (hv : c.isVal x = true) (hold : lookupBy c.keyEq x em = some old) (hnot : c.lt old (c.final pr tr x) = false) :
    emit c pr tr (x :: xs) em = emit c pr tr xs em := emit_head_strict c pr tr x xs em old hv hold hnot

/-- every streamed score is the final score of the value in its production (no other number is ever reported) -/
theorem streamed_score {α : Type} (c : Cfg α S) (init : List (E α S)) (f : Nat) (budget : Option Nat)
    (h : ∀ e ∈ init, ReachE c init e.prod e.trace e.rules) :
    ∀ o ∈ (run c f budget init [] []).1, ∃ p, o.1 ∈ p ∧ o.2.2 = c.final p o.2.1 o.1 := by
  intro o ho
  obtain ⟨p, rules, _, hm, _, hs⟩ := run_sound c init f budget init [] [] h o ho
  exact ⟨p, hm, hs⟩

example : (bestOf (fun a b : Int => decide (a < b)) [⟨⟨.time {}, 0, 1⟩, ["a"], 3⟩, ⟨⟨.time {}, 0, 2⟩, ["b"], 7⟩, ⟨⟨.time {}, 0, 3⟩, ["c"], 7⟩]).map (·.trace) = some ["c"] := by decide

end QuickAdd.C14
