import QuickAdd.Model.Rules
import QuickAdd.Lemmas.Cal
import QuickAdd.Props.C03
/-!
# C08 — durations keep amount and unit; 'X for N units' ends exactly N units later

`digitDuration_sem` / `halfDuration_sem`: amount and unit are the written ones (30 minutes / 12 hours for half).
`timeDuration_days`: `<date> for N days|nights` ends on the date whose ordinal is `ord start + N`
(`weeks`: `+ 7N`; months: month arithmetic with the day clipped to the month length), and the production
**fails** (no exception) when that date is outside the calendar.
`durationInterval_spec`: 'N days <date range>' is accepted iff the range is exactly N days long.
-/
namespace QuickAdd.C08
open QuickAdd

theorem digitDuration_sem (k : Tok) (n : Int) (u : String) (du : DUnit) (hnum : k.has "num" = true) (hn : grpInt k "num" = .ok n)
    (hu : Gen.durations.find? (fun u => k.has ("d_" ++ u)) = some u) (hdu : DUnit.ofName u = some du) :
    ruleDigitDuration k = .ok (some (.duration n du)) := by
  simp [ruleDigitDuration, hnum, hu, hdu, hn, bind, Except.bind, pure, Except.pure]

theorem halfDuration_sem (k : Tok) :
    (Gen.durations.find? (fun u => k.has ("d_" ++ u) && (u == "hours" || u == "days")) = some "hours" → ruleDurationHalf k = .ok (some (.duration 30 .minutes))) ∧
    (Gen.durations.find? (fun u => k.has ("d_" ++ u) && (u == "hours" || u == "days")) = some "days" → ruleDurationHalf k = .ok (some (.duration 12 .hours))) := by
  constructor <;> intro h <;> simp [ruleDurationHalf, h, pure, Except.pure]

def dateT (d : Date) : Time := { year := some d.y, month := some d.m, day := some d.d }

theorem dt_of_date (d : Date) (hv : d.valid = true) (hr : d.inRange = true) : (dateT d).dt = .ok ⟨d, 0, 0⟩ := by
  simp [Time.dt, Time.start, dateT, Time.hasPOD, Time.hasAtLeast, Time.isSet, hv, hr, bind, Except.bind, pure, Except.pure]

theorem start_of_date (d : Date) : (dateT d).start = .ok { year := some d.y, month := some d.m, day := some d.d, hour := some 0, minute := some 0 } := by
  simp [Time.start, dateT, Time.hasPOD, Time.hasAtLeast, Time.isSet, bind, Except.bind, pure, Except.pure]

/-- `<date> for N days` (also nights): ends exactly N days later by ordinal; fails cleanly outside the calendar -/
theorem timeDuration_days (d : Date) (n : Int) (hv : d.valid = true) (hr : d.inRange = true) (u : DUnit) (hu : u = .days ∨ u = .nights) :
    ruleTimeDuration (dateT d) n u =
      .ok (if (d.addDays n).inRange then some (.interval (some (dateT d)) (some (tsTime (d.addDays n)))) else none) := by
  have hdt := dt_of_date d hv hr
  have hst := start_of_date d
  rcases hu with hu | hu <;> subst hu <;>
    simp only [ruleTimeDuration, hst, hdt, bind, Except.bind, pure, Except.pure] <;>
    split <;> rfl

/-- … and that end date is the one with ordinal `ord start + N` -/
theorem timeDuration_days_ord (d : Date) (n : Int) (h1 : 1 ≤ d.ord + n) (h2 : d.ord + n ≤ maxOrd) :
    (d.addDays n).Valid ∧ (d.addDays n).ord = d.ord + n ∧ (d.addDays n).inRange = true := by
  obtain ⟨av, ao⟩ := addDays_spec d n h1 h2
  exact ⟨av, ao, C03.inRange_of_ord _ av (by omega) (by omega)⟩

theorem timeDuration_weeks (d : Date) (n : Int) (hv : d.valid = true) (hr : d.inRange = true) :
    ruleTimeDuration (dateT d) n .weeks =
      .ok (if (d.addDays (7 * n)).inRange then some (.interval (some (dateT d)) (some (tsTime (d.addDays (7 * n))))) else none) := by
  simp only [ruleTimeDuration, start_of_date d, dt_of_date d hv hr, bind, Except.bind, pure, Except.pure]
  split <;> rfl

/-- months: calendar month arithmetic, day clipped to the length of the target month (31 Jan + 1 month = 28/29 Feb) -/
theorem addMonthsClip_spec (d : Date) (n : Int) (hm : 1 ≤ d.m ∧ d.m ≤ 12) :
    let r := d.addMonthsClip n
    12 * r.y + (r.m - 1) = 12 * d.y + (d.m - 1) + n ∧ 1 ≤ r.m ∧ r.m ≤ 12 ∧ r.d = min d.d (dim r.y r.m) := by
  simp only [Date.addMonthsClip]
  refine ⟨by omega, by omega, by omega, trivial⟩

theorem timeDuration_months (d : Date) (n : Int) (hv : d.valid = true) (hr : d.inRange = true) :
    ruleTimeDuration (dateT d) n .months =
      .ok (if (d.addMonthsClip n).inRange then some (.interval (some (dateT d)) (some (tsTime (d.addMonthsClip n)))) else none) := by
  simp only [ruleTimeDuration, start_of_date d, dt_of_date d hv hr, bind, Except.bind, pure, Except.pure]
  split <;> rfl

/-- `<date-time> for N hours|minutes`: the end is the start instant moved by exactly 60·N resp. N minutes (`Ts.addMinutes`), written out
with all five fields; the production fails cleanly when that instant leaves the calendar. Holds for **every** value whose `dt` exists
(dates, date-times, dates with a part of day), every N (also negative) and both units. -/
theorem timeDuration_clock (t : Time) (dt : Ts) (n : Int) (u : DUnit) (hu : u = .hours ∨ u = .minutes) (hdt : t.dt = .ok dt) :
    ruleTimeDuration t n u =
      .ok (if (dt.addMinutes (if u = .hours then 60 * n else n)).date.inRange then
             some (.interval (some t) (some
               { year := some (dt.addMinutes (if u = .hours then 60 * n else n)).date.y, month := some (dt.addMinutes (if u = .hours then 60 * n else n)).date.m,
                 day := some (dt.addMinutes (if u = .hours then 60 * n else n)).date.d, hour := some (dt.addMinutes (if u = .hours then 60 * n else n)).h,
                 minute := some (dt.addMinutes (if u = .hours then 60 * n else n)).mi }))
           else none) := by
  have hs : ∃ s, t.start = .ok s := by
    cases hst : t.start with
    | ok s => exact ⟨s, rfl⟩
    | error e => simp [Time.dt, hst, bind, Except.bind] at hdt
  obtain ⟨s, hst⟩ := hs
  rcases hu with hu | hu <;> subst hu <;>
    simp only [ruleTimeDuration, hst, hdt, bind, Except.bind, pure, Except.pure] <;>
    simp <;> split <;> rfl

/-- … and that instant is exactly N units later on the minute axis, a valid calendar instant with clock fields in range -/
theorem timeDuration_clock_exact (dt : Ts) (k : Int) (h1 : 1 ≤ (dt.minutes + k) / 1440) (h2 : (dt.minutes + k) / 1440 ≤ maxOrd) :
    (dt.addMinutes k).minutes - dt.minutes = k ∧ (dt.addMinutes k).date.Valid ∧
      0 ≤ (dt.addMinutes k).h ∧ (dt.addMinutes k).h ≤ 23 ∧ 0 ≤ (dt.addMinutes k).mi ∧ (dt.addMinutes k).mi ≤ 59 := by
  obtain ⟨hm, hv, a, b, c, d⟩ := addMinutes_spec dt k h1 h2
  exact ⟨by omega, hv, a, b, c, d⟩

/-- 'N days|nights <date range>': accepted iff the range is exactly N days long (by ordinals) -/
theorem durationInterval_spec (a b : Date) (n : Int) (u : DUnit) (hu : u = .days ∨ u = .nights)
    (ha : a.valid = true) (hb : b.valid = true) (ra : a.inRange = true) (rb : b.inRange = true) :
    ruleDurationInterval n u (some (dateT a)) (some (dateT b)) =
      .ok (if b.ord - a.ord = n then some (.interval (some (dateT a)) (some (dateT b))) else none) := by
  have e : ((⟨b, 0, 0⟩ : Ts).minutes - (⟨a, 0, 0⟩ : Ts).minutes) / 1440 = b.ord - a.ord := by simp only [Ts.minutes]; omega
  rcases hu with hu | hu <;> subst hu <;>
    simp only [ruleDurationInterval, dt_of_date a ha ra, dt_of_date b hb rb, durDays, e, bind, Except.bind, pure, Except.pure] <;>
    split <;> simp_all

example : ruleTimeDuration (dateT ⟨2020, 1, 31⟩) 1 .months = .ok (some (.interval (some (dateT ⟨2020, 1, 31⟩)) (some (tsTime ⟨2020, 2, 29⟩)))) := by decide +kernel
example : ruleTimeDuration (dateT ⟨2019, 12, 31⟩) 1 .days = .ok (some (.interval (some (dateT ⟨2019, 12, 31⟩)) (some (tsTime ⟨2020, 1, 1⟩)))) := by decide +kernel
example : ruleTimeDuration (dateT ⟨2020, 12, 12⟩) 99999999 .days = .ok none := by decide +kernel
example : ruleTimeDuration { year := some 2019, month := some 12, day := some 31, hour := some 23, minute := some 30 } 2 .hours =
    .ok (some (.interval (some { year := some 2019, month := some 12, day := some 31, hour := some 23, minute := some 30 })
      (some { year := some 2020, month := some 1, day := some 1, hour := some 1, minute := some 30 }))) := by decide +kernel
example : ruleDurationInterval 3 .days (some (dateT ⟨2020, 11, 15⟩)) (some (dateT ⟨2020, 11, 18⟩)) = .ok (some (.interval (some (dateT ⟨2020, 11, 15⟩)) (some (dateT ⟨2020, 11, 18⟩)))) := by decide +kernel
example : ruleDurationInterval 1 .days (some (dateT ⟨2020, 11, 15⟩)) (some (dateT ⟨2020, 12, 16⟩)) = .ok none := by decide +kernel

end QuickAdd.C08
