import QuickAdd.Model.Search
import QuickAdd.Lemmas.Regex
/-!
# C10 — subject and labels partition the non-time words: nothing invented or leaked

* `subject_sublist`: the subject's words are a sublist of the words of the (label-free, normalised) text — original order,
  nothing invented;
* `subject_keeps_unused` / `subject_drops_used`: a word is kept iff it is not a word of any token of the initial stack;
* `labels_no_hash`: labels never contain '#'; `labels_from_text`: every label is a '#…' match of the text with the '#' removed;
* `label_patterns_nonempty`: the three `re` literals cannot match the empty string (so `split`/`sub`/`findall` are the plain
  leftmost non-overlapping scans the model uses);
* `nomatch_path`: without a resolution, subject and labels are computed from the *same* normalised text by the same
  splitting (the repaired behaviour of DESIGN §8 D15): the no-match subject is `subjectOf` with no tokens.
The `re` literals are generated from the syntax tree of `ctparse.py`; their agreement on valid hashtags
(`#[A-Za-z_][A-Za-z0-9_-]*`) is exercised by the `search` correspondence (labels / nomatch ops) and the sweep.
-/
namespace QuickAdd.C10
open QuickAdd

/-- the subject's words, in order, are a sublist of the text's words -/
theorem subject_sublist (txt : List Nat) (tokenTexts : List (List Nat)) :
    ((reSplit (reLit "_ctparse" "split") txt).filter fun w => !(usedWords tokenTexts).contains w).Sublist (reSplit (reLit "_ctparse" "split") txt) :=
  List.filter_sublist

/-- a word that is not a word of any token text is kept -/
theorem subject_keeps_unused (txt : List Nat) (tokenTexts : List (List Nat)) (w : List Nat)
    (hw : w ∈ reSplit (reLit "_ctparse" "split") txt) (hu : w ∉ usedWords tokenTexts) :
    w ∈ (reSplit (reLit "_ctparse" "split") txt).filter fun w => !(usedWords tokenTexts).contains w := by
  have : (usedWords tokenTexts).contains w = false := by simpa using hu
  rw [List.mem_filter]; exact ⟨hw, by rw [this]; rfl⟩

/-- a word of a token text of the initial stack never appears in the subject -/
theorem subject_drops_used (txt : List Nat) (tokenTexts : List (List Nat)) (w : List Nat) (hu : w ∈ usedWords tokenTexts) :
    w ∉ (reSplit (reLit "_ctparse" "split") txt).filter fun w => !(usedWords tokenTexts).contains w := by
  have : (usedWords tokenTexts).contains w = true := by simpa using hu
  rw [List.mem_filter]; intro h; rw [this] at h; simp at h

/-- **every occurrence** of an unused word is kept: it occurs in the subject's word list exactly as often as in the text
(a word written twice stays written twice), and a used word occurs zero times -/
theorem subject_count (txt : List Nat) (tokenTexts : List (List Nat)) (w : List Nat) :
    ((reSplit (reLit "_ctparse" "split") txt).filter fun w => !(usedWords tokenTexts).contains w).count w =
      if w ∈ usedWords tokenTexts then 0 else (reSplit (reLit "_ctparse" "split") txt).count w := by
  by_cases hu : w ∈ usedWords tokenTexts
  · rw [if_pos hu]
    exact List.count_eq_zero.2 (subject_drops_used txt tokenTexts w hu)
  · rw [if_neg hu]
    have hc : (usedWords tokenTexts).contains w = false := by simpa using hu
    exact List.count_filter (by rw [hc]; rfl)

/-- when no word of the text is used by a token, the subject's word list **is** the text's word list (nothing dropped, merged or reordered) -/
theorem subject_all_of_unused (txt : List Nat) (tokenTexts : List (List Nat))
    (h : ∀ w ∈ reSplit (reLit "_ctparse" "split") txt, w ∉ usedWords tokenTexts) :
    ((reSplit (reLit "_ctparse" "split") txt).filter fun w => !(usedWords tokenTexts).contains w) = reSplit (reLit "_ctparse" "split") txt := by
  rw [List.filter_eq_self]
  intro w hw
  have : (usedWords tokenTexts).contains w = false := by simpa using h w hw
  rw [this]; rfl

/-- the decision for a word does not depend on where it stands or on its neighbours: filtering commutes with concatenation of word lists -/
theorem subject_local (a b : List (List Nat)) (tokenTexts : List (List Nat)) :
    (a ++ b).filter (fun w => !(usedWords tokenTexts).contains w) =
      a.filter (fun w => !(usedWords tokenTexts).contains w) ++ b.filter (fun w => !(usedWords tokenTexts).contains w) := List.filter_append ..

/-- `subjectOf` is the blank-join of exactly that filtered list -/
theorem subject_def (txt : List Nat) (tokenTexts : List (List Nat)) :
    subjectOf txt tokenTexts = joinBlank ((reSplit (reLit "_ctparse" "split") txt).filter fun w => !(usedWords tokenTexts).contains w) := rfl

/-- labels never contain '#' -/
theorem labels_no_hash (txt : List Nat) (l : List Nat) (h : l ∈ getLabels txt) : 35 ∉ l := by
  simp only [getLabels, List.mem_map] at h
  obtain ⟨m, _, rfl⟩ := h
  simp [List.mem_filter]

/-- every label is a `findall` match of the text with '#' removed, in the order of the matches -/
theorem labels_from_text (txt : List Nat) : getLabels txt = (reFindall (reLit "_get_labels" "findall") txt).map fun l => l.filter (· != 35) := rfl

/-- the shipped `re` literals (label extraction, label removal, word splitting) cannot match the empty string -/
theorem label_patterns_nonempty :
    0 < minLen (reLit "_get_labels" "findall") ∧ 0 < minLen (reLit "_ctparse" "sub") ∧ 0 < minLen (reLit "_ctparse" "split") ∧
    0 < minLen (reLit "ctparse" "sub") ∧ 0 < minLen (reLit "ctparse" "split") := by decide +kernel

/-- both paths use the same literals: removal and splitting patterns of `ctparse()` equal those of `_ctparse()` -/
theorem same_literals :
    ((Gen.reLiterals.find? (fun e => e.1 == "ctparse" && e.2.1 == "sub")).map (·.2.2.2) =
      (Gen.reLiterals.find? (fun e => e.1 == "_ctparse" && e.2.1 == "sub")).map (·.2.2.2)) ∧
    ((Gen.reLiterals.find? (fun e => e.1 == "ctparse" && e.2.1 == "split")).map (·.2.2.2) =
      (Gen.reLiterals.find? (fun e => e.1 == "_ctparse" && e.2.1 == "split")).map (·.2.2.2)) := by decide +kernel

/-- no-match path: labels from the normalised text; subject = words of the normalised, label-free text (nothing dropped) -/
theorem nomatch_path (raw : List Nat) :
    (noMatchSubject raw).2 = getLabels (preprocess raw) ∧
    (noMatchSubject raw).1 = joinBlank (reSplit (reLit "ctparse" "split") (stripBy isPySpace (reRemove (reLit "ctparse" "sub") (preprocess raw)))) := ⟨rfl, rfl⟩

/-- concrete instance: hashtags with dashes and digits, separators, repeated words -/
example : (getLabels ("call #follow-up bob #b_2".toList.map Char.toNat)).map (fun l => String.ofList (l.map Char.ofNat)) = ["follow-up", "b_2"] := by decide +kernel
example : String.ofList ((noMatchSubject ("foo, bar  #x  (baz)".toList.map Char.toNat)).1.map Char.ofNat) = "foo bar baz" := by decide +kernel

/-- the repaired splitting (DESIGN §8 D30): the words of a dashed match are recognised as used, so none of them stays in the subject -/
example : String.ofList ((subjectOf ("lunch 12-12-2020 - 14-12-2020 xyzzy".toList.map Char.toNat)
    ["12-12-2020".toList.map Char.toNat, "-".toList.map Char.toNat, "14-12-2020".toList.map Char.toNat]).map Char.ofNat) = "lunch xyzzy" := by decide +kernel
/-- used words are obtained by the same splitting as the words of the text (by definition; the statement the repair restores) -/
theorem used_words_same_split (tokenTexts : List (List Nat)) (w : List Nat) :
    w ∈ usedWords tokenTexts ↔ ∃ t ∈ tokenTexts, w ∈ reSplit (reLit "_ctparse" "split") t ∧ w ≠ [] := by
  unfold usedWords
  simp only [List.mem_flatMap, List.mem_filter, Bool.not_eq_true', List.isEmpty_eq_false_iff]

end QuickAdd.C10
