import QuickAdd.Lemmas.Types
import QuickAdd.Lemmas.Cal
import QuickAdd.Lemmas.Regex
import QuickAdd.Gen.RegexTable
import QuickAdd.Lemmas.RegexGroups
import QuickAdd.Lemmas.Capture
import QuickAdd.Props.C03
import QuickAdd.Props.C06
import QuickAdd.Lemmas.SearchWF
import QuickAdd.Lemmas.SpanReach
import QuickAdd.Props.C15
/-!
# C02 — every resolution is a well-formed calendar value; accessors never fail

* `wrapper_calendar`: whatever a registered rule returns has passed the calendar check — its day exists in its month
  (and year, when present) — for **every** rule, argument tuple and reference time (the repaired guard of DESIGN §8 D2);
* `accessors_total`: on a well-formed `Time` the accessors `start`, `end` never fail, and `dt` never fails when a date is present;
  `interval_accessors_total` likewise;
* `clock_rules_wf`: the clock productions keep hour 0–23 and minute 0–59 (am/pm shift, hour + part of day, quarter/half,
  implicit am→pm of ranges);
* `copy_rules_wf`: the field-copying productions keep field-wise well-formedness;
* `latent_wf`: latent anchoring of a well-formed clock time yields a well-formed, existing calendar date with that clock time;
* `span_wrapper` / `untrimmed_match_nonempty`: a rule result spans first-to-last argument; no pattern yields an empty match.
* `digit_groups_in_range` + `capture_in_range`: for **every** shipped pattern, **every** text and every match, the text
  captured by a group named day / month / hour / minute / year reads (`int()`) as a number in 1–31 / 1–12 / 0–23 / 0–59 /
  0–2999 — or contains one of the listed digits this interpreter's `int()` rejects (known finding D6).  Proved by language
  soundness of the matcher with captures (`mtc_sound`), the finite language of each group body — enumerated modulo the decimal
  value of each digit (`canonDigit`, `langOfQ_complete`: some 650 code points are digits, a four-digit group has too many
  words otherwise) — and a kernel evaluation over the regenerated table; `dom1_day_range` carries it to a production, and
  `C01.reach_year` to every reachable production (no time value with a year above 9990).
Partial, named: start < end of the *trimmed* token span relies on no pattern matching only blanks, which the sweep checks on
every candidate.
-/
namespace QuickAdd.C02
open QuickAdd

/-- every value returned by a registered rule passed `_is_valid_calendar` -/
theorem wrapper_calendar (name : String) (ts : Ts) (args : List Art) (a : Art) (h : applyRule name ts args = .ok (some a)) : valCalOk a.v = true := by
  unfold applyRule at h
  simp only [bind, Except.bind, pure, Except.pure] at h
  split at h
  · simp at h
  · split at h
    · simp at h
    · rename_i v _
      split at h
      · simp at h
      · rename_i hc
        split at h
        · simp at h; subst h; simpa using hc
        · simp at h

theorem podlookup_of_wf (t : Time) (h : t.WFf = true) (p : String) (hp : t.pod = some p) : ∃ hrs, podLookup p = some hrs := by
  simp only [Time.WFf, Bool.and_eq_true, hp] at h
  cases hq : podLookup p with
  | none => simp [hq] at h
  | some hrs => exact ⟨hrs, rfl⟩

/-- `start` and `end` never fail on a well-formed `Time` -/
theorem accessors_total (t : Time) (h : t.WFf = true) : (∃ s, t.start = .ok s) ∧ (∃ e, t.end_ = .ok e) := by
  constructor
  · unfold Time.start
    by_cases hc : (t.hour.isNone && t.hasPOD) = true
    · simp only [hc, if_true]
      cases hp : t.pod with
      | none => simp [Time.hasPOD, Time.hasAtLeast, Time.isSet, hp] at hc
      | some p =>
        obtain ⟨hrs, hl⟩ := podlookup_of_wf t h p hp
        simp [hl, bind, Except.bind, pure, Except.pure]
    · simp [hc, bind, Except.bind, pure, Except.pure]
  · unfold Time.end_
    by_cases hc : (t.hour.isNone && t.hasPOD) = true
    · simp only [hc, if_true]
      cases hp : t.pod with
      | none => simp [Time.hasPOD, Time.hasAtLeast, Time.isSet, hp] at hc
      | some p =>
        obtain ⟨hrs, hl⟩ := podlookup_of_wf t h p hp
        simp [hl, bind, Except.bind, pure, Except.pure]
    · simp [hc, bind, Except.bind, pure, Except.pure]

/-- `Interval.start` / `Interval.end`: the end-point accessors (or `None`) never fail -/
theorem interval_accessors_total (f t : Option Time) (h : (Val.interval f t).WF = true) :
    (∀ a, f = some a → ∃ s, a.start = .ok s) ∧ (∀ a, t = some a → ∃ e, a.end_ = .ok e) := by
  simp only [Val.WF, Bool.and_eq_true] at h
  constructor
  · intro a ha; subst ha
    have : a.WFf = true := by simp only [Time.WF, Bool.and_eq_true] at h; exact h.1.1
    exact (accessors_total a this).1
  · intro a ha; subst ha
    have : a.WFf = true := by simp only [Time.WF, Bool.and_eq_true] at h; exact h.2.1
    exact (accessors_total a this).2

theorem inR_some {lo hi x : Int} : inR lo hi (some x) = true ↔ lo ≤ x ∧ x ≤ hi := by simp [inR]
theorem inR_none {lo hi : Int} : inR lo hi none = true := rfl

theorem ampm_wf (h : Int) (mi : Option Int) (hh : 0 ≤ h ∧ h ≤ 23) (hm : inR 0 59 mi = true) (ampm : Option (List Nat)) :
    inR 0 23 (applyAmPm { hour := some h, minute := mi } ampm).hour = true ∧ inR 0 59 (applyAmPm { hour := some h, minute := mi } ampm).minute = true := by
  unfold applyAmPm
  split
  · exact ⟨inR_some.mpr hh, hm⟩
  · cases ampm with
    | none => exact ⟨inR_some.mpr hh, hm⟩
    | some s =>
      simp only
      split
      · exact ⟨inR_some.mpr (by omega), hm⟩
      · split
        · exact ⟨inR_some.mpr hh, hm⟩
        · split
          · rename_i hc
            simp only [Bool.and_eq_true, decide_eq_true_eq] at hc
            exact ⟨inR_some.mpr (by omega), hm⟩
          · exact ⟨inR_some.mpr hh, hm⟩

/-- clock productions keep hours in 0–23 and minutes in 0–59 -/
theorem clock_rules_wf (h : Int) (mi : Option Int) (hh : 0 ≤ h ∧ h ≤ 23) (hm : inR 0 59 mi = true) :
    (∀ p v, ruleTODPOD { hour := some h, minute := mi } { pod := some p } = .ok (some (.time v)) → inR 0 23 v.hour = true ∧ inR 0 59 v.minute = true) ∧
    (∀ v, ruleQuarterBeforeHH { hour := some h, minute := mi } = .ok (some (.time v)) → inR 0 23 v.hour = true ∧ inR 0 59 v.minute = true) ∧
    (∀ v, ruleQuarterAfterHH { hour := some h, minute := mi } = .ok (some (.time v)) → inR 0 23 v.hour = true ∧ inR 0 59 v.minute = true) ∧
    (∀ v, ruleHalfBeforeHH { hour := some h, minute := mi } = .ok (some (.time v)) → inR 0 23 v.hour = true ∧ inR 0 59 v.minute = true) ∧
    (∀ v, ruleHalfAfterHH { hour := some h, minute := mi } = .ok (some (.time v)) → inR 0 23 v.hour = true ∧ inR 0 59 v.minute = true) := by
  refine ⟨?_, ?_, ?_, ?_, ?_⟩
  · intro p v hv
    simp only [ruleTODPOD, need, needS, bind, Except.bind, pure, Except.pure] at hv
    split at hv
    · rename_i hc
      simp only [Bool.and_eq_true, decide_eq_true_eq] at hc
      simp at hv; subst hv
      exact ⟨inR_some.mpr (by omega), hm⟩
    · split at hv
      · simp at hv
      · simp at hv; subst hv; exact ⟨inR_some.mpr hh, hm⟩
  · intro v hv
    simp only [ruleQuarterBeforeHH, need, bind, Except.bind, pure, Except.pure] at hv
    split at hv
    · simp at hv
    · split at hv
      · rename_i hc; simp at hv; subst hv; exact ⟨inR_some.mpr (by omega), inR_some.mpr (by omega)⟩
      · simp at hv; subst hv; exact ⟨inR_some.mpr (by omega), inR_some.mpr (by omega)⟩
  · intro v hv
    simp only [ruleQuarterAfterHH, pure, Except.pure] at hv
    split at hv
    · simp at hv
    · simp at hv; subst hv; exact ⟨inR_some.mpr hh, inR_some.mpr (by omega)⟩
  · intro v hv
    simp only [ruleHalfBeforeHH, need, bind, Except.bind, pure, Except.pure] at hv
    split at hv
    · simp at hv
    · split at hv
      · rename_i hc; simp at hv; subst hv; exact ⟨inR_some.mpr (by omega), inR_some.mpr (by omega)⟩
      · simp at hv; subst hv; exact ⟨inR_some.mpr (by omega), inR_some.mpr (by omega)⟩
  · intro v hv
    simp only [ruleHalfAfterHH, pure, Except.pure] at hv
    split at hv
    · simp at hv
    · simp at hv; subst hv; exact ⟨inR_some.mpr hh, inR_some.mpr (by omega)⟩

/-- implicit am→pm of a clock range keeps the end hour in 0–23 -/
theorem todtod_wf (h1 h2 : Int) (m1 m2 : Option Int) (r1 : 0 ≤ h1 ∧ h1 ≤ 23) (r2 : 0 ≤ h2 ∧ h2 ≤ 23) (f t : Option Time)
    (hv : ruleTODTOD { hour := some h1, minute := m1 } { hour := some h2, minute := m2 } = .ok (some (.interval f t))) :
    ∀ a, t = some a → inR 0 23 a.hour = true := by
  simp only [ruleTODTOD, need, bind, Except.bind, pure, Except.pure] at hv
  split at hv
  · rename_i hc
    simp only [Bool.and_eq_true, decide_eq_true_eq] at hc
    simp at hv; obtain ⟨_, rfl⟩ := hv
    intro a ha; simp at ha; subst ha
    exact inR_some.mpr (by omega)
  · simp at hv; obtain ⟨_, rfl⟩ := hv
    intro a ha; simp at ha; subst ha; exact inR_some.mpr r2

/-- the field-copying productions keep field-wise well-formedness -/
theorem copy_rules_wf (a b : Time) (ha : a.WFf = true) (hb : b.WFf = true) :
    (∀ v, ruleDOMMonth a b = .ok (some (.time v)) → v.WFf = true) ∧ (∀ v, ruleMonthDOM a b = .ok (some (.time v)) → v.WFf = true) ∧
    (∀ v, ruleDOYYear a b = .ok (some (.time v)) → v.WFf = true) ∧ (∀ v, ruleDOWPOD a b = .ok (some (.time v)) → v.WFf = true) ∧
    (∀ v, ruleDOWDate a b = .ok (some (.time v)) → v.WFf = true) ∧ (∀ v, ruleDateTOD a b = .ok (some (.time v)) → v.WFf = true) ∧
    (∀ v, ruleDatePOD a b = .ok (some (.time v)) → v.WFf = true) := by
  simp only [Time.WFf, Bool.and_eq_true] at ha hb
  obtain ⟨⟨⟨⟨⟨⟨a1, a2⟩, a3⟩, a4⟩, a5⟩, a6⟩, a7⟩ := ha
  obtain ⟨⟨⟨⟨⟨⟨b1, b2⟩, b3⟩, b4⟩, b5⟩, b6⟩, b7⟩ := hb
  refine ⟨?_, ?_, ?_, ?_, ?_, ?_, ?_⟩ <;> intro v hv <;>
    simp only [ruleDOMMonth, ruleMonthDOM, ruleDOYYear, ruleDOWPOD, ruleDOWDate, ruleDateTOD, ruleDatePOD, pure, Except.pure] at hv <;>
    (simp only [Except.ok.injEq, Option.some.injEq, Val.time.injEq] at hv; subst hv; simp only [Time.WFf, Bool.and_eq_true]; simp [*, inR_none])

/-- latent anchoring of a clock time: a real calendar date, the same clock time, all fields in range -/
theorem latent_wf (ts : Ts) (h mi : Int) (hh : 0 ≤ h ∧ h ≤ 23) (hm : 0 ≤ mi ∧ mi ≤ 59)
    (hts : 0 ≤ ts.h ∧ ts.h ≤ 23 ∧ 0 ≤ ts.mi ∧ ts.mi ≤ 59) (h1 : 1 ≤ ts.date.ord) (h2 : ts.date.ord + 1 ≤ maxOrd) (hr : ts.date.inRange = true)
    (hv : ts.date.Valid) (t : Time) (ht : latentTod ts { hour := some h, minute := some mi } = .ok t) :
    ∃ d : Date, d.Valid ∧ d.inRange = true ∧ t = { year := some d.y, month := some d.m, day := some d.d, hour := some h, minute := some mi } := by
  have hb : inDay h mi = true := by simp [inDay]; omega
  by_cases hc : h * 60 + mi ≤ ts.h * 60 + ts.mi
  · obtain ⟨av, ao⟩ := addDays_spec ts.date 1 (by omega) (by omega)
    have hr' := C03.inRange_of_ord _ av (by omega) (by omega)
    refine ⟨ts.date.addDays 1, av, hr', ?_⟩
    simp [latentTod, need, hb, hc, dateOk, hr', bind, Except.bind, pure, Except.pure] at ht
    exact ht.symm
  · refine ⟨ts.date, hv, hr, ?_⟩
    simp [latentTod, need, hb, hc, dateOk, hr, bind, Except.bind, pure, Except.pure] at ht
    exact ht.symm

/-- no pattern of the shipped table yields an empty (untrimmed) match, on any text -/
theorem untrimmed_match_nonempty (p : Gen.Pat) (hp : 0 < minLen p.rx) (s : List Nat) (m : Nat × Nat × Caps) (hm : m ∈ findAll Gen.rxTabs p.rx s) : m.1 < m.2.1 :=
  findAll_nonempty Gen.rxTabs p.rx hp s m hm

/-! ### digit groups of the shipped patterns only capture in-range numbers (`Lemmas/Capture`) -/
/-- kernel evaluation over the regenerated table: all words (modulo the value of each digit) of the finite language of every
    day/month/hour/minute/year group body -/
theorem digit_groups_in_range : tableDigitCheck = true := QuickAdd.digit_groups_in_range

/-- for every shipped pattern, every text and every match: what a day/month/hour/minute/year group captured is in range -/
theorem capture_in_range (p : Gen.Pat) (hp : p ∈ Gen.table) (n : String) (i : Nat) (hn : (n, i) ∈ p.names) (lo hi : Int) (hf : fieldRange n = some (lo, hi))
    (txt : List Nat) (m : Nat × Nat × Caps) (hm : m ∈ findAll Gen.rxTabs p.rx txt) (s e : Nat) (hc : (i, s, e) ∈ m.2.2) :
    intInRange lo hi ((txt.drop s).take (e - s)) = true :=
  QuickAdd.capture_in_range p hp n i hn lo hi hf txt m hm s e hc

/-- the year groups are among the checked ones -/
example : fieldRange "year" = some (0, 2999) := by decide

/-- carried to a production: if the token's `day` group holds such a captured text, `ruleDOM1` yields a day in 1–31
    (or raises on the listed exotic digits, never an out-of-range day) -/
theorem dom1_day_range (k : Tok) (w : List Nat) (hg : k.group "day" = some w) (hr : intInRange 1 31 w = true) :
    (∃ d, ruleDOM1 k = .ok (some (.time { day := some d })) ∧ 1 ≤ d ∧ d ≤ 31) ∨ (∃ e, ruleDOM1 k = .error e ∧ (w.any fun c => inRanges Gen.intUnknown c) = true) := by
  unfold intInRange at hr
  cases hp : pyInt w with
  | ok d =>
    simp only [hp, Bool.and_eq_true, decide_eq_true_eq] at hr
    left; exact ⟨d, by simp [ruleDOM1, grpInt, hg, hp, bind, Except.bind, pure, Except.pure], hr.1, hr.2⟩
  | error e =>
    simp only [hp] at hr
    right; exact ⟨e, by simp [ruleDOM1, grpInt, hg, hp, bind, Except.bind], hr⟩

/-- anchoring keeps the span -/
theorem latent_keeps_span (ts : Ts) (a b : Art) (h : applyLatent ts a = .ok b) : b.ms = a.ms ∧ b.me = a.me := C06.latent_span ts a b h

example : (Time.WF { year := some 2019, month := some 2, day := some 29 }) = false := by decide
example : (Time.WF { month := some 2, day := some 29 }) = true := by decide
example : (Time.WF { hour := some 24 }) = false := by decide
example : applyRule "ruleDDMMYYYY" ⟨⟨2018, 3, 7⟩, 12, 43⟩ [⟨.tok { id := 126, caps := [("day", [50, 57]), ("month", [48, 50]), ("year", [49, 57])] }, 0, 8⟩] = .ok none := by decide +kernel

/-! ### end to end: every candidate of every parse (model level) -/

/-- the calendar check is an invariant of reachable productions: pattern matches pass trivially, every rule result passed it -/
theorem reach_cal {S : Type} (sc : Scorer S) (ts : Ts) (depth : Nat) (txt : List Nat) (init : List (E Art S))
    (hinit : ∀ e ∈ init, ∀ a ∈ e.prod, valCalOk a.v = true) (p : List Art) (t : List String) (rules : List (String × List Gen.Pred))
    (hr : ReachE (mkCfg sc ts depth txt) init p t rules) : ∀ a ∈ p, valCalOk a.v = true := by
  induction hr with
  | init hm => exact hinit _ hm
  | @step p t rules succs p' t' n _ hexp hmem ih =>
    intro a ha
    obtain ⟨r, _, i, _, x, hx, e⟩ := C15.expand_sound ts rules p t succs hexp _ hmem
    have e1 : p' = p.take i ++ x :: p.drop (i + r.2.length) := by
      have := congrArg Prod.fst e; simpa using this
    rw [e1] at ha
    simp only [List.mem_append, List.mem_cons] at ha
    rcases ha with ha | rfl | ha
    · exact ih a (List.mem_of_mem_take ha)
    · exact wrapper_calendar r.1 ts _ _ hx
    · exact ih a (List.mem_of_mem_drop ha)

theorem initialStack_cal {S : Type} (sc : Scorer S) (depth num den : Nat) (txt : List Nat) (fuel : Nat) :
    ∀ e ∈ (initialStack sc depth num den txt fuel).1, ∀ a ∈ e.prod, valCalOk a.v = true := by
  intro e he a ha
  unfold initialStack at he
  simp only at he
  have h3 := mem_sortE _ _ _ (List.mem_filter.mp (mem_trunc _ _ _ he)).1
  simp only [List.mem_map] at h3
  obtain ⟨s, hs, rfl⟩ := h3
  have hm := regexStack_mem txt _ fuel s hs a ha
  unfold matchRegex at hm
  have h1 := mem_sortBy _ _ _ hm
  simp only [List.mem_flatMap, List.mem_map] at h1
  obtain ⟨p, _, m, _, rfl⟩ := h1
  rfl

/-- **every streamed candidate is well formed** — for every text, every valid reference time, every scorer, depth limit,
    `relative_match_len` and deadline: month 1–12, day 1–31, hour 0–23, minute 0–59, weekday 0–6, part of day known to the
    table (`Val.Ok`), and its day exists in its month and year (`valCalOk`) -/
theorem search_candidates_ok {S : Type} (sc : Scorer S) (ts : Ts) (hts : ts.Valid) (o : Opts) (txt : List Nat) (fuel : Nat) :
    ∀ c ∈ (searchCore sc ts o txt fuel).1.1, c.res.v.Ok ∧ valCalOk c.res.v = true := by
  intro c hc
  obtain ⟨p, rules, hr, hm, _⟩ := C15.search_sound sc ts o txt fuel c hc
  exact ⟨(reach_ok sc ts hts o.depth txt _ (initialStack_ok sc _ _ _ txt fuel) p _ rules hr).1 c.res hm,
         reach_cal sc ts o.depth txt _ (initialStack_cal sc _ _ _ txt fuel) p _ rules hr c.res hm⟩

/-- … and so is every candidate of `ctparse_gen`, with and without latent-time anchoring -/
theorem parse_candidates_ok {S : Type} (sc : Scorer S) (ts : Ts) (hts : ts.Valid) (o : Opts) (raw : List Nat) (fuel : Nat) :
    ∀ c ∈ (ctparseGen sc ts o raw fuel).cands, c.res.v.Ok := by
  intro c hc
  unfold ctparseGen at hc
  simp only at hc
  split at hc
  · exact latentAll_ok ts hts _ (fun c hc => (search_candidates_ok sc ts hts o _ fuel c hc).1) c hc
  · exact (search_candidates_ok sc ts hts o _ fuel c hc).1

/-- **the character span of every streamed candidate lies inside the (label-free, normalised) text, start before end** —
    every production is an ordered, non-overlapping sequence (`Lemmas/Span`, `Lemmas/SpanReach`: no shipped pattern can match
    blanks only, the DFS only joins adjacent matches, a rule result spans first-to-last argument) -/
theorem candidate_span {S : Type} (sc : Scorer S) (ts : Ts) (o : Opts) (txt : List Nat) (fuel : Nat) :
    ∀ c ∈ (searchCore sc ts o txt fuel).1.1, c.res.ms < c.res.me ∧ c.res.me ≤ txt.length := by
  intro c hc
  obtain ⟨p, rules, hr, hm, _⟩ := C15.search_sound sc ts o txt fuel c hc
  exact (reach_span sc ts o.depth txt txt.length _ (initialStack_span sc _ _ _ txt fuel) p _ rules hr).2 c.res hm

theorem latentAll_span {S : Type} (ts : Ts) (n : Nat) : ∀ (cs : List (Cand S)), (∀ c ∈ cs, c.res.ms < c.res.me ∧ c.res.me ≤ n) →
    ∀ c ∈ (latentAll ts cs).1, c.res.ms < c.res.me ∧ c.res.me ≤ n := by
  intro cs
  induction cs with
  | nil => intro _ c hc; simp [latentAll] at hc
  | cons c0 cs ih =>
    intro hall c hc
    simp only [latentAll] at hc
    cases hl : applyLatent ts c0.res with
    | error e => simp [hl] at hc
    | ok r =>
      simp only [hl] at hc
      rcases List.mem_cons.mp hc with rfl | hc
      · have := latent_keeps_span ts c0.res r hl
        have := hall c0 (by simp)
        simp only; omega
      · exact ih (fun c hc => hall c (List.mem_cons_of_mem _ hc)) c hc

/-- … through `ctparse_gen`, latent on or off: inside the normalised text with the hashtags removed -/
theorem parse_candidate_span {S : Type} (sc : Scorer S) (ts : Ts) (o : Opts) (raw : List Nat) (fuel : Nat) :
    ∀ c ∈ (ctparseGen sc ts o raw fuel).cands, c.res.ms < c.res.me ∧ c.res.me ≤ (stripLabels (preprocess raw)).length := by
  intro c hc
  unfold ctparseGen at hc
  simp only at hc
  split at hc
  · exact latentAll_span ts _ _ (fun c hc => candidate_span sc ts o _ fuel c hc) c hc
  · exact candidate_span sc ts o _ fuel c hc

/-! ### accessors on what the parser yields -/
theorem podHours_range : (Gen.podHours.all fun e => decide (0 ≤ e.2.1 ∧ e.2.1 ≤ 23 ∧ 0 ≤ e.2.2 ∧ e.2.2 ≤ 23)) = true := by decide +kernel

theorem podLookup_range (p : String) (a b : Int) (h : podLookup p = some (a, b)) : 0 ≤ a ∧ a ≤ 23 ∧ 0 ≤ b ∧ b ≤ 23 := by
  unfold podLookup at h
  cases hf : Gen.podHours.find? (·.1 == p) with
  | none => simp [hf] at h
  | some e =>
    obtain ⟨q, x, y⟩ := e
    simp [hf] at h
    obtain ⟨rfl, rfl⟩ := h
    have := List.all_eq_true.mp podHours_range _ (List.mem_of_find?_eq_some hf)
    simpa using this

/-- `start` / `end` never fail on a value whose part of day is known — in particular on every candidate -/
theorem accessors_total_ok (t : Time) (h : t.Ok) : (∃ s, t.start = .ok s) ∧ (∃ e, t.end_ = .ok e) := by
  have key : ∀ p, t.pod = some p → ∃ hrs, podLookup p = some hrs := by
    intro p hp
    have := h.pod p hp
    cases hq : podLookup p with
    | none => simp [hq] at this
    | some hrs => exact ⟨hrs, rfl⟩
  constructor
  · unfold Time.start
    by_cases hc : (t.hour.isNone && t.hasPOD) = true
    · simp only [hc, if_true]
      cases hp : t.pod with
      | none => simp [Time.hasPOD, Time.hasAtLeast, Time.isSet, hp] at hc
      | some p =>
        obtain ⟨hrs, hl⟩ := key p hp
        simp [hl, bind, Except.bind, pure, Except.pure]
    · simp [hc, bind, Except.bind, pure, Except.pure]
  · unfold Time.end_
    by_cases hc : (t.hour.isNone && t.hasPOD) = true
    · simp only [hc, if_true]
      cases hp : t.pod with
      | none => simp [Time.hasPOD, Time.hasAtLeast, Time.isSet, hp] at hc
      | some p =>
        obtain ⟨hrs, hl⟩ := key p hp
        simp [hl, bind, Except.bind, pure, Except.pure]
    · simp [hc, bind, Except.bind, pure, Except.pure]

/-- the start of a well-formed value has its hour in 0–23 and its minute in 0–59 -/
theorem start_clock (t s : Time) (h : t.Ok) (hs : t.start = .ok s) :
    s.year = t.year ∧ s.month = t.month ∧ s.day = t.day ∧ (∃ x, s.hour = some x ∧ 0 ≤ x ∧ x ≤ 23) ∧ (∃ x, s.minute = some x ∧ 0 ≤ x ∧ x ≤ 59) := by
  unfold Time.start at hs
  by_cases hc : (t.hour.isNone && t.hasPOD) = true
  · simp only [hc, if_true] at hs
    cases hp : t.pod with
    | none => simp [Time.hasPOD, Time.hasAtLeast, Time.isSet, hp] at hc
    | some p =>
      cases hl : podLookup p with
      | none => simp [hp, hl, bind, Except.bind, throw, throwThe, MonadExceptOf.throw] at hs
      | some ab =>
        obtain ⟨a, b⟩ := ab
        simp [hp, hl, bind, Except.bind, pure, Except.pure] at hs
        subst hs
        have := podLookup_range p a b hl
        refine ⟨rfl, rfl, rfl, ⟨a, rfl, this.1, this.2.1⟩, ?_⟩
        cases hm : t.minute with
        | none => exact ⟨0, rfl, by omega, by omega⟩
        | some m => exact ⟨m, rfl, (h.minute m hm).1, (h.minute m hm).2⟩
  · simp [hc, bind, Except.bind, pure, Except.pure] at hs
    subst hs
    refine ⟨rfl, rfl, rfl, ?_, ?_⟩
    · cases hh : t.hour with
      | none => exact ⟨0, by simp, by omega, by omega⟩
      | some x => exact ⟨x, by simp, (h.hour x hh).1, (h.hour x hh).2⟩
    · cases hm : t.minute with
      | none => exact ⟨0, rfl, by omega, by omega⟩
      | some m => exact ⟨m, rfl, (h.minute m hm).1, (h.minute m hm).2⟩

/-- `dt` never fails on a well-formed value that carries a full date which passed the calendar check -/
theorem dt_total_ok (t : Time) (h : t.Ok) (hc : timeCalOk t = true) (y m d : Int) (hy : t.year = some y) (hm : t.month = some m) (hd : t.day = some d) :
    ∃ x, t.dt = .ok x := by
  obtain ⟨s, hs⟩ := (accessors_total_ok t h).1
  obtain ⟨e1, e2, e3, ⟨hh, ehh, hh1, hh2⟩, ⟨mi, emi, mi1, mi2⟩⟩ := start_clock t s h hs
  unfold Time.dt
  simp only [hs, bind, Except.bind, e1, e2, e3, hy, hm, hd, ehh, emi, Option.getD_some]
  have hcal : (⟨y, m, d⟩ : Date).valid = true ∧ (⟨y, m, d⟩ : Date).inRange = true := by
    unfold timeCalOk at hc
    simp only [hy, hm, hd, Option.getD_some] at hc
    have hmm := h.month m hm
    have hdd := h.day d hd
    simp only [Bool.and_eq_true, decide_eq_true_eq] at hc
    obtain ⟨⟨hy1, hy2⟩, hif⟩ := hc
    have : (1 ≤ m ∧ m ≤ 12) := hmm
    simp only [this.1, this.2, and_self, if_true, decide_eq_true_eq] at hif
    constructor
    · simp [Date.valid]; omega
    · simp [Date.inRange]; omega
  simp [hcal.1, hcal.2, hh1, hh2, mi1, mi2, pure, Except.pure]

/-- **accessors of every streamed candidate**: `start` and `end` succeed; `dt` succeeds whenever year, month and day are present -/
theorem candidate_accessors_total {S : Type} (sc : Scorer S) (ts : Ts) (hts : ts.Valid) (o : Opts) (txt : List Nat) (fuel : Nat) :
    ∀ c ∈ (searchCore sc ts o txt fuel).1.1, ∀ t, c.res.v = .time t →
      (∃ s, t.start = .ok s) ∧ (∃ e, t.end_ = .ok e) ∧ (∀ y m d, t.year = some y → t.month = some m → t.day = some d → ∃ x, t.dt = .ok x) := by
  intro c hc t ht
  obtain ⟨hok, hcal⟩ := search_candidates_ok sc ts hts o txt fuel c hc
  rw [ht] at hok hcal
  have hok' : t.Ok := hok
  have hcal' : timeCalOk t = true := hcal
  exact ⟨(accessors_total_ok t hok').1, (accessors_total_ok t hok').2, fun y m d hy hm hd => dt_total_ok t hok' hcal' y m d hy hm hd⟩

/-- non-vacuity: a concrete parse with a candidate, on which the statement speaks -/
example : (ctparseGen (constScorer) ⟨⟨2018, 3, 7⟩, 12, 43⟩ {} [53, 112, 109] 200).cands.length > 0 := by decide +kernel

/-! ### the order clause: an interval whose fully dated start and end both resolve never starts after it ends -/
/-- **every production keeps it** (`Val.Ok` of an interval carries `IvOrd`): the comparing productions by their guards
    (`Lemmas/IntervalOrdRules`: lexicographic date order ⇒ ordinal order, a shifted end lies after the start, an added
    duration is not negative, month arithmetic does not move back), the two that do not compare (`ruleTODTOD`, `rulePODPOD`)
    because their registered predicates make the first end date-less, the others by handing the interval on -/
theorem rule_interval_ordered (r : String × List Gen.Pred) (hr : r ∈ Gen.ruleSigs) (ts : Ts) (hts : ts.Valid) (args : List Art)
    (hp : (List.zipWith predHolds r.2 args).all id = true) (hargs : ∀ a ∈ args, a.v.Ok) (x : Art)
    (h : applyRule r.1 ts args = .ok (some x)) (f t : Option Time) (hx : x.v = .interval f t) : IvOrd f t := by
  have := applyRule_ok r hr ts hts args hp hargs x h
  rw [hx] at this
  exact this.2.2

/-- **every streamed candidate**, with and without latent-time anchoring, for every text, valid reference time, scorer and
    option set: if the start of the first end and the end of the second end both are datetimes, the first is not after the second -/
theorem candidate_interval_ordered {S : Type} (sc : Scorer S) (ts : Ts) (hts : ts.Valid) (o : Opts) (raw : List Nat) (fuel : Nat) :
    ∀ c ∈ (ctparseGen sc ts o raw fuel).cands, ∀ f t, c.res.v = .interval (some f) (some t) →
      ∀ s e sd ed, f.start = .ok s → s.dt = .ok sd → t.end_ = .ok e → e.dt = .ok ed → sd.minutes ≤ ed.minutes := by
  intro c hc f t hv s e sd ed h1 h2 h3 h4
  have hok := parse_candidates_ok sc ts hts o raw fuel c hc
  rw [hv] at hok
  exact hok.2.2 f t rfl rfl sd.minutes ed.minutes (by simp [startMin, h1, h2]) (by simp [endMin, h3, h4])

/-- a duration amount is never negative -/
theorem candidate_duration_nonneg {S : Type} (sc : Scorer S) (ts : Ts) (hts : ts.Valid) (o : Opts) (raw : List Nat) (fuel : Nat) :
    ∀ c ∈ (ctparseGen sc ts o raw fuel).cands, ∀ n u, c.res.v = .duration n u → 0 ≤ n := by
  intro c hc n u hv
  have hok := parse_candidates_ok sc ts hts o raw fuel c hc
  rw [hv] at hok
  exact hok

/-- the clause is not vacuous and not trivially true: a reversed pair of dates violates it, and the comparing production
    refuses exactly that pair -/
example : ¬ IvOrd (some { year := some 2020, month := some 5, day := some 3 }) (some { year := some 2020, month := some 5, day := some 1 }) := by
  intro h
  have := h _ _ rfl rfl 1062069120 1062067679 (by decide +kernel) (by decide +kernel)
  omega
example : ruleDateDate { year := some 2020, month := some 5, day := some 3 } { year := some 2020, month := some 5, day := some 1 } = .ok none := by
  decide +kernel

end QuickAdd.C02
