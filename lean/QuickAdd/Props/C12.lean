import QuickAdd.Model.Search
/-!
# C12 — a parse is a pure function of its arguments

What a theorem can carry: the *logic* of isolation.  The model is written over immutable values, so "the call does not
modify its arguments, the scorer model or the rule base" and "the result is a function of (text, reference time, options)"
hold of the model by construction; what remains to be said is that *stepwise consumption of several candidate streams in
any interleaving* cannot make them influence each other, given that one step of one stream leaves the shared world
unchanged.  `interleave_independent` proves that for an arbitrary step function with the frame property and an
arbitrary schedule; `world_frame` states the frame property for every step of every schedule.
Partial, named: thread schedules inside CPython, string-hash seeds and process state are runtime behaviour that no
executable model of this code exhibits; they are explored by the sweep (call histories incl. abandoned and failing
calls, all merges of two short streams, 8 threads at 1 µs switch interval, fresh interpreters under several
PYTHONHASHSEED, deep snapshots of registry / regex tables / pickled model), with the model as oracle for every single
call through the `search` correspondence.  That the real rule bodies do not mutate their arguments is checked by the
argument snapshots of the `rules` correspondence (every production, value and span before/after).
-/
namespace QuickAdd.C12

variable {W σ Out : Type}

/-- one step of stream `i` in a shared world -/
structure Sys (W σ Out : Type) where
  step : W → σ → W × σ × Option Out

/-- run a schedule: `sched` lists which stream makes the next step; collects each stream's outputs -/
def exec (sys : Sys W σ Out) : List Nat → W → (Nat → σ) → (Nat → List Out) → W × (Nat → σ) × (Nat → List Out)
  | [], w, st, out => (w, st, out)
  | i :: rest, w, st, out =>
    let r := sys.step w (st i)
    exec sys rest r.1 (fun j => if j = i then r.2.1 else st j)
      (fun j => if j = i then (match r.2.2 with | some o => out j ++ [o] | none => out j) else out j)

/-- run stream `i` alone for `n` steps -/
def solo (sys : Sys W σ Out) : Nat → W → σ → List Out → σ × List Out
  | 0, _, s, out => (s, out)
  | n+1, w, s, out =>
    let r := sys.step w s
    solo sys n r.1 r.2.1 (match r.2.2 with | some o => out ++ [o] | none => out)

/-- frame property: a step never changes the shared world (registry, regex tables, scorer model) -/
def Frame (sys : Sys W σ Out) : Prop := ∀ w s, (sys.step w s).1 = w

theorem world_frame (sys : Sys W σ Out) (hf : Frame sys) : ∀ (sched : List Nat) (w : W) (st : Nat → σ) (out : Nat → List Out),
    (exec sys sched w st out).1 = w := by
  intro sched
  induction sched with
  | nil => intro w st out; rfl
  | cons i rest ih => intro w st out; simp only [exec]; rw [ih, hf]

/-- **independence of interleaved streams**: under any schedule, what stream `i` has produced (and its local state) is
    exactly what it produces when run alone for as many steps as the schedule gave it -/
theorem interleave_independent (sys : Sys W σ Out) (hf : Frame sys) (i : Nat) :
    ∀ (sched : List Nat) (w : W) (st : Nat → σ) (out : Nat → List Out),
      ((exec sys sched w st out).2.1 i, (exec sys sched w st out).2.2 i) = solo sys (sched.count i) w (st i) (out i) := by
  intro sched
  induction sched with
  | nil => intro w st out; rfl
  | cons j rest ih =>
    intro w st out
    simp only [exec]
    rw [ih]
    by_cases hji : j = i
    · subst hji
      simp only [List.count_cons_self, solo, if_true, hf]
    · have : (j :: rest).count i = rest.count i := by simp [List.count_cons, hji]
      rw [this]
      have h1 : (i = j) = False := by simp; exact fun h => hji h.symm
      simp only [h1, if_false]
      rw [hf]

/-- streams that were abandoned (never scheduled again) or that failed do not matter either: the statement above is for every
    schedule, including those in which other streams stop anywhere -/
theorem abandoned_streams_irrelevant (sys : Sys W σ Out) (hf : Frame sys) (i : Nat) (s1 s2 : List Nat) (h : s1.count i = s2.count i)
    (w : W) (st : Nat → σ) (out : Nat → List Out) :
    (exec sys s1 w st out).2.2 i = (exec sys s2 w st out).2.2 i := by
  have a := interleave_independent sys hf i s1 w st out
  have b := interleave_independent sys hf i s2 w st out
  rw [h] at a
  have := a.trans b.symm
  exact (Prod.mk.inj this).2

/-- the model's parse is a function: same arguments, same stream (trivially, stated for the record of what "pure" means here) -/
theorem parse_deterministic {S : Type} (sc : QuickAdd.Scorer S) (ts : QuickAdd.Ts) (o : QuickAdd.Opts) (raw : List Nat) (fuel : Nat)
    (a b : QuickAdd.Parse S) (ha : a = QuickAdd.ctparseGen sc ts o raw fuel) (hb : b = QuickAdd.ctparseGen sc ts o raw fuel) : a = b := by rw [ha, hb]

example : (exec (W := Nat) (σ := Nat) (Out := Nat) ⟨fun w s => (w, s + 1, some (w + s))⟩ [0, 1, 0, 1, 1] 10 (fun _ => 0) (fun _ => [])).2.2 0 = [10, 11] := by decide

end QuickAdd.C12
