import QuickAdd.Lemmas.Search
import QuickAdd.Lemmas.SearchWork
/-!
# C13 — timeout honoured: clean partial results, prefix property

Deadline oracle: `Opts.deadline = some k` means the k-th deadline check (0-based, counted over sequence enumeration,
initial-stack construction and main-loop iterations) is the first to fail.  The model makes exactly one check per
enumerated sequence, one per initial stack element and one per main-loop iteration (tied to the code by the `search`
correspondence over **every** expiry index), so the work between two checks is one pre-filter analysis + one scoring,
or one expansion of one production.
* `deadline_prefix`: whatever is produced under a deadline is a prefix of what is produced without one;
* `deadline_clean`: a deadline never introduces an exception;
* `deadline_first_check`: if the first check already fails nothing is produced;
* `work_between_checks`: one main-loop iteration (= the work between two deadline checks) performs at most |applicable rules| · |production|
  rule applications and scorings, and |applicable rules| ≤ |registry| — a bound that does not depend on the number of candidate sequences;
* `deadline_same_stack`: the deadline influences nothing but where the stream stops (same initial stack, hence same subject).
`timeout = 0` is "no deadline" by definition of the oracle (`Opts.deadline = none`); that the real closure treats 0 so, and
compares `perf_counter() - start > timeout`, is runtime behaviour explored with a virtual clock over every expiry point.
-/
namespace QuickAdd.C13
open QuickAdd

variable {S : Type}

theorem loop_deadline_prefix {α : Type} (c : Cfg α S) (f k : Nat) (stack : List (E α S)) (seen : List (List α × S)) (em : List (α × S)) :
    (run c f (some k) stack seen em).1 <+: (run c f none stack seen em).1 := run_deadline_prefix c f k stack seen em

theorem loop_deadline_clean {α : Type} (c : Cfg α S) (f k : Nat) (stack : List (E α S)) (seen : List (List α × S)) (em : List (α × S))
    (h : (run c f none stack seen em).2 = none) : (run c f (some k) stack seen em).2 = none := run_deadline_err c f k stack seen em h

/-- the whole search (`_ctparse` after label removal): candidates under deadline `k` are a prefix of the unlimited stream -/
theorem deadline_prefix (sc : Scorer S) (ts : Ts) (o : Opts) (txt : List Nat) (fuel k : Nat) :
    (searchCore sc ts { o with deadline := some k } txt fuel).1.1 <+: (searchCore sc ts { o with deadline := none } txt fuel).1.1 := by
  simp only [searchCore, expiredAt]
  by_cases hx : k < (initialStack sc o.depth o.relMatchLenNum o.relMatchLenDen txt fuel).2
  · simp [hx]
  · simp only [hx, decide_false, Bool.false_eq_true, if_false, Option.map_some, Option.map_none]
    exact List.IsPrefix.map _ (run_deadline_prefix _ _ _ _ _ _)

/-- … and a deadline never turns a clean run into a raising one -/
theorem deadline_clean (sc : Scorer S) (ts : Ts) (o : Opts) (txt : List Nat) (fuel k : Nat)
    (h : (searchCore sc ts { o with deadline := none } txt fuel).1.2 = none) : (searchCore sc ts { o with deadline := some k } txt fuel).1.2 = none := by
  simp only [searchCore, expiredAt, Bool.false_eq_true, if_false, Option.map_none] at h
  simp only [searchCore, expiredAt]
  by_cases hx : k < (initialStack sc o.depth o.relMatchLenNum o.relMatchLenDen txt fuel).2
  · simp [hx]
  · simp only [hx, decide_false, Bool.false_eq_true, if_false, Option.map_some]
    exact run_deadline_err _ _ _ _ _ _ h

/-- if the very first deadline check fails, nothing is produced -/
theorem deadline_first_check (sc : Scorer S) (ts : Ts) (o : Opts) (txt : List Nat) (fuel : Nat) (hf : 0 < fuel) :
    (searchCore sc ts { o with deadline := some 0 } txt fuel).1.1 = [] := by
  simp only [searchCore, expiredAt]
  by_cases hx : 0 < (initialStack sc o.depth o.relMatchLenNum o.relMatchLenDen txt fuel).2
  · simp [hx]
  · have hz : (initialStack sc o.depth o.relMatchLenNum o.relMatchLenDen txt fuel).2 = 0 := by omega
    simp only [hx, decide_false, Bool.false_eq_true, if_false, Option.map_some, hz]
    have := (run_deadline_zero (mkCfg sc ts o.depth txt) fuel (initialStack sc o.depth o.relMatchLenNum o.relMatchLenDen txt fuel).1 [] [] hf).1
    simp [this]

/-- the deadline does not influence the initial stack (hence the subject computed from it) -/
theorem deadline_same_stack (sc : Scorer S) (o : Opts) (txt : List Nat) (fuel : Nat) (d d' : Option Nat) :
    initialStack sc ({ o with deadline := d }).depth ({ o with deadline := d }).relMatchLenNum ({ o with deadline := d }).relMatchLenDen txt fuel =
    initialStack sc ({ o with deadline := d' }).depth ({ o with deadline := d' }).relMatchLenNum ({ o with deadline := d' }).relMatchLenDen txt fuel := rfl

/-- **bounded work between two deadline checks**: the successors computed in one iteration (each costs one rule application
    and one scoring) number at most |applicable rules| · |production| ≤ |registry| · |production|, whatever the number of
    candidate sequences -/
theorem work_between_checks (ts : Ts) (seq prod : List Art) (trace : List String) (out : List (List Art × List String × Nat))
    (h : expandArts ts (filterRules seq) prod trace = .ok out) : out.length ≤ Gen.ruleSigs.length * prod.length := by
  have h1 := expand_count_le ts (filterRules seq) prod trace out h
  have h2 := filterRules_le seq
  calc out.length ≤ (filterRules seq).length * prod.length := h1
    _ ≤ Gen.ruleSigs.length * prod.length := Nat.mul_le_mul_right _ h2

/-- a rule application never lengthens a production (a window of ≥ 1 elements is replaced by one value) -/
theorem successor_not_longer (ts : Ts) (name : String) (pat : List Gen.Pred) (prod : List Art) (trace : List String) (i : Nat)
    (s : List Art × List String × Nat) (hi : i ∈ matchRule prod pat) (h : applyAt ts name pat prod trace i = .ok (some s)) : s.1.length ≤ prod.length := by
  unfold applyAt at h
  cases hr : applyRule name ts ((prod.drop i).take pat.length) with
  | error e => simp [hr, bind, Except.bind] at h
  | ok r =>
    cases r with
    | none => simp [hr, bind, Except.bind, pure, Except.pure] at h
    | some x =>
      simp only [hr, bind, Except.bind, pure, Except.pure] at h
      simp at h; subst h
      unfold matchRule at hi
      split at hi
      · simp at hi
      · rename_i hne
        simp only [List.mem_filter, List.mem_range, Bool.and_eq_true, beq_iff_eq] at hi
        have hlen := hi.2.1
        simp only [List.length_take, List.length_drop] at hlen
        have hp : 0 < pat.length := by
          cases pat with
          | nil => simp at hne
          | cons _ _ => simp
        simp only [List.length_append, List.length_take, List.length_cons, List.length_drop]
        omega

end QuickAdd.C13
