import QuickAdd.Lemmas.Types
import QuickAdd.Lemmas.Cal
import QuickAdd.Props.C03
import QuickAdd.Props.C04
import QuickAdd.Props.C02
import QuickAdd.Lemmas.SearchWork
/-!
# C01 — parsing is total: no production raises on the values the rule base can build

Python exceptions are values in the model (`Except PyErr`), nothing is totalised by a default, so "never raises" is a
theorem `… = .ok _`, per production and under exactly the guards the rule's own predicates provide:
* `comparison_rules_total`: the range-building rules that compare fields (`None >= None` was DESIGN §8 D4) never raise on
  arguments satisfying their predicates;
* `clock_rules_total`, `copy_rules_total`: no exception path at all;
* `relative_rules_total`: today ± n, this/next weekday, end of month — never raise for any valid reference date with year
  1 … 9990 (in particular 1970–2100, every month end, leap day, year end);
* `latent_rules_total`: latent day of month / day+month / weekday / part of day (existence proofs of C04);
* `latent_total`: latent anchoring never raises on well-formed clock values;
* `interval_rules_total`, `value_rules_total` (module `C01Ext`): date + clock range, part of day + range; one dispatcher-level statement for all 58 value-level productions;
* `duration_rules_total`: '<date> for N units' never raises — out-of-calendar ends make the production fail instead (D5);
* `int_ascii_total`: `int()` of a non-empty ASCII digit string never raises;
* the search itself: an exception can only come from a production (`run` has no other error source but fuel, C15), and the
  theorems of C13–C15 hold for **every** scorer, in particular the constant scorer of the "model file absent" fallback.
Partial, named: termination of the candidate stream is tied by the `search` correspondence (the model's fuel is never
exhausted on the inputs explored: exhaustion would surface as `Unmodelled`); exotic digits unknown to this interpreter's
`int()` are the known finding D6; rendering (`str`/`repr`) of results is exercised by the fuzz on every candidate.
-/
namespace QuickAdd.C01
open QuickAdd

theorem some_of_isSome {α : Type} {o : Option α} (h : o.isSome = true) : ∃ x, o = some x := by
  cases o with
  | none => simp at h
  | some x => exact ⟨x, rfl⟩

/-! ### bounds on ordinals from bounds on the year -/
theorem ord_bounds (d : Date) (hv : d.Valid) (hy : 1 ≤ d.y ∧ d.y ≤ 9990) : 1 ≤ d.ord ∧ d.ord + 400 ≤ maxOrd := ord_bounds_of_year d hv hy

/-- today ± 1, ± 2, this / next weekday, end of month: never raise, for every valid reference date up to year 9990 -/
theorem relative_rules_total (ts : Ts) (hv : ts.date.Valid) (hy : 2 ≤ ts.date.y ∧ ts.date.y ≤ 9990) (w : Int) (hw : 0 ≤ w ∧ w < 7) :
    (∃ r, ruleTomorrow ts = .ok r) ∧ (∃ r, ruleAfterTomorrow ts = .ok r) ∧ (∃ r, ruleYesterday ts = .ok r) ∧ (∃ r, ruleBeforeYesterday ts = .ok r) ∧
    (∃ r, ruleToday ts = .ok r) ∧ (∃ r, ruleNow ts = .ok r) ∧ (∃ r, ruleEOM ts = .ok r) ∧
    (∃ r, ruleAtDOW ts { dow := some w } = .ok r) ∧ (∃ r, ruleNextDOW ts { dow := some w } = .ok r) ∧ (∃ r, ruleLatentDOW ts { dow := some w } = .ok r) := by
  obtain ⟨o1, o2⟩ := ord_bounds ts.date hv ⟨by omega, hy.2⟩
  have hprev : 3 ≤ ts.date.ord := by
    have h1 := ord_pos_in_year ts.date hv
    have h2 := dby_mono (ts.date.y - 2).toNat 2
    have e : (2 : Int) + ((ts.date.y - 2).toNat : Int) = ts.date.y := by omega
    rw [e] at h2
    have : dby 2 = 365 := by decide
    omega
  refine ⟨?_, ?_, ?_, ?_, ⟨_, rfl⟩, ⟨_, rfl⟩, ⟨_, C03.eom_spec ts hv (by omega) (by omega)⟩, ?_, ?_, ?_⟩
  · obtain ⟨d, h, _⟩ := C03.tomorrow_spec ts (by omega) (by omega); exact ⟨_, h⟩
  · obtain ⟨d, h, _⟩ := C03.afterTomorrow_spec ts (by omega) (by omega); exact ⟨_, h⟩
  · obtain ⟨d, h, _⟩ := C03.yesterday_spec ts (by omega) (by omega); exact ⟨_, h⟩
  · obtain ⟨d, h, _⟩ := C03.beforeYesterday_spec ts (by omega) (by omega); exact ⟨_, h⟩
  · obtain ⟨d, h, _⟩ := C03.atDOW_spec ts w hw (by omega) (by omega) hv; exact ⟨_, h⟩
  · obtain ⟨d, h, _⟩ := C03.nextDOW_spec ts w hw (by omega) (by omega); exact ⟨_, h⟩
  · obtain ⟨d, h, _⟩ := C03.atDOW_spec ts w hw (by omega) (by omega) hv; exact ⟨_, h⟩

/-- latent day of month never raises and always finds a date (1 ≤ d ≤ 31) -/
theorem latent_rules_total (ts : Ts) (hv : ts.date.Valid) (hy : 1 ≤ ts.date.y ∧ ts.date.y ≤ 9990) (d : Int) (hd : 1 ≤ d ∧ d ≤ 31) :
    ∃ r, ruleLatentDOM ts { day := some d } = .ok r := by
  obtain ⟨c, h, _⟩ := C04.ruleLatentDOM_spec ts hv ⟨hy.1, by omega⟩ d hd.1 hd.2
  exact ⟨_, h⟩

/-- the range rules that compare fields never raise on arguments satisfying their predicates -/
theorem comparison_rules_total (a b : Time) :
    (a.isDate = true → b.isDate = true → ∃ r, ruleDateDate a b = .ok r) ∧
    (a.isDOM = true → b.isDate = true → ∃ r, ruleDOMDate a b = .ok r) ∧
    (a.isDate = true → b.isDOM = true → ∃ r, ruleDateDOM a b = .ok r) ∧
    (a.isDOY = true → b.isDate = true → ∃ r, ruleDOYDate a b = .ok r) ∧
    (a.isDateTime = true → b.isDateTime = true → ∃ r, ruleDateTimeDateTime a b = .ok r) ∧
    (a.isTOD = true → b.isTOD = true → ∃ r, ruleTODTOD a b = .ok r) := by
  refine ⟨?_, ?_, ?_, ?_, ?_, ?_⟩
  · intro ha hb
    obtain ⟨a1, a2, a3, _⟩ := (isDate_iff a).mp ha
    obtain ⟨b1, b2, b3, _⟩ := (isDate_iff b).mp hb
    obtain ⟨y1, e1⟩ := some_of_isSome a1; obtain ⟨m1, e2⟩ := some_of_isSome a2; obtain ⟨d1, e3⟩ := some_of_isSome a3
    obtain ⟨y2, f1⟩ := some_of_isSome b1; obtain ⟨m2, f2⟩ := some_of_isSome b2; obtain ⟨d2, f3⟩ := some_of_isSome b3
    simp only [ruleDateDate, e1, e2, e3, f1, f2, f3, need, bind, Except.bind, pure, Except.pure]
    split <;> (try split) <;> (try split) <;> exact ⟨_, rfl⟩
  · intro ha hb
    obtain ⟨_, _, a3, _⟩ := (isDOM_iff a).mp ha
    obtain ⟨_, _, b3, _⟩ := (isDate_iff b).mp hb
    obtain ⟨d1, e3⟩ := some_of_isSome a3; obtain ⟨d2, f3⟩ := some_of_isSome b3
    simp only [ruleDOMDate, e3, f3, need, bind, Except.bind, pure, Except.pure]
    split <;> exact ⟨_, rfl⟩
  · intro ha hb
    obtain ⟨_, _, a3, _⟩ := (isDate_iff a).mp ha
    obtain ⟨_, _, b3, _⟩ := (isDOM_iff b).mp hb
    obtain ⟨d1, e3⟩ := some_of_isSome a3; obtain ⟨d2, f3⟩ := some_of_isSome b3
    simp only [ruleDateDOM, e3, f3, need, bind, Except.bind, pure, Except.pure]
    split <;> exact ⟨_, rfl⟩
  · intro ha hb
    obtain ⟨_, a2, a3, _⟩ := (isDOY_iff a).mp ha
    obtain ⟨_, b2, b3, _⟩ := (isDate_iff b).mp hb
    obtain ⟨m1, e2⟩ := some_of_isSome a2; obtain ⟨d1, e3⟩ := some_of_isSome a3
    obtain ⟨m2, f2⟩ := some_of_isSome b2; obtain ⟨d2, f3⟩ := some_of_isSome b3
    simp only [ruleDOYDate, e2, e3, f2, f3, need, bind, Except.bind, pure, Except.pure]
    split <;> (try split) <;> (try split) <;> exact ⟨_, rfl⟩
  · intro ha hb
    obtain ⟨a1, a2, a3, a4, _⟩ := (isDateTime_iff a).mp ha
    obtain ⟨b1, b2, b3, b4, _⟩ := (isDateTime_iff b).mp hb
    obtain ⟨y1, e1⟩ := some_of_isSome a1; obtain ⟨m1, e2⟩ := some_of_isSome a2; obtain ⟨d1, e3⟩ := some_of_isSome a3; obtain ⟨h1, e4⟩ := some_of_isSome a4
    obtain ⟨y2, f1⟩ := some_of_isSome b1; obtain ⟨m2, f2⟩ := some_of_isSome b2; obtain ⟨d2, f3⟩ := some_of_isSome b3; obtain ⟨h2, f4⟩ := some_of_isSome b4
    simp only [ruleDateTimeDateTime, e1, e2, e3, e4, f1, f2, f3, f4, need, bind, Except.bind, pure, Except.pure]
    split <;> (try split) <;> (try split) <;> (try split) <;> (try split) <;> exact ⟨_, rfl⟩
  · intro ha hb
    obtain ⟨_, _, _, a4, _⟩ := (isTOD_iff a).mp ha
    obtain ⟨_, _, _, b4, _⟩ := (isTOD_iff b).mp hb
    obtain ⟨h1, e4⟩ := some_of_isSome a4; obtain ⟨h2, f4⟩ := some_of_isSome b4
    simp only [ruleTODTOD, e4, f4, need, bind, Except.bind, pure, Except.pure]
    split <;> exact ⟨_, rfl⟩

/-- clock-modifying rules never raise on a clock value -/
theorem clock_rules_total (t p : Time) (ht : t.isTOD = true) (hp : p.isPOD = true) :
    (∃ r, ruleQuarterBeforeHH t = .ok r) ∧ (∃ r, ruleQuarterAfterHH t = .ok r) ∧ (∃ r, ruleHalfBeforeHH t = .ok r) ∧ (∃ r, ruleHalfAfterHH t = .ok r) ∧
    (∃ r, ruleTODPOD t p = .ok r) := by
  obtain ⟨_, _, _, a4, _⟩ := (isTOD_iff t).mp ht
  obtain ⟨h, e4⟩ := some_of_isSome a4
  obtain ⟨_, _, _, _, _, _, b7⟩ := (isPOD_iff p).mp hp
  obtain ⟨q, f7⟩ := some_of_isSome b7
  refine ⟨?_, ?_, ?_, ?_, ?_⟩
  · simp only [ruleQuarterBeforeHH, e4, need, bind, Except.bind, pure, Except.pure]
    split <;> (try split) <;> exact ⟨_, rfl⟩
  · simp only [ruleQuarterAfterHH, pure, Except.pure]; split <;> exact ⟨_, rfl⟩
  · simp only [ruleHalfBeforeHH, e4, need, bind, Except.bind, pure, Except.pure]
    split <;> (try split) <;> exact ⟨_, rfl⟩
  · simp only [ruleHalfAfterHH, pure, Except.pure]; split <;> exact ⟨_, rfl⟩
  · simp only [ruleTODPOD, e4, f7, need, needS, bind, Except.bind, pure, Except.pure]
    split <;> (try split) <;> exact ⟨_, rfl⟩

/-- the field-copying rules have no exception path at all -/
theorem copy_rules_total (a b : Time) (k : Tok) (f t : Option Time) :
    (∃ r, ruleDOMMonth a b = .ok r) ∧ (∃ r, ruleMonthDOM a b = .ok r) ∧ (∃ r, ruleDOYYear a b = .ok r) ∧ (∃ r, ruleDOWPOD a b = .ok r) ∧
    (∃ r, ruleDOWDate a b = .ok r) ∧ (∃ r, ruleDateTOD a b = .ok r) ∧ (∃ r, ruleDatePOD a b = .ok r) ∧ (∃ r, rulePODPOD a b = .ok r) ∧
    (∃ r, ruleBeforeTime k a = .ok r) ∧ (∃ r, ruleAfterTime k a = .ok r) ∧ (∃ r, ruleNamedDOW k = .ok r) ∧ (∃ r, ruleNamedMonth k = .ok r) ∧
    (∃ r, ruleNamedHour k = .ok r) ∧ (∃ r, rulePOD k = .ok r) ∧ (∃ r, ruleDurationHalf k = .ok r) := by
  refine ⟨⟨_, rfl⟩, ⟨_, rfl⟩, ⟨_, rfl⟩, ⟨_, rfl⟩, ⟨_, rfl⟩, ⟨_, rfl⟩, ⟨_, rfl⟩, ⟨_, rfl⟩, ?_, ?_, ⟨_, rfl⟩, ⟨_, rfl⟩, ⟨_, rfl⟩, ⟨_, rfl⟩, ?_⟩
  · simp only [ruleBeforeTime]; split <;> exact ⟨_, rfl⟩
  · simp only [ruleAfterTime]; split <;> exact ⟨_, rfl⟩
  · simp only [ruleDurationHalf, pure, Except.pure]
    split <;> exact ⟨_, rfl⟩

/-- latent anchoring never raises on a well-formed clock value -/
theorem latent_total (ts : Ts) (h mi : Int) (hh : 0 ≤ h ∧ h ≤ 23) (hm : 0 ≤ mi ∧ mi ≤ 59)
    (hv : ts.date.Valid) (hy : 1 ≤ ts.date.y ∧ ts.date.y ≤ 9990) : ∃ t, latentTod ts { hour := some h, minute := some mi } = .ok t := by
  obtain ⟨o1, o2⟩ := ord_bounds ts.date hv hy
  have hb : inDay h mi = true := by simp [inDay]; omega
  have hr : ts.date.inRange = true := by simp [Date.inRange]; omega
  by_cases hc : h * 60 + mi ≤ ts.h * 60 + ts.mi
  · obtain ⟨av, ao⟩ := addDays_spec ts.date 1 (by omega) (by omega)
    have hr' := C03.inRange_of_ord _ av (by omega) (by omega)
    refine ⟨{ year := some (ts.date.addDays 1).y, month := some (ts.date.addDays 1).m, day := some (ts.date.addDays 1).d, hour := some h, minute := some mi }, ?_⟩
    simp [latentTod, need, hb, hc, dateOk, hr', bind, Except.bind, pure, Except.pure]
  · refine ⟨{ year := some ts.date.y, month := some ts.date.m, day := some ts.date.d, hour := some h, minute := some mi }, ?_⟩
    simp [latentTod, need, hb, hc, dateOk, hr, bind, Except.bind, pure, Except.pure]

/-- `int()` of a non-empty ASCII digit string never raises (the value is the decimal reading) -/
theorem digitVal_ascii (c : Nat) (h : 48 ≤ c ∧ c ≤ 57) : digitVal c = some (c - 48) := by
  have : c = 48 ∨ c = 49 ∨ c = 50 ∨ c = 51 ∨ c = 52 ∨ c = 53 ∨ c = 54 ∨ c = 55 ∨ c = 56 ∨ c = 57 := by omega
  rcases this with h | h | h | h | h | h | h | h | h | h <;> subst h <;> decide +kernel

theorem int_ascii_total : ∀ (s : List Nat) (acc : Int), (∀ c ∈ s, 48 ≤ c ∧ c ≤ 57) →
    ∃ v, s.foldlM (fun (acc : Int) c => match digitVal c with | some v => (pure (acc * 10 + v) : Except PyErr Int) | none => throw PyErr.valueError) acc = .ok v := by
  intro s
  induction s with
  | nil => intro acc _; exact ⟨acc, rfl⟩
  | cons c cs ih =>
    intro acc h
    have hc := digitVal_ascii c (h c (by simp))
    simp only [List.foldlM, hc, bind, Except.bind, pure, Except.pure]
    exact ih _ (fun x hx => h x (by simp [hx]))

theorem pyInt_ascii_total (s : List Nat) (hne : s ≠ []) (h : ∀ c ∈ s, 48 ≤ c ∧ c ≤ 57) : ∃ v, pyInt s = .ok v := by
  unfold pyInt
  have : s.isEmpty = false := by cases s <;> simp_all
  simp only [this, Bool.false_eq_true, if_false]
  exact int_ascii_total s 0 h

/-- '<date> for N units': never raises — a well-formed date start and any amount -/
theorem duration_rules_total (d : Date) (n : Int) (u : DUnit) (hv : d.valid = true) (hr : d.inRange = true) :
    ∃ r, ruleTimeDuration { year := some d.y, month := some d.m, day := some d.d } n u = .ok r := by
  have hst : (Time.start { year := some d.y, month := some d.m, day := some d.d }) = .ok { year := some d.y, month := some d.m, day := some d.d, hour := some 0, minute := some 0 } := by
    simp [Time.start, Time.hasPOD, Time.hasAtLeast, Time.isSet, bind, Except.bind, pure, Except.pure]
  have hdt : (Time.dt { year := some d.y, month := some d.m, day := some d.d }) = .ok ⟨d, 0, 0⟩ := by
    simp [Time.dt, Time.start, Time.hasPOD, Time.hasAtLeast, Time.isSet, hv, hr, bind, Except.bind, pure, Except.pure]
  cases u <;> simp only [ruleTimeDuration, hst, hdt, bind, Except.bind, pure, Except.pure] <;> (repeat' split) <;> exact ⟨_, rfl⟩

/-- an exception of the candidate stream can only originate in a production (or be the model's fuel marker): the loop itself,
    the ordering, both dedup tables, the depth cut and the deadline handling have no failing operation -/
theorem search_error_source {α S : Type} (c : Cfg α S) (f : Nat) (budget : Option Nat) (stack : List (E α S)) (e : PyErr)
    (h : (run c f budget stack [] []).2 = some e) : e = .unmodelled ∨ ∃ rules p t, c.expand rules p t = .error e :=
  run_err_source c f budget stack [] [] e h

/-- the repaired crash classes of DESIGN §8 stay repaired in the model (each was replayed against the real code) -/
example : applyRule "ruleDateTimeDateTime" ⟨⟨2018, 3, 7⟩, 12, 43⟩
    [⟨.time { year := some 2020, month := some 12, day := some 12, hour := some 8 }, 0, 16⟩, ⟨.tok { id := 136, caps := [] }, 17, 18⟩,
     ⟨.time { year := some 2020, month := some 12, day := some 12, hour := some 8 }, 19, 35⟩] = .ok none := by decide +kernel
example : ruleTimeDuration { year := some 2020, month := some 12, day := some 12 } 99999999 .days = .ok none := by decide +kernel
example : ruleEarlyLatePOD { id := 106, caps := [("mod_early", [101])] } { pod := some "earlyearlyearlymorning" } = .ok none := by decide +kernel

end QuickAdd.C01
