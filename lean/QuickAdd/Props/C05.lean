import QuickAdd.Model.Rules
/-!
# C05 — absolute dates/times mean what they say, independent of the reference time

The productions that build a fully specified date from its written parts never consult the reference time:
in the model they do not even take it as an argument, and the dispatcher passes it to nobody
(`*_ts_indep`).  The only reference-dependent productions on the path of an absolute date are `ruleYear`
for **two-digit** years (century window) and the military-time heuristic; `year_ts_indep` shows that a year
written with more than two digits is reference independent.  `ddmmyyyy_sem`: the groups day/month/year of the
numeric notation become exactly those fields (two-digit years: 20yy), whatever the reference time.
-/
namespace QuickAdd.C05
open QuickAdd

/-- dispatcher-level: these productions give the same answer for every pair of reference times -/
theorem absolute_rules_ts_indep (ts ts' : Ts) (args : List Val) (r : RuleId)
    (h : r ∈ [RuleId.ruleDDMMYYYY, .ruleDDMM, .ruleMMDD, .ruleNamedMonth, .ruleDOM1, .ruleDOM2, .ruleMonthOrdinal, .ruleDOMMonth, .ruleDOMMonth2,
              .ruleMonthDOM, .ruleDOYYear, .ruleDateTOD, .ruleTODDate, .ruleHHMM, .ruleHHOClock, .ruleAbsorbOnTime, .ruleNamedHour, .ruleDatePOD, .rulePODDate]) :
    applyId r ts args = applyId r ts' args := by
  simp only [List.mem_cons, List.mem_nil_iff, or_false] at h
  rcases h with h | h | h | h | h | h | h | h | h | h | h | h | h | h | h | h | h | h | h <;> subst h <;>
    (rcases args with _ | ⟨a, _ | ⟨b, _ | ⟨c, _ | ⟨d, rest⟩⟩⟩⟩ <;> (try cases a) <;> (try cases b) <;> (try cases c) <;> rfl)

/-- a year written with three or more digits (≥ 100) does not depend on the reference time -/
theorem year_ts_indep (ts ts' : Ts) (k : Tok) (y : Int) (hy : grpInt k "year" = .ok y) (h100 : 100 ≤ y) :
    ruleYear ts k = .ok (some (.time { year := some y })) ∧ ruleYear ts' k = .ok (some (.time { year := some y })) := by
  have : ¬ y < 100 := by omega
  simp [ruleYear, hy, this, bind, Except.bind, pure, Except.pure]

/-- numeric dd.mm.yyyy / dd/mm/yyyy / dd-mm-yyyy / dd.mm.yy: fields are the written numbers; yy ↦ 20yy -/
theorem ddmmyyyy_sem (k : Tok) (d m y : Int) (hd : grpInt k "day" = .ok d) (hm : grpInt k "month" = .ok m) (hy : grpInt k "year" = .ok y)
    (hmon : k.has "month" = true) :
    ruleDDMMYYYY k = .ok (some (.time { year := some (if y < 100 then y + 2000 else y), month := some m, day := some d })) := by
  simp [ruleDDMMYYYY, monthOf, hmon, hd, hm, hy, bind, Except.bind, pure, Except.pure]

/-- the two-digit window of a stand-alone year is the only place the reference year enters (kept: property's convention) -/
theorem year_two_digit (ts : Ts) (k : Tok) (y : Int) (hy : grpInt k "year" = .ok y) (h : y < 100) :
    ruleYear ts k = .ok (some (.time { year := some (if y < ts.date.y % 100 + 10 then ts.date.y / 100 * 100 + y else (ts.date.y / 100 - 1) * 100 + y) })) := by
  simp only [ruleYear, hy, h, if_true, bind, Except.bind, pure, Except.pure]
  split <;> rfl

/-- numeric dd.mm. / mm/dd without a year: day and month are the written numbers, no year is invented, whatever the reference time
(both notations share one production; which group is the day is decided by the pattern) -/
theorem ddmm_sem (ts : Ts) (k : Tok) (d m : Int) (hd : grpInt k "day" = .ok d) (hm : grpInt k "month" = .ok m) (hmon : k.has "month" = true) :
    applyId .ruleDDMM ts [.tok k] = .ok (some (.time { month := some m, day := some d })) ∧
    applyId .ruleMMDD ts [.tok k] = .ok (some (.time { month := some m, day := some d })) := by
  have h1 : applyId .ruleDDMM ts [.tok k] = ruleDDMM k := rfl
  have h2 : applyId .ruleMMDD ts [.tok k] = ruleDDMM k := rfl
  rw [h1, h2]
  constructor <;> simp [ruleDDMM, monthOf, hmon, hd, hm, bind, Except.bind, pure, Except.pure]

/-- day + named month, month + day, day-of-year + year: the written fields are copied, nothing else is set -/
theorem domMonth_sem (ts : Ts) (dom mo : Time) :
    applyId .ruleDOMMonth ts [.time dom, .time mo] = .ok (some (.time { day := dom.day, month := mo.month })) ∧
    applyId .ruleMonthDOM ts [.time mo, .time dom] = .ok (some (.time { month := mo.month, day := dom.day })) := ⟨rfl, rfl⟩
theorem doyYear_sem (ts : Ts) (doy y : Time) :
    applyId .ruleDOYYear ts [.time doy, .time y] = .ok (some (.time { year := y.year, month := doy.month, day := doy.day })) := rfl

/-- 24-hour clock notation hh:mm without am/pm: hour and minute are the written numbers -/
theorem hhmm_sem (ts : Ts) (k : Tok) (h mi : Int) (hh : grpInt k "hour" = .ok h) (hm : grpInt k "minute" = .ok mi) (hmin : k.has "minute" = true)
    (hno : k.group "ampm" = none) :
    applyId .ruleHHMM ts [.tok k] = .ok (some (.time { hour := some h, minute := some mi })) := by
  have h1 : applyId .ruleHHMM ts [.tok k] = ruleHHMM k := rfl
  rw [h1]
  simp [ruleHHMM, minuteOr0, hmin, hh, hm, hno, applyAmPm, bind, Except.bind, pure, Except.pure]

/-- date + clock time compose field-wise (also C20) -/
theorem dateTOD_sem (date tod : Time) :
    ruleDateTOD date tod = .ok (some (.time { year := date.year, month := date.month, day := date.day, hour := tod.hour, minute := tod.minute })) := rfl

/-- decimal value of ASCII digit strings: `int()` of the model reads "2020" as 2020 and "07" as 7 -/
example : pyInt [50, 48, 50, 48] = .ok 2020 := by decide +kernel
example : pyInt [48, 55] = .ok 7 := by decide +kernel
example : ruleDDMMYYYY { id := 126, caps := [("day", [50, 57]), ("month", [48, 50]), ("year", [50, 48])] } =
    .ok (some (.time { year := some 2020, month := some 2, day := some 29 })) := by decide +kernel

end QuickAdd.C05
