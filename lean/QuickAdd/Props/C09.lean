import QuickAdd.Lemmas.SearchMap
import QuickAdd.Props.C06
import QuickAdd.Props.C15
import QuickAdd.Lemmas.SpanReach
import QuickAdd.Lemmas.SpanHull
/-!
# C09 — words around a time expression neither change its meaning nor blur its span

Score half (`embedding_score_shift`): the shipped scorer adds `log(covered / len(text))` to a term that depends on the
production trace only; embedding an expression `e` in a longer text `T` therefore changes every score by the same
amount `log(len e / len T)`.  The worklist loop is **equivariant** under any order-preserving change of scores
(`run_map`, proved for the model's own loop: stable sort, both dedup tables, emission rule, depth cut, deadline), so the
candidates, their traces, their order and the winner are the same — only the reported numbers move.
Span half: anchoring keeps the span (`C06.latent_span`), the rule wrapper spans first-to-last argument
(`wrapper_span`), and token spans exclude trailing blanks (`token_span_trimmed`).
`span_within_tokens`: if no pattern match of the text starts before offset `lo` or ends after `hi` (the surrounding
words are inert in the property's sense), then **no candidate's span does** — for every scorer, depth limit, deadline; with
`C02.candidate_span` (start < end): the reported span lies inside the expression, never on the neighbouring words.
`span_exact`: the span of every streamed candidate is **exactly** the stretch of text from the start of the first to the end of
the last of the pattern matches it consumed — a contiguous block of a gap-free match sequence of the text (`Lemmas/SpanHull`:
every reachable production is a hull of its initial sequence) — for every scorer, depth limit, deadline.
The two lexical hypotheses — no token touches the surrounding words, the tokens inside are the shifted tokens of the
expression alone — are decided per input by running the library's own patterns (sweep), as the property prescribes.
-/
namespace QuickAdd.C09
open QuickAdd

/-- adding a constant to every score changes nothing but the reported scores (Int scores, `<`) -/
theorem embedding_score_shift {α : Type} (c : Cfg α Int) (hlt : c.lt = fun a b => decide (a < b)) (k : Int)
    (f : Nat) (budget : Option Nat) (stack : List (E α Int)) :
    run (c.map (· + k) (fun a b => decide (a < b))) f budget (stack.map (E.map (· + k))) [] []
      = ((run c f budget stack [] []).1.map (fun o => (o.1, o.2.1, o.2.2 + k)), (run c f budget stack [] []).2) := by
  have h := run_map (· + k) (fun a b : Int => decide (a < b)) c (by intro a b; rw [hlt]; simp) f budget stack [] []
  simpa using h

/-- general form: any strictly monotone re-scoring -/
theorem rescoring_invariant {α S S' : Type} (φ : S → S') (lt' : S' → S' → Bool) (c : Cfg α S) (hφ : ∀ a b, lt' (φ a) (φ b) = c.lt a b)
    (f : Nat) (budget : Option Nat) (stack : List (E α S)) :
    (run (c.map φ lt') f budget (stack.map (E.map φ)) [] []).1.map (fun o => (o.1, o.2.1)) = (run c f budget stack [] []).1.map (fun o => (o.1, o.2.1)) := by
  have h := run_map φ lt' c hφ f budget stack [] []
  simp only [List.map_nil] at h
  rw [h]; simp [List.map_map, Function.comp_def]

/-- the rule wrapper spans exactly from the first argument's start to the last argument's end -/
theorem wrapper_span (name : String) (ts : Ts) (a : Art) (rest : List Art) (r : Art) (h : applyRule name ts (a :: rest) = .ok (some r)) :
    r.ms = a.ms ∧ r.me = ((a :: rest).getLast (by simp)).me := by
  unfold applyRule at h
  simp only [bind, Except.bind, pure, Except.pure] at h
  split at h
  · simp at h
  · split at h
    · simp at h
    · split at h
      · simp at h
      · have hl : (a :: rest).getLast? = some ((a :: rest).getLast (by simp)) := List.getLast?_eq_some_getLast (by simp)
        simp only [List.head?_cons, hl] at h
        simp at h
        subst h; exact ⟨rfl, rfl⟩

/-- token spans never end in a blank: the end is the start plus the length of the match text without trailing whitespace -/
theorem token_span_trimmed (p : Gen.Pat) (txt : List Nat) (m : Nat × Nat × Caps) :
    (tokOfMatch p txt m).me = m.1 + rstripLen (slice txt m.1 m.2.1) ∧ (tokOfMatch p txt m).ms = m.1 := by
  obtain ⟨s, e, cs⟩ := m
  simp [tokOfMatch]

theorem length_dropWhile_le_aux (q : Nat → Bool) : ∀ l : List Nat, (l.dropWhile q).length ≤ l.length := by
  intro l
  induction l with
  | nil => simp
  | cons c t ih => simp only [List.dropWhile]; split <;> simp <;> omega

theorem rstripLen_le (s : List Nat) : rstripLen s ≤ s.length := by
  unfold rstripLen
  have := length_dropWhile_le_aux isPySpace s.reverse
  simpa using this

/-- spans never leave the region the pattern matches occupy: if every match of the text lies in `[lo, hi]`, so does the span
    of every streamed candidate (every scorer, depth limit, `relative_match_len`, deadline) -/
theorem span_within_tokens {S : Type} (sc : Scorer S) (ts : Ts) (o : Opts) (txt : List Nat) (fuel : Nat) (lo hi : Nat)
    (hin : ∀ a ∈ matchRegex txt, lo ≤ a.ms ∧ a.me ≤ hi) :
    ∀ c ∈ (searchCore sc ts o txt fuel).1.1, lo ≤ c.res.ms ∧ c.res.ms < c.res.me ∧ c.res.me ≤ hi := by
  intro c hc
  obtain ⟨p, rules, hr, hm, _⟩ := C15.search_sound sc ts o txt fuel c hc
  have hinit : ∀ e ∈ (initialStack sc o.depth o.relMatchLenNum o.relMatchLenDen txt fuel).1, SpanIn lo hi e.prod := by
    intro e he
    have h0 := initialStack_span sc _ _ _ txt fuel e he
    have he' := he
    unfold initialStack at he'
    simp only at he'
    have h3 := mem_sortE _ _ _ (List.mem_filter.mp (mem_trunc _ _ _ he')).1
    simp only [List.mem_map] at h3
    obtain ⟨s, hs, rfl⟩ := h3
    refine ⟨⟨h0.1, ?_⟩, ?_⟩
    · intro a ha
      exact ⟨(h0.2 a ha).1, (hin a (regexStack_mem txt _ fuel s hs a ha)).2⟩
    · intro a ha
      exact (hin a (regexStack_mem txt _ fuel s hs a ha)).1
  have := reach_span_in sc ts o.depth txt lo hi _ hinit p _ rules hr
  exact ⟨this.2 c.res hm, (this.1.2 c.res hm).1, (this.1.2 c.res hm).2⟩

/-- **the span delimits exactly the expression**: every streamed candidate stands for a contiguous, non-empty block `b` of one of
    the initial gap-free match sequences of the text, and its span runs from the start of the block's first match to the
    (right-trimmed) end of its last — every scorer, depth limit, `relative_match_len`, deadline -/
theorem span_exact {S : Type} (sc : Scorer S) (ts : Ts) (o : Opts) (txt : List Nat) (fuel : Nat) :
    ∀ c ∈ (searchCore sc ts o txt fuel).1.1,
      ∃ e0 ∈ (initialStack sc o.depth o.relMatchLenNum o.relMatchLenDen txt fuel).1, ∃ pre b post a z,
        e0.prod = pre ++ b ++ post ∧ b.head? = some a ∧ b.getLast? = some z ∧ c.res.ms = a.ms ∧ c.res.me = z.me ∧
        (∀ k ∈ e0.prod, k ∈ matchRegex txt) := by
  intro c hc
  obtain ⟨p, rules, hr, hm, _⟩ := C15.search_sound sc ts o txt fuel c hc
  obtain ⟨e0, he0, hh⟩ := reach_hull sc ts o.depth txt _ p _ rules hr
  obtain ⟨pre, b, post, a, z, e, h1, h2, h3, h4⟩ := hh.mem c.res hm
  refine ⟨e0, he0, pre, b, post, a, z, e, h1, h2, h3, h4, ?_⟩
  intro k hk
  have he' := he0
  unfold initialStack at he'
  simp only at he'
  have h3' := mem_sortE _ _ _ (List.mem_filter.mp (mem_trunc _ _ _ he')).1
  simp only [List.mem_map] at h3'
  obtain ⟨s, hs, rfl⟩ := h3'
  exact regexStack_mem txt _ fuel s hs k hk

/-- the hull is not vacuous: a value over two matches spans both (kernel-evaluated on 'tomorrow 5pm') -/
example : ((searchCore constScorer ⟨⟨2018, 3, 7⟩, 12, 43⟩ {} [116, 111, 109, 111, 114, 114, 111, 119, 32, 53, 112, 109] 400).1.1.map fun c => (c.res.ms, c.res.me)).contains (0, 12) = true := by
  decide +kernel

end QuickAdd.C09
