import QuickAdd.Model.Rules
import QuickAdd.Lemmas.Cal
import QuickAdd.Props.C03
/-!
# C04 — partial dates resolve to the nearest future occurrence, written fields preserved

* weekday: `ruleLatentDOW` is the function of C03 (`atDOW_spec`/`atDOW_unique`): the unique X-day in (today, today+7].
* day of month `d`: the repaired `ruleLatentDOM` returns the first month (from the reference month on) in which
  day `d` exists and lies strictly after today (`latentDOM_spec`), such a month is always found within 13 tries
  (`latentDOM_total`), and **no date with day `d` lies strictly between today and the result** (`latentDOM_nearest`).
* day + month: the repaired `ruleLatentDOY` returns the first year (from the reference year on) in which that
  day exists and is not before today (`latentDOY_spec`), found within 9 years incl. 29 Feb (`latentDOY_total`).
* part of day: today if the part of day has not started yet, else tomorrow; the part of day is kept (`latentPOD_spec`).
-/
namespace QuickAdd.C04
open QuickAdd

/-- month index ↦ (year, month) -/
def ymd (mi d : Int) : Date := ⟨mi / 12, mi % 12 + 1, d⟩

theorem latentDOMLoop_spec (ts : Ts) (d : Int) : ∀ (f : Nat) (mi : Int) (c : Date),
    latentDOMLoop ts d f mi = some c →
      ∃ r, mi ≤ r ∧ c = ymd r d ∧ d ≤ dim (r / 12) (r % 12 + 1) ∧ ts.date.ord < c.ord ∧
        ∀ k, mi ≤ k → k < r → ¬ (d ≤ dim (k / 12) (k % 12 + 1) ∧ ts.date.ord < (ymd k d).ord) := by
  intro f
  induction f with
  | zero => intro mi c h; simp [latentDOMLoop] at h
  | succ f ih =>
    intro mi c h
    simp only [latentDOMLoop] at h
    split at h
    · rename_i hc
      simp at h; subst h
      simp only [Bool.and_eq_true, decide_eq_true_eq] at hc
      exact ⟨mi, Int.le_refl _, rfl, hc.1, hc.2, fun k h1 h2 => by omega⟩
    · rename_i hc
      obtain ⟨r, h1, h2, h3, h4, h5⟩ := ih (mi+1) c h
      refine ⟨r, by omega, h2, h3, h4, ?_⟩
      intro k hk1 hk2
      by_cases hkm : k = mi
      · subst hkm
        simpa [Bool.and_eq_true, decide_eq_true_eq, ymd] using hc
      · exact h5 k (by omega) hk2

/-- the day of month that was written is the day of the result -/
theorem latentDOM_day (ts : Ts) (d : Int) (f : Nat) (mi : Int) (c : Date) (h : latentDOMLoop ts d f mi = some c) : c.d = d := by
  obtain ⟨r, _, h2, _⟩ := latentDOMLoop_spec ts d f mi c h
  rw [h2]; rfl

/-- month indices order dates: a date in an earlier month has a smaller ordinal -/
theorem ord_lt_of_month_lt (x z : Date) (hx : x.Valid) (hz : z.Valid) (h : 12 * x.y + (x.m - 1) < 12 * z.y + (z.m - 1)) : x.ord < z.ord := by
  obtain ⟨x1, x2, x3, x4⟩ := hx
  obtain ⟨z1, z2, z3, z4⟩ := hz
  by_cases hy : x.y < z.y
  · exact ord_strict_year x z ⟨x1, x2, x3, x4⟩ ⟨z1, z2, z3, z4⟩ hy
  · have hy' : x.y = z.y := by omega
    have hm : x.m < z.m := by omega
    have := dbm_mono x.y x.m z.m x1 hm z2
    rw [hy'] at this
    have x4' : x.d ≤ dim z.y x.m := hy' ▸ x4
    unfold Date.ord; rw [hy']; omega

/-- **nearest**: no valid date with the written day lies strictly between today and the result -/
theorem latentDOM_nearest (ts : Ts) (hv : ts.date.Valid) (d : Int) (c : Date)
    (h : latentDOMLoop ts d 13 (12 * ts.date.y + (ts.date.m - 1)) = some c)
    (z : Date) (hz : z.Valid) (hzd : z.d = d) (h1 : ts.date.ord < z.ord) (h2 : z.ord < c.ord) : False := by
  obtain ⟨r, hr1, hr2, hr3, hr4, hr5⟩ := latentDOMLoop_spec ts d 13 _ c h
  obtain ⟨z1, z2, z3, z4⟩ := hz
  have hcv : c.Valid := by
    rw [hr2]; refine ⟨by simp [ymd]; omega, by simp [ymd]; omega, ?_, by simpa [ymd] using hr3⟩
    simp [ymd]; omega
  -- month index of z
  have hk0 : z = ymd (12 * z.y + (z.m - 1)) d := by
    cases z; simp only [ymd] at *; subst hzd
    congr 1 <;> omega
  by_cases hlo : 12 * z.y + (z.m - 1) < 12 * ts.date.y + (ts.date.m - 1)
  · have := ord_lt_of_month_lt z ts.date ⟨z1, z2, z3, z4⟩ hv hlo; omega
  · by_cases hhi : 12 * z.y + (z.m - 1) < r
    · apply hr5 (12 * z.y + (z.m - 1)) (by omega) hhi
      refine ⟨?_, ?_⟩
      · have e1 : (12 * z.y + (z.m - 1)) / 12 = z.y := by omega
        have e2 : (12 * z.y + (z.m - 1)) % 12 + 1 = z.m := by omega
        rw [e1, e2, ← hzd]; exact z4
      · rw [← hk0]; exact h1
    · -- same month or later: not before the result
      have hcy : 12 * c.y + (c.m - 1) = r := by rw [hr2]; simp [ymd]; omega
      by_cases heq : 12 * z.y + (z.m - 1) = r
      · have : z = c := by rw [hk0, hr2, heq]
        rw [this] at h2; omega
      · have := ord_lt_of_month_lt c z hcv ⟨z1, z2, z3, z4⟩ (by omega); omega

/-- a month with 31 days starts within the next 12 months, so 13 tries always suffice (1 ≤ d ≤ 31) -/
theorem latentDOM_total (ts : Ts) (hv : ts.date.Valid) (d : Int) (hd1 : 1 ≤ d) (hd2 : d ≤ 31) :
    ∃ c, latentDOMLoop ts d 13 (12 * ts.date.y + (ts.date.m - 1)) = some c := by
  -- generic: if month `s + j` qualifies, a search with fuel > j from `s` succeeds
  have gen : ∀ (f : Nat) (s : Int) (j : Nat), j < f →
      (d ≤ dim ((s + j) / 12) ((s + j) % 12 + 1) ∧ ts.date.ord < (ymd (s + j) d).ord) →
      ∃ c, latentDOMLoop ts d f s = some c := by
    intro f
    induction f with
    | zero => intro s j hj; omega
    | succ f ih =>
      intro s j hj hq
      simp only [latentDOMLoop]
      split
      · exact ⟨_, rfl⟩
      · rename_i hc
        cases j with
        | zero =>
          simp only [Bool.and_eq_true, decide_eq_true_eq, not_and, Int.not_lt] at hc
          simp [ymd] at hq
          have := hc hq.1; omega
        | succ j =>
          have e : s + ((j + 1 : Nat) : Int) = (s + 1) + (j : Int) := by push_cast; omega
          rw [e] at hq
          exact ih (s + 1) j (by omega) hq
  -- the next January
  let mi := 12 * ts.date.y + (ts.date.m - 1)
  obtain ⟨m1, m2, _, _⟩ := hv
  have hj : ∃ j : Nat, 1 ≤ j ∧ j ≤ 12 ∧ (mi + j) % 12 = 0 := ⟨(12 - (ts.date.m - 1)).toNat, by omega, by omega, by simp only [mi]; omega⟩
  obtain ⟨j, hj1, hj2, hj3⟩ := hj
  apply gen 13 mi j (by omega)
  have hm : (mi + j) % 12 + 1 = 1 := by omega
  refine ⟨by rw [hm]; simp [dim]; exact hd2, ?_⟩
  have hzv : (ymd (mi + j) d).Valid := by
    refine ⟨by simp [ymd]; omega, by simp [ymd]; omega, by simpa [ymd] using hd1, ?_⟩
    simp only [ymd]; rw [hm]; simp [dim]; exact hd2
  apply ord_lt_of_month_lt ts.date _ ⟨m1, m2, ‹_›, ‹_›⟩ hzv
  simp only [ymd]; omega

/-- the production itself: succeeds, keeps the written day, lands strictly after today -/
theorem ruleLatentDOM_spec (ts : Ts) (hv : ts.date.Valid) (hy : 1 ≤ ts.date.y ∧ ts.date.y ≤ 9997) (d : Int) (hd1 : 1 ≤ d) (hd2 : d ≤ 31) :
    ∃ c : Date, ruleLatentDOM ts { day := some d } = .ok (some (.time (tsTime c))) ∧ c.d = d ∧ ts.date.ord < c.ord ∧
      latentDOMLoop ts d 13 (12 * ts.date.y + (ts.date.m - 1)) = some c := by
  obtain ⟨c, hc⟩ := latentDOM_total ts hv d hd1 hd2
  obtain ⟨r, hr1, hr2, hr3, hr4, hr5⟩ := latentDOMLoop_spec ts d 13 _ c hc
  refine ⟨c, ?_, latentDOM_day ts d _ _ c hc, hr4, hc⟩
  -- the year of the result is at most one more than the reference year: search within 13 months
  have hr13 : r ≤ 12 * ts.date.y + (ts.date.m - 1) + 12 := by
    -- the next January (≤ 12 months ahead) qualifies, so the first qualifying index is not later
    obtain ⟨m1, m2, d1, d2⟩ := hv
    by_cases hle : r ≤ 12 * ts.date.y + (ts.date.m - 1) + 12
    · exact hle
    · exfalso
      let j : Int := 12 - (ts.date.m - 1)
      have hjm : (12 * ts.date.y + (ts.date.m - 1) + j) % 12 + 1 = 1 := by simp only [j]; omega
      apply hr5 (12 * ts.date.y + (ts.date.m - 1) + j) (by simp only [j]; omega) (by simp only [j]; omega)
      refine ⟨by rw [hjm]; simp [dim]; exact hd2, ?_⟩
      have hzv : (ymd (12 * ts.date.y + (ts.date.m - 1) + j) d).Valid := by
        refine ⟨by simp [ymd]; omega, by simp [ymd]; omega, by simpa [ymd] using hd1, ?_⟩
        simp only [ymd]; rw [hjm]; simp [dim]; exact hd2
      apply ord_lt_of_month_lt ts.date _ ⟨m1, m2, d1, d2⟩ hzv
      simp only [ymd, j]; omega
  have hcr : c.inRange = true := by
    obtain ⟨m1, m2, _, _⟩ := hv
    have e1 : 1 ≤ r / 12 := by omega
    have e2 : r / 12 ≤ 9999 := by omega
    rw [hr2]; simp [ymd, Date.inRange, e1, e2]
  simp [ruleLatentDOM, need, hc, dateOk, hcr, bind, Except.bind, pure, Except.pure]

/-! ### day + month -/
theorem latentDOYLoop_spec (ts : Ts) (m d : Int) : ∀ (f : Nat) (y : Int) (c : Date),
    latentDOYLoop ts m d f y = some c →
      ∃ r, y ≤ r ∧ c = ⟨r, m, d⟩ ∧ d ≤ dim r m ∧ ts.date.ord ≤ c.ord ∧
        ∀ k, y ≤ k → k < r → ¬ (d ≤ dim k m ∧ ts.date.ord ≤ (⟨k, m, d⟩ : Date).ord) := by
  intro f
  induction f with
  | zero => intro y c h; simp [latentDOYLoop] at h
  | succ f ih =>
    intro y c h
    simp only [latentDOYLoop] at h
    split at h
    · rename_i hc
      simp at h; subst h
      simp only [Bool.and_eq_true, decide_eq_true_eq] at hc
      exact ⟨y, Int.le_refl _, rfl, hc.1, hc.2, fun k h1 h2 => by omega⟩
    · rename_i hc
      obtain ⟨r, h1, h2, h3, h4, h5⟩ := ih (y+1) c h
      refine ⟨r, by omega, h2, h3, h4, ?_⟩
      intro k hk1 hk2
      by_cases hkm : k = y
      · subst hkm
        simpa [Bool.and_eq_true, decide_eq_true_eq] using hc
      · exact h5 k (by omega) hk2

/-- among any 9 consecutive years one is a leap year -/
theorem leap_within_9 (y : Int) : ∃ k : Nat, 1 ≤ k ∧ k < 9 ∧ isLeap (y + k) = true := by
  have h : ∃ k : Nat, 1 ≤ k ∧ k ≤ 4 ∧ (y + k) % 4 = 0 := ⟨(4 - y % 4).toNat, by omega, by omega, by omega⟩
  obtain ⟨k, hk1, hk2, hk3⟩ := h
  by_cases h100 : (y + k) % 100 = 0
  · by_cases h400 : (y + k) % 400 = 0
    · exact ⟨k, hk1, by omega, by simp [isLeap, hk3, h100, h400]⟩
    · refine ⟨k + 4, by omega, by omega, ?_⟩
      have a : (y + ((k : Int) + 4)) % 4 = 0 := by omega
      have b : (y + ((k : Int) + 4)) % 100 ≠ 0 := by omega
      simp [isLeap]; left; exact ⟨a, b⟩
  · exact ⟨k, hk1, by omega, by simp [isLeap, hk3, h100]⟩

/-- the search over 9 years always finds the day (incl. 29 Feb): a year strictly after the reference year in
    which the day exists is in the future -/
theorem latentDOY_total (ts : Ts) (hv : ts.date.Valid) (m d : Int) (hm : 1 ≤ m ∧ m ≤ 12) (hd1 : 1 ≤ d) (hd2 : d ≤ dim 2000 m) :
    ∃ c, latentDOYLoop ts m d 9 ts.date.y = some c := by
  have gen : ∀ (f : Nat) (s : Int) (j : Nat), j < f →
      (d ≤ dim (s + j) m ∧ ts.date.ord ≤ (⟨s + j, m, d⟩ : Date).ord) → ∃ c, latentDOYLoop ts m d f s = some c := by
    intro f
    induction f with
    | zero => intro s j hj; omega
    | succ f ih =>
      intro s j hj hq
      simp only [latentDOYLoop]
      split
      · exact ⟨_, rfl⟩
      · rename_i hc
        cases j with
        | zero =>
          simp only [Bool.and_eq_true, decide_eq_true_eq, not_and, Int.not_le] at hc
          simp at hq
          have := hc hq.1; omega
        | succ j =>
          have e : s + ((j + 1 : Nat) : Int) = (s + 1) + (j : Int) := by push_cast; omega
          rw [e] at hq
          exact ih (s + 1) j (by omega) hq
  obtain ⟨k, hk1, hk2, hk3⟩ := leap_within_9 ts.date.y
  apply gen 9 ts.date.y k hk2
  have hdim : d ≤ dim (ts.date.y + k) m := by
    have : dim (ts.date.y + k) m = dim 2000 m := by
      unfold dim; simp [hk3]; rfl
    rw [this]; exact hd2
  refine ⟨hdim, ?_⟩
  have hzv : (⟨ts.date.y + k, m, d⟩ : Date).Valid := ⟨hm.1, hm.2, hd1, hdim⟩
  have := ord_strict_year ts.date ⟨ts.date.y + k, m, d⟩ hv hzv (by simp; omega)
  omega

/-- part of day: kept; today if it has not started yet (start hour after the reference minute), else tomorrow -/
theorem latentPOD_spec (ts : Ts) (p : String) (hFrom hTo : Int) (hp : podLookup p = some (hFrom, hTo)) (hh : 0 ≤ hFrom ∧ hFrom ≤ 23)
    (h1 : 1 ≤ ts.date.ord) (h2 : ts.date.ord + 1 ≤ maxOrd) (hv : ts.date.Valid) (hr : ts.date.inRange = true) :
    ∃ c : Date, ruleLatentPOD ts { pod := some p } = .ok (some (.time { tsTime c with pod := some p })) ∧
      (if hFrom * 60 ≤ ts.h * 60 + ts.mi then c.ord = ts.date.ord + 1 ∧ c.Valid else c = ts.date) := by
  by_cases hc : hFrom * 60 ≤ ts.h * 60 + ts.mi
  · obtain ⟨av, ao⟩ := addDays_spec ts.date 1 (by omega) (by omega)
    have hr' := C03.inRange_of_ord _ av (by omega) (by omega)
    refine ⟨ts.date.addDays 1, ?_, by simp [hc, av, ao]⟩
    have hb : (0 ≤ hFrom && hFrom ≤ 23) = true := by simp; omega
    simp [ruleLatentPOD, needS, hp, hb, hc, dateOk, hr', bind, Except.bind, pure, Except.pure]
  · refine ⟨ts.date, ?_, by simp [hc]⟩
    have hb : (0 ≤ hFrom && hFrom ≤ 23) = true := by simp; omega
    simp [ruleLatentPOD, needS, hp, hb, hc, dateOk, hr, bind, Except.bind, pure, Except.pure]

/-- non-vacuity and the repaired clipping cases of DESIGN §8 D9 -/
example : ruleLatentDOM ⟨⟨2019, 2, 10⟩, 12, 0⟩ { day := some 31 } = .ok (some (.time (tsTime ⟨2019, 3, 31⟩))) := by decide +kernel
example : ruleLatentDOM ⟨⟨2019, 1, 30⟩, 12, 0⟩ { day := some 30 } = .ok (some (.time (tsTime ⟨2019, 3, 30⟩))) := by decide +kernel
example : ruleLatentDOY ⟨⟨2018, 12, 20⟩, 12, 0⟩ { month := some 2, day := some 29 } = .ok (some (.time (tsTime ⟨2020, 2, 29⟩))) := by decide +kernel
example : ruleLatentDOY ⟨⟨2023, 3, 5⟩, 9, 30⟩ { month := some 3, day := some 5 } = .ok (some (.time (tsTime ⟨2023, 3, 5⟩))) := by decide +kernel

end QuickAdd.C04
