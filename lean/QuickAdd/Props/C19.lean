import QuickAdd.Model.Rules
import QuickAdd.Lemmas.Regex
import QuickAdd.Lemmas.RegexFuel
import QuickAdd.Gen.RegexTable
import QuickAdd.Gen.RuleSigs
import QuickAdd.Gen.Vocab
/-!
# C19 — the rule base is structurally sound and the shipped model speaks its language

Every theorem is a kernel evaluation over **generated** data (the live registry, the syntax tree of
`ctparse/time/rules.py`, the compiled patterns, the pickled vocabulary), lifted by engine lemmas where the
claim is about all texts.  `no_zero_length_match` is strictly stronger than the decorator's `match("")` test:
no shipped pattern yields a zero-length match on **any** text at **any** offset.
-/
namespace QuickAdd.C19
open QuickAdd Gen

/-- all patterns were translated (none outside the modelled regex subset) -/
theorem all_translated : untranslatable = [] := by decide

/-- every shipped pattern has positive minimal length … -/
theorem table_nonnull : (table.all fun p => decide (0 < minLen p.rx)) = true := by decide +kernel

/-- … hence no pattern of the table yields a zero-length match, for every text and every offset -/
theorem no_zero_length_match (p : Pat) (hp : p ∈ table) (s : List Nat) (m : Nat × Nat × Caps) (hm : m ∈ findAll rxTabs p.rx s) : m.1 < m.2.1 := by
  have h := List.all_eq_true.mp table_nonnull p hp
  exact findAll_nonempty rxTabs p.rx (by simpa using h) s m hm

/-- **the matcher's fuel is sufficient**: for every table set, pattern, text and offset, running the matcher with more fuel
    than `matchAt` uses never changes the answer — `matchAt` is the fuel-free priority semantics of the pattern, so no theorem
    about `findAll` is true "because the fuel ran out" (`Lemmas/RegexFuel`: nesting depth ≤ pattern size · (remaining length + 1)) -/
theorem matcher_fuel_sufficient (T : Tabs) (r : Rx) (st : St) (f : Nat) (hf : fuelFor r st.rest.length ≤ f) :
    mtc T f r st [] (fun st' cs' => some (st'.pos, cs')) = matchAt T r st := matchAt_fuel_indep T r st f hf

def noAdjacent : List Pred → Bool
  | .regex _ :: .regex b :: rest => false && noAdjacent (.regex b :: rest)
  | _ :: rest => noAdjacent rest
  | [] => true

/-- no rule has two adjacent patterns -/
theorem no_adjacent_regex : (ruleSigs.all fun r => noAdjacent r.2) = true := by decide +kernel

/-- every `@rule` definition in the source is registered, names are unique, pattern lengths agree -/
theorem defs_registered :
    (ruleDefs.map (·.1)).Nodup ∧ ruleDefs.map (·.1) = ruleSigs.map (·.1) ∧ ruleDefs.map (·.2) = ruleSigs.map (·.2.length) := by
  refine ⟨by decide +kernel, by decide +kernel, by decide +kernel⟩

/-- identical pattern text shares one identifier: the text ↦ id map is injective both ways and covers the table -/
theorem ids_shared :
    (strRegexPairs.map (·.1)).Nodup ∧ (strRegexPairs.map (·.2)).Nodup ∧ table.map (·.id) = regexCompiledIds ∧
    (table.all fun p => strRegexPairs.contains (p.src, p.id)) = true := by
  refine ⟨by decide +kernel, by decide +kernel, by decide +kernel, by decide +kernel⟩

/-- every registered rule is modelled, and every pattern a rule refers to is in the table -/
theorem sigs_modelled :
    (ruleSigs.all fun r => (RuleId.ofName r.1).isSome && r.2.all fun p => match p with | .regex i => table.any (·.id == i) | .other _ => false | _ => true) = true := by
  decide +kernel

/-- every token of the shipped vocabulary names an existing pattern id or rule -/
theorem vocab_known :
    (vocabUnigrams.all fun w => ruleSigs.any (·.1 == w) || table.any (fun p => toString p.id == w)) = true := by decide +kernel

/-- the part-of-day table is what the recursion of `_mk_pod_hours` builds from the nested dictionary, and all its hours are clock hours -/
def dictSet (k : String) (v : Int × Int) : List (String × Int × Int) → List (String × Int × Int)
  | [] => [(k, v.1, v.2)]
  | (k', a, b) :: t => if k' = k then (k, v.1, v.2) :: t else (k', a, b) :: dictSet k v t
/-- Python `dict.update` over the pairs in order: a repeated key keeps its position and takes the later value -/
def dictOf (l : List (String × Int × Int)) : List (String × Int × Int) := l.foldl (fun acc e => dictSet e.1 (e.2.1, e.2.2) acc) []
theorem pod_table_generated : dictOf mkPodHours = podHours := by decide +kernel
theorem pod_hours_in_range : (podHours.all fun e => decide (0 ≤ e.2.1 ∧ e.2.1 ≤ 23 ∧ 0 ≤ e.2.2 ∧ e.2.2 ≤ 23)) = true := by decide +kernel

/-- every part of day the modifier rule can build is a key of the table (the repaired guard of DESIGN §8 D3) -/
theorem pod_closed (k : Tok) (p t : Time) (h : ruleEarlyLatePOD k p = .ok (some (.time t))) : ∃ q hrs, t.pod = some q ∧ podLookup q = some hrs := by
  unfold ruleEarlyLatePOD at h
  cases hp : p.pod with
  | none => simp [hp, needS, bind, Except.bind] at h
  | some s =>
    simp only [hp, needS, bind, Except.bind, pure, Except.pure] at h
    split at h
    · simp at h
    · rename_i hl
      simp at h
      cases hq : podLookup (podFromMatch s k) with
      | none => simp [hq] at hl
      | some hrs => exact ⟨_, hrs, by rw [← h], hq⟩

/-- the base parts of day produced by the part-of-day pattern are table keys -/
theorem base_pods_known : (pods.all fun p => (podLookup p).isSome) = true := by decide +kernel

/-- weekday / month / named-hour tables have the expected sizes (indices 0–6, 1–12, 1–12) -/
theorem table_sizes : dows.length = 7 ∧ months.length = 12 ∧ namedTs = [1, 2, 3, 4, 5, 6, 7, 8, 9, 10, 11, 12] := by decide

end QuickAdd.C19
