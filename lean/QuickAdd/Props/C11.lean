import QuickAdd.Lemmas.Pre
import QuickAdd.Lemmas.Regex
import QuickAdd.Gen.RegexTable
/-!
# C11 — separators, brackets, dash variants and letter case never change the result

The class facts are decided by verified range-list checkers evaluated by the kernel on the **generated**
tables (every code point of the two substitution classes, enumerated through the compiled patterns), so they
hold for every code point, not a sample.  From them: the normalisation is idempotent (`pre_idem`), its output has
no separator but single blanks and no dash but single '-' (`pre_normal_form`), any non-empty run of separators
is equivalent to any other and to one blank (`sep_run_equiv`), likewise dashes (`dash_run_equiv`).
Case: for every shipped pattern, every text and every position the priority match (span and captures) is
unchanged when ASCII and Latin-1 letters change case (`match_case_invariant`).
Partial: that the productions read only group presence and digits of a token (so equal matches give equal values)
is tied by the `rules` correspondence with mixed-case tokens, not proved; multi-character case folds (ß/ẞ, ligatures)
are outside the model's domain (DESIGN §9).
-/
namespace QuickAdd.C11
open QuickAdd Gen

/-! ### verified range-list checkers -/
def disjointR (a b : Ranges) : Bool := a.all fun ra => b.all fun rb => decide (ra.2 < rb.1) || decide (rb.2 < ra.1)
def subsetR (a b : Ranges) : Bool := a.all fun ra => b.any fun rb => decide (rb.1 ≤ ra.1) && decide (ra.2 ≤ rb.2)

theorem disjointR_sound (a b : Ranges) (h : disjointR a b = true) (x : Nat) (ha : inRanges a x = true) : inRanges b x = false := by
  unfold inRanges at *
  simp only [List.any_eq_true, Bool.and_eq_true, decide_eq_true_eq] at ha
  obtain ⟨ra, hra, h1, h2⟩ := ha
  have hall := List.all_eq_true.mp h ra hra
  cases hb : b.any fun r => decide (r.1 ≤ x) && decide (x ≤ r.2) with
  | false => rfl
  | true =>
    simp only [List.any_eq_true, Bool.and_eq_true, decide_eq_true_eq] at hb
    obtain ⟨rb, hrb, h3, h4⟩ := hb
    have := List.all_eq_true.mp hall rb hrb
    simp only [Bool.or_eq_true, decide_eq_true_eq] at this
    omega

theorem subsetR_sound (a b : Ranges) (h : subsetR a b = true) (x : Nat) (ha : inRanges a x = true) : inRanges b x = true := by
  unfold inRanges at *
  simp only [List.any_eq_true, Bool.and_eq_true, decide_eq_true_eq] at ha ⊢
  obtain ⟨ra, hra, h1, h2⟩ := ha
  have hany := List.all_eq_true.mp h ra hra
  simp only [List.any_eq_true, Bool.and_eq_true, decide_eq_true_eq] at hany
  obtain ⟨rb, hrb, h3, h4⟩ := hany
  exact ⟨rb, hrb, by omega, by omega⟩

/-! ### facts about the shipped classes (all code points) -/
theorem shape_ok : preShapeOk = true := by decide
theorem blank_is_sep : isSep 32 = true := by decide +kernel
theorem hyphen_is_dash : isDash 45 = true := by decide +kernel
theorem hyphen_not_sep : isSep 45 = false := by decide +kernel
theorem classes_disjoint_check : disjointR dashClass sepClass = true := by decide +kernel
theorem dash_not_sep (x : Nat) (h : isDash x = true) : isSep x = false := disjointR_sound _ _ classes_disjoint_check x h
theorem space_is_sep_check : subsetR pySpace sepClass = true := by decide +kernel
/-- every `str.isspace` code point (what `strip` removes, what `\s` of the splitters sees) is a separator -/
theorem space_is_sep (x : Nat) (h : isPySpace x = true) : isSep x = true := subsetR_sound _ _ space_is_sep_check x h
/-- commas, semicolons, tabs, newlines, NUL, the usual brackets are separators; en/em dashes are dashes -/
theorem usual_separators : ([44, 59, 9, 10, 13, 0, 40, 41, 91, 93, 123, 125, 160, 8203, 12288].all isSep) = true := by decide +kernel
theorem usual_dashes : ([45, 8208, 8209, 8210, 8211, 8212, 8213, 8259, 65112, 65123, 65293].all isDash) = true := by decide +kernel

/-! ### the normalisation -/
/-- normalising an already normalised text changes nothing — for every text -/
theorem pre_idem (t : List Nat) : preprocess (preprocess t) = preprocess t :=
  preprocess_idem isSep isDash isPySpace blank_is_sep hyphen_is_dash dash_not_sep hyphen_not_sep t

/-- the output contains no separator except single inner blanks and no dash except single '-' -/
theorem pre_normal_form (t : List Nat) : NF isSep 32 (preprocess t) ∧ NF isDash 45 (preprocess t) :=
  preprocess_nf isSep isDash isPySpace blank_is_sep hyphen_is_dash dash_not_sep hyphen_not_sep t

/-- any non-empty run of separators (whitespace, commas, semicolons, control characters, brackets) is equivalent to any
    other, in particular to one blank -/
theorem sep_run_equiv (pre run1 run2 rest : List Nat) (h1 : ∀ x ∈ run1, isSep x = true) (h2 : ∀ x ∈ run2, isSep x = true)
    (n1 : run1 ≠ []) (n2 : run2 ≠ []) : preprocess (pre ++ run1 ++ rest) = preprocess (pre ++ run2 ++ rest) := by
  unfold preprocess preprocessWith
  rw [collapse_run_equiv isSep 32 pre run1 run2 rest h1 h2 n1 n2]

theorem sep_run_blank (pre run rest : List Nat) (h : ∀ x ∈ run, isSep x = true) (n : run ≠ []) :
    preprocess (pre ++ run ++ rest) = preprocess (pre ++ [32] ++ rest) :=
  sep_run_equiv pre run [32] rest h (by intro x hx; simp at hx; subst hx; exact blank_is_sep) n (by simp)

/-- every Unicode dash (and any run of dashes) is equivalent to '-' — on texts that are already separator-normal -/
theorem dash_run_equiv (pre run1 run2 rest : List Nat) (h1 : ∀ x ∈ run1, isDash x = true) (h2 : ∀ x ∈ run2, isDash x = true)
    (n1 : run1 ≠ []) (n2 : run2 ≠ []) :
    collapse isDash 45 (pre ++ run1 ++ rest) = collapse isDash 45 (pre ++ run2 ++ rest) :=
  collapse_run_equiv isDash 45 pre run1 run2 rest h1 h2 n1 n2

/-! ### letter case -/
/-- lower-casing of ASCII and Latin-1 letters (the letters the shipped patterns use) -/
def lowerLatin (x : Nat) : Nat := if (65 ≤ x ∧ x ≤ 90) ∨ (192 ≤ x ∧ x ≤ 222 ∧ x ≠ 215) then x + 32 else x
def support : List Nat := (List.range 26).map (· + 65) ++ ((List.range 31).map (· + 192)).filter (· != 215)

theorem lower_off_support (x : Nat) (h : x ∉ support) : lowerLatin x = x := by
  unfold lowerLatin
  split
  · rename_i hc
    exfalso; apply h
    simp only [support, List.mem_append, List.mem_map, List.mem_range, List.mem_filter, bne_iff_ne, ne_eq]
    rcases hc with hc | hc
    · left; exact ⟨x - 65, by omega, by omega⟩
    · right; exact ⟨⟨x - 192, by omega, by omega⟩, hc.2.2⟩
  · rfl

/-- atom-preservation checked on the finite support of the map -/
def atomsOkB (T : Tabs) (f : Nat → Nat) (sup : List Nat) : Rx → Bool
  | .eps => true
  | .lit alts => sup.all fun x => alts.contains (f x) == alts.contains x
  | .cls neg items => sup.all fun x => clsMatch T neg items (f x) == clsMatch T neg items x
  | .seq a b => atomsOkB T f sup a && atomsOkB T f sup b
  | .alt a b => atomsOkB T f sup a && atomsOkB T f sup b
  | .opt a => atomsOkB T f sup a
  | .star a => atomsOkB T f sup a
  | .plus a => atomsOkB T f sup a
  | .grp _ a => atomsOkB T f sup a
  | .nla a => atomsOkB T f sup a
  | .nlb a => atomsOkB T f sup a
  | .wordb => true

theorem atomsOkB_sound (T : Tabs) (f : Nat → Nat) (sup : List Nat) (hoff : ∀ x, x ∉ sup → f x = x) :
    ∀ r, atomsOkB T f sup r = true → atomsOk T f r := by
  intro r
  induction r with
  | eps => intro _; trivial
  | lit alts =>
    intro h x
    by_cases hx : x ∈ sup
    · have := List.all_eq_true.mp h x hx; simpa using this
    · rw [hoff x hx]
  | cls neg items =>
    intro h x
    by_cases hx : x ∈ sup
    · have := List.all_eq_true.mp h x hx; simpa using this
    · rw [hoff x hx]
  | seq a b iha ihb => intro h; simp only [atomsOkB, Bool.and_eq_true] at h; exact ⟨iha h.1, ihb h.2⟩
  | alt a b iha ihb => intro h; simp only [atomsOkB, Bool.and_eq_true] at h; exact ⟨iha h.1, ihb h.2⟩
  | opt a ih => intro h; exact ih h
  | star a ih => intro h; exact ih h
  | plus a ih => intro h; exact ih h
  | grp i a ih => intro h; exact ih h
  | nla a ih => intro h; exact ih h
  | nlb a ih => intro h; exact ih h
  | wordb => intro _; trivial

theorem table_case_ok : (table.all fun p => atomsOkB rxTabs lowerLatin support p.rx) = true := by decide +kernel
theorem word_case_ok_check : (support.all fun x => isWord rxTabs (lowerLatin x) == isWord rxTabs x) = true := by decide +kernel
theorem word_case_ok (x : Nat) : isWord rxTabs (lowerLatin x) = isWord rxTabs x := by
  by_cases hx : x ∈ support
  · have := List.all_eq_true.mp word_case_ok_check x hx; simpa using this
  · rw [lower_off_support x hx]

/-- **case invariance of every shipped pattern**: on every text, at every position, the priority match (end offset and all
    captures) of the lower-cased text equals that of the original text -/
theorem match_case_invariant (p : Pat) (hp : p ∈ table) (st : St) :
    matchAt rxTabs p.rx (st.map lowerLatin) = matchAt rxTabs p.rx st := by
  have h := List.all_eq_true.mp table_case_ok p hp
  exact matchAt_congr rxTabs lowerLatin word_case_ok p.rx (atomsOkB_sound rxTabs lowerLatin support lower_off_support p.rx h) st

example : preprocess [32, 40, 116, 111, 109, 44, 59, 9, 53, 8212, 8211, 55, 41, 32] = [116, 111, 109, 32, 53, 45, 55] := by decide +kernel

end QuickAdd.C11
