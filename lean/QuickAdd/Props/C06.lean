import QuickAdd.Model.Rules
import QuickAdd.Lemmas.Cal
import QuickAdd.Props.C03
/-!
# C06 — clock notations: am/pm adjustment, quarter/half, hour + part of day, latent anchoring

`ampm_spec`: 12 am = 0, h am = h (h < 12), 12 pm = 12, h pm = h + 12 (h < 12) — for every minute.
`latentTod_spec`: with anchoring the result is **the** time with that hour:minute strictly after the reference
minute and at most 24 h later (existence, range and uniqueness), incl. month/year roll-over.
`latent_off`: without anchoring the value is untouched (the production never mentions the reference time).
Lexical coverage of each notation (that the shipped patterns read "h:mm am" as these groups) is decided by the
`rx`/`rules` correspondence and the sweep over all 1440 minutes; ranking is swept, not proved.
-/
namespace QuickAdd.C06
open QuickAdd

/-- the am/pm table of the property, for every hour 0–23 and every minute value -/
theorem ampm_spec (h : Int) (mi : Option Int) (hh : 0 ≤ h ∧ h ≤ 23) :
    applyAmPm { hour := some h, minute := mi } (some [97, 109]) =
      (if h = 12 then { hour := some 0, minute := mi } else { hour := some h, minute := mi }) ∧
    applyAmPm { hour := some h, minute := mi } (some [112, 109]) =
      (if h = 0 then { hour := some 0, minute := mi } else if h < 12 then { hour := some (h + 12), minute := mi } else { hour := some h, minute := mi }) := by
  constructor
  · by_cases h12 : h = 12
    · subst h12; simp [applyAmPm, truthy]
    · by_cases h0 : h = 0
      · subst h0; simp [applyAmPm, truthy]
      · simp [applyAmPm, truthy, h0, h12]
  · by_cases h0 : h = 0
    · subst h0; simp [applyAmPm, truthy]
    · by_cases hl : h < 12
      · simp [applyAmPm, truthy, h0, hl]
      · simp [applyAmPm, truthy, h0, hl]

/-- upper-case and dotted spellings: only the first code point of the captured text matters -/
theorem ampm_first_cp (t : Time) (c : Nat) (rest rest' : List Nat) : applyAmPm t (some (c :: rest)) = applyAmPm t (some (c :: rest')) := by
  simp [applyAmPm]

/-- no am/pm text: unchanged -/
theorem ampm_none (t : Time) : applyAmPm t none = t := by
  unfold applyAmPm; split <;> rfl

/-- quarter / half before and after the hour -/
theorem quarter_half_spec (h : Int) (hh : 1 ≤ h ∧ h ≤ 23) :
    ruleQuarterBeforeHH { hour := some h, minute := some 0 } = .ok (some (.time { hour := some (h - 1), minute := some 45 })) ∧
    ruleQuarterAfterHH { hour := some h, minute := some 0 } = .ok (some (.time { hour := some h, minute := some 15 })) ∧
    ruleHalfBeforeHH { hour := some h, minute := none } = .ok (some (.time { hour := some (h - 1), minute := some 30 })) ∧
    ruleHalfAfterHH { hour := some h, minute := some 0 } = .ok (some (.time { hour := some h, minute := some 30 })) := by
  have : h > 0 := by omega
  simp [ruleQuarterBeforeHH, ruleQuarterAfterHH, ruleHalfBeforeHH, ruleHalfAfterHH, truthy, need, this, bind, Except.bind, pure, Except.pure]

/-- "quarter to 0/midnight" wraps to 23:45, "halb 0" to 23:30 -/
theorem quarter_half_midnight :
    ruleQuarterBeforeHH { hour := some 0, minute := some 0 } = .ok (some (.time { hour := some 23, minute := some 45 })) ∧
    ruleHalfBeforeHH { hour := some 0, minute := some 0 } = .ok (some (.time { hour := some 23, minute := some 30 })) := by
  decide

/-- `<hour> in the <part of day>`: afternoon/evening/night/last move an hour below 12 into the afternoon, never past 23 -/
theorem todpod_spec (h : Int) (mi : Option Int) (p : String) (hh : 0 ≤ h ∧ h ≤ 23) :
    (podIsPm p = true → h < 12 → ruleTODPOD { hour := some h, minute := mi } { pod := some p } = .ok (some (.time { hour := some (h + 12), minute := mi }))) ∧
    (podIsPm p = false → ¬ (h > 12 ∧ podIsAm p = true) → ruleTODPOD { hour := some h, minute := mi } { pod := some p } = .ok (some (.time { hour := some h, minute := mi }))) := by
  constructor
  · intro hp hl
    simp [ruleTODPOD, need, needS, hp, hl, bind, Except.bind, pure, Except.pure]
  · intro hp hn
    by_cases h12 : h > 12
    · have : podIsAm p = false := by
        cases hq : podIsAm p
        · rfl
        · exact absurd ⟨h12, hq⟩ hn
      simp [ruleTODPOD, need, needS, hp, this, bind, Except.bind, pure, Except.pure]
    · simp [ruleTODPOD, need, needS, hp, h12, bind, Except.bind, pure, Except.pure]

/-- **latent anchoring**: the result has the written hour:minute, lies strictly after the reference minute and at most 24 h later.
minutes since the epoch of the anchored time, relative to the reference: in (0, 1440] -/
theorem latentTod_window (ts : Ts) (h mi : Int) (hh : 0 ≤ h ∧ h ≤ 23) (hm : 0 ≤ mi ∧ mi ≤ 59)
    (hts : 0 ≤ ts.h ∧ ts.h ≤ 23 ∧ 0 ≤ ts.mi ∧ ts.mi ≤ 59) (h1 : 1 ≤ ts.date.ord) (h2 : ts.date.ord + 1 ≤ maxOrd) (hr : ts.date.inRange = true)
    (t : Time) (ht : latentTod ts { hour := some h, minute := some mi } = .ok t) :
    ∃ d : Date, t = { year := some d.y, month := some d.m, day := some d.d, hour := some h, minute := some mi } ∧
      ts.minutes < (⟨d, h, mi⟩ : Ts).minutes ∧ (⟨d, h, mi⟩ : Ts).minutes ≤ ts.minutes + 1440 := by
  have hb : inDay h mi = true := by simp [inDay]; omega
  by_cases hc : h * 60 + mi ≤ ts.h * 60 + ts.mi
  · obtain ⟨av, ao⟩ := addDays_spec ts.date 1 (by omega) (by omega)
    have hr' := C03.inRange_of_ord _ av (by omega) (by omega)
    refine ⟨ts.date.addDays 1, ?_, ?_, ?_⟩
    · simp [latentTod, need, hb, hc, dateOk, hr', bind, Except.bind, pure, Except.pure] at ht
      exact ht.symm
    · simp only [Ts.minutes, ao]; omega
    · simp only [Ts.minutes, ao]; omega
  · refine ⟨ts.date, ?_, ?_, ?_⟩
    · simp [latentTod, need, hb, hc, dateOk, hr, bind, Except.bind, pure, Except.pure] at ht
      exact ht.symm
    · simp only [Ts.minutes]; omega
    · simp only [Ts.minutes]; omega

/-- uniqueness: two dated times with the same hour:minute inside the window (ref, ref + 24 h] are on the same day -/
theorem latentTod_unique (ts : Ts) (h mi : Int) (d z : Date) (hd : d.Valid) (hz : z.Valid)
    (a1 : ts.minutes < (⟨d, h, mi⟩ : Ts).minutes) (a2 : (⟨d, h, mi⟩ : Ts).minutes ≤ ts.minutes + 1440)
    (b1 : ts.minutes < (⟨z, h, mi⟩ : Ts).minutes) (b2 : (⟨z, h, mi⟩ : Ts).minutes ≤ ts.minutes + 1440) : z = d := by
  apply ord_inj _ _ hz hd
  simp only [Ts.minutes] at *; omega

/-- without anchoring nothing happens to a value: the post-processing is the only place a clock time meets `ts` -/
theorem latent_only_tod (ts : Ts) (a : Art) (t : Time) (hv : a.v = .time t) (hn : t.isTOD = false) : applyLatent ts a = .ok a := by
  simp [applyLatent, hv, hn, pure, Except.pure]

/-- anchoring keeps the character span (C02/C09) -/
theorem latent_span (ts : Ts) (a b : Art) (h : applyLatent ts a = .ok b) : b.ms = a.ms ∧ b.me = a.me := by
  unfold applyLatent at h
  split at h
  · rename_i t _
    split at h
    · cases hl : latentTod ts t with
      | error e => simp [hl, bind, Except.bind] at h
      | ok t' => simp [hl, bind, Except.bind, pure, Except.pure] at h; subst h; exact ⟨rfl, rfl⟩
    · simp [pure, Except.pure] at h; subst h; exact ⟨rfl, rfl⟩
  · rename_i f t _
    split at h
    · cases hl : latentInterval ts f t with
      | error e => simp [hl, bind, Except.bind] at h
      | ok t' => simp [hl, bind, Except.bind, pure, Except.pure] at h; subst h; exact ⟨rfl, rfl⟩
    · simp [pure, Except.pure] at h; subst h; exact ⟨rfl, rfl⟩
  · simp [pure, Except.pure] at h; subst h; exact ⟨rfl, rfl⟩

/-- non-vacuity: midnight and noon, equal-minute and year roll-over -/
example : applyAmPm { hour := some 12, minute := some 30 } (some [97, 109]) = { hour := some 0, minute := some 30 } := by decide
example : applyAmPm { hour := some 12, minute := some 0 } (some [80, 77]) = { hour := some 12, minute := some 0 } := by decide
example : latentTod ⟨⟨2018, 12, 31⟩, 23, 59⟩ { hour := some 23, minute := some 59 } = .ok { year := some 2019, month := some 1, day := some 1, hour := some 23, minute := some 59 } := by decide +kernel
example : latentTod ⟨⟨2018, 3, 7⟩, 12, 43⟩ { hour := some 12, minute := some 44 } = .ok { year := some 2018, month := some 3, day := some 7, hour := some 12, minute := some 44 } := by decide +kernel

end QuickAdd.C06
