import QuickAdd.Model.NB
import Mathlib.Analysis.SpecialFunctions.Log.Basic
import Mathlib.Tactic
/-!
# C17 — training data are truthful; duplicating a positive example never lowers its score

`prefix_samples_spec`: the builders emit one sample per non-empty prefix of the production trace, all with the candidate's
label.  (Labelling by *value* equality, span independent, is C18's `art_eq_iff` / `eq_span_indep` applied to
`parse.resolution == gold`; that the builders call exactly that comparison is tied by the sweep over entries of every
result type.)
`dup_logodds_mono` (over ℝ): adding one more copy of a positive example `x` to the training set never lowers the log-odds
the retrained model gives to `x`: the positive prior term grows, the negative prior term shrinks, the negative-class
likelihood of `x` is unchanged (no new vocabulary: `x` was already a training document), and the positive-class likelihood
term does not decrease — `Σ c·log(a/A) ≤ Σ c·log((a+c)/(A+L))` for the counts `c` of x's n-grams, the smoothed class
counts `a`, `A ≥ Σ a`, `L = Σ c` (tangent-line bound for `log` + the n-term parallel-sum inequality).
Floating point: the code computes these quantities in IEEE doubles; agreement with the real-number model within 1e-9 is
checked by the `nb` correspondence, not proved.
-/
namespace QuickAdd.C17
open Real

/-! ### dataset: one sample per prefix -/
theorem prefix_samples_length (trace : List String) (label : Bool) : (NB.prefixSamples trace label).length = trace.length := by
  simp [NB.prefixSamples]

theorem prefix_samples_spec (trace : List String) (label : Bool) (i : Nat) (hi : i < trace.length) :
    (NB.prefixSamples trace label)[i]? = some (trace.take (i + 1), label) := by
  simp [NB.prefixSamples, hi]

theorem prefix_samples_labels (trace : List String) (label : Bool) : ∀ s ∈ NB.prefixSamples trace label, s.2 = label ∧ s.1 <+: trace ∧ s.1 ≠ [] := by
  intro s hs
  simp only [NB.prefixSamples, List.mem_map, List.mem_range] at hs
  obtain ⟨i, hi, rfl⟩ := hs
  refine ⟨rfl, List.take_prefix _ _, ?_⟩
  intro h
  have h' : trace.take (i + 1) = [] := h
  have : (trace.take (i + 1)).length = 0 := by rw [h']; rfl
  rw [List.length_take] at this
  omega

/-! ### monotonicity under duplication (real analysis) -/
def sumC (l : List (ℝ × ℝ)) : ℝ := (l.map Prod.fst).sum
def sumA (l : List (ℝ × ℝ)) : ℝ := (l.map Prod.snd).sum
noncomputable def par (l : List (ℝ × ℝ)) : ℝ := (l.map fun p => p.1 * p.2 / (p.1 + p.2)).sum
def Pos (l : List (ℝ × ℝ)) : Prop := ∀ p ∈ l, 0 < p.1 ∧ 0 < p.2

theorem milne2 (c1 c2 a1 a2 : ℝ) (hc1 : 0 < c1) (hc2 : 0 < c2) (ha1 : 0 < a1) (ha2 : 0 < a2) :
    c1 * a1 / (c1 + a1) + c2 * a2 / (c2 + a2) ≤ (c1 + c2) * (a1 + a2) / (c1 + c2 + a1 + a2) := by
  rw [div_add_div _ _ (by positivity) (by positivity), div_le_div_iff₀ (by positivity) (by positivity)]
  nlinarith [sq_nonneg (c1 * a2 - c2 * a1), mul_pos hc1 hc2, mul_pos ha1 ha2, mul_pos hc1 ha2, mul_pos hc2 ha1]

theorem sums_pos : ∀ (l : List (ℝ × ℝ)), l ≠ [] → Pos l → 0 < sumC l ∧ 0 < sumA l
  | [], h, _ => absurd rfl h
  | [p], _, hp => by
      have := hp p (by simp)
      simp [sumC, sumA]; exact this
  | p :: q :: t, _, hp => by
      have h1 := hp p (by simp)
      have ih := sums_pos (q :: t) (by simp) (fun x hx => hp x (List.mem_cons_of_mem _ hx))
      simp only [sumC, sumA, List.map_cons, List.sum_cons] at ih ⊢
      constructor <;> linarith [h1.1, h1.2, ih.1, ih.2]

/-- n-term parallel-sum inequality -/
theorem milneN : ∀ (l : List (ℝ × ℝ)), l ≠ [] → Pos l → par l ≤ sumC l * sumA l / (sumC l + sumA l)
  | [], h, _ => absurd rfl h
  | [p], _, _ => by simp [par, sumC, sumA]
  | p :: q :: t, _, hp => by
      have h1 := hp p (by simp)
      have hp' : Pos (q :: t) := fun x hx => hp x (List.mem_cons_of_mem _ hx)
      have ih := milneN (q :: t) (by simp) hp'
      have hs := sums_pos (q :: t) (by simp) hp'
      have := milne2 p.1 (sumC (q :: t)) p.2 (sumA (q :: t)) h1.1 hs.1 h1.2 hs.2
      have e1 : par (p :: q :: t) = p.1 * p.2 / (p.1 + p.2) + par (q :: t) := by simp [par]
      have e2 : sumC (p :: q :: t) = p.1 + sumC (q :: t) := by simp [sumC]
      have e3 : sumA (p :: q :: t) = p.2 + sumA (q :: t) := by simp [sumA]
      rw [e1, e2, e3]
      have e4 : p.1 + sumC (q :: t) + (p.2 + sumA (q :: t)) = p.1 + sumC (q :: t) + p.2 + sumA (q :: t) := by ring
      rw [e4]
      linarith

/-- likelihood term: `Σ c·log(a/A) ≤ Σ c·log((a+c)/(A+L))` with `A ≥ Σ a`, `L = Σ c` -/
theorem dup_likelihood_mono (l : List (ℝ × ℝ)) (hne : l ≠ []) (hp : Pos l) (A : ℝ) (hA : sumA l ≤ A) :
    (l.map fun p => p.1 * Real.log (p.2 / A)).sum ≤ (l.map fun p => p.1 * Real.log ((p.2 + p.1) / (A + sumC l))).sum := by
  obtain ⟨hL, hS⟩ := sums_pos l hne hp
  have hApos : 0 < A := lt_of_lt_of_le hS hA
  set L := sumC l with hLdef
  have hterm : ∀ p ∈ l, p.1 * Real.log (p.2 / A) - p.1 * Real.log ((p.2 + p.1) / (A + L))
      ≤ (A + L) / A * (p.1 * p.2 / (p.1 + p.2)) - p.1 := by
    intro p hpl
    obtain ⟨hc, ha⟩ := hp p hpl
    have hpos : 0 < (p.2 / A) / ((p.2 + p.1) / (A + L)) := by positivity
    have hlog := Real.log_le_sub_one_of_pos hpos
    rw [Real.log_div (by positivity) (by positivity)] at hlog
    have : p.2 / A / ((p.2 + p.1) / (A + L)) = (A + L) / A * (p.2 / (p.1 + p.2)) := by
      field_simp; ring
    rw [this] at hlog
    have := mul_le_mul_of_nonneg_left hlog hc.le
    have e : p.1 * ((A + L) / A * (p.2 / (p.1 + p.2)) - 1) = (A + L) / A * (p.1 * p.2 / (p.1 + p.2)) - p.1 := by
      field_simp
    linarith [e ▸ this]
  have hsum : (l.map fun p => p.1 * Real.log (p.2 / A)).sum - (l.map fun p => p.1 * Real.log ((p.2 + p.1) / (A + L))).sum
      ≤ (A + L) / A * par l - L := by
    have gen : ∀ (m : List (ℝ × ℝ)), (∀ p ∈ m, p ∈ l) →
        (m.map fun p => p.1 * Real.log (p.2 / A)).sum - (m.map fun p => p.1 * Real.log ((p.2 + p.1) / (A + L))).sum
          ≤ (A + L) / A * par m - sumC m := by
      intro m
      induction m with
      | nil => intro _; simp [par, sumC]
      | cons x xs ih =>
        intro hm
        have hx := hterm x (hm x (by simp))
        have ih' := ih (fun p hp' => hm p (List.mem_cons_of_mem _ hp'))
        simp only [List.map_cons, List.sum_cons, par, sumC] at ih' ⊢
        nlinarith [hx, ih']
    exact gen l (fun _ h => h)
  have hm := milneN l hne hp
  have hmono : sumC l * sumA l / (sumC l + sumA l) ≤ L * A / (A + L) := by
    rw [← hLdef, div_le_div_iff₀ (by positivity) (by positivity)]
    nlinarith [mul_pos hL hL, hA, hS, mul_nonneg hL.le (sub_nonneg.mpr hA)]
  have hfinal : (A + L) / A * par l - L ≤ 0 := by
    have h1 : par l ≤ L * A / (A + L) := le_trans hm hmono
    have h2 : (A + L) / A * par l ≤ (A + L) / A * (L * A / (A + L)) := mul_le_mul_of_nonneg_left h1 (by positivity)
    have h3 : (A + L) / A * (L * A / (A + L)) = L := by field_simp
    linarith
  linarith

/-- prior terms: with `p` positive and `n` negative training samples, one more positive sample raises the positive log-prior
    and lowers the negative one -/
theorem prior_mono (p n : ℝ) (hp : 0 < p) (hn : 0 < n) :
    Real.log (p / (n + p)) ≤ Real.log ((p + 1) / (n + p + 1)) ∧ Real.log (n / (n + p + 1)) ≤ Real.log (n / (n + p)) := by
  constructor
  · apply Real.log_le_log (by positivity)
    rw [div_le_div_iff₀ (by positivity) (by positivity)]; nlinarith
  · apply Real.log_le_log (by positivity)
    rw [div_le_div_iff₀ (by positivity) (by positivity)]; nlinarith

/-- **log-odds of a duplicated positive example never drop.**  `l` = (count of each n-gram in x, its smoothed positive-class
    count); `negTerm` = the negative-class likelihood term of x (unchanged: no new vocabulary, negative counts untouched) -/
theorem dup_logodds_mono (l : List (ℝ × ℝ)) (hne : l ≠ []) (hp : Pos l) (A : ℝ) (hA : sumA l ≤ A) (p n negTerm : ℝ) (hpp : 0 < p) (hn : 0 < n) :
    (Real.log (p / (n + p)) + (l.map fun q => q.1 * Real.log (q.2 / A)).sum) - (Real.log (n / (n + p)) + negTerm)
      ≤ (Real.log ((p + 1) / (n + p + 1)) + (l.map fun q => q.1 * Real.log ((q.2 + q.1) / (A + sumC l))).sum) - (Real.log (n / (n + p + 1)) + negTerm) := by
  have h1 := dup_likelihood_mono l hne hp A hA
  have h2 := prior_mono p n hpp hn
  linarith [h1, h2.1, h2.2]

/-- non-vacuity: a two-gram document in a class with smoothed counts 2 and 3 out of 7 -/
example : Pos [((1 : ℝ), 2), (2, 3)] ∧ sumA [((1 : ℝ), 2), (2, 3)] ≤ 7 := by
  constructor
  · intro q hq; simp at hq; rcases hq with rfl | rfl <;> norm_num
  · norm_num [sumA]

end QuickAdd.C17
