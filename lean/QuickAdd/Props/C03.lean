import QuickAdd.Model.Rules
import QuickAdd.Lemmas.Cal
/-!
# C03 — relative-day expressions hit the exact calendar day, for every reference time

Specification (conventions of the property): *today ± n* is the date whose ordinal is `ord today ± n`;
*end of month* is `(y, m, daysInMonth y m)`; *this X* / bare weekday is the unique `X`-day `d` with
`ord today < ord d ≤ ord today + 7`; *next X* / *X next week* the unique one with
`ord today + 7 ≤ ord d < ord today + 14`.  Dates are identified by their ordinal (`ord_inj`).
The theorems hold for **every** valid reference date whose neighbourhood is representable by `datetime`
(no bound on the year other than `datetime`'s own 1..9999), i.e. across all month ends, year ends, leap days.
What is *not* a theorem: that the parser ranks this reading first (float sums of the pickled model) — swept.
-/
namespace QuickAdd.C03
open QuickAdd

/-- a valid date with an ordinal in `datetime`'s range has a year in 1..9999 -/
theorem inRange_of_ord (d : Date) (hv : d.Valid) (h1 : 1 ≤ d.ord) (h2 : d.ord ≤ maxOrd) : d.inRange = true := by
  have lo : 1 ≤ d.y := by
    by_cases h : 1 ≤ d.y
    · exact h
    · have hv1 : (⟨1, 1, 1⟩ : Date).Valid := (Date.valid_iff _).mp (by decide)
      have := ord_strict_year d ⟨1, 1, 1⟩ hv hv1 (by simp; omega)
      have e : (⟨1, 1, 1⟩ : Date).ord = 1 := by decide
      omega
  have hi : d.y ≤ 9999 := by
    by_cases h : d.y ≤ 9999
    · exact h
    · have hv1 : (⟨9999, 12, 31⟩ : Date).Valid := (Date.valid_iff _).mp (by decide)
      have := ord_strict_year ⟨9999, 12, 31⟩ d hv1 hv (by simp; omega)
      have e : (⟨9999, 12, 31⟩ : Date).ord = maxOrd := by decide
      omega
  simp [Date.inRange, lo, hi]

/-- today ± n: the production succeeds and yields exactly the date with ordinal `ord today + n` -/
theorem relDays_spec (ts : Ts) (n : Int) (h1 : 1 ≤ ts.date.ord + n) (h2 : ts.date.ord + n ≤ maxOrd) :
    ∃ d : Date, relDays ts n = .ok (some (.time (tsTime d))) ∧ d.Valid ∧ d.ord = ts.date.ord + n := by
  obtain ⟨hv, ho⟩ := addDays_spec ts.date n h1 h2
  refine ⟨ts.date.addDays n, ?_, hv, ho⟩
  have hr := inRange_of_ord _ hv (by omega) (by omega)
  simp [relDays, dateOk, hr, bind, Except.bind, pure, Except.pure]

theorem tomorrow_spec (ts : Ts) (h1 : 1 ≤ ts.date.ord + 1) (h2 : ts.date.ord + 1 ≤ maxOrd) :
    ∃ d : Date, ruleTomorrow ts = .ok (some (.time (tsTime d))) ∧ d.Valid ∧ d.ord = ts.date.ord + 1 := relDays_spec ts 1 h1 h2
theorem afterTomorrow_spec (ts : Ts) (h1 : 1 ≤ ts.date.ord + 2) (h2 : ts.date.ord + 2 ≤ maxOrd) :
    ∃ d : Date, ruleAfterTomorrow ts = .ok (some (.time (tsTime d))) ∧ d.Valid ∧ d.ord = ts.date.ord + 2 := relDays_spec ts 2 h1 h2
theorem yesterday_spec (ts : Ts) (h1 : 1 ≤ ts.date.ord + -1) (h2 : ts.date.ord + -1 ≤ maxOrd) :
    ∃ d : Date, ruleYesterday ts = .ok (some (.time (tsTime d))) ∧ d.Valid ∧ d.ord = ts.date.ord + -1 := relDays_spec ts (-1) h1 h2
theorem beforeYesterday_spec (ts : Ts) (h1 : 1 ≤ ts.date.ord + -2) (h2 : ts.date.ord + -2 ≤ maxOrd) :
    ∃ d : Date, ruleBeforeYesterday ts = .ok (some (.time (tsTime d))) ∧ d.Valid ∧ d.ord = ts.date.ord + -2 := relDays_spec ts (-2) h1 h2

theorem today_spec (ts : Ts) : ruleToday ts = .ok (some (.time (tsTime ts.date))) := rfl
theorem now_spec (ts : Ts) : ruleNow ts = .ok (some (.time { tsTime ts.date with hour := some ts.h, minute := some ts.mi })) := rfl

/-- this X / on X / bare weekday: an `X`-day strictly after today, at most a week ahead … -/
theorem atDOW_spec (ts : Ts) (w : Int) (hw : 0 ≤ w ∧ w < 7) (h1 : 1 ≤ ts.date.ord) (h2 : ts.date.ord + 7 ≤ maxOrd) (hv : ts.date.Valid) :
    ∃ d : Date, ruleAtDOW ts { dow := some w } = .ok (some (.time (tsTime d))) ∧ d.Valid ∧ d.weekday = w ∧
      ts.date.ord < d.ord ∧ d.ord ≤ ts.date.ord + 7 := by
  obtain ⟨tv, tw, tlo, thi⟩ := toWeekday_spec ts.date w hw h1 (by omega)
  by_cases heq : ts.date.toWeekday w = ts.date
  · -- the weekday is today's: one week later
    obtain ⟨av, ao⟩ := addDays_spec ts.date 7 (by omega) (by omega)
    refine ⟨ts.date.addDays 7, ?_, av, ?_, by omega, by omega⟩
    · have hr := inRange_of_ord _ av (by omega) (by omega)
      have hw1 : (0 ≤ w && w ≤ 6) = true := by simp; omega
      simp [ruleAtDOW, need, weekdayArg, hw1, heq, dateOk, hr, bind, Except.bind, pure, Except.pure]
    · have e : ts.date.weekday = w := by rw [← heq]; exact tw
      unfold Date.weekday at *; rw [ao]; omega
  · refine ⟨ts.date.toWeekday w, ?_, tv, tw, ?_, by omega⟩
    · have hr := inRange_of_ord _ tv (by omega) (by omega)
      have hw1 : (0 ≤ w && w ≤ 6) = true := by simp; omega
      simp [ruleAtDOW, need, weekdayArg, hw1, heq, dateOk, hr, bind, Except.bind, pure, Except.pure]
    · have : (ts.date.toWeekday w).ord ≠ ts.date.ord := fun e => heq (ord_inj _ _ tv hv e)
      omega

/-- … and it is the only such day: any `X`-day in (today, today+7] is that date -/
theorem atDOW_unique (ts : Ts) (w : Int) (d z : Date) (hd : d.Valid) (hz : z.Valid)
    (hdw : d.weekday = w) (hzw : z.weekday = w)
    (hd1 : ts.date.ord < d.ord) (hd2 : d.ord ≤ ts.date.ord + 7) (hz1 : ts.date.ord < z.ord) (hz2 : z.ord ≤ ts.date.ord + 7) : z = d := by
  apply ord_inj _ _ hz hd
  unfold Date.weekday at *; omega

/-- the bare weekday (latent) reading is the same function -/
theorem latentDOW_eq (ts : Ts) (t : Time) : ruleLatentDOW ts t = ruleAtDOW ts t := rfl

/-- next X / X next week: the `X`-day on or after today + 7 days, before today + 14 -/
theorem nextDOW_spec (ts : Ts) (w : Int) (hw : 0 ≤ w ∧ w < 7) (h1 : 1 ≤ ts.date.ord) (h2 : ts.date.ord + 13 ≤ maxOrd) :
    ∃ d : Date, ruleNextDOW ts { dow := some w } = .ok (some (.time (tsTime d))) ∧ d.Valid ∧ d.weekday = w ∧
      ts.date.ord + 7 ≤ d.ord ∧ d.ord < ts.date.ord + 14 := by
  obtain ⟨av, ao⟩ := addDays_spec ts.date 7 (by omega) (by omega)
  obtain ⟨tv, tw, tlo, thi⟩ := toWeekday_spec (ts.date.addDays 7) w hw (by omega) (by omega)
  refine ⟨(ts.date.addDays 7).toWeekday w, ?_, tv, tw, by omega, by omega⟩
  have hr := inRange_of_ord _ tv (by omega) (by omega)
  have hw1 : (0 ≤ w && w ≤ 6) = true := by simp; omega
  simp [ruleNextDOW, need, weekdayArg, hw1, dateOk, hr, bind, Except.bind, pure, Except.pure]

theorem nextDOW_unique (ts : Ts) (w : Int) (d z : Date) (hd : d.Valid) (hz : z.Valid)
    (hdw : d.weekday = w) (hzw : z.weekday = w)
    (hd1 : ts.date.ord + 7 ≤ d.ord) (hd2 : d.ord < ts.date.ord + 14) (hz1 : ts.date.ord + 7 ≤ z.ord) (hz2 : z.ord < ts.date.ord + 14) : z = d := by
  apply ord_inj _ _ hz hd
  unfold Date.weekday at *; omega

/-- month arithmetic of `relativedelta(months=1)` followed by `day=1`: the first of the next month -/
theorem addMonths1_first (x : Date) (h1 : 1 ≤ x.m) (h2 : x.m ≤ 12) :
    ({ x.addMonthsClip 1 with d := 1 } : Date) = (if x.m < 12 then ⟨x.y, x.m + 1, 1⟩ else ⟨x.y + 1, 1, 1⟩) := by
  unfold Date.addMonthsClip
  by_cases hm : x.m < 12
  · simp only [hm, if_true]
    have a : (12 * x.y + (x.m - 1) + 1) / 12 = x.y := by omega
    have b : (12 * x.y + (x.m - 1) + 1) % 12 + 1 = x.m + 1 := by omega
    simp [a, b]
  · have : x.m = 12 := by omega
    simp only [hm, if_false]
    have a : (12 * x.y + (x.m - 1) + 1) / 12 = x.y + 1 := by omega
    have b : (12 * x.y + (x.m - 1) + 1) % 12 + 1 = 1 := by omega
    simp [a, b]

/-- end of month: exactly the last day of the reference month, for every reference date -/
theorem eom_spec (ts : Ts) (hv : ts.date.Valid) (hy1 : 1 ≤ ts.date.y) (hy2 : ts.date.y ≤ 9998) :
    ruleEOM ts = .ok (some (.time (tsTime ⟨ts.date.y, ts.date.m, dim ts.date.y ts.date.m⟩))) := by
  obtain ⟨m1, m2, d1, d2⟩ := hv
  have hfirst := addMonths1_first ts.date m1 m2
  -- the intermediate date (after `months=1`) is in range
  have hA : (ts.date.addMonthsClip 1).inRange = true := by
    unfold Date.addMonthsClip Date.inRange
    have : (12 * ts.date.y + (ts.date.m - 1) + 1) / 12 = ts.date.y ∨ (12 * ts.date.y + (ts.date.m - 1) + 1) / 12 = ts.date.y + 1 := by omega
    rcases this with h | h <;> simp [h] <;> omega
  generalize hF : (if ts.date.m < 12 then (⟨ts.date.y, ts.date.m + 1, 1⟩ : Date) else ⟨ts.date.y + 1, 1, 1⟩) = F at hfirst
  have hFv : F.Valid := by
    rw [← hF]; split
    · exact (Date.valid_iff _).mp (by have := dim_bounds ts.date.y (ts.date.m + 1); simp [Date.valid]; omega)
    · exact (Date.valid_iff _).mp (by simp [Date.valid, dim])
  have hprev := prev_first_of_next_month ts.date.y ts.date.m m1 m2
  rw [hF] at hprev
  obtain ⟨pv, po⟩ := prev_ord F hFv
  have hLv : (⟨ts.date.y, ts.date.m, dim ts.date.y ts.date.m⟩ : Date).Valid := by rw [← hprev]; exact pv
  have hLr : (⟨ts.date.y, ts.date.m, dim ts.date.y ts.date.m⟩ : Date).inRange = true := by simp [Date.inRange]; omega
  -- ordinal of F is within range, so `addDays (-1)` is the date with ordinal `ord F - 1`
  have hFo : 1 ≤ F.ord + -1 ∧ F.ord + -1 ≤ maxOrd := by
    have e : F.ord + -1 = (⟨ts.date.y, ts.date.m, dim ts.date.y ts.date.m⟩ : Date).ord := by rw [← hprev]; omega
    rw [e]
    have hv1 : (⟨1, 1, 1⟩ : Date).Valid := (Date.valid_iff _).mp (by decide)
    have hv9 : (⟨9999, 12, 31⟩ : Date).Valid := (Date.valid_iff _).mp (by decide)
    have e1 : (⟨1, 1, 1⟩ : Date).ord = 1 := by decide
    have e9 : (⟨9999, 12, 31⟩ : Date).ord = maxOrd := by decide
    constructor
    · have := ord_pos_in_year _ hLv
      have := dby_mono (ts.date.y - 1).toNat 1
      have e : (1:Int) + ((ts.date.y - 1).toNat : Int) = ts.date.y := by omega
      rw [e] at this
      have : dby 1 = 0 := by decide
      simp at *; omega
    · have := ord_strict_year ⟨ts.date.y, ts.date.m, dim ts.date.y ts.date.m⟩ ⟨9999, 12, 31⟩ hLv hv9 (by simp; omega)
      omega
  obtain ⟨av, ao⟩ := addDays_spec F (-1) hFo.1 hFo.2
  have hEq : F.addDays (-1) = ⟨ts.date.y, ts.date.m, dim ts.date.y ts.date.m⟩ := by
    apply ord_inj _ _ av hLv
    rw [ao, ← hprev]; omega
  simp only [ruleEOM, dateOk, hA, if_true, bind, Except.bind, pure, Except.pure]
  rw [hfirst, hEq]
  simp [hLr]

/-- non-vacuity: concrete month ends, a leap day and a year end satisfy the hypotheses and give the expected dates -/
example : ruleEOM ⟨⟨2020, 2, 10⟩, 12, 43⟩ = .ok (some (.time (tsTime ⟨2020, 2, 29⟩))) := by decide +kernel
example : ruleTomorrow ⟨⟨2019, 12, 31⟩, 23, 59⟩ = .ok (some (.time (tsTime ⟨2020, 1, 1⟩))) := by decide +kernel
example : ruleAtDOW ⟨⟨2018, 3, 7⟩, 12, 43⟩ { dow := some 2 } = .ok (some (.time (tsTime ⟨2018, 3, 14⟩))) := by decide +kernel
example : ruleNextDOW ⟨⟨2018, 3, 7⟩, 12, 43⟩ { dow := some 0 } = .ok (some (.time (tsTime ⟨2018, 3, 19⟩))) := by decide +kernel
example : ruleEOY ⟨⟨2019, 6, 1⟩, 0, 0⟩ = .ok (some (.time (tsTime ⟨2019, 12, 31⟩))) := by decide +kernel

end QuickAdd.C03
