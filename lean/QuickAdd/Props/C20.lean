import QuickAdd.Model.Rules
/-!
# C20 — date part and clock part compose: '<day> <time>' is that day at that time

`dateTOD_sem` / `todDate_sem`: for **every** date value D and clock value T the glued value has the date fields
of D and hour/minute of T, in either order — adding the clock never moves the day and the clock is never dropped
by the production.  `absorb_sem`: 'at'/'um'/'on'/'am' in front of a time value leaves the value untouched.
That the parts survive concatenation lexically and that the glued reading wins the ranking is decided by the
correspondences and the sweep (day forms × clock forms × both orders × connectors), not by a theorem.
-/
namespace QuickAdd.C20
open QuickAdd

theorem dateTOD_sem (ts : Ts) (D T : Time) :
    applyId .ruleDateTOD ts [.time D, .time T] = .ok (some (.time { year := D.year, month := D.month, day := D.day, hour := T.hour, minute := T.minute })) := rfl

theorem todDate_sem (ts : Ts) (D T : Time) :
    applyId .ruleTODDate ts [.time T, .time D] = .ok (some (.time { year := D.year, month := D.month, day := D.day, hour := T.hour, minute := T.minute })) := rfl

/-- both orders agree -/
theorem orders_agree (ts : Ts) (D T : Time) : applyId .ruleDateTOD ts [.time D, .time T] = applyId .ruleTODDate ts [.time T, .time D] := rfl

/-- the registered names dispatch to these productions -/
theorem names_dispatch : RuleId.ofName "ruleDateTOD" = some .ruleDateTOD ∧ RuleId.ofName "ruleTODDate" = some .ruleTODDate ∧ RuleId.ofName "ruleAbsorbOnTime" = some .ruleAbsorbOnTime := by decide

theorem absorb_sem (ts : Ts) (k : Tok) (t : Time) : applyId .ruleAbsorbOnTime ts [.tok k, .time t] = .ok (some (.time t)) := rfl

/-- the composition is independent of the reference time -/
theorem compose_ts_indep (ts ts' : Ts) (D T : Time) : applyId .ruleDateTOD ts [.time D, .time T] = applyId .ruleDateTOD ts' [.time D, .time T] := rfl

/-- the wrapper keeps the composed value when the date exists, and spans the two parts -/
theorem compose_span (ts : Ts) (D T : Time) (s1 e1 s2 e2 : Nat)
    (hc : timeCalOk { year := D.year, month := D.month, day := D.day, hour := T.hour, minute := T.minute } = true) :
    applyRule "ruleDateTOD" ts [⟨.time D, s1, e1⟩, ⟨.time T, s2, e2⟩] =
      .ok (some ⟨.time { year := D.year, month := D.month, day := D.day, hour := T.hour, minute := T.minute }, s1, e2⟩) := by
  have hn : RuleId.ofName "ruleDateTOD" = some .ruleDateTOD := by decide
  have hraw : applyRaw "ruleDateTOD" ts [.time D, .time T] =
      .ok (some (.time { year := D.year, month := D.month, day := D.day, hour := T.hour, minute := T.minute })) := by
    unfold applyRaw; rw [hn]; rfl
  simp [applyRule, hraw, valCalOk, hc, bind, Except.bind, pure, Except.pure]

example : applyRule "ruleTODDate" ⟨⟨2018, 3, 7⟩, 12, 43⟩ [⟨.time { hour := some 17, minute := some 30 }, 0, 5⟩, ⟨.time { year := some 2018, month := some 3, day := some 8 }, 6, 14⟩] =
    .ok (some ⟨.time { year := some 2018, month := some 3, day := some 8, hour := some 17, minute := some 30 }, 0, 14⟩) := by decide +kernel

end QuickAdd.C20
