import QuickAdd.Model.Rules
/-!
# C20 — date part and clock part compose: '<day> <time>' is that day at that time

`dateTOD_sem` / `todDate_sem`: for **every** date value D and clock value T the glued value has the date fields
of D and hour/minute of T, in either order — adding the clock never moves the day and the clock is never dropped
by the production.  `absorb_sem`: 'at'/'um'/'on'/'am' in front of a time value leaves the value untouched.
That the parts survive concatenation lexically and that the glued reading wins the ranking is decided by the
correspondences and the sweep (day forms × clock forms × both orders × connectors), not by a theorem.
-/
namespace QuickAdd.C20
open QuickAdd

theorem dateTOD_sem (ts : Ts) (D T : Time) :
    applyId .ruleDateTOD ts [.time D, .time T] = .ok (some (.time { year := D.year, month := D.month, day := D.day, hour := T.hour, minute := T.minute })) := rfl

theorem todDate_sem (ts : Ts) (D T : Time) :
    applyId .ruleTODDate ts [.time T, .time D] = .ok (some (.time { year := D.year, month := D.month, day := D.day, hour := T.hour, minute := T.minute })) := rfl

/-- both orders agree -/
theorem orders_agree (ts : Ts) (D T : Time) : applyId .ruleDateTOD ts [.time D, .time T] = applyId .ruleTODDate ts [.time T, .time D] := rfl

/-- the registered names dispatch to these productions -/
theorem names_dispatch : RuleId.ofName "ruleDateTOD" = some .ruleDateTOD ∧ RuleId.ofName "ruleTODDate" = some .ruleTODDate ∧ RuleId.ofName "ruleAbsorbOnTime" = some .ruleAbsorbOnTime := by decide

theorem absorb_sem (ts : Ts) (k : Tok) (t : Time) : applyId .ruleAbsorbOnTime ts [.tok k, .time t] = .ok (some (.time t)) := rfl

/-- the composition is independent of the reference time -/
theorem compose_ts_indep (ts ts' : Ts) (D T : Time) : applyId .ruleDateTOD ts [.time D, .time T] = applyId .ruleDateTOD ts' [.time D, .time T] := rfl

/-- the wrapper keeps the composed value when the date exists, and spans the two parts -/
theorem compose_span (ts : Ts) (D T : Time) (s1 e1 s2 e2 : Nat)
    (hc : timeCalOk { year := D.year, month := D.month, day := D.day, hour := T.hour, minute := T.minute } = true) :
    applyRule "ruleDateTOD" ts [⟨.time D, s1, e1⟩, ⟨.time T, s2, e2⟩] =
      .ok (some ⟨.time { year := D.year, month := D.month, day := D.day, hour := T.hour, minute := T.minute }, s1, e2⟩) := by
  have hn : RuleId.ofName "ruleDateTOD" = some .ruleDateTOD := by decide
  have hraw : applyRaw "ruleDateTOD" ts [.time D, .time T] =
      .ok (some (.time { year := D.year, month := D.month, day := D.day, hour := T.hour, minute := T.minute })) := by
    unfold applyRaw; rw [hn]; rfl
  simp [applyRule, hraw, valCalOk, hc, bind, Except.bind, pure, Except.pure]

/-- **the composed value as an instant**: for a calendar date `y-m-d` and a clock value `h[:mi]` in range, the
`dt` accessor of '<day> <time>' is exactly that day at that hour and minute (minute 0 when none was written) -/
theorem compose_dt (D T : Time) (y m d h : Int) (hy : D.year = some y) (hm : D.month = some m) (hd : D.day = some d) (hh : T.hour = some h)
    (hv : (⟨y, m, d⟩ : Date).valid = true) (hr : (⟨y, m, d⟩ : Date).inRange = true) (h0 : 0 ≤ h) (h23 : h ≤ 23)
    (hmi : ∀ mi, T.minute = some mi → 0 ≤ mi ∧ mi ≤ 59) :
    ({ year := D.year, month := D.month, day := D.day, hour := T.hour, minute := T.minute } : Time).dt = .ok ⟨⟨y, m, d⟩, h, T.minute.getD 0⟩ := by
  rcases hmin : T.minute with _ | mi
  · simp [Time.dt, Time.start, hy, hm, hd, hh, hv, hr, h0, h23, bind, Except.bind, pure, Except.pure]
  · have := hmi mi hmin
    simp [Time.dt, Time.start, hy, hm, hd, hh, hv, hr, h0, h23, this.1, this.2, bind, Except.bind, pure, Except.pure]

/-- what a successful `dt` says about the written date: all three fields present, the date exists and is in range -/
theorem dt_date (D : Time) (tsD : Ts) (hD : D.dt = .ok tsD) :
    ∃ y m d, D.year = some y ∧ D.month = some m ∧ D.day = some d ∧ tsD.date = ⟨y, m, d⟩ ∧ (⟨y, m, d⟩ : Date).valid = true ∧ (⟨y, m, d⟩ : Date).inRange = true := by
  unfold Time.dt at hD
  simp only [bind, Except.bind] at hD
  split at hD
  · cases hD
  · rename_i s hs
    have hsy : s.year = D.year ∧ s.month = D.month ∧ s.day = D.day := by
      unfold Time.start at hs
      simp only [bind, Except.bind] at hs
      split at hs
      · cases hs
      · simp only [pure, Except.pure] at hs; cases hs; exact ⟨rfl, rfl, rfl⟩
    split at hD
    · rename_i y m d h1 h2 h3
      split at hD
      · rename_i hc
        simp only [pure, Except.pure] at hD; cases hD
        simp only [Bool.and_eq_true, decide_eq_true_eq] at hc
        exact ⟨y, m, d, hsy.1 ▸ h1, hsy.2.1 ▸ h2, hsy.2.2 ▸ h3, rfl, hc.1.1.1.1.1, hc.1.1.1.1.2⟩
      · cases hD
    · cases hD

/-- the day of the composed instant is the day of the date part's own instant: gluing a clock never moves the day -/
theorem compose_keeps_day (D T : Time) (tsD : Ts) (h : Int) (hD : D.dt = .ok tsD) (hh : T.hour = some h) (h0 : 0 ≤ h) (h23 : h ≤ 23)
    (hmi : ∀ mi, T.minute = some mi → 0 ≤ mi ∧ mi ≤ 59) :
    ({ year := D.year, month := D.month, day := D.day, hour := T.hour, minute := T.minute } : Time).dt = .ok ⟨tsD.date, h, T.minute.getD 0⟩ := by
  obtain ⟨y, m, d, hy, hm, hd, hdate, hv, hr⟩ := dt_date D tsD hD
  rw [hdate]; exact compose_dt D T y m d h hy hm hd hh hv hr h0 h23 hmi

/-- a date and a part of day compose the same way: the date fields of the day, the part of day kept, in either order -/
theorem datePOD_sem (ts : Ts) (D P : Time) :
    applyId .ruleDatePOD ts [.time D, .time P] = .ok (some (.time { year := D.year, month := D.month, day := D.day, pod := P.pod })) := rfl
theorem podDate_sem (ts : Ts) (D P : Time) :
    applyId .rulePODDate ts [.time P, .time D] = .ok (some (.time { year := D.year, month := D.month, day := D.day, pod := P.pod })) := rfl

example : ({ year := some 2024, month := some 2, day := some 29, hour := some 17, minute := none } : Time).dt = .ok ⟨⟨2024, 2, 29⟩, 17, 0⟩ := by decide +kernel

example : applyRule "ruleTODDate" ⟨⟨2018, 3, 7⟩, 12, 43⟩ [⟨.time { hour := some 17, minute := some 30 }, 0, 5⟩, ⟨.time { year := some 2018, month := some 3, day := some 8 }, 6, 14⟩] =
    .ok (some ⟨.time { year := some 2018, month := some 3, day := some 8, hour := some 17, minute := some 30 }, 0, 14⟩) := by decide +kernel

end QuickAdd.C20
