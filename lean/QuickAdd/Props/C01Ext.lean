import QuickAdd.Lemmas.RulesTotalAll
/-!
# C01 (continued) — one statement for all value-level productions

`value_rules_total`: for each of the 56 productions that do not read captured text (`valueRules`: all but the eleven token
readers, whose only failure is `int()` of captured text, the `unmodelled` marker of `ruleNamedNumberDuration`, and `ruleDOWDOM`,
an `rrule` search whose success needs a calendar periodicity argument not made here) — applied to **any** window on which
its registered predicates hold (signature literal checked against the regenerated table), whose values are well formed
(`Val.Ok`), passed the wrapper's calendar check and carry no year above 9990, at any real reference time of the years
2 … 9989 — the production returns; it does not raise.  These are exactly the facts the search maintains for reachable
productions (`C02.reach_ok`, `C02.reach_cal`, window predicates by `expand_sound`), so an exception of the candidate stream
(`search_error_source`) can only come from one of the thirteen excluded productions or from a year beyond 9990.
`interval_rules_total` spells out the two range-combining productions.
-/
namespace QuickAdd.C01
open QuickAdd Gen

/-- **no value-level production raises** (dispatcher level, all 56 at once) -/
theorem value_rules_total (rid : RuleId) (hrid : rid ∈ valueRules) (r : String × List Pred) (hr : r ∈ ruleSigs)
    (hid : RuleId.ofName r.1 = some rid) (ts : Ts) (hts : TsOk ts) (args : List Art) (hl : args.length = r.2.length)
    (hp : (List.zipWith predHolds r.2 args).all id = true) (hok : ∀ a ∈ args, a.v.Ok ∧ valCalOk a.v = true ∧ a.v.YearLe 9990) :
    ∃ o, applyId rid ts (args.map (·.v)) = .ok o :=
  QuickAdd.value_rules_total rid hrid r hr hid ts hts args hl hp hok

/-- what is excluded, by name: the token readers and the `rrule` search -/
theorem value_rules_complement : ∀ e ∈ RuleId.all, e.2 ∈ valueRules ∨
    e.1 ∈ ["ruleDOM1", "ruleMonthOrdinal", "ruleDOM2", "ruleYear", "ruleDDMM", "ruleMMDD", "ruleDDMMYYYY", "ruleHHMMmilitary", "ruleHHMM",
           "ruleHHOClock", "ruleDigitDuration", "ruleNamedNumberDuration", "ruleDOWDOM"] := by decide +kernel

/-- date + clock range and part of day + range never raise on well-formed arguments (the date not beyond 9990) -/
theorem interval_rules_total (d p : Time) (f t : Option Time) (hd : d.Ok) (hcal : timeCalOk d = true) (hdate : d.isDate = true)
    (hyr : ∀ y, d.year = some y → y ≤ 9990) (hpod : p.isPOD = true) (hf : OptOk f) (ht : OptOk t)
    (cf : ∀ x, f = some x → timeCalOk x = true) (ct : ∀ x, t = some x → timeCalOk x = true) :
    (∃ r, ruleDateInterval d f t = .ok r) ∧ (∃ r, rulePODInterval p f t = .ok r) :=
  ⟨ruleDateInterval_total d f t hd hcal hdate hyr hf ht, rulePODInterval_total p f t hpod hf ht cf ct⟩

/-- 'N units <range>' and '<date> for N units' never raise on well-formed arguments -/
theorem range_duration_rules_total (n : Int) (u : DUnit) (f t s : Time) (hf : f.isDate = true) (ht : t.isDate = true) (of : f.Ok) (ot : t.Ok)
    (cf : timeCalOk f = true) (ct : timeCalOk t = true) (os : s.Ok) :
    (∃ r, ruleDurationInterval n u (some f) (some t) = .ok r) ∧ (∃ r, ruleTimeDuration s n u = .ok r) :=
  ⟨ruleDurationInterval_total n u f t hf ht of ot cf ct, ruleTimeDuration_total s n u os⟩

/-- the hypotheses are met by a concrete window: 'tomorrow' applied at an ordinary reference time -/
example : TsOk ⟨⟨2018, 3, 7⟩, 12, 43⟩ := ⟨⟨(Date.valid_iff _).mp (by decide), by decide⟩, by decide, by decide⟩
example : RuleId.ruleDateInterval ∈ valueRules := by decide

end QuickAdd.C01
