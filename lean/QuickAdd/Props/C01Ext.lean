import QuickAdd.Lemmas.RulesTotalAll
import QuickAdd.Lemmas.SearchTotal
import QuickAdd.Lemmas.DigitGroups
import QuickAdd.Lemmas.SearchYear
import QuickAdd.Lemmas.FuelIndep
import QuickAdd.Lemmas.TerminationArts
import QuickAdd.Lemmas.DfsBound
/-!
# C01 (continued) — one statement for all value-level productions

`value_rules_total`: for each of the 58 productions that do not read captured text (`valueRules`: all but the eleven token
readers, whose only failure is `int()` of captured text; `ruleDOWDOM`'s
`rrule` search always finds a date by the 400-year periodicity of the calendar, `Lemmas/RRule`) — applied to **any** window on which
its registered predicates hold (signature literal checked against the regenerated table), whose values are well formed
(`Val.Ok`), passed the wrapper's calendar check and carry no year above 9990, at any real reference time of the years
2 … 9500 — the production returns; it does not raise.  These are exactly the facts the search maintains for reachable
productions (`C02.reach_ok`, `C02.reach_cal`, window predicates by `expand_sound`), so an exception of the candidate stream
(`search_error_source`) can only come from one of the eleven token readers or from a year beyond 9990.
`interval_rules_total` spells out the two range-combining productions.
-/
namespace QuickAdd.C01
open QuickAdd Gen

/-- **no value-level production raises** (dispatcher level, all 58 at once) -/
theorem value_rules_total (rid : RuleId) (hrid : rid ∈ valueRules) (r : String × List Pred) (hr : r ∈ ruleSigs)
    (hid : RuleId.ofName r.1 = some rid) (ts : Ts) (hts : TsOk ts) (args : List Art) (hl : args.length = r.2.length)
    (hp : (List.zipWith predHolds r.2 args).all id = true) (hok : ∀ a ∈ args, a.v.Ok ∧ valCalOk a.v = true ∧ a.v.YearLe 9990) :
    ∃ o, applyId rid ts (args.map (·.v)) = .ok o :=
  QuickAdd.value_rules_total rid hrid r hr hid ts hts args hl hp hok

/-- what is excluded, by name: the token readers -/
theorem value_rules_complement : ∀ e ∈ RuleId.all, e.2 ∈ valueRules ∨
    e.1 ∈ ["ruleDOM1", "ruleMonthOrdinal", "ruleDOM2", "ruleYear", "ruleDDMM", "ruleMMDD", "ruleDDMMYYYY", "ruleHHMMmilitary", "ruleHHMM",
           "ruleHHOClock", "ruleDigitDuration"] := by decide +kernel

/-- date + clock range and part of day + range never raise on well-formed arguments (the date not beyond 9990) -/
theorem interval_rules_total (d p : Time) (f t : Option Time) (hd : d.Ok) (hcal : timeCalOk d = true) (hdate : d.isDate = true)
    (hyr : ∀ y, d.year = some y → y ≤ 9990) (hpod : p.isPOD = true) (hf : OptOk f) (ht : OptOk t)
    (cf : ∀ x, f = some x → timeCalOk x = true) (ct : ∀ x, t = some x → timeCalOk x = true) :
    (∃ r, ruleDateInterval d f t = .ok r) ∧ (∃ r, rulePODInterval p f t = .ok r) :=
  ⟨ruleDateInterval_total d f t hd hcal hdate hyr hf ht, rulePODInterval_total p f t hpod hf ht cf ct⟩

/-- 'N units <range>' and '<date> for N units' never raise on well-formed arguments -/
theorem range_duration_rules_total (n : Int) (u : DUnit) (f t s : Time) (hf : f.isDate = true) (ht : t.isDate = true) (of : f.Ok) (ot : t.Ok)
    (cf : timeCalOk f = true) (ct : timeCalOk t = true) (os : s.Ok) :
    (∃ r, ruleDurationInterval n u (some f) (some t) = .ok r) ∧ (∃ r, ruleTimeDuration s n u = .ok r) :=
  ⟨ruleDurationInterval_total n u f t hf ht of ot cf ct, ruleTimeDuration_total s n u os⟩

/-- the hypotheses are met by a concrete window: 'tomorrow' applied at an ordinary reference time -/
example : TsOk ⟨⟨2018, 3, 7⟩, 12, 43⟩ := ⟨⟨(Date.valid_iff _).mp (by decide), by decide⟩, by decide, by decide⟩
example : RuleId.ruleDateInterval ∈ valueRules := by decide

/-! ### the token readers, and the search end to end -/
/-- **the eleven token readers raise only when `int()` of a captured text does**: for a token that is a pattern match of the
    text and whose group texts all convert (`TokInt`; it fails exactly on the digits of known finding D6), the production
    returns — the groups it reads without a guard are set on every match of its pattern (`mustAny` over the regenerated
    table), the month is a number or one of the twelve names, never empty -/
theorem lexical_rules_total (rid : RuleId) (hrid : rid ∈ lexRules) (r : String × List Pred) (hr : r ∈ ruleSigs)
    (hid : RuleId.ofName r.1 = some rid) (ts : Ts) (hts : TsOk ts) (txt : List Nat) (args : List Art) (hl : args.length = r.2.length)
    (hp : (List.zipWith predHolds r.2 args).all id = true) (htok : ∀ a ∈ args, a ∈ matchRegex txt)
    (hint : ∀ a ∈ args, ∀ k, a.v = .tok k → TokInt k) : ∃ o, applyId rid ts (args.map (·.v)) = .ok o :=
  QuickAdd.lexical_rules_total rid hrid r hr hid ts hts txt args hl hp htok hint

/-- the two classes are all 69 productions -/
theorem rules_partition : ∀ e ∈ RuleId.all, e.2 ∈ valueRules ∨ e.2 ∈ lexRules := QuickAdd.rules_partition

/-- **every production of the rule base keeps the year bound**: with `2999 ≤ B` (no year group of a shipped pattern reads more:
    evaluated over the regenerated table) and `ts.year + 401 ≤ B` (the farthest a reference-relative production reaches: the
    weekday-and-day-of-month search, by the 400-year periodicity of the calendar), a successful result carries no year above `B`
    when no argument does -/
theorem rules_preserve_year (r : RuleId) (ts : Ts) (hts : TsOk ts) (B : Int) (hB : YearCap ts B) (args : List Val)
    (hargs : ∀ a ∈ args, a.Ok ∧ a.YearLe B) (v : Val) (h : applyId r ts args = .ok (some v)) : v.YearLe B :=
  QuickAdd.rules_preserve_year r ts hts B hB args hargs v h

/-- **no plain time value of a reachable production carries a year above 9990** (reference time of the years 2 … 9500, every
    text, scorer, depth): what used to be hypothesis (b) of `search_total` -/
theorem reach_year {S : Type} (sc : Scorer S) (ts : Ts) (hts : TsOk ts) (o : Opts) (txt : List Nat) (fuel : Nat) (p : List Art) (t : List String)
    (rules : List (String × List Pred))
    (hr : ReachE (mkCfg sc ts o.depth txt) (initialStack sc o.depth o.relMatchLenNum o.relMatchLenDen txt fuel).1 p t rules) :
    ∀ a ∈ p, a.v.YearLe 9990 :=
  QuickAdd.reach_year sc ts hts 9990 (yearCap_of_tsOk ts hts) o.depth txt _ (initialStack_ok sc _ _ _ txt fuel)
    (initialStack_year sc 9990 _ _ _ txt fuel) p t rules hr

/-- **every streamed candidate that is a plain time carries a year of at most `B`** for every `B ≥ 2999`, `B ≥ reference year + 401`
    (e.g. 2999 for every reference time up to the year 2598): no composition of productions manufactures a far-away year -/
theorem candidate_year_bounded {S : Type} (sc : Scorer S) (ts : Ts) (hts : TsOk ts) (o : Opts) (txt : List Nat) (fuel : Nat) (B : Int)
    (hB : YearCap ts B) : ∀ c ∈ (searchCore sc ts o txt fuel).1.1, c.res.v.YearLe B := by
  intro c hc
  obtain ⟨p, rules, hr, hm, _⟩ := C15.search_sound sc ts o txt fuel c hc
  exact QuickAdd.reach_year sc ts hts B hB o.depth txt _ (initialStack_ok sc _ _ _ txt fuel) (initialStack_year sc B _ _ _ txt fuel)
    p _ rules hr c.res hm

/-- … and so does every candidate of `ctparse_gen`, with and without latent-time anchoring (an anchored clock time takes the
    reference date or the day after) -/
theorem parse_candidate_year_bounded {S : Type} (sc : Scorer S) (ts : Ts) (hts : TsOk ts) (o : Opts) (raw : List Nat) (fuel : Nat) (B : Int)
    (hB : YearCap ts B) : ∀ c ∈ (ctparseGen sc ts o raw fuel).cands, c.res.v.YearLe B := by
  intro c hc
  unfold ctparseGen at hc
  simp only at hc
  split at hc
  · exact latentAll_year ts hts B hB _ (fun c hc => candidate_year_bounded sc ts hts o _ fuel B hB c hc) c hc
  · exact candidate_year_bounded sc ts hts o _ fuel B hB c hc

/-- the bound is met with room to spare by an ordinary reference time, and it is sharp in kind: a year group may read 2029 -/
example : YearCap ⟨⟨2018, 3, 7⟩, 12, 43⟩ 2999 := ⟨by decide, by decide⟩

/-- **the candidate stream never ends in an exception** (every text, scorer, option set, reference time of the years 2 … 9500),
    provided `int()` accepts every captured group text of the text's pattern matches (hypothesis (a); discharged from the text in
    `parse_total_text`): the only value the error component can take is the model's own fuel marker -/
theorem search_total {S : Type} (sc : Scorer S) (ts : Ts) (hts : TsOk ts) (o : Opts) (txt : List Nat) (fuel : Nat)
    (hint : ∀ a ∈ matchRegex txt, ∀ k, a.v = .tok k → TokInt k) :
    (searchCore sc ts o txt fuel).1.2 = none ∨ (searchCore sc ts o txt fuel).1.2 = some .unmodelled := by
  simp only [searchCore]
  by_cases hx : expiredAt o.deadline (initialStack sc o.depth o.relMatchLenNum o.relMatchLenDen txt fuel).2 = true
  · simp [hx]
  · simp only [hx, Bool.false_eq_true, if_false]
    cases he : (run (mkCfg sc ts o.depth txt) fuel (o.deadline.map (· - (initialStack sc o.depth o.relMatchLenNum o.relMatchLenDen txt fuel).2))
        (initialStack sc o.depth o.relMatchLenNum o.relMatchLenDen txt fuel).1 [] []).2 with
    | none => exact Or.inl rfl
    | some e =>
      right
      rcases run_err_reach (mkCfg sc ts o.depth txt) _ fuel _ _ [] [] e (fun x hx' => ReachE.init hx') he with h | ⟨rules, p, t, hr, hexp⟩
      · rw [h]
      · exfalso
        have hok := reach_ok sc ts hts.valid o.depth txt _ (initialStack_ok sc _ _ _ txt fuel) p t rules hr
        have hcal := C02.reach_cal sc ts o.depth txt _ (C02.initialStack_cal sc _ _ _ txt fuel) p t rules hr
        have hlin := lineage_reach sc ts hts.valid o.depth txt _ (lineage_init sc _ _ _ txt fuel) p t rules hr
        have hw : WindowOk txt p :=
          ⟨fun a ha => ⟨hok.1 a ha, hcal a ha, reach_year sc ts hts o txt fuel p t rules hr a ha⟩, fun a ha hv => hlin.toks a ha hv,
           fun a ha k hk => hint a (hlin.toks a ha (isVal_false_of_tok a k hk)) k hk⟩
        obtain ⟨out, hout⟩ := expand_total ts hts txt rules hok.2 p t hw
        have : (mkCfg sc ts o.depth txt).expand rules p t = expandArts ts rules p t := rfl
        rw [this, hout] at hexp
        cases hexp

/-- **the candidate stream terminates, and it ends cleanly**: with more fuel than `fuelNeeded` of the initial stack — an explicit
    number, `Σ (B+1)^(cost of the match sequence)` with `B` = number of registered rules × total cost — the main loop never reaches
    its fuel marker, so the stream ends without any exception.  Termination argument (`Lemmas/Termination`, `TerminationArts`):
    every successful rule application lowers the cost of the production (a pattern match costs 5, a time value without a year 3,
    any other value 2; windows of two or more become one value, a match becomes a value, and the only one-argument productions on
    values — the four latent ones, read off the regenerated signature table — turn an undated value into a dated one); an
    expansion has at most `B` successors; the dedup tables, the sort and the depth cut only permute and remove. -/
theorem search_terminates {S : Type} (sc : Scorer S) (ts : Ts) (hts : TsOk ts) (o : Opts) (txt : List Nat) (fuel : Nat)
    (hint : ∀ a ∈ matchRegex txt, ∀ k, a.v = .tok k → TokInt k)
    (hfuel : fuelNeeded (initialStack sc o.depth o.relMatchLenNum o.relMatchLenDen txt fuel).1 < fuel) :
    (searchCore sc ts o txt fuel).1.2 = none := by
  simp only [searchCore]
  by_cases hx : expiredAt o.deadline (initialStack sc o.depth o.relMatchLenNum o.relMatchLenDen txt fuel).2 = true
  · simp [hx]
  · simp only [hx, Bool.false_eq_true, if_false]
    cases he : (run (mkCfg sc ts o.depth txt) fuel (o.deadline.map (· - (initialStack sc o.depth o.relMatchLenNum o.relMatchLenDen txt fuel).2))
        (initialStack sc o.depth o.relMatchLenNum o.relMatchLenDen txt fuel).1 [] []).2 with
    | none => rfl
    | some e =>
      exfalso
      obtain ⟨rules, p, t, hr, hexp⟩ := run_err_enough (mkCfg sc ts o.depth txt) _ measure _
        (search_step_bound sc ts hts.valid o.depth txt _ (initialStack_ok sc _ _ _ txt fuel) (initialStack_rules_len sc _ _ _ txt fuel))
        fuel _ _ [] [] e (fun x hx' => ReachE.init hx') hfuel he
      have hok := reach_ok sc ts hts.valid o.depth txt _ (initialStack_ok sc _ _ _ txt fuel) p t rules hr
      have hcal := C02.reach_cal sc ts o.depth txt _ (C02.initialStack_cal sc _ _ _ txt fuel) p t rules hr
      have hlin := lineage_reach sc ts hts.valid o.depth txt _ (lineage_init sc _ _ _ txt fuel) p t rules hr
      have hw : WindowOk txt p :=
        ⟨fun a ha => ⟨hok.1 a ha, hcal a ha, reach_year sc ts hts o txt fuel p t rules hr a ha⟩, fun a ha hv => hlin.toks a ha hv,
         fun a ha k hk => hint a (hlin.toks a ha (isVal_false_of_tok a k hk)) k hk⟩
      obtain ⟨out, hout⟩ := expand_total ts hts txt rules hok.2 p t hw
      have : (mkCfg sc ts o.depth txt).expand rules p t = expandArts ts rules p t := rfl
      rw [this, hout] at hexp
      cases hexp

/-- the bound on a concrete text: 'tomorrow 5pm' (two matches, one sequence) -/
example : fuelNeeded (initialStack constScorer 10 1 1 [116, 111, 109, 111, 114, 114, 111, 119, 32, 53, 112, 109] 400).1 =
    (69 * 10 + 1) ^ 10 := by decide +kernel

/-- **… and neither does `ctparse_gen` with latent-time anchoring**: post-processing of the streamed candidates (every one is well
    formed, `C02.search_candidates_ok`) never raises, so the error component of the whole parse is that of the search -/
theorem parse_total {S : Type} (sc : Scorer S) (ts : Ts) (hts : TsOk ts) (o : Opts) (raw : List Nat) (fuel : Nat)
    (hint : ∀ a ∈ matchRegex (stripLabels (preprocess raw)), ∀ k, a.v = .tok k → TokInt k) :
    (ctparseGen sc ts o raw fuel).err = none ∨ (ctparseGen sc ts o raw fuel).err = some .unmodelled := by
  have hs := search_total sc ts hts o (stripLabels (preprocess raw)) fuel hint
  have hok := fun c hc => (C02.search_candidates_ok sc ts hts.valid o (stripLabels (preprocess raw)) fuel c hc).1
  have hl := latentAll_total ts hts _ hok
  unfold ctparseGen
  simp only
  split
  · simp only [hl]; exact hs
  · exact hs

/-- hypothesis (a) follows from a condition on the text alone: **no code point of the eight listed digit blocks this interpreter's
    `int()` does not know** (`Gen.intUnknown`, known finding D6).  Every body of the groups the productions convert is digit-only
    and not nullable (evaluated over the regenerated table), every decimal digit is known to `int()` or listed (all code points
    of the class evaluated) -/
theorem tokInt_of_text (txt : List Nat) (hne : NoExotic txt) : ∀ a ∈ matchRegex txt, ∀ k, a.v = .tok k → TokInt k :=
  QuickAdd.tokInt_of_text txt hne

/-- `parse_total` with hypothesis (a) discharged: for every raw text whose normalised, label-free form contains none of the listed
    unknown digits -/
theorem parse_total_text {S : Type} (sc : Scorer S) (ts : Ts) (hts : TsOk ts) (o : Opts) (raw : List Nat) (fuel : Nat)
    (hne : NoExotic (stripLabels (preprocess raw))) :
    (ctparseGen sc ts o raw fuel).err = none ∨ (ctparseGen sc ts o raw fuel).err = some .unmodelled :=
  parse_total sc ts hts o raw fuel (QuickAdd.tokInt_of_text _ hne)

/-- **`ctparse_gen` terminates and ends cleanly**: every raw text whose normalised label-free form has none of the listed digits,
    every reference time of the years 2 … 9500, scorer and option set, and every fuel above the explicit bound — no exception,
    no fuel marker, with and without latent-time anchoring -/
theorem parse_terminates {S : Type} (sc : Scorer S) (ts : Ts) (hts : TsOk ts) (o : Opts) (raw : List Nat) (fuel : Nat)
    (hne : NoExotic (stripLabels (preprocess raw)))
    (hfuel : fuelNeeded (initialStack sc o.depth o.relMatchLenNum o.relMatchLenDen (stripLabels (preprocess raw)) fuel).1 < fuel) :
    (ctparseGen sc ts o raw fuel).err = none := by
  have hs := search_terminates sc ts hts o (stripLabels (preprocess raw)) fuel (QuickAdd.tokInt_of_text _ hne) hfuel
  have hok := fun c hc => (C02.search_candidates_ok sc ts hts.valid o (stripLabels (preprocess raw)) fuel c hc).1
  have hl := latentAll_total ts hts _ hok
  unfold ctparseGen
  simp only
  split
  · simp only [hl]; exact hs
  · exact hs

/-- worth of the start nodes of the DFS over the match graph of a text: more fuel than this and the DFS finishes (`Lemmas/DfsBound`:
    a path with head `i` is worth `2^(n-i)`, its successors together less) -/
def dfsNeeded (txt : List Nat) : Nat :=
  dfsPot (matchRegex txt).toArray.size (((List.range (matchRegex txt).toArray.size).filter fun i => !hasPred txt (matchRegex txt).toArray i).map fun i => [i])

/-- **the parse is well defined**: with enough fuel for the DFS (`dfsNeeded`, a function of the text) and for the main loop
    (`fuelNeeded`), `ctparse_gen` ends without any exception or fuel marker, and every larger fuel gives the identical result —
    candidates, order, scores, subject, labels.  Hypotheses: a reference time of the years 2 … 9500 and no listed exotic digit
    in the normalised text. -/
theorem parse_well_defined {S : Type} (sc : Scorer S) (ts : Ts) (hts : TsOk ts) (o : Opts) (raw : List Nat) (fuel : Nat)
    (hne : NoExotic (stripLabels (preprocess raw)))
    (hdfs : dfsNeeded (stripLabels (preprocess raw)) < fuel)
    (hfuel : fuelNeeded (initialStack sc o.depth o.relMatchLenNum o.relMatchLenDen (stripLabels (preprocess raw)) fuel).1 < fuel) :
    (ctparseGen sc ts o raw fuel).err = none ∧ ∀ k, ctparseGen sc ts o raw (fuel + k) = ctparseGen sc ts o raw fuel :=
  ⟨parse_terminates sc ts hts o raw fuel hne hfuel,
   fun k => ctparseGen_fuel_indep sc ts o raw fuel (dfsFinished_of_fuel _ fuel hdfs)
     (search_terminates sc ts hts o _ fuel (QuickAdd.tokInt_of_text _ hne) hfuel) k⟩

/-- the DFS bound on a concrete text: 'tomorrow 5pm' (six pattern matches) -/
example : dfsNeeded [116, 111, 109, 111, 114, 114, 111, 119, 32, 53, 112, 109] = 96 := by decide +kernel

/-- hypothesis (a) is met by ordinary tokens: '5pm' has a numeric group that converts and a marker group that is never converted -/
example : TokInt { id := 128, caps := [("ampm", [112, 109]), ("hour", [53])] } := by
  intro n hn w hg
  simp only [intGroups, List.mem_cons, List.mem_nil_iff, or_false] at hn
  rcases hn with rfl | rfl | rfl | rfl | rfl | rfl <;> simp [Tok.group] at hg
  subst hg; exact ⟨5, by decide⟩
/-- … and it fails where it should: a digit this interpreter's `int()` does not know (D6) -/
example : ¬ TokInt { id := 128, caps := [("hour", [0x1D7CE])] } ∨ (pyInt [0x1D7CE]).isOk = true := by
  by_cases h : (pyInt [0x1D7CE]).isOk = true
  · exact Or.inr h
  · left
    intro hi
    obtain ⟨v, hv⟩ := hi "hour" (by decide) [0x1D7CE] rfl
    rw [hv] at h; exact h rfl
/-- **the model's fuel is only a device**: once the DFS over the match graph finished within the fuel (`dfsFinished`: it counts
    its iterations) and the stream ended without an exception and without the fuel marker, every larger fuel gives the identical
    parse — candidates, order, scores, subject, labels.  (That *some* fuel suffices, i.e. termination, is not proved; the
    correspondence runs the driver with a fuel no generated input exhausts and reports `Unmodelled` if one does.) -/
theorem parse_fuel_independent {S : Type} (sc : Scorer S) (ts : Ts) (o : Opts) (raw : List Nat) (fuel : Nat)
    (hd : dfsFinished (stripLabels (preprocess raw)) fuel = true)
    (he : (searchCore sc ts o (stripLabels (preprocess raw)) fuel).1.2 = none) (k : Nat) :
    ctparseGen sc ts o raw (fuel + k) = ctparseGen sc ts o raw fuel :=
  ctparseGen_fuel_indep sc ts o raw fuel hd he k

/-- its hypotheses on a concrete run: 'tomorrow 5pm' needs far less than 400 units -/
example : dfsFinished [116, 111, 109, 111, 114, 114, 111, 119, 32, 53, 112, 109] 400 = true := by decide +kernel

/-- the conclusion on a concrete run -/
example : (searchCore constScorer ⟨⟨2018, 3, 7⟩, 12, 43⟩ {} [116, 111, 109, 111, 114, 114, 111, 119, 32, 53, 112, 109] 400).1.2 = none := by decide +kernel

end QuickAdd.C01
