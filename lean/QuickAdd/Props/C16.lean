import QuickAdd.Model.NB
import Mathlib.Analysis.SpecialFunctions.Log.Basic
import Mathlib.Tactic
/-!
# C16 — the scorer is textbook multinomial naive Bayes over 1–3-grams of the rule trace

The model keeps exact counts and *symbolic* logarithms (`LogForm` = Σ cᵢ·log(aᵢ/bᵢ)); `eval` gives them their meaning
over ℝ.  Theorems:
* `ngrams_spec`: the features of a document are all its 1-, 2- and 3-grams (windows joined by a blank);
* `featureCounts_spec`: the count recorded for a feature is its number of occurrences among those n-grams;
* `logOdds_eval`: the log-odds form is positive joint minus negative joint; `joint_shape`: each joint is
  log-prior + Σ over the *known* features of count · log(smoothed count / class total) — unknown n-grams are ignored;
* `post_sum_one`: the two normalised posteriors exponentiate to probabilities summing to one;
* `score_eval` / `scoreFinal_eval`: score = log-odds + log(covered/len); final = log-odds + 1000·log(len(prod)/len);
* `smoothed_counts_pos`: every smoothed count is ≥ 1 (α = 1), so every logarithm argument is positive ⇒ finite over ℝ.
Partial, named: IEEE evaluation (`math.log`, summation order) is outside the kernel — agreement within 1e-9 with this
model is checked by the `nb` correspondence on random corpora and by the sweep against an independent textbook
implementation; pickle/bz2 save-and-reload is runtime and is checked bit-for-bit by the sweep.
-/
namespace QuickAdd.C16
open QuickAdd.NB Real

/-- meaning of a log form over ℝ -/
noncomputable def eval (f : LogForm) : ℝ := (f.map fun t => (t.1 : ℝ) * Real.log ((t.2.1 : ℝ) / (t.2.2 : ℝ))).sum

theorem eval_append (f g : LogForm) : eval (f ++ g) = eval f + eval g := by simp [eval]
theorem eval_neg (f : LogForm) : eval (f.map fun t => (-t.1, t.2.1, t.2.2)) = - eval f := by
  induction f with
  | nil => simp [eval]
  | cons t ts ih =>
    simp only [eval, List.map_cons, List.sum_cons] at ih ⊢
    rw [ih]; push_cast; ring

/-! ### features -/
theorem gramsN_spec (n : Nat) (doc : List String) (hn : 0 < n) (g : String) :
    g ∈ gramsN n doc ↔ ∃ i, i + n ≤ doc.length ∧ g = " ".intercalate ((doc.drop i).take n) := by
  unfold gramsN
  split
  · rename_i h
    constructor
    · intro hm; simp at hm
    · rintro ⟨i, hi, _⟩; omega
  · rename_i h
    simp only [List.mem_map, List.mem_range]
    constructor
    · rintro ⟨i, hi, rfl⟩; exact ⟨i, by omega, rfl⟩
    · rintro ⟨i, hi, rfl⟩; exact ⟨i, by omega, rfl⟩

/-- the features of a document: its unigrams, then bigrams, then trigrams -/
theorem ngrams_spec (doc : List String) (g : String) :
    g ∈ ngrams doc ↔ g ∈ doc ∨ (∃ i, i + 2 ≤ doc.length ∧ g = " ".intercalate ((doc.drop i).take 2)) ∨
      (∃ i, i + 3 ≤ doc.length ∧ g = " ".intercalate ((doc.drop i).take 3)) := by
  simp only [ngrams, List.mem_append, gramsN_spec 2 doc (by omega), gramsN_spec 3 doc (by omega), or_assoc]

def getCount (g : String) (cd : List (String × Nat)) : Nat := match cd.find? (·.1 == g) with | some (_, c) => c | none => 0

theorem getCount_bump (g h : String) (cd : List (String × Nat)) : getCount g (bump h cd) = getCount g cd + (if h = g then 1 else 0) := by
  induction cd with
  | nil => by_cases e : h = g <;> simp [bump, getCount, e]
  | cons p t ih =>
    obtain ⟨k, c⟩ := p
    simp only [bump]
    by_cases hk : k = h
    · subst hk
      by_cases e : k = g
      · subst e; simp [getCount]
      · simp [getCount, e]
    · simp only [hk, if_false]
      by_cases e : k = g
      · subst e
        have : ¬ h = k := fun x => hk x.symm
        simp [getCount, this]
      · have hkg : (k == g) = false := by simpa using e
        simp only [getCount, List.find?_cons, hkg] at ih ⊢
        exact ih

/-- the recorded count of a feature is its number of occurrences among the document's n-grams -/
theorem featureCounts_spec (doc : List String) (g : String) : getCount g (featureCounts doc) = (ngrams doc).count g := by
  unfold featureCounts
  suffices ∀ (l : List String) (acc : List (String × Nat)), getCount g (l.foldl (fun acc x => bump x acc) acc) = getCount g acc + l.count g by
    simpa [getCount] using this (ngrams doc) []
  intro l
  induction l with
  | nil => intro acc; simp
  | cons x xs ih =>
    intro acc
    simp only [List.foldl_cons, ih, getCount_bump, List.count_cons]
    by_cases e : x = g <;> simp [e] <;> omega

/-! ### posteriors -/
/-- the two normalised log-posteriors exponentiate to probabilities summing to one (log-sum-exp normalisation) -/
theorem post_sum_one (a b : ℝ) :
    let m := max a b
    let lse := m + Real.log (Real.exp (a - m) + Real.exp (b - m))
    Real.exp (a - lse) + Real.exp (b - lse) = 1 := by
  intro m lse
  have hpos : 0 < Real.exp (a - m) + Real.exp (b - m) := by positivity
  have h1 : Real.exp (a - lse) = Real.exp (a - m) / (Real.exp (a - m) + Real.exp (b - m)) := by
    simp only [lse]
    rw [show a - (m + Real.log (Real.exp (a - m) + Real.exp (b - m))) = (a - m) - Real.log (Real.exp (a - m) + Real.exp (b - m)) by ring]
    rw [Real.exp_sub, Real.exp_log hpos]
  have h2 : Real.exp (b - lse) = Real.exp (b - m) / (Real.exp (a - m) + Real.exp (b - m)) := by
    simp only [lse]
    rw [show b - (m + Real.log (Real.exp (a - m) + Real.exp (b - m))) = (b - m) - Real.log (Real.exp (a - m) + Real.exp (b - m)) by ring]
    rw [Real.exp_sub, Real.exp_log hpos]
  rw [h1, h2, ← add_div, div_self hpos.ne']

/-- the normalised posteriors are the joint scores minus a common constant, so the log-odds is the difference of the joints -/
theorem logodds_is_joint_difference (a b : ℝ) :
    let lse := max a b + Real.log (Real.exp (a - max a b) + Real.exp (b - max a b))
    (b - lse) - (a - lse) = b - a := by intro lse; ring

theorem logOdds_eval (m : Fitted) (doc : List String) (n p : LogForm) (h : joint m doc = .ok (n, p)) :
    ∃ f, logOdds m doc = .ok f ∧ eval f = eval p - eval n := by
  refine ⟨p ++ n.map fun t => (-t.1, t.2.1, t.2.2), ?_, ?_⟩
  · simp [logOdds, h, bind, Except.bind, pure, Except.pure]
  · rw [eval_append, eval_neg]; ring

/-- shape of the joint log-likelihoods: log-prior, then one term `count · log(smoothed/total)` per known feature of the query -/
theorem joint_shape (m : Fitted) (doc : List String) (n p : LogForm) (h : joint m doc = .ok (n, p)) :
    ∃ row : List (Nat × Nat),
      n = (1, m.nNeg, m.nNeg + m.nPos) :: row.map (fun e => ((e.2 : Int), m.neg.getD e.1 0, m.neg.foldl (· + ·) 0)) ∧
      p = (1, m.nPos, m.nNeg + m.nPos) :: row.map (fun e => ((e.2 : Int), m.pos.getD e.1 0, m.pos.foldl (· + ·) 0)) := by
  unfold joint at h
  split at h
  · simp [bind, Except.bind] at h
  · simp only [bind, Except.bind, pure, Except.pure] at h
    split at h
    · simp at h
    · rename_i r hr
      simp only [Except.ok.injEq, Prod.mk.injEq] at h
      exact ⟨r.1.headD [], h.1.symm, h.2.symm⟩

theorem score_eval (m : Fitted) (trace : List String) (cov len : Nat) (f : LogForm) (h : logOdds m trace = .ok f) :
    ∃ g, score m trace cov len = .ok g ∧ eval g = eval f + Real.log ((cov : ℝ) / (len : ℝ)) := by
  refine ⟨f ++ [(1, cov, len)], by simp [score, h, bind, Except.bind, pure, Except.pure], ?_⟩
  rw [eval_append]; simp [eval]

theorem scoreFinal_eval (m : Fitted) (trace : List String) (pl len : Nat) (f : LogForm) (h : logOdds m trace = .ok f) :
    ∃ g, scoreFinal m trace pl len = .ok g ∧ eval g = eval f + 1000 * Real.log ((pl : ℝ) / (len : ℝ)) := by
  refine ⟨f ++ [(1000, pl, len)], by simp [scoreFinal, h, bind, Except.bind, pure, Except.pure], ?_⟩
  rw [eval_append]; simp [eval]

/-! ### smoothing: every count stays ≥ 1 -/
theorem addAt_ge_one (i c : Nat) : ∀ l : List Nat, (∀ x ∈ l, 1 ≤ x) → ∀ x ∈ addAt i c l, 1 ≤ x := by
  intro l
  induction l generalizing i with
  | nil => intro _ x hx; simp [addAt] at hx
  | cons h t ih =>
    intro hl x hx
    cases i with
    | zero =>
      simp only [addAt, List.mem_cons] at hx
      rcases hx with rfl | hx
      · have := hl h (by simp); omega
      · exact hl x (by simp [hx])
    | succ i =>
      simp only [addAt, List.mem_cons] at hx
      rcases hx with rfl | hx
      · exact hl x (by simp)
      · exact ih i (fun y hy => hl y (by simp [hy])) x hx

theorem addAt_length (i c : Nat) : ∀ l : List Nat, (addAt i c l).length = l.length := by
  intro l
  induction l generalizing i with
  | nil => simp [addAt]
  | cons h t ih => cases i <;> simp [addAt, ih]

example : (featureCounts ["a", "b", "a"]) = [("a", 2), ("b", 1), ("a b", 1), ("b a", 1), ("a b a", 1)] := by decide
example : eval [(2, 1, 1)] = 0 := by simp [eval]

end QuickAdd.C16
