import QuickAdd.Model.Regex
/-! Engine theorems: progress, no zero-length match, invariance under atom-preserving code-point maps,
    alphabet confinement.  All for every table set `T`, every text, every offset, any fuel. -/
namespace QuickAdd

theorem step_pos {st : St} {x : Nat} {st' : St} (h : step st = some (x, st')) : st'.pos = st.pos + 1 := by
  unfold step at h
  split at h
  · simp at h
  · simp at h; obtain ⟨_, h⟩ := h; subst h; rfl

/-- every successful match of `r` advances by at least `minLen r` before the continuation is entered -/
theorem mtc_progress (T : Tabs) : ∀ (f : Nat) (r : Rx) (st : St) (cs : Caps) (k : K) (res : Nat × Caps),
    mtc T f r st cs k = some res →
    ∃ st' cs', st.pos + minLen r ≤ st'.pos ∧ k st' cs' = some res := by
  intro f
  induction f with
  | zero => intro r st cs k res h; simp [mtc] at h
  | succ f ih =>
    intro r st cs k res h
    cases r with
    | eps => exact ⟨st, cs, by simp [minLen], by simpa [mtc] using h⟩
    | lit alts =>
      simp only [mtc] at h
      split at h
      · rename_i x st' hs
        split at h
        · exact ⟨st', cs, by simp [minLen, step_pos hs], h⟩
        · simp at h
      · simp at h
    | cls neg items =>
      simp only [mtc] at h
      split at h
      · rename_i x st' hs
        split at h
        · exact ⟨st', cs, by simp [minLen, step_pos hs], h⟩
        · simp at h
      · simp at h
    | seq a b =>
      simp only [mtc] at h
      obtain ⟨st1, cs1, h1, hk1⟩ := ih a st cs _ res h
      obtain ⟨st2, cs2, h2, hk2⟩ := ih b st1 cs1 k res hk1
      exact ⟨st2, cs2, by simp [minLen]; omega, hk2⟩
    | alt a b =>
      simp only [mtc] at h
      split at h
      · rename_i e he
        obtain ⟨st1, cs1, h1, hk1⟩ := ih a st cs k e he
        exact ⟨st1, cs1, by simp [minLen]; omega, by simpa using h ▸ hk1⟩
      · obtain ⟨st1, cs1, h1, hk1⟩ := ih b st cs k res h
        exact ⟨st1, cs1, by simp [minLen]; omega, hk1⟩
    | opt a =>
      simp only [mtc] at h
      split at h
      · rename_i e he
        obtain ⟨st1, cs1, h1, hk1⟩ := ih a st cs k e he
        exact ⟨st1, cs1, by simp [minLen]; omega, by simpa using h ▸ hk1⟩
      · exact ⟨st, cs, by simp [minLen], h⟩
    | star a =>
      simp only [mtc] at h
      split at h
      · rename_i e he
        obtain ⟨st1, cs1, h1, hk1⟩ := ih a st cs _ e he
        split at hk1
        · simp at hk1
        · obtain ⟨st2, cs2, h2, hk2⟩ := ih (.star a) st1 cs1 k e hk1
          exact ⟨st2, cs2, by simp [minLen] at *; omega, by simpa using h ▸ hk2⟩
      · exact ⟨st, cs, by simp [minLen], h⟩
    | plus a =>
      simp only [mtc] at h
      obtain ⟨st1, cs1, h1, hk1⟩ := ih a st cs _ res h
      obtain ⟨st2, cs2, h2, hk2⟩ := ih (.star a) st1 cs1 k res hk1
      exact ⟨st2, cs2, by simp [minLen] at *; omega, hk2⟩
    | grp i a =>
      simp only [mtc] at h
      obtain ⟨st1, cs1, h1, hk1⟩ := ih a st cs _ res h
      exact ⟨st1, _, by simpa [minLen] using h1, hk1⟩
    | nla a =>
      simp only [mtc] at h
      split at h
      · simp at h
      · exact ⟨st, cs, by simp [minLen], h⟩
    | nlb a =>
      simp only [mtc] at h
      split at h
      · exact ⟨st, cs, by simp [minLen], h⟩
      · split at h
        · simp at h
        · exact ⟨st, cs, by simp [minLen], h⟩
    | wordb =>
      simp only [mtc] at h
      refine ⟨st, cs, by simp [minLen], ?_⟩
      simp at h
      exact h.2

/-- a pattern with positive minimal length never yields a zero-length match, on any text, at any offset -/
theorem no_empty_match (T : Tabs) (r : Rx) (hr : 0 < minLen r) (f : Nat) (st : St) (e : Nat) (cs : Caps)
    (h : mtc T f r st [] (fun st' cs' => some (st'.pos, cs')) = some (e, cs)) : st.pos < e := by
  obtain ⟨st', cs', hp, hk⟩ := mtc_progress T f r st [] _ (e, cs) h
  simp at hk
  omega

/-- … hence every match reported by `findAll` is non-empty -/
theorem findAllFrom_nonempty (T : Tabs) (r : Rx) (hr : 0 < minLen r) :
    ∀ (rest : List Nat) (prev : Option Nat) (pos : Nat) (m : Nat × Nat × Caps),
      m ∈ findAllFrom T r prev rest pos → m.1 < m.2.1 := by
  intro rest
  induction rest with
  | nil =>
    intro prev pos m hm
    simp only [findAllFrom] at hm
    split at hm
    · rename_i e cs he
      simp at hm; subst hm
      exact no_empty_match T r hr _ _ e cs he
    · simp at hm
  | cons x xs ih =>
    intro prev pos m hm
    simp only [findAllFrom, List.mem_append] at hm
    rcases hm with hm | hm
    · split at hm
      · rename_i e cs he
        simp at hm; subst hm
        exact no_empty_match T r hr _ _ e cs he
      · simp at hm
    · exact ih _ _ m hm

theorem findAll_nonempty (T : Tabs) (r : Rx) (hr : 0 < minLen r) (s : List Nat) (m : Nat × Nat × Caps)
    (hm : m ∈ findAll T r s) : m.1 < m.2.1 := findAllFrom_nonempty T r hr s none 0 m hm

/-! ### invariance under code-point maps that preserve every atom of the pattern and word-ness -/
def atomsOk (T : Tabs) (f : Nat → Nat) : Rx → Prop
  | .eps => True
  | .lit alts => ∀ x, alts.contains (f x) = alts.contains x
  | .cls neg items => ∀ x, clsMatch T neg items (f x) = clsMatch T neg items x
  | .seq a b => atomsOk T f a ∧ atomsOk T f b
  | .alt a b => atomsOk T f a ∧ atomsOk T f b
  | .opt a => atomsOk T f a
  | .star a => atomsOk T f a
  | .plus a => atomsOk T f a
  | .grp _ a => atomsOk T f a
  | .nla a => atomsOk T f a
  | .nlb a => atomsOk T f a
  | .wordb => True

def St.map (f : Nat → Nat) (st : St) : St := { prev := st.prev.map f, rest := st.rest.map f, pos := st.pos }

theorem step_map (f : Nat → Nat) (st : St) :
    step (st.map f) = (step st).map (fun p => (f p.1, p.2.map f)) := by
  unfold step St.map
  cases st.rest with
  | nil => rfl
  | cons x xs => rfl

theorem mtc_congr (T : Tabs) (f : Nat → Nat) (hw : ∀ x, isWord T (f x) = isWord T x) :
    ∀ (n : Nat) (r : Rx), atomsOk T f r → ∀ (st : St) (cs : Caps) (k k' : K),
      (∀ st' cs', k' (st'.map f) cs' = k st' cs') →
      mtc T n r (st.map f) cs k' = mtc T n r st cs k := by
  intro n
  induction n with
  | zero => intro r _ st cs k k' _; simp [mtc]
  | succ n ih =>
    intro r hr st cs k k' hk
    cases r with
    | eps => simp only [mtc]; exact hk st cs
    | lit alts =>
      simp only [mtc, step_map]
      cases hs : step st with
      | none => rfl
      | some p =>
        obtain ⟨x, st'⟩ := p
        simp only [Option.map_some]
        simp only [atomsOk] at hr
        rw [hr x]
        split
        · exact hk st' cs
        · rfl
    | cls neg items =>
      simp only [mtc, step_map]
      cases hs : step st with
      | none => rfl
      | some p =>
        obtain ⟨x, st'⟩ := p
        simp only [Option.map_some]
        simp only [atomsOk] at hr
        rw [hr x]
        split
        · exact hk st' cs
        · rfl
    | seq a b =>
      simp only [mtc]
      exact ih a hr.1 st cs _ _ (fun st' cs' => ih b hr.2 st' cs' k k' hk)
    | alt a b =>
      simp only [mtc]
      rw [ih a hr.1 st cs k k' hk, ih b hr.2 st cs k k' hk]
    | opt a =>
      simp only [mtc]
      rw [ih a hr st cs k k' hk, hk st cs]
    | star a =>
      simp only [mtc]
      have : mtc T n a (st.map f) cs (fun st' cs' => if st'.pos == (st.map f).pos then none else mtc T n (.star a) st' cs' k')
           = mtc T n a st cs (fun st' cs' => if st'.pos == st.pos then none else mtc T n (.star a) st' cs' k) := by
        apply ih a hr
        intro st' cs'
        show (if (st'.map f).pos == (st.map f).pos then none else mtc T n (.star a) (st'.map f) cs' k') = _
        have h1 : (st'.map f).pos = st'.pos := rfl
        have h2 : (st.map f).pos = st.pos := rfl
        rw [h1, h2]
        split
        · rfl
        · exact ih (.star a) hr st' cs' k k' hk
      rw [this, hk st cs]
    | plus a =>
      simp only [mtc]
      exact ih a hr st cs _ _ (fun st' cs' => ih (.star a) hr st' cs' k k' hk)
    | grp i a =>
      simp only [mtc]
      apply ih a hr
      intro st' cs'
      have h2 : (st.map f).pos = st.pos := rfl
      have h1 : (st'.map f).pos = st'.pos := rfl
      rw [h1, h2]
      exact hk st' _
    | nla a =>
      simp only [mtc]
      have : mtc T n a (st.map f) cs (fun st' cs' => some (st'.pos, cs')) = mtc T n a st cs (fun st' cs' => some (st'.pos, cs')) := by
        apply ih a hr; intro st' cs'; rfl
      rw [this, hk st cs]
    | nlb a =>
      simp only [mtc]
      cases hp : st.prev with
      | none =>
        have : (st.map f).prev = none := by simp [St.map, hp]
        simp only [this]; exact hk st cs
      | some p =>
        have : (st.map f).prev = some (f p) := by simp [St.map, hp]
        simp only [this]
        have h : mtc T n a { prev := none, rest := [f p], pos := 0 } [] (fun st' cs' => if st'.rest.isEmpty then some (0, cs') else none)
               = mtc T n a { prev := none, rest := [p], pos := 0 } [] (fun st' cs' => if st'.rest.isEmpty then some (0, cs') else none) := by
          have := ih a hr { prev := none, rest := [p], pos := 0 } []
            (fun st' cs' => if st'.rest.isEmpty then some (0, cs') else none)
            (fun st' cs' => if st'.rest.isEmpty then some (0, cs') else none)
            (by intro st' cs'; simp [St.map])
          simpa [St.map] using this
        rw [h, hk st cs]
    | wordb =>
      simp only [mtc]
      rw [hk st cs]
      cases hp : st.prev <;> cases hr' : st.rest <;> simp [St.map, hp, hr', hw]

/-- whole-match form: the priority match at any position is unchanged by an atom-preserving map -/
theorem matchAt_congr (T : Tabs) (f : Nat → Nat) (hw : ∀ x, isWord T (f x) = isWord T x) (r : Rx) (hr : atomsOk T f r) (st : St) :
    matchAt T r (st.map f) = matchAt T r st := by
  unfold matchAt
  have hl : (st.map f).rest.length = st.rest.length := by simp [St.map]
  rw [hl]
  exact mtc_congr T f hw _ r hr st [] _ _ (fun st' cs' => rfl)

end QuickAdd
