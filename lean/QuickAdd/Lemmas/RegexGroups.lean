import QuickAdd.Lemmas.RegexLang
import QuickAdd.Model.Rules
/-!
# Finite languages of star-free group bodies, and a verified checker for "every text a group can capture satisfies P"
-/
namespace QuickAdd

def enumRanges (rs : Ranges) : List Nat := rs.flatMap fun r => (List.range (r.2 + 1 - r.1)).map (· + r.1)

theorem mem_enumRanges (rs : Ranges) (x : Nat) (h : inRanges rs x = true) : x ∈ enumRanges rs := by
  unfold inRanges at h
  simp only [List.any_eq_true, Bool.and_eq_true, decide_eq_true_eq] at h
  obtain ⟨r, hr, h1, h2⟩ := h
  simp only [enumRanges, List.mem_flatMap, List.mem_map, List.mem_range]
  exact ⟨r, hr, x - r.1, by omega, by omega⟩

def enumCI (T : Tabs) : CI → List Nat
  | .rng lo hi => (List.range (hi + 1 - lo)).map (· + lo)
  | .digit => enumRanges T.digit
  | .space => enumRanges T.space

theorem mem_enumCI (T : Tabs) (it : CI) (x : Nat) (h : ciMatch T x it = true) : x ∈ enumCI T it := by
  cases it with
  | rng lo hi =>
    simp only [ciMatch, Bool.and_eq_true, decide_eq_true_eq] at h
    simp only [enumCI, List.mem_map, List.mem_range]
    exact ⟨x - lo, by omega, by omega⟩
  | digit => exact mem_enumRanges _ _ h
  | space => exact mem_enumRanges _ _ h

/-- finite language of a star-free pattern without negated classes; `none` otherwise -/
def langOf (T : Tabs) : Rx → Option (List (List Nat))
  | .eps => some [[]]
  | .lit alts => some (alts.map fun x => [x])
  | .cls false items => some ((items.flatMap (enumCI T)).map fun x => [x])
  | .cls true _ => none
  | .seq a b => match langOf T a, langOf T b with
    | some la, some lb => some (la.flatMap fun s => lb.map (s ++ ·))
    | _, _ => none
  | .alt a b => match langOf T a, langOf T b with
    | some la, some lb => some (la ++ lb)
    | _, _ => none
  | .opt a => match langOf T a with | some la => some ([] :: la) | none => none
  | .star _ => none
  | .plus _ => none
  | .grp _ a => langOf T a
  | .nla _ => some [[]]
  | .nlb _ => some [[]]
  | .wordb => some [[]]

theorem langOf_complete (T : Tabs) : ∀ (r : Rx) (s : List Nat), Matches T r s → ∀ L, langOf T r = some L → s ∈ L := by
  intro r s hm
  induction hm with
  | eps => intro L h; simp [langOf] at h; subst h; simp
  | lit hx =>
    intro L h; simp [langOf] at h; subst h
    simp only [List.mem_map]; exact ⟨_, by simpa using hx, rfl⟩
  | @cls neg items x hx =>
    intro L h
    cases neg with
    | true => simp [langOf] at h
    | false =>
      simp [langOf] at h; subst h
      simp only [clsMatch, bne_iff_ne, ne_eq, Bool.not_eq_false, List.any_eq_true] at hx
      obtain ⟨it, hit, hci⟩ := hx
      simp only [List.mem_map, List.mem_flatMap]
      exact ⟨x, ⟨it, hit, mem_enumCI T it x hci⟩, rfl⟩
  | @seq a b s t _ _ iha ihb =>
    intro L h
    simp only [langOf] at h
    cases ha : langOf T a with
    | none => simp [ha] at h
    | some la =>
      cases hb : langOf T b with
      | none => simp [ha, hb] at h
      | some lb =>
        simp [ha, hb] at h; subst h
        simp only [List.mem_flatMap, List.mem_map]
        exact ⟨s, iha la ha, t, ihb lb hb, rfl⟩
  | @altL a b s _ iha =>
    intro L h
    simp only [langOf] at h
    cases ha : langOf T a with
    | none => simp [ha] at h
    | some la =>
      cases hb : langOf T b with
      | none => simp [ha, hb] at h
      | some lb => simp [ha, hb] at h; subst h; exact List.mem_append_left _ (iha la ha)
  | @altR a b s _ ihb =>
    intro L h
    simp only [langOf] at h
    cases ha : langOf T a with
    | none => simp [ha] at h
    | some la =>
      cases hb : langOf T b with
      | none => simp [ha, hb] at h
      | some lb => simp [ha, hb] at h; subst h; exact List.mem_append_right _ (ihb lb hb)
  | @optNone a =>
    intro L h
    simp only [langOf] at h
    cases ha : langOf T a with
    | none => simp [ha] at h
    | some la => simp [ha] at h; subst h; simp
  | @optSome a s _ iha =>
    intro L h
    simp only [langOf] at h
    cases ha : langOf T a with
    | none => simp [ha] at h
    | some la => simp [ha] at h; subst h; exact List.mem_cons_of_mem _ (iha la ha)
  | starNil => intro L h; simp [langOf] at h
  | starCons _ _ _ _ => intro L h; simp [langOf] at h
  | plus _ _ _ _ => intro L h; simp [langOf] at h
  | grp _ ih => intro L h; exact ih L (by simpa [langOf] using h)
  | nla => intro L h; simp [langOf] at h; subst h; simp
  | nlb => intro L h; simp [langOf] at h; subst h; simp
  | wordb => intro L h; simp [langOf] at h; subst h; simp

/-- all bodies of groups numbered `i` that the matcher can capture at -/
def bodiesOf (i : Nat) : Rx → List Rx
  | .grp j a => (if i = j then [a] else []) ++ bodiesOf i a
  | .seq a b => bodiesOf i a ++ bodiesOf i b
  | .alt a b => bodiesOf i a ++ bodiesOf i b
  | .opt a => bodiesOf i a
  | .star a => bodiesOf i a
  | .plus a => bodiesOf i a
  | _ => []

theorem mem_bodiesOf (i : Nat) (a : Rx) : ∀ r, GrpIn i a r → a ∈ bodiesOf i r := by
  intro r h
  induction h with
  | here => simp [bodiesOf]
  | seqL _ ih => simp [bodiesOf, ih]
  | seqR _ ih => simp [bodiesOf, ih]
  | altL _ ih => simp [bodiesOf, ih]
  | altR _ ih => simp [bodiesOf, ih]
  | opt _ ih => simp [bodiesOf, ih]
  | star _ ih => simp [bodiesOf, ih]
  | plus _ ih => simp [bodiesOf, ih]
  | grp _ ih => simp [bodiesOf, ih]

/-- checker: every word of the (finite) language of every body of group `i` satisfies `P` -/
def groupCheck (T : Tabs) (r : Rx) (i : Nat) (P : List Nat → Bool) : Bool :=
  (bodiesOf i r).all fun a => match langOf T a with | some L => L.all P | none => false

theorem groupCheck_sound (T : Tabs) (txt : List Nat) (r : Rx) (i : Nat) (P : List Nat → Bool) (hchk : groupCheck T r i P = true)
    (cs : Caps) (hcs : CapsOK T txt r cs) (s e : Nat) (hm : (i, s, e) ∈ cs) : P ((txt.drop s).take (e - s)) = true := by
  obtain ⟨a, hg, _, hmat⟩ := hcs (i, s, e) hm
  have ha := List.all_eq_true.mp hchk a (mem_bodiesOf i a r hg)
  cases hl : langOf T a with
  | none => simp [hl] at ha
  | some L =>
    simp only [hl] at ha
    exact List.all_eq_true.mp ha _ (langOf_complete T a _ hmat L hl)

/-! ### the same over a quotient alphabet
`\d` has some 650 code points; a four-digit group (`year`) has too many words for the kernel.  All that matters to a predicate on
the *number* is the decimal value of each digit, so the language is enumerated modulo a map `q` on code points: every word of
the language, mapped through `q`, is in `langOfQ q` (for any `q`); `P` is then checked on the representatives and transported
back by a lemma about `P` and `q` (`intInRange_canon` for the numeric ranges). -/

def dedupNat : List Nat → List Nat
  | [] => []
  | x :: xs => if (dedupNat xs).contains x then dedupNat xs else x :: dedupNat xs

theorem mem_dedupNat (x : Nat) : ∀ l : List Nat, x ∈ l → x ∈ dedupNat l
  | [], h => by cases h
  | y :: ys, h => by
    simp only [dedupNat]
    rcases List.mem_cons.mp h with rfl | h'
    · split
      · rename_i hc; simpa using hc
      · exact List.mem_cons_self
    · split
      · exact mem_dedupNat x ys h'
      · exact List.mem_cons_of_mem _ (mem_dedupNat x ys h')

def langOfQ (T : Tabs) (q : Nat → Nat) : Rx → Option (List (List Nat))
  | .eps => some [[]]
  | .lit alts => some ((dedupNat (alts.map q)).map fun x => [x])
  | .cls false items => some ((dedupNat ((items.flatMap (enumCI T)).map q)).map fun x => [x])
  | .cls true _ => none
  | .seq a b => match langOfQ T q a, langOfQ T q b with
    | some la, some lb => some (la.flatMap fun s => lb.map (s ++ ·))
    | _, _ => none
  | .alt a b => match langOfQ T q a, langOfQ T q b with
    | some la, some lb => some (la ++ lb)
    | _, _ => none
  | .opt a => match langOfQ T q a with | some la => some ([] :: la) | none => none
  | .star _ => none
  | .plus _ => none
  | .grp _ a => langOfQ T q a
  | .nla _ => some [[]]
  | .nlb _ => some [[]]
  | .wordb => some [[]]

theorem langOfQ_complete (T : Tabs) (q : Nat → Nat) : ∀ (r : Rx) (s : List Nat), Matches T r s → ∀ L, langOfQ T q r = some L → s.map q ∈ L := by
  intro r s hm
  induction hm with
  | eps => intro L h; simp [langOfQ] at h; subst h; simp
  | @lit alts x hx =>
    intro L h; simp [langOfQ] at h; subst h
    simp only [List.map_cons, List.map_nil, List.mem_map]
    exact ⟨q x, mem_dedupNat _ _ (List.mem_map.mpr ⟨x, by simpa using hx, rfl⟩), rfl⟩
  | @cls neg items x hx =>
    intro L h
    cases neg with
    | true => simp [langOfQ] at h
    | false =>
      simp [langOfQ] at h; subst h
      simp only [clsMatch, bne_iff_ne, ne_eq, Bool.not_eq_false, List.any_eq_true] at hx
      obtain ⟨it, hit, hci⟩ := hx
      simp only [List.map_cons, List.map_nil, List.mem_map]
      exact ⟨q x, mem_dedupNat _ _ (List.mem_map.mpr ⟨x, List.mem_flatMap.mpr ⟨it, hit, mem_enumCI T it x hci⟩, rfl⟩), rfl⟩
  | @seq a b s t _ _ iha ihb =>
    intro L h
    simp only [langOfQ] at h
    cases ha : langOfQ T q a with
    | none => simp [ha] at h
    | some la =>
      cases hb : langOfQ T q b with
      | none => simp [ha, hb] at h
      | some lb =>
        simp [ha, hb] at h; subst h
        simp only [List.map_append, List.mem_flatMap, List.mem_map]
        exact ⟨s.map q, iha la ha, t.map q, ihb lb hb, rfl⟩
  | @altL a b s _ iha =>
    intro L h
    simp only [langOfQ] at h
    cases ha : langOfQ T q a with
    | none => simp [ha] at h
    | some la =>
      cases hb : langOfQ T q b with
      | none => simp [ha, hb] at h
      | some lb => simp [ha, hb] at h; subst h; exact List.mem_append_left _ (iha la ha)
  | @altR a b s _ ihb =>
    intro L h
    simp only [langOfQ] at h
    cases ha : langOfQ T q a with
    | none => simp [ha] at h
    | some la =>
      cases hb : langOfQ T q b with
      | none => simp [ha, hb] at h
      | some lb => simp [ha, hb] at h; subst h; exact List.mem_append_right _ (ihb lb hb)
  | @optNone a =>
    intro L h
    simp only [langOfQ] at h
    cases ha : langOfQ T q a with
    | none => simp [ha] at h
    | some la => simp [ha] at h; subst h; simp
  | @optSome a s _ iha =>
    intro L h
    simp only [langOfQ] at h
    cases ha : langOfQ T q a with
    | none => simp [ha] at h
    | some la => simp [ha] at h; subst h; exact List.mem_cons_of_mem _ (iha la ha)
  | starNil => intro L h; simp [langOfQ] at h
  | starCons _ _ _ _ => intro L h; simp [langOfQ] at h
  | plus _ _ _ _ => intro L h; simp [langOfQ] at h
  | grp _ ih => intro L h; exact ih L (by simpa [langOfQ] using h)
  | nla => intro L h; simp [langOfQ] at h; subst h; simp
  | nlb => intro L h; simp [langOfQ] at h; subst h; simp
  | wordb => intro L h; simp [langOfQ] at h; subst h; simp

/-- checker: every representative of the language of every body of group `i` satisfies `P` -/
def groupCheckQ (T : Tabs) (q : Nat → Nat) (r : Rx) (i : Nat) (P : List Nat → Bool) : Bool :=
  (bodiesOf i r).all fun a => match langOfQ T q a with | some L => L.all P | none => false

theorem groupCheckQ_sound (T : Tabs) (q : Nat → Nat) (txt : List Nat) (r : Rx) (i : Nat) (P : List Nat → Bool) (hchk : groupCheckQ T q r i P = true)
    (cs : Caps) (hcs : CapsOK T txt r cs) (s e : Nat) (hm : (i, s, e) ∈ cs) : P (((txt.drop s).take (e - s)).map q) = true := by
  obtain ⟨a, hg, _, hmat⟩ := hcs (i, s, e) hm
  have ha := List.all_eq_true.mp hchk a (mem_bodiesOf i a r hg)
  cases hl : langOfQ T q a with
  | none => simp [hl] at ha
  | some L =>
    simp only [hl] at ha
    exact List.all_eq_true.mp ha _ (langOfQ_complete T q a _ hmat L hl)

/-- captures of every match reported by `findAll` are sound w.r.t. the text -/
theorem findAllFrom_caps (T : Tabs) (txt : List Nat) (r : Rx) : ∀ (rest : List Nat) (prev : Option Nat) (pos : Nat),
    rest = txt.drop pos → pos ≤ txt.length → ∀ m ∈ findAllFrom T r prev rest pos, CapsOK T txt r m.2.2 := by
  intro rest
  induction rest with
  | nil =>
    intro prev pos hr hp m hm
    simp only [findAllFrom] at hm
    split at hm
    · rename_i e cs he
      simp at hm; subst hm
      rw [hr] at he
      exact matchAt_caps T txt r pos hp prev e cs he
    · simp at hm
  | cons x xs ih =>
    intro prev pos hr hp m hm
    simp only [findAllFrom, List.mem_append] at hm
    rcases hm with hm | hm
    · split at hm
      · rename_i e cs he
        simp at hm; subst hm
        rw [hr] at he
        exact matchAt_caps T txt r pos hp prev e cs he
      · simp at hm
    · have hlen : pos < txt.length := by
        have : (txt.drop pos).length = txt.length - pos := List.length_drop
        rw [← hr] at this; simp at this; omega
      apply ih (some x) (pos + 1) ?_ (by omega) m hm
      have : txt.drop (pos + 1) = (txt.drop pos).drop 1 := by rw [List.drop_drop]
      rw [this, ← hr]; rfl

theorem findAll_caps (T : Tabs) (r : Rx) (txt : List Nat) (m : Nat × Nat × Caps) (hm : m ∈ findAll T r txt) : CapsOK T txt r m.2.2 :=
  findAllFrom_caps T txt r txt none 0 (by simp) (by omega) m hm

/-- `P` for a decimal field: `int()` succeeds with a value in `lo..hi`, or the text contains a digit this interpreter's
    `int()` does not know (known finding D6: listed code points) -/
def intInRange (lo hi : Int) (w : List Nat) : Bool :=
  match pyInt w with
  | .ok n => decide (lo ≤ n) && decide (n ≤ hi)
  | .error _ => w.any fun c => inRanges Gen.intUnknown c


/-- the ASCII digit with the same decimal value (`int()` of this interpreter, generated table); other code points stay -/
def canonDigit (c : Nat) : Nat := match digitVal c with | some v => 48 + v | none => c

theorem digitVal_ascii : ∀ v ∈ List.range 10, digitVal (48 + v) = some v ∧ inRanges Gen.intUnknown (48 + v) = false := by decide +kernel

theorem digitVal_lt (c v : Nat) (h : digitVal c = some v) : v < 10 := by
  unfold digitVal at h
  split at h
  · simp only [Option.some.injEq] at h; omega
  · cases h

theorem digitVal_canon (c : Nat) : digitVal (canonDigit c) = digitVal c := by
  unfold canonDigit
  cases h : digitVal c with
  | none => simp only [h]
  | some v => simp only; exact (digitVal_ascii v (by simp; exact digitVal_lt c v h)).1

theorem pyInt_canon (w : List Nat) : pyInt (w.map canonDigit) = pyInt w := by
  unfold pyInt
  simp only [List.isEmpty_map, List.foldlM_map, digitVal_canon]

theorem intInRange_canon (lo hi : Int) (w : List Nat) (h : intInRange lo hi (w.map canonDigit) = true) : intInRange lo hi w = true := by
  unfold intInRange at h ⊢
  rw [pyInt_canon] at h
  cases hp : pyInt w with
  | ok n => simpa [hp] using h
  | error e =>
    simp only [hp, List.any_map, List.any_eq_true, Function.comp] at h ⊢
    obtain ⟨c, hc, hu⟩ := h
    refine ⟨c, hc, ?_⟩
    unfold canonDigit at hu
    cases hd : digitVal c with
    | none => simpa [hd] using hu
    | some v =>
      simp only [hd] at hu
      rw [(digitVal_ascii v (by simp; exact digitVal_lt c v hd)).2] at hu
      cases hu

end QuickAdd
