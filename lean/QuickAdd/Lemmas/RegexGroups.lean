import QuickAdd.Lemmas.RegexLang
import QuickAdd.Model.Rules
/-!
# Finite languages of star-free group bodies, and a verified checker for "every text a group can capture satisfies P"
-/
namespace QuickAdd

def enumRanges (rs : Ranges) : List Nat := rs.flatMap fun r => (List.range (r.2 + 1 - r.1)).map (· + r.1)

theorem mem_enumRanges (rs : Ranges) (x : Nat) (h : inRanges rs x = true) : x ∈ enumRanges rs := by
  unfold inRanges at h
  simp only [List.any_eq_true, Bool.and_eq_true, decide_eq_true_eq] at h
  obtain ⟨r, hr, h1, h2⟩ := h
  simp only [enumRanges, List.mem_flatMap, List.mem_map, List.mem_range]
  exact ⟨r, hr, x - r.1, by omega, by omega⟩

def enumCI (T : Tabs) : CI → List Nat
  | .rng lo hi => (List.range (hi + 1 - lo)).map (· + lo)
  | .digit => enumRanges T.digit
  | .space => enumRanges T.space

theorem mem_enumCI (T : Tabs) (it : CI) (x : Nat) (h : ciMatch T x it = true) : x ∈ enumCI T it := by
  cases it with
  | rng lo hi =>
    simp only [ciMatch, Bool.and_eq_true, decide_eq_true_eq] at h
    simp only [enumCI, List.mem_map, List.mem_range]
    exact ⟨x - lo, by omega, by omega⟩
  | digit => exact mem_enumRanges _ _ h
  | space => exact mem_enumRanges _ _ h

/-- finite language of a star-free pattern without negated classes; `none` otherwise -/
def langOf (T : Tabs) : Rx → Option (List (List Nat))
  | .eps => some [[]]
  | .lit alts => some (alts.map fun x => [x])
  | .cls false items => some ((items.flatMap (enumCI T)).map fun x => [x])
  | .cls true _ => none
  | .seq a b => match langOf T a, langOf T b with
    | some la, some lb => some (la.flatMap fun s => lb.map (s ++ ·))
    | _, _ => none
  | .alt a b => match langOf T a, langOf T b with
    | some la, some lb => some (la ++ lb)
    | _, _ => none
  | .opt a => match langOf T a with | some la => some ([] :: la) | none => none
  | .star _ => none
  | .plus _ => none
  | .grp _ a => langOf T a
  | .nla _ => some [[]]
  | .nlb _ => some [[]]
  | .wordb => some [[]]

theorem langOf_complete (T : Tabs) : ∀ (r : Rx) (s : List Nat), Matches T r s → ∀ L, langOf T r = some L → s ∈ L := by
  intro r s hm
  induction hm with
  | eps => intro L h; simp [langOf] at h; subst h; simp
  | lit hx =>
    intro L h; simp [langOf] at h; subst h
    simp only [List.mem_map]; exact ⟨_, by simpa using hx, rfl⟩
  | @cls neg items x hx =>
    intro L h
    cases neg with
    | true => simp [langOf] at h
    | false =>
      simp [langOf] at h; subst h
      simp only [clsMatch, bne_iff_ne, ne_eq, Bool.not_eq_false, List.any_eq_true] at hx
      obtain ⟨it, hit, hci⟩ := hx
      simp only [List.mem_map, List.mem_flatMap]
      exact ⟨x, ⟨it, hit, mem_enumCI T it x hci⟩, rfl⟩
  | @seq a b s t _ _ iha ihb =>
    intro L h
    simp only [langOf] at h
    cases ha : langOf T a with
    | none => simp [ha] at h
    | some la =>
      cases hb : langOf T b with
      | none => simp [ha, hb] at h
      | some lb =>
        simp [ha, hb] at h; subst h
        simp only [List.mem_flatMap, List.mem_map]
        exact ⟨s, iha la ha, t, ihb lb hb, rfl⟩
  | @altL a b s _ iha =>
    intro L h
    simp only [langOf] at h
    cases ha : langOf T a with
    | none => simp [ha] at h
    | some la =>
      cases hb : langOf T b with
      | none => simp [ha, hb] at h
      | some lb => simp [ha, hb] at h; subst h; exact List.mem_append_left _ (iha la ha)
  | @altR a b s _ ihb =>
    intro L h
    simp only [langOf] at h
    cases ha : langOf T a with
    | none => simp [ha] at h
    | some la =>
      cases hb : langOf T b with
      | none => simp [ha, hb] at h
      | some lb => simp [ha, hb] at h; subst h; exact List.mem_append_right _ (ihb lb hb)
  | @optNone a =>
    intro L h
    simp only [langOf] at h
    cases ha : langOf T a with
    | none => simp [ha] at h
    | some la => simp [ha] at h; subst h; simp
  | @optSome a s _ iha =>
    intro L h
    simp only [langOf] at h
    cases ha : langOf T a with
    | none => simp [ha] at h
    | some la => simp [ha] at h; subst h; exact List.mem_cons_of_mem _ (iha la ha)
  | starNil => intro L h; simp [langOf] at h
  | starCons _ _ _ _ => intro L h; simp [langOf] at h
  | plus _ _ _ _ => intro L h; simp [langOf] at h
  | grp _ ih => intro L h; exact ih L (by simpa [langOf] using h)
  | nla => intro L h; simp [langOf] at h; subst h; simp
  | nlb => intro L h; simp [langOf] at h; subst h; simp
  | wordb => intro L h; simp [langOf] at h; subst h; simp

/-- all bodies of groups numbered `i` that the matcher can capture at -/
def bodiesOf (i : Nat) : Rx → List Rx
  | .grp j a => (if i = j then [a] else []) ++ bodiesOf i a
  | .seq a b => bodiesOf i a ++ bodiesOf i b
  | .alt a b => bodiesOf i a ++ bodiesOf i b
  | .opt a => bodiesOf i a
  | .star a => bodiesOf i a
  | .plus a => bodiesOf i a
  | _ => []

theorem mem_bodiesOf (i : Nat) (a : Rx) : ∀ r, GrpIn i a r → a ∈ bodiesOf i r := by
  intro r h
  induction h with
  | here => simp [bodiesOf]
  | seqL _ ih => simp [bodiesOf, ih]
  | seqR _ ih => simp [bodiesOf, ih]
  | altL _ ih => simp [bodiesOf, ih]
  | altR _ ih => simp [bodiesOf, ih]
  | opt _ ih => simp [bodiesOf, ih]
  | star _ ih => simp [bodiesOf, ih]
  | plus _ ih => simp [bodiesOf, ih]
  | grp _ ih => simp [bodiesOf, ih]

/-- checker: every word of the (finite) language of every body of group `i` satisfies `P` -/
def groupCheck (T : Tabs) (r : Rx) (i : Nat) (P : List Nat → Bool) : Bool :=
  (bodiesOf i r).all fun a => match langOf T a with | some L => L.all P | none => false

theorem groupCheck_sound (T : Tabs) (txt : List Nat) (r : Rx) (i : Nat) (P : List Nat → Bool) (hchk : groupCheck T r i P = true)
    (cs : Caps) (hcs : CapsOK T txt r cs) (s e : Nat) (hm : (i, s, e) ∈ cs) : P ((txt.drop s).take (e - s)) = true := by
  obtain ⟨a, hg, _, hmat⟩ := hcs (i, s, e) hm
  have ha := List.all_eq_true.mp hchk a (mem_bodiesOf i a r hg)
  cases hl : langOf T a with
  | none => simp [hl] at ha
  | some L =>
    simp only [hl] at ha
    exact List.all_eq_true.mp ha _ (langOf_complete T a _ hmat L hl)

/-- captures of every match reported by `findAll` are sound w.r.t. the text -/
theorem findAllFrom_caps (T : Tabs) (txt : List Nat) (r : Rx) : ∀ (rest : List Nat) (prev : Option Nat) (pos : Nat),
    rest = txt.drop pos → pos ≤ txt.length → ∀ m ∈ findAllFrom T r prev rest pos, CapsOK T txt r m.2.2 := by
  intro rest
  induction rest with
  | nil =>
    intro prev pos hr hp m hm
    simp only [findAllFrom] at hm
    split at hm
    · rename_i e cs he
      simp at hm; subst hm
      rw [hr] at he
      exact matchAt_caps T txt r pos hp prev e cs he
    · simp at hm
  | cons x xs ih =>
    intro prev pos hr hp m hm
    simp only [findAllFrom, List.mem_append] at hm
    rcases hm with hm | hm
    · split at hm
      · rename_i e cs he
        simp at hm; subst hm
        rw [hr] at he
        exact matchAt_caps T txt r pos hp prev e cs he
      · simp at hm
    · have hlen : pos < txt.length := by
        have : (txt.drop pos).length = txt.length - pos := List.length_drop
        rw [← hr] at this; simp at this; omega
      apply ih (some x) (pos + 1) ?_ (by omega) m hm
      have : txt.drop (pos + 1) = (txt.drop pos).drop 1 := by rw [List.drop_drop]
      rw [this, ← hr]; rfl

theorem findAll_caps (T : Tabs) (r : Rx) (txt : List Nat) (m : Nat × Nat × Caps) (hm : m ∈ findAll T r txt) : CapsOK T txt r m.2.2 :=
  findAllFrom_caps T txt r txt none 0 (by simp) (by omega) m hm

/-- `P` for a decimal field: `int()` succeeds with a value in `lo..hi`, or the text contains a digit this interpreter's
    `int()` does not know (known finding D6: listed code points) -/
def intInRange (lo hi : Int) (w : List Nat) : Bool :=
  match pyInt w with
  | .ok n => decide (lo ≤ n) && decide (n ≤ hi)
  | .error _ => w.any fun c => inRanges Gen.intUnknown c

end QuickAdd
