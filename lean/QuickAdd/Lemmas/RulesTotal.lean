import QuickAdd.Lemmas.PredFacts
import QuickAdd.Lemmas.IntervalOrd
import QuickAdd.Lemmas.IntervalOrdRules
/-!
# No production applied to values raises (C01): the productions not yet covered in `Props/C01`

`TsOk`: a real reference date and clock, year 2 … 9500 (the relative rules add up to a year and a day).
Every lemma is `∃ r, rule … = .ok r` under what the rule's registered predicates and the invariants of reachable productions
(`Val.Ok`, `valCalOk`) provide.
-/
namespace QuickAdd
open Gen

structure TsOk (ts : Ts) : Prop where
  valid : ts.Valid
  lo : 2 ≤ ts.date.y
  hi : ts.date.y ≤ 9500

theorem TsOk.ord {ts : Ts} (h : TsOk ts) : 1 ≤ ts.date.ord ∧ ts.date.ord + 400 ≤ maxOrd :=
  ord_bounds_of_year ts.date h.valid.1 ⟨by have := h.lo; omega, by have := h.hi; omega⟩

theorem ruleEOY_total (ts : Ts) (h : TsOk ts) : ∃ r, ruleEOY ts = .ok r := by
  have hlo := h.lo; have hhi := h.hi
  obtain ⟨m1, m2, d1, d2⟩ := h.valid.1
  have ey : (ts.date.addMonthsClip 12).y = ts.date.y + 1 := by
    simp only [Date.addMonthsClip]; omega
  have hA : (ts.date.addMonthsClip 12).inRange = true := by
    simp only [Date.inRange, ey, Bool.and_eq_true, decide_eq_true_eq]; omega
  have hb : (⟨ts.date.y + 1, 1, 1⟩ : Date).Valid := by
    have := dim_bounds (ts.date.y + 1) 1
    refine ⟨?_, ?_, ?_, ?_⟩ <;> dsimp only <;> omega
  obtain ⟨o1, o2⟩ := ord_bounds_of_year ⟨ts.date.y + 1, 1, 1⟩ hb ⟨by dsimp only; omega, by dsimp only; omega⟩
  have hp := prev_ord ⟨ts.date.y + 1, 1, 1⟩ hb
  have o0 : 2 ≤ (⟨ts.date.y + 1, 1, 1⟩ : Date).ord := by
    have := ord_pos_in_year ⟨ts.date.y + 1, 1, 1⟩ hb
    have h2 := dby_mono (ts.date.y + 1 - 2).toNat 2
    have e : (2 : Int) + ((ts.date.y + 1 - 2).toNat : Int) = ts.date.y + 1 := by omega
    rw [e] at h2
    have : dby 2 = 365 := by decide
    dsimp only at *
    omega
  obtain ⟨av, ao⟩ := addDays_spec ⟨ts.date.y + 1, 1, 1⟩ (-1) (by omega) (by omega)
  have hB := C03.inRange_of_ord _ av (by omega) (by omega)
  simp only [ruleEOY, dateOk, hA, ey, hB, if_true, bind, Except.bind, pure, Except.pure]
  exact ⟨_, rfl⟩

theorem latentDOYLoop_year (ts : Ts) (m d : Int) : ∀ (f : Nat) (y : Int) (c : Date), latentDOYLoop ts m d f y = some c →
    c.m = m ∧ c.d = d ∧ d ≤ dim c.y m ∧ y ≤ c.y ∧ c.y < y + f := by
  intro f
  induction f with
  | zero => intro y c h; simp [latentDOYLoop] at h
  | succ f ih =>
    intro y c h
    simp only [latentDOYLoop] at h
    split at h
    · rename_i hc
      simp only [Bool.and_eq_true, decide_eq_true_eq] at hc
      cases h
      exact ⟨rfl, rfl, hc.1, Int.le_refl _, by show y < y + ((f + 1 : Nat) : Int); omega⟩
    · obtain ⟨a, b, c', d', e⟩ := ih (y + 1) c h
      exact ⟨a, b, c', by omega, by omega⟩

theorem ruleLatentDOY_total (ts : Ts) (h : TsOk ts) (t : Time) (ht : t.isDOY = true) (hok : t.Ok) : ∃ r, ruleLatentDOY ts t = .ok r := by
  obtain ⟨_, a2, a3, _⟩ := (isDOY_iff t).mp ht
  obtain ⟨m, e2⟩ := C01.some_of_isSome a2
  obtain ⟨d, e3⟩ := C01.some_of_isSome a3
  have hm := hok.month m e2
  have hlo := h.lo; have hhi := h.hi
  simp only [ruleLatentDOY, e2, e3, need, bind, Except.bind, pure, Except.pure]
  have hmb : (!(decide (1 ≤ m) && decide (m ≤ 12))) = false := by simp; omega
  simp only [hmb, Bool.false_eq_true, if_false]
  cases hl : latentDOYLoop ts m d 9 ts.date.y with
  | none => exact ⟨_, rfl⟩
  | some c =>
    obtain ⟨_, _, _, y1, y2⟩ := latentDOYLoop_year ts m d 9 ts.date.y c hl
    have hr : c.inRange = true := by simp only [Date.inRange, Bool.and_eq_true, decide_eq_true_eq]; omega
    simp only [dateOk, hr, if_true, pure, Except.pure]
    exact ⟨_, rfl⟩

theorem ruleEarlyLatePOD_total (k : Tok) (p : Time) (hp : p.isPOD = true) : ∃ r, ruleEarlyLatePOD k p = .ok r := by
  obtain ⟨_, _, _, _, _, _, b7⟩ := (isPOD_iff p).mp hp
  obtain ⟨q, f7⟩ := C01.some_of_isSome b7
  simp only [ruleEarlyLatePOD, f7, needS, bind, Except.bind, pure, Except.pure]
  split <;> exact ⟨_, rfl⟩

/-- adding at most a day to a datetime of a year ≤ 9990 stays inside the calendar -/
theorem addMinutes_inRange (x : Ts) (k : Int) (hv : x.date.Valid) (hy : 1 ≤ x.date.y ∧ x.date.y ≤ 9990) (hh : 0 ≤ x.h ∧ x.h ≤ 23) (hm : 0 ≤ x.mi ∧ x.mi ≤ 59)
    (hk : 0 ≤ k ∧ k ≤ 1440) : (x.addMinutes k).date.inRange = true := by
  obtain ⟨o1, o2⟩ := ord_bounds_of_year x.date hv hy
  have hq : x.date.ord ≤ (x.minutes + k) / 1440 ∧ (x.minutes + k) / 1440 ≤ x.date.ord + 1 := by
    unfold Ts.minutes; omega
  obtain ⟨_, av, _⟩ := addMinutes_spec x k (by omega) (by omega)
  have ho : (x.addMinutes k).date.ord = (x.minutes + k) / 1440 := by
    unfold Ts.addMinutes Ts.ofMinutes
    exact (ofOrd_spec _ (by omega) (by omega)).2
  exact C03.inRange_of_ord _ av (by omega) (by omega)

theorem ite_ok {α : Type} (c : Prop) [Decidable c] (a b : α) : ∃ r, (if c then (Except.ok a : Except PyErr α) else Except.ok b) = .ok r := by
  split <;> exact ⟨_, rfl⟩

/-- the date of `t.dt` is the date written in `t`, and it is inside the calendar -/
theorem dt_date (t : Time) (x : Ts) (h : t.dt = .ok x) :
    t.year = some x.date.y ∧ t.month = some x.date.m ∧ t.day = some x.date.d ∧ x.date.inRange = true := by
  unfold Time.dt at h
  cases hs : t.start with
  | error e => simp [hs, bind, Except.bind] at h
  | ok s =>
    obtain ⟨hh, mi, _, rfl⟩ := start_eq t s hs
    simp only [hs, bind, Except.bind] at h
    cases hy : t.year <;> cases hm : t.month <;> cases hd : t.day <;>
      simp only [hy, hm, hd, throw, throwThe, MonadExceptOf.throw] at h <;> try (cases h; done)
    split at h
    · rename_i hc
      simp [pure, Except.pure] at h; subst h
      simp only [Bool.and_eq_true] at hc
      exact ⟨rfl, rfl, rfl, hc.1.1.1.1.2⟩
    · cases h

theorem ruleDateInterval_total (d : Time) (f t : Option Time) (hd : d.Ok) (hcal : timeCalOk d = true) (hdate : d.isDate = true)
    (hyr : ∀ y, d.year = some y → y ≤ 9990) (hf : OptOk f) (ht : OptOk t) : ∃ r, ruleDateInterval d f t = .ok r := by
  obtain ⟨a1, a2, a3, _⟩ := (isDate_iff d).mp hdate
  obtain ⟨y, ey⟩ := C01.some_of_isSome a1
  obtain ⟨m, em⟩ := C01.some_of_isSome a2
  obtain ⟨dd, ed⟩ := C01.some_of_isSome a3
  unfold ruleDateInterval
  cases f with
  | none => simp only [Option.map_none, bind, Except.bind, pure, Except.pure]; exact ite_ok _ _ _
  | some fa =>
  cases t with
  | none => simp only [Option.map_none, Option.map_some, bind, Except.bind, pure, Except.pure]; exact ite_ok _ _ _
  | some fb =>
    simp only [Option.map_some, bind, Except.bind, pure, Except.pure]
    split
    · exact ⟨_, rfl⟩
    · have hoa := mk_ok d fa hd (hf fa rfl)
      have hob := mk_ok d fb hd (ht fb rfl)
      generalize ea : ({ year := d.year, month := d.month, day := d.day, hour := fa.hour, minute := fa.minute, pod := fa.pod } : Time) = a at hoa
      generalize eb : ({ year := d.year, month := d.month, day := d.day, hour := fb.hour, minute := fb.minute, pod := fb.pod } : Time) = b at hob
      have ca : timeCalOk a = true := by subst ea; exact hcal
      have cb : timeCalOk b = true := by subst eb; exact hcal
      obtain ⟨da, hda⟩ := C02.dt_total_ok a hoa ca y m dd (by subst ea; exact ey) (by subst ea; exact em) (by subst ea; exact ed)
      obtain ⟨db, hdb⟩ := C02.dt_total_ok b hob cb y m dd (by subst eb; exact ey) (by subst eb; exact em) (by subst eb; exact ed)
      simp only [hda, hdb]
      obtain ⟨bv, bh1, bh2, bm1, bm2⟩ := dt_bounds b db hdb
      obtain ⟨dy, _, _, dr⟩ := dt_date b db hdb
      have e2 : b.year = some y := by subst eb; exact ey
      have byr : db.date.y = y := by rw [e2] at dy; cases dy; rfl
      have bcal : 1 ≤ db.date.y := by
        simp only [Date.inRange, Bool.and_eq_true, decide_eq_true_eq] at dr
        exact dr.1
      have hy90 := hyr y ey
      have r720 : (db.addMinutes (12 * 60)).date.inRange = true := addMinutes_inRange db 720 bv ⟨bcal, by omega⟩ ⟨bh1, bh2⟩ ⟨bm1, bm2⟩ (by omega)
      have r1440 : (db.addMinutes (24 * 60)).date.inRange = true := addMinutes_inRange db 1440 bv ⟨bcal, by omega⟩ ⟨bh1, bh2⟩ ⟨bm1, bm2⟩ (by omega)
      split
      · split
        · split
          · simp only [dateOk, r720, if_true, pure, Except.pure]; exact ⟨_, rfl⟩
          · simp only [dateOk, r1440, if_true, pure, Except.pure]; exact ⟨_, rfl⟩
        · simp only [dateOk, r1440, if_true, pure, Except.pure]; exact ⟨_, rfl⟩
      · exact ⟨_, rfl⟩

theorem timeCalOk_fields (a b : Time) (h1 : a.year = b.year) (h2 : a.month = b.month) (h3 : a.day = b.day) : timeCalOk a = timeCalOk b := by
  unfold timeCalOk; rw [h1, h2, h3]

theorem rulePODInterval_total (p : Time) (f t : Option Time) (hp : p.isPOD = true) (hf : OptOk f) (ht : OptOk t)
    (cf : ∀ x, f = some x → timeCalOk x = true) (ct : ∀ x, t = some x → timeCalOk x = true) : ∃ r, rulePODInterval p f t = .ok r := by
  obtain ⟨_, _, _, _, _, _, b7⟩ := (isPOD_iff p).mp hp
  obtain ⟨pod, e7⟩ := C01.some_of_isSome b7
  unfold rulePODInterval
  simp only [e7, needS, bind, Except.bind, pure, Except.pure]
  cases f with
  | none => simp only [Option.map_none]; exact ite_ok _ _ _
  | some fa =>
  cases t with
  | none => simp only [Option.map_none, Option.map_some]; exact ite_ok _ _ _
  | some fb =>
    simp only [Option.map_some]
    split
    · exact ⟨_, rfl⟩
    · have hoa := mkPod_ok pod fa (hf fa rfl)
      have hob := mkPod_ok pod fb (ht fb rfl)
      generalize ea : ({ year := fa.year, month := fa.month, day := fa.day, hour := _, minute := fa.minute, dow := fa.dow } : Time) = a at hoa
      generalize eb : ({ year := fb.year, month := fb.month, day := fb.day, hour := _, minute := fb.minute, dow := fb.dow } : Time) = b at hob
      have ca : timeCalOk a = true := by
        rw [timeCalOk_fields a fa (by subst ea; rfl) (by subst ea; rfl) (by subst ea; rfl)]; exact cf fa rfl
      have cb : timeCalOk b = true := by
        rw [timeCalOk_fields b fb (by subst eb; rfl) (by subst eb; rfl) (by subst eb; rfl)]; exact ct fb rfl
      by_cases hd : (a.hasDate && b.hasDate) = true
      · simp only [hd, if_true]
        simp only [Bool.and_eq_true] at hd
        obtain ⟨y1, m1, d1⟩ := (hasDate_iff a).mp hd.1
        obtain ⟨y2, m2, d2⟩ := (hasDate_iff b).mp hd.2
        obtain ⟨_, e1⟩ := C01.some_of_isSome y1; obtain ⟨_, e2⟩ := C01.some_of_isSome m1; obtain ⟨_, e3⟩ := C01.some_of_isSome d1
        obtain ⟨_, g1⟩ := C01.some_of_isSome y2; obtain ⟨_, g2⟩ := C01.some_of_isSome m2; obtain ⟨_, g3⟩ := C01.some_of_isSome d2
        obtain ⟨da, hda⟩ := C02.dt_total_ok a hoa ca _ _ _ e1 e2 e3
        obtain ⟨db, hdb⟩ := C02.dt_total_ok b hob cb _ _ _ g1 g2 g3
        simp only [hda, hdb]
        exact ite_ok _ _ _
      · simp only [hd, Bool.false_eq_true, if_false]
        exact ⟨_, rfl⟩

theorem date_dt_total (t : Time) (ht : t.isDate = true) (hok : t.Ok) (hcal : timeCalOk t = true) : ∃ x, t.dt = .ok x := by
  obtain ⟨a1, a2, a3, _⟩ := (isDate_iff t).mp ht
  obtain ⟨y, ey⟩ := C01.some_of_isSome a1
  obtain ⟨m, em⟩ := C01.some_of_isSome a2
  obtain ⟨d, ed⟩ := C01.some_of_isSome a3
  exact C02.dt_total_ok t hok hcal y m d ey em ed

theorem ruleDurationInterval_total (n : Int) (u : DUnit) (f t : Time) (hf : f.isDate = true) (ht : t.isDate = true) (of : f.Ok) (ot : t.Ok)
    (cf : timeCalOk f = true) (ct : timeCalOk t = true) : ∃ r, ruleDurationInterval n u (some f) (some t) = .ok r := by
  obtain ⟨da, hda⟩ := date_dt_total f hf of cf
  obtain ⟨db, hdb⟩ := date_dt_total t ht ot ct
  simp only [ruleDurationInterval, hda, hdb, bind, Except.bind, pure, Except.pure]
  exact ite_ok _ _ _

theorem ruleTimeDuration_total (t : Time) (n : Int) (u : DUnit) (hok : t.Ok) : ∃ r, ruleTimeDuration t n u = .ok r := by
  obtain ⟨s, hs⟩ := (C02.accessors_total_ok t hok).1
  unfold ruleTimeDuration
  simp only [hs, bind, Except.bind, pure, Except.pure]
  cases hdt : t.dt with
  | error e =>
    -- `dt` re-reads `start`, which succeeded: its only other failure is the `ValueError` of an impossible date
    have : e = .valueError := by
      unfold Time.dt at hdt
      simp only [hs, bind, Except.bind] at hdt
      split at hdt
      · split at hdt
        · simp [pure, Except.pure] at hdt
        · simp [throw, throwThe, MonadExceptOf.throw] at hdt; exact hdt.symm
      · simp [throw, throwThe, MonadExceptOf.throw] at hdt; exact hdt.symm
    subst this
    exact ⟨_, rfl⟩
  | ok dt =>
    simp only
    cases u <;> simp only <;> first | exact ite_ok _ _ _ | skip
    all_goals (split <;> exact ⟨_, rfl⟩)

/-! ### the rules that read one field of a weekday / day / part-of-day value -/
theorem dow_of (t : Time) (hq : t.isDOW = true) (ok : t.Ok) : ∃ w, t.dow = some w ∧ 0 ≤ w ∧ w < 7 := by
  obtain ⟨_, _, _, _, _, a6, _⟩ := (isDOW_iff t).mp hq
  obtain ⟨w, ew⟩ := C01.some_of_isSome a6
  have := ok.dow w ew
  exact ⟨w, ew, this.1, by omega⟩

theorem ruleAtDOW_total (ts : Ts) (h : TsOk ts) (t : Time) (hq : t.isDOW = true) (ok : t.Ok) : ∃ r, ruleAtDOW ts t = .ok r := by
  obtain ⟨w, ew, hw⟩ := dow_of t hq ok
  have e : ruleAtDOW ts t = ruleAtDOW ts { dow := some w } := by simp only [ruleAtDOW, ew]
  rw [e]
  exact (C01.relative_rules_total ts h.valid.1 ⟨h.lo, by have := h.hi; omega⟩ w hw).2.2.2.2.2.2.2.1

theorem ruleNextDOW_total (ts : Ts) (h : TsOk ts) (t : Time) (hq : t.isDOW = true) (ok : t.Ok) : ∃ r, ruleNextDOW ts t = .ok r := by
  obtain ⟨w, ew, hw⟩ := dow_of t hq ok
  have e : ruleNextDOW ts t = ruleNextDOW ts { dow := some w } := by simp only [ruleNextDOW, ew]
  rw [e]
  exact (C01.relative_rules_total ts h.valid.1 ⟨h.lo, by have := h.hi; omega⟩ w hw).2.2.2.2.2.2.2.2.1

theorem ruleLatentDOW_total (ts : Ts) (h : TsOk ts) (t : Time) (hq : t.isDOW = true) (ok : t.Ok) : ∃ r, ruleLatentDOW ts t = .ok r :=
  ruleAtDOW_total ts h t hq ok

theorem ruleLatentDOM_total (ts : Ts) (h : TsOk ts) (t : Time) (hq : t.isDOM = true) (ok : t.Ok) : ∃ r, ruleLatentDOM ts t = .ok r := by
  obtain ⟨_, _, a3, _⟩ := (isDOM_iff t).mp hq
  obtain ⟨d, ed⟩ := C01.some_of_isSome a3
  have hd := ok.day d ed
  have e : ruleLatentDOM ts t = ruleLatentDOM ts { day := some d } := by simp only [ruleLatentDOM, ed]
  rw [e]
  exact C01.latent_rules_total ts h.valid.1 ⟨by have := h.lo; omega, by have := h.hi; omega⟩ d hd

theorem ruleLatentPOD_total (ts : Ts) (h : TsOk ts) (t : Time) (hq : t.isPOD = true) (ok : t.Ok) : ∃ r, ruleLatentPOD ts t = .ok r := by
  obtain ⟨_, _, _, _, _, _, b7⟩ := (isPOD_iff t).mp hq
  obtain ⟨p, ep⟩ := C01.some_of_isSome b7
  have hk := ok.pod p ep
  obtain ⟨ab, hab⟩ := C01.some_of_isSome hk
  obtain ⟨a, b⟩ := ab
  have hr := C02.podLookup_range p a b hab
  obtain ⟨o1, o2⟩ := h.ord
  have hin : ts.date.inRange = true := by
    simp only [Date.inRange, Bool.and_eq_true, decide_eq_true_eq]; have := h.lo; have := h.hi; omega
  obtain ⟨c, hc, _⟩ := C04.latentPOD_spec ts p a b hab ⟨hr.1, hr.2.1⟩ o1 (by omega) h.valid.1 hin
  have e : ruleLatentPOD ts t = ruleLatentPOD ts { pod := some p } := by simp only [ruleLatentPOD, ep]
  rw [e]
  exact ⟨_, hc⟩

theorem hour_of (t : Time) (hq : t.isTOD = true) : ∃ h, t.hour = some h := by
  obtain ⟨_, _, _, a4, _⟩ := (isTOD_iff t).mp hq
  exact C01.some_of_isSome a4

theorem ruleQuarterBeforeHH_total (t : Time) (hq : t.isTOD = true) : ∃ r, ruleQuarterBeforeHH t = .ok r := by
  obtain ⟨h, e4⟩ := hour_of t hq
  simp only [ruleQuarterBeforeHH, e4, need, bind, Except.bind, pure, Except.pure]
  split <;> (try split) <;> exact ⟨_, rfl⟩
theorem ruleQuarterAfterHH_total (t : Time) : ∃ r, ruleQuarterAfterHH t = .ok r := by
  simp only [ruleQuarterAfterHH, pure, Except.pure]; split <;> exact ⟨_, rfl⟩
theorem ruleHalfBeforeHH_total (t : Time) (hq : t.isTOD = true) : ∃ r, ruleHalfBeforeHH t = .ok r := by
  obtain ⟨h, e4⟩ := hour_of t hq
  simp only [ruleHalfBeforeHH, e4, need, bind, Except.bind, pure, Except.pure]
  split <;> (try split) <;> exact ⟨_, rfl⟩
theorem ruleHalfAfterHH_total (t : Time) : ∃ r, ruleHalfAfterHH t = .ok r := by
  simp only [ruleHalfAfterHH, pure, Except.pure]; split <;> exact ⟨_, rfl⟩
theorem ruleBeforeTime_total (k : Tok) (t : Time) : ∃ r, ruleBeforeTime k t = .ok r := by
  simp only [ruleBeforeTime]; split <;> exact ⟨_, rfl⟩
theorem ruleAfterTime_total (k : Tok) (t : Time) : ∃ r, ruleAfterTime k t = .ok r := by
  simp only [ruleAfterTime]; split <;> exact ⟨_, rfl⟩
theorem ruleDurationHalf_total (k : Tok) : ∃ r, ruleDurationHalf k = .ok r := by
  simp only [ruleDurationHalf, pure, Except.pure]; split <;> exact ⟨_, rfl⟩

theorem valCalOk_interval (f g : Option Time) (h : valCalOk (.interval f g) = true) :
    (∀ x, f = some x → timeCalOk x = true) ∧ (∀ x, g = some x → timeCalOk x = true) := by
  cases f <;> cases g <;> simp [valCalOk] at h <;> refine ⟨?_, ?_⟩ <;> intro x hx <;> cases hx <;> first | exact h | exact h.1 | exact h.2

/-- a plain time value carries no year above `n` (interval ends are not constrained: nothing adds days to them) -/
def Val.YearLe (n : Int) : Val → Prop
  | .time t => ∀ y, t.year = some y → y ≤ n
  | _ => True

/-- the registered name of a modelled production (inverse of `RuleId.ofName` on the table) -/
def RuleId.nameOf (rid : RuleId) : String := ((RuleId.all.find? (·.2 == rid)).map (·.1)).getD ""

theorem nameOf_all : ∀ e ∈ RuleId.all, RuleId.nameOf e.2 = e.1 := by decide +kernel

theorem ofName_nameOf (n : String) (rid : RuleId) (h : RuleId.ofName n = some rid) : n = rid.nameOf := by
  unfold RuleId.ofName at h
  cases hf : RuleId.all.find? (·.1 == n) with
  | none => simp [hf] at h
  | some e =>
    simp only [hf, Option.map_some, Option.some.injEq] at h
    have hm := List.mem_of_find?_eq_some hf
    have hp := List.find?_some hf
    simp only [beq_iff_eq] at hp
    rw [← h, nameOf_all e hm, hp]

theorem durations_known : ∀ u ∈ durations, (DUnit.ofName u).isSome = true := by decide

/-- the number-word duration reads no digits: its only failing branch (a unit name outside the six known ones) is dead -/
theorem ruleNamedNumberDuration_total (k : Tok) : ∃ r, ruleNamedNumberDuration k = .ok r := by
  unfold ruleNamedNumberDuration
  simp only [bind, Except.bind, pure, Except.pure]
  split
  · split
    · exact ⟨_, rfl⟩
    · cases hf : durations.find? (fun u => k.has ("d_" ++ u)) with
      | none => exact ⟨_, rfl⟩
      | some u =>
        have hk := durations_known u (List.mem_of_find?_eq_some hf)
        obtain ⟨du, hdu⟩ := C01.some_of_isSome hk
        simp only [hdu]
        exact ⟨_, rfl⟩
  · exact ⟨_, rfl⟩

end QuickAdd
