import QuickAdd.Lemmas.TokGroups
import QuickAdd.Lemmas.RulesTotal
/-!
# The token readers (C01): they raise only when `int()` of a captured text does

`TokInt k`: every numeric group text of the token (day, month, year, hour, minute, amount) converts (`int()` succeeds) — false exactly for the digits this interpreter's `int()`
does not know (known finding D6).  Under it, and for a token that is a pattern match of the text, the productions that read
day / month / year / hour / minute / amount from a token return: the groups they read unconditionally are set on **every**
match of their pattern (`reqOK`, evaluated over the regenerated table with `mustAny`; `group_present`), the others are read
only after `has` said they are set.
-/
namespace QuickAdd
open Gen

/-- the groups whose text the productions convert with `int()` -/
def intGroups : List String := ["day", "month", "year", "hour", "minute", "num"]

def TokInt (k : Tok) : Prop := ∀ n ∈ intGroups, ∀ w, k.group n = some w → ∃ v, pyInt w = .ok v

theorem grpInt_ok (k : Tok) (hi : TokInt k) (n : String) (hn : n ∈ intGroups := by decide) (hg : ∃ w, k.group n = some w) : ∃ v, grpInt k n = .ok v := by
  obtain ⟨w, hw⟩ := hg
  obtain ⟨v, hv⟩ := hi n hn w hw
  exact ⟨v, by simp only [grpInt, hw, hv]⟩

theorem has_group (k : Tok) (n : String) (h : k.has n = true) : ∃ w, k.group n = some w := by
  unfold Tok.has at h
  cases hg : k.group n with
  | none => simp [hg] at h
  | some w => exact ⟨w, rfl⟩

theorem minuteOr0_ok (k : Tok) (hi : TokInt k) : ∃ v, minuteOr0 k = .ok v := by
  unfold minuteOr0
  by_cases h : k.has "minute" = true
  · simp only [h, if_true]; exact grpInt_ok k hi "minute" (by decide) (has_group k "minute" h)
  · simp only [h, Bool.false_eq_true, if_false]; exact ⟨_, rfl⟩

/-- group `g` is set on every match of pattern `id` -/
def reqOK (id : Nat) (g : String) : Bool :=
  table.all fun p => p.id != id || p.names.any fun ni => ni.1 == g && ni.2 != p.self && mustAny [ni.2] p.rx

theorem mem_matchRegex (txt : List Nat) (a : Art) (ha : a ∈ matchRegex txt) :
    ∃ p ∈ table, ∃ m ∈ findAll rxTabs p.rx txt, a = tokOfMatch p txt m := by
  unfold matchRegex at ha
  have h1 := mem_sortBy _ _ _ ha
  simp only [List.mem_flatMap, List.mem_map] at h1
  obtain ⟨p, hp, m, hm, rfl⟩ := h1
  exact ⟨p, hp, m, hm, rfl⟩

theorem tokOfMatch_id (p : Pat) (txt : List Nat) (m : Nat × Nat × Caps) (k : Tok) (h : (tokOfMatch p txt m).v = .tok k) : k.id = p.id := by
  obtain ⟨s, e, cs⟩ := m
  simp only [tokOfMatch] at h
  cases h; rfl

theorem group_present (id : Nat) (g : String) (h : reqOK id g = true) (txt : List Nat) (a : Art) (ha : a ∈ matchRegex txt)
    (k : Tok) (hk : a.v = .tok k) (hid : k.id = id) : ∃ w, k.group g = some w := by
  obtain ⟨p, hp, m, hm, rfl⟩ := mem_matchRegex txt a ha
  have e := tokOfMatch_id p txt m k hk
  have hp' := List.all_eq_true.mp h p hp
  have : (p.id != id) = false := by simp; rw [← e]; exact hid
  simp only [this, Bool.false_or, List.any_eq_true, Bool.and_eq_true, beq_iff_eq, bne_iff_ne, ne_eq] at hp'
  obtain ⟨ni, hni, ⟨hn, hs⟩, hmust⟩ := hp'
  have hc := findAll_must rxTabs [ni.2] p.rx hmust txt m hm
  have hn' : (g, ni.2) ∈ p.names := by rw [← hn]; exact hni
  exact tok_group_of_cap p txt m g ni.2 hn' hs hc k hk

/-! ### the productions -/
theorem ruleDOM1_total (k : Tok) (hi : TokInt k) (hd : ∃ w, k.group "day" = some w) : ∃ r, ruleDOM1 k = .ok r := by
  obtain ⟨v, hv⟩ := grpInt_ok k hi "day" (by decide) hd
  simp only [ruleDOM1, hv, bind, Except.bind, pure, Except.pure]; exact ⟨_, rfl⟩
theorem ruleDOM2_total (k : Tok) (hi : TokInt k) (hd : ∃ w, k.group "day" = some w) : ∃ r, ruleDOM2 k = .ok r := by
  obtain ⟨v, hv⟩ := grpInt_ok k hi "day" (by decide) hd
  simp only [ruleDOM2, hv, bind, Except.bind, pure, Except.pure]; exact ⟨_, rfl⟩
theorem ruleMonthOrdinal_total (k : Tok) (hi : TokInt k) (hd : ∃ w, k.group "month" = some w) : ∃ r, ruleMonthOrdinal k = .ok r := by
  obtain ⟨v, hv⟩ := grpInt_ok k hi "month" (by decide) hd
  simp only [ruleMonthOrdinal, hv, bind, Except.bind, pure, Except.pure]; exact ⟨_, rfl⟩
theorem ruleYear_total (ts : Ts) (k : Tok) (hi : TokInt k) (hd : ∃ w, k.group "year" = some w) : ∃ r, ruleYear ts k = .ok r := by
  obtain ⟨v, hv⟩ := grpInt_ok k hi "year" (by decide) hd
  simp only [ruleYear, hv, bind, Except.bind, pure, Except.pure]
  split <;> (try split) <;> exact ⟨_, rfl⟩
theorem ruleHHOClock_total (k : Tok) (hi : TokInt k) (hd : ∃ w, k.group "hour" = some w) : ∃ r, ruleHHOClock k = .ok r := by
  obtain ⟨v, hv⟩ := grpInt_ok k hi "hour" (by decide) hd
  simp only [ruleHHOClock, hv, bind, Except.bind, pure, Except.pure]; exact ⟨_, rfl⟩
theorem ruleHHMM_total (k : Tok) (hi : TokInt k) (hd : ∃ w, k.group "hour" = some w) : ∃ r, ruleHHMM k = .ok r := by
  obtain ⟨v, hv⟩ := grpInt_ok k hi "hour" (by decide) hd
  obtain ⟨mi, hmi⟩ := minuteOr0_ok k hi
  simp only [ruleHHMM, hv, hmi, bind, Except.bind, pure, Except.pure]; exact ⟨_, rfl⟩

theorem isValidMilitary_ok (ts : Ts) (h : TsOk ts) (t : Time) : ∃ b, isValidMilitary ts t = .ok b := by
  have hlo := h.lo; have hhi := h.hi
  obtain ⟨m1, m2, _, _⟩ := h.valid.1
  have hr : (ts.date.addMonthsClip 3).inRange = true := by
    have ey : ts.date.y ≤ (ts.date.addMonthsClip 3).y ∧ (ts.date.addMonthsClip 3).y ≤ ts.date.y + 1 := by
      simp only [Date.addMonthsClip]; omega
    simp only [Date.inRange, Bool.and_eq_true, decide_eq_true_eq]; omega
  unfold isValidMilitary
  cases t.hour <;> cases t.minute <;> simp only [pure, Except.pure] <;> try exact ⟨_, rfl⟩
  simp only [dateOk, hr, if_true, bind, Except.bind, pure, Except.pure]
  split <;> (try split) <;> (try split) <;> exact ⟨_, rfl⟩

theorem ruleHHMMmilitary_total (ts : Ts) (h : TsOk ts) (k : Tok) (hi : TokInt k) (hd : ∃ w, k.group "hour" = some w) :
    ∃ r, ruleHHMMmilitary ts k = .ok r := by
  obtain ⟨v, hv⟩ := grpInt_ok k hi "hour" (by decide) hd
  obtain ⟨mi, hmi⟩ := minuteOr0_ok k hi
  obtain ⟨b, hb⟩ := isValidMilitary_ok ts h { hour := some v, minute := some mi }
  simp only [ruleHHMMmilitary, hv, hmi, bind, Except.bind, pure, Except.pure]
  simp only [hb]
  split <;> exact ⟨_, rfl⟩

theorem ruleDigitDuration_total (k : Tok) (hi : TokInt k) : ∃ r, ruleDigitDuration k = .ok r := by
  unfold ruleDigitDuration
  simp only [bind, Except.bind, pure, Except.pure]
  by_cases hn : k.has "num" = true
  · simp only [hn, if_true]
    cases hf : durations.find? (fun u => k.has ("d_" ++ u)) with
    | none => exact ⟨_, rfl⟩
    | some u =>
      have hk := durations_known u (List.mem_of_find?_eq_some hf)
      obtain ⟨du, hdu⟩ := C01.some_of_isSome hk
      obtain ⟨v, hv⟩ := grpInt_ok k hi "num" (by decide) (has_group k "num" hn)
      simp only [hdu, hv]
      exact ⟨_, rfl⟩
  · simp only [hn, Bool.false_eq_true, if_false]; exact ⟨_, rfl⟩

/-- evaluated over the regenerated table: the groups read without a guard are set on every match of their pattern -/
theorem req_table : reqOK 108 "day" = true ∧ reqOK 110 "day" = true ∧ reqOK 109 "month" = true ∧ reqOK 111 "year" = true ∧
    reqOK 127 "hour" = true ∧ reqOK 128 "hour" = true ∧ reqOK 129 "hour" = true := by decide +kernel

/-! ### day.month tokens: the month is a number or one of the twelve names -/
/-- a group text of a token is the slice of a recorded capture of a group with that name -/
theorem tok_group_sound (p : Pat) (txt : List Nat) (m : Nat × Nat × Caps) (k : Tok) (hk : (tokOfMatch p txt m).v = .tok k) (g : String) (w : List Nat)
    (hg : k.group g = some w) : ∃ i a b, (g, i) ∈ p.names ∧ i ≠ p.self ∧ (i, a, b) ∈ m.2.2 ∧ w = slice txt a b := by
  obtain ⟨s, e, cs⟩ := m
  simp only [tokOfMatch] at hk
  cases hk
  unfold Tok.group at hg
  split at hg
  · rename_i gn r hf
    simp only [Option.some.injEq] at hg
    have hm := mem_sortBy _ _ _ (List.mem_of_find?_eq_some hf)
    have hp := List.find?_some hf
    simp only [beq_iff_eq] at hp
    simp only [List.mem_filterMap] at hm
    obtain ⟨ni, hni, hr⟩ := hm
    by_cases hself : (ni.2 == p.self) = true
    · simp [hself] at hr
    · simp only [hself, Bool.false_eq_true, if_false] at hr
      cases hc : getCap cs ni.2 with
      | none => simp [hc] at hr
      | some ab =>
        obtain ⟨a, b⟩ := ab
        simp only [hc, Option.some.injEq, Prod.mk.injEq] at hr
        refine ⟨ni.2, a, b, ?_, by simpa using hself, getCap_mem cs ni.2 a b hc, ?_⟩
        · have : ni.1 = g := by rw [hr.1]; exact hp
          rw [← this]; exact hni
        · rw [← hg, ← hr.2]
  · cases hg

def isMonthName (n : String) : Bool := n == "month" || months.contains n

/-- on every match of pattern `id` the numeric month group or one of the month-name groups is set, and none of them is ever empty -/
def monthOK (id : Nat) : Bool :=
  table.all fun p => p.id != id ||
    (mustAny (p.names.filterMap fun ni => if isMonthName ni.1 then some ni.2 else none) p.rx &&
     p.names.all fun ni => !isMonthName ni.1 || (ni.2 != p.self && groupCheck rxTabs p.rx ni.2 (fun w => !w.isEmpty)))

theorem monthOf_ok (id : Nat) (h : monthOK id = true) (txt : List Nat) (a : Art) (ha : a ∈ matchRegex txt) (k : Tok) (hk : a.v = .tok k)
    (hid : k.id = id) (hi : TokInt k) : ∃ v, monthOf k = .ok v := by
  unfold monthOf
  by_cases hm : k.has "month" = true
  · simp only [hm, if_true]; exact grpInt_ok k hi "month" (by decide) (has_group k "month" hm)
  · simp only [hm, Bool.false_eq_true, if_false]
    obtain ⟨p, hp, m, hmm, rfl⟩ := mem_matchRegex txt a ha
    have e := tokOfMatch_id p txt m k hk
    have hp' := List.all_eq_true.mp h p hp
    have : (p.id != id) = false := by simp; rw [← e]; exact hid
    simp only [this, Bool.false_or, Bool.and_eq_true] at hp'
    obtain ⟨hmust, hall⟩ := hp'
    obtain ⟨c, hc, hcS⟩ := findAll_must rxTabs _ p.rx hmust txt m hmm
    simp only [List.mem_filterMap] at hcS
    obtain ⟨ni, hni, hsel⟩ := hcS
    by_cases hmn : isMonthName ni.1 = true
    · simp only [hmn, if_true, Option.some.injEq] at hsel
      have hni' := List.all_eq_true.mp hall ni hni
      simp only [hmn, Bool.not_true, Bool.false_or, Bool.and_eq_true, bne_iff_ne, ne_eq] at hni'
      -- the token has a text for that name, and it is not empty
      obtain ⟨c1, c2, c3⟩ := c
      simp only at hsel; subst hsel
      obtain ⟨w, hw⟩ := tok_group_of_cap p txt m ni.1 ni.2 hni hni'.1 ⟨(ni.2, c2, c3), hc, by simp⟩ k hk
      obtain ⟨i, a', b', hin, _, hcap, hwe⟩ := tok_group_sound p txt m k hk ni.1 w hw
      have hin' := List.all_eq_true.mp hall (ni.1, i) hin
      simp only [hmn, Bool.not_true, Bool.false_or, Bool.and_eq_true] at hin'
      have hne := groupCheck_sound rxTabs txt p.rx i (fun w => !w.isEmpty) hin'.2 m.2.2 (findAll_caps rxTabs p.rx txt m hmm) a' b' hcap
      have hwne : w.isEmpty = false := by
        rw [hwe]; unfold slice; simpa using hne
      have hhas : k.has ni.1 = true := by
        unfold Tok.has; simp only [hw, hwne, Bool.not_false]
      -- it is not the numeric group (that one is not set), so it is a month name
      have hname : months.contains ni.1 = true := by
        unfold isMonthName at hmn
        simp only [Bool.or_eq_true, beq_iff_eq] at hmn
        rcases hmn with h1 | h2
        · rw [h1] at hhas; exact absurd hhas hm
        · exact h2
      have hmem : ni.1 ∈ months := by simpa using hname
      obtain ⟨j, hj⟩ := List.mem_iff_getElem.mp hmem
      obtain ⟨hjl, hje⟩ := hj
      have hz : (ni.1, j) ∈ months.zipIdx := by
        rw [List.mem_zipIdx_iff_getElem?]
        simp [hje, hjl]
      have hfil : (ni.1, j) ∈ (months.zipIdx.filter fun x : String × Nat => k.has x.1) := by
        simp only [List.mem_filter]; exact ⟨hz, hhas⟩
      cases hl : (months.zipIdx.filter fun x : String × Nat => k.has x.1).getLast? with
      | none =>
        rw [List.getLast?_eq_none_iff] at hl
        rw [hl] at hfil; cases hfil
      | some r => exact ⟨_, rfl⟩
    · simp [hmn] at hsel

theorem month_table : monthOK 124 = true ∧ monthOK 125 = true ∧ monthOK 126 = true ∧
    reqOK 124 "day" = true ∧ reqOK 125 "day" = true ∧ reqOK 126 "day" = true ∧ reqOK 126 "year" = true := by decide +kernel

theorem ruleDDMM_total (id : Nat) (hmo : monthOK id = true) (hday : reqOK id "day" = true) (txt : List Nat) (a : Art) (ha : a ∈ matchRegex txt)
    (k : Tok) (hk : a.v = .tok k) (hid : k.id = id) (hi : TokInt k) : ∃ r, ruleDDMM k = .ok r := by
  obtain ⟨mv, hmv⟩ := monthOf_ok id hmo txt a ha k hk hid hi
  obtain ⟨dv, hdv⟩ := grpInt_ok k hi "day" (by decide) (group_present id "day" hday txt a ha k hk hid)
  simp only [ruleDDMM, hmv, hdv, bind, Except.bind, pure, Except.pure]; exact ⟨_, rfl⟩

theorem ruleDDMMYYYY_total (txt : List Nat) (a : Art) (ha : a ∈ matchRegex txt)
    (k : Tok) (hk : a.v = .tok k) (hid : k.id = 126) (hi : TokInt k) : ∃ r, ruleDDMMYYYY k = .ok r := by
  obtain ⟨mv, hmv⟩ := monthOf_ok 126 month_table.2.2.1 txt a ha k hk hid hi
  obtain ⟨dv, hdv⟩ := grpInt_ok k hi "day" (by decide) (group_present 126 "day" month_table.2.2.2.2.2.1 txt a ha k hk hid)
  obtain ⟨yv, hyv⟩ := grpInt_ok k hi "year" (by decide) (group_present 126 "year" month_table.2.2.2.2.2.2 txt a ha k hk hid)
  simp only [ruleDDMMYYYY, hmv, hdv, hyv, bind, Except.bind, pure, Except.pure]; exact ⟨_, rfl⟩

end QuickAdd
