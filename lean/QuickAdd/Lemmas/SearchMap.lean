import QuickAdd.Model.Search
/-! Equivariance of the worklist loop under any order-preserving change of scores (core of C09):
    scores enter the loop only through `lt`, so re-scoring by `φ` with `lt' (φ a) (φ b) = lt a b` changes nothing
    but the reported numbers — stable sort, both dedup tables, emission rule, depth truncation, deadline. -/
namespace QuickAdd

variable {α S S' : Type}

def E.map (φ : S → S') (e : E α S) : E α S' := { prod := e.prod, trace := e.trace, cov := e.cov, score := φ e.score, rules := e.rules }

def Cfg.map (φ : S → S') (lt' : S' → S' → Bool) (c : Cfg α S) : Cfg α S' :=
  { lt := lt', expand := c.expand, scorer := fun p t n => φ (c.scorer p t n), final := fun p t x => φ (c.final p t x),
    isVal := c.isVal, keyEq := c.keyEq, depth := c.depth }

theorem trunc_map {β γ : Type} (g : β → γ) (d : Nat) (l : List β) : trunc d (l.map g) = (trunc d l).map g := by
  unfold trunc; split <;> simp [List.map_drop]

section
variable (φ : S → S') (lt : S → S → Bool) (lt' : S' → S' → Bool) (hφ : ∀ a b, lt' (φ a) (φ b) = lt a b)
include hφ

theorem elt_map (a b : E α S) : elt lt' (a.map φ) (b.map φ) = elt lt a b := by
  show (decide (a.cov < b.cov) || (a.cov == b.cov && lt' (φ a.score) (φ b.score))) = _
  rw [hφ]; rfl

theorem ins_map (x : E α S) (l : List (E α S)) : ins lt' (x.map φ) (l.map (E.map φ)) = (ins lt x l).map (E.map φ) := by
  induction l with
  | nil => rfl
  | cons y ys ih =>
    simp only [List.map_cons, ins, elt_map φ lt lt' hφ]
    split
    · rfl
    · simp [ih]

theorem sortE_map (l : List (E α S)) : sortE lt' (l.map (E.map φ)) = (sortE lt l).map (E.map φ) := by
  unfold sortE
  suffices h : ∀ acc : List (E α S), List.foldl (fun acc x => ins lt' x acc) (acc.map (E.map φ)) (l.map (E.map φ))
      = (List.foldl (fun acc x => ins lt x acc) acc l).map (E.map φ) by simpa using h []
  induction l with
  | nil => intro acc; rfl
  | cons x xs ih => intro acc; simp only [List.map_cons, List.foldl_cons, ins_map φ lt lt' hφ]; exact ih _

theorem lookupBy_map {K : Type} (eq : K → K → Bool) (k : K) (l : List (K × S)) :
    lookupBy eq k (l.map fun p => (p.1, φ p.2)) = (lookupBy eq k l).map φ := by
  induction l with
  | nil => rfl
  | cons h t ih => obtain ⟨k', v⟩ := h; simp only [List.map_cons, lookupBy]; split <;> simp [ih]
end

theorem pushNew_map (φ : S → S') (lt' : S' → S' → Bool) (c : Cfg α S) (hφ : ∀ a b, lt' (φ a) (φ b) = c.lt a b)
    (rules : List (String × List Gen.Pred)) (succs : List (List α × List String × Nat)) (seen : List (List α × S)) :
    pushNew (c.map φ lt') rules succs (seen.map fun p => (p.1, φ p.2))
      = ((pushNew c rules succs seen).1.map (E.map φ), (pushNew c rules succs seen).2.map fun p => (p.1, φ p.2)) := by
  induction succs generalizing seen with
  | nil => rfl
  | cons h t ih =>
    obtain ⟨p, tr, n⟩ := h
    simp only [pushNew, Cfg.map, lookupBy_map φ c.lt lt' hφ]
    cases hl : lookupBy (listEqBy c.keyEq) p seen with
    | none =>
      simp only [Option.map_none, if_true]
      have := ih ((p, c.scorer p tr n) :: seen)
      simp only [List.map_cons, Cfg.map] at this
      simp only [this, List.map_cons, E.map]
    | some old =>
      simp only [Option.map_some, hφ]
      split
      · have := ih ((p, c.scorer p tr n) :: seen)
        simp only [List.map_cons, Cfg.map] at this
        simp only [this, List.map_cons, E.map]
      · have := ih seen
        simp only [Cfg.map] at this
        exact this

theorem emit_map (φ : S → S') (lt' : S' → S' → Bool) (c : Cfg α S) (hφ : ∀ a b, lt' (φ a) (φ b) = c.lt a b)
    (pr : List α) (tr : List String) (xs : List α) (em : List (α × S)) :
    emit (c.map φ lt') pr tr xs (em.map fun p => (p.1, φ p.2))
      = ((emit c pr tr xs em).1.map (fun o => (o.1, o.2.1, φ o.2.2)), (emit c pr tr xs em).2.map fun p => (p.1, φ p.2)) := by
  induction xs generalizing em with
  | nil => rfl
  | cons x xs ih =>
    simp only [emit, Cfg.map]
    by_cases hv : c.isVal x = true
    · simp only [hv, if_true, lookupBy_map φ c.lt lt' hφ]
      cases hl : lookupBy c.keyEq x em with
      | none =>
        simp only [Option.map_none, if_true]
        have := ih ((x, c.final pr tr x) :: em)
        simp only [List.map_cons, Cfg.map] at this
        simp only [this, List.map_cons]
      | some old =>
        simp only [Option.map_some, hφ]
        by_cases hlt : c.lt old (c.final pr tr x) = true
        · simp only [hlt, if_true]
          have := ih ((x, c.final pr tr x) :: em)
          simp only [List.map_cons, Cfg.map] at this
          simp only [this, List.map_cons]
        · simp only [hlt]
          have := ih em; simp only [Cfg.map] at this; exact this
    · simp only [hv]
      have := ih em; simp only [Cfg.map] at this; exact this

/-- **Equivariance**: re-scoring by any order-preserving `φ` changes nothing but the reported scores —
    same candidates, same traces, same order, same termination/exception status, under every deadline and depth limit. -/
theorem run_map (φ : S → S') (lt' : S' → S' → Bool) (c : Cfg α S) (hφ : ∀ a b, lt' (φ a) (φ b) = c.lt a b) :
    ∀ (f : Nat) (budget : Option Nat) (stack : List (E α S)) (seen : List (List α × S)) (em : List (α × S)),
      run (c.map φ lt') f budget (stack.map (E.map φ)) (seen.map fun p => (p.1, φ p.2)) (em.map fun p => (p.1, φ p.2))
        = ((run c f budget stack seen em).1.map (fun o => (o.1, o.2.1, φ o.2.2)), (run c f budget stack seen em).2) := by
  intro f
  induction f with
  | zero => intro _ _ _ _; rfl
  | succ f ih =>
    intro budget stack seen em
    simp only [run]
    rw [← List.map_reverse]
    cases hs : stack.reverse with
    | nil => simp
    | cons s restRev =>
      simp only [List.map_cons]
      by_cases hb : (budget == some 0) = true
      · simp [hb]
      · simp only [hb, Bool.false_eq_true, if_false]
        have hexp : (c.map φ lt').expand (E.map φ s).rules (E.map φ s).prod (E.map φ s).trace = c.expand s.rules s.prod s.trace := rfl
        rw [hexp]
        cases he : c.expand s.rules s.prod s.trace with
        | error e => simp
        | ok succs =>
          simp only
          have hr : (E.map φ s).rules = s.rules := rfl
          rw [hr]
          have hp := pushNew_map φ lt' c hφ s.rules succs seen
          simp only [hp, List.isEmpty_map]
          split
          · have he2 := emit_map φ lt' c hφ s.prod s.trace s.prod em
            have : (E.map φ s).trace = s.trace ∧ (E.map φ s).prod = s.prod := ⟨rfl, rfl⟩
            simp only [this.1, this.2, he2, List.map_append]
            rw [← List.map_reverse, ih]
          · have hd : (c.map φ lt').depth = c.depth := rfl
            have hl : (c.map φ lt').lt = lt' := rfl
            rw [hd, hl, ← List.map_reverse, ← List.map_append, sortE_map φ c.lt lt' hφ, trunc_map]
            exact ih _ _ _ _

end QuickAdd
