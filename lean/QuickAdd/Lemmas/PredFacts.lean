import QuickAdd.Props.C01
import QuickAdd.Lemmas.SearchWF
/-!
# What a predicate of a rule signature says about the value it holds on
-/
namespace QuickAdd
open Gen

theorem pred_regex (id : Nat) (a : Art) (h : predHolds (.regex id) a = true) : ∃ k, a.v = .tok k := by
  unfold predHolds at h
  cases hv : a.v <;> simp [hv] at h
  exact ⟨_, rfl⟩

theorem pred_dimTime (a : Art) (h : predHolds (.dim "Time") a = true) : ∃ t, a.v = .time t := by
  unfold predHolds at h
  cases hv : a.v <;> simp [hv] at h
  exact ⟨_, rfl⟩

theorem pred_dimInterval (a : Art) (h : predHolds (.dim "Interval") a = true) : ∃ f t, a.v = .interval f t := by
  unfold predHolds at h
  cases hv : a.v <;> simp [hv] at h
  exact ⟨_, _, rfl⟩

theorem pred_dimDuration (a : Art) (h : predHolds (.dim "Duration") a = true) : ∃ n u, a.v = .duration n u := by
  unfold predHolds at h
  cases hv : a.v <;> simp [hv] at h
  exact ⟨_, _, rfl⟩

theorem pred_isDateInterval (a : Art) (h : predHolds (.attr "isDateInterval") a = true) :
    ∃ f t, a.v = .interval (some f) (some t) ∧ f.isDate = true ∧ t.isDate = true := by
  unfold predHolds at h
  cases hv : a.v with
  | tok k => simp [hv] at h
  | time t => simp [hv] at h
  | duration n u => simp [hv] at h
  | interval f t =>
    cases f <;> cases t <;> simp [hv] at h
    exact ⟨_, _, rfl, h.1, h.2⟩

theorem pred_isDOY (a : Art) (h : predHolds (.attr "isDOY") a = true) : ∃ t, a.v = .time t ∧ t.isDOY = true := by
  unfold predHolds at h
  cases hv : a.v with
  | tok k => simp [hv] at h
  | time t => simp [hv] at h; exact ⟨t, rfl, h⟩
  | interval f t => cases f <;> cases t <;> simp [hv] at h
  | duration n u => simp [hv] at h

theorem pred_isDOM (a : Art) (h : predHolds (.attr "isDOM") a = true) : ∃ t, a.v = .time t ∧ t.isDOM = true := by
  unfold predHolds at h
  cases hv : a.v with
  | tok k => simp [hv] at h
  | time t => simp [hv] at h; exact ⟨t, rfl, h⟩
  | interval f t => cases f <;> cases t <;> simp [hv] at h
  | duration n u => simp [hv] at h

theorem pred_isDOW (a : Art) (h : predHolds (.attr "isDOW") a = true) : ∃ t, a.v = .time t ∧ t.isDOW = true := by
  unfold predHolds at h
  cases hv : a.v with
  | tok k => simp [hv] at h
  | time t => simp [hv] at h; exact ⟨t, rfl, h⟩
  | interval f t => cases f <;> cases t <;> simp [hv] at h
  | duration n u => simp [hv] at h

theorem pred_isMonth (a : Art) (h : predHolds (.attr "isMonth") a = true) : ∃ t, a.v = .time t ∧ t.isMonth = true := by
  unfold predHolds at h
  cases hv : a.v with
  | tok k => simp [hv] at h
  | time t => simp [hv] at h; exact ⟨t, rfl, h⟩
  | interval f t => cases f <;> cases t <;> simp [hv] at h
  | duration n u => simp [hv] at h

theorem pred_isPOD (a : Art) (h : predHolds (.attr "isPOD") a = true) : ∃ t, a.v = .time t ∧ t.isPOD = true := by
  unfold predHolds at h
  cases hv : a.v with
  | tok k => simp [hv] at h
  | time t => simp [hv] at h; exact ⟨t, rfl, h⟩
  | interval f t => cases f <;> cases t <;> simp [hv] at h
  | duration n u => simp [hv] at h

theorem pred_isTOD (a : Art) (h : predHolds (.attr "isTOD") a = true) : ∃ t, a.v = .time t ∧ t.isTOD = true := by
  unfold predHolds at h
  cases hv : a.v with
  | tok k => simp [hv] at h
  | time t => simp [hv] at h; exact ⟨t, rfl, h⟩
  | interval f t => cases f <;> cases t <;> simp [hv] at h
  | duration n u => simp [hv] at h

theorem pred_isDate (a : Art) (h : predHolds (.attr "isDate") a = true) : ∃ t, a.v = .time t ∧ t.isDate = true := by
  unfold predHolds at h
  cases hv : a.v with
  | tok k => simp [hv] at h
  | time t => simp [hv] at h; exact ⟨t, rfl, h⟩
  | interval f t => cases f <;> cases t <;> simp [hv] at h
  | duration n u => simp [hv] at h

theorem pred_isDateTime (a : Art) (h : predHolds (.attr "isDateTime") a = true) : ∃ t, a.v = .time t ∧ t.isDateTime = true := by
  unfold predHolds at h
  cases hv : a.v with
  | tok k => simp [hv] at h
  | time t => simp [hv] at h; exact ⟨t, rfl, h⟩
  | interval f t => cases f <;> cases t <;> simp [hv] at h
  | duration n u => simp [hv] at h

theorem pred_isYear (a : Art) (h : predHolds (.attr "isYear") a = true) : ∃ t, a.v = .time t ∧ t.isYear = true := by
  unfold predHolds at h
  cases hv : a.v with
  | tok k => simp [hv] at h
  | time t => simp [hv] at h; exact ⟨t, rfl, h⟩
  | interval f t => cases f <;> cases t <;> simp [hv] at h
  | duration n u => simp [hv] at h

theorem pred_hasDate (a : Art) (h : predHolds (.attr "hasDate") a = true) : ∃ t, a.v = .time t ∧ t.hasDate = true := by
  unfold predHolds at h
  cases hv : a.v with
  | tok k => simp [hv] at h
  | time t => simp [hv] at h; exact ⟨t, rfl, h⟩
  | interval f t => cases f <;> cases t <;> simp [hv] at h
  | duration n u => simp [hv] at h

theorem pred_hasDOW (a : Art) (h : predHolds (.attr "hasDOW") a = true) : ∃ t, a.v = .time t ∧ t.hasDOW = true := by
  unfold predHolds at h
  cases hv : a.v with
  | tok k => simp [hv] at h
  | time t => simp [hv] at h; exact ⟨t, rfl, h⟩
  | interval f t => cases f <;> cases t <;> simp [hv] at h
  | duration n u => simp [hv] at h

end QuickAdd
