import QuickAdd.Model.Pre
/-! Lemmas about `_preprocess_string` for abstract separator / dash / whitespace predicates. -/
namespace QuickAdd

variable (p : Nat → Bool) (r : Nat)

/-- normal form w.r.t. a class `p` and its representative `r`: every `p`-code point is `r` and is not followed by a `p`-code point -/
def NF : List Nat → Prop
  | [] => True
  | [c] => p c = true → c = r
  | c :: d :: t => (p c = true → c = r ∧ p d = false) ∧ NF (d :: t)

theorem nf_tail {c : Nat} {t : List Nat} (h : NF p r (c :: t)) : NF p r t := by
  cases t with
  | nil => trivial
  | cons d t => exact h.2

theorem head_collapse_true : ∀ l : List Nat, ∀ x t, collapseGo p r true l = x :: t → p x = false := by
  intro l
  induction l with
  | nil => intro x t h; simp [collapseGo] at h
  | cons c cs ih =>
    intro x t h
    simp only [collapseGo] at h
    by_cases hc : p c = true
    · simp only [hc, if_true] at h; exact ih x t h
    · simp only [hc] at h
      simp at h; rw [← h.1]; simpa using hc

theorem nf_cons_of {c : Nat} {l : List Nat} (hl : NF p r l) (hc : p c = true → c = r ∧ ∀ x t, l = x :: t → p x = false) : NF p r (c :: l) := by
  cases l with
  | nil => exact fun h => (hc h).1
  | cons d t => exact ⟨fun h => ⟨(hc h).1, (hc h).2 d t rfl⟩, hl⟩

/-- the output of `collapse` is in normal form -/
theorem nf_collapse (hr : p r = true) : ∀ (l : List Nat) (b : Bool), NF p r (collapseGo p r b l) := by
  intro l
  induction l with
  | nil => intro b; simp [collapseGo, NF]
  | cons c cs ih =>
    intro b
    simp only [collapseGo]
    by_cases hc : p c = true
    · simp only [hc, if_true]
      cases b with
      | true => simpa using ih true
      | false =>
        simp only [Bool.false_eq_true, if_false]
        exact nf_cons_of p r (ih true) (fun _ => ⟨rfl, fun x t h => head_collapse_true p r cs x t h⟩)
    · simp only [hc]
      exact nf_cons_of p r (ih false) (fun h => absurd h hc)

/-- `collapse` is the identity on normal forms (so it is idempotent) -/
theorem collapse_of_nf : ∀ (l : List Nat), NF p r l → collapseGo p r false l = l ∧ ((∀ x t, l = x :: t → p x = false) → collapseGo p r true l = l) := by
  intro l
  induction l with
  | nil => intro _; simp [collapseGo]
  | cons c cs ih =>
    intro h
    have ht := nf_tail p r h
    obtain ⟨ih1, ih2⟩ := ih ht
    by_cases hc : p c = true
    · have hcr : c = r ∧ (∀ x t, cs = x :: t → p x = false) := by
        cases cs with
        | nil => exact ⟨h hc, fun x t e => by simp at e⟩
        | cons d t => exact ⟨(h.1 hc).1, fun x t' e => by simp at e; rw [← e.1]; exact (h.1 hc).2⟩
      refine ⟨?_, fun hh => absurd hc (by simpa using hh c cs rfl)⟩
      simp only [collapseGo, hc, if_true, Bool.false_eq_true, if_false]
      rw [ih2 hcr.2, hcr.1]
    · refine ⟨?_, fun _ => ?_⟩ <;> simp only [collapseGo, hc] <;> simp [ih1]

theorem collapse_idem (hr : p r = true) (l : List Nat) : collapse p r (collapse p r l) = collapse p r l :=
  (collapse_of_nf p r _ (nf_collapse p r hr l false)).1

/-! ### stripping -/
theorem nf_dropWhile (q : Nat → Bool) : ∀ l, NF p r l → NF p r (l.dropWhile q) := by
  intro l
  induction l with
  | nil => intro h; simpa using h
  | cons c t ih =>
    intro h
    simp only [List.dropWhile]
    split
    · exact ih (nf_tail p r h)
    · exact h

theorem dropTrailing_head (q : Nat → Bool) : ∀ l x t, dropTrailing q l = x :: t → ∃ t', l = x :: t' := by
  intro l
  cases l with
  | nil => intro x t h; simp [dropTrailing] at h
  | cons c cs =>
    intro x t h
    simp only [dropTrailing] at h
    split at h
    · split at h
      · simp at h
      · simp at h; exact ⟨cs, by rw [h.1]⟩
    · simp at h; exact ⟨cs, by rw [h.1]⟩

theorem nf_dropTrailing (q : Nat → Bool) : ∀ l, NF p r l → NF p r (dropTrailing q l) := by
  intro l
  induction l with
  | nil => intro h; simpa [dropTrailing] using h
  | cons c t ih =>
    intro h
    have iht := ih (nf_tail p r h)
    simp only [dropTrailing]
    split
    · split
      · trivial
      · intro hc
        cases t with
        | nil => exact h hc
        | cons d t' => exact (h.1 hc).1
    · rename_i t' hne
      cases ht' : dropTrailing q t with
      | nil => exact absurd ht' hne
      | cons x t'' =>
        obtain ⟨u, hu⟩ := dropTrailing_head q t x t'' ht'
        rw [ht'] at iht
        refine nf_cons_of p r iht (fun hc => ?_)
        subst hu
        exact ⟨(h.1 hc).1, fun y s e => by simp at e; rw [← e.1]; exact (h.1 hc).2⟩

theorem nf_strip (q : Nat → Bool) (l : List Nat) (h : NF p r l) : NF p r (stripBy q l) :=
  nf_dropTrailing p r q _ (nf_dropWhile p r q l h)

theorem dropTrailing_idem (q : Nat → Bool) : ∀ l, dropTrailing q (dropTrailing q l) = dropTrailing q l := by
  intro l
  induction l with
  | nil => rfl
  | cons c t ih =>
    simp only [dropTrailing]
    cases ht : dropTrailing q t with
    | nil =>
      simp only
      split
      · rfl
      · rename_i hc; simp [dropTrailing, hc]
    | cons x t' =>
      simp only
      rw [ht] at ih
      have e : dropTrailing q (c :: x :: t') = (match dropTrailing q (x :: t') with | [] => if q c then [] else [c] | t'' => c :: t'') := rfl
      rw [e, ih]

theorem dropTrailing_dropWhile_head (q : Nat → Bool) : ∀ l, (∀ x t, l = x :: t → q x = false) → ∀ x t, dropTrailing q l = x :: t → q x = false := by
  intro l hl x t h
  obtain ⟨t', ht'⟩ := dropTrailing_head q l x t h
  exact hl x t' ht'

theorem dropWhile_head (q : Nat → Bool) : ∀ (l : List Nat) (x : Nat) (t : List Nat), l.dropWhile q = x :: t → q x = false := by
  intro l
  induction l with
  | nil => intro x t h; simp at h
  | cons c cs ih =>
    intro x t h
    simp only [List.dropWhile] at h
    split at h
    · exact ih x t h
    · rename_i hc; simp at h; rw [← h.1]; simpa using hc

theorem dropWhile_of_head (q : Nat → Bool) (l : List Nat) (h : ∀ x t, l = x :: t → q x = false) : l.dropWhile q = l := by
  cases l with
  | nil => rfl
  | cons c t => simp [List.dropWhile, h c t rfl]

theorem strip_idem (q : Nat → Bool) (l : List Nat) : stripBy q (stripBy q l) = stripBy q l := by
  unfold stripBy
  have hh := dropTrailing_dropWhile_head q (l.dropWhile q) (dropWhile_head q l)
  rw [dropWhile_of_head q _ hh, dropTrailing_idem]

/-- stripping `q`-code points from a `collapse`-normal form for a class disjoint from… any class: if the list is a fixed
    point of `collapse p r`, so is its stripped version -/
theorem collapse_strip_fix (q : Nat → Bool) (l : List Nat) (h : NF p r l) : collapse p r (stripBy q l) = stripBy q l :=
  (collapse_of_nf p r _ (nf_strip p r q l h)).1

/-! ### the dash pass preserves separator normality -/
variable (pd : Nat → Bool) (rd : Nat)

theorem head_collapse_false_nonp (hdis : ∀ x, pd x = true → p x = false) (hrd : p rd = false) :
    ∀ l x t, collapseGo pd rd false l = x :: t → (∀ y s, l = y :: s → p y = false) → p x = false := by
  intro l x t h hl
  cases l with
  | nil => simp [collapseGo] at h
  | cons c cs =>
    simp only [collapseGo] at h
    by_cases hc : pd c = true
    · simp [hc] at h; rw [← h.1]; exact hrd
    · simp [hc] at h; rw [← h.1]; exact hl c cs rfl

theorem nf_dash_pass (hdis : ∀ x, pd x = true → p x = false) (hrd : p rd = false) :
    ∀ (l : List Nat) (b : Bool), NF p r l → NF p r (collapseGo pd rd b l) := by
  intro l
  induction l with
  | nil => intro b _; simp [collapseGo, NF]
  | cons c cs ih =>
    intro b h
    have ht := nf_tail p r h
    simp only [collapseGo]
    by_cases hc : pd c = true
    · simp only [hc, if_true]
      cases b with
      | true => simpa using ih true ht
      | false =>
        simp only [Bool.false_eq_true, if_false]
        exact nf_cons_of p r (ih true ht) (fun hp => by rw [hrd] at hp; exact absurd hp (by simp))
    · simp only [hc]
      refine nf_cons_of p r (ih false ht) (fun hp => ?_)
      cases cs with
      | nil => exact ⟨h hp, fun x t e => by simp [collapseGo] at e⟩
      | cons d t =>
        refine ⟨(h.1 hp).1, fun x t' e => ?_⟩
        exact head_collapse_false_nonp p pd rd hdis hrd (d :: t) x t' e (fun y s e' => by simp at e'; rw [← e'.1]; exact (h.1 hp).2)

/-- **idempotence of the whole normalisation**, for any classes with: blank is a separator, '-' is a dash,
    dashes are not separators, '-' is not a separator, whitespace (what `strip` removes) is never a dash -/
theorem preprocess_idem (isS isD ws : Nat → Bool)
    (h1 : isS 32 = true) (h2 : isD 45 = true) (h3 : ∀ x, isD x = true → isS x = false) (h4 : isS 45 = false)
    (t : List Nat) :
    preprocessWith isS isD ws (preprocessWith isS isD ws t) = preprocessWith isS isD ws t := by
  unfold preprocessWith
  -- name the stages
  let a := collapse isS 32 t
  let b := stripBy ws a
  let c := collapse isD 45 b
  let d := stripBy ws c
  show stripBy ws (collapse isD 45 (stripBy ws (collapse isS 32 d))) = d
  have nfa : NF isS 32 a := nf_collapse isS 32 h1 t false
  have nfb : NF isS 32 b := nf_strip isS 32 ws a nfa
  have nfc_s : NF isS 32 c := nf_dash_pass isS 32 isD 45 h3 h4 b false nfb
  have nfd_s : NF isS 32 d := nf_strip isS 32 ws c nfc_s
  have nfc_d : NF isD 45 c := nf_collapse isD 45 h2 b false
  have nfd_d : NF isD 45 d := nf_strip isD 45 ws c nfc_d
  have e1 : collapse isS 32 d = d := (collapse_of_nf isS 32 d nfd_s).1
  have e2 : stripBy ws d = d := strip_idem ws c
  have e3 : collapse isD 45 d = d := (collapse_of_nf isD 45 d nfd_d).1
  rw [e1, e2, e3, e2]

/-- output normal form: no separator but single blanks, no dash but single '-' -/
theorem preprocess_nf (isS isD ws : Nat → Bool)
    (h1 : isS 32 = true) (h2 : isD 45 = true) (h3 : ∀ x, isD x = true → isS x = false) (h4 : isS 45 = false) (t : List Nat) :
    NF isS 32 (preprocessWith isS isD ws t) ∧ NF isD 45 (preprocessWith isS isD ws t) := by
  unfold preprocessWith
  have nfa : NF isS 32 (collapse isS 32 t) := nf_collapse isS 32 h1 t false
  have nfb := nf_strip isS 32 ws _ nfa
  have nfc_s := nf_dash_pass isS 32 isD 45 h3 h4 _ false nfb
  exact ⟨nf_strip isS 32 ws _ nfc_s, nf_strip isD 45 ws _ (nf_collapse isD 45 h2 _ false)⟩

/-! ### separator-run equivalence -/
theorem collapseGo_run : ∀ (run : List Nat) (b : Bool) (rest : List Nat), (∀ x ∈ run, p x = true) →
    collapseGo p r b (run ++ rest) = (if b || run.isEmpty then [] else [r]) ++ collapseGo p r (b || !run.isEmpty) rest := by
  intro run
  induction run with
  | nil => intro b rest _; simp
  | cons c cs ih =>
    intro b rest h
    have hc : p c = true := h c (by simp)
    have hcs : ∀ x ∈ cs, p x = true := fun x hx => h x (by simp [hx])
    simp only [List.cons_append, collapseGo, hc, if_true]
    cases b with
    | true => simp [ih true rest hcs]
    | false =>
      simp only [Bool.false_eq_true, if_false]
      rw [ih true rest hcs]; simp

/-- any non-empty run of class members is equivalent to any other non-empty run (also to a single `r`) -/
theorem collapse_run_equiv (pre run1 run2 rest : List Nat) (h1 : ∀ x ∈ run1, p x = true) (h2 : ∀ x ∈ run2, p x = true)
    (n1 : run1 ≠ []) (n2 : run2 ≠ []) : collapse p r (pre ++ run1 ++ rest) = collapse p r (pre ++ run2 ++ rest) := by
  unfold collapse
  simp only [List.append_assoc]
  suffices ∀ b, collapseGo p r b (pre ++ (run1 ++ rest)) = collapseGo p r b (pre ++ (run2 ++ rest)) from this false
  induction pre with
  | nil =>
    intro b
    simp only [List.nil_append]
    rw [collapseGo_run p r run1 b rest h1, collapseGo_run p r run2 b rest h2]
    cases run1 <;> cases run2 <;> simp_all
  | cons c cs ih =>
    intro b
    simp only [List.cons_append, collapseGo]
    split
    · split <;> simp [ih]
    · simp [ih]

end QuickAdd
