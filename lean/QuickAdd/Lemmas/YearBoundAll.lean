import QuickAdd.Lemmas.YearBound
import QuickAdd.Lemmas.RulesWFAll
/-! One lemma per registered production (generated text, as in `RulesWFAll`), then the statement for all of them: a successful
   result carries no year above the bound when no argument does. -/
namespace QuickAdd
open Gen

theorem applyId_year_ruleAbsorbOnTime (ts : Ts) (hts : TsOk ts) (B : Int) (hB : YearCap ts B) (args : List Val) (hargs : ∀ a ∈ args, a.Ok ∧ a.YearLe B) (v : Val)
    (h : applyId .ruleAbsorbOnTime ts args = .ok (some v)) : v.YearLe B := by
    rcases args with _ | ⟨a, _ | ⟨b, _ | ⟨c, rest⟩⟩⟩ <;> (try cases a) <;> (try cases b) <;>
      first | (have h' : some _ = some v := Except.ok.inj h; cases h'; first | exact (mem2 hargs).2 | trivial) | (exact nomatch h)

theorem applyId_year_ruleAbsorbFromInterval (ts : Ts) (hts : TsOk ts) (B : Int) (hB : YearCap ts B) (args : List Val) (hargs : ∀ a ∈ args, a.Ok ∧ a.YearLe B) (v : Val)
    (h : applyId .ruleAbsorbFromInterval ts args = .ok (some v)) : v.YearLe B := by
    rcases args with _ | ⟨a, _ | ⟨b, _ | ⟨c, rest⟩⟩⟩ <;> (try cases a) <;> (try cases b) <;>
      first | (have h' : some _ = some v := Except.ok.inj h; cases h'; first | exact (mem2 hargs).2 | trivial) | (exact nomatch h)

theorem applyId_year_ruleNamedDOW (ts : Ts) (hts : TsOk ts) (B : Int) (hB : YearCap ts B) (args : List Val) (hargs : ∀ a ∈ args, a.Ok ∧ a.YearLe B) (v : Val)
    (h : applyId .ruleNamedDOW ts args = .ok (some v)) : v.YearLe B := by
    rcases args with _ | ⟨a, _ | ⟨b, rest⟩⟩ <;> (try cases a) <;>
      first | (exact ruleNamedDOW_year B _ v h) | (exact nomatch h)

theorem applyId_year_ruleNamedMonth (ts : Ts) (hts : TsOk ts) (B : Int) (hB : YearCap ts B) (args : List Val) (hargs : ∀ a ∈ args, a.Ok ∧ a.YearLe B) (v : Val)
    (h : applyId .ruleNamedMonth ts args = .ok (some v)) : v.YearLe B := by
    rcases args with _ | ⟨a, _ | ⟨b, rest⟩⟩ <;> (try cases a) <;>
      first | (exact ruleNamedMonth_year B _ v h) | (exact nomatch h)

theorem applyId_year_ruleNamedHour (ts : Ts) (hts : TsOk ts) (B : Int) (hB : YearCap ts B) (args : List Val) (hargs : ∀ a ∈ args, a.Ok ∧ a.YearLe B) (v : Val)
    (h : applyId .ruleNamedHour ts args = .ok (some v)) : v.YearLe B := by
    rcases args with _ | ⟨a, _ | ⟨b, rest⟩⟩ <;> (try cases a) <;>
      first | (exact ruleNamedHour_year B _ v h) | (exact nomatch h)

theorem applyId_year_ruleMidnight (ts : Ts) (hts : TsOk ts) (B : Int) (hB : YearCap ts B) (args : List Val) (hargs : ∀ a ∈ args, a.Ok ∧ a.YearLe B) (v : Val)
    (h : applyId .ruleMidnight ts args = .ok (some v)) : v.YearLe B := by
    rcases args with _ | ⟨a, _ | ⟨b, rest⟩⟩ <;> (try cases a) <;>
      first | (exact ruleMidnight_year B v h) | (exact nomatch h)

theorem applyId_year_ruleEarlyLatePOD (ts : Ts) (hts : TsOk ts) (B : Int) (hB : YearCap ts B) (args : List Val) (hargs : ∀ a ∈ args, a.Ok ∧ a.YearLe B) (v : Val)
    (h : applyId .ruleEarlyLatePOD ts args = .ok (some v)) : v.YearLe B := by
    rcases args with _ | ⟨a, _ | ⟨b, _ | ⟨c, rest⟩⟩⟩ <;> (try cases a) <;> (try cases b) <;>
      first | (exact ruleEarlyLatePOD_year B _ _ v h) | (exact nomatch h)

theorem applyId_year_rulePOD (ts : Ts) (hts : TsOk ts) (B : Int) (hB : YearCap ts B) (args : List Val) (hargs : ∀ a ∈ args, a.Ok ∧ a.YearLe B) (v : Val)
    (h : applyId .rulePOD ts args = .ok (some v)) : v.YearLe B := by
    rcases args with _ | ⟨a, _ | ⟨b, rest⟩⟩ <;> (try cases a) <;>
      first | (exact rulePOD_year B _ v h) | (exact nomatch h)

theorem applyId_year_ruleDOM1 (ts : Ts) (hts : TsOk ts) (B : Int) (hB : YearCap ts B) (args : List Val) (hargs : ∀ a ∈ args, a.Ok ∧ a.YearLe B) (v : Val)
    (h : applyId .ruleDOM1 ts args = .ok (some v)) : v.YearLe B := by
    rcases args with _ | ⟨a, _ | ⟨b, rest⟩⟩ <;> (try cases a) <;>
      first | (exact ruleDOM1_year B _ v h) | (exact nomatch h)

theorem applyId_year_ruleMonthOrdinal (ts : Ts) (hts : TsOk ts) (B : Int) (hB : YearCap ts B) (args : List Val) (hargs : ∀ a ∈ args, a.Ok ∧ a.YearLe B) (v : Val)
    (h : applyId .ruleMonthOrdinal ts args = .ok (some v)) : v.YearLe B := by
    rcases args with _ | ⟨a, _ | ⟨b, rest⟩⟩ <;> (try cases a) <;>
      first | (exact ruleMonthOrdinal_year B _ v h) | (exact nomatch h)

theorem applyId_year_ruleDOM2 (ts : Ts) (hts : TsOk ts) (B : Int) (hB : YearCap ts B) (args : List Val) (hargs : ∀ a ∈ args, a.Ok ∧ a.YearLe B) (v : Val)
    (h : applyId .ruleDOM2 ts args = .ok (some v)) : v.YearLe B := by
    rcases args with _ | ⟨a, _ | ⟨b, rest⟩⟩ <;> (try cases a) <;>
      first | (exact ruleDOM2_year B _ v h) | (exact nomatch h)

theorem applyId_year_ruleYear (ts : Ts) (hts : TsOk ts) (B : Int) (hB : YearCap ts B) (args : List Val) (hargs : ∀ a ∈ args, a.Ok ∧ a.YearLe B) (v : Val)
    (h : applyId .ruleYear ts args = .ok (some v)) : v.YearLe B := by
    rcases args with _ | ⟨a, _ | ⟨b, rest⟩⟩ <;> (try cases a) <;>
      first | (exact ruleYear_year ts hts B hB _ (mem1 hargs).1 v h) | (exact nomatch h)

theorem applyId_year_ruleToday (ts : Ts) (hts : TsOk ts) (B : Int) (hB : YearCap ts B) (args : List Val) (hargs : ∀ a ∈ args, a.Ok ∧ a.YearLe B) (v : Val)
    (h : applyId .ruleToday ts args = .ok (some v)) : v.YearLe B := by
    rcases args with _ | ⟨a, _ | ⟨b, rest⟩⟩ <;> (try cases a) <;>
      first | (exact ruleToday_year ts B hB v h) | (exact nomatch h)

theorem applyId_year_ruleNow (ts : Ts) (hts : TsOk ts) (B : Int) (hB : YearCap ts B) (args : List Val) (hargs : ∀ a ∈ args, a.Ok ∧ a.YearLe B) (v : Val)
    (h : applyId .ruleNow ts args = .ok (some v)) : v.YearLe B := by
    rcases args with _ | ⟨a, _ | ⟨b, rest⟩⟩ <;> (try cases a) <;>
      first | (exact ruleNow_year ts B hB v h) | (exact nomatch h)

theorem applyId_year_ruleTomorrow (ts : Ts) (hts : TsOk ts) (B : Int) (hB : YearCap ts B) (args : List Val) (hargs : ∀ a ∈ args, a.Ok ∧ a.YearLe B) (v : Val)
    (h : applyId .ruleTomorrow ts args = .ok (some v)) : v.YearLe B := by
    rcases args with _ | ⟨a, _ | ⟨b, rest⟩⟩ <;> (try cases a) <;>
      first | (exact relDays_year ts hts B hB _ (by decide) v h) | (exact nomatch h)

theorem applyId_year_ruleAfterTomorrow (ts : Ts) (hts : TsOk ts) (B : Int) (hB : YearCap ts B) (args : List Val) (hargs : ∀ a ∈ args, a.Ok ∧ a.YearLe B) (v : Val)
    (h : applyId .ruleAfterTomorrow ts args = .ok (some v)) : v.YearLe B := by
    rcases args with _ | ⟨a, _ | ⟨b, rest⟩⟩ <;> (try cases a) <;>
      first | (exact relDays_year ts hts B hB _ (by decide) v h) | (exact nomatch h)

theorem applyId_year_ruleYesterday (ts : Ts) (hts : TsOk ts) (B : Int) (hB : YearCap ts B) (args : List Val) (hargs : ∀ a ∈ args, a.Ok ∧ a.YearLe B) (v : Val)
    (h : applyId .ruleYesterday ts args = .ok (some v)) : v.YearLe B := by
    rcases args with _ | ⟨a, _ | ⟨b, rest⟩⟩ <;> (try cases a) <;>
      first | (exact relDays_year ts hts B hB _ (by decide) v h) | (exact nomatch h)

theorem applyId_year_ruleBeforeYesterday (ts : Ts) (hts : TsOk ts) (B : Int) (hB : YearCap ts B) (args : List Val) (hargs : ∀ a ∈ args, a.Ok ∧ a.YearLe B) (v : Val)
    (h : applyId .ruleBeforeYesterday ts args = .ok (some v)) : v.YearLe B := by
    rcases args with _ | ⟨a, _ | ⟨b, rest⟩⟩ <;> (try cases a) <;>
      first | (exact relDays_year ts hts B hB _ (by decide) v h) | (exact nomatch h)

theorem applyId_year_ruleEOM (ts : Ts) (hts : TsOk ts) (B : Int) (hB : YearCap ts B) (args : List Val) (hargs : ∀ a ∈ args, a.Ok ∧ a.YearLe B) (v : Val)
    (h : applyId .ruleEOM ts args = .ok (some v)) : v.YearLe B := by
    rcases args with _ | ⟨a, _ | ⟨b, rest⟩⟩ <;> (try cases a) <;>
      first | (exact ruleEOM_year ts hts B hB v h) | (exact nomatch h)

theorem applyId_year_ruleEOY (ts : Ts) (hts : TsOk ts) (B : Int) (hB : YearCap ts B) (args : List Val) (hargs : ∀ a ∈ args, a.Ok ∧ a.YearLe B) (v : Val)
    (h : applyId .ruleEOY ts args = .ok (some v)) : v.YearLe B := by
    rcases args with _ | ⟨a, _ | ⟨b, rest⟩⟩ <;> (try cases a) <;>
      first | (exact ruleEOY_year ts hts B hB v h) | (exact nomatch h)

theorem applyId_year_ruleDOMMonth (ts : Ts) (hts : TsOk ts) (B : Int) (hB : YearCap ts B) (args : List Val) (hargs : ∀ a ∈ args, a.Ok ∧ a.YearLe B) (v : Val)
    (h : applyId .ruleDOMMonth ts args = .ok (some v)) : v.YearLe B := by
    rcases args with _ | ⟨a, _ | ⟨b, _ | ⟨c, rest⟩⟩⟩ <;> (try cases a) <;> (try cases b) <;>
      first | (exact ruleDOMMonth_year B _ _ v h) | (exact nomatch h)

theorem applyId_year_ruleDOMMonth2 (ts : Ts) (hts : TsOk ts) (B : Int) (hB : YearCap ts B) (args : List Val) (hargs : ∀ a ∈ args, a.Ok ∧ a.YearLe B) (v : Val)
    (h : applyId .ruleDOMMonth2 ts args = .ok (some v)) : v.YearLe B := by
    rcases args with _ | ⟨a, _ | ⟨b, _ | ⟨c, _ | ⟨d, rest⟩⟩⟩⟩ <;> (try cases a) <;> (try cases b) <;> (try cases c) <;>
      first | (exact ruleDOMMonth_year B _ _ v h) | (exact nomatch h)

theorem applyId_year_ruleMonthDOM (ts : Ts) (hts : TsOk ts) (B : Int) (hB : YearCap ts B) (args : List Val) (hargs : ∀ a ∈ args, a.Ok ∧ a.YearLe B) (v : Val)
    (h : applyId .ruleMonthDOM ts args = .ok (some v)) : v.YearLe B := by
    rcases args with _ | ⟨a, _ | ⟨b, _ | ⟨c, rest⟩⟩⟩ <;> (try cases a) <;> (try cases b) <;>
      first | (exact ruleMonthDOM_year B _ _ v h) | (exact nomatch h)

theorem applyId_year_ruleAtDOW (ts : Ts) (hts : TsOk ts) (B : Int) (hB : YearCap ts B) (args : List Val) (hargs : ∀ a ∈ args, a.Ok ∧ a.YearLe B) (v : Val)
    (h : applyId .ruleAtDOW ts args = .ok (some v)) : v.YearLe B := by
    rcases args with _ | ⟨a, _ | ⟨b, _ | ⟨c, rest⟩⟩⟩ <;> (try cases a) <;> (try cases b) <;>
      first | (exact ruleAtDOW_year ts hts B hB _ (mem2 hargs).1 v h) | (exact nomatch h)

theorem applyId_year_ruleNextDOW (ts : Ts) (hts : TsOk ts) (B : Int) (hB : YearCap ts B) (args : List Val) (hargs : ∀ a ∈ args, a.Ok ∧ a.YearLe B) (v : Val)
    (h : applyId .ruleNextDOW ts args = .ok (some v)) : v.YearLe B := by
    rcases args with _ | ⟨a, _ | ⟨b, _ | ⟨c, rest⟩⟩⟩ <;> (try cases a) <;> (try cases b) <;>
      first | (exact ruleNextDOW_year ts hts B hB _ (mem2 hargs).1 v h) | (exact nomatch h)

theorem applyId_year_ruleDOWNextWeek (ts : Ts) (hts : TsOk ts) (B : Int) (hB : YearCap ts B) (args : List Val) (hargs : ∀ a ∈ args, a.Ok ∧ a.YearLe B) (v : Val)
    (h : applyId .ruleDOWNextWeek ts args = .ok (some v)) : v.YearLe B := by
    rcases args with _ | ⟨a, _ | ⟨b, _ | ⟨c, rest⟩⟩⟩ <;> (try cases a) <;> (try cases b) <;>
      first | (exact ruleNextDOW_year ts hts B hB _ (mem1 hargs).1 v h) | (exact nomatch h)

theorem applyId_year_ruleDOYYear (ts : Ts) (hts : TsOk ts) (B : Int) (hB : YearCap ts B) (args : List Val) (hargs : ∀ a ∈ args, a.Ok ∧ a.YearLe B) (v : Val)
    (h : applyId .ruleDOYYear ts args = .ok (some v)) : v.YearLe B := by
    rcases args with _ | ⟨a, _ | ⟨b, _ | ⟨c, rest⟩⟩⟩ <;> (try cases a) <;> (try cases b) <;>
      first | (exact ruleDOYYear_year B _ _ (mem2 hargs).2 v h) | (exact nomatch h)

theorem applyId_year_ruleDOWPOD (ts : Ts) (hts : TsOk ts) (B : Int) (hB : YearCap ts B) (args : List Val) (hargs : ∀ a ∈ args, a.Ok ∧ a.YearLe B) (v : Val)
    (h : applyId .ruleDOWPOD ts args = .ok (some v)) : v.YearLe B := by
    rcases args with _ | ⟨a, _ | ⟨b, _ | ⟨c, rest⟩⟩⟩ <;> (try cases a) <;> (try cases b) <;>
      first | (exact ruleDOWPOD_year B _ _ v h) | (exact nomatch h)

theorem applyId_year_ruleDOWDOM (ts : Ts) (hts : TsOk ts) (B : Int) (hB : YearCap ts B) (args : List Val) (hargs : ∀ a ∈ args, a.Ok ∧ a.YearLe B) (v : Val)
    (h : applyId .ruleDOWDOM ts args = .ok (some v)) : v.YearLe B := by
    rcases args with _ | ⟨a, _ | ⟨b, _ | ⟨c, rest⟩⟩⟩ <;> (try cases a) <;> (try cases b) <;>
      first | (exact ruleDOWDOM_year ts hts B hB _ _ (mem1 hargs).1 (mem2 hargs).1 v h) | (exact nomatch h)

theorem applyId_year_ruleDOWDate (ts : Ts) (hts : TsOk ts) (B : Int) (hB : YearCap ts B) (args : List Val) (hargs : ∀ a ∈ args, a.Ok ∧ a.YearLe B) (v : Val)
    (h : applyId .ruleDOWDate ts args = .ok (some v)) : v.YearLe B := by
    rcases args with _ | ⟨a, _ | ⟨b, _ | ⟨c, rest⟩⟩⟩ <;> (try cases a) <;> (try cases b) <;>
      first | (exact ruleDOWDate_year B _ _ (mem2 hargs).2 v h) | (exact nomatch h)

theorem applyId_year_ruleDateDOW (ts : Ts) (hts : TsOk ts) (B : Int) (hB : YearCap ts B) (args : List Val) (hargs : ∀ a ∈ args, a.Ok ∧ a.YearLe B) (v : Val)
    (h : applyId .ruleDateDOW ts args = .ok (some v)) : v.YearLe B := by
    rcases args with _ | ⟨a, _ | ⟨b, _ | ⟨c, rest⟩⟩⟩ <;> (try cases a) <;> (try cases b) <;>
      first | (exact ruleDOWDate_year B _ _ (mem1 hargs).2 v h) | (exact nomatch h)

theorem applyId_year_ruleLatentDOM (ts : Ts) (hts : TsOk ts) (B : Int) (hB : YearCap ts B) (args : List Val) (hargs : ∀ a ∈ args, a.Ok ∧ a.YearLe B) (v : Val)
    (h : applyId .ruleLatentDOM ts args = .ok (some v)) : v.YearLe B := by
    rcases args with _ | ⟨a, _ | ⟨b, rest⟩⟩ <;> (try cases a) <;>
      first | (exact ruleLatentDOM_year ts hts B hB _ v h) | (exact nomatch h)

theorem applyId_year_ruleLatentDOW (ts : Ts) (hts : TsOk ts) (B : Int) (hB : YearCap ts B) (args : List Val) (hargs : ∀ a ∈ args, a.Ok ∧ a.YearLe B) (v : Val)
    (h : applyId .ruleLatentDOW ts args = .ok (some v)) : v.YearLe B := by
    rcases args with _ | ⟨a, _ | ⟨b, rest⟩⟩ <;> (try cases a) <;>
      first | (exact ruleAtDOW_year ts hts B hB _ (mem1 hargs).1 v h) | (exact nomatch h)

theorem applyId_year_ruleLatentDOY (ts : Ts) (hts : TsOk ts) (B : Int) (hB : YearCap ts B) (args : List Val) (hargs : ∀ a ∈ args, a.Ok ∧ a.YearLe B) (v : Val)
    (h : applyId .ruleLatentDOY ts args = .ok (some v)) : v.YearLe B := by
    rcases args with _ | ⟨a, _ | ⟨b, rest⟩⟩ <;> (try cases a) <;>
      first | (exact ruleLatentDOY_year ts B hB _ v h) | (exact nomatch h)

theorem applyId_year_ruleLatentPOD (ts : Ts) (hts : TsOk ts) (B : Int) (hB : YearCap ts B) (args : List Val) (hargs : ∀ a ∈ args, a.Ok ∧ a.YearLe B) (v : Val)
    (h : applyId .ruleLatentPOD ts args = .ok (some v)) : v.YearLe B := by
    rcases args with _ | ⟨a, _ | ⟨b, rest⟩⟩ <;> (try cases a) <;>
      first | (exact ruleLatentPOD_year ts hts B hB _ v h) | (exact nomatch h)

theorem applyId_year_ruleDDMM (ts : Ts) (hts : TsOk ts) (B : Int) (hB : YearCap ts B) (args : List Val) (hargs : ∀ a ∈ args, a.Ok ∧ a.YearLe B) (v : Val)
    (h : applyId .ruleDDMM ts args = .ok (some v)) : v.YearLe B := by
    rcases args with _ | ⟨a, _ | ⟨b, rest⟩⟩ <;> (try cases a) <;>
      first | (exact ruleDDMM_year B _ v h) | (exact nomatch h)

theorem applyId_year_ruleMMDD (ts : Ts) (hts : TsOk ts) (B : Int) (hB : YearCap ts B) (args : List Val) (hargs : ∀ a ∈ args, a.Ok ∧ a.YearLe B) (v : Val)
    (h : applyId .ruleMMDD ts args = .ok (some v)) : v.YearLe B := by
    rcases args with _ | ⟨a, _ | ⟨b, rest⟩⟩ <;> (try cases a) <;>
      first | (exact ruleDDMM_year B _ v h) | (exact nomatch h)

theorem applyId_year_ruleDDMMYYYY (ts : Ts) (hts : TsOk ts) (B : Int) (hB : YearCap ts B) (args : List Val) (hargs : ∀ a ∈ args, a.Ok ∧ a.YearLe B) (v : Val)
    (h : applyId .ruleDDMMYYYY ts args = .ok (some v)) : v.YearLe B := by
    rcases args with _ | ⟨a, _ | ⟨b, rest⟩⟩ <;> (try cases a) <;>
      first | (exact ruleDDMMYYYY_year B hB.tok _ (mem1 hargs).1 v h) | (exact nomatch h)

theorem applyId_year_ruleHHMMmilitary (ts : Ts) (hts : TsOk ts) (B : Int) (hB : YearCap ts B) (args : List Val) (hargs : ∀ a ∈ args, a.Ok ∧ a.YearLe B) (v : Val)
    (h : applyId .ruleHHMMmilitary ts args = .ok (some v)) : v.YearLe B := by
    rcases args with _ | ⟨a, _ | ⟨b, rest⟩⟩ <;> (try cases a) <;>
      first | (exact ruleHHMMmilitary_year B ts _ v h) | (exact nomatch h)

theorem applyId_year_ruleHHMM (ts : Ts) (hts : TsOk ts) (B : Int) (hB : YearCap ts B) (args : List Val) (hargs : ∀ a ∈ args, a.Ok ∧ a.YearLe B) (v : Val)
    (h : applyId .ruleHHMM ts args = .ok (some v)) : v.YearLe B := by
    rcases args with _ | ⟨a, _ | ⟨b, rest⟩⟩ <;> (try cases a) <;>
      first | (exact ruleHHMM_year B _ v h) | (exact nomatch h)

theorem applyId_year_ruleHHOClock (ts : Ts) (hts : TsOk ts) (B : Int) (hB : YearCap ts B) (args : List Val) (hargs : ∀ a ∈ args, a.Ok ∧ a.YearLe B) (v : Val)
    (h : applyId .ruleHHOClock ts args = .ok (some v)) : v.YearLe B := by
    rcases args with _ | ⟨a, _ | ⟨b, rest⟩⟩ <;> (try cases a) <;>
      first | (exact ruleHHOClock_year B _ v h) | (exact nomatch h)

theorem applyId_year_ruleQuarterBeforeHH (ts : Ts) (hts : TsOk ts) (B : Int) (hB : YearCap ts B) (args : List Val) (hargs : ∀ a ∈ args, a.Ok ∧ a.YearLe B) (v : Val)
    (h : applyId .ruleQuarterBeforeHH ts args = .ok (some v)) : v.YearLe B := by
    rcases args with _ | ⟨a, _ | ⟨b, _ | ⟨c, rest⟩⟩⟩ <;> (try cases a) <;> (try cases b) <;>
      first | (exact ruleQuarterBeforeHH_year B _ v h) | (exact nomatch h)

theorem applyId_year_ruleQuarterAfterHH (ts : Ts) (hts : TsOk ts) (B : Int) (hB : YearCap ts B) (args : List Val) (hargs : ∀ a ∈ args, a.Ok ∧ a.YearLe B) (v : Val)
    (h : applyId .ruleQuarterAfterHH ts args = .ok (some v)) : v.YearLe B := by
    rcases args with _ | ⟨a, _ | ⟨b, _ | ⟨c, rest⟩⟩⟩ <;> (try cases a) <;> (try cases b) <;>
      first | (exact ruleQuarterAfterHH_year B _ v h) | (exact nomatch h)

theorem applyId_year_ruleHalfBeforeHH (ts : Ts) (hts : TsOk ts) (B : Int) (hB : YearCap ts B) (args : List Val) (hargs : ∀ a ∈ args, a.Ok ∧ a.YearLe B) (v : Val)
    (h : applyId .ruleHalfBeforeHH ts args = .ok (some v)) : v.YearLe B := by
    rcases args with _ | ⟨a, _ | ⟨b, _ | ⟨c, rest⟩⟩⟩ <;> (try cases a) <;> (try cases b) <;>
      first | (exact ruleHalfBeforeHH_year B _ v h) | (exact nomatch h)

theorem applyId_year_ruleHalfAfterHH (ts : Ts) (hts : TsOk ts) (B : Int) (hB : YearCap ts B) (args : List Val) (hargs : ∀ a ∈ args, a.Ok ∧ a.YearLe B) (v : Val)
    (h : applyId .ruleHalfAfterHH ts args = .ok (some v)) : v.YearLe B := by
    rcases args with _ | ⟨a, _ | ⟨b, _ | ⟨c, rest⟩⟩⟩ <;> (try cases a) <;> (try cases b) <;>
      first | (exact ruleHalfAfterHH_year B _ v h) | (exact nomatch h)

theorem applyId_year_ruleTODPOD (ts : Ts) (hts : TsOk ts) (B : Int) (hB : YearCap ts B) (args : List Val) (hargs : ∀ a ∈ args, a.Ok ∧ a.YearLe B) (v : Val)
    (h : applyId .ruleTODPOD ts args = .ok (some v)) : v.YearLe B := by
    rcases args with _ | ⟨a, _ | ⟨b, _ | ⟨c, rest⟩⟩⟩ <;> (try cases a) <;> (try cases b) <;>
      first | (exact ruleTODPOD_year B _ _ v h) | (exact nomatch h)

theorem applyId_year_rulePODTOD (ts : Ts) (hts : TsOk ts) (B : Int) (hB : YearCap ts B) (args : List Val) (hargs : ∀ a ∈ args, a.Ok ∧ a.YearLe B) (v : Val)
    (h : applyId .rulePODTOD ts args = .ok (some v)) : v.YearLe B := by
    rcases args with _ | ⟨a, _ | ⟨b, _ | ⟨c, rest⟩⟩⟩ <;> (try cases a) <;> (try cases b) <;>
      first | (exact ruleTODPOD_year B _ _ v h) | (exact nomatch h)

theorem applyId_year_ruleDateTOD (ts : Ts) (hts : TsOk ts) (B : Int) (hB : YearCap ts B) (args : List Val) (hargs : ∀ a ∈ args, a.Ok ∧ a.YearLe B) (v : Val)
    (h : applyId .ruleDateTOD ts args = .ok (some v)) : v.YearLe B := by
    rcases args with _ | ⟨a, _ | ⟨b, _ | ⟨c, rest⟩⟩⟩ <;> (try cases a) <;> (try cases b) <;>
      first | (exact ruleDateTOD_year B _ _ (mem1 hargs).2 v h) | (exact nomatch h)

theorem applyId_year_ruleTODDate (ts : Ts) (hts : TsOk ts) (B : Int) (hB : YearCap ts B) (args : List Val) (hargs : ∀ a ∈ args, a.Ok ∧ a.YearLe B) (v : Val)
    (h : applyId .ruleTODDate ts args = .ok (some v)) : v.YearLe B := by
    rcases args with _ | ⟨a, _ | ⟨b, _ | ⟨c, rest⟩⟩⟩ <;> (try cases a) <;> (try cases b) <;>
      first | (exact ruleDateTOD_year B _ _ (mem2 hargs).2 v h) | (exact nomatch h)

theorem applyId_year_ruleDatePOD (ts : Ts) (hts : TsOk ts) (B : Int) (hB : YearCap ts B) (args : List Val) (hargs : ∀ a ∈ args, a.Ok ∧ a.YearLe B) (v : Val)
    (h : applyId .ruleDatePOD ts args = .ok (some v)) : v.YearLe B := by
    rcases args with _ | ⟨a, _ | ⟨b, _ | ⟨c, rest⟩⟩⟩ <;> (try cases a) <;> (try cases b) <;>
      first | (exact ruleDatePOD_year B _ _ (mem1 hargs).2 v h) | (exact nomatch h)

theorem applyId_year_rulePODDate (ts : Ts) (hts : TsOk ts) (B : Int) (hB : YearCap ts B) (args : List Val) (hargs : ∀ a ∈ args, a.Ok ∧ a.YearLe B) (v : Val)
    (h : applyId .rulePODDate ts args = .ok (some v)) : v.YearLe B := by
    rcases args with _ | ⟨a, _ | ⟨b, _ | ⟨c, rest⟩⟩⟩ <;> (try cases a) <;> (try cases b) <;>
      first | (exact ruleDatePOD_year B _ _ (mem2 hargs).2 v h) | (exact nomatch h)

theorem applyId_year_ruleBeforeTime (ts : Ts) (hts : TsOk ts) (B : Int) (hB : YearCap ts B) (args : List Val) (hargs : ∀ a ∈ args, a.Ok ∧ a.YearLe B) (v : Val)
    (h : applyId .ruleBeforeTime ts args = .ok (some v)) : v.YearLe B := by
    rcases args with _ | ⟨a, _ | ⟨b, _ | ⟨c, rest⟩⟩⟩ <;> (try cases a) <;> (try cases b) <;>
      first | (exact ruleBeforeTime_year B _ _ v h) | (exact nomatch h)

theorem applyId_year_ruleAfterTime (ts : Ts) (hts : TsOk ts) (B : Int) (hB : YearCap ts B) (args : List Val) (hargs : ∀ a ∈ args, a.Ok ∧ a.YearLe B) (v : Val)
    (h : applyId .ruleAfterTime ts args = .ok (some v)) : v.YearLe B := by
    rcases args with _ | ⟨a, _ | ⟨b, _ | ⟨c, rest⟩⟩⟩ <;> (try cases a) <;> (try cases b) <;>
      first | (exact ruleAfterTime_year B _ _ v h) | (exact nomatch h)

theorem applyId_year_ruleDateDate (ts : Ts) (hts : TsOk ts) (B : Int) (hB : YearCap ts B) (args : List Val) (hargs : ∀ a ∈ args, a.Ok ∧ a.YearLe B) (v : Val)
    (h : applyId .ruleDateDate ts args = .ok (some v)) : v.YearLe B := by
    rcases args with _ | ⟨a, _ | ⟨b, _ | ⟨c, _ | ⟨d, rest⟩⟩⟩⟩ <;> (try cases a) <;> (try cases b) <;> (try cases c) <;>
      first | (exact ruleDateDate_year B _ _ v h) | (exact nomatch h)

theorem applyId_year_ruleDOMDate (ts : Ts) (hts : TsOk ts) (B : Int) (hB : YearCap ts B) (args : List Val) (hargs : ∀ a ∈ args, a.Ok ∧ a.YearLe B) (v : Val)
    (h : applyId .ruleDOMDate ts args = .ok (some v)) : v.YearLe B := by
    rcases args with _ | ⟨a, _ | ⟨b, _ | ⟨c, _ | ⟨d, rest⟩⟩⟩⟩ <;> (try cases a) <;> (try cases b) <;> (try cases c) <;>
      first | (exact ruleDOMDate_year B _ _ v h) | (exact nomatch h)

theorem applyId_year_ruleDateDOM (ts : Ts) (hts : TsOk ts) (B : Int) (hB : YearCap ts B) (args : List Val) (hargs : ∀ a ∈ args, a.Ok ∧ a.YearLe B) (v : Val)
    (h : applyId .ruleDateDOM ts args = .ok (some v)) : v.YearLe B := by
    rcases args with _ | ⟨a, _ | ⟨b, _ | ⟨c, _ | ⟨d, rest⟩⟩⟩⟩ <;> (try cases a) <;> (try cases b) <;> (try cases c) <;>
      first | (exact ruleDateDOM_year B _ _ v h) | (exact nomatch h)

theorem applyId_year_ruleDOYDate (ts : Ts) (hts : TsOk ts) (B : Int) (hB : YearCap ts B) (args : List Val) (hargs : ∀ a ∈ args, a.Ok ∧ a.YearLe B) (v : Val)
    (h : applyId .ruleDOYDate ts args = .ok (some v)) : v.YearLe B := by
    rcases args with _ | ⟨a, _ | ⟨b, _ | ⟨c, _ | ⟨d, rest⟩⟩⟩⟩ <;> (try cases a) <;> (try cases b) <;> (try cases c) <;>
      first | (exact ruleDOYDate_year B _ _ v h) | (exact nomatch h)

theorem applyId_year_ruleDateTimeDateTime (ts : Ts) (hts : TsOk ts) (B : Int) (hB : YearCap ts B) (args : List Val) (hargs : ∀ a ∈ args, a.Ok ∧ a.YearLe B) (v : Val)
    (h : applyId .ruleDateTimeDateTime ts args = .ok (some v)) : v.YearLe B := by
    rcases args with _ | ⟨a, _ | ⟨b, _ | ⟨c, _ | ⟨d, rest⟩⟩⟩⟩ <;> (try cases a) <;> (try cases b) <;> (try cases c) <;>
      first | (exact ruleDateTimeDateTime_year B _ _ v h) | (exact nomatch h)

theorem applyId_year_ruleTODTOD (ts : Ts) (hts : TsOk ts) (B : Int) (hB : YearCap ts B) (args : List Val) (hargs : ∀ a ∈ args, a.Ok ∧ a.YearLe B) (v : Val)
    (h : applyId .ruleTODTOD ts args = .ok (some v)) : v.YearLe B := by
    rcases args with _ | ⟨a, _ | ⟨b, _ | ⟨c, _ | ⟨d, rest⟩⟩⟩⟩ <;> (try cases a) <;> (try cases b) <;> (try cases c) <;>
      first | (exact ruleTODTOD_year B _ _ v h) | (exact nomatch h)

theorem applyId_year_rulePODPOD (ts : Ts) (hts : TsOk ts) (B : Int) (hB : YearCap ts B) (args : List Val) (hargs : ∀ a ∈ args, a.Ok ∧ a.YearLe B) (v : Val)
    (h : applyId .rulePODPOD ts args = .ok (some v)) : v.YearLe B := by
    rcases args with _ | ⟨a, _ | ⟨b, _ | ⟨c, _ | ⟨d, rest⟩⟩⟩⟩ <;> (try cases a) <;> (try cases b) <;> (try cases c) <;>
      first | (exact rulePODPOD_year B _ _ v h) | (exact nomatch h)

theorem applyId_year_ruleDateInterval (ts : Ts) (hts : TsOk ts) (B : Int) (hB : YearCap ts B) (args : List Val) (hargs : ∀ a ∈ args, a.Ok ∧ a.YearLe B) (v : Val)
    (h : applyId .ruleDateInterval ts args = .ok (some v)) : v.YearLe B := by
    rcases args with _ | ⟨a, _ | ⟨b, _ | ⟨c, rest⟩⟩⟩ <;> (try cases a) <;> (try cases b) <;>
      first | (exact ruleDateInterval_year B _ _ _ v h) | (exact nomatch h)

theorem applyId_year_rulePODInterval (ts : Ts) (hts : TsOk ts) (B : Int) (hB : YearCap ts B) (args : List Val) (hargs : ∀ a ∈ args, a.Ok ∧ a.YearLe B) (v : Val)
    (h : applyId .rulePODInterval ts args = .ok (some v)) : v.YearLe B := by
    rcases args with _ | ⟨a, _ | ⟨b, _ | ⟨c, rest⟩⟩⟩ <;> (try cases a) <;> (try cases b) <;>
      first | (exact rulePODInterval_year B _ _ _ v h) | (exact nomatch h)

theorem applyId_year_ruleDigitDuration (ts : Ts) (hts : TsOk ts) (B : Int) (hB : YearCap ts B) (args : List Val) (hargs : ∀ a ∈ args, a.Ok ∧ a.YearLe B) (v : Val)
    (h : applyId .ruleDigitDuration ts args = .ok (some v)) : v.YearLe B := by
    rcases args with _ | ⟨a, _ | ⟨b, rest⟩⟩ <;> (try cases a) <;>
      first | (exact ruleDigitDuration_year B _ v h) | (exact nomatch h)

theorem applyId_year_ruleNamedNumberDuration (ts : Ts) (hts : TsOk ts) (B : Int) (hB : YearCap ts B) (args : List Val) (hargs : ∀ a ∈ args, a.Ok ∧ a.YearLe B) (v : Val)
    (h : applyId .ruleNamedNumberDuration ts args = .ok (some v)) : v.YearLe B := by
    rcases args with _ | ⟨a, _ | ⟨b, rest⟩⟩ <;> (try cases a) <;>
      first | (exact ruleNamedNumberDuration_year B _ v h) | (exact nomatch h)

theorem applyId_year_ruleDurationHalf (ts : Ts) (hts : TsOk ts) (B : Int) (hB : YearCap ts B) (args : List Val) (hargs : ∀ a ∈ args, a.Ok ∧ a.YearLe B) (v : Val)
    (h : applyId .ruleDurationHalf ts args = .ok (some v)) : v.YearLe B := by
    rcases args with _ | ⟨a, _ | ⟨b, rest⟩⟩ <;> (try cases a) <;>
      first | (exact ruleDurationHalf_year B _ v h) | (exact nomatch h)

theorem applyId_year_ruleIntervalConjDuration (ts : Ts) (hts : TsOk ts) (B : Int) (hB : YearCap ts B) (args : List Val) (hargs : ∀ a ∈ args, a.Ok ∧ a.YearLe B) (v : Val)
    (h : applyId .ruleIntervalConjDuration ts args = .ok (some v)) : v.YearLe B := by
    rcases args with _ | ⟨a, _ | ⟨b, _ | ⟨c, _ | ⟨d, rest⟩⟩⟩⟩ <;> (try cases a) <;> (try cases b) <;> (try cases c) <;>
      first | (exact ruleDurationInterval_year B _ _ _ _ v h) | (exact nomatch h)

theorem applyId_year_ruleIntervalDuration (ts : Ts) (hts : TsOk ts) (B : Int) (hB : YearCap ts B) (args : List Val) (hargs : ∀ a ∈ args, a.Ok ∧ a.YearLe B) (v : Val)
    (h : applyId .ruleIntervalDuration ts args = .ok (some v)) : v.YearLe B := by
    rcases args with _ | ⟨a, _ | ⟨b, _ | ⟨c, rest⟩⟩⟩ <;> (try cases a) <;> (try cases b) <;>
      first | (exact ruleDurationInterval_year B _ _ _ _ v h) | (exact nomatch h)

theorem applyId_year_ruleDurationInterval (ts : Ts) (hts : TsOk ts) (B : Int) (hB : YearCap ts B) (args : List Val) (hargs : ∀ a ∈ args, a.Ok ∧ a.YearLe B) (v : Val)
    (h : applyId .ruleDurationInterval ts args = .ok (some v)) : v.YearLe B := by
    rcases args with _ | ⟨a, _ | ⟨b, _ | ⟨c, rest⟩⟩⟩ <;> (try cases a) <;> (try cases b) <;>
      first | (exact ruleDurationInterval_year B _ _ _ _ v h) | (exact nomatch h)

theorem applyId_year_ruleTimeDuration (ts : Ts) (hts : TsOk ts) (B : Int) (hB : YearCap ts B) (args : List Val) (hargs : ∀ a ∈ args, a.Ok ∧ a.YearLe B) (v : Val)
    (h : applyId .ruleTimeDuration ts args = .ok (some v)) : v.YearLe B := by
    rcases args with _ | ⟨a, _ | ⟨b, _ | ⟨c, _ | ⟨d, rest⟩⟩⟩⟩ <;> (try cases a) <;> (try cases b) <;> (try cases c) <;>
      first | (exact ruleTimeDuration_year B _ _ _ v h) | (exact nomatch h)

/-- **every production of the rule base keeps the year bound**: for every rule, every reference time of the years 2 … 9500 and every
    bound `B ≥ 2999`, `B ≥ ts.year + 401`: if no argument (a time value) carries a year above `B`, a successful result does not either -/
theorem rules_preserve_year (r : RuleId) (ts : Ts) (hts : TsOk ts) (B : Int) (hB : YearCap ts B) (args : List Val) (hargs : ∀ a ∈ args, a.Ok ∧ a.YearLe B) (v : Val)
    (h : applyId r ts args = .ok (some v)) : v.YearLe B := by
  cases r
  case ruleAbsorbOnTime => exact applyId_year_ruleAbsorbOnTime ts hts B hB args hargs v h
  case ruleAbsorbFromInterval => exact applyId_year_ruleAbsorbFromInterval ts hts B hB args hargs v h
  case ruleNamedDOW => exact applyId_year_ruleNamedDOW ts hts B hB args hargs v h
  case ruleNamedMonth => exact applyId_year_ruleNamedMonth ts hts B hB args hargs v h
  case ruleNamedHour => exact applyId_year_ruleNamedHour ts hts B hB args hargs v h
  case ruleMidnight => exact applyId_year_ruleMidnight ts hts B hB args hargs v h
  case ruleEarlyLatePOD => exact applyId_year_ruleEarlyLatePOD ts hts B hB args hargs v h
  case rulePOD => exact applyId_year_rulePOD ts hts B hB args hargs v h
  case ruleDOM1 => exact applyId_year_ruleDOM1 ts hts B hB args hargs v h
  case ruleMonthOrdinal => exact applyId_year_ruleMonthOrdinal ts hts B hB args hargs v h
  case ruleDOM2 => exact applyId_year_ruleDOM2 ts hts B hB args hargs v h
  case ruleYear => exact applyId_year_ruleYear ts hts B hB args hargs v h
  case ruleToday => exact applyId_year_ruleToday ts hts B hB args hargs v h
  case ruleNow => exact applyId_year_ruleNow ts hts B hB args hargs v h
  case ruleTomorrow => exact applyId_year_ruleTomorrow ts hts B hB args hargs v h
  case ruleAfterTomorrow => exact applyId_year_ruleAfterTomorrow ts hts B hB args hargs v h
  case ruleYesterday => exact applyId_year_ruleYesterday ts hts B hB args hargs v h
  case ruleBeforeYesterday => exact applyId_year_ruleBeforeYesterday ts hts B hB args hargs v h
  case ruleEOM => exact applyId_year_ruleEOM ts hts B hB args hargs v h
  case ruleEOY => exact applyId_year_ruleEOY ts hts B hB args hargs v h
  case ruleDOMMonth => exact applyId_year_ruleDOMMonth ts hts B hB args hargs v h
  case ruleDOMMonth2 => exact applyId_year_ruleDOMMonth2 ts hts B hB args hargs v h
  case ruleMonthDOM => exact applyId_year_ruleMonthDOM ts hts B hB args hargs v h
  case ruleAtDOW => exact applyId_year_ruleAtDOW ts hts B hB args hargs v h
  case ruleNextDOW => exact applyId_year_ruleNextDOW ts hts B hB args hargs v h
  case ruleDOWNextWeek => exact applyId_year_ruleDOWNextWeek ts hts B hB args hargs v h
  case ruleDOYYear => exact applyId_year_ruleDOYYear ts hts B hB args hargs v h
  case ruleDOWPOD => exact applyId_year_ruleDOWPOD ts hts B hB args hargs v h
  case ruleDOWDOM => exact applyId_year_ruleDOWDOM ts hts B hB args hargs v h
  case ruleDOWDate => exact applyId_year_ruleDOWDate ts hts B hB args hargs v h
  case ruleDateDOW => exact applyId_year_ruleDateDOW ts hts B hB args hargs v h
  case ruleLatentDOM => exact applyId_year_ruleLatentDOM ts hts B hB args hargs v h
  case ruleLatentDOW => exact applyId_year_ruleLatentDOW ts hts B hB args hargs v h
  case ruleLatentDOY => exact applyId_year_ruleLatentDOY ts hts B hB args hargs v h
  case ruleLatentPOD => exact applyId_year_ruleLatentPOD ts hts B hB args hargs v h
  case ruleDDMM => exact applyId_year_ruleDDMM ts hts B hB args hargs v h
  case ruleMMDD => exact applyId_year_ruleMMDD ts hts B hB args hargs v h
  case ruleDDMMYYYY => exact applyId_year_ruleDDMMYYYY ts hts B hB args hargs v h
  case ruleHHMMmilitary => exact applyId_year_ruleHHMMmilitary ts hts B hB args hargs v h
  case ruleHHMM => exact applyId_year_ruleHHMM ts hts B hB args hargs v h
  case ruleHHOClock => exact applyId_year_ruleHHOClock ts hts B hB args hargs v h
  case ruleQuarterBeforeHH => exact applyId_year_ruleQuarterBeforeHH ts hts B hB args hargs v h
  case ruleQuarterAfterHH => exact applyId_year_ruleQuarterAfterHH ts hts B hB args hargs v h
  case ruleHalfBeforeHH => exact applyId_year_ruleHalfBeforeHH ts hts B hB args hargs v h
  case ruleHalfAfterHH => exact applyId_year_ruleHalfAfterHH ts hts B hB args hargs v h
  case ruleTODPOD => exact applyId_year_ruleTODPOD ts hts B hB args hargs v h
  case rulePODTOD => exact applyId_year_rulePODTOD ts hts B hB args hargs v h
  case ruleDateTOD => exact applyId_year_ruleDateTOD ts hts B hB args hargs v h
  case ruleTODDate => exact applyId_year_ruleTODDate ts hts B hB args hargs v h
  case ruleDatePOD => exact applyId_year_ruleDatePOD ts hts B hB args hargs v h
  case rulePODDate => exact applyId_year_rulePODDate ts hts B hB args hargs v h
  case ruleBeforeTime => exact applyId_year_ruleBeforeTime ts hts B hB args hargs v h
  case ruleAfterTime => exact applyId_year_ruleAfterTime ts hts B hB args hargs v h
  case ruleDateDate => exact applyId_year_ruleDateDate ts hts B hB args hargs v h
  case ruleDOMDate => exact applyId_year_ruleDOMDate ts hts B hB args hargs v h
  case ruleDateDOM => exact applyId_year_ruleDateDOM ts hts B hB args hargs v h
  case ruleDOYDate => exact applyId_year_ruleDOYDate ts hts B hB args hargs v h
  case ruleDateTimeDateTime => exact applyId_year_ruleDateTimeDateTime ts hts B hB args hargs v h
  case ruleTODTOD => exact applyId_year_ruleTODTOD ts hts B hB args hargs v h
  case rulePODPOD => exact applyId_year_rulePODPOD ts hts B hB args hargs v h
  case ruleDateInterval => exact applyId_year_ruleDateInterval ts hts B hB args hargs v h
  case rulePODInterval => exact applyId_year_rulePODInterval ts hts B hB args hargs v h
  case ruleDigitDuration => exact applyId_year_ruleDigitDuration ts hts B hB args hargs v h
  case ruleNamedNumberDuration => exact applyId_year_ruleNamedNumberDuration ts hts B hB args hargs v h
  case ruleDurationHalf => exact applyId_year_ruleDurationHalf ts hts B hB args hargs v h
  case ruleIntervalConjDuration => exact applyId_year_ruleIntervalConjDuration ts hts B hB args hargs v h
  case ruleIntervalDuration => exact applyId_year_ruleIntervalDuration ts hts B hB args hargs v h
  case ruleDurationInterval => exact applyId_year_ruleDurationInterval ts hts B hB args hargs v h
  case ruleTimeDuration => exact applyId_year_ruleTimeDuration ts hts B hB args hargs v h

end QuickAdd
