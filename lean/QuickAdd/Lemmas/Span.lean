import QuickAdd.Lemmas.RegexLang
import QuickAdd.Lemmas.RegexGroups
import QuickAdd.Model.Search
import QuickAdd.Gen.RegexTable
/-!
# Spans: every token of the match list has `0 ≤ mstart < mend ≤ len`

`allSp r`: may the pattern match a text of blanks only (over-approximation, decided structurally).  `allSp_sound`: if it
answers no, every word of the language contains a non-blank code point.  `table_no_blank_match`: no shipped pattern can
(kernel evaluation over the regenerated table) — hence the right-trimmed span of every token is non-empty
(`tokOfMatch_span`).
-/
namespace QuickAdd
open Gen

def ciMaySpace : CI → Bool
  | .rng lo hi => Gen.pySpace.any fun r => decide (lo ≤ r.2) && decide (r.1 ≤ hi)
  | .digit => false
  | .space => true

/-- may the pattern match a text consisting of blanks only (incl. the empty text)? (over-approximation) -/
def allSp : Rx → Bool
  | .eps => true
  | .lit alts => alts.any isPySpace
  | .cls neg items => neg || items.any ciMaySpace
  | .seq a b => allSp a && allSp b
  | .alt a b => allSp a || allSp b
  | .opt _ => true | .star _ => true
  | .plus a => allSp a
  | .grp _ a => allSp a
  | .nla _ => true | .nlb _ => true | .wordb => true

def rangesDisjoint (A B : Ranges) : Bool := A.all fun a => B.all fun b => decide (a.2 < b.1) || decide (b.2 < a.1)

theorem rangesDisjoint_sound (A B : Ranges) (h : rangesDisjoint A B = true) (x : Nat) (ha : inRanges A x = true) (hb : inRanges B x = true) : False := by
  unfold inRanges at ha hb
  simp only [List.any_eq_true, Bool.and_eq_true, decide_eq_true_eq] at ha hb
  obtain ⟨a, hma, ha1, ha2⟩ := ha
  obtain ⟨b, hmb, hb1, hb2⟩ := hb
  have := List.all_eq_true.mp (List.all_eq_true.mp h a hma) b hmb
  simp only [Bool.or_eq_true, decide_eq_true_eq] at this
  omega

theorem digits_not_space : rangesDisjoint rxTabs.digit Gen.pySpace = true := by decide +kernel

theorem ciMaySpace_sound (x : Nat) (hx : isPySpace x = true) (c : CI) (hm : ciMatch rxTabs x c = true) : ciMaySpace c = true := by
  cases c with
  | rng lo hi =>
    simp only [ciMatch, Bool.and_eq_true, decide_eq_true_eq] at hm
    unfold isPySpace inRanges at hx
    simp only [List.any_eq_true, Bool.and_eq_true, decide_eq_true_eq] at hx
    obtain ⟨r, hr, h1, h2⟩ := hx
    simp only [ciMaySpace, List.any_eq_true, Bool.and_eq_true, decide_eq_true_eq]
    exact ⟨r, hr, by omega, by omega⟩
  | digit =>
    exfalso
    exact rangesDisjoint_sound _ _ digits_not_space x hm hx
  | space => rfl

/-- a word of blanks only can only be in the language of a pattern that `allSp` flags -/
theorem allSp_sound (r : Rx) (s : List Nat) (h : Matches rxTabs r s) : (∀ c ∈ s, isPySpace c = true) → allSp r = true := by
  induction h with
  | eps => intro _; rfl
  | @lit alts x hx =>
    intro hs
    simp only [allSp, List.any_eq_true]
    exact ⟨x, by simpa using hx, hs x (by simp)⟩
  | @cls neg items x hx =>
    intro hs
    have hsp := hs x (by simp)
    unfold clsMatch at hx
    cases neg with
    | true => simp [allSp]
    | false =>
      simp only [allSp, Bool.false_or, List.any_eq_true]
      simp only [bne_iff_ne, ne_eq, Bool.not_eq_false, List.any_eq_true] at hx
      obtain ⟨c, hc, hm⟩ := hx
      exact ⟨c, hc, ciMaySpace_sound x hsp c hm⟩
  | seq _ _ iha ihb =>
    intro hs
    simp only [allSp, Bool.and_eq_true]
    exact ⟨iha (fun c hc => hs c (List.mem_append_left _ hc)), ihb (fun c hc => hs c (List.mem_append_right _ hc))⟩
  | altL _ ih => intro hs; simp only [allSp, Bool.or_eq_true]; exact Or.inl (ih hs)
  | altR _ ih => intro hs; simp only [allSp, Bool.or_eq_true]; exact Or.inr (ih hs)
  | optNone => intro _; rfl
  | optSome _ _ => intro _; rfl
  | starNil => intro _; rfl
  | starCons _ _ _ _ => intro _; rfl
  | plus _ _ iha _ => intro hs; simp only [allSp]; exact iha (fun c hc => hs c (List.mem_append_left _ hc))
  | grp _ ih => intro hs; simp only [allSp]; exact ih hs
  | nla => intro _; rfl
  | nlb => intro _; rfl
  | wordb => intro _; rfl

/-- kernel evaluation over the regenerated table: no shipped pattern can match blanks only -/
theorem table_no_blank_match : (table.all fun p => !allSp p.rx) = true := by decide +kernel

/-! ### what a match of `findAll` is -/
theorem matchAt_matches (T : Tabs) (txt : List Nat) (r : Rx) (pos : Nat) (hpos : pos ≤ txt.length) (prev : Option Nat) (e : Nat) (cs : Caps)
    (h : matchAt T r { prev := prev, rest := txt.drop pos, pos := pos } = some (e, cs)) :
    ∃ s, Matches T r s ∧ e = pos + s.length ∧ e ≤ txt.length ∧ (txt.drop pos).take (e - pos) = s := by
  unfold matchAt at h
  obtain ⟨st', cs', s, hm, hrest, hp, hat, _, k'⟩ := mtc_sound T txt r _ r _ [] _ (e, cs) (fun _ _ g => g) ⟨rfl, hpos⟩ (by intro c hc; simp at hc) h
  simp at k'
  simp only at hrest hp
  refine ⟨s, hm, by omega, by have := hat.2; omega, ?_⟩
  rw [hrest]
  have : e - pos = s.length := by omega
  rw [this]; simp

theorem findAllFrom_matches (T : Tabs) (txt : List Nat) (r : Rx) : ∀ (rest : List Nat) (prev : Option Nat) (pos : Nat),
    rest = txt.drop pos → pos ≤ txt.length → ∀ m ∈ findAllFrom T r prev rest pos,
      ∃ s, Matches T r s ∧ m.2.1 = m.1 + s.length ∧ m.2.1 ≤ txt.length ∧ (txt.drop m.1).take (m.2.1 - m.1) = s := by
  intro rest
  induction rest with
  | nil =>
    intro prev pos hr hp m hm
    simp only [findAllFrom] at hm
    split at hm
    · rename_i e cs he
      simp at hm; subst hm
      rw [hr] at he
      exact matchAt_matches T txt r pos hp prev e cs he
    · simp at hm
  | cons x xs ih =>
    intro prev pos hr hp m hm
    simp only [findAllFrom, List.mem_append] at hm
    rcases hm with hm | hm
    · split at hm
      · rename_i e cs he
        simp at hm; subst hm
        rw [hr] at he
        exact matchAt_matches T txt r pos hp prev e cs he
      · simp at hm
    · have hlen : pos < txt.length := by
        have : (txt.drop pos).length = txt.length - pos := List.length_drop
        rw [← hr] at this; simp at this; omega
      apply ih (some x) (pos + 1) ?_ (by omega) m hm
      have : txt.drop (pos + 1) = (txt.drop pos).drop 1 := by rw [List.drop_drop]
      rw [this, ← hr]; rfl

theorem findAll_matches (T : Tabs) (r : Rx) (txt : List Nat) (m : Nat × Nat × Caps) (hm : m ∈ findAll T r txt) :
    ∃ s, Matches T r s ∧ m.2.1 = m.1 + s.length ∧ m.2.1 ≤ txt.length ∧ (txt.drop m.1).take (m.2.1 - m.1) = s :=
  findAllFrom_matches T txt r txt none 0 (by simp) (by omega) m hm

/-! ### right trimming -/
theorem dropWhile_length_le {α} (f : α → Bool) : ∀ l : List α, (l.dropWhile f).length ≤ l.length
  | [] => by simp
  | a :: as => by
    simp only [List.dropWhile]
    split
    · have := dropWhile_length_le f as; simp; omega
    · simp

theorem dropWhile_nil_all {α} (f : α → Bool) : ∀ l : List α, l.dropWhile f = [] → ∀ x ∈ l, f x = true
  | [], _ => by intro x hx; simp at hx
  | a :: as, h => by
    simp only [List.dropWhile] at h
    split at h
    · rename_i ha
      intro x hx
      rcases List.mem_cons.mp hx with rfl | hx
      · exact ha
      · exact dropWhile_nil_all f as h x hx
    · simp at h

theorem rstripLen_le (s : List Nat) : rstripLen s ≤ s.length := by
  unfold rstripLen
  have := dropWhile_length_le isPySpace s.reverse
  simpa using this

theorem rstripLen_pos (s : List Nat) (c : Nat) (hc : c ∈ s) (hn : isPySpace c = false) : 0 < rstripLen s := by
  unfold rstripLen
  cases hd : s.reverse.dropWhile isPySpace with
  | nil =>
    exfalso
    have := dropWhile_nil_all isPySpace _ hd c (List.mem_reverse.mpr hc)
    rw [hn] at this; cases this
  | cons _ _ => simp

/-- **span of a token**: start before end, end inside the text -/
theorem tokOfMatch_span (p : Pat) (hp : p ∈ table) (txt : List Nat) (m : Nat × Nat × Caps) (hm : m ∈ findAll rxTabs p.rx txt) :
    (tokOfMatch p txt m).ms = m.1 ∧ (tokOfMatch p txt m).ms < (tokOfMatch p txt m).me ∧ (tokOfMatch p txt m).me ≤ txt.length := by
  obtain ⟨s, hmat, hlen, hle, hslice⟩ := findAll_matches rxTabs p.rx txt m hm
  obtain ⟨st, e, cs⟩ := m
  simp only at hlen hle hslice
  have hnb : allSp p.rx = false := by
    have := List.all_eq_true.mp table_no_blank_match p hp
    simpa using this
  have hex : ∃ c ∈ s, isPySpace c = false := by
    by_cases hall : ∀ c ∈ s, isPySpace c = true
    · have := allSp_sound p.rx s hmat hall; rw [hnb] at this; cases this
    · apply Classical.byContradiction
      intro hno
      apply hall
      intro c hc
      cases hsp : isPySpace c with
      | true => rfl
      | false => exact absurd ⟨c, hc, hsp⟩ hno
  obtain ⟨c, hc, hcn⟩ := hex
  have hpos := rstripLen_pos s c hc hcn
  have hle2 := rstripLen_le s
  simp only [tokOfMatch, slice, hslice]
  refine ⟨trivial, by omega, by omega⟩

end QuickAdd

namespace QuickAdd
open Gen

/-! ### the candidate sequences are ordered, non-overlapping token sequences -/
/-- elements in text order without overlap -/
def Sorted (l : List Art) : Prop := List.Pairwise (fun a b => a.me ≤ b.ms) l
def RevSortedIdx (arr : Array Art) (s : List Nat) : Prop := List.Pairwise (fun x y : Art => y.me ≤ x.ms) (s.filterMap fun i => arr[i]?)

theorem adjacent_le (txt : List Nat) (a b : Art) (h : adjacent txt a b = true) : a.me ≤ b.ms := by
  unfold adjacent at h
  split at h
  · cases h
  · omega

theorem regexStackGo_sorted (txt : List Nat) (arr : Array Art) (hb : ∀ (i : Nat) (a : Art), arr[i]? = some a → a.ms < a.me) :
    ∀ (f : Nat) (stack acc : List (List Nat)) (n : Nat), (∀ s ∈ stack, RevSortedIdx arr s) → (∀ o ∈ acc, RevSortedIdx arr o.reverse) →
      ∀ o ∈ (regexStackGo txt arr f stack acc n).1, RevSortedIdx arr o.reverse := by
  intro f
  induction f with
  | zero => intro stack acc n _ ha o ho; simp [regexStackGo] at ho; exact ha o ho
  | succ f ih =>
    intro stack acc n hs ha o ho
    cases stack with
    | nil => simp [regexStackGo] at ho; exact ha o ho
    | cons s stack =>
      cases s with
      | nil =>
        simp only [regexStackGo] at ho
        exact ih stack acc (n + 1) (fun s hs' => hs s (List.mem_cons_of_mem _ hs')) ha o ho
      | cons i rest =>
        simp only [regexStackGo] at ho
        have hsi := hs (i :: rest) (by simp)
        split at ho
        · refine ih stack _ (n + 1) (fun s hs' => hs s (List.mem_cons_of_mem _ hs')) ?_ o ho
          intro o' ho'
          rcases List.mem_cons.mp ho' with rfl | ho'
          · simpa using hsi
          · exact ha o' ho'
        · refine ih _ acc (n + 1) ?_ ha o ho
          intro s' hs'
          rcases List.mem_append.mp hs' with hs' | hs'
          · simp only [List.mem_reverse, List.mem_map, List.mem_filter, List.mem_range, Bool.and_eq_true, decide_eq_true_eq] at hs'
            obtain ⟨j, ⟨_, _, hadj⟩, rfl⟩ := hs'
            cases hi : arr[i]? with
            | none => simp [hi] at hadj
            | some a =>
              cases hj : arr[j]? with
              | none => simp [hi, hj] at hadj
              | some b =>
                simp only [hi, hj] at hadj
                have hab := adjacent_le txt a b hadj
                have hlt := hb i a hi
                unfold RevSortedIdx at hsi ⊢
                simp only [List.filterMap_cons, hj, hi] at hsi ⊢
                rw [List.pairwise_cons] at hsi ⊢
                refine ⟨?_, List.pairwise_cons.mpr hsi⟩
                intro y hy
                rcases List.mem_cons.mp hy with rfl | hy
                · exact hab
                · have := hsi.1 y hy; omega
          · exact hs s' (List.mem_cons_of_mem _ hs')

theorem regexStack_sorted (txt : List Nat) (toks : List Art) (hb : ∀ a ∈ toks, a.ms < a.me) (fuel : Nat) :
    ∀ s ∈ (regexStack txt toks fuel).1, Sorted s := by
  intro s hs
  unfold regexStack at hs
  simp only [List.mem_map] at hs
  obtain ⟨p, hp, rfl⟩ := hs
  unfold regexStackIdx at hp
  simp only at hp
  have hb' : ∀ (i : Nat) (a : Art), toks.toArray[i]? = some a → a.ms < a.me := by
    intro i a h
    have : toks[i]? = some a := by simpa using h
    exact hb a (List.mem_of_getElem? this)
  have := regexStackGo_sorted txt toks.toArray hb' fuel _ [] 0 ?_ (by intro o ho; simp at ho) p hp
  · unfold RevSortedIdx at this
    unfold Sorted
    rw [List.filterMap_reverse, List.pairwise_reverse] at this
    simpa using this
  · intro s' hs'
    simp only [List.mem_map] at hs'
    obtain ⟨i, _, rfl⟩ := hs'
    unfold RevSortedIdx
    simp only [List.getElem?_toArray]
    cases h : toks[i]? with
    | none => simp [h]
    | some a => simp [h]

end QuickAdd
