import QuickAdd.Lemmas.FuelIndep
import QuickAdd.Lemmas.Termination
/-!
# The DFS over the match graph finishes: a fuel bound

A path on the DFS stack with head `i` is worth `2^(n - i)` (`n` = number of matches); its successors have heads `j > i`, pairwise
different, so together they are worth at most `2^(n-i) - 2`: the worth of the stack drops in every iteration.
-/
namespace QuickAdd

def pathW (n : Nat) (s : List Nat) : Nat := match s with | [] => 1 | i :: _ => 2 ^ (n - i)

theorem pathW_pos (n : Nat) (s : List Nat) : 1 ≤ pathW n s := by
  unfold pathW; split
  · exact Nat.le_refl _
  · exact Nat.pow_pos (by omega)

def aboveSum (n i : Nat) (p : Nat → Bool) (m : Nat) : Nat :=
  sumBy (fun j => 2 ^ (n - j)) ((List.range m).filter fun j => decide (i < j) && p j)

theorem aboveSum_low (n i : Nat) (p : Nat → Bool) (m : Nat) (h : m ≤ i + 1) : aboveSum n i p m = 0 := by
  unfold aboveSum
  have : (List.range m).filter (fun j => decide (i < j) && p j) = [] := by
    apply List.filter_eq_nil_iff.mpr
    intro j hj; have := List.mem_range.mp hj; simp; intro h'; omega
  rw [this]; rfl

theorem aboveSum_succ (n i : Nat) (p : Nat → Bool) (m : Nat) : aboveSum n i p (m + 1) ≤ aboveSum n i p m + 2 ^ (n - m) := by
  unfold aboveSum
  rw [List.range_succ, List.filter_append, sumBy_append]
  simp only [List.filter_cons, List.filter_nil]
  have hpos : 0 < 2 ^ (n - m) := Nat.pow_pos (by omega)
  split
  · simp only [sumBy]; omega
  · simp only [sumBy]; omega

theorem aboveSum_geo (n i : Nat) (p : Nat → Bool) : ∀ k, i + 1 + k ≤ n + 1 → aboveSum n i p (i + 1 + k) + 2 ^ (n - (i + k)) ≤ 2 ^ (n - i) := by
  intro k
  induction k with
  | zero => intro _; rw [aboveSum_low n i p (i + 1 + 0) (by omega)]; simp
  | succ k ih =>
    intro h
    have h1 := ih (by omega)
    have h2 := aboveSum_succ n i p (i + 1 + k)
    have e : 2 ^ (n - (i + k)) = 2 * 2 ^ (n - (i + (k + 1))) := by
      have : n - (i + k) = (n - (i + (k + 1))) + 1 := by omega
      rw [this, Nat.pow_succ]; omega
    have e2 : i + 1 + (k + 1) = i + 1 + k + 1 := by omega
    have e3 : n - (i + 1 + k) = n - (i + (k + 1)) := by omega
    rw [e2]; rw [e3] at h2
    omega

/-- all successors of a path with head `i` together are worth less than the path -/
theorem aboveSum_lt (n i : Nat) (p : Nat → Bool) : aboveSum n i p n + 1 ≤ 2 ^ (n - i) := by
  by_cases h : n ≤ i + 1
  · rw [aboveSum_low n i p n h]; exact Nat.pow_pos (by omega)
  · have := aboveSum_geo n i p (n - (i + 1)) (by omega)
    have e : i + 1 + (n - (i + 1)) = n := by omega
    rw [e] at this
    have : 1 ≤ 2 ^ (n - (i + (n - (i + 1)))) := Nat.pow_pos (by omega)
    omega

/-- worth of a DFS stack -/
def dfsPot (n : Nat) (stack : List (List Nat)) : Nat := sumBy (pathW n) stack

/-- pushing the successors of a path instead of the path lowers the worth of the stack (for any adjacency predicate `Q`) -/
theorem pushed_worth (c n i : Nat) (r : List Nat) (Q : Nat → Bool) (st : List (List Nat)) :
    c + 1 + dfsPot n ((List.map (fun j => j :: i :: r) (List.filter (fun j => decide (i < j) && Q j) (List.range n))).reverse ++ st)
      ≤ c + dfsPot n ((i :: r) :: st) := by
  have hw : dfsPot n ((List.map (fun j => j :: i :: r) (List.filter (fun j => decide (i < j) && Q j) (List.range n))).reverse ++ st)
      = aboveSum n i Q n + dfsPot n st := by
    unfold dfsPot aboveSum
    rw [sumBy_append, sumBy_reverse]
    congr 1
    generalize (List.filter (fun j => decide (i < j) && Q j) (List.range n)) = l
    induction l with
    | nil => rfl
    | cons x xs ihl => simp only [List.map_cons, sumBy, ihl, pathW]
  have hlt := aboveSum_lt n i Q
  rw [hw]
  simp only [dfsPot, sumBy, pathW]
  omega

/-- **the DFS makes at most `dfsPot` iterations** -/
theorem regexStackGo_count (txt : List Nat) (toks : Array Art) : ∀ (f : Nat) (stack acc : List (List Nat)) (c : Nat),
    (regexStackGo txt toks f stack acc c).2 ≤ c + dfsPot toks.size stack := by
  intro f
  induction f with
  | zero => intro stack acc c; simp [regexStackGo]
  | succ f ih =>
    intro stack acc c
    cases stack with
    | nil => simp [regexStackGo]
    | cons s st =>
      cases s with
      | nil =>
        simp only [regexStackGo]
        have := ih st acc (c + 1)
        simp only [dfsPot, sumBy, pathW] at this ⊢
        omega
      | cons i r =>
        simp only [regexStackGo]
        split
        · have := ih st ((i :: r).reverse :: acc) (c + 1)
          have hp := pathW_pos toks.size (i :: r)
          simp only [dfsPot, sumBy] at this ⊢
          omega
        · exact Nat.le_trans (ih _ _ _) (pushed_worth _ _ _ _ _ _)

/-- with more fuel than the worth of the start nodes the DFS finishes (`dfsFinished`) -/
theorem dfsFinished_of_fuel (txt : List Nat) (fuel : Nat)
    (h : dfsPot (matchRegex txt).toArray.size (((List.range (matchRegex txt).toArray.size).filter fun i => !hasPred txt (matchRegex txt).toArray i).map fun i => [i]) < fuel) :
    dfsFinished txt fuel = true := by
  unfold dfsFinished regexStackIdx
  simp only [decide_eq_true_eq]
  have := regexStackGo_count txt (matchRegex txt).toArray fuel
    (((List.range (matchRegex txt).toArray.size).filter fun i => !hasPred txt (matchRegex txt).toArray i).map fun i => [i]) [] 0
  omega

end QuickAdd
