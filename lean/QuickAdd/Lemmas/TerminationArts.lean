import QuickAdd.Lemmas.Termination
import QuickAdd.Lemmas.SearchTotal
import QuickAdd.Lemmas.SearchYear
/-!
# The search over productions terminates: the measure and the fuel bound (concrete part)

Cost of an element of a production: a pattern match 5, a time value without a year 3, any other value 2.  Every successful rule
application lowers the cost of the production: a window of two or more elements (≥ 4) becomes one value (≤ 3); a single pattern
match (5) becomes a value (≤ 3); the only one-argument productions on values are the four latent ones (read off the regenerated
signature table), their argument has no year (3), their result has one (2).
-/
namespace QuickAdd
open Gen

def costV : Val → Nat
  | .tok _ => 5
  | .time t => if t.year.isSome then 2 else 3
  | _ => 2
def cost (a : Art) : Nat := costV a.v
def measure (p : List Art) : Nat := sumBy cost p

theorem cost_ge (a : Art) : 2 ≤ cost a := by
  unfold cost costV; cases a.v <;> simp <;> split <;> omega
theorem cost_val_le (a : Art) (h : a.isVal = true) : cost a ≤ 3 := by
  unfold cost costV; unfold Art.isVal at h
  cases hv : a.v <;> simp [hv] at h ⊢ <;> split <;> omega

/-- the one-argument productions: on a pattern match, or one of the four latent ones (regenerated signature table) -/
theorem unary_sigs : ∀ r ∈ ruleSigs, r.2.length = 1 → (∃ id, r.2 = [.regex id]) ∨
    (r.1 = "ruleLatentDOM" ∧ r.2 = [.attr "isDOM"]) ∨ (r.1 = "ruleLatentDOW" ∧ r.2 = [.attr "isDOW"]) ∨
    (r.1 = "ruleLatentDOY" ∧ r.2 = [.attr "isDOY"]) ∨ (r.1 = "ruleLatentPOD" ∧ r.2 = [.attr "isPOD"]) := by
  intro r hr hl
  have key : ∀ r ∈ ruleSigs, (r.2.length == 1) = true → ((match r.2 with | [.regex _] => true | _ => false) ||
      (r.1 == "ruleLatentDOM" && r.2 == [.attr "isDOM"]) || (r.1 == "ruleLatentDOW" && r.2 == [.attr "isDOW"]) ||
      (r.1 == "ruleLatentDOY" && r.2 == [.attr "isDOY"]) || (r.1 == "ruleLatentPOD" && r.2 == [.attr "isPOD"])) = true := by decide +kernel
  have h := key r hr (by simp [hl])
  simp only [Bool.or_eq_true, Bool.and_eq_true, beq_iff_eq] at h
  rcases h with (((h | h) | h) | h) | h
  · left
    cases hr2 : r.2 with
    | nil => simp [hr2] at h
    | cons p ps =>
      cases p <;> simp [hr2] at h
      cases ps <;> simp at h
      exact ⟨_, rfl⟩
  · exact Or.inr (Or.inl h)
  · exact Or.inr (Or.inr (Or.inl h))
  · exact Or.inr (Or.inr (Or.inr (Or.inl h)))
  · exact Or.inr (Or.inr (Or.inr (Or.inr h)))

theorem sigs_nonempty : ∀ r ∈ ruleSigs, r.2 ≠ [] := by
  have key : ∀ r ∈ ruleSigs, (r.2.isEmpty) = false := by decide +kernel
  intro r hr h; have := key r hr; simp [h] at this

/-! ### the latent productions yield a dated value -/
theorem tsTime_year (d : Date) : (tsTime d).year.isSome = true := rfl

theorem ruleAtDOW_dated (ts : Ts) (t : Time) (v : Val) (h : ruleAtDOW ts t = .ok (some v)) : costV v = 2 := by
  simp only [ruleAtDOW, need, bind, Except.bind, pure, Except.pure] at h
  repeat' (split at h)
  all_goals (try (simp [pure, Except.pure, throw, throwThe, MonadExceptOf.throw] at h))
  all_goals (try (subst h))
  all_goals rfl

theorem ruleLatentDOM_dated (ts : Ts) (t : Time) (v : Val) (h : ruleLatentDOM ts t = .ok (some v)) : costV v = 2 := by
  simp only [ruleLatentDOM, need, bind, Except.bind, pure, Except.pure] at h
  repeat' (split at h)
  all_goals (try (simp [pure, Except.pure, throw, throwThe, MonadExceptOf.throw] at h))
  all_goals (try (subst h))
  all_goals rfl

theorem ruleLatentDOY_dated (ts : Ts) (t : Time) (v : Val) (h : ruleLatentDOY ts t = .ok (some v)) : costV v = 2 := by
  simp only [ruleLatentDOY, need, bind, Except.bind, pure, Except.pure] at h
  repeat' (split at h)
  all_goals (try (simp [pure, Except.pure, throw, throwThe, MonadExceptOf.throw] at h))
  all_goals (try (subst h))
  all_goals rfl

theorem ruleLatentPOD_dated (ts : Ts) (t : Time) (v : Val) (h : ruleLatentPOD ts t = .ok (some v)) : costV v = 2 := by
  simp only [ruleLatentPOD, needS, bind, Except.bind, pure, Except.pure] at h
  repeat' (split at h)
  all_goals (try (simp [pure, Except.pure, throw, throwThe, MonadExceptOf.throw] at h))
  all_goals (try (subst h))
  all_goals rfl


theorem applyRule_val (name : String) (ts : Ts) (w : List Art) (x : Art) (h : applyRule name ts w = .ok (some x)) :
    applyRaw name ts (w.map (·.v)) = .ok (some x.v) := by
  unfold applyRule at h
  cases hrw : applyRaw name ts (w.map (·.v)) with
  | error e => simp [hrw, bind, Except.bind] at h
  | ok o =>
    cases o with
    | none => simp [hrw, bind, Except.bind, pure, Except.pure] at h
    | some v =>
      simp only [hrw, bind, Except.bind, pure, Except.pure] at h
      split at h
      · simp at h
      · split at h
        · simp at h; subst h; rfl
        · simp [throw, throwThe, MonadExceptOf.throw] at h

theorem ofName_latent : RuleId.ofName "ruleLatentDOM" = some .ruleLatentDOM ∧ RuleId.ofName "ruleLatentDOW" = some .ruleLatentDOW ∧
    RuleId.ofName "ruleLatentDOY" = some .ruleLatentDOY ∧ RuleId.ofName "ruleLatentPOD" = some .ruleLatentPOD := by decide +kernel

/-- **every successful rule application costs less than the window it replaces** -/
theorem applyRule_cost (r : String × List Pred) (hr : r ∈ ruleSigs) (ts : Ts) (hts : ts.Valid) (w : List Art) (hlen : w.length = r.2.length)
    (hp : (List.zipWith predHolds r.2 w).all id = true) (hok : ∀ a ∈ w, a.v.Ok) (x : Art)
    (h : applyRule r.1 ts w = .ok (some x)) : cost x < sumBy cost w := by
  have hval := applyRule_isVal r hr ts hts w hp hok x h
  have hx3 := cost_val_le x hval
  have hne := sigs_nonempty r hr
  have hraw := applyRule_val r.1 ts w x h
  rcases w with _ | ⟨a, _ | ⟨b, rest⟩⟩
  · exfalso
    simp only [List.length_nil] at hlen
    exact hne (List.eq_nil_of_length_eq_zero hlen.symm)
  · have hl1 : r.2.length = 1 := by simpa using hlen.symm
    rcases unary_sigs r hr hl1 with ⟨rid, hid⟩ | ⟨hn, hs⟩ | ⟨hn, hs⟩ | ⟨hn, hs⟩ | ⟨hn, hs⟩
    · rw [hid] at hp
      simp only [List.zipWith, List.all_cons, List.all_nil, id, Bool.and_true] at hp
      obtain ⟨k, hk⟩ := pred_regex rid a hp
      simp only [sumBy, cost, hk, costV] at hx3 ⊢
      omega
    · rw [hs] at hp
      simp only [List.zipWith, List.all_cons, List.all_nil, id, Bool.and_true] at hp
      obtain ⟨t, hv, hq⟩ := pred_isDOM a hp
      have hy := ((isDOM_iff t).mp hq).1
      have hx2 : cost x = 2 := by
        rw [hn] at hraw
        simp only [List.map, hv, applyRaw, ofName_latent.1] at hraw
        exact ruleLatentDOM_dated ts t x.v hraw
      have ha3 : cost a = 3 := by
        unfold cost costV; rw [hv]; simp only
        cases hyy : t.year <;> simp [hyy] at hy ⊢
      simp only [sumBy]; omega
    · rw [hs] at hp
      simp only [List.zipWith, List.all_cons, List.all_nil, id, Bool.and_true] at hp
      obtain ⟨t, hv, hq⟩ := pred_isDOW a hp
      have hy := ((isDOW_iff t).mp hq).1
      have hx2 : cost x = 2 := by
        rw [hn] at hraw
        simp only [List.map, hv, applyRaw, ofName_latent.2.1] at hraw
        exact ruleAtDOW_dated ts t x.v hraw
      have ha3 : cost a = 3 := by
        unfold cost costV; rw [hv]; simp only
        cases hyy : t.year <;> simp [hyy] at hy ⊢
      simp only [sumBy]; omega
    · rw [hs] at hp
      simp only [List.zipWith, List.all_cons, List.all_nil, id, Bool.and_true] at hp
      obtain ⟨t, hv, hq⟩ := pred_isDOY a hp
      have hy := ((isDOY_iff t).mp hq).1
      have hx2 : cost x = 2 := by
        rw [hn] at hraw
        simp only [List.map, hv, applyRaw, ofName_latent.2.2.1] at hraw
        exact ruleLatentDOY_dated ts t x.v hraw
      have ha3 : cost a = 3 := by
        unfold cost costV; rw [hv]; simp only
        cases hyy : t.year <;> simp [hyy] at hy ⊢
      simp only [sumBy]; omega
    · rw [hs] at hp
      simp only [List.zipWith, List.all_cons, List.all_nil, id, Bool.and_true] at hp
      obtain ⟨t, hv, hq⟩ := pred_isPOD a hp
      have hy := ((isPOD_iff t).mp hq).1
      have hx2 : cost x = 2 := by
        rw [hn] at hraw
        simp only [List.map, hv, applyRaw, ofName_latent.2.2.2] at hraw
        exact ruleLatentPOD_dated ts t x.v hraw
      have ha3 : cost a = 3 := by
        unfold cost costV; rw [hv]; simp only
        cases hyy : t.year <;> simp [hyy] at hy ⊢
      simp only [sumBy]; omega
  · have := cost_ge a; have := cost_ge b
    simp only [sumBy]; omega


/-! ### one expansion: fewer than `rules.length * prod.length + 1` successors, each of smaller measure -/
theorem measure_splice (prod : List Art) (i k : Nat) (x : Art) :
    measure (prod.take i ++ x :: prod.drop (i + k)) + sumBy cost ((prod.drop i).take k) = measure prod + cost x := by
  have e1 : prod = prod.take i ++ ((prod.drop i).take k ++ prod.drop (i + k)) := by
    rw [← List.drop_drop, List.take_append_drop, List.take_append_drop]
  have e2 : measure prod = sumBy cost (prod.take i) + (sumBy cost ((prod.drop i).take k) + sumBy cost (prod.drop (i + k))) := by
    conv => lhs; rw [e1]
    unfold measure; rw [sumBy_append, sumBy_append]
  unfold measure at e2 ⊢
  rw [sumBy_append]
  simp only [sumBy]
  omega

theorem expand_decreases (ts : Ts) (hts : ts.Valid) (rules : List (String × List Pred)) (hrules : ∀ r ∈ rules, r ∈ ruleSigs)
    (prod : List Art) (trace : List String) (out : List (List Art × List String × Nat)) (h : expandArts ts rules prod trace = .ok out)
    (hp : ∀ a ∈ prod, a.v.Ok) : ∀ s ∈ out, measure s.1 < measure prod := by
  intro s hs
  obtain ⟨r, hr, i, hi, x, hx, rfl⟩ := expand_sound ts rules prod trace out h s hs
  obtain ⟨_, hlen, hwin, _⟩ := window_sound prod r.2 i hi
  have hc := applyRule_cost r (hrules r hr) ts hts _ hlen hwin (fun b hb => hp b (List.mem_of_mem_drop (List.mem_of_mem_take hb))) x hx
  have := measure_splice prod i r.2.length x
  simp only
  omega

theorem foldOpt_length {β γ : Type} (g : β → Except PyErr (Option γ)) :
    ∀ (ws : List β) (acc out : List γ), foldOpt g ws acc = .ok out → out.length ≤ acc.length + ws.length := by
  intro ws
  induction ws with
  | nil => intro acc out h; simp [foldOpt] at h; subst h; simp
  | cons w ws ih =>
    intro acc out h
    simp only [foldOpt] at h
    split at h
    · cases h
    · have := ih _ _ h; simp at this ⊢; omega
    · have := ih _ _ h; simp at this ⊢; omega

theorem foldAppend_length {β γ : Type} (g : β → Except PyErr (List γ)) (K : Nat) :
    ∀ (rs : List β) (acc out : List γ), (∀ r ∈ rs, ∀ o, g r = .ok o → o.length ≤ K) → foldAppend g rs acc = .ok out →
      out.length ≤ acc.length + rs.length * K := by
  intro rs
  induction rs with
  | nil => intro acc out _ h; simp [foldAppend] at h; subst h; simp
  | cons r rs ih =>
    intro acc out hK h
    simp only [foldAppend] at h
    split at h
    · cases h
    · rename_i outs hg
      have h1 := ih _ _ (fun r' hr' => hK r' (List.mem_cons_of_mem _ hr')) h
      have h2 := hK r List.mem_cons_self outs hg
      simp only [List.length_append, List.length_cons, Nat.succ_mul] at h1 ⊢
      omega

theorem matchRule_length (seq : List Art) (pat : List Pred) : (matchRule seq pat).length ≤ seq.length := by
  unfold matchRule
  split
  · simp
  · exact Nat.le_trans (List.length_filter_le _ _) (by simp)

theorem expand_count (ts : Ts) (rules : List (String × List Pred)) (prod : List Art) (trace : List String)
    (out : List (List Art × List String × Nat)) (h : expandArts ts rules prod trace = .ok out) : out.length ≤ rules.length * prod.length := by
  unfold expandArts at h
  have := foldAppend_length (fun r : String × List Pred => expandRule ts r.1 r.2 prod trace) prod.length rules [] out ?_ h
  · simpa using this
  · intro r _ o ho
    unfold expandRule at ho
    have := foldOpt_length _ _ _ _ ho
    have := matchRule_length prod r.2
    simp at *; omega


/-! ### along reachable productions -/
theorem length_le_measure (p : List Art) : p.length ≤ measure p := by
  unfold measure
  induction p with
  | nil => simp [sumBy]
  | cons a as ih => have := cost_ge a; simp only [sumBy, List.length_cons]; omega

theorem sumBy_mem_le {β : Type} (g : β → Nat) (l : List β) (x : β) (h : x ∈ l) : g x ≤ sumBy g l := by
  induction l with
  | nil => cases h
  | cons y ys ih =>
    rcases List.mem_cons.mp h with rfl | h'
    · simp only [sumBy]; omega
    · have := ih h'; simp only [sumBy]; omega

theorem initialStack_rules_len {S : Type} (sc : Scorer S) (depth num den : Nat) (txt : List Nat) (fuel : Nat) :
    ∀ e ∈ (initialStack sc depth num den txt fuel).1, e.rules.length ≤ ruleSigs.length := by
  intro e he
  unfold initialStack at he
  simp only at he
  have h1 := mem_trunc _ _ _ he
  have h2 := (List.mem_filter.mp h1).1
  have h3 := mem_sortE _ _ _ h2
  simp only [List.mem_map] at h3
  obtain ⟨s, _, rfl⟩ := h3
  exact List.length_filter_le _ _

/-- measure and rule count of every reachable production are bounded by those of the initial stack -/
theorem reach_measure {S : Type} (sc : Scorer S) (ts : Ts) (hts : ts.Valid) (depth : Nat) (txt : List Nat) (init : List (E Art S))
    (hinit : ∀ e ∈ init, (∀ a ∈ e.prod, a.v.Ok) ∧ ∀ r ∈ e.rules, r ∈ ruleSigs) (hrl : ∀ e ∈ init, e.rules.length ≤ ruleSigs.length)
    (p : List Art) (t : List String) (rules : List (String × List Pred))
    (hr : ReachE (mkCfg sc ts depth txt) init p t rules) :
    measure p ≤ sumBy (fun e : E Art S => measure e.prod) init ∧ rules.length ≤ ruleSigs.length := by
  induction hr with
  | init hm => exact ⟨sumBy_mem_le (fun e : E Art S => measure e.prod) init _ hm, hrl _ hm⟩
  | step hprev hexp hmem ih =>
    have hok := reach_ok sc ts hts depth txt init hinit _ _ _ hprev
    have := expand_decreases ts hts _ hok.2 _ _ _ hexp hok.1 _ hmem
    exact ⟨by simp only at this; omega, ih.2⟩

/-- the hypothesis of `run_err_enough` for the concrete search -/
theorem search_step_bound {S : Type} (sc : Scorer S) (ts : Ts) (hts : ts.Valid) (depth : Nat) (txt : List Nat) (init : List (E Art S))
    (hinit : ∀ e ∈ init, (∀ a ∈ e.prod, a.v.Ok) ∧ ∀ r ∈ e.rules, r ∈ ruleSigs) (hrl : ∀ e ∈ init, e.rules.length ≤ ruleSigs.length) :
    ∀ rules p t succs, ReachE (mkCfg sc ts depth txt) init p t rules → (mkCfg sc ts depth txt).expand rules p t = .ok succs →
      succs.length ≤ ruleSigs.length * sumBy (fun e : E Art S => measure e.prod) init ∧ ∀ s ∈ succs, measure s.1 < measure p := by
  intro rules p t succs hr hexp
  have hexp' : expandArts ts rules p t = .ok succs := hexp
  have hok := reach_ok sc ts hts depth txt init hinit _ _ _ hr
  obtain ⟨hm, hl⟩ := reach_measure sc ts hts depth txt init hinit hrl p t rules hr
  refine ⟨?_, expand_decreases ts hts _ hok.2 _ _ _ hexp' hok.1⟩
  have h1 := expand_count ts rules p t succs hexp'
  have h2 := length_le_measure p
  exact Nat.le_trans h1 (Nat.mul_le_mul hl (Nat.le_trans h2 hm))

/-- fuel that suffices for the main loop on this text: the potential of the initial stack -/
def fuelNeeded {S : Type} (init : List (E Art S)) : Nat :=
  potential measure (ruleSigs.length * sumBy (fun e : E Art S => measure e.prod) init) init

end QuickAdd
