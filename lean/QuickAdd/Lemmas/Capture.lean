import QuickAdd.Lemmas.RegexGroups
import QuickAdd.Gen.RegexTable
/-! Digit groups of the shipped patterns only capture in-range numbers (kernel evaluation over the regenerated table). -/
namespace QuickAdd

def fieldRange (n : String) : Option (Int × Int) :=
  if n == "day" then some (1, 31) else if n == "month" then some (1, 12) else if n == "hour" then some (0, 23) else if n == "minute" then some (0, 59)
  else if n == "year" then some (0, 2999) else none

def tableDigitCheck : Bool :=
  Gen.table.all fun p => p.names.all fun (n, i) => match fieldRange n with
    | some (lo, hi) => groupCheckQ Gen.rxTabs canonDigit p.rx i (intInRange lo hi)
    | none => true

set_option maxRecDepth 100000 in
/-- kernel evaluation over the regenerated table: all words (modulo the decimal value of each digit, `canonDigit`) of the finite language of every day/month/hour/minute/year group body -/
theorem digit_groups_in_range : tableDigitCheck = true := by decide +kernel

/-- for every shipped pattern, every text and every match: what a day/month/hour/minute/year group captured is in range (a year group: at most 2999) -/
theorem capture_in_range (p : Gen.Pat) (hp : p ∈ Gen.table) (n : String) (i : Nat) (hn : (n, i) ∈ p.names) (lo hi : Int) (hf : fieldRange n = some (lo, hi))
    (txt : List Nat) (m : Nat × Nat × Caps) (hm : m ∈ findAll Gen.rxTabs p.rx txt) (s e : Nat) (hc : (i, s, e) ∈ m.2.2) :
    intInRange lo hi ((txt.drop s).take (e - s)) = true := by
  have h1 := List.all_eq_true.mp digit_groups_in_range p hp
  have h2 := List.all_eq_true.mp h1 (n, i) hn
  simp only [hf] at h2
  exact intInRange_canon lo hi _ (groupCheckQ_sound Gen.rxTabs canonDigit txt p.rx i _ h2 m.2.2 (findAll_caps Gen.rxTabs p.rx txt m hm) s e hc)

end QuickAdd
