import QuickAdd.Lemmas.RulesTotal
/-!
# `rrule(MONTHLY, byweekday=w, bymonthday=d, count=1)` always finds a date (C01: `ruleDOWDOM` does not raise)

The Gregorian calendar repeats every 400 years = 4800 months = 146097 days = 20871 weeks: whether month number `mi` has a
day `d` that falls on weekday `w` (`goodMonth`) is 4800-periodic.  One period (2000–2399) is evaluated in the kernel for all
7 × 31 combinations; hence after every month there is a good month within the next 4800.
-/
namespace QuickAdd
open Gen

def goodMonth (w d : Int) (mi : Int) : Bool :=
  decide (d ≤ dim (mi / 12) (mi % 12 + 1)) && ((⟨mi / 12, mi % 12 + 1, d⟩ : Date).weekday == w)

theorem isLeap_period (y : Int) : isLeap (y + 400) = isLeap y := by
  unfold isLeap
  have e1 : (y + 400) % 4 = y % 4 := by omega
  have e2 : (y + 400) % 100 = y % 100 := by omega
  have e3 : (y + 400) % 400 = y % 400 := by omega
  rw [e1, e2, e3]

theorem dim_period (y m : Int) : dim (y + 400) m = dim y m := by unfold dim; rw [isLeap_period]
theorem dby_period (y : Int) : dby (y + 400) = dby y + 146097 := by unfold dby; omega
theorem dbm_period (y m : Int) : dbm (y + 400) m = dbm y m := by unfold dbm; rw [isLeap_period]

theorem good_period (w d mi : Int) : goodMonth w d (mi + 4800) = goodMonth w d mi := by
  have ey : (mi + 4800) / 12 = mi / 12 + 400 := by omega
  have em : (mi + 4800) % 12 = mi % 12 := by omega
  unfold goodMonth Date.weekday Date.ord
  simp only [ey, em, dim_period, dby_period, dbm_period]
  have : (dby (mi / 12) + 146097 + dbm (mi / 12) (mi % 12 + 1) + d + 6) % 7 = (dby (mi / 12) + dbm (mi / 12) (mi % 12 + 1) + d + 6) % 7 := by omega
  rw [this]

theorem good_period_nat (w d mi : Int) : ∀ k : Nat, goodMonth w d (mi + 4800 * k) = goodMonth w d mi
  | 0 => by simp
  | k+1 => by
    have : mi + 4800 * ((k + 1 : Nat) : Int) = (mi + 4800 * (k : Int)) + 4800 := by push_cast; omega
    rw [this, good_period, good_period_nat w d mi k]

theorem good_congr (w d a b : Int) (h : (a - b) % 4800 = 0) : goodMonth w d a = goodMonth w d b := by
  by_cases hab : b ≤ a
  · have : a = b + 4800 * (((a - b) / 4800).toNat : Int) := by omega
    rw [this, good_period_nat]
  · have : b = a + 4800 * (((b - a) / 4800).toNat : Int) := by omega
    rw [this, good_period_nat]

/-- one full period, evaluated: every weekday / day-of-month combination occurs between 2000 and 2399 -/
def basePeriodCheck : Bool :=
  (List.range 7).all fun w => (List.range 31).all fun d => (List.range 4800).any fun j => goodMonth (w : Int) ((d : Int) + 1) (24000 + (j : Int))

theorem basePeriod_ok : basePeriodCheck = true := by decide +kernel

theorem good_base (w d : Int) (hw : 0 ≤ w ∧ w ≤ 6) (hd : 1 ≤ d ∧ d ≤ 31) : ∃ j : Nat, j < 4800 ∧ goodMonth w d (24000 + (j : Int)) = true := by
  have h := basePeriod_ok
  unfold basePeriodCheck at h
  have h1 := List.all_eq_true.mp h w.toNat (by simp; omega)
  have h2 := List.all_eq_true.mp h1 (d - 1).toNat (by simp; omega)
  obtain ⟨j, hj, hg⟩ := List.any_eq_true.mp h2
  have ew : ((w.toNat : Nat) : Int) = w := by omega
  have ed : (((d - 1).toNat : Nat) : Int) + 1 = d := by omega
  rw [ew, ed] at hg
  exact ⟨j, by simpa using hj, hg⟩

/-- after every month there is a good month within the next 4800 -/
theorem good_after (w d : Int) (hw : 0 ≤ w ∧ w ≤ 6) (hd : 1 ≤ d ∧ d ≤ 31) (mi0 : Int) :
    ∃ j : Nat, j < 4800 ∧ goodMonth w d (mi0 + 1 + (j : Int)) = true := by
  obtain ⟨j0, _, hg⟩ := good_base w d hw hd
  refine ⟨((24000 + (j0 : Int) - (mi0 + 1)) % 4800).toNat, by omega, ?_⟩
  rw [good_congr w d _ (24000 + (j0 : Int)) (by omega)]
  exact hg

/-- the search returns as soon as some month within its fuel is good, not before the start date, and inside the calendar -/
theorem rrule_some (start : Date) (w d : Int) : ∀ (fuel : Nat) (mi : Int) (j : Nat), j < fuel → (mi + j) / 12 ≤ 9999 →
    goodMonth w d (mi + j) = true → start.ord ≤ (⟨(mi + j) / 12, (mi + j) % 12 + 1, d⟩ : Date).ord →
    ∃ c, rruleMonthly start w d fuel mi = some c := by
  intro fuel
  induction fuel with
  | zero => intro mi j hj; omega
  | succ f ih =>
    intro mi j hj hy hg ho
    simp only [rruleMonthly]
    have hy0 : ¬ mi / 12 > 9999 := by omega
    simp only [hy0, if_false]
    split
    · exact ⟨_, rfl⟩
    · rename_i hc
      cases j with
      | zero =>
        exfalso
        apply hc
        simp only [goodMonth, Bool.and_eq_true, decide_eq_true_eq, beq_iff_eq] at hg
        simp only [Int.natCast_zero, Int.add_zero] at hg ho
        simp only [Bool.and_eq_true, decide_eq_true_eq, beq_iff_eq]
        exact ⟨⟨hg.1, hg.2⟩, ho⟩
      | succ j' =>
        have e : mi + ((j' + 1 : Nat) : Int) = (mi + 1) + (j' : Int) := by push_cast; omega
        rw [e] at hy hg ho
        exact ih (mi + 1) j' (by omega) hy hg ho

theorem ruleDOWDOM_total (ts : Ts) (h : TsOk ts) (dow dom : Time) (hq1 : dow.isDOW = true) (hq2 : dom.isDOM = true)
    (ok1 : dow.Ok) (ok2 : dom.Ok) : ∃ r, ruleDOWDOM ts dow dom = .ok r := by
  obtain ⟨w, ew, hw⟩ := dow_of dow hq1 ok1
  obtain ⟨_, _, a3, _⟩ := (isDOM_iff dom).mp hq2
  obtain ⟨d, ed⟩ := C01.some_of_isSome a3
  have hd := ok2.day d ed
  obtain ⟨m1, m2, d1, d2⟩ := h.valid.1
  have hlo := h.lo
  have hy := h.hi
  obtain ⟨j, hj, hg⟩ := good_after w d ⟨hw.1, by omega⟩ hd (12 * ts.date.y + (ts.date.m - 1))
  -- the good month lies strictly after the reference month: its day `d` is after the reference date
  have hgood := hg
  simp only [goodMonth, Bool.and_eq_true, decide_eq_true_eq, beq_iff_eq] at hg
  have hord : ts.date.ord ≤ (⟨(12 * ts.date.y + (ts.date.m - 1) + ((j + 1 : Nat) : Int)) / 12, (12 * ts.date.y + (ts.date.m - 1) + ((j + 1 : Nat) : Int)) % 12 + 1, d⟩ : Date).ord := by
    have e : 12 * ts.date.y + (ts.date.m - 1) + ((j + 1 : Nat) : Int) = 12 * ts.date.y + (ts.date.m - 1) + 1 + (j : Int) := by push_cast; omega
    rw [e]
    apply Int.le_of_lt
    apply ord_lt_of_lex ts.date _ h.valid.1
    · refine ⟨?_, ?_, ?_, ?_⟩ <;> dsimp only <;> first | omega | exact hg.1
    · dsimp only; omega
  have hsome := rrule_some ts.date w d (12 * 8000) (12 * ts.date.y + (ts.date.m - 1)) (j + 1) (by omega) (by push_cast; omega)
    (by have e : 12 * ts.date.y + (ts.date.m - 1) + ((j + 1 : Nat) : Int) = 12 * ts.date.y + (ts.date.m - 1) + 1 + (j : Int) := by push_cast; omega
        rw [e]; exact hgood) hord
  obtain ⟨c, hc⟩ := hsome
  have hwa : weekdayArg w = .ok w := by
    unfold weekdayArg
    have : (decide (0 ≤ w) && decide (w ≤ 6)) = true := by simp; omega
    simp only [this, if_true, pure, Except.pure]
  simp only [ruleDOWDOM, ew, ed, need, hwa, hc, bind, Except.bind, pure, Except.pure]
  exact ⟨_, rfl⟩

end QuickAdd
