import QuickAdd.Lemmas.RulesTotal
import QuickAdd.Lemmas.RRule
/-! One lemma per value-level production (generated text; the signature literal of each is checked against the regenerated
   table by `decide`): under the registered predicates and the invariants of reachable productions the production does not raise. -/
namespace QuickAdd
open Gen

theorem name_ruleAbsorbOnTime : RuleId.nameOf .ruleAbsorbOnTime = "ruleAbsorbOnTime" := by decide +kernel
theorem sig_ruleAbsorbOnTime : ∀ r ∈ ruleSigs, r.1 = "ruleAbsorbOnTime" → r.2 = [.regex 100, .dim "Time"] := by decide +kernel

theorem applyId_total_ruleAbsorbOnTime (ts : Ts) (hts : TsOk ts) (args : List Art)
    (hp : (List.zipWith predHolds [.regex 100, .dim "Time"] args).all id = true) (hl : args.length = 2)
    (hok : ∀ a ∈ args, a.v.Ok ∧ valCalOk a.v = true ∧ a.v.YearLe 9990) : ∃ o, applyId .ruleAbsorbOnTime ts (args.map (·.v)) = .ok o := by
  rcases args with _ | ⟨a1, _ | ⟨a2, _ | ⟨x, rest⟩⟩⟩ <;> simp at hl
  simp only [List.zipWith, List.all_cons, List.all_nil, id, Bool.and_true, Bool.and_eq_true] at hp
  obtain ⟨hp1, hp2⟩ := hp
  obtain ⟨k1, hv1⟩ := pred_regex _ a1 hp1
  have ok1 := (hok a1 (by simp)).1; rw [hv1] at ok1
  have cal1 := (hok a1 (by simp)).2.1; rw [hv1] at cal1
  have yr1 := (hok a1 (by simp)).2.2; rw [hv1] at yr1
  obtain ⟨t2, hv2⟩ := pred_dimTime a2 hp2
  have ok2 := (hok a2 (by simp)).1; rw [hv2] at ok2
  have cal2 := (hok a2 (by simp)).2.1; rw [hv2] at cal2
  have yr2 := (hok a2 (by simp)).2.2; rw [hv2] at yr2
  simp only [List.map, hv1, hv2]
  exact ⟨_, rfl⟩

theorem name_ruleAbsorbFromInterval : RuleId.nameOf .ruleAbsorbFromInterval = "ruleAbsorbFromInterval" := by decide +kernel
theorem sig_ruleAbsorbFromInterval : ∀ r ∈ ruleSigs, r.1 = "ruleAbsorbFromInterval" → r.2 = [.regex 101, .dim "Interval"] := by decide +kernel

theorem applyId_total_ruleAbsorbFromInterval (ts : Ts) (hts : TsOk ts) (args : List Art)
    (hp : (List.zipWith predHolds [.regex 101, .dim "Interval"] args).all id = true) (hl : args.length = 2)
    (hok : ∀ a ∈ args, a.v.Ok ∧ valCalOk a.v = true ∧ a.v.YearLe 9990) : ∃ o, applyId .ruleAbsorbFromInterval ts (args.map (·.v)) = .ok o := by
  rcases args with _ | ⟨a1, _ | ⟨a2, _ | ⟨x, rest⟩⟩⟩ <;> simp at hl
  simp only [List.zipWith, List.all_cons, List.all_nil, id, Bool.and_true, Bool.and_eq_true] at hp
  obtain ⟨hp1, hp2⟩ := hp
  obtain ⟨k1, hv1⟩ := pred_regex _ a1 hp1
  have ok1 := (hok a1 (by simp)).1; rw [hv1] at ok1
  have cal1 := (hok a1 (by simp)).2.1; rw [hv1] at cal1
  have yr1 := (hok a1 (by simp)).2.2; rw [hv1] at yr1
  obtain ⟨f2, g2, hv2⟩ := pred_dimInterval a2 hp2
  have ok2 := (hok a2 (by simp)).1; rw [hv2] at ok2
  have cal2 := (hok a2 (by simp)).2.1; rw [hv2] at cal2
  have yr2 := (hok a2 (by simp)).2.2; rw [hv2] at yr2
  simp only [List.map, hv1, hv2]
  exact ⟨_, rfl⟩

theorem name_ruleNamedDOW : RuleId.nameOf .ruleNamedDOW = "ruleNamedDOW" := by decide +kernel
theorem sig_ruleNamedDOW : ∀ r ∈ ruleSigs, r.1 = "ruleNamedDOW" → r.2 = [.regex 102] := by decide +kernel

theorem applyId_total_ruleNamedDOW (ts : Ts) (hts : TsOk ts) (args : List Art)
    (hp : (List.zipWith predHolds [.regex 102] args).all id = true) (hl : args.length = 1)
    (hok : ∀ a ∈ args, a.v.Ok ∧ valCalOk a.v = true ∧ a.v.YearLe 9990) : ∃ o, applyId .ruleNamedDOW ts (args.map (·.v)) = .ok o := by
  rcases args with _ | ⟨a1, _ | ⟨x, rest⟩⟩ <;> simp at hl
  simp only [List.zipWith, List.all_cons, List.all_nil, id, Bool.and_true, Bool.and_eq_true] at hp
  have hp1 := hp
  obtain ⟨k1, hv1⟩ := pred_regex _ a1 hp1
  have ok1 := (hok a1 (by simp)).1; rw [hv1] at ok1
  have cal1 := (hok a1 (by simp)).2.1; rw [hv1] at cal1
  have yr1 := (hok a1 (by simp)).2.2; rw [hv1] at yr1
  simp only [List.map, hv1]
  exact ⟨_, rfl⟩

theorem name_ruleNamedMonth : RuleId.nameOf .ruleNamedMonth = "ruleNamedMonth" := by decide +kernel
theorem sig_ruleNamedMonth : ∀ r ∈ ruleSigs, r.1 = "ruleNamedMonth" → r.2 = [.regex 103] := by decide +kernel

theorem applyId_total_ruleNamedMonth (ts : Ts) (hts : TsOk ts) (args : List Art)
    (hp : (List.zipWith predHolds [.regex 103] args).all id = true) (hl : args.length = 1)
    (hok : ∀ a ∈ args, a.v.Ok ∧ valCalOk a.v = true ∧ a.v.YearLe 9990) : ∃ o, applyId .ruleNamedMonth ts (args.map (·.v)) = .ok o := by
  rcases args with _ | ⟨a1, _ | ⟨x, rest⟩⟩ <;> simp at hl
  simp only [List.zipWith, List.all_cons, List.all_nil, id, Bool.and_true, Bool.and_eq_true] at hp
  have hp1 := hp
  obtain ⟨k1, hv1⟩ := pred_regex _ a1 hp1
  have ok1 := (hok a1 (by simp)).1; rw [hv1] at ok1
  have cal1 := (hok a1 (by simp)).2.1; rw [hv1] at cal1
  have yr1 := (hok a1 (by simp)).2.2; rw [hv1] at yr1
  simp only [List.map, hv1]
  exact ⟨_, rfl⟩

theorem name_ruleNamedHour : RuleId.nameOf .ruleNamedHour = "ruleNamedHour" := by decide +kernel
theorem sig_ruleNamedHour : ∀ r ∈ ruleSigs, r.1 = "ruleNamedHour" → r.2 = [.regex 104] := by decide +kernel

theorem applyId_total_ruleNamedHour (ts : Ts) (hts : TsOk ts) (args : List Art)
    (hp : (List.zipWith predHolds [.regex 104] args).all id = true) (hl : args.length = 1)
    (hok : ∀ a ∈ args, a.v.Ok ∧ valCalOk a.v = true ∧ a.v.YearLe 9990) : ∃ o, applyId .ruleNamedHour ts (args.map (·.v)) = .ok o := by
  rcases args with _ | ⟨a1, _ | ⟨x, rest⟩⟩ <;> simp at hl
  simp only [List.zipWith, List.all_cons, List.all_nil, id, Bool.and_true, Bool.and_eq_true] at hp
  have hp1 := hp
  obtain ⟨k1, hv1⟩ := pred_regex _ a1 hp1
  have ok1 := (hok a1 (by simp)).1; rw [hv1] at ok1
  have cal1 := (hok a1 (by simp)).2.1; rw [hv1] at cal1
  have yr1 := (hok a1 (by simp)).2.2; rw [hv1] at yr1
  simp only [List.map, hv1]
  exact ⟨_, rfl⟩

theorem name_ruleMidnight : RuleId.nameOf .ruleMidnight = "ruleMidnight" := by decide +kernel
theorem sig_ruleMidnight : ∀ r ∈ ruleSigs, r.1 = "ruleMidnight" → r.2 = [.regex 105] := by decide +kernel

theorem applyId_total_ruleMidnight (ts : Ts) (hts : TsOk ts) (args : List Art)
    (hp : (List.zipWith predHolds [.regex 105] args).all id = true) (hl : args.length = 1)
    (hok : ∀ a ∈ args, a.v.Ok ∧ valCalOk a.v = true ∧ a.v.YearLe 9990) : ∃ o, applyId .ruleMidnight ts (args.map (·.v)) = .ok o := by
  rcases args with _ | ⟨a1, _ | ⟨x, rest⟩⟩ <;> simp at hl
  simp only [List.zipWith, List.all_cons, List.all_nil, id, Bool.and_true, Bool.and_eq_true] at hp
  have hp1 := hp
  obtain ⟨k1, hv1⟩ := pred_regex _ a1 hp1
  have ok1 := (hok a1 (by simp)).1; rw [hv1] at ok1
  have cal1 := (hok a1 (by simp)).2.1; rw [hv1] at cal1
  have yr1 := (hok a1 (by simp)).2.2; rw [hv1] at yr1
  simp only [List.map, hv1]
  exact ⟨_, rfl⟩

theorem name_ruleEarlyLatePOD : RuleId.nameOf .ruleEarlyLatePOD = "ruleEarlyLatePOD" := by decide +kernel
theorem sig_ruleEarlyLatePOD : ∀ r ∈ ruleSigs, r.1 = "ruleEarlyLatePOD" → r.2 = [.regex 106, .attr "isPOD"] := by decide +kernel

theorem applyId_total_ruleEarlyLatePOD (ts : Ts) (hts : TsOk ts) (args : List Art)
    (hp : (List.zipWith predHolds [.regex 106, .attr "isPOD"] args).all id = true) (hl : args.length = 2)
    (hok : ∀ a ∈ args, a.v.Ok ∧ valCalOk a.v = true ∧ a.v.YearLe 9990) : ∃ o, applyId .ruleEarlyLatePOD ts (args.map (·.v)) = .ok o := by
  rcases args with _ | ⟨a1, _ | ⟨a2, _ | ⟨x, rest⟩⟩⟩ <;> simp at hl
  simp only [List.zipWith, List.all_cons, List.all_nil, id, Bool.and_true, Bool.and_eq_true] at hp
  obtain ⟨hp1, hp2⟩ := hp
  obtain ⟨k1, hv1⟩ := pred_regex _ a1 hp1
  have ok1 := (hok a1 (by simp)).1; rw [hv1] at ok1
  have cal1 := (hok a1 (by simp)).2.1; rw [hv1] at cal1
  have yr1 := (hok a1 (by simp)).2.2; rw [hv1] at yr1
  obtain ⟨t2, hv2, hq2⟩ := pred_isPOD a2 hp2
  have ok2 := (hok a2 (by simp)).1; rw [hv2] at ok2
  have cal2 := (hok a2 (by simp)).2.1; rw [hv2] at cal2
  have yr2 := (hok a2 (by simp)).2.2; rw [hv2] at yr2
  simp only [List.map, hv1, hv2]
  exact ruleEarlyLatePOD_total _ _ hq2

theorem name_rulePOD : RuleId.nameOf .rulePOD = "rulePOD" := by decide +kernel
theorem sig_rulePOD : ∀ r ∈ ruleSigs, r.1 = "rulePOD" → r.2 = [.regex 107] := by decide +kernel

theorem applyId_total_rulePOD (ts : Ts) (hts : TsOk ts) (args : List Art)
    (hp : (List.zipWith predHolds [.regex 107] args).all id = true) (hl : args.length = 1)
    (hok : ∀ a ∈ args, a.v.Ok ∧ valCalOk a.v = true ∧ a.v.YearLe 9990) : ∃ o, applyId .rulePOD ts (args.map (·.v)) = .ok o := by
  rcases args with _ | ⟨a1, _ | ⟨x, rest⟩⟩ <;> simp at hl
  simp only [List.zipWith, List.all_cons, List.all_nil, id, Bool.and_true, Bool.and_eq_true] at hp
  have hp1 := hp
  obtain ⟨k1, hv1⟩ := pred_regex _ a1 hp1
  have ok1 := (hok a1 (by simp)).1; rw [hv1] at ok1
  have cal1 := (hok a1 (by simp)).2.1; rw [hv1] at cal1
  have yr1 := (hok a1 (by simp)).2.2; rw [hv1] at yr1
  simp only [List.map, hv1]
  exact ⟨_, rfl⟩

theorem name_ruleToday : RuleId.nameOf .ruleToday = "ruleToday" := by decide +kernel
theorem sig_ruleToday : ∀ r ∈ ruleSigs, r.1 = "ruleToday" → r.2 = [.regex 112] := by decide +kernel

theorem applyId_total_ruleToday (ts : Ts) (hts : TsOk ts) (args : List Art)
    (hp : (List.zipWith predHolds [.regex 112] args).all id = true) (hl : args.length = 1)
    (hok : ∀ a ∈ args, a.v.Ok ∧ valCalOk a.v = true ∧ a.v.YearLe 9990) : ∃ o, applyId .ruleToday ts (args.map (·.v)) = .ok o := by
  rcases args with _ | ⟨a1, _ | ⟨x, rest⟩⟩ <;> simp at hl
  simp only [List.zipWith, List.all_cons, List.all_nil, id, Bool.and_true, Bool.and_eq_true] at hp
  have hp1 := hp
  obtain ⟨k1, hv1⟩ := pred_regex _ a1 hp1
  have ok1 := (hok a1 (by simp)).1; rw [hv1] at ok1
  have cal1 := (hok a1 (by simp)).2.1; rw [hv1] at cal1
  have yr1 := (hok a1 (by simp)).2.2; rw [hv1] at yr1
  simp only [List.map, hv1]
  exact ⟨_, rfl⟩

theorem name_ruleNow : RuleId.nameOf .ruleNow = "ruleNow" := by decide +kernel
theorem sig_ruleNow : ∀ r ∈ ruleSigs, r.1 = "ruleNow" → r.2 = [.regex 113] := by decide +kernel

theorem applyId_total_ruleNow (ts : Ts) (hts : TsOk ts) (args : List Art)
    (hp : (List.zipWith predHolds [.regex 113] args).all id = true) (hl : args.length = 1)
    (hok : ∀ a ∈ args, a.v.Ok ∧ valCalOk a.v = true ∧ a.v.YearLe 9990) : ∃ o, applyId .ruleNow ts (args.map (·.v)) = .ok o := by
  rcases args with _ | ⟨a1, _ | ⟨x, rest⟩⟩ <;> simp at hl
  simp only [List.zipWith, List.all_cons, List.all_nil, id, Bool.and_true, Bool.and_eq_true] at hp
  have hp1 := hp
  obtain ⟨k1, hv1⟩ := pred_regex _ a1 hp1
  have ok1 := (hok a1 (by simp)).1; rw [hv1] at ok1
  have cal1 := (hok a1 (by simp)).2.1; rw [hv1] at cal1
  have yr1 := (hok a1 (by simp)).2.2; rw [hv1] at yr1
  simp only [List.map, hv1]
  exact ⟨_, rfl⟩

theorem name_ruleTomorrow : RuleId.nameOf .ruleTomorrow = "ruleTomorrow" := by decide +kernel
theorem sig_ruleTomorrow : ∀ r ∈ ruleSigs, r.1 = "ruleTomorrow" → r.2 = [.regex 114] := by decide +kernel

theorem applyId_total_ruleTomorrow (ts : Ts) (hts : TsOk ts) (args : List Art)
    (hp : (List.zipWith predHolds [.regex 114] args).all id = true) (hl : args.length = 1)
    (hok : ∀ a ∈ args, a.v.Ok ∧ valCalOk a.v = true ∧ a.v.YearLe 9990) : ∃ o, applyId .ruleTomorrow ts (args.map (·.v)) = .ok o := by
  rcases args with _ | ⟨a1, _ | ⟨x, rest⟩⟩ <;> simp at hl
  simp only [List.zipWith, List.all_cons, List.all_nil, id, Bool.and_true, Bool.and_eq_true] at hp
  have hp1 := hp
  obtain ⟨k1, hv1⟩ := pred_regex _ a1 hp1
  have ok1 := (hok a1 (by simp)).1; rw [hv1] at ok1
  have cal1 := (hok a1 (by simp)).2.1; rw [hv1] at cal1
  have yr1 := (hok a1 (by simp)).2.2; rw [hv1] at yr1
  simp only [List.map, hv1]
  exact (C01.relative_rules_total ts hts.valid.1 ⟨hts.lo, by have := hts.hi; omega⟩ 0 (by omega)).1

theorem name_ruleAfterTomorrow : RuleId.nameOf .ruleAfterTomorrow = "ruleAfterTomorrow" := by decide +kernel
theorem sig_ruleAfterTomorrow : ∀ r ∈ ruleSigs, r.1 = "ruleAfterTomorrow" → r.2 = [.regex 115] := by decide +kernel

theorem applyId_total_ruleAfterTomorrow (ts : Ts) (hts : TsOk ts) (args : List Art)
    (hp : (List.zipWith predHolds [.regex 115] args).all id = true) (hl : args.length = 1)
    (hok : ∀ a ∈ args, a.v.Ok ∧ valCalOk a.v = true ∧ a.v.YearLe 9990) : ∃ o, applyId .ruleAfterTomorrow ts (args.map (·.v)) = .ok o := by
  rcases args with _ | ⟨a1, _ | ⟨x, rest⟩⟩ <;> simp at hl
  simp only [List.zipWith, List.all_cons, List.all_nil, id, Bool.and_true, Bool.and_eq_true] at hp
  have hp1 := hp
  obtain ⟨k1, hv1⟩ := pred_regex _ a1 hp1
  have ok1 := (hok a1 (by simp)).1; rw [hv1] at ok1
  have cal1 := (hok a1 (by simp)).2.1; rw [hv1] at cal1
  have yr1 := (hok a1 (by simp)).2.2; rw [hv1] at yr1
  simp only [List.map, hv1]
  exact (C01.relative_rules_total ts hts.valid.1 ⟨hts.lo, by have := hts.hi; omega⟩ 0 (by omega)).2.1

theorem name_ruleYesterday : RuleId.nameOf .ruleYesterday = "ruleYesterday" := by decide +kernel
theorem sig_ruleYesterday : ∀ r ∈ ruleSigs, r.1 = "ruleYesterday" → r.2 = [.regex 116] := by decide +kernel

theorem applyId_total_ruleYesterday (ts : Ts) (hts : TsOk ts) (args : List Art)
    (hp : (List.zipWith predHolds [.regex 116] args).all id = true) (hl : args.length = 1)
    (hok : ∀ a ∈ args, a.v.Ok ∧ valCalOk a.v = true ∧ a.v.YearLe 9990) : ∃ o, applyId .ruleYesterday ts (args.map (·.v)) = .ok o := by
  rcases args with _ | ⟨a1, _ | ⟨x, rest⟩⟩ <;> simp at hl
  simp only [List.zipWith, List.all_cons, List.all_nil, id, Bool.and_true, Bool.and_eq_true] at hp
  have hp1 := hp
  obtain ⟨k1, hv1⟩ := pred_regex _ a1 hp1
  have ok1 := (hok a1 (by simp)).1; rw [hv1] at ok1
  have cal1 := (hok a1 (by simp)).2.1; rw [hv1] at cal1
  have yr1 := (hok a1 (by simp)).2.2; rw [hv1] at yr1
  simp only [List.map, hv1]
  exact (C01.relative_rules_total ts hts.valid.1 ⟨hts.lo, by have := hts.hi; omega⟩ 0 (by omega)).2.2.1

theorem name_ruleBeforeYesterday : RuleId.nameOf .ruleBeforeYesterday = "ruleBeforeYesterday" := by decide +kernel
theorem sig_ruleBeforeYesterday : ∀ r ∈ ruleSigs, r.1 = "ruleBeforeYesterday" → r.2 = [.regex 117] := by decide +kernel

theorem applyId_total_ruleBeforeYesterday (ts : Ts) (hts : TsOk ts) (args : List Art)
    (hp : (List.zipWith predHolds [.regex 117] args).all id = true) (hl : args.length = 1)
    (hok : ∀ a ∈ args, a.v.Ok ∧ valCalOk a.v = true ∧ a.v.YearLe 9990) : ∃ o, applyId .ruleBeforeYesterday ts (args.map (·.v)) = .ok o := by
  rcases args with _ | ⟨a1, _ | ⟨x, rest⟩⟩ <;> simp at hl
  simp only [List.zipWith, List.all_cons, List.all_nil, id, Bool.and_true, Bool.and_eq_true] at hp
  have hp1 := hp
  obtain ⟨k1, hv1⟩ := pred_regex _ a1 hp1
  have ok1 := (hok a1 (by simp)).1; rw [hv1] at ok1
  have cal1 := (hok a1 (by simp)).2.1; rw [hv1] at cal1
  have yr1 := (hok a1 (by simp)).2.2; rw [hv1] at yr1
  simp only [List.map, hv1]
  exact (C01.relative_rules_total ts hts.valid.1 ⟨hts.lo, by have := hts.hi; omega⟩ 0 (by omega)).2.2.2.1

theorem name_ruleEOM : RuleId.nameOf .ruleEOM = "ruleEOM" := by decide +kernel
theorem sig_ruleEOM : ∀ r ∈ ruleSigs, r.1 = "ruleEOM" → r.2 = [.regex 118] := by decide +kernel

theorem applyId_total_ruleEOM (ts : Ts) (hts : TsOk ts) (args : List Art)
    (hp : (List.zipWith predHolds [.regex 118] args).all id = true) (hl : args.length = 1)
    (hok : ∀ a ∈ args, a.v.Ok ∧ valCalOk a.v = true ∧ a.v.YearLe 9990) : ∃ o, applyId .ruleEOM ts (args.map (·.v)) = .ok o := by
  rcases args with _ | ⟨a1, _ | ⟨x, rest⟩⟩ <;> simp at hl
  simp only [List.zipWith, List.all_cons, List.all_nil, id, Bool.and_true, Bool.and_eq_true] at hp
  have hp1 := hp
  obtain ⟨k1, hv1⟩ := pred_regex _ a1 hp1
  have ok1 := (hok a1 (by simp)).1; rw [hv1] at ok1
  have cal1 := (hok a1 (by simp)).2.1; rw [hv1] at cal1
  have yr1 := (hok a1 (by simp)).2.2; rw [hv1] at yr1
  simp only [List.map, hv1]
  exact (C01.relative_rules_total ts hts.valid.1 ⟨hts.lo, by have := hts.hi; omega⟩ 0 (by omega)).2.2.2.2.2.2.1

theorem name_ruleEOY : RuleId.nameOf .ruleEOY = "ruleEOY" := by decide +kernel
theorem sig_ruleEOY : ∀ r ∈ ruleSigs, r.1 = "ruleEOY" → r.2 = [.regex 119] := by decide +kernel

theorem applyId_total_ruleEOY (ts : Ts) (hts : TsOk ts) (args : List Art)
    (hp : (List.zipWith predHolds [.regex 119] args).all id = true) (hl : args.length = 1)
    (hok : ∀ a ∈ args, a.v.Ok ∧ valCalOk a.v = true ∧ a.v.YearLe 9990) : ∃ o, applyId .ruleEOY ts (args.map (·.v)) = .ok o := by
  rcases args with _ | ⟨a1, _ | ⟨x, rest⟩⟩ <;> simp at hl
  simp only [List.zipWith, List.all_cons, List.all_nil, id, Bool.and_true, Bool.and_eq_true] at hp
  have hp1 := hp
  obtain ⟨k1, hv1⟩ := pred_regex _ a1 hp1
  have ok1 := (hok a1 (by simp)).1; rw [hv1] at ok1
  have cal1 := (hok a1 (by simp)).2.1; rw [hv1] at cal1
  have yr1 := (hok a1 (by simp)).2.2; rw [hv1] at yr1
  simp only [List.map, hv1]
  exact ruleEOY_total ts hts

theorem name_ruleDOMMonth : RuleId.nameOf .ruleDOMMonth = "ruleDOMMonth" := by decide +kernel
theorem sig_ruleDOMMonth : ∀ r ∈ ruleSigs, r.1 = "ruleDOMMonth" → r.2 = [.attr "isDOM", .attr "isMonth"] := by decide +kernel

theorem applyId_total_ruleDOMMonth (ts : Ts) (hts : TsOk ts) (args : List Art)
    (hp : (List.zipWith predHolds [.attr "isDOM", .attr "isMonth"] args).all id = true) (hl : args.length = 2)
    (hok : ∀ a ∈ args, a.v.Ok ∧ valCalOk a.v = true ∧ a.v.YearLe 9990) : ∃ o, applyId .ruleDOMMonth ts (args.map (·.v)) = .ok o := by
  rcases args with _ | ⟨a1, _ | ⟨a2, _ | ⟨x, rest⟩⟩⟩ <;> simp at hl
  simp only [List.zipWith, List.all_cons, List.all_nil, id, Bool.and_true, Bool.and_eq_true] at hp
  obtain ⟨hp1, hp2⟩ := hp
  obtain ⟨t1, hv1, hq1⟩ := pred_isDOM a1 hp1
  have ok1 := (hok a1 (by simp)).1; rw [hv1] at ok1
  have cal1 := (hok a1 (by simp)).2.1; rw [hv1] at cal1
  have yr1 := (hok a1 (by simp)).2.2; rw [hv1] at yr1
  obtain ⟨t2, hv2, hq2⟩ := pred_isMonth a2 hp2
  have ok2 := (hok a2 (by simp)).1; rw [hv2] at ok2
  have cal2 := (hok a2 (by simp)).2.1; rw [hv2] at cal2
  have yr2 := (hok a2 (by simp)).2.2; rw [hv2] at yr2
  simp only [List.map, hv1, hv2]
  exact ⟨_, rfl⟩

theorem name_ruleDOMMonth2 : RuleId.nameOf .ruleDOMMonth2 = "ruleDOMMonth2" := by decide +kernel
theorem sig_ruleDOMMonth2 : ∀ r ∈ ruleSigs, r.1 = "ruleDOMMonth2" → r.2 = [.attr "isDOM", .regex 120, .attr "isMonth"] := by decide +kernel

theorem applyId_total_ruleDOMMonth2 (ts : Ts) (hts : TsOk ts) (args : List Art)
    (hp : (List.zipWith predHolds [.attr "isDOM", .regex 120, .attr "isMonth"] args).all id = true) (hl : args.length = 3)
    (hok : ∀ a ∈ args, a.v.Ok ∧ valCalOk a.v = true ∧ a.v.YearLe 9990) : ∃ o, applyId .ruleDOMMonth2 ts (args.map (·.v)) = .ok o := by
  rcases args with _ | ⟨a1, _ | ⟨a2, _ | ⟨a3, _ | ⟨x, rest⟩⟩⟩⟩ <;> simp at hl
  simp only [List.zipWith, List.all_cons, List.all_nil, id, Bool.and_true, Bool.and_eq_true] at hp
  obtain ⟨hp1, hp2, hp3⟩ := hp
  obtain ⟨t1, hv1, hq1⟩ := pred_isDOM a1 hp1
  have ok1 := (hok a1 (by simp)).1; rw [hv1] at ok1
  have cal1 := (hok a1 (by simp)).2.1; rw [hv1] at cal1
  have yr1 := (hok a1 (by simp)).2.2; rw [hv1] at yr1
  obtain ⟨k2, hv2⟩ := pred_regex _ a2 hp2
  have ok2 := (hok a2 (by simp)).1; rw [hv2] at ok2
  have cal2 := (hok a2 (by simp)).2.1; rw [hv2] at cal2
  have yr2 := (hok a2 (by simp)).2.2; rw [hv2] at yr2
  obtain ⟨t3, hv3, hq3⟩ := pred_isMonth a3 hp3
  have ok3 := (hok a3 (by simp)).1; rw [hv3] at ok3
  have cal3 := (hok a3 (by simp)).2.1; rw [hv3] at cal3
  have yr3 := (hok a3 (by simp)).2.2; rw [hv3] at yr3
  simp only [List.map, hv1, hv2, hv3]
  exact ⟨_, rfl⟩

theorem name_ruleMonthDOM : RuleId.nameOf .ruleMonthDOM = "ruleMonthDOM" := by decide +kernel
theorem sig_ruleMonthDOM : ∀ r ∈ ruleSigs, r.1 = "ruleMonthDOM" → r.2 = [.attr "isMonth", .attr "isDOM"] := by decide +kernel

theorem applyId_total_ruleMonthDOM (ts : Ts) (hts : TsOk ts) (args : List Art)
    (hp : (List.zipWith predHolds [.attr "isMonth", .attr "isDOM"] args).all id = true) (hl : args.length = 2)
    (hok : ∀ a ∈ args, a.v.Ok ∧ valCalOk a.v = true ∧ a.v.YearLe 9990) : ∃ o, applyId .ruleMonthDOM ts (args.map (·.v)) = .ok o := by
  rcases args with _ | ⟨a1, _ | ⟨a2, _ | ⟨x, rest⟩⟩⟩ <;> simp at hl
  simp only [List.zipWith, List.all_cons, List.all_nil, id, Bool.and_true, Bool.and_eq_true] at hp
  obtain ⟨hp1, hp2⟩ := hp
  obtain ⟨t1, hv1, hq1⟩ := pred_isMonth a1 hp1
  have ok1 := (hok a1 (by simp)).1; rw [hv1] at ok1
  have cal1 := (hok a1 (by simp)).2.1; rw [hv1] at cal1
  have yr1 := (hok a1 (by simp)).2.2; rw [hv1] at yr1
  obtain ⟨t2, hv2, hq2⟩ := pred_isDOM a2 hp2
  have ok2 := (hok a2 (by simp)).1; rw [hv2] at ok2
  have cal2 := (hok a2 (by simp)).2.1; rw [hv2] at cal2
  have yr2 := (hok a2 (by simp)).2.2; rw [hv2] at yr2
  simp only [List.map, hv1, hv2]
  exact ⟨_, rfl⟩

theorem name_ruleAtDOW : RuleId.nameOf .ruleAtDOW = "ruleAtDOW" := by decide +kernel
theorem sig_ruleAtDOW : ∀ r ∈ ruleSigs, r.1 = "ruleAtDOW" → r.2 = [.regex 121, .attr "isDOW"] := by decide +kernel

theorem applyId_total_ruleAtDOW (ts : Ts) (hts : TsOk ts) (args : List Art)
    (hp : (List.zipWith predHolds [.regex 121, .attr "isDOW"] args).all id = true) (hl : args.length = 2)
    (hok : ∀ a ∈ args, a.v.Ok ∧ valCalOk a.v = true ∧ a.v.YearLe 9990) : ∃ o, applyId .ruleAtDOW ts (args.map (·.v)) = .ok o := by
  rcases args with _ | ⟨a1, _ | ⟨a2, _ | ⟨x, rest⟩⟩⟩ <;> simp at hl
  simp only [List.zipWith, List.all_cons, List.all_nil, id, Bool.and_true, Bool.and_eq_true] at hp
  obtain ⟨hp1, hp2⟩ := hp
  obtain ⟨k1, hv1⟩ := pred_regex _ a1 hp1
  have ok1 := (hok a1 (by simp)).1; rw [hv1] at ok1
  have cal1 := (hok a1 (by simp)).2.1; rw [hv1] at cal1
  have yr1 := (hok a1 (by simp)).2.2; rw [hv1] at yr1
  obtain ⟨t2, hv2, hq2⟩ := pred_isDOW a2 hp2
  have ok2 := (hok a2 (by simp)).1; rw [hv2] at ok2
  have cal2 := (hok a2 (by simp)).2.1; rw [hv2] at cal2
  have yr2 := (hok a2 (by simp)).2.2; rw [hv2] at yr2
  simp only [List.map, hv1, hv2]
  exact ruleAtDOW_total ts hts _ hq2 ok2

theorem name_ruleNextDOW : RuleId.nameOf .ruleNextDOW = "ruleNextDOW" := by decide +kernel
theorem sig_ruleNextDOW : ∀ r ∈ ruleSigs, r.1 = "ruleNextDOW" → r.2 = [.regex 122, .attr "isDOW"] := by decide +kernel

theorem applyId_total_ruleNextDOW (ts : Ts) (hts : TsOk ts) (args : List Art)
    (hp : (List.zipWith predHolds [.regex 122, .attr "isDOW"] args).all id = true) (hl : args.length = 2)
    (hok : ∀ a ∈ args, a.v.Ok ∧ valCalOk a.v = true ∧ a.v.YearLe 9990) : ∃ o, applyId .ruleNextDOW ts (args.map (·.v)) = .ok o := by
  rcases args with _ | ⟨a1, _ | ⟨a2, _ | ⟨x, rest⟩⟩⟩ <;> simp at hl
  simp only [List.zipWith, List.all_cons, List.all_nil, id, Bool.and_true, Bool.and_eq_true] at hp
  obtain ⟨hp1, hp2⟩ := hp
  obtain ⟨k1, hv1⟩ := pred_regex _ a1 hp1
  have ok1 := (hok a1 (by simp)).1; rw [hv1] at ok1
  have cal1 := (hok a1 (by simp)).2.1; rw [hv1] at cal1
  have yr1 := (hok a1 (by simp)).2.2; rw [hv1] at yr1
  obtain ⟨t2, hv2, hq2⟩ := pred_isDOW a2 hp2
  have ok2 := (hok a2 (by simp)).1; rw [hv2] at ok2
  have cal2 := (hok a2 (by simp)).2.1; rw [hv2] at cal2
  have yr2 := (hok a2 (by simp)).2.2; rw [hv2] at yr2
  simp only [List.map, hv1, hv2]
  exact ruleNextDOW_total ts hts _ hq2 ok2

theorem name_ruleDOWNextWeek : RuleId.nameOf .ruleDOWNextWeek = "ruleDOWNextWeek" := by decide +kernel
theorem sig_ruleDOWNextWeek : ∀ r ∈ ruleSigs, r.1 = "ruleDOWNextWeek" → r.2 = [.attr "isDOW", .regex 123] := by decide +kernel

theorem applyId_total_ruleDOWNextWeek (ts : Ts) (hts : TsOk ts) (args : List Art)
    (hp : (List.zipWith predHolds [.attr "isDOW", .regex 123] args).all id = true) (hl : args.length = 2)
    (hok : ∀ a ∈ args, a.v.Ok ∧ valCalOk a.v = true ∧ a.v.YearLe 9990) : ∃ o, applyId .ruleDOWNextWeek ts (args.map (·.v)) = .ok o := by
  rcases args with _ | ⟨a1, _ | ⟨a2, _ | ⟨x, rest⟩⟩⟩ <;> simp at hl
  simp only [List.zipWith, List.all_cons, List.all_nil, id, Bool.and_true, Bool.and_eq_true] at hp
  obtain ⟨hp1, hp2⟩ := hp
  obtain ⟨t1, hv1, hq1⟩ := pred_isDOW a1 hp1
  have ok1 := (hok a1 (by simp)).1; rw [hv1] at ok1
  have cal1 := (hok a1 (by simp)).2.1; rw [hv1] at cal1
  have yr1 := (hok a1 (by simp)).2.2; rw [hv1] at yr1
  obtain ⟨k2, hv2⟩ := pred_regex _ a2 hp2
  have ok2 := (hok a2 (by simp)).1; rw [hv2] at ok2
  have cal2 := (hok a2 (by simp)).2.1; rw [hv2] at cal2
  have yr2 := (hok a2 (by simp)).2.2; rw [hv2] at yr2
  simp only [List.map, hv1, hv2]
  exact ruleNextDOW_total ts hts _ hq1 ok1

theorem name_ruleDOYYear : RuleId.nameOf .ruleDOYYear = "ruleDOYYear" := by decide +kernel
theorem sig_ruleDOYYear : ∀ r ∈ ruleSigs, r.1 = "ruleDOYYear" → r.2 = [.attr "isDOY", .attr "isYear"] := by decide +kernel

theorem applyId_total_ruleDOYYear (ts : Ts) (hts : TsOk ts) (args : List Art)
    (hp : (List.zipWith predHolds [.attr "isDOY", .attr "isYear"] args).all id = true) (hl : args.length = 2)
    (hok : ∀ a ∈ args, a.v.Ok ∧ valCalOk a.v = true ∧ a.v.YearLe 9990) : ∃ o, applyId .ruleDOYYear ts (args.map (·.v)) = .ok o := by
  rcases args with _ | ⟨a1, _ | ⟨a2, _ | ⟨x, rest⟩⟩⟩ <;> simp at hl
  simp only [List.zipWith, List.all_cons, List.all_nil, id, Bool.and_true, Bool.and_eq_true] at hp
  obtain ⟨hp1, hp2⟩ := hp
  obtain ⟨t1, hv1, hq1⟩ := pred_isDOY a1 hp1
  have ok1 := (hok a1 (by simp)).1; rw [hv1] at ok1
  have cal1 := (hok a1 (by simp)).2.1; rw [hv1] at cal1
  have yr1 := (hok a1 (by simp)).2.2; rw [hv1] at yr1
  obtain ⟨t2, hv2, hq2⟩ := pred_isYear a2 hp2
  have ok2 := (hok a2 (by simp)).1; rw [hv2] at ok2
  have cal2 := (hok a2 (by simp)).2.1; rw [hv2] at cal2
  have yr2 := (hok a2 (by simp)).2.2; rw [hv2] at yr2
  simp only [List.map, hv1, hv2]
  exact ⟨_, rfl⟩

theorem name_ruleDOWPOD : RuleId.nameOf .ruleDOWPOD = "ruleDOWPOD" := by decide +kernel
theorem sig_ruleDOWPOD : ∀ r ∈ ruleSigs, r.1 = "ruleDOWPOD" → r.2 = [.attr "isDOW", .attr "isPOD"] := by decide +kernel

theorem applyId_total_ruleDOWPOD (ts : Ts) (hts : TsOk ts) (args : List Art)
    (hp : (List.zipWith predHolds [.attr "isDOW", .attr "isPOD"] args).all id = true) (hl : args.length = 2)
    (hok : ∀ a ∈ args, a.v.Ok ∧ valCalOk a.v = true ∧ a.v.YearLe 9990) : ∃ o, applyId .ruleDOWPOD ts (args.map (·.v)) = .ok o := by
  rcases args with _ | ⟨a1, _ | ⟨a2, _ | ⟨x, rest⟩⟩⟩ <;> simp at hl
  simp only [List.zipWith, List.all_cons, List.all_nil, id, Bool.and_true, Bool.and_eq_true] at hp
  obtain ⟨hp1, hp2⟩ := hp
  obtain ⟨t1, hv1, hq1⟩ := pred_isDOW a1 hp1
  have ok1 := (hok a1 (by simp)).1; rw [hv1] at ok1
  have cal1 := (hok a1 (by simp)).2.1; rw [hv1] at cal1
  have yr1 := (hok a1 (by simp)).2.2; rw [hv1] at yr1
  obtain ⟨t2, hv2, hq2⟩ := pred_isPOD a2 hp2
  have ok2 := (hok a2 (by simp)).1; rw [hv2] at ok2
  have cal2 := (hok a2 (by simp)).2.1; rw [hv2] at cal2
  have yr2 := (hok a2 (by simp)).2.2; rw [hv2] at yr2
  simp only [List.map, hv1, hv2]
  exact ⟨_, rfl⟩

theorem name_ruleDOWDate : RuleId.nameOf .ruleDOWDate = "ruleDOWDate" := by decide +kernel
theorem sig_ruleDOWDate : ∀ r ∈ ruleSigs, r.1 = "ruleDOWDate" → r.2 = [.attr "hasDOW", .attr "isDate"] := by decide +kernel

theorem applyId_total_ruleDOWDate (ts : Ts) (hts : TsOk ts) (args : List Art)
    (hp : (List.zipWith predHolds [.attr "hasDOW", .attr "isDate"] args).all id = true) (hl : args.length = 2)
    (hok : ∀ a ∈ args, a.v.Ok ∧ valCalOk a.v = true ∧ a.v.YearLe 9990) : ∃ o, applyId .ruleDOWDate ts (args.map (·.v)) = .ok o := by
  rcases args with _ | ⟨a1, _ | ⟨a2, _ | ⟨x, rest⟩⟩⟩ <;> simp at hl
  simp only [List.zipWith, List.all_cons, List.all_nil, id, Bool.and_true, Bool.and_eq_true] at hp
  obtain ⟨hp1, hp2⟩ := hp
  obtain ⟨t1, hv1, hq1⟩ := pred_hasDOW a1 hp1
  have ok1 := (hok a1 (by simp)).1; rw [hv1] at ok1
  have cal1 := (hok a1 (by simp)).2.1; rw [hv1] at cal1
  have yr1 := (hok a1 (by simp)).2.2; rw [hv1] at yr1
  obtain ⟨t2, hv2, hq2⟩ := pred_isDate a2 hp2
  have ok2 := (hok a2 (by simp)).1; rw [hv2] at ok2
  have cal2 := (hok a2 (by simp)).2.1; rw [hv2] at cal2
  have yr2 := (hok a2 (by simp)).2.2; rw [hv2] at yr2
  simp only [List.map, hv1, hv2]
  exact ⟨_, rfl⟩

theorem name_ruleDateDOW : RuleId.nameOf .ruleDateDOW = "ruleDateDOW" := by decide +kernel
theorem sig_ruleDateDOW : ∀ r ∈ ruleSigs, r.1 = "ruleDateDOW" → r.2 = [.attr "isDate", .attr "hasDOW"] := by decide +kernel

theorem applyId_total_ruleDateDOW (ts : Ts) (hts : TsOk ts) (args : List Art)
    (hp : (List.zipWith predHolds [.attr "isDate", .attr "hasDOW"] args).all id = true) (hl : args.length = 2)
    (hok : ∀ a ∈ args, a.v.Ok ∧ valCalOk a.v = true ∧ a.v.YearLe 9990) : ∃ o, applyId .ruleDateDOW ts (args.map (·.v)) = .ok o := by
  rcases args with _ | ⟨a1, _ | ⟨a2, _ | ⟨x, rest⟩⟩⟩ <;> simp at hl
  simp only [List.zipWith, List.all_cons, List.all_nil, id, Bool.and_true, Bool.and_eq_true] at hp
  obtain ⟨hp1, hp2⟩ := hp
  obtain ⟨t1, hv1, hq1⟩ := pred_isDate a1 hp1
  have ok1 := (hok a1 (by simp)).1; rw [hv1] at ok1
  have cal1 := (hok a1 (by simp)).2.1; rw [hv1] at cal1
  have yr1 := (hok a1 (by simp)).2.2; rw [hv1] at yr1
  obtain ⟨t2, hv2, hq2⟩ := pred_hasDOW a2 hp2
  have ok2 := (hok a2 (by simp)).1; rw [hv2] at ok2
  have cal2 := (hok a2 (by simp)).2.1; rw [hv2] at cal2
  have yr2 := (hok a2 (by simp)).2.2; rw [hv2] at yr2
  simp only [List.map, hv1, hv2]
  exact ⟨_, rfl⟩

theorem name_ruleLatentDOM : RuleId.nameOf .ruleLatentDOM = "ruleLatentDOM" := by decide +kernel
theorem sig_ruleLatentDOM : ∀ r ∈ ruleSigs, r.1 = "ruleLatentDOM" → r.2 = [.attr "isDOM"] := by decide +kernel

theorem applyId_total_ruleLatentDOM (ts : Ts) (hts : TsOk ts) (args : List Art)
    (hp : (List.zipWith predHolds [.attr "isDOM"] args).all id = true) (hl : args.length = 1)
    (hok : ∀ a ∈ args, a.v.Ok ∧ valCalOk a.v = true ∧ a.v.YearLe 9990) : ∃ o, applyId .ruleLatentDOM ts (args.map (·.v)) = .ok o := by
  rcases args with _ | ⟨a1, _ | ⟨x, rest⟩⟩ <;> simp at hl
  simp only [List.zipWith, List.all_cons, List.all_nil, id, Bool.and_true, Bool.and_eq_true] at hp
  have hp1 := hp
  obtain ⟨t1, hv1, hq1⟩ := pred_isDOM a1 hp1
  have ok1 := (hok a1 (by simp)).1; rw [hv1] at ok1
  have cal1 := (hok a1 (by simp)).2.1; rw [hv1] at cal1
  have yr1 := (hok a1 (by simp)).2.2; rw [hv1] at yr1
  simp only [List.map, hv1]
  exact ruleLatentDOM_total ts hts _ hq1 ok1

theorem name_ruleLatentDOW : RuleId.nameOf .ruleLatentDOW = "ruleLatentDOW" := by decide +kernel
theorem sig_ruleLatentDOW : ∀ r ∈ ruleSigs, r.1 = "ruleLatentDOW" → r.2 = [.attr "isDOW"] := by decide +kernel

theorem applyId_total_ruleLatentDOW (ts : Ts) (hts : TsOk ts) (args : List Art)
    (hp : (List.zipWith predHolds [.attr "isDOW"] args).all id = true) (hl : args.length = 1)
    (hok : ∀ a ∈ args, a.v.Ok ∧ valCalOk a.v = true ∧ a.v.YearLe 9990) : ∃ o, applyId .ruleLatentDOW ts (args.map (·.v)) = .ok o := by
  rcases args with _ | ⟨a1, _ | ⟨x, rest⟩⟩ <;> simp at hl
  simp only [List.zipWith, List.all_cons, List.all_nil, id, Bool.and_true, Bool.and_eq_true] at hp
  have hp1 := hp
  obtain ⟨t1, hv1, hq1⟩ := pred_isDOW a1 hp1
  have ok1 := (hok a1 (by simp)).1; rw [hv1] at ok1
  have cal1 := (hok a1 (by simp)).2.1; rw [hv1] at cal1
  have yr1 := (hok a1 (by simp)).2.2; rw [hv1] at yr1
  simp only [List.map, hv1]
  exact ruleLatentDOW_total ts hts _ hq1 ok1

theorem name_ruleLatentDOY : RuleId.nameOf .ruleLatentDOY = "ruleLatentDOY" := by decide +kernel
theorem sig_ruleLatentDOY : ∀ r ∈ ruleSigs, r.1 = "ruleLatentDOY" → r.2 = [.attr "isDOY"] := by decide +kernel

theorem applyId_total_ruleLatentDOY (ts : Ts) (hts : TsOk ts) (args : List Art)
    (hp : (List.zipWith predHolds [.attr "isDOY"] args).all id = true) (hl : args.length = 1)
    (hok : ∀ a ∈ args, a.v.Ok ∧ valCalOk a.v = true ∧ a.v.YearLe 9990) : ∃ o, applyId .ruleLatentDOY ts (args.map (·.v)) = .ok o := by
  rcases args with _ | ⟨a1, _ | ⟨x, rest⟩⟩ <;> simp at hl
  simp only [List.zipWith, List.all_cons, List.all_nil, id, Bool.and_true, Bool.and_eq_true] at hp
  have hp1 := hp
  obtain ⟨t1, hv1, hq1⟩ := pred_isDOY a1 hp1
  have ok1 := (hok a1 (by simp)).1; rw [hv1] at ok1
  have cal1 := (hok a1 (by simp)).2.1; rw [hv1] at cal1
  have yr1 := (hok a1 (by simp)).2.2; rw [hv1] at yr1
  simp only [List.map, hv1]
  exact ruleLatentDOY_total ts hts _ hq1 ok1

theorem name_ruleLatentPOD : RuleId.nameOf .ruleLatentPOD = "ruleLatentPOD" := by decide +kernel
theorem sig_ruleLatentPOD : ∀ r ∈ ruleSigs, r.1 = "ruleLatentPOD" → r.2 = [.attr "isPOD"] := by decide +kernel

theorem applyId_total_ruleLatentPOD (ts : Ts) (hts : TsOk ts) (args : List Art)
    (hp : (List.zipWith predHolds [.attr "isPOD"] args).all id = true) (hl : args.length = 1)
    (hok : ∀ a ∈ args, a.v.Ok ∧ valCalOk a.v = true ∧ a.v.YearLe 9990) : ∃ o, applyId .ruleLatentPOD ts (args.map (·.v)) = .ok o := by
  rcases args with _ | ⟨a1, _ | ⟨x, rest⟩⟩ <;> simp at hl
  simp only [List.zipWith, List.all_cons, List.all_nil, id, Bool.and_true, Bool.and_eq_true] at hp
  have hp1 := hp
  obtain ⟨t1, hv1, hq1⟩ := pred_isPOD a1 hp1
  have ok1 := (hok a1 (by simp)).1; rw [hv1] at ok1
  have cal1 := (hok a1 (by simp)).2.1; rw [hv1] at cal1
  have yr1 := (hok a1 (by simp)).2.2; rw [hv1] at yr1
  simp only [List.map, hv1]
  exact ruleLatentPOD_total ts hts _ hq1 ok1

theorem name_ruleQuarterBeforeHH : RuleId.nameOf .ruleQuarterBeforeHH = "ruleQuarterBeforeHH" := by decide +kernel
theorem sig_ruleQuarterBeforeHH : ∀ r ∈ ruleSigs, r.1 = "ruleQuarterBeforeHH" → r.2 = [.regex 130, .attr "isTOD"] := by decide +kernel

theorem applyId_total_ruleQuarterBeforeHH (ts : Ts) (hts : TsOk ts) (args : List Art)
    (hp : (List.zipWith predHolds [.regex 130, .attr "isTOD"] args).all id = true) (hl : args.length = 2)
    (hok : ∀ a ∈ args, a.v.Ok ∧ valCalOk a.v = true ∧ a.v.YearLe 9990) : ∃ o, applyId .ruleQuarterBeforeHH ts (args.map (·.v)) = .ok o := by
  rcases args with _ | ⟨a1, _ | ⟨a2, _ | ⟨x, rest⟩⟩⟩ <;> simp at hl
  simp only [List.zipWith, List.all_cons, List.all_nil, id, Bool.and_true, Bool.and_eq_true] at hp
  obtain ⟨hp1, hp2⟩ := hp
  obtain ⟨k1, hv1⟩ := pred_regex _ a1 hp1
  have ok1 := (hok a1 (by simp)).1; rw [hv1] at ok1
  have cal1 := (hok a1 (by simp)).2.1; rw [hv1] at cal1
  have yr1 := (hok a1 (by simp)).2.2; rw [hv1] at yr1
  obtain ⟨t2, hv2, hq2⟩ := pred_isTOD a2 hp2
  have ok2 := (hok a2 (by simp)).1; rw [hv2] at ok2
  have cal2 := (hok a2 (by simp)).2.1; rw [hv2] at cal2
  have yr2 := (hok a2 (by simp)).2.2; rw [hv2] at yr2
  simp only [List.map, hv1, hv2]
  exact ruleQuarterBeforeHH_total _ hq2

theorem name_ruleQuarterAfterHH : RuleId.nameOf .ruleQuarterAfterHH = "ruleQuarterAfterHH" := by decide +kernel
theorem sig_ruleQuarterAfterHH : ∀ r ∈ ruleSigs, r.1 = "ruleQuarterAfterHH" → r.2 = [.regex 131, .attr "isTOD"] := by decide +kernel

theorem applyId_total_ruleQuarterAfterHH (ts : Ts) (hts : TsOk ts) (args : List Art)
    (hp : (List.zipWith predHolds [.regex 131, .attr "isTOD"] args).all id = true) (hl : args.length = 2)
    (hok : ∀ a ∈ args, a.v.Ok ∧ valCalOk a.v = true ∧ a.v.YearLe 9990) : ∃ o, applyId .ruleQuarterAfterHH ts (args.map (·.v)) = .ok o := by
  rcases args with _ | ⟨a1, _ | ⟨a2, _ | ⟨x, rest⟩⟩⟩ <;> simp at hl
  simp only [List.zipWith, List.all_cons, List.all_nil, id, Bool.and_true, Bool.and_eq_true] at hp
  obtain ⟨hp1, hp2⟩ := hp
  obtain ⟨k1, hv1⟩ := pred_regex _ a1 hp1
  have ok1 := (hok a1 (by simp)).1; rw [hv1] at ok1
  have cal1 := (hok a1 (by simp)).2.1; rw [hv1] at cal1
  have yr1 := (hok a1 (by simp)).2.2; rw [hv1] at yr1
  obtain ⟨t2, hv2, hq2⟩ := pred_isTOD a2 hp2
  have ok2 := (hok a2 (by simp)).1; rw [hv2] at ok2
  have cal2 := (hok a2 (by simp)).2.1; rw [hv2] at cal2
  have yr2 := (hok a2 (by simp)).2.2; rw [hv2] at yr2
  simp only [List.map, hv1, hv2]
  exact ruleQuarterAfterHH_total _

theorem name_ruleHalfBeforeHH : RuleId.nameOf .ruleHalfBeforeHH = "ruleHalfBeforeHH" := by decide +kernel
theorem sig_ruleHalfBeforeHH : ∀ r ∈ ruleSigs, r.1 = "ruleHalfBeforeHH" → r.2 = [.regex 132, .attr "isTOD"] := by decide +kernel

theorem applyId_total_ruleHalfBeforeHH (ts : Ts) (hts : TsOk ts) (args : List Art)
    (hp : (List.zipWith predHolds [.regex 132, .attr "isTOD"] args).all id = true) (hl : args.length = 2)
    (hok : ∀ a ∈ args, a.v.Ok ∧ valCalOk a.v = true ∧ a.v.YearLe 9990) : ∃ o, applyId .ruleHalfBeforeHH ts (args.map (·.v)) = .ok o := by
  rcases args with _ | ⟨a1, _ | ⟨a2, _ | ⟨x, rest⟩⟩⟩ <;> simp at hl
  simp only [List.zipWith, List.all_cons, List.all_nil, id, Bool.and_true, Bool.and_eq_true] at hp
  obtain ⟨hp1, hp2⟩ := hp
  obtain ⟨k1, hv1⟩ := pred_regex _ a1 hp1
  have ok1 := (hok a1 (by simp)).1; rw [hv1] at ok1
  have cal1 := (hok a1 (by simp)).2.1; rw [hv1] at cal1
  have yr1 := (hok a1 (by simp)).2.2; rw [hv1] at yr1
  obtain ⟨t2, hv2, hq2⟩ := pred_isTOD a2 hp2
  have ok2 := (hok a2 (by simp)).1; rw [hv2] at ok2
  have cal2 := (hok a2 (by simp)).2.1; rw [hv2] at cal2
  have yr2 := (hok a2 (by simp)).2.2; rw [hv2] at yr2
  simp only [List.map, hv1, hv2]
  exact ruleHalfBeforeHH_total _ hq2

theorem name_ruleHalfAfterHH : RuleId.nameOf .ruleHalfAfterHH = "ruleHalfAfterHH" := by decide +kernel
theorem sig_ruleHalfAfterHH : ∀ r ∈ ruleSigs, r.1 = "ruleHalfAfterHH" → r.2 = [.regex 133, .attr "isTOD"] := by decide +kernel

theorem applyId_total_ruleHalfAfterHH (ts : Ts) (hts : TsOk ts) (args : List Art)
    (hp : (List.zipWith predHolds [.regex 133, .attr "isTOD"] args).all id = true) (hl : args.length = 2)
    (hok : ∀ a ∈ args, a.v.Ok ∧ valCalOk a.v = true ∧ a.v.YearLe 9990) : ∃ o, applyId .ruleHalfAfterHH ts (args.map (·.v)) = .ok o := by
  rcases args with _ | ⟨a1, _ | ⟨a2, _ | ⟨x, rest⟩⟩⟩ <;> simp at hl
  simp only [List.zipWith, List.all_cons, List.all_nil, id, Bool.and_true, Bool.and_eq_true] at hp
  obtain ⟨hp1, hp2⟩ := hp
  obtain ⟨k1, hv1⟩ := pred_regex _ a1 hp1
  have ok1 := (hok a1 (by simp)).1; rw [hv1] at ok1
  have cal1 := (hok a1 (by simp)).2.1; rw [hv1] at cal1
  have yr1 := (hok a1 (by simp)).2.2; rw [hv1] at yr1
  obtain ⟨t2, hv2, hq2⟩ := pred_isTOD a2 hp2
  have ok2 := (hok a2 (by simp)).1; rw [hv2] at ok2
  have cal2 := (hok a2 (by simp)).2.1; rw [hv2] at cal2
  have yr2 := (hok a2 (by simp)).2.2; rw [hv2] at yr2
  simp only [List.map, hv1, hv2]
  exact ruleHalfAfterHH_total _

theorem name_ruleTODPOD : RuleId.nameOf .ruleTODPOD = "ruleTODPOD" := by decide +kernel
theorem sig_ruleTODPOD : ∀ r ∈ ruleSigs, r.1 = "ruleTODPOD" → r.2 = [.attr "isTOD", .attr "isPOD"] := by decide +kernel

theorem applyId_total_ruleTODPOD (ts : Ts) (hts : TsOk ts) (args : List Art)
    (hp : (List.zipWith predHolds [.attr "isTOD", .attr "isPOD"] args).all id = true) (hl : args.length = 2)
    (hok : ∀ a ∈ args, a.v.Ok ∧ valCalOk a.v = true ∧ a.v.YearLe 9990) : ∃ o, applyId .ruleTODPOD ts (args.map (·.v)) = .ok o := by
  rcases args with _ | ⟨a1, _ | ⟨a2, _ | ⟨x, rest⟩⟩⟩ <;> simp at hl
  simp only [List.zipWith, List.all_cons, List.all_nil, id, Bool.and_true, Bool.and_eq_true] at hp
  obtain ⟨hp1, hp2⟩ := hp
  obtain ⟨t1, hv1, hq1⟩ := pred_isTOD a1 hp1
  have ok1 := (hok a1 (by simp)).1; rw [hv1] at ok1
  have cal1 := (hok a1 (by simp)).2.1; rw [hv1] at cal1
  have yr1 := (hok a1 (by simp)).2.2; rw [hv1] at yr1
  obtain ⟨t2, hv2, hq2⟩ := pred_isPOD a2 hp2
  have ok2 := (hok a2 (by simp)).1; rw [hv2] at ok2
  have cal2 := (hok a2 (by simp)).2.1; rw [hv2] at cal2
  have yr2 := (hok a2 (by simp)).2.2; rw [hv2] at yr2
  simp only [List.map, hv1, hv2]
  exact (C01.clock_rules_total _ _ hq1 hq2).2.2.2.2

theorem name_rulePODTOD : RuleId.nameOf .rulePODTOD = "rulePODTOD" := by decide +kernel
theorem sig_rulePODTOD : ∀ r ∈ ruleSigs, r.1 = "rulePODTOD" → r.2 = [.attr "isPOD", .attr "isTOD"] := by decide +kernel

theorem applyId_total_rulePODTOD (ts : Ts) (hts : TsOk ts) (args : List Art)
    (hp : (List.zipWith predHolds [.attr "isPOD", .attr "isTOD"] args).all id = true) (hl : args.length = 2)
    (hok : ∀ a ∈ args, a.v.Ok ∧ valCalOk a.v = true ∧ a.v.YearLe 9990) : ∃ o, applyId .rulePODTOD ts (args.map (·.v)) = .ok o := by
  rcases args with _ | ⟨a1, _ | ⟨a2, _ | ⟨x, rest⟩⟩⟩ <;> simp at hl
  simp only [List.zipWith, List.all_cons, List.all_nil, id, Bool.and_true, Bool.and_eq_true] at hp
  obtain ⟨hp1, hp2⟩ := hp
  obtain ⟨t1, hv1, hq1⟩ := pred_isPOD a1 hp1
  have ok1 := (hok a1 (by simp)).1; rw [hv1] at ok1
  have cal1 := (hok a1 (by simp)).2.1; rw [hv1] at cal1
  have yr1 := (hok a1 (by simp)).2.2; rw [hv1] at yr1
  obtain ⟨t2, hv2, hq2⟩ := pred_isTOD a2 hp2
  have ok2 := (hok a2 (by simp)).1; rw [hv2] at ok2
  have cal2 := (hok a2 (by simp)).2.1; rw [hv2] at cal2
  have yr2 := (hok a2 (by simp)).2.2; rw [hv2] at yr2
  simp only [List.map, hv1, hv2]
  exact (C01.clock_rules_total _ _ hq2 hq1).2.2.2.2

theorem name_ruleDateTOD : RuleId.nameOf .ruleDateTOD = "ruleDateTOD" := by decide +kernel
theorem sig_ruleDateTOD : ∀ r ∈ ruleSigs, r.1 = "ruleDateTOD" → r.2 = [.attr "isDate", .attr "isTOD"] := by decide +kernel

theorem applyId_total_ruleDateTOD (ts : Ts) (hts : TsOk ts) (args : List Art)
    (hp : (List.zipWith predHolds [.attr "isDate", .attr "isTOD"] args).all id = true) (hl : args.length = 2)
    (hok : ∀ a ∈ args, a.v.Ok ∧ valCalOk a.v = true ∧ a.v.YearLe 9990) : ∃ o, applyId .ruleDateTOD ts (args.map (·.v)) = .ok o := by
  rcases args with _ | ⟨a1, _ | ⟨a2, _ | ⟨x, rest⟩⟩⟩ <;> simp at hl
  simp only [List.zipWith, List.all_cons, List.all_nil, id, Bool.and_true, Bool.and_eq_true] at hp
  obtain ⟨hp1, hp2⟩ := hp
  obtain ⟨t1, hv1, hq1⟩ := pred_isDate a1 hp1
  have ok1 := (hok a1 (by simp)).1; rw [hv1] at ok1
  have cal1 := (hok a1 (by simp)).2.1; rw [hv1] at cal1
  have yr1 := (hok a1 (by simp)).2.2; rw [hv1] at yr1
  obtain ⟨t2, hv2, hq2⟩ := pred_isTOD a2 hp2
  have ok2 := (hok a2 (by simp)).1; rw [hv2] at ok2
  have cal2 := (hok a2 (by simp)).2.1; rw [hv2] at cal2
  have yr2 := (hok a2 (by simp)).2.2; rw [hv2] at yr2
  simp only [List.map, hv1, hv2]
  exact ⟨_, rfl⟩

theorem name_ruleTODDate : RuleId.nameOf .ruleTODDate = "ruleTODDate" := by decide +kernel
theorem sig_ruleTODDate : ∀ r ∈ ruleSigs, r.1 = "ruleTODDate" → r.2 = [.attr "isTOD", .attr "isDate"] := by decide +kernel

theorem applyId_total_ruleTODDate (ts : Ts) (hts : TsOk ts) (args : List Art)
    (hp : (List.zipWith predHolds [.attr "isTOD", .attr "isDate"] args).all id = true) (hl : args.length = 2)
    (hok : ∀ a ∈ args, a.v.Ok ∧ valCalOk a.v = true ∧ a.v.YearLe 9990) : ∃ o, applyId .ruleTODDate ts (args.map (·.v)) = .ok o := by
  rcases args with _ | ⟨a1, _ | ⟨a2, _ | ⟨x, rest⟩⟩⟩ <;> simp at hl
  simp only [List.zipWith, List.all_cons, List.all_nil, id, Bool.and_true, Bool.and_eq_true] at hp
  obtain ⟨hp1, hp2⟩ := hp
  obtain ⟨t1, hv1, hq1⟩ := pred_isTOD a1 hp1
  have ok1 := (hok a1 (by simp)).1; rw [hv1] at ok1
  have cal1 := (hok a1 (by simp)).2.1; rw [hv1] at cal1
  have yr1 := (hok a1 (by simp)).2.2; rw [hv1] at yr1
  obtain ⟨t2, hv2, hq2⟩ := pred_isDate a2 hp2
  have ok2 := (hok a2 (by simp)).1; rw [hv2] at ok2
  have cal2 := (hok a2 (by simp)).2.1; rw [hv2] at cal2
  have yr2 := (hok a2 (by simp)).2.2; rw [hv2] at yr2
  simp only [List.map, hv1, hv2]
  exact ⟨_, rfl⟩

theorem name_ruleDatePOD : RuleId.nameOf .ruleDatePOD = "ruleDatePOD" := by decide +kernel
theorem sig_ruleDatePOD : ∀ r ∈ ruleSigs, r.1 = "ruleDatePOD" → r.2 = [.attr "isDate", .attr "isPOD"] := by decide +kernel

theorem applyId_total_ruleDatePOD (ts : Ts) (hts : TsOk ts) (args : List Art)
    (hp : (List.zipWith predHolds [.attr "isDate", .attr "isPOD"] args).all id = true) (hl : args.length = 2)
    (hok : ∀ a ∈ args, a.v.Ok ∧ valCalOk a.v = true ∧ a.v.YearLe 9990) : ∃ o, applyId .ruleDatePOD ts (args.map (·.v)) = .ok o := by
  rcases args with _ | ⟨a1, _ | ⟨a2, _ | ⟨x, rest⟩⟩⟩ <;> simp at hl
  simp only [List.zipWith, List.all_cons, List.all_nil, id, Bool.and_true, Bool.and_eq_true] at hp
  obtain ⟨hp1, hp2⟩ := hp
  obtain ⟨t1, hv1, hq1⟩ := pred_isDate a1 hp1
  have ok1 := (hok a1 (by simp)).1; rw [hv1] at ok1
  have cal1 := (hok a1 (by simp)).2.1; rw [hv1] at cal1
  have yr1 := (hok a1 (by simp)).2.2; rw [hv1] at yr1
  obtain ⟨t2, hv2, hq2⟩ := pred_isPOD a2 hp2
  have ok2 := (hok a2 (by simp)).1; rw [hv2] at ok2
  have cal2 := (hok a2 (by simp)).2.1; rw [hv2] at cal2
  have yr2 := (hok a2 (by simp)).2.2; rw [hv2] at yr2
  simp only [List.map, hv1, hv2]
  exact ⟨_, rfl⟩

theorem name_rulePODDate : RuleId.nameOf .rulePODDate = "rulePODDate" := by decide +kernel
theorem sig_rulePODDate : ∀ r ∈ ruleSigs, r.1 = "rulePODDate" → r.2 = [.attr "isPOD", .attr "isDate"] := by decide +kernel

theorem applyId_total_rulePODDate (ts : Ts) (hts : TsOk ts) (args : List Art)
    (hp : (List.zipWith predHolds [.attr "isPOD", .attr "isDate"] args).all id = true) (hl : args.length = 2)
    (hok : ∀ a ∈ args, a.v.Ok ∧ valCalOk a.v = true ∧ a.v.YearLe 9990) : ∃ o, applyId .rulePODDate ts (args.map (·.v)) = .ok o := by
  rcases args with _ | ⟨a1, _ | ⟨a2, _ | ⟨x, rest⟩⟩⟩ <;> simp at hl
  simp only [List.zipWith, List.all_cons, List.all_nil, id, Bool.and_true, Bool.and_eq_true] at hp
  obtain ⟨hp1, hp2⟩ := hp
  obtain ⟨t1, hv1, hq1⟩ := pred_isPOD a1 hp1
  have ok1 := (hok a1 (by simp)).1; rw [hv1] at ok1
  have cal1 := (hok a1 (by simp)).2.1; rw [hv1] at cal1
  have yr1 := (hok a1 (by simp)).2.2; rw [hv1] at yr1
  obtain ⟨t2, hv2, hq2⟩ := pred_isDate a2 hp2
  have ok2 := (hok a2 (by simp)).1; rw [hv2] at ok2
  have cal2 := (hok a2 (by simp)).2.1; rw [hv2] at cal2
  have yr2 := (hok a2 (by simp)).2.2; rw [hv2] at yr2
  simp only [List.map, hv1, hv2]
  exact ⟨_, rfl⟩

theorem name_ruleBeforeTime : RuleId.nameOf .ruleBeforeTime = "ruleBeforeTime" := by decide +kernel
theorem sig_ruleBeforeTime : ∀ r ∈ ruleSigs, r.1 = "ruleBeforeTime" → r.2 = [.regex 134, .dim "Time"] := by decide +kernel

theorem applyId_total_ruleBeforeTime (ts : Ts) (hts : TsOk ts) (args : List Art)
    (hp : (List.zipWith predHolds [.regex 134, .dim "Time"] args).all id = true) (hl : args.length = 2)
    (hok : ∀ a ∈ args, a.v.Ok ∧ valCalOk a.v = true ∧ a.v.YearLe 9990) : ∃ o, applyId .ruleBeforeTime ts (args.map (·.v)) = .ok o := by
  rcases args with _ | ⟨a1, _ | ⟨a2, _ | ⟨x, rest⟩⟩⟩ <;> simp at hl
  simp only [List.zipWith, List.all_cons, List.all_nil, id, Bool.and_true, Bool.and_eq_true] at hp
  obtain ⟨hp1, hp2⟩ := hp
  obtain ⟨k1, hv1⟩ := pred_regex _ a1 hp1
  have ok1 := (hok a1 (by simp)).1; rw [hv1] at ok1
  have cal1 := (hok a1 (by simp)).2.1; rw [hv1] at cal1
  have yr1 := (hok a1 (by simp)).2.2; rw [hv1] at yr1
  obtain ⟨t2, hv2⟩ := pred_dimTime a2 hp2
  have ok2 := (hok a2 (by simp)).1; rw [hv2] at ok2
  have cal2 := (hok a2 (by simp)).2.1; rw [hv2] at cal2
  have yr2 := (hok a2 (by simp)).2.2; rw [hv2] at yr2
  simp only [List.map, hv1, hv2]
  exact ruleBeforeTime_total _ _

theorem name_ruleAfterTime : RuleId.nameOf .ruleAfterTime = "ruleAfterTime" := by decide +kernel
theorem sig_ruleAfterTime : ∀ r ∈ ruleSigs, r.1 = "ruleAfterTime" → r.2 = [.regex 135, .dim "Time"] := by decide +kernel

theorem applyId_total_ruleAfterTime (ts : Ts) (hts : TsOk ts) (args : List Art)
    (hp : (List.zipWith predHolds [.regex 135, .dim "Time"] args).all id = true) (hl : args.length = 2)
    (hok : ∀ a ∈ args, a.v.Ok ∧ valCalOk a.v = true ∧ a.v.YearLe 9990) : ∃ o, applyId .ruleAfterTime ts (args.map (·.v)) = .ok o := by
  rcases args with _ | ⟨a1, _ | ⟨a2, _ | ⟨x, rest⟩⟩⟩ <;> simp at hl
  simp only [List.zipWith, List.all_cons, List.all_nil, id, Bool.and_true, Bool.and_eq_true] at hp
  obtain ⟨hp1, hp2⟩ := hp
  obtain ⟨k1, hv1⟩ := pred_regex _ a1 hp1
  have ok1 := (hok a1 (by simp)).1; rw [hv1] at ok1
  have cal1 := (hok a1 (by simp)).2.1; rw [hv1] at cal1
  have yr1 := (hok a1 (by simp)).2.2; rw [hv1] at yr1
  obtain ⟨t2, hv2⟩ := pred_dimTime a2 hp2
  have ok2 := (hok a2 (by simp)).1; rw [hv2] at ok2
  have cal2 := (hok a2 (by simp)).2.1; rw [hv2] at cal2
  have yr2 := (hok a2 (by simp)).2.2; rw [hv2] at yr2
  simp only [List.map, hv1, hv2]
  exact ruleAfterTime_total _ _

theorem name_ruleDateDate : RuleId.nameOf .ruleDateDate = "ruleDateDate" := by decide +kernel
theorem sig_ruleDateDate : ∀ r ∈ ruleSigs, r.1 = "ruleDateDate" → r.2 = [.attr "isDate", .regex 136, .attr "isDate"] := by decide +kernel

theorem applyId_total_ruleDateDate (ts : Ts) (hts : TsOk ts) (args : List Art)
    (hp : (List.zipWith predHolds [.attr "isDate", .regex 136, .attr "isDate"] args).all id = true) (hl : args.length = 3)
    (hok : ∀ a ∈ args, a.v.Ok ∧ valCalOk a.v = true ∧ a.v.YearLe 9990) : ∃ o, applyId .ruleDateDate ts (args.map (·.v)) = .ok o := by
  rcases args with _ | ⟨a1, _ | ⟨a2, _ | ⟨a3, _ | ⟨x, rest⟩⟩⟩⟩ <;> simp at hl
  simp only [List.zipWith, List.all_cons, List.all_nil, id, Bool.and_true, Bool.and_eq_true] at hp
  obtain ⟨hp1, hp2, hp3⟩ := hp
  obtain ⟨t1, hv1, hq1⟩ := pred_isDate a1 hp1
  have ok1 := (hok a1 (by simp)).1; rw [hv1] at ok1
  have cal1 := (hok a1 (by simp)).2.1; rw [hv1] at cal1
  have yr1 := (hok a1 (by simp)).2.2; rw [hv1] at yr1
  obtain ⟨k2, hv2⟩ := pred_regex _ a2 hp2
  have ok2 := (hok a2 (by simp)).1; rw [hv2] at ok2
  have cal2 := (hok a2 (by simp)).2.1; rw [hv2] at cal2
  have yr2 := (hok a2 (by simp)).2.2; rw [hv2] at yr2
  obtain ⟨t3, hv3, hq3⟩ := pred_isDate a3 hp3
  have ok3 := (hok a3 (by simp)).1; rw [hv3] at ok3
  have cal3 := (hok a3 (by simp)).2.1; rw [hv3] at cal3
  have yr3 := (hok a3 (by simp)).2.2; rw [hv3] at yr3
  simp only [List.map, hv1, hv2, hv3]
  exact (C01.comparison_rules_total _ _).1 hq1 hq3

theorem name_ruleDOMDate : RuleId.nameOf .ruleDOMDate = "ruleDOMDate" := by decide +kernel
theorem sig_ruleDOMDate : ∀ r ∈ ruleSigs, r.1 = "ruleDOMDate" → r.2 = [.attr "isDOM", .regex 136, .attr "isDate"] := by decide +kernel

theorem applyId_total_ruleDOMDate (ts : Ts) (hts : TsOk ts) (args : List Art)
    (hp : (List.zipWith predHolds [.attr "isDOM", .regex 136, .attr "isDate"] args).all id = true) (hl : args.length = 3)
    (hok : ∀ a ∈ args, a.v.Ok ∧ valCalOk a.v = true ∧ a.v.YearLe 9990) : ∃ o, applyId .ruleDOMDate ts (args.map (·.v)) = .ok o := by
  rcases args with _ | ⟨a1, _ | ⟨a2, _ | ⟨a3, _ | ⟨x, rest⟩⟩⟩⟩ <;> simp at hl
  simp only [List.zipWith, List.all_cons, List.all_nil, id, Bool.and_true, Bool.and_eq_true] at hp
  obtain ⟨hp1, hp2, hp3⟩ := hp
  obtain ⟨t1, hv1, hq1⟩ := pred_isDOM a1 hp1
  have ok1 := (hok a1 (by simp)).1; rw [hv1] at ok1
  have cal1 := (hok a1 (by simp)).2.1; rw [hv1] at cal1
  have yr1 := (hok a1 (by simp)).2.2; rw [hv1] at yr1
  obtain ⟨k2, hv2⟩ := pred_regex _ a2 hp2
  have ok2 := (hok a2 (by simp)).1; rw [hv2] at ok2
  have cal2 := (hok a2 (by simp)).2.1; rw [hv2] at cal2
  have yr2 := (hok a2 (by simp)).2.2; rw [hv2] at yr2
  obtain ⟨t3, hv3, hq3⟩ := pred_isDate a3 hp3
  have ok3 := (hok a3 (by simp)).1; rw [hv3] at ok3
  have cal3 := (hok a3 (by simp)).2.1; rw [hv3] at cal3
  have yr3 := (hok a3 (by simp)).2.2; rw [hv3] at yr3
  simp only [List.map, hv1, hv2, hv3]
  exact (C01.comparison_rules_total _ _).2.1 hq1 hq3

theorem name_ruleDateDOM : RuleId.nameOf .ruleDateDOM = "ruleDateDOM" := by decide +kernel
theorem sig_ruleDateDOM : ∀ r ∈ ruleSigs, r.1 = "ruleDateDOM" → r.2 = [.attr "isDate", .regex 136, .attr "isDOM"] := by decide +kernel

theorem applyId_total_ruleDateDOM (ts : Ts) (hts : TsOk ts) (args : List Art)
    (hp : (List.zipWith predHolds [.attr "isDate", .regex 136, .attr "isDOM"] args).all id = true) (hl : args.length = 3)
    (hok : ∀ a ∈ args, a.v.Ok ∧ valCalOk a.v = true ∧ a.v.YearLe 9990) : ∃ o, applyId .ruleDateDOM ts (args.map (·.v)) = .ok o := by
  rcases args with _ | ⟨a1, _ | ⟨a2, _ | ⟨a3, _ | ⟨x, rest⟩⟩⟩⟩ <;> simp at hl
  simp only [List.zipWith, List.all_cons, List.all_nil, id, Bool.and_true, Bool.and_eq_true] at hp
  obtain ⟨hp1, hp2, hp3⟩ := hp
  obtain ⟨t1, hv1, hq1⟩ := pred_isDate a1 hp1
  have ok1 := (hok a1 (by simp)).1; rw [hv1] at ok1
  have cal1 := (hok a1 (by simp)).2.1; rw [hv1] at cal1
  have yr1 := (hok a1 (by simp)).2.2; rw [hv1] at yr1
  obtain ⟨k2, hv2⟩ := pred_regex _ a2 hp2
  have ok2 := (hok a2 (by simp)).1; rw [hv2] at ok2
  have cal2 := (hok a2 (by simp)).2.1; rw [hv2] at cal2
  have yr2 := (hok a2 (by simp)).2.2; rw [hv2] at yr2
  obtain ⟨t3, hv3, hq3⟩ := pred_isDOM a3 hp3
  have ok3 := (hok a3 (by simp)).1; rw [hv3] at ok3
  have cal3 := (hok a3 (by simp)).2.1; rw [hv3] at cal3
  have yr3 := (hok a3 (by simp)).2.2; rw [hv3] at yr3
  simp only [List.map, hv1, hv2, hv3]
  exact (C01.comparison_rules_total _ _).2.2.1 hq1 hq3

theorem name_ruleDOYDate : RuleId.nameOf .ruleDOYDate = "ruleDOYDate" := by decide +kernel
theorem sig_ruleDOYDate : ∀ r ∈ ruleSigs, r.1 = "ruleDOYDate" → r.2 = [.attr "isDOY", .regex 136, .attr "isDate"] := by decide +kernel

theorem applyId_total_ruleDOYDate (ts : Ts) (hts : TsOk ts) (args : List Art)
    (hp : (List.zipWith predHolds [.attr "isDOY", .regex 136, .attr "isDate"] args).all id = true) (hl : args.length = 3)
    (hok : ∀ a ∈ args, a.v.Ok ∧ valCalOk a.v = true ∧ a.v.YearLe 9990) : ∃ o, applyId .ruleDOYDate ts (args.map (·.v)) = .ok o := by
  rcases args with _ | ⟨a1, _ | ⟨a2, _ | ⟨a3, _ | ⟨x, rest⟩⟩⟩⟩ <;> simp at hl
  simp only [List.zipWith, List.all_cons, List.all_nil, id, Bool.and_true, Bool.and_eq_true] at hp
  obtain ⟨hp1, hp2, hp3⟩ := hp
  obtain ⟨t1, hv1, hq1⟩ := pred_isDOY a1 hp1
  have ok1 := (hok a1 (by simp)).1; rw [hv1] at ok1
  have cal1 := (hok a1 (by simp)).2.1; rw [hv1] at cal1
  have yr1 := (hok a1 (by simp)).2.2; rw [hv1] at yr1
  obtain ⟨k2, hv2⟩ := pred_regex _ a2 hp2
  have ok2 := (hok a2 (by simp)).1; rw [hv2] at ok2
  have cal2 := (hok a2 (by simp)).2.1; rw [hv2] at cal2
  have yr2 := (hok a2 (by simp)).2.2; rw [hv2] at yr2
  obtain ⟨t3, hv3, hq3⟩ := pred_isDate a3 hp3
  have ok3 := (hok a3 (by simp)).1; rw [hv3] at ok3
  have cal3 := (hok a3 (by simp)).2.1; rw [hv3] at cal3
  have yr3 := (hok a3 (by simp)).2.2; rw [hv3] at yr3
  simp only [List.map, hv1, hv2, hv3]
  exact (C01.comparison_rules_total _ _).2.2.2.1 hq1 hq3

theorem name_ruleDateTimeDateTime : RuleId.nameOf .ruleDateTimeDateTime = "ruleDateTimeDateTime" := by decide +kernel
theorem sig_ruleDateTimeDateTime : ∀ r ∈ ruleSigs, r.1 = "ruleDateTimeDateTime" → r.2 = [.attr "isDateTime", .regex 136, .attr "isDateTime"] := by decide +kernel

theorem applyId_total_ruleDateTimeDateTime (ts : Ts) (hts : TsOk ts) (args : List Art)
    (hp : (List.zipWith predHolds [.attr "isDateTime", .regex 136, .attr "isDateTime"] args).all id = true) (hl : args.length = 3)
    (hok : ∀ a ∈ args, a.v.Ok ∧ valCalOk a.v = true ∧ a.v.YearLe 9990) : ∃ o, applyId .ruleDateTimeDateTime ts (args.map (·.v)) = .ok o := by
  rcases args with _ | ⟨a1, _ | ⟨a2, _ | ⟨a3, _ | ⟨x, rest⟩⟩⟩⟩ <;> simp at hl
  simp only [List.zipWith, List.all_cons, List.all_nil, id, Bool.and_true, Bool.and_eq_true] at hp
  obtain ⟨hp1, hp2, hp3⟩ := hp
  obtain ⟨t1, hv1, hq1⟩ := pred_isDateTime a1 hp1
  have ok1 := (hok a1 (by simp)).1; rw [hv1] at ok1
  have cal1 := (hok a1 (by simp)).2.1; rw [hv1] at cal1
  have yr1 := (hok a1 (by simp)).2.2; rw [hv1] at yr1
  obtain ⟨k2, hv2⟩ := pred_regex _ a2 hp2
  have ok2 := (hok a2 (by simp)).1; rw [hv2] at ok2
  have cal2 := (hok a2 (by simp)).2.1; rw [hv2] at cal2
  have yr2 := (hok a2 (by simp)).2.2; rw [hv2] at yr2
  obtain ⟨t3, hv3, hq3⟩ := pred_isDateTime a3 hp3
  have ok3 := (hok a3 (by simp)).1; rw [hv3] at ok3
  have cal3 := (hok a3 (by simp)).2.1; rw [hv3] at cal3
  have yr3 := (hok a3 (by simp)).2.2; rw [hv3] at yr3
  simp only [List.map, hv1, hv2, hv3]
  exact (C01.comparison_rules_total _ _).2.2.2.2.1 hq1 hq3

theorem name_ruleTODTOD : RuleId.nameOf .ruleTODTOD = "ruleTODTOD" := by decide +kernel
theorem sig_ruleTODTOD : ∀ r ∈ ruleSigs, r.1 = "ruleTODTOD" → r.2 = [.attr "isTOD", .regex 136, .attr "isTOD"] := by decide +kernel

theorem applyId_total_ruleTODTOD (ts : Ts) (hts : TsOk ts) (args : List Art)
    (hp : (List.zipWith predHolds [.attr "isTOD", .regex 136, .attr "isTOD"] args).all id = true) (hl : args.length = 3)
    (hok : ∀ a ∈ args, a.v.Ok ∧ valCalOk a.v = true ∧ a.v.YearLe 9990) : ∃ o, applyId .ruleTODTOD ts (args.map (·.v)) = .ok o := by
  rcases args with _ | ⟨a1, _ | ⟨a2, _ | ⟨a3, _ | ⟨x, rest⟩⟩⟩⟩ <;> simp at hl
  simp only [List.zipWith, List.all_cons, List.all_nil, id, Bool.and_true, Bool.and_eq_true] at hp
  obtain ⟨hp1, hp2, hp3⟩ := hp
  obtain ⟨t1, hv1, hq1⟩ := pred_isTOD a1 hp1
  have ok1 := (hok a1 (by simp)).1; rw [hv1] at ok1
  have cal1 := (hok a1 (by simp)).2.1; rw [hv1] at cal1
  have yr1 := (hok a1 (by simp)).2.2; rw [hv1] at yr1
  obtain ⟨k2, hv2⟩ := pred_regex _ a2 hp2
  have ok2 := (hok a2 (by simp)).1; rw [hv2] at ok2
  have cal2 := (hok a2 (by simp)).2.1; rw [hv2] at cal2
  have yr2 := (hok a2 (by simp)).2.2; rw [hv2] at yr2
  obtain ⟨t3, hv3, hq3⟩ := pred_isTOD a3 hp3
  have ok3 := (hok a3 (by simp)).1; rw [hv3] at ok3
  have cal3 := (hok a3 (by simp)).2.1; rw [hv3] at cal3
  have yr3 := (hok a3 (by simp)).2.2; rw [hv3] at yr3
  simp only [List.map, hv1, hv2, hv3]
  exact (C01.comparison_rules_total _ _).2.2.2.2.2 hq1 hq3

theorem name_rulePODPOD : RuleId.nameOf .rulePODPOD = "rulePODPOD" := by decide +kernel
theorem sig_rulePODPOD : ∀ r ∈ ruleSigs, r.1 = "rulePODPOD" → r.2 = [.attr "isPOD", .regex 136, .attr "isPOD"] := by decide +kernel

theorem applyId_total_rulePODPOD (ts : Ts) (hts : TsOk ts) (args : List Art)
    (hp : (List.zipWith predHolds [.attr "isPOD", .regex 136, .attr "isPOD"] args).all id = true) (hl : args.length = 3)
    (hok : ∀ a ∈ args, a.v.Ok ∧ valCalOk a.v = true ∧ a.v.YearLe 9990) : ∃ o, applyId .rulePODPOD ts (args.map (·.v)) = .ok o := by
  rcases args with _ | ⟨a1, _ | ⟨a2, _ | ⟨a3, _ | ⟨x, rest⟩⟩⟩⟩ <;> simp at hl
  simp only [List.zipWith, List.all_cons, List.all_nil, id, Bool.and_true, Bool.and_eq_true] at hp
  obtain ⟨hp1, hp2, hp3⟩ := hp
  obtain ⟨t1, hv1, hq1⟩ := pred_isPOD a1 hp1
  have ok1 := (hok a1 (by simp)).1; rw [hv1] at ok1
  have cal1 := (hok a1 (by simp)).2.1; rw [hv1] at cal1
  have yr1 := (hok a1 (by simp)).2.2; rw [hv1] at yr1
  obtain ⟨k2, hv2⟩ := pred_regex _ a2 hp2
  have ok2 := (hok a2 (by simp)).1; rw [hv2] at ok2
  have cal2 := (hok a2 (by simp)).2.1; rw [hv2] at cal2
  have yr2 := (hok a2 (by simp)).2.2; rw [hv2] at yr2
  obtain ⟨t3, hv3, hq3⟩ := pred_isPOD a3 hp3
  have ok3 := (hok a3 (by simp)).1; rw [hv3] at ok3
  have cal3 := (hok a3 (by simp)).2.1; rw [hv3] at cal3
  have yr3 := (hok a3 (by simp)).2.2; rw [hv3] at yr3
  simp only [List.map, hv1, hv2, hv3]
  exact ⟨_, rfl⟩

theorem name_ruleDateInterval : RuleId.nameOf .ruleDateInterval = "ruleDateInterval" := by decide +kernel
theorem sig_ruleDateInterval : ∀ r ∈ ruleSigs, r.1 = "ruleDateInterval" → r.2 = [.attr "isDate", .dim "Interval"] := by decide +kernel

theorem applyId_total_ruleDateInterval (ts : Ts) (hts : TsOk ts) (args : List Art)
    (hp : (List.zipWith predHolds [.attr "isDate", .dim "Interval"] args).all id = true) (hl : args.length = 2)
    (hok : ∀ a ∈ args, a.v.Ok ∧ valCalOk a.v = true ∧ a.v.YearLe 9990) : ∃ o, applyId .ruleDateInterval ts (args.map (·.v)) = .ok o := by
  rcases args with _ | ⟨a1, _ | ⟨a2, _ | ⟨x, rest⟩⟩⟩ <;> simp at hl
  simp only [List.zipWith, List.all_cons, List.all_nil, id, Bool.and_true, Bool.and_eq_true] at hp
  obtain ⟨hp1, hp2⟩ := hp
  obtain ⟨t1, hv1, hq1⟩ := pred_isDate a1 hp1
  have ok1 := (hok a1 (by simp)).1; rw [hv1] at ok1
  have cal1 := (hok a1 (by simp)).2.1; rw [hv1] at cal1
  have yr1 := (hok a1 (by simp)).2.2; rw [hv1] at yr1
  obtain ⟨f2, g2, hv2⟩ := pred_dimInterval a2 hp2
  have ok2 := (hok a2 (by simp)).1; rw [hv2] at ok2
  have cal2 := (hok a2 (by simp)).2.1; rw [hv2] at cal2
  have yr2 := (hok a2 (by simp)).2.2; rw [hv2] at yr2
  simp only [List.map, hv1, hv2]
  exact ruleDateInterval_total _ _ _ ok1 cal1 hq1 yr1 ok2.1 ok2.2.1

theorem name_rulePODInterval : RuleId.nameOf .rulePODInterval = "rulePODInterval" := by decide +kernel
theorem sig_rulePODInterval : ∀ r ∈ ruleSigs, r.1 = "rulePODInterval" → r.2 = [.attr "isPOD", .dim "Interval"] := by decide +kernel

theorem applyId_total_rulePODInterval (ts : Ts) (hts : TsOk ts) (args : List Art)
    (hp : (List.zipWith predHolds [.attr "isPOD", .dim "Interval"] args).all id = true) (hl : args.length = 2)
    (hok : ∀ a ∈ args, a.v.Ok ∧ valCalOk a.v = true ∧ a.v.YearLe 9990) : ∃ o, applyId .rulePODInterval ts (args.map (·.v)) = .ok o := by
  rcases args with _ | ⟨a1, _ | ⟨a2, _ | ⟨x, rest⟩⟩⟩ <;> simp at hl
  simp only [List.zipWith, List.all_cons, List.all_nil, id, Bool.and_true, Bool.and_eq_true] at hp
  obtain ⟨hp1, hp2⟩ := hp
  obtain ⟨t1, hv1, hq1⟩ := pred_isPOD a1 hp1
  have ok1 := (hok a1 (by simp)).1; rw [hv1] at ok1
  have cal1 := (hok a1 (by simp)).2.1; rw [hv1] at cal1
  have yr1 := (hok a1 (by simp)).2.2; rw [hv1] at yr1
  obtain ⟨f2, g2, hv2⟩ := pred_dimInterval a2 hp2
  have ok2 := (hok a2 (by simp)).1; rw [hv2] at ok2
  have cal2 := (hok a2 (by simp)).2.1; rw [hv2] at cal2
  have yr2 := (hok a2 (by simp)).2.2; rw [hv2] at yr2
  simp only [List.map, hv1, hv2]
  exact rulePODInterval_total _ _ _ hq1 ok2.1 ok2.2.1 (valCalOk_interval _ _ cal2).1 (valCalOk_interval _ _ cal2).2

theorem name_ruleDurationHalf : RuleId.nameOf .ruleDurationHalf = "ruleDurationHalf" := by decide +kernel
theorem sig_ruleDurationHalf : ∀ r ∈ ruleSigs, r.1 = "ruleDurationHalf" → r.2 = [.regex 139] := by decide +kernel

theorem applyId_total_ruleDurationHalf (ts : Ts) (hts : TsOk ts) (args : List Art)
    (hp : (List.zipWith predHolds [.regex 139] args).all id = true) (hl : args.length = 1)
    (hok : ∀ a ∈ args, a.v.Ok ∧ valCalOk a.v = true ∧ a.v.YearLe 9990) : ∃ o, applyId .ruleDurationHalf ts (args.map (·.v)) = .ok o := by
  rcases args with _ | ⟨a1, _ | ⟨x, rest⟩⟩ <;> simp at hl
  simp only [List.zipWith, List.all_cons, List.all_nil, id, Bool.and_true, Bool.and_eq_true] at hp
  have hp1 := hp
  obtain ⟨k1, hv1⟩ := pred_regex _ a1 hp1
  have ok1 := (hok a1 (by simp)).1; rw [hv1] at ok1
  have cal1 := (hok a1 (by simp)).2.1; rw [hv1] at cal1
  have yr1 := (hok a1 (by simp)).2.2; rw [hv1] at yr1
  simp only [List.map, hv1]
  exact ruleDurationHalf_total _

theorem name_ruleIntervalConjDuration : RuleId.nameOf .ruleIntervalConjDuration = "ruleIntervalConjDuration" := by decide +kernel
theorem sig_ruleIntervalConjDuration : ∀ r ∈ ruleSigs, r.1 = "ruleIntervalConjDuration" → r.2 = [.attr "isDateInterval", .regex 140, .dim "Duration"] := by decide +kernel

theorem applyId_total_ruleIntervalConjDuration (ts : Ts) (hts : TsOk ts) (args : List Art)
    (hp : (List.zipWith predHolds [.attr "isDateInterval", .regex 140, .dim "Duration"] args).all id = true) (hl : args.length = 3)
    (hok : ∀ a ∈ args, a.v.Ok ∧ valCalOk a.v = true ∧ a.v.YearLe 9990) : ∃ o, applyId .ruleIntervalConjDuration ts (args.map (·.v)) = .ok o := by
  rcases args with _ | ⟨a1, _ | ⟨a2, _ | ⟨a3, _ | ⟨x, rest⟩⟩⟩⟩ <;> simp at hl
  simp only [List.zipWith, List.all_cons, List.all_nil, id, Bool.and_true, Bool.and_eq_true] at hp
  obtain ⟨hp1, hp2, hp3⟩ := hp
  obtain ⟨f1, g1, hv1, hq1, hr1⟩ := pred_isDateInterval a1 hp1
  have ok1 := (hok a1 (by simp)).1; rw [hv1] at ok1
  have cal1 := (hok a1 (by simp)).2.1; rw [hv1] at cal1
  have yr1 := (hok a1 (by simp)).2.2; rw [hv1] at yr1
  obtain ⟨k2, hv2⟩ := pred_regex _ a2 hp2
  have ok2 := (hok a2 (by simp)).1; rw [hv2] at ok2
  have cal2 := (hok a2 (by simp)).2.1; rw [hv2] at cal2
  have yr2 := (hok a2 (by simp)).2.2; rw [hv2] at yr2
  obtain ⟨n3, u3, hv3⟩ := pred_dimDuration a3 hp3
  have ok3 := (hok a3 (by simp)).1; rw [hv3] at ok3
  have cal3 := (hok a3 (by simp)).2.1; rw [hv3] at cal3
  have yr3 := (hok a3 (by simp)).2.2; rw [hv3] at yr3
  simp only [List.map, hv1, hv2, hv3]
  exact ruleDurationInterval_total _ _ _ _ hq1 hr1 (ok1.1 _ rfl) (ok1.2.1 _ rfl) ((valCalOk_interval _ _ cal1).1 _ rfl) ((valCalOk_interval _ _ cal1).2 _ rfl)

theorem name_ruleIntervalDuration : RuleId.nameOf .ruleIntervalDuration = "ruleIntervalDuration" := by decide +kernel
theorem sig_ruleIntervalDuration : ∀ r ∈ ruleSigs, r.1 = "ruleIntervalDuration" → r.2 = [.attr "isDateInterval", .dim "Duration"] := by decide +kernel

theorem applyId_total_ruleIntervalDuration (ts : Ts) (hts : TsOk ts) (args : List Art)
    (hp : (List.zipWith predHolds [.attr "isDateInterval", .dim "Duration"] args).all id = true) (hl : args.length = 2)
    (hok : ∀ a ∈ args, a.v.Ok ∧ valCalOk a.v = true ∧ a.v.YearLe 9990) : ∃ o, applyId .ruleIntervalDuration ts (args.map (·.v)) = .ok o := by
  rcases args with _ | ⟨a1, _ | ⟨a2, _ | ⟨x, rest⟩⟩⟩ <;> simp at hl
  simp only [List.zipWith, List.all_cons, List.all_nil, id, Bool.and_true, Bool.and_eq_true] at hp
  obtain ⟨hp1, hp2⟩ := hp
  obtain ⟨f1, g1, hv1, hq1, hr1⟩ := pred_isDateInterval a1 hp1
  have ok1 := (hok a1 (by simp)).1; rw [hv1] at ok1
  have cal1 := (hok a1 (by simp)).2.1; rw [hv1] at cal1
  have yr1 := (hok a1 (by simp)).2.2; rw [hv1] at yr1
  obtain ⟨n2, u2, hv2⟩ := pred_dimDuration a2 hp2
  have ok2 := (hok a2 (by simp)).1; rw [hv2] at ok2
  have cal2 := (hok a2 (by simp)).2.1; rw [hv2] at cal2
  have yr2 := (hok a2 (by simp)).2.2; rw [hv2] at yr2
  simp only [List.map, hv1, hv2]
  exact ruleDurationInterval_total _ _ _ _ hq1 hr1 (ok1.1 _ rfl) (ok1.2.1 _ rfl) ((valCalOk_interval _ _ cal1).1 _ rfl) ((valCalOk_interval _ _ cal1).2 _ rfl)

theorem name_ruleDurationInterval : RuleId.nameOf .ruleDurationInterval = "ruleDurationInterval" := by decide +kernel
theorem sig_ruleDurationInterval : ∀ r ∈ ruleSigs, r.1 = "ruleDurationInterval" → r.2 = [.dim "Duration", .attr "isDateInterval"] := by decide +kernel

theorem applyId_total_ruleDurationInterval (ts : Ts) (hts : TsOk ts) (args : List Art)
    (hp : (List.zipWith predHolds [.dim "Duration", .attr "isDateInterval"] args).all id = true) (hl : args.length = 2)
    (hok : ∀ a ∈ args, a.v.Ok ∧ valCalOk a.v = true ∧ a.v.YearLe 9990) : ∃ o, applyId .ruleDurationInterval ts (args.map (·.v)) = .ok o := by
  rcases args with _ | ⟨a1, _ | ⟨a2, _ | ⟨x, rest⟩⟩⟩ <;> simp at hl
  simp only [List.zipWith, List.all_cons, List.all_nil, id, Bool.and_true, Bool.and_eq_true] at hp
  obtain ⟨hp1, hp2⟩ := hp
  obtain ⟨n1, u1, hv1⟩ := pred_dimDuration a1 hp1
  have ok1 := (hok a1 (by simp)).1; rw [hv1] at ok1
  have cal1 := (hok a1 (by simp)).2.1; rw [hv1] at cal1
  have yr1 := (hok a1 (by simp)).2.2; rw [hv1] at yr1
  obtain ⟨f2, g2, hv2, hq2, hr2⟩ := pred_isDateInterval a2 hp2
  have ok2 := (hok a2 (by simp)).1; rw [hv2] at ok2
  have cal2 := (hok a2 (by simp)).2.1; rw [hv2] at cal2
  have yr2 := (hok a2 (by simp)).2.2; rw [hv2] at yr2
  simp only [List.map, hv1, hv2]
  exact ruleDurationInterval_total _ _ _ _ hq2 hr2 (ok2.1 _ rfl) (ok2.2.1 _ rfl) ((valCalOk_interval _ _ cal2).1 _ rfl) ((valCalOk_interval _ _ cal2).2 _ rfl)

theorem name_ruleTimeDuration : RuleId.nameOf .ruleTimeDuration = "ruleTimeDuration" := by decide +kernel
theorem sig_ruleTimeDuration : ∀ r ∈ ruleSigs, r.1 = "ruleTimeDuration" → r.2 = [.attr "hasDate", .regex 140, .dim "Duration"] := by decide +kernel

theorem applyId_total_ruleTimeDuration (ts : Ts) (hts : TsOk ts) (args : List Art)
    (hp : (List.zipWith predHolds [.attr "hasDate", .regex 140, .dim "Duration"] args).all id = true) (hl : args.length = 3)
    (hok : ∀ a ∈ args, a.v.Ok ∧ valCalOk a.v = true ∧ a.v.YearLe 9990) : ∃ o, applyId .ruleTimeDuration ts (args.map (·.v)) = .ok o := by
  rcases args with _ | ⟨a1, _ | ⟨a2, _ | ⟨a3, _ | ⟨x, rest⟩⟩⟩⟩ <;> simp at hl
  simp only [List.zipWith, List.all_cons, List.all_nil, id, Bool.and_true, Bool.and_eq_true] at hp
  obtain ⟨hp1, hp2, hp3⟩ := hp
  obtain ⟨t1, hv1, hq1⟩ := pred_hasDate a1 hp1
  have ok1 := (hok a1 (by simp)).1; rw [hv1] at ok1
  have cal1 := (hok a1 (by simp)).2.1; rw [hv1] at cal1
  have yr1 := (hok a1 (by simp)).2.2; rw [hv1] at yr1
  obtain ⟨k2, hv2⟩ := pred_regex _ a2 hp2
  have ok2 := (hok a2 (by simp)).1; rw [hv2] at ok2
  have cal2 := (hok a2 (by simp)).2.1; rw [hv2] at cal2
  have yr2 := (hok a2 (by simp)).2.2; rw [hv2] at yr2
  obtain ⟨n3, u3, hv3⟩ := pred_dimDuration a3 hp3
  have ok3 := (hok a3 (by simp)).1; rw [hv3] at ok3
  have cal3 := (hok a3 (by simp)).2.1; rw [hv3] at cal3
  have yr3 := (hok a3 (by simp)).2.2; rw [hv3] at yr3
  simp only [List.map, hv1, hv2, hv3]
  exact ruleTimeDuration_total _ _ _ ok1

theorem name_ruleDOWDOM : RuleId.nameOf .ruleDOWDOM = "ruleDOWDOM" := by decide +kernel
theorem sig_ruleDOWDOM : ∀ r ∈ ruleSigs, r.1 = "ruleDOWDOM" → r.2 = [.attr "isDOW", .attr "isDOM"] := by decide +kernel

theorem applyId_total_ruleDOWDOM (ts : Ts) (hts : TsOk ts) (args : List Art)
    (hp : (List.zipWith predHolds [.attr "isDOW", .attr "isDOM"] args).all id = true) (hl : args.length = 2)
    (hok : ∀ a ∈ args, a.v.Ok ∧ valCalOk a.v = true ∧ a.v.YearLe 9990) : ∃ o, applyId .ruleDOWDOM ts (args.map (·.v)) = .ok o := by
  rcases args with _ | ⟨a1, _ | ⟨a2, _ | ⟨x, rest⟩⟩⟩ <;> simp at hl
  simp only [List.zipWith, List.all_cons, List.all_nil, id, Bool.and_true, Bool.and_eq_true] at hp
  obtain ⟨hp1, hp2⟩ := hp
  obtain ⟨t1, hv1, hq1⟩ := pred_isDOW a1 hp1
  have ok1 := (hok a1 (by simp)).1; rw [hv1] at ok1
  obtain ⟨t2, hv2, hq2⟩ := pred_isDOM a2 hp2
  have ok2 := (hok a2 (by simp)).1; rw [hv2] at ok2
  simp only [List.map, hv1, hv2]
  exact ruleDOWDOM_total ts hts _ _ hq1 hq2 ok1 ok2

theorem name_ruleNamedNumberDuration : RuleId.nameOf .ruleNamedNumberDuration = "ruleNamedNumberDuration" := by decide +kernel
theorem sig_ruleNamedNumberDuration : ∀ r ∈ ruleSigs, r.1 = "ruleNamedNumberDuration" → r.2 = [.regex 138] := by decide +kernel

theorem applyId_total_ruleNamedNumberDuration (ts : Ts) (hts : TsOk ts) (args : List Art)
    (hp : (List.zipWith predHolds [.regex 138] args).all id = true) (hl : args.length = 1)
    (hok : ∀ a ∈ args, a.v.Ok ∧ valCalOk a.v = true ∧ a.v.YearLe 9990) : ∃ o, applyId .ruleNamedNumberDuration ts (args.map (·.v)) = .ok o := by
  rcases args with _ | ⟨a1, _ | ⟨x, rest⟩⟩ <;> simp at hl
  simp only [List.zipWith, List.all_cons, List.all_nil, id, Bool.and_true, Bool.and_eq_true] at hp
  obtain ⟨k1, hv1⟩ := pred_regex _ a1 hp
  simp only [List.map, hv1]
  exact ruleNamedNumberDuration_total _

/-- the productions covered: all but the token readers (`int()` of captured text) -/
def valueRules : List RuleId := [.ruleAbsorbOnTime, .ruleAbsorbFromInterval, .ruleNamedDOW, .ruleNamedMonth, .ruleNamedHour, .ruleMidnight, .ruleEarlyLatePOD, .rulePOD, .ruleToday, .ruleNow, .ruleTomorrow, .ruleAfterTomorrow, .ruleYesterday, .ruleBeforeYesterday, .ruleEOM, .ruleEOY, .ruleDOMMonth, .ruleDOMMonth2, .ruleMonthDOM, .ruleAtDOW, .ruleNextDOW, .ruleDOWNextWeek, .ruleDOYYear, .ruleDOWPOD, .ruleDOWDate, .ruleDateDOW, .ruleLatentDOM, .ruleLatentDOW, .ruleLatentDOY, .ruleLatentPOD, .ruleQuarterBeforeHH, .ruleQuarterAfterHH, .ruleHalfBeforeHH, .ruleHalfAfterHH, .ruleTODPOD, .rulePODTOD, .ruleDateTOD, .ruleTODDate, .ruleDatePOD, .rulePODDate, .ruleBeforeTime, .ruleAfterTime, .ruleDateDate, .ruleDOMDate, .ruleDateDOM, .ruleDOYDate, .ruleDateTimeDateTime, .ruleTODTOD, .rulePODPOD, .ruleDateInterval, .rulePODInterval, .ruleDurationHalf, .ruleIntervalConjDuration, .ruleIntervalDuration, .ruleDurationInterval, .ruleTimeDuration, .ruleDOWDOM, .ruleNamedNumberDuration]

theorem value_rules_total (rid : RuleId) (hrid : rid ∈ valueRules) (r : String × List Pred) (hr : r ∈ ruleSigs) (hid : RuleId.ofName r.1 = some rid)
    (ts : Ts) (hts : TsOk ts) (args : List Art) (hl : args.length = r.2.length) (hp : (List.zipWith predHolds r.2 args).all id = true)
    (hok : ∀ a ∈ args, a.v.Ok ∧ valCalOk a.v = true ∧ a.v.YearLe 9990) : ∃ o, applyId rid ts (args.map (·.v)) = .ok o := by
  cases rid
  case ruleAbsorbOnTime => have e := sig_ruleAbsorbOnTime r hr ((ofName_nameOf _ _ hid).trans name_ruleAbsorbOnTime); rw [e] at hl hp; exact applyId_total_ruleAbsorbOnTime ts hts args hp hl hok
  case ruleAbsorbFromInterval => have e := sig_ruleAbsorbFromInterval r hr ((ofName_nameOf _ _ hid).trans name_ruleAbsorbFromInterval); rw [e] at hl hp; exact applyId_total_ruleAbsorbFromInterval ts hts args hp hl hok
  case ruleNamedDOW => have e := sig_ruleNamedDOW r hr ((ofName_nameOf _ _ hid).trans name_ruleNamedDOW); rw [e] at hl hp; exact applyId_total_ruleNamedDOW ts hts args hp hl hok
  case ruleNamedMonth => have e := sig_ruleNamedMonth r hr ((ofName_nameOf _ _ hid).trans name_ruleNamedMonth); rw [e] at hl hp; exact applyId_total_ruleNamedMonth ts hts args hp hl hok
  case ruleNamedHour => have e := sig_ruleNamedHour r hr ((ofName_nameOf _ _ hid).trans name_ruleNamedHour); rw [e] at hl hp; exact applyId_total_ruleNamedHour ts hts args hp hl hok
  case ruleMidnight => have e := sig_ruleMidnight r hr ((ofName_nameOf _ _ hid).trans name_ruleMidnight); rw [e] at hl hp; exact applyId_total_ruleMidnight ts hts args hp hl hok
  case ruleEarlyLatePOD => have e := sig_ruleEarlyLatePOD r hr ((ofName_nameOf _ _ hid).trans name_ruleEarlyLatePOD); rw [e] at hl hp; exact applyId_total_ruleEarlyLatePOD ts hts args hp hl hok
  case rulePOD => have e := sig_rulePOD r hr ((ofName_nameOf _ _ hid).trans name_rulePOD); rw [e] at hl hp; exact applyId_total_rulePOD ts hts args hp hl hok
  case ruleDOM1 => exact absurd hrid (by decide)
  case ruleMonthOrdinal => exact absurd hrid (by decide)
  case ruleDOM2 => exact absurd hrid (by decide)
  case ruleYear => exact absurd hrid (by decide)
  case ruleToday => have e := sig_ruleToday r hr ((ofName_nameOf _ _ hid).trans name_ruleToday); rw [e] at hl hp; exact applyId_total_ruleToday ts hts args hp hl hok
  case ruleNow => have e := sig_ruleNow r hr ((ofName_nameOf _ _ hid).trans name_ruleNow); rw [e] at hl hp; exact applyId_total_ruleNow ts hts args hp hl hok
  case ruleTomorrow => have e := sig_ruleTomorrow r hr ((ofName_nameOf _ _ hid).trans name_ruleTomorrow); rw [e] at hl hp; exact applyId_total_ruleTomorrow ts hts args hp hl hok
  case ruleAfterTomorrow => have e := sig_ruleAfterTomorrow r hr ((ofName_nameOf _ _ hid).trans name_ruleAfterTomorrow); rw [e] at hl hp; exact applyId_total_ruleAfterTomorrow ts hts args hp hl hok
  case ruleYesterday => have e := sig_ruleYesterday r hr ((ofName_nameOf _ _ hid).trans name_ruleYesterday); rw [e] at hl hp; exact applyId_total_ruleYesterday ts hts args hp hl hok
  case ruleBeforeYesterday => have e := sig_ruleBeforeYesterday r hr ((ofName_nameOf _ _ hid).trans name_ruleBeforeYesterday); rw [e] at hl hp; exact applyId_total_ruleBeforeYesterday ts hts args hp hl hok
  case ruleEOM => have e := sig_ruleEOM r hr ((ofName_nameOf _ _ hid).trans name_ruleEOM); rw [e] at hl hp; exact applyId_total_ruleEOM ts hts args hp hl hok
  case ruleEOY => have e := sig_ruleEOY r hr ((ofName_nameOf _ _ hid).trans name_ruleEOY); rw [e] at hl hp; exact applyId_total_ruleEOY ts hts args hp hl hok
  case ruleDOMMonth => have e := sig_ruleDOMMonth r hr ((ofName_nameOf _ _ hid).trans name_ruleDOMMonth); rw [e] at hl hp; exact applyId_total_ruleDOMMonth ts hts args hp hl hok
  case ruleDOMMonth2 => have e := sig_ruleDOMMonth2 r hr ((ofName_nameOf _ _ hid).trans name_ruleDOMMonth2); rw [e] at hl hp; exact applyId_total_ruleDOMMonth2 ts hts args hp hl hok
  case ruleMonthDOM => have e := sig_ruleMonthDOM r hr ((ofName_nameOf _ _ hid).trans name_ruleMonthDOM); rw [e] at hl hp; exact applyId_total_ruleMonthDOM ts hts args hp hl hok
  case ruleAtDOW => have e := sig_ruleAtDOW r hr ((ofName_nameOf _ _ hid).trans name_ruleAtDOW); rw [e] at hl hp; exact applyId_total_ruleAtDOW ts hts args hp hl hok
  case ruleNextDOW => have e := sig_ruleNextDOW r hr ((ofName_nameOf _ _ hid).trans name_ruleNextDOW); rw [e] at hl hp; exact applyId_total_ruleNextDOW ts hts args hp hl hok
  case ruleDOWNextWeek => have e := sig_ruleDOWNextWeek r hr ((ofName_nameOf _ _ hid).trans name_ruleDOWNextWeek); rw [e] at hl hp; exact applyId_total_ruleDOWNextWeek ts hts args hp hl hok
  case ruleDOYYear => have e := sig_ruleDOYYear r hr ((ofName_nameOf _ _ hid).trans name_ruleDOYYear); rw [e] at hl hp; exact applyId_total_ruleDOYYear ts hts args hp hl hok
  case ruleDOWPOD => have e := sig_ruleDOWPOD r hr ((ofName_nameOf _ _ hid).trans name_ruleDOWPOD); rw [e] at hl hp; exact applyId_total_ruleDOWPOD ts hts args hp hl hok
  case ruleDOWDOM => have e := sig_ruleDOWDOM r hr ((ofName_nameOf _ _ hid).trans name_ruleDOWDOM); rw [e] at hl hp; exact applyId_total_ruleDOWDOM ts hts args hp hl hok
  case ruleDOWDate => have e := sig_ruleDOWDate r hr ((ofName_nameOf _ _ hid).trans name_ruleDOWDate); rw [e] at hl hp; exact applyId_total_ruleDOWDate ts hts args hp hl hok
  case ruleDateDOW => have e := sig_ruleDateDOW r hr ((ofName_nameOf _ _ hid).trans name_ruleDateDOW); rw [e] at hl hp; exact applyId_total_ruleDateDOW ts hts args hp hl hok
  case ruleLatentDOM => have e := sig_ruleLatentDOM r hr ((ofName_nameOf _ _ hid).trans name_ruleLatentDOM); rw [e] at hl hp; exact applyId_total_ruleLatentDOM ts hts args hp hl hok
  case ruleLatentDOW => have e := sig_ruleLatentDOW r hr ((ofName_nameOf _ _ hid).trans name_ruleLatentDOW); rw [e] at hl hp; exact applyId_total_ruleLatentDOW ts hts args hp hl hok
  case ruleLatentDOY => have e := sig_ruleLatentDOY r hr ((ofName_nameOf _ _ hid).trans name_ruleLatentDOY); rw [e] at hl hp; exact applyId_total_ruleLatentDOY ts hts args hp hl hok
  case ruleLatentPOD => have e := sig_ruleLatentPOD r hr ((ofName_nameOf _ _ hid).trans name_ruleLatentPOD); rw [e] at hl hp; exact applyId_total_ruleLatentPOD ts hts args hp hl hok
  case ruleDDMM => exact absurd hrid (by decide)
  case ruleMMDD => exact absurd hrid (by decide)
  case ruleDDMMYYYY => exact absurd hrid (by decide)
  case ruleHHMMmilitary => exact absurd hrid (by decide)
  case ruleHHMM => exact absurd hrid (by decide)
  case ruleHHOClock => exact absurd hrid (by decide)
  case ruleQuarterBeforeHH => have e := sig_ruleQuarterBeforeHH r hr ((ofName_nameOf _ _ hid).trans name_ruleQuarterBeforeHH); rw [e] at hl hp; exact applyId_total_ruleQuarterBeforeHH ts hts args hp hl hok
  case ruleQuarterAfterHH => have e := sig_ruleQuarterAfterHH r hr ((ofName_nameOf _ _ hid).trans name_ruleQuarterAfterHH); rw [e] at hl hp; exact applyId_total_ruleQuarterAfterHH ts hts args hp hl hok
  case ruleHalfBeforeHH => have e := sig_ruleHalfBeforeHH r hr ((ofName_nameOf _ _ hid).trans name_ruleHalfBeforeHH); rw [e] at hl hp; exact applyId_total_ruleHalfBeforeHH ts hts args hp hl hok
  case ruleHalfAfterHH => have e := sig_ruleHalfAfterHH r hr ((ofName_nameOf _ _ hid).trans name_ruleHalfAfterHH); rw [e] at hl hp; exact applyId_total_ruleHalfAfterHH ts hts args hp hl hok
  case ruleTODPOD => have e := sig_ruleTODPOD r hr ((ofName_nameOf _ _ hid).trans name_ruleTODPOD); rw [e] at hl hp; exact applyId_total_ruleTODPOD ts hts args hp hl hok
  case rulePODTOD => have e := sig_rulePODTOD r hr ((ofName_nameOf _ _ hid).trans name_rulePODTOD); rw [e] at hl hp; exact applyId_total_rulePODTOD ts hts args hp hl hok
  case ruleDateTOD => have e := sig_ruleDateTOD r hr ((ofName_nameOf _ _ hid).trans name_ruleDateTOD); rw [e] at hl hp; exact applyId_total_ruleDateTOD ts hts args hp hl hok
  case ruleTODDate => have e := sig_ruleTODDate r hr ((ofName_nameOf _ _ hid).trans name_ruleTODDate); rw [e] at hl hp; exact applyId_total_ruleTODDate ts hts args hp hl hok
  case ruleDatePOD => have e := sig_ruleDatePOD r hr ((ofName_nameOf _ _ hid).trans name_ruleDatePOD); rw [e] at hl hp; exact applyId_total_ruleDatePOD ts hts args hp hl hok
  case rulePODDate => have e := sig_rulePODDate r hr ((ofName_nameOf _ _ hid).trans name_rulePODDate); rw [e] at hl hp; exact applyId_total_rulePODDate ts hts args hp hl hok
  case ruleBeforeTime => have e := sig_ruleBeforeTime r hr ((ofName_nameOf _ _ hid).trans name_ruleBeforeTime); rw [e] at hl hp; exact applyId_total_ruleBeforeTime ts hts args hp hl hok
  case ruleAfterTime => have e := sig_ruleAfterTime r hr ((ofName_nameOf _ _ hid).trans name_ruleAfterTime); rw [e] at hl hp; exact applyId_total_ruleAfterTime ts hts args hp hl hok
  case ruleDateDate => have e := sig_ruleDateDate r hr ((ofName_nameOf _ _ hid).trans name_ruleDateDate); rw [e] at hl hp; exact applyId_total_ruleDateDate ts hts args hp hl hok
  case ruleDOMDate => have e := sig_ruleDOMDate r hr ((ofName_nameOf _ _ hid).trans name_ruleDOMDate); rw [e] at hl hp; exact applyId_total_ruleDOMDate ts hts args hp hl hok
  case ruleDateDOM => have e := sig_ruleDateDOM r hr ((ofName_nameOf _ _ hid).trans name_ruleDateDOM); rw [e] at hl hp; exact applyId_total_ruleDateDOM ts hts args hp hl hok
  case ruleDOYDate => have e := sig_ruleDOYDate r hr ((ofName_nameOf _ _ hid).trans name_ruleDOYDate); rw [e] at hl hp; exact applyId_total_ruleDOYDate ts hts args hp hl hok
  case ruleDateTimeDateTime => have e := sig_ruleDateTimeDateTime r hr ((ofName_nameOf _ _ hid).trans name_ruleDateTimeDateTime); rw [e] at hl hp; exact applyId_total_ruleDateTimeDateTime ts hts args hp hl hok
  case ruleTODTOD => have e := sig_ruleTODTOD r hr ((ofName_nameOf _ _ hid).trans name_ruleTODTOD); rw [e] at hl hp; exact applyId_total_ruleTODTOD ts hts args hp hl hok
  case rulePODPOD => have e := sig_rulePODPOD r hr ((ofName_nameOf _ _ hid).trans name_rulePODPOD); rw [e] at hl hp; exact applyId_total_rulePODPOD ts hts args hp hl hok
  case ruleDateInterval => have e := sig_ruleDateInterval r hr ((ofName_nameOf _ _ hid).trans name_ruleDateInterval); rw [e] at hl hp; exact applyId_total_ruleDateInterval ts hts args hp hl hok
  case rulePODInterval => have e := sig_rulePODInterval r hr ((ofName_nameOf _ _ hid).trans name_rulePODInterval); rw [e] at hl hp; exact applyId_total_rulePODInterval ts hts args hp hl hok
  case ruleDigitDuration => exact absurd hrid (by decide)
  case ruleNamedNumberDuration => have e := sig_ruleNamedNumberDuration r hr ((ofName_nameOf _ _ hid).trans name_ruleNamedNumberDuration); rw [e] at hl hp; exact applyId_total_ruleNamedNumberDuration ts hts args hp hl hok
  case ruleDurationHalf => have e := sig_ruleDurationHalf r hr ((ofName_nameOf _ _ hid).trans name_ruleDurationHalf); rw [e] at hl hp; exact applyId_total_ruleDurationHalf ts hts args hp hl hok
  case ruleIntervalConjDuration => have e := sig_ruleIntervalConjDuration r hr ((ofName_nameOf _ _ hid).trans name_ruleIntervalConjDuration); rw [e] at hl hp; exact applyId_total_ruleIntervalConjDuration ts hts args hp hl hok
  case ruleIntervalDuration => have e := sig_ruleIntervalDuration r hr ((ofName_nameOf _ _ hid).trans name_ruleIntervalDuration); rw [e] at hl hp; exact applyId_total_ruleIntervalDuration ts hts args hp hl hok
  case ruleDurationInterval => have e := sig_ruleDurationInterval r hr ((ofName_nameOf _ _ hid).trans name_ruleDurationInterval); rw [e] at hl hp; exact applyId_total_ruleDurationInterval ts hts args hp hl hok
  case ruleTimeDuration => have e := sig_ruleTimeDuration r hr ((ofName_nameOf _ _ hid).trans name_ruleTimeDuration); rw [e] at hl hp; exact applyId_total_ruleTimeDuration ts hts args hp hl hok

end QuickAdd
