import QuickAdd.Model.Cal
/-! Calendar lemmas for every date (no bound on the year): ordinal/next-day, weekday, `fromordinal`,
    this/next weekday, end of month. -/
namespace QuickAdd

theorem dim_bounds (y m : Int) : 28 ≤ dim y m ∧ dim y m ≤ 31 := by
  unfold dim; split <;> (try split) <;> (try split) <;> omega

theorem dby_succ (y : Int) : dby (y+1) = dby y + (if isLeap y then 366 else 365) := by
  unfold dby isLeap
  by_cases h4 : y % 4 = 0 <;> by_cases h100 : y % 100 = 0 <;> by_cases h400 : y % 400 = 0 <;> simp [h4, h100, h400] <;> omega

theorem Date.valid_iff (x : Date) : x.valid = true ↔ x.Valid := by
  unfold Date.valid Date.Valid; simp [Bool.and_eq_true, decide_eq_true_eq, and_assoc]

theorem next_valid (x : Date) (h : x.Valid) : x.next.Valid := by
  obtain ⟨h1, h2, h3, h4⟩ := h
  unfold Date.next
  split
  · exact ⟨h1, h2, by simp; omega, by simp; omega⟩
  · split
    · refine ⟨by simp; omega, by simp; omega, by simp, ?_⟩
      have := (dim_bounds x.y (x.m + 1)).1; simp; omega
    · refine ⟨by simp, by simp, by simp, ?_⟩
      have := (dim_bounds (x.y+1) 1).1; simp; omega

theorem next_ord (x : Date) (h : x.Valid) : x.next.ord = x.ord + 1 := by
  obtain ⟨h1, h2, h3, h4⟩ := h
  unfold Date.next
  by_cases hd : x.d < dim x.y x.m
  · simp [hd, Date.ord]; omega
  · by_cases hm : x.m < 12
    · simp only [hd, hm, if_true, if_false]
      have hdd : x.d = dim x.y x.m := by omega
      have : x.m = 1 ∨ x.m = 2 ∨ x.m = 3 ∨ x.m = 4 ∨ x.m = 5 ∨ x.m = 6 ∨ x.m = 7 ∨ x.m = 8 ∨ x.m = 9 ∨ x.m = 10 ∨ x.m = 11 := by omega
      rcases this with h|h|h|h|h|h|h|h|h|h|h <;> cases hl : isLeap x.y <;> simp [Date.ord, dbm, dbm0, dim, hl, h, hdd] <;> omega
    · have hm12 : x.m = 12 := by omega
      have hdd : x.d = 31 := by simp [dim, hm12] at h4 hd; omega
      simp only [hd, hm, if_false]
      simp only [Date.ord, dbm, dbm0, dby_succ, hm12, hdd]
      cases hl : isLeap x.y <;> simp [hl] <;> omega

theorem addDaysN_valid (x : Date) (h : x.Valid) : ∀ n, (x.addDaysN n).Valid
  | 0 => h
  | n+1 => next_valid _ (addDaysN_valid x h n)

theorem addDaysN_ord (x : Date) (h : x.Valid) : ∀ n : Nat, (x.addDaysN n).ord = x.ord + n
  | 0 => by simp [Date.addDaysN]
  | n+1 => by
    simp only [Date.addDaysN]
    rw [next_ord _ (addDaysN_valid x h n), addDaysN_ord x h n]; omega

/-- **`fromordinal` is the inverse of `toordinal`** on the range of `datetime` -/
theorem ofOrd_spec (n : Int) (h1 : 1 ≤ n) (h2 : n ≤ maxOrd) : (Date.ofOrd n).Valid ∧ (Date.ofOrd n).ord = n := by
  unfold Date.ofOrd
  have a : ¬ n < 1 := by omega
  have b : ¬ n > maxOrd := by omega
  simp only [a, b, if_false]
  split
  · rename_i hc
    simp only [Bool.and_eq_true, beq_iff_eq] at hc
    exact ⟨(Date.valid_iff _).mp hc.1, hc.2⟩
  · have hv : (⟨1, 1, 1⟩ : Date).Valid := (Date.valid_iff _).mp (by decide)
    refine ⟨addDaysN_valid _ hv _, ?_⟩
    rw [addDaysN_ord _ hv]
    have : (⟨1, 1, 1⟩ : Date).ord = 1 := by decide
    rw [this]; omega

theorem addDays_spec (x : Date) (n : Int) (h1 : 1 ≤ x.ord + n) (h2 : x.ord + n ≤ maxOrd) :
    (x.addDays n).Valid ∧ (x.addDays n).ord = x.ord + n := ofOrd_spec _ h1 h2

theorem weekday_range (x : Date) : 0 ≤ x.weekday ∧ x.weekday < 7 := by unfold Date.weekday; omega

/-- `relativedelta(weekday=w)`: a `w`-day, on or after `x`, less than a week ahead -/
theorem toWeekday_spec (x : Date) (w : Int) (hw : 0 ≤ w ∧ w < 7) (h1 : 1 ≤ x.ord) (h2 : x.ord + 6 ≤ maxOrd) :
    (x.toWeekday w).Valid ∧ (x.toWeekday w).weekday = w ∧ x.ord ≤ (x.toWeekday w).ord ∧ (x.toWeekday w).ord < x.ord + 7 := by
  have hr := weekday_range x
  unfold Date.toWeekday
  have hs := addDays_spec x ((7 - x.weekday + w) % 7) (by omega) (by omega)
  refine ⟨hs.1, ?_, ?_, ?_⟩
  · unfold Date.weekday at *; rw [hs.2]; omega
  · rw [hs.2]; omega
  · rw [hs.2]; omega

/-- ordinals are strictly increasing in the day, month and year: `ord` is injective on valid dates -/
theorem dbm_succ (y m : Int) (h1 : 1 ≤ m) (h2 : m < 12) : dbm y (m+1) = dbm y m + dim y m := by
  have : m = 1 ∨ m = 2 ∨ m = 3 ∨ m = 4 ∨ m = 5 ∨ m = 6 ∨ m = 7 ∨ m = 8 ∨ m = 9 ∨ m = 10 ∨ m = 11 := by omega
  rcases this with h|h|h|h|h|h|h|h|h|h|h <;> subst h <;> cases hl : isLeap y <;> simp [dbm, dbm0, dim, hl]

theorem dbm_bounds (y m : Int) (h1 : 1 ≤ m) (h2 : m ≤ 12) : 0 ≤ dbm y m ∧ dbm y m + dim y m ≤ (if isLeap y then 366 else 365) := by
  have : m = 1 ∨ m = 2 ∨ m = 3 ∨ m = 4 ∨ m = 5 ∨ m = 6 ∨ m = 7 ∨ m = 8 ∨ m = 9 ∨ m = 10 ∨ m = 11 ∨ m = 12 := by omega
  rcases this with h|h|h|h|h|h|h|h|h|h|h|h <;> subst h <;> cases hl : isLeap y <;> simp [dbm, dbm0, dim, hl]

theorem dbm_mono (y m m' : Int) (h1 : 1 ≤ m) (h2 : m < m') (h3 : m' ≤ 12) : dbm y m + dim y m ≤ dbm y m' := by
  have a : m = 1 ∨ m = 2 ∨ m = 3 ∨ m = 4 ∨ m = 5 ∨ m = 6 ∨ m = 7 ∨ m = 8 ∨ m = 9 ∨ m = 10 ∨ m = 11 := by omega
  have b : m' = 2 ∨ m' = 3 ∨ m' = 4 ∨ m' = 5 ∨ m' = 6 ∨ m' = 7 ∨ m' = 8 ∨ m' = 9 ∨ m' = 10 ∨ m' = 11 ∨ m' = 12 := by omega
  cases hl : isLeap y <;> rcases a with h|h|h|h|h|h|h|h|h|h|h <;> subst h <;>
    rcases b with h|h|h|h|h|h|h|h|h|h|h <;> subst h <;> simp [dbm, dbm0, dim, hl] at * <;> omega

theorem dby_mono : ∀ (k : Nat) (y : Int), dby y + 365 * k ≤ dby (y + k)
  | 0, y => by simp
  | k+1, y => by
    have := dby_mono k y
    have e : y + ((k:Nat) + 1 : Nat) = (y + k) + 1 := by push_cast; omega
    rw [e, dby_succ]
    split <;> push_cast <;> omega

/-- within one year the ordinal is below the next year's first day -/
theorem ord_lt_next_year (x : Date) (h : x.Valid) : x.ord ≤ dby (x.y + 1) := by
  obtain ⟨h1, h2, h3, h4⟩ := h
  have := dbm_bounds x.y x.m h1 h2
  unfold Date.ord; rw [dby_succ]; split <;> simp_all <;> omega

theorem ord_pos_in_year (x : Date) (h : x.Valid) : dby x.y < x.ord := by
  obtain ⟨h1, h2, h3, h4⟩ := h
  have := dbm_bounds x.y x.m h1 h2
  unfold Date.ord; omega

theorem ord_strict_year (x z : Date) (hx : x.Valid) (hz : z.Valid) (h : x.y < z.y) : x.ord < z.ord := by
  have a := ord_lt_next_year x hx
  have b := ord_pos_in_year z hz
  have k : ∃ k : Nat, z.y = (x.y + 1) + k := ⟨(z.y - x.y - 1).toNat, by omega⟩
  obtain ⟨k, hk⟩ := k
  have := dby_mono k (x.y + 1)
  rw [← hk] at this
  omega

theorem ord_inj (x z : Date) (hx : x.Valid) (hz : z.Valid) (h : x.ord = z.ord) : x = z := by
  have hy : x.y = z.y := by
    rcases Int.lt_trichotomy x.y z.y with l | e | g
    · have := ord_strict_year x z hx hz l; omega
    · exact e
    · have := ord_strict_year z x hz hx g; omega
  obtain ⟨x1, x2, x3, x4⟩ := hx
  obtain ⟨z1, z2, z3, z4⟩ := hz
  have hm : x.m = z.m := by
    rcases Int.lt_trichotomy x.m z.m with l | e | g
    · have := dbm_mono x.y x.m z.m x1 l z2
      unfold Date.ord at h; rw [hy] at h this x4; omega
    · exact e
    · have := dbm_mono z.y z.m x.m z1 g x2
      unfold Date.ord at h; rw [hy] at h; omega
  have hd : x.d = z.d := by unfold Date.ord at h; rw [hy, hm] at h; omega
  cases x; cases z; simp_all

/-- first of next month minus one day = last day of this month (`ruleEOM`) -/
theorem prev_first_of_next_month (y m : Int) (h1 : 1 ≤ m) (h2 : m ≤ 12) :
    (if m < 12 then (⟨y, m + 1, 1⟩ : Date) else ⟨y + 1, 1, 1⟩).prev = ⟨y, m, dim y m⟩ := by
  unfold Date.prev
  by_cases hm : m < 12
  · simp [hm]; intro h; omega
  · have : m = 12 := by omega
    simp [hm, this, dim]

theorem prev_ord (x : Date) (h : x.Valid) : x.prev.Valid ∧ x.prev.ord = x.ord - 1 := by
  obtain ⟨h1, h2, h3, h4⟩ := h
  unfold Date.prev
  by_cases hd : 1 < x.d
  · simp only [hd, if_true]
    exact ⟨⟨h1, h2, by simp; omega, by simp; omega⟩, by simp [Date.ord]; omega⟩
  · have hd1 : x.d = 1 := by omega
    by_cases hm : 1 < x.m
    · simp only [hd, hm, if_true, if_false]
      have hb := dim_bounds x.y (x.m - 1)
      refine ⟨⟨by simp; omega, by simp; omega, by simp; omega, by simp⟩, ?_⟩
      have := dbm_succ x.y (x.m - 1) (by omega) (by omega)
      simp only [Date.ord, hd1]
      have e : x.m - 1 + 1 = x.m := by omega
      rw [e] at this; omega
    · have hm1 : x.m = 1 := by omega
      simp only [hd, hm, if_false]
      refine ⟨(Date.valid_iff _).mp (by simp [Date.valid, dim]), ?_⟩
      · simp only [Date.ord, hd1, hm1]
        have := dby_succ (x.y - 1)
        have e : x.y - 1 + 1 = x.y := by omega
        rw [e] at this
        cases hl : isLeap (x.y - 1) <;> simp [hl, dbm, dbm0] at * <;> omega

/-- a valid date with year 1…9990 has an ordinal well inside `datetime`'s range -/
theorem ord_bounds_of_year (d : Date) (hv : d.Valid) (hy : 1 ≤ d.y ∧ d.y ≤ 9990) : 1 ≤ d.ord ∧ d.ord + 400 ≤ maxOrd := by
  constructor
  · have h1 := ord_pos_in_year d hv
    have h2 := dby_mono (d.y - 1).toNat 1
    have e : (1 : Int) + ((d.y - 1).toNat : Int) = d.y := by omega
    rw [e] at h2
    have : dby 1 = 0 := by decide
    omega
  · have hv9 : (⟨9992, 1, 1⟩ : Date).Valid := (Date.valid_iff _).mp (by decide)
    have := ord_strict_year d ⟨9992, 1, 1⟩ hv hv9 (by simp; omega)
    have e : (⟨9992, 1, 1⟩ : Date).ord + 2000 ≤ maxOrd := by decide
    omega


/-- minute arithmetic: `ofMinutes` inverts `minutes` on the range of `datetime` -/
theorem ofMinutes_spec (n : Int) (h1 : 1 ≤ n / 1440) (h2 : n / 1440 ≤ maxOrd) :
    (Ts.ofMinutes n).minutes = n ∧ (Ts.ofMinutes n).date.Valid ∧ 0 ≤ (Ts.ofMinutes n).h ∧ (Ts.ofMinutes n).h ≤ 23 ∧ 0 ≤ (Ts.ofMinutes n).mi ∧ (Ts.ofMinutes n).mi ≤ 59 := by
  obtain ⟨hv, ho⟩ := ofOrd_spec (n / 1440) h1 h2
  simp only [Ts.ofMinutes, Ts.minutes]
  refine ⟨?_, hv, by omega, by omega, by omega, by omega⟩
  rw [ho]; omega

theorem addMinutes_spec (t : Ts) (n : Int) (h1 : 1 ≤ (t.minutes + n) / 1440) (h2 : (t.minutes + n) / 1440 ≤ maxOrd) :
    (t.addMinutes n).minutes = t.minutes + n ∧ (t.addMinutes n).date.Valid ∧ 0 ≤ (t.addMinutes n).h ∧ (t.addMinutes n).h ≤ 23 ∧
      0 ≤ (t.addMinutes n).mi ∧ (t.addMinutes n).mi ≤ 59 := ofMinutes_spec _ h1 h2

end QuickAdd
