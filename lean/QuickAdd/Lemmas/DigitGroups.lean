import QuickAdd.Lemmas.LexTotal
/-!
# `int()` accepts what the numeric groups capture, unless the text contains one of the listed unknown digits (C01, D6)

`digitish r`: every code point a match of `r` consumes is a decimal digit (`\d` of the regenerated class table).  Every body
of the groups the productions convert (`intGroups`) is digitish and cannot match the empty string (`intGroups_tab`, evaluated
over the regenerated table); every digit is either known to `int()` or listed in `Gen.intUnknown` (`digits_covered`, every
code point of the class enumerated).  Hence: no listed code point in the text ⇒ `TokInt` for every token.
-/
namespace QuickAdd
open Gen

def rangeIn (rs : Ranges) (lo hi : Nat) : Bool := rs.any fun r => r.1 ≤ lo && hi ≤ r.2

def digitish (T : Tabs) : Rx → Bool
  | .eps => true
  | .lit alts => alts.all (inRanges T.digit)
  | .cls neg items => !neg && items.all fun it => match it with
      | .digit => true
      | .rng lo hi => rangeIn T.digit lo hi
      | .space => false
  | .seq a b => digitish T a && digitish T b
  | .alt a b => digitish T a && digitish T b
  | .opt a => digitish T a
  | .star a => digitish T a
  | .plus a => digitish T a
  | .grp _ a => digitish T a
  | .nla _ => true
  | .nlb _ => true
  | .wordb => true

theorem rangeIn_sound (rs : Ranges) (lo hi x : Nat) (h : rangeIn rs lo hi = true) (hx : lo ≤ x ∧ x ≤ hi) : inRanges rs x = true := by
  unfold rangeIn at h
  unfold inRanges
  simp only [List.any_eq_true, Bool.and_eq_true, decide_eq_true_eq] at h ⊢
  obtain ⟨r, hr, h1, h2⟩ := h
  exact ⟨r, hr, by omega, by omega⟩

theorem digitish_sound (T : Tabs) : ∀ (r : Rx) (s : List Nat), Matches T r s → digitish T r = true → ∀ c ∈ s, inRanges T.digit c = true := by
  intro r s hm
  induction hm with
  | eps => intro _ c hc; simp at hc
  | @lit alts x hx =>
    intro hd c hc
    simp only [List.mem_singleton] at hc; subst hc
    simp only [digitish, List.all_eq_true] at hd
    exact hd c (by simpa using hx)
  | @cls neg items x hx =>
    intro hd c hc
    simp only [List.mem_singleton] at hc; subst hc
    simp only [digitish, Bool.and_eq_true, Bool.not_eq_true', List.all_eq_true] at hd
    obtain ⟨hneg, hall⟩ := hd
    subst hneg
    simp only [clsMatch, bne_iff_ne, ne_eq, Bool.not_eq_false, List.any_eq_true] at hx
    obtain ⟨it, hit, hmatch⟩ := hx
    have := hall it hit
    cases it with
    | digit => simpa [ciMatch] using hmatch
    | rng lo hi =>
      simp only [ciMatch, Bool.and_eq_true, decide_eq_true_eq] at hmatch
      exact rangeIn_sound T.digit lo hi c this hmatch
    | space => simp at this
  | seq _ _ iha ihb =>
    intro hd c hc
    simp only [digitish, Bool.and_eq_true] at hd
    rcases List.mem_append.mp hc with h | h
    · exact iha hd.1 c h
    · exact ihb hd.2 c h
  | altL _ ih => intro hd c hc; simp only [digitish, Bool.and_eq_true] at hd; exact ih hd.1 c hc
  | altR _ ih => intro hd c hc; simp only [digitish, Bool.and_eq_true] at hd; exact ih hd.2 c hc
  | optNone => intro _ c hc; simp at hc
  | optSome _ ih => intro hd c hc; simp only [digitish] at hd; exact ih hd c hc
  | starNil => intro _ c hc; simp at hc
  | starCons _ _ iha ihb =>
    intro hd c hc
    rcases List.mem_append.mp hc with h | h
    · exact iha (by simpa [digitish] using hd) c h
    · exact ihb hd c h
  | plus _ _ iha ihb =>
    intro hd c hc
    simp only [digitish] at hd
    rcases List.mem_append.mp hc with h | h
    · exact iha hd c h
    · exact ihb (by simpa [digitish] using hd) c h
  | grp _ ih => intro hd c hc; simp only [digitish] at hd; exact ih hd c hc
  | nla => intro _ c hc; simp at hc
  | nlb => intro _ c hc; simp at hc
  | wordb => intro _ c hc; simp at hc

theorem matches_minLen (T : Tabs) : ∀ (r : Rx) (s : List Nat), Matches T r s → minLen r ≤ s.length := by
  intro r s hm
  induction hm with
  | eps => simp [minLen]
  | lit _ => simp [minLen]
  | cls _ => simp [minLen]
  | seq _ _ iha ihb => simp only [minLen, List.length_append]; omega
  | altL _ ih => simp only [minLen]; omega
  | altR _ ih => simp only [minLen]; omega
  | optNone => simp [minLen]
  | optSome _ _ => simp [minLen]
  | starNil => simp [minLen]
  | starCons _ _ _ _ => simp [minLen]
  | plus _ _ iha _ => simp only [minLen, List.length_append]; omega
  | grp _ ih => simpa [minLen] using ih
  | nla => simp [minLen]
  | nlb => simp [minLen]
  | wordb => simp [minLen]

/-- every decimal digit is known to `int()` or listed as unknown (all code points of the class, evaluated) -/
theorem digits_covered : ((enumRanges rxTabs.digit).all fun x => inRanges digitVals x || inRanges intUnknown x) = true := by decide +kernel

theorem digitVal_some (c : Nat) (h : inRanges digitVals c = true) : ∃ v, digitVal c = some v := by
  unfold digitVal
  cases hf : digitVals.find? (fun r => r.1 ≤ c && c ≤ r.2) with
  | some r => exact ⟨_, rfl⟩
  | none =>
    unfold inRanges at h
    simp only [List.any_eq_true] at h
    obtain ⟨r, hr, hc⟩ := h
    have := List.find?_eq_none.mp hf r hr
    simp [hc] at this

theorem pyInt_total (s : List Nat) (hne : s ≠ []) (h : ∀ c ∈ s, ∃ v, digitVal c = some v) : ∃ v, pyInt s = .ok v := by
  unfold pyInt
  have : s.isEmpty = false := by cases s <;> simp_all
  simp only [this, Bool.false_eq_true, if_false]
  have gen : ∀ (l : List Nat) (acc : Int), (∀ c ∈ l, ∃ v, digitVal c = some v) →
      ∃ v, l.foldlM (fun (acc : Int) c => match digitVal c with | some v => (pure (acc * 10 + v) : Except PyErr Int) | none => throw PyErr.valueError) acc = .ok v := by
    intro l
    induction l with
    | nil => intro acc _; exact ⟨acc, rfl⟩
    | cons c cs ih =>
      intro acc hh
      obtain ⟨v, hv⟩ := hh c (by simp)
      simp only [List.foldlM, hv, bind, Except.bind, pure, Except.pure]
      exact ih _ (fun x hx => hh x (by simp [hx]))
  exact gen s 0 h

/-- the bodies of the groups the productions convert are digit-only and not nullable -/
def intGroupsOK : Bool :=
  table.all fun p => p.names.all fun ni => !intGroups.contains ni.1 || (bodiesOf ni.2 p.rx).all fun a => digitish rxTabs a && decide (0 < minLen a)

theorem intGroups_tab : intGroupsOK = true := by decide +kernel

def NoExotic (txt : List Nat) : Prop := ∀ c ∈ txt, inRanges intUnknown c = false

/-- **`int()` accepts every numeric group text of every pattern match of a text without listed unknown digits** -/
theorem tokInt_of_text (txt : List Nat) (hne : NoExotic txt) : ∀ a ∈ matchRegex txt, ∀ k, a.v = .tok k → TokInt k := by
  intro a ha k hk n hn w hw
  obtain ⟨p, hp, m, hm, rfl⟩ := mem_matchRegex txt a ha
  obtain ⟨i, s, e, hni, _, hcap, hwe⟩ := tok_group_sound p txt m k hk n w hw
  have htab := List.all_eq_true.mp (List.all_eq_true.mp intGroups_tab p hp) (n, i) hni
  have hc : intGroups.contains n = true := by simpa using hn
  simp only [hc, Bool.not_true, Bool.false_or, List.all_eq_true, Bool.and_eq_true, decide_eq_true_eq] at htab
  obtain ⟨body, hg, _, hmat⟩ := findAll_caps rxTabs p.rx txt m hm (i, s, e) hcap
  obtain ⟨hdig, hlen⟩ := htab body (mem_bodiesOf i body p.rx hg)
  have hall := digitish_sound rxTabs body _ hmat hdig
  have hmin := matches_minLen rxTabs body _ hmat
  have hws : w = (txt.drop s).take (e - s) := by rw [hwe]; rfl
  rw [hws]
  apply pyInt_total
  · intro h0; rw [h0] at hmin; simp at hmin; omega
  · intro c hc'
    have hd := hall c hc'
    have hcov := List.all_eq_true.mp digits_covered c (mem_enumRanges rxTabs.digit c hd)
    have hin : c ∈ txt := List.mem_of_mem_drop (List.mem_of_mem_take hc')
    have hu := hne c hin
    simp only [hu, Bool.or_false] at hcov
    exact digitVal_some c hcov

end QuickAdd
