import QuickAdd.Model.Types
import QuickAdd.Lemmas.RulesWF
/-!
# The text form of a `Time` is injective (C18)

`Time.str` writes seven fields separated by `-`, blank, `:`, ` (`, `/` and closed by `)`.  A present numeric field is a
zero-padded decimal number (digits only), an absent one is `X`; so the separators split the text uniquely, and zero padding
does not lose the number (`Nat.ofDigitChars` reads it back).  Domain: present numbers are non-negative and the part of day is
a key of the table (`Time.Ok`; the printed `X` of an absent part of day is not a key).
-/
namespace QuickAdd

/-- a field's characters: digits or `X` — never a separator -/
def FieldChars (l : List Char) : Prop := ∀ c ∈ l, c.isDigit = true ∨ c = 'X'

theorem padNat_toList (w n : Nat) : (padNat w n).toList = List.replicate (w - (toString n).length) '0' ++ Nat.toDigits 10 n := by
  unfold padNat
  simp

theorem padNat_val (w n : Nat) : Nat.ofDigitChars 10 (padNat w n).toList 0 = n := by
  rw [padNat_toList, Nat.ofDigitChars_append, Nat.ofDigitChars_replicate_zero]
  simp [Nat.ofDigitChars_ten_toDigits]

theorem padNat_inj (w n m : Nat) (h : padNat w n = padNat w m) : n = m := by
  have := congrArg (fun s => Nat.ofDigitChars 10 s.toList 0) h
  simpa [padNat_val] using this

theorem padNat_digits (w n : Nat) : ∀ c ∈ (padNat w n).toList, c.isDigit = true := by
  intro c hc
  rw [padNat_toList] at hc
  rcases List.mem_append.mp hc with h | h
  · have := (List.mem_replicate.mp h).2; subst this; decide
  · exact Nat.isDigit_of_mem_toDigits (by decide) (by decide) h

theorem padNat_ne_nil (w n : Nat) : (padNat w n).toList ≠ [] := by
  rw [padNat_toList]
  intro h
  have := (List.append_eq_nil_iff.mp h).2
  exact Nat.toDigits_ne_nil this

theorem optFmt_chars (w : Nat) (a : Option Int) (ha : ∀ x, a = some x → 0 ≤ x) : FieldChars (optFmt w a).toList := by
  intro c hc
  cases a with
  | none => simp [optFmt] at hc; exact Or.inr hc
  | some n =>
    have hn := ha n rfl
    simp only [optFmt, fmtInt] at hc
    have : ¬ n < 0 := by omega
    simp only [this, if_false] at hc
    exact Or.inl (padNat_digits _ _ c hc)

theorem optFmt_inj (w : Nat) (a b : Option Int) (ha : ∀ x, a = some x → 0 ≤ x) (hb : ∀ x, b = some x → 0 ≤ x)
    (h : optFmt w a = optFmt w b) : a = b := by
  cases a with
  | none =>
    cases b with
    | none => rfl
    | some m =>
      exfalso
      have hm := hb m rfl
      have hnl : ¬ m < 0 := by omega
      simp only [optFmt, fmtInt, hnl, if_false] at h
      have hd := padNat_digits w m.natAbs
      rw [← h] at hd
      have := hd 'X' (by simp)
      revert this; decide
  | some n =>
    cases b with
    | none =>
      exfalso
      have hn := ha n rfl
      have hnl : ¬ n < 0 := by omega
      simp only [optFmt, fmtInt, hnl, if_false] at h
      have hd := padNat_digits w n.natAbs
      rw [h] at hd
      have := hd 'X' (by simp)
      revert this; decide
    | some m =>
      have hn := ha n rfl
      have hm := hb m rfl
      have h1 : ¬ n < 0 := by omega
      have h2 : ¬ m < 0 := by omega
      simp only [optFmt, fmtInt, h1, h2, if_false] at h
      have := padNat_inj w _ _ h
      congr 1; omega

/-- a separator that occurs in neither first part splits uniquely -/
theorem split_unique (sep : Char) : ∀ (a a' r r' : List Char), sep ∉ a → sep ∉ a' → a ++ sep :: r = a' ++ sep :: r' → a = a' ∧ r = r' := by
  intro a
  induction a with
  | nil =>
    intro a' r r' _ ha' h
    cases a' with
    | nil => simp at h; exact ⟨rfl, h⟩
    | cons x xs =>
      simp at h
      exact absurd (by rw [← h.1]; exact List.mem_cons_self) ha'
  | cons x xs ih =>
    intro a' r r' ha ha' h
    cases a' with
    | nil =>
      simp at h
      exact absurd (by rw [h.1]; exact List.mem_cons_self) ha
    | cons y ys =>
      simp only [List.cons_append, List.cons.injEq] at h
      obtain ⟨rfl, h2⟩ := h
      obtain ⟨e1, e2⟩ := ih ys r r' (fun hm => ha (List.mem_cons_of_mem _ hm)) (fun hm => ha' (List.mem_cons_of_mem _ hm)) h2
      exact ⟨by rw [e1], e2⟩

theorem fieldChars_not_sep (l : List Char) (h : FieldChars l) (sep : Char) (hs : sep.isDigit = false) (hx : sep ≠ 'X') : sep ∉ l := by
  intro hm
  rcases h sep hm with hd | he
  · rw [hs] at hd; cases hd
  · exact hx he

/-- no key of the part-of-day table prints like an absent one -/
theorem x_not_pod : podLookup "X" = none := by decide

/-- numeric fields present are non-negative -/
def Time.NonNeg (t : Time) : Prop :=
  (∀ x, t.year = some x → 0 ≤ x) ∧ (∀ x, t.month = some x → 0 ≤ x) ∧ (∀ x, t.day = some x → 0 ≤ x) ∧
  (∀ x, t.hour = some x → 0 ≤ x) ∧ (∀ x, t.minute = some x → 0 ≤ x) ∧ (∀ x, t.dow = some x → 0 ≤ x)

theorem Time.Ok.nonNeg {t : Time} (h : t.Ok) (hy : ∀ x, t.year = some x → 0 ≤ x) : t.NonNeg :=
  ⟨hy, fun x hx => by have := h.month x hx; omega, fun x hx => by have := h.day x hx; omega, fun x hx => (h.hour x hx).1,
   fun x hx => (h.minute x hx).1, fun x hx => (h.dow x hx).1⟩

theorem str_toList (t : Time) : t.str.toList =
    (optFmt 4 t.year).toList ++ '-' :: ((optFmt 2 t.month).toList ++ '-' :: ((optFmt 2 t.day).toList ++ ' ' :: ((optFmt 2 t.hour).toList ++ ':' ::
      ((optFmt 2 t.minute).toList ++ ' ' :: '(' :: ((optFmt 1 t.dow).toList ++ '/' :: ((t.pod.getD "X").toList ++ [')'])))))) := by
  unfold Time.str
  have ts : ∀ s : String, toString s = s := fun _ => rfl
  have l1 : "-".toList = ['-'] := by decide
  have l2 : " ".toList = [' '] := by decide
  have l3 : ":".toList = [':'] := by decide
  have l4 : " (".toList = [' ', '('] := by decide
  have l5 : "/".toList = ['/'] := by decide
  have l6 : ")".toList = [')'] := by decide
  simp only [ts, String.toList_append, l1, l2, l3, l4, l5, l6, List.append_assoc, List.cons_append, List.nil_append]

/-- **the text form is injective**: two well-formed times that print the same are the same -/
theorem time_str_injective (a b : Time) (ha : a.NonNeg) (hb : b.NonNeg)
    (hpa : ∀ p, a.pod = some p → (podLookup p).isSome = true) (hpb : ∀ p, b.pod = some p → (podLookup p).isSome = true)
    (h : a.str = b.str) : a = b := by
  have hl := congrArg String.toList h
  rw [str_toList, str_toList] at hl
  obtain ⟨ay, am, ad, ah, ami, aw⟩ := ha
  obtain ⟨by', bm, bd, bh, bmi, bw⟩ := hb
  have ns : ∀ (w : Nat) (o : Option Int), (∀ x, o = some x → 0 ≤ x) → ∀ sep : Char, sep.isDigit = false → sep ≠ 'X' → sep ∉ (optFmt w o).toList :=
    fun w o ho sep h1 h2 => fieldChars_not_sep _ (optFmt_chars w o ho) sep h1 h2
  obtain ⟨e1, hl⟩ := split_unique '-' _ _ _ _ (ns 4 _ ay '-' (by decide) (by decide)) (ns 4 _ by' '-' (by decide) (by decide)) hl
  obtain ⟨e2, hl⟩ := split_unique '-' _ _ _ _ (ns 2 _ am '-' (by decide) (by decide)) (ns 2 _ bm '-' (by decide) (by decide)) hl
  obtain ⟨e3, hl⟩ := split_unique ' ' _ _ _ _ (ns 2 _ ad ' ' (by decide) (by decide)) (ns 2 _ bd ' ' (by decide) (by decide)) hl
  obtain ⟨e4, hl⟩ := split_unique ':' _ _ _ _ (ns 2 _ ah ':' (by decide) (by decide)) (ns 2 _ bh ':' (by decide) (by decide)) hl
  obtain ⟨e5, hl⟩ := split_unique ' ' _ _ _ _ (ns 2 _ ami ' ' (by decide) (by decide)) (ns 2 _ bmi ' ' (by decide) (by decide)) hl
  simp only [List.cons.injEq, true_and] at hl
  obtain ⟨e6, hl⟩ := split_unique '/' _ _ _ _ (ns 1 _ aw '/' (by decide) (by decide)) (ns 1 _ bw '/' (by decide) (by decide)) hl
  have e7 : (a.pod.getD "X").toList = (b.pod.getD "X").toList := List.append_cancel_right hl
  have fy := optFmt_inj 4 _ _ ay by' (String.toList_inj.mp e1)
  have fm := optFmt_inj 2 _ _ am bm (String.toList_inj.mp e2)
  have fd := optFmt_inj 2 _ _ ad bd (String.toList_inj.mp e3)
  have fh := optFmt_inj 2 _ _ ah bh (String.toList_inj.mp e4)
  have fmi := optFmt_inj 2 _ _ ami bmi (String.toList_inj.mp e5)
  have fw := optFmt_inj 1 _ _ aw bw (String.toList_inj.mp e6)
  have fp : a.pod = b.pod := by
    have e7' : a.pod.getD "X" = b.pod.getD "X" := String.toList_inj.mp e7
    cases hap : a.pod with
    | none =>
      cases hbp : b.pod with
      | none => rfl
      | some q =>
        exfalso
        simp [hap, hbp] at e7'
        have := hpb q hbp
        rw [← e7', x_not_pod] at this; cases this
    | some p =>
      cases hbp : b.pod with
      | none =>
        exfalso
        simp [hap, hbp] at e7'
        have := hpa p hap
        rw [e7', x_not_pod] at this; cases this
      | some q =>
        simp [hap, hbp] at e7'
        rw [e7']
  cases a; cases b
  simp_all

/-! ### intervals and durations -/
/-- the keys of the part-of-day table are written with letters only -/
theorem pod_keys_alpha : (Gen.podHours.all fun e => e.1.toList.all fun c => c.isAlpha) = true := by decide +kernel

theorem podLookup_alpha (p : String) (h : (podLookup p).isSome = true) : ∀ c ∈ p.toList, c.isAlpha = true := by
  unfold podLookup at h
  cases hf : Gen.podHours.find? (·.1 == p) with
  | none => simp [hf] at h
  | some e =>
    have hm := List.mem_of_find?_eq_some hf
    have hp := List.find?_some hf
    simp at hp
    have := List.all_eq_true.mp pod_keys_alpha e hm
    rw [hp] at this
    intro c hc
    exact List.all_eq_true.mp this c hc

/-- what is well formed enough to be printed injectively -/
def Time.Printable (t : Time) : Prop := t.NonNeg ∧ ∀ p, t.pod = some p → (podLookup p).isSome = true

/-- a printed time is `body ++ ")"` where `body` contains no `)` -/
theorem str_body (t : Time) (ht : t.Printable) : ∃ body, t.str.toList = body ++ [')'] ∧ ')' ∉ body ∧ (∃ c r, body = c :: r ∧ (c.isDigit = true ∨ c = 'X')) := by
  obtain ⟨⟨hy, hm, hd, hh, hmi, hw⟩, hp⟩ := ht
  refine ⟨(optFmt 4 t.year).toList ++ '-' :: ((optFmt 2 t.month).toList ++ '-' :: ((optFmt 2 t.day).toList ++ ' ' :: ((optFmt 2 t.hour).toList ++ ':' ::
      ((optFmt 2 t.minute).toList ++ ' ' :: '(' :: ((optFmt 1 t.dow).toList ++ '/' :: (t.pod.getD "X").toList))))), ?_, ?_, ?_⟩
  · rw [str_toList]; simp [List.append_assoc]
  · have ns : ∀ (w : Nat) (o : Option Int), (∀ x, o = some x → 0 ≤ x) → ')' ∉ (optFmt w o).toList :=
      fun w o ho => fieldChars_not_sep _ (optFmt_chars w o ho) ')' (by decide) (by decide)
    have hpod : ')' ∉ (t.pod.getD "X").toList := by
      cases hpp : t.pod with
      | none => simp
      | some p =>
        simp only [Option.getD_some]
        intro hm'
        have := podLookup_alpha p (hp p hpp) ')' hm'
        revert this; decide
    simp only [List.mem_append, List.mem_cons, not_or]
    refine ⟨ns 4 _ hy, by decide, ns 2 _ hm, by decide, ns 2 _ hd, by decide, ns 2 _ hh, by decide, ns 2 _ hmi, by decide, by decide, ns 1 _ hw, by decide, hpod⟩
  · have hc := optFmt_chars 4 t.year hy
    cases hl : (optFmt 4 t.year).toList with
    | nil =>
      exfalso
      cases hyy : t.year with
      | none => simp [optFmt, hyy] at hl
      | some n =>
        have hn := hy n hyy
        have : ¬ n < 0 := by omega
        simp only [optFmt, fmtInt, hyy, this, if_false] at hl
        exact padNat_ne_nil _ _ hl
    | cons c r => exact ⟨c, _, by rw [List.cons_append], by rw [hl] at hc; exact hc c (by simp)⟩

theorem none_toList : "None".toList = ['N', 'o', 'n', 'e'] := by decide

/-- the printed optional time (`None` or a time) is injective and its end is recognisable -/
theorem optTimeStr_split (f f' : Option Time) (hf : ∀ t, f = some t → t.Printable) (hf' : ∀ t, f' = some t → t.Printable)
    (r r' : List Char) (h : (optTimeStr f).toList ++ ' ' :: r = (optTimeStr f').toList ++ ' ' :: r') : f = f' ∧ r = r' := by
  cases f with
  | none =>
    cases f' with
    | none => simp [optTimeStr] at h; exact ⟨rfl, h⟩
    | some b =>
      exfalso
      obtain ⟨body, hb, _, c, rr, hbody, hc⟩ := str_body b (hf' b rfl)
      simp only [optTimeStr, none_toList, hb, hbody] at h
      simp at h
      rcases hc with hd | hx
      · rw [← h.1] at hd; revert hd; decide
      · rw [← h.1] at hx; revert hx; decide
  | some a =>
    cases f' with
    | none =>
      exfalso
      obtain ⟨body, hb, _, c, rr, hbody, hc⟩ := str_body a (hf a rfl)
      simp only [optTimeStr, none_toList, hb, hbody] at h
      simp at h
      rcases hc with hd | hx
      · rw [h.1] at hd; revert hd; decide
      · rw [h.1] at hx; revert hx; decide
    | some b =>
      obtain ⟨ba, ha, hna, _⟩ := str_body a (hf a rfl)
      obtain ⟨bb, hb, hnb, _⟩ := str_body b (hf' b rfl)
      simp only [optTimeStr, ha, hb, List.append_assoc, List.singleton_append] at h
      obtain ⟨e1, e2⟩ := split_unique ')' _ _ _ _ hna hnb h
      have hstr : a.str = b.str := String.toList_inj.mp (by rw [ha, hb, e1])
      have := time_str_injective a b (hf a rfl).1 (hf' b rfl).1 (hf a rfl).2 (hf' b rfl).2 hstr
      simp only [List.cons.injEq, true_and] at e2
      exact ⟨by rw [this], e2⟩

/-- **the text form of an interval is injective** -/
theorem interval_str_injective (f t f' t' : Option Time) (hf : ∀ x, f = some x → x.Printable) (ht : ∀ x, t = some x → x.Printable)
    (hf' : ∀ x, f' = some x → x.Printable) (ht' : ∀ x, t' = some x → x.Printable)
    (h : (Val.interval f t).str = (Val.interval f' t').str) : f = f' ∧ t = t' := by
  have hl := congrArg String.toList h
  have ts : ∀ s : String, toString s = s := fun _ => rfl
  have l1 : " - ".toList = [' ', '-', ' '] := by decide
  simp only [Val.str, ts, String.toList_append, l1, List.append_assoc, List.cons_append, List.nil_append] at hl
  obtain ⟨e1, hl⟩ := optTimeStr_split f f' hf hf' _ _ hl
  simp only [List.cons.injEq, true_and] at hl
  -- the second end: append a blank on both sides to reuse the splitting lemma
  have hl2 : (optTimeStr t).toList ++ ' ' :: [] = (optTimeStr t').toList ++ ' ' :: [] := by rw [hl]
  obtain ⟨e2, _⟩ := optTimeStr_split t t' ht ht' _ _ hl2
  exact ⟨e1, e2⟩

theorem unit_name_inj (u w : DUnit) (h : u.name = w.name) : u = w := by
  cases u <;> cases w <;> first | rfl | (exfalso; revert h; decide)

/-- the text form of a duration with a non-negative amount is injective -/
theorem duration_str_injective (n m : Int) (u w : DUnit) (hn : 0 ≤ n) (hm : 0 ≤ m) (h : (Val.duration n u).str = (Val.duration m w).str) : n = m ∧ u = w := by
  have hl := congrArg String.toList h
  have ts : ∀ s : String, toString s = s := fun _ => rfl
  have l1 : " ".toList = [' '] := by decide
  simp only [Val.str, ts, String.toList_append, l1, List.append_assoc, List.cons_append, List.nil_append] at hl
  have dn : ∀ k : Int, 0 ≤ k → (toString k).toList = Nat.toDigits 10 k.natAbs := by
    intro k hk
    cases k with
    | ofNat j => show (Int.repr (Int.ofNat j)).toList = _; simp [Int.repr]
    | negSucc j => exact absurd hk (by simp [Int.negSucc_lt_zero])
  rw [dn n hn, dn m hm] at hl
  have nd : ∀ j : Nat, ' ' ∉ Nat.toDigits 10 j := by
    intro j hmem
    have := Nat.isDigit_of_mem_toDigits (by decide) (by decide) hmem
    revert this; decide
  obtain ⟨e1, e2⟩ := split_unique ' ' _ _ _ _ (nd _) (nd _) hl
  have hv : n.natAbs = m.natAbs := by
    have := congrArg (fun l => Nat.ofDigitChars 10 l 0) e1
    simpa [Nat.ofDigitChars_ten_toDigits] using this
  exact ⟨by omega, unit_name_inj u w (String.toList_inj.mp e2)⟩

end QuickAdd
