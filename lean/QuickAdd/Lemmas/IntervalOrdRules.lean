import QuickAdd.Lemmas.IntervalOrd
/-! The interval-building productions establish `IvOrd`; the others hand intervals on. -/
namespace QuickAdd
open Gen

theorem dateOf_some_fields (t : Time) (D : Date) (h : dateOf t = some D) (y m d : Int) (hy : t.year = some y) (hm : t.month = some m) (hd : t.day = some d) :
    D.y = y ∧ D.m = m ∧ D.d = d := by
  obtain ⟨_, e1, e2, e3⟩ := dateOf_valid t D h
  rw [hy] at e1; rw [hm] at e2; rw [hd] at e3
  cases e1; cases e2; cases e3
  exact ⟨rfl, rfl, rfl⟩

/-- a branch in which a needed field is missing cannot return a value -/
macro "dead" h:ident : tactic => `(tactic|
  (simp [*, need, needS, bind, Except.bind, pure, Except.pure, throw, throwThe, MonadExceptOf.throw] at $h:ident <;> (peel $h)))

theorem ruleDateDate_ord (d1 d2 : Time) (v : Val) (h : ruleDateDate d1 d2 = .ok (some v)) : v.Ord := by
  unfold ruleDateDate at h
  cases hy1 : d1.year with
  | none => dead h
  | some y1 =>
  cases hy2 : d2.year with
  | none => dead h
  | some y2 =>
  cases hm1 : d1.month with
  | none => dead h
  | some m1 =>
  cases hm2 : d2.month with
  | none => dead h
  | some m2 =>
  cases hd1 : d1.day with
  | none => dead h
  | some a =>
  cases hd2 : d2.day with
  | none => dead h
  | some b =>
    simp [hy1, hy2, hm1, hm2, hd1, hd2, need, bind, Except.bind, pure, Except.pure] at h
    peel h
    all_goals (
      first | subst h | (simp [pure, Except.pure] at h; subst h)
      show IvOrd _ _
      apply ivOrd_of_lex
      intro D1 D2 e1 e2
      obtain ⟨f1, f2, f3⟩ := dateOf_some_fields d1 D1 e1 y1 m1 a hy1 hm1 hd1
      obtain ⟨g1, g2, g3⟩ := dateOf_some_fields d2 D2 e2 y2 m2 b hy2 hm2 hd2
      omega)

theorem ruleDOMDate_ord (d1 d2 : Time) (v : Val) (h : ruleDOMDate d1 d2 = .ok (some v)) : v.Ord := by
  unfold ruleDOMDate at h
  cases hd1 : d1.day with
  | none => dead h
  | some a =>
  cases hd2 : d2.day with
  | none => dead h
  | some b =>
    simp [hd1, hd2, need, bind, Except.bind, pure, Except.pure] at h
    peel h
    all_goals (
      first | subst h | (simp [pure, Except.pure] at h; subst h)
      show IvOrd _ _
      apply ivOrd_of_lex
      intro D1 D2 e1 e2
      obtain ⟨_, g1, g2, g3⟩ := dateOf_valid d2 D2 e2
      obtain ⟨_, f1, f2, f3⟩ := dateOf_valid _ D1 e1
      simp only at f1 f2 f3
      rw [g1] at f1; rw [g2] at f2; rw [hd2] at g3
      simp only [Option.some.injEq] at f1 f2 f3 g3
      omega)

theorem ruleDateDOM_ord (d1 d2 : Time) (v : Val) (h : ruleDateDOM d1 d2 = .ok (some v)) : v.Ord := by
  unfold ruleDateDOM at h
  cases hd1 : d1.day with
  | none => dead h
  | some a =>
  cases hd2 : d2.day with
  | none => dead h
  | some b =>
    simp [hd1, hd2, need, bind, Except.bind, pure, Except.pure] at h
    peel h
    all_goals (
      first | subst h | (simp [pure, Except.pure] at h; subst h)
      show IvOrd _ _
      apply ivOrd_of_lex
      intro D1 D2 e1 e2
      obtain ⟨_, f1, f2, f3⟩ := dateOf_valid d1 D1 e1
      obtain ⟨_, g1, g2, g3⟩ := dateOf_valid _ D2 e2
      simp only at g1 g2 g3
      rw [f1] at g1; rw [f2] at g2; rw [hd1] at f3
      simp only [Option.some.injEq] at g1 g2 g3 f3
      omega)

theorem ruleDOYDate_ord (d1 d2 : Time) (v : Val) (h : ruleDOYDate d1 d2 = .ok (some v)) : v.Ord := by
  unfold ruleDOYDate at h
  cases hm1 : d1.month with
  | none => dead h
  | some m1 =>
  cases hm2 : d2.month with
  | none => dead h
  | some m2 =>
    -- whatever the days are: the value, if any, is [ (year of d2, month and day of d1), d2 ]
    have hv : v = .interval (some { year := d2.year, month := d1.month, day := d1.day }) (some d2) ∧
        (m1 < m2 ∨ (m1 = m2 ∧ ∃ a b, d1.day = some a ∧ d2.day = some b ∧ a < b)) := by
      cases hd1 : d1.day with
      | none =>
        simp [hm1, hm2, hd1, need, bind, Except.bind, pure, Except.pure, throw, throwThe, MonadExceptOf.throw] at h
        peel h
        all_goals (first | (subst h; exact ⟨by simp [hm1], by omega⟩) | (simp at h; subst h; exact ⟨by simp [hm1], by omega⟩))
      | some a =>
        cases hd2 : d2.day with
        | none =>
          simp [hm1, hm2, hd1, hd2, need, bind, Except.bind, pure, Except.pure, throw, throwThe, MonadExceptOf.throw] at h
          peel h
          all_goals (first | (subst h; exact ⟨by simp [hm1], by omega⟩) | (simp at h; subst h; exact ⟨by simp [hm1], by omega⟩))
        | some b =>
          simp [hm1, hm2, hd1, hd2, need, bind, Except.bind, pure, Except.pure] at h
          peel h
          all_goals (first | (subst h; exact ⟨by simp [hm1], by first | omega | exact Or.inr ⟨by omega, a, b, rfl, rfl, by omega⟩⟩) | (simp at h; subst h; exact ⟨by simp [hm1], by first | omega | exact Or.inr ⟨by omega, a, b, rfl, rfl, by omega⟩⟩))
    obtain ⟨rfl, hlex⟩ := hv
    show IvOrd _ _
    apply ivOrd_of_lex
    intro D1 D2 e1 e2
    obtain ⟨_, g1, g2, g3⟩ := dateOf_valid d2 D2 e2
    obtain ⟨_, f1, f2, f3⟩ := dateOf_valid _ D1 e1
    simp only at f1 f2 f3
    rw [g1] at f1; rw [hm1] at f2; rw [hm2] at g2
    simp only [Option.some.injEq] at f1 f2 g2
    rcases hlex with hl | ⟨hl, a, b, ha, hb, hab⟩
    · omega
    · rw [ha] at f3; rw [hb] at g3
      simp only [Option.some.injEq] at f3 g3
      omega

theorem ruleDateTimeDateTime_ord (d1 d2 : Time) (v : Val) (h : ruleDateTimeDateTime d1 d2 = .ok (some v)) : v.Ord := by
  unfold ruleDateTimeDateTime at h
  cases hy1 : d1.year with
  | none => dead h
  | some y1 =>
  cases hy2 : d2.year with
  | none => dead h
  | some y2 =>
  cases hm1 : d1.month with
  | none => dead h
  | some m1 =>
  cases hm2 : d2.month with
  | none => dead h
  | some m2 =>
  cases hd1 : d1.day with
  | none => dead h
  | some a =>
  cases hd2 : d2.day with
  | none => dead h
  | some b =>
  cases hh1 : d1.hour with
  | none => dead h
  | some h1 =>
  cases hh2 : d2.hour with
  | none => dead h
  | some h2 =>
    simp [hy1, hy2, hm1, hm2, hd1, hd2, hh1, hh2, need, bind, Except.bind, pure, Except.pure] at h
    peel h
    all_goals (
      first | subst h | (simp [pure, Except.pure] at h; subst h)
      show IvOrd _ _
      apply ivOrd_of_cmp
      intro D1 D2 s1 n1 s2 n2 e1 e2 c1 c2 p1 p1' p2 p2' p3' p3 p4' p4
      obtain ⟨f1, f2, f3⟩ := dateOf_some_fields d1 D1 e1 y1 m1 a hy1 hm1 hd1
      obtain ⟨g1, g2, g3⟩ := dateOf_some_fields d2 D2 e2 y2 m2 b hy2 hm2 hd2
      have v1 := (dateOf_valid d1 D1 e1).1
      have v2 := (dateOf_valid d2 D2 e2).1
      rw [startClock_of_hour d1 h1 hh1] at c1
      rw [endClock_of_hour d2 h2 hh2] at c2
      simp only [Option.some.injEq, Prod.mk.injEq] at c1 c2
      by_cases hlt : D1.y < D2.y ∨ (D1.y = D2.y ∧ (D1.m < D2.m ∨ (D1.m = D2.m ∧ D1.d < D2.d)))
      · exact Or.inl (ord_lt_of_lex D1 D2 v1 v2 hlt)
      · right
        have hD : D1 = D2 := by
          cases D1; cases D2; simp only [Date.mk.injEq]; simp only at f1 f2 f3 g1 g2 g3 hlt; omega
        subst hD
        refine ⟨rfl, ?_⟩
        cases hmi1 : d1.minute <;> cases hmi2 : d2.minute <;> simp [hmi1, hmi2] at * <;> omega)

/-- both ends of `ruleDateInterval` carry the date of `d`: their datetimes are less than a day apart -/
theorem same_date_lt_day (a b : Time) (da db : Ts) (hd : dateOf a = dateOf b) (ha : a.dt = .ok da) (hb : b.dt = .ok db) :
    da.minutes < db.minutes + 1440 := by
  obtain ⟨D1, h1, m1, d1, _, a1, a2, a3, a4, e1⟩ := dt_spec a da ha
  obtain ⟨D2, h2, m2, d2, _, b1, b2, b3, b4, e2⟩ := dt_spec b db hb
  rw [hd, d2] at d1; cases d1
  omega

theorem shifted_end_ord (a b : Time) (da db : Ts) (k : Int) (p : Option String) (d : Date)
    (ha : a.dt = .ok da) (hk : da.minutes < db.minutes + k)
    (hok : dateOk (db.addMinutes k).date = .ok d) : IvOrd (some a) (some (tsToTime (db.addMinutes k) p)) := by
  intro a' b' e1 e2 x y hx hy
  cases e1; cases e2
  have hr : (db.addMinutes k).date.inRange = true := by
    unfold dateOk at hok
    split at hok
    · assumption
    · simp [throw, throwThe, MonadExceptOf.throw] at hok
  have hm := (ofMinutes_inRange (db.minutes + k) hr).1
  have := endMin_tsToTime _ p y hy
  rw [dt_startMin a da ha] at hx; cases hx
  unfold Ts.addMinutes at this
  omega

theorem ruleDateInterval_ord (d : Time) (f t : Option Time) (v : Val) (h : ruleDateInterval d f t = .ok (some v)) : v.Ord := by
  unfold ruleDateInterval at h
  cases f with
  | none => simp [bind, Except.bind, pure, Except.pure] at h; peel h; all_goals (first | subst h | (simp at h; subst h)); exact ivOrd_none_left _
  | some fa =>
  cases t with
  | none => simp [bind, Except.bind, pure, Except.pure] at h; peel h; all_goals (first | subst h | (simp at h; subst h)); exact ivOrd_none_right _
  | some fb =>
    simp only [Option.map_some, bind, Except.bind, pure, Except.pure] at h
    split at h
    · cases h
    · generalize ea : ({ year := d.year, month := d.month, day := d.day, hour := fa.hour, minute := fa.minute, pod := fa.pod } : Time) = a at h
      generalize eb : ({ year := d.year, month := d.month, day := d.day, hour := fb.hour, minute := fb.minute, pod := fb.pod } : Time) = b at h
      have hdab : dateOf a = dateOf b := by subst ea; subst eb; rfl
      cases hda : a.dt with
      | error e => simp [hda] at h
      | ok da =>
      cases hdb : b.dt with
      | error e => simp [hda, hdb] at h
      | ok db =>
        simp only [hda, hdb] at h
        have hlt := same_date_lt_day a b da db hdab hda hdb
        split at h
        · split at h
          · split at h
            · rename_i hs
              cases hok : dateOk (db.addMinutes 720).date with
              | error e => simp [hok] at h
              | ok dd =>
                simp [hok] at h; subst h
                refine shifted_end_ord a b da db _ _ dd hda ?_ hok
                simp [shift12] at hs; omega
            · cases hok : dateOk (db.addMinutes 1440).date with
              | error e => simp [hok] at h
              | ok dd =>
                simp [hok] at h; subst h
                exact shifted_end_ord a b da db _ _ dd hda (by omega) hok
          · cases hok : dateOk (db.addMinutes 1440).date with
            | error e => simp [hok] at h
            | ok dd =>
              simp [hok] at h; subst h
              exact shifted_end_ord a b da db _ _ dd hda (by omega) hok
        · rename_i hge
          simp at h; subst h
          intro a' b' e1 e2 x y hx hy
          cases e1; cases e2
          rw [dt_startMin a da hda] at hx; cases hx
          have := dt_le_endMin b db y hdb hy
          simp at hge; omega

theorem hasDate_of_dateOf (t : Time) (D : Date) (h : dateOf t = some D) : t.hasDate = true := by
  obtain ⟨_, e1, e2, e3⟩ := dateOf_valid t D h
  simp [Time.hasDate, Time.hasAtLeast, Time.isSet, e1, e2, e3]

/-- an end without a full date has no datetime: nothing to compare -/
theorem ivOrd_undated (a b : Time) (h : (a.hasDate && b.hasDate) = false) : IvOrd (some a) (some b) := by
  intro a' b' e1 e2 x y hx hy
  cases e1; cases e2
  obtain ⟨D1, _, _, d1, _⟩ := startMin_spec a x hx
  obtain ⟨D2, _, _, d2, _⟩ := endMin_spec b y hy
  rw [hasDate_of_dateOf a D1 d1, hasDate_of_dateOf b D2 d2] at h
  cases h

theorem ivOrd_of_dt_lt (a b : Time) (da db : Ts) (hda : a.dt = .ok da) (hdb : b.dt = .ok db) (hlt : da.minutes ≤ db.minutes) :
    IvOrd (some a) (some b) := by
  intro a' b' e1 e2 x y hx hy
  cases e1; cases e2
  rw [dt_startMin a da hda] at hx; cases hx
  have := dt_le_endMin b db y hdb hy
  omega

theorem rulePODInterval_ord (p : Time) (f t : Option Time) (v : Val) (h : rulePODInterval p f t = .ok (some v)) : v.Ord := by
  unfold rulePODInterval at h
  cases hp : p.pod with
  | none => simp [hp, needS, bind, Except.bind, throw, throwThe, MonadExceptOf.throw] at h
  | some pod =>
  simp only [hp, needS, bind, Except.bind, pure, Except.pure] at h
  cases f with
  | none => simp at h; peel h; all_goals (first | subst h | (simp at h; subst h)); exact ivOrd_none_left _
  | some fa =>
  cases t with
  | none => simp at h; peel h; all_goals (first | subst h | (simp at h; subst h)); exact ivOrd_none_right _
  | some fb =>
    simp only [Option.map_some] at h
    split at h
    · cases h
    · generalize ea : ({ year := fa.year, month := fa.month, day := fa.day, hour := _, minute := fa.minute, dow := fa.dow } : Time) = a at h
      generalize eb : ({ year := fb.year, month := fb.month, day := fb.day, hour := _, minute := fb.minute, dow := fb.dow } : Time) = b at h
      by_cases hd : (a.hasDate && b.hasDate) = true
      · simp only [hd, if_true] at h
        cases hda : a.dt with
        | error e => simp [hda] at h
        | ok da =>
        cases hdb : b.dt with
        | error e => simp [hda, hdb] at h
        | ok db =>
          simp only [hda, hdb] at h
          split at h
          · cases h
          · rename_i hlt
            simp at h; subst h
            exact ivOrd_of_dt_lt a b da db hda hdb (by simp at hlt; omega)
      · simp only [hd] at h
        simp at h; subst h
        exact ivOrd_undated a b (by simpa using hd)

theorem dateEnd_ord (t : Time) (x : Ts) (d : Date) (v : Val) (hdt : t.dt = .ok x) (hle : d.inRange = true → x.date.ord ≤ d.ord)
    (h : (if d.inRange then (pure (some (.interval (some t) (some (tsTime d)))) : R) else pure none) = .ok (some v)) : v.Ord := by
  split at h
  · rename_i hr
    simp [pure, Except.pure] at h; subst h
    exact ivOrd_dateEnd t x d hdt (hle hr)
  · simp [pure, Except.pure] at h

theorem addDays_ord_le (x : Date) (n : Int) (hn : 0 ≤ n) (hr : (x.addDays n).inRange = true) : x.ord ≤ (x.addDays n).ord := by
  unfold Date.addDays at hr ⊢
  rw [(ofOrd_inRange_ord _ hr).2]; omega

theorem minutesEnd_ord (t : Time) (x : Ts) (k : Int) (hk : 0 ≤ k) (v : Val) (hdt : t.dt = .ok x)
    (h : (if (x.addMinutes k).date.inRange = true then
        (Except.ok (some (Val.interval (some t) (some (tsToTime (x.addMinutes k) none)))) : R)
      else Except.ok none) = .ok (some v)) : v.Ord := by
  split at h
  · rename_i hr
    simp at h; subst h
    have hm := (ofMinutes_inRange _ hr).1
    show IvOrd (some t) (some (tsToTime (x.addMinutes k) none))
    intro a' b' e1 e2 p q hp hq
    cases e1; cases e2
    rw [dt_startMin t x hdt] at hp; cases hp
    have := endMin_tsToTime _ none q hq
    unfold Ts.addMinutes at this
    omega
  · simp at h

theorem ruleTimeDuration_ord (t : Time) (n : Int) (u : DUnit) (hn : 0 ≤ n) (v : Val) (h : ruleTimeDuration t n u = .ok (some v)) : v.Ord := by
  unfold ruleTimeDuration at h
  cases hs : t.start with
  | error e => simp [hs, bind, Except.bind] at h
  | ok s =>
  simp only [hs, bind, Except.bind] at h
  cases hdt : t.dt with
  | error e => cases e <;> simp [hdt, pure, Except.pure, throw, throwThe, MonadExceptOf.throw] at h
  | ok x =>
    simp only [hdt] at h
    have hv := (dt_bounds t x hdt).1
    cases u with
    | days => exact dateEnd_ord t x _ v hdt (addDays_ord_le _ n hn) h
    | nights => exact dateEnd_ord t x _ v hdt (addDays_ord_le _ n hn) h
    | weeks => exact dateEnd_ord t x _ v hdt (addDays_ord_le _ (7 * n) (by omega)) h
    | months => exact dateEnd_ord t x _ v hdt (fun _ => addMonthsClip_ord _ hv n hn) h
    | hours =>
      simp only [show (DUnit.hours == DUnit.hours) = true from rfl, if_true, pure, Except.pure] at h
      exact minutesEnd_ord t x (60 * n) (by omega) v hdt h
    | minutes =>
      simp only [show (DUnit.minutes == DUnit.hours) = false from rfl, Bool.false_eq_true, if_false, pure, Except.pure] at h
      exact minutesEnd_ord t x n hn v hdt h

/-! ### the simple cases -/
theorem ruleBeforeTime_ord (k : Tok) (t : Time) (v : Val) (h : ruleBeforeTime k t = .ok (some v)) : v.Ord := by
  unfold ruleBeforeTime at h
  split at h <;> (simp [pure, Except.pure] at h; subst h) <;> first | exact ivOrd_none_right _ | exact ivOrd_none_left _
theorem ruleAfterTime_ord (k : Tok) (t : Time) (v : Val) (h : ruleAfterTime k t = .ok (some v)) : v.Ord := by
  unfold ruleAfterTime at h
  split at h <;> (simp [pure, Except.pure] at h; subst h) <;> first | exact ivOrd_none_right _ | exact ivOrd_none_left _

/-- a start without a full date has no datetime -/
theorem ivOrd_undated_left (a : Time) (b : Option Time) (h : a.hasDate = false) : IvOrd (some a) b := by
  intro a' b' e1 e2 x y hx hy
  cases e1
  obtain ⟨D1, _, _, d1, _⟩ := startMin_spec a x hx
  rw [hasDate_of_dateOf a D1 d1] at h
  cases h

theorem isTOD_undated (t : Time) (h : t.isTOD = true) : t.hasDate = false := by
  cases hy : t.year with
  | none => simp [Time.hasDate, Time.hasAtLeast, Time.isSet, hy]
  | some y =>
    exfalso
    simp [Time.isTOD, Time.hasOnly, Gen.timeAttrs, Time.isSet, hy] at h

theorem isPOD_undated (t : Time) (h : t.isPOD = true) : t.hasDate = false := by
  cases hy : t.year with
  | none => simp [Time.hasDate, Time.hasAtLeast, Time.isSet, hy]
  | some y =>
    exfalso
    simp [Time.isPOD, Time.hasOnly, Gen.timeAttrs, Time.isSet, hy] at h

theorem ruleTODTOD_ord (t1 t2 : Time) (h1 : t1.isTOD = true) (v : Val) (h : ruleTODTOD t1 t2 = .ok (some v)) : v.Ord := by
  unfold ruleTODTOD at h
  cases hh1 : t1.hour <;> cases hh2 : t2.hour <;>
    simp [hh1, hh2, need, bind, Except.bind, pure, Except.pure, throw, throwThe, MonadExceptOf.throw] at h
  split at h <;> (simp at h; subst h; exact ivOrd_undated_left _ _ (isTOD_undated t1 h1))

theorem rulePODPOD_ord (t1 t2 : Time) (h1 : t1.isPOD = true) (v : Val) (h : rulePODPOD t1 t2 = .ok (some v)) : v.Ord := by
  simp [rulePODPOD, pure, Except.pure] at h; subst h
  exact ivOrd_undated_left _ _ (isPOD_undated t1 h1)

theorem ruleDurationInterval_ord (n : Int) (u : DUnit) (f t : Option Time) (hft : IvOrd f t) (v : Val)
    (h : ruleDurationInterval n u f t = .ok (some v)) : v.Ord := by
  unfold ruleDurationInterval at h
  cases f with
  | none => simp [throw, throwThe, MonadExceptOf.throw] at h
  | some a =>
    cases t with
    | none => simp [throw, throwThe, MonadExceptOf.throw] at h
    | some b =>
      simp only [bind, Except.bind, pure, Except.pure] at h
      peel h
      all_goals (first | (simp at h; subst h; exact hft) | (subst h; exact hft))

theorem grpInt_nonneg (k : Tok) (n : String) (x : Int) (h : grpInt k n = .ok x) : 0 ≤ x := by
  unfold grpInt at h
  cases hg : k.group n with
  | none => simp [hg, throw, throwThe, MonadExceptOf.throw] at h
  | some w => simp only [hg] at h; exact pyInt_nonneg w x h

theorem ruleDigitDuration_ord (k : Tok) (v : Val) (h : ruleDigitDuration k = .ok (some v)) : v.Ord := by
  unfold ruleDigitDuration at h
  simp only [bind, Except.bind, pure, Except.pure] at h
  split at h
  · split at h
    · split at h
      · cases hg : grpInt k "num" with
        | error e => simp [hg] at h
        | ok x => simp [hg] at h; subst h; exact grpInt_nonneg k "num" x hg
      · simp [throw, throwThe, MonadExceptOf.throw] at h
    · simp at h
  · simp at h

theorem ruleNamedNumberDuration_ord (k : Tok) (v : Val) (h : ruleNamedNumberDuration k = .ok (some v)) : v.Ord := by
  unfold ruleNamedNumberDuration at h
  simp only [bind, Except.bind, pure, Except.pure] at h
  peel h
  all_goals (first | (simp [throw, throwThe, MonadExceptOf.throw] at h; done) | (simp at h; subst h; exact Int.natCast_nonneg _) | (subst h; exact Int.natCast_nonneg _))

theorem ruleDurationHalf_ord (k : Tok) (v : Val) (h : ruleDurationHalf k = .ok (some v)) : v.Ord := by
  unfold ruleDurationHalf at h
  simp only [bind, Except.bind, pure, Except.pure] at h
  peel h
  all_goals (first | (simp [throw, throwThe, MonadExceptOf.throw] at h; done) | (simp at h; subst h; show (0:Int) ≤ _; decide) | (subst h; show (0:Int) ≤ _; decide))

end QuickAdd
