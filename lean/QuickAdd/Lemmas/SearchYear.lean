import QuickAdd.Lemmas.YearBoundAll
import QuickAdd.Lemmas.SearchWF
/-!
# No time value of a reachable production carries a year above the bound (hypothesis (b) of `search_total`, discharged)
Pattern matches carry no year; every production keeps the bound (`rules_preserve_year`); so does every derivation step.
-/
namespace QuickAdd
open Gen

theorem matchRegex_year (B : Int) (txt : List Nat) : ∀ a ∈ matchRegex txt, a.v.YearLe B := by
  intro a ha
  unfold matchRegex at ha
  have h1 := mem_sortBy _ _ _ ha
  simp only [List.mem_flatMap, List.mem_map] at h1
  obtain ⟨p, _, m, _, rfl⟩ := h1
  obtain ⟨s, e, cs⟩ := m
  trivial

theorem initialStack_year {S : Type} (sc : Scorer S) (B : Int) (depth num den : Nat) (txt : List Nat) (fuel : Nat) :
    ∀ e ∈ (initialStack sc depth num den txt fuel).1, ∀ a ∈ e.prod, a.v.YearLe B := by
  intro e he
  unfold initialStack at he
  simp only at he
  have h1 := mem_trunc _ _ _ he
  have h2 := (List.mem_filter.mp h1).1
  have h3 := mem_sortE _ _ _ h2
  simp only [List.mem_map] at h3
  obtain ⟨s, hs, rfl⟩ := h3
  exact fun a ha => matchRegex_year B txt a (regexStack_mem txt _ fuel s hs a ha)

theorem applyRule_year (name : String) (ts : Ts) (hts : TsOk ts) (B : Int) (hB : YearCap ts B) (args : List Art)
    (hargs : ∀ a ∈ args, a.v.Ok ∧ a.v.YearLe B) (x : Art) (h : applyRule name ts args = .ok (some x)) : x.v.YearLe B := by
  unfold applyRule at h
  cases hrw : applyRaw name ts (args.map (·.v)) with
  | error e => simp [hrw, bind, Except.bind] at h
  | ok o =>
    cases o with
    | none => simp [hrw, bind, Except.bind, pure, Except.pure] at h
    | some v =>
      simp only [hrw, bind, Except.bind, pure, Except.pure] at h
      have hv : v.YearLe B := by
        unfold applyRaw at hrw
        cases hn : RuleId.ofName name with
        | none => simp [hn, throw, throwThe, MonadExceptOf.throw] at hrw
        | some rid =>
          simp only [hn] at hrw
          refine rules_preserve_year rid ts hts B hB _ ?_ v hrw
          intro a ha
          simp only [List.mem_map] at ha
          obtain ⟨b, hb, rfl⟩ := ha
          exact hargs b hb
      split at h
      · simp at h
      · split at h
        · simp at h; subst h; exact hv
        · simp [throw, throwThe, MonadExceptOf.throw] at h

theorem expand_year (ts : Ts) (hts : TsOk ts) (B : Int) (hB : YearCap ts B) (rules : List (String × List Pred))
    (prod : List Art) (trace : List String)
    (out : List (List Art × List String × Nat)) (h : expandArts ts rules prod trace = .ok out) (hp : ∀ a ∈ prod, a.v.Ok ∧ a.v.YearLe B) :
    ∀ s ∈ out, ∀ a ∈ s.1, a.v.YearLe B := by
  intro s hs a ha
  obtain ⟨r, hr, i, hi, x, hx, rfl⟩ := expand_sound ts rules prod trace out h s hs
  simp only [List.mem_append, List.mem_cons] at ha
  rcases ha with ha | rfl | ha
  · exact (hp a (List.mem_of_mem_take ha)).2
  · exact applyRule_year r.1 ts hts B hB _ (fun b hb => hp b (List.mem_of_mem_drop (List.mem_of_mem_take hb))) _ hx
  · exact (hp a (List.mem_of_mem_drop ha)).2

/-- **no time value of a reachable production carries a year above `B`** (`B ≥ 2999`, `B ≥ ts.year + 401`) -/
theorem reach_year {S : Type} (sc : Scorer S) (ts : Ts) (hts : TsOk ts) (B : Int) (hB : YearCap ts B) (depth : Nat) (txt : List Nat) (init : List (E Art S))
    (hinit : ∀ e ∈ init, (∀ a ∈ e.prod, a.v.Ok) ∧ ∀ r ∈ e.rules, r ∈ ruleSigs) (hyinit : ∀ e ∈ init, ∀ a ∈ e.prod, a.v.YearLe B)
    (p : List Art) (t : List String) (rules : List (String × List Pred))
    (hr : ReachE (mkCfg sc ts depth txt) init p t rules) : ∀ a ∈ p, a.v.YearLe B := by
  induction hr with
  | init hm => exact hyinit _ hm
  | step hprev hexp hmem ih =>
    have hok := reach_ok sc ts hts.valid depth txt init hinit _ _ _ hprev
    exact expand_year ts hts B hB _ _ _ _ hexp (fun a ha => ⟨hok.1 a ha, ih a ha⟩) _ hmem

theorem yearCap_of_tsOk (ts : Ts) (hts : TsOk ts) : YearCap ts 9990 := ⟨by omega, by have := hts.hi; omega⟩

end QuickAdd
