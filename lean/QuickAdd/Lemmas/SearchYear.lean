import QuickAdd.Lemmas.YearBoundAll
import QuickAdd.Lemmas.SearchWF
/-!
# No time value of a reachable production carries a year above the bound (hypothesis (b) of `search_total`, discharged)
Pattern matches carry no year; every production keeps the bound (`rules_preserve_year`); so does every derivation step.
-/
namespace QuickAdd
open Gen

theorem matchRegex_year (B : Int) (txt : List Nat) : ∀ a ∈ matchRegex txt, a.v.YearLe B := by
  intro a ha
  unfold matchRegex at ha
  have h1 := mem_sortBy _ _ _ ha
  simp only [List.mem_flatMap, List.mem_map] at h1
  obtain ⟨p, _, m, _, rfl⟩ := h1
  obtain ⟨s, e, cs⟩ := m
  trivial

theorem initialStack_year {S : Type} (sc : Scorer S) (B : Int) (depth num den : Nat) (txt : List Nat) (fuel : Nat) :
    ∀ e ∈ (initialStack sc depth num den txt fuel).1, ∀ a ∈ e.prod, a.v.YearLe B := by
  intro e he
  unfold initialStack at he
  simp only at he
  have h1 := mem_trunc _ _ _ he
  have h2 := (List.mem_filter.mp h1).1
  have h3 := mem_sortE _ _ _ h2
  simp only [List.mem_map] at h3
  obtain ⟨s, hs, rfl⟩ := h3
  exact fun a ha => matchRegex_year B txt a (regexStack_mem txt _ fuel s hs a ha)

theorem applyRule_year (name : String) (ts : Ts) (hts : TsOk ts) (B : Int) (hB : YearCap ts B) (args : List Art)
    (hargs : ∀ a ∈ args, a.v.Ok ∧ a.v.YearLe B) (x : Art) (h : applyRule name ts args = .ok (some x)) : x.v.YearLe B := by
  unfold applyRule at h
  cases hrw : applyRaw name ts (args.map (·.v)) with
  | error e => simp [hrw, bind, Except.bind] at h
  | ok o =>
    cases o with
    | none => simp [hrw, bind, Except.bind, pure, Except.pure] at h
    | some v =>
      simp only [hrw, bind, Except.bind, pure, Except.pure] at h
      have hv : v.YearLe B := by
        unfold applyRaw at hrw
        cases hn : RuleId.ofName name with
        | none => simp [hn, throw, throwThe, MonadExceptOf.throw] at hrw
        | some rid =>
          simp only [hn] at hrw
          refine rules_preserve_year rid ts hts B hB _ ?_ v hrw
          intro a ha
          simp only [List.mem_map] at ha
          obtain ⟨b, hb, rfl⟩ := ha
          exact hargs b hb
      split at h
      · simp at h
      · split at h
        · simp at h; subst h; exact hv
        · simp [throw, throwThe, MonadExceptOf.throw] at h

theorem expand_year (ts : Ts) (hts : TsOk ts) (B : Int) (hB : YearCap ts B) (rules : List (String × List Pred))
    (prod : List Art) (trace : List String)
    (out : List (List Art × List String × Nat)) (h : expandArts ts rules prod trace = .ok out) (hp : ∀ a ∈ prod, a.v.Ok ∧ a.v.YearLe B) :
    ∀ s ∈ out, ∀ a ∈ s.1, a.v.YearLe B := by
  intro s hs a ha
  obtain ⟨r, hr, i, hi, x, hx, rfl⟩ := expand_sound ts rules prod trace out h s hs
  simp only [List.mem_append, List.mem_cons] at ha
  rcases ha with ha | rfl | ha
  · exact (hp a (List.mem_of_mem_take ha)).2
  · exact applyRule_year r.1 ts hts B hB _ (fun b hb => hp b (List.mem_of_mem_drop (List.mem_of_mem_take hb))) _ hx
  · exact (hp a (List.mem_of_mem_drop ha)).2

/-- **no time value of a reachable production carries a year above `B`** (`B ≥ 2999`, `B ≥ ts.year + 401`) -/
theorem reach_year {S : Type} (sc : Scorer S) (ts : Ts) (hts : TsOk ts) (B : Int) (hB : YearCap ts B) (depth : Nat) (txt : List Nat) (init : List (E Art S))
    (hinit : ∀ e ∈ init, (∀ a ∈ e.prod, a.v.Ok) ∧ ∀ r ∈ e.rules, r ∈ ruleSigs) (hyinit : ∀ e ∈ init, ∀ a ∈ e.prod, a.v.YearLe B)
    (p : List Art) (t : List String) (rules : List (String × List Pred))
    (hr : ReachE (mkCfg sc ts depth txt) init p t rules) : ∀ a ∈ p, a.v.YearLe B := by
  induction hr with
  | init hm => exact hyinit _ hm
  | step hprev hexp hmem ih =>
    have hok := reach_ok sc ts hts.valid depth txt init hinit _ _ _ hprev
    exact expand_year ts hts B hB _ _ _ _ hexp (fun a ha => ⟨hok.1 a ha, ih a ha⟩) _ hmem

theorem yearCap_of_tsOk (ts : Ts) (hts : TsOk ts) : YearCap ts 9990 := ⟨by omega, by have := hts.hi; omega⟩


/-! ### latent-time anchoring keeps the bound -/
theorem latentTod_year (ts : Ts) (hts : TsOk ts) (B : Int) (hB : YearCap ts B) (tod r : Time) (h : latentTod ts tod = .ok r) :
    (Val.time r).YearLe B := by
  unfold latentTod at h
  cases hh : tod.hour with
  | none => simp [hh, need, bind, Except.bind, throw, throwThe, MonadExceptOf.throw] at h
  | some x =>
    simp only [hh, need, bind, Except.bind, pure, Except.pure] at h
    generalize hmi : tod.minute.getD 0 = mi at h
    cases hin : inDay x mi with
    | false => simp [hin, throw, throwThe, MonadExceptOf.throw] at h
    | true =>
      simp only [hin, Bool.not_true, Bool.false_eq_true, if_false] at h
      generalize hd0 : (if x * 60 + mi ≤ ts.h * 60 + ts.mi then ts.date.addDays 1 else ts.date) = d0 at h
      cases hc : dateOk d0 with
      | error e => simp [hc] at h
      | ok d =>
        simp [hc] at h; subst h
        have ec : d = d0 := by
          unfold dateOk at hc; split at hc <;> simp [pure, Except.pure, throw, throwThe, MonadExceptOf.throw] at hc; exact hc.symm
        obtain ⟨o1, o2⟩ := hts.ord
        have hy : d0.y ≤ ts.date.y + 1 := by
          subst hd0
          split
          · obtain ⟨av, ao⟩ := addDays_spec ts.date 1 (by omega) (by omega)
            have := year_le_of_ord _ ts.date av hts.valid.1 1 (by omega)
            omega
          · omega
        subst ec
        intro y hy'; simp at hy'; have := hB.rel; omega

theorem applyLatent_year (ts : Ts) (hts : TsOk ts) (B : Int) (hB : YearCap ts B) (a b : Art) (ha : a.v.YearLe B) (h : applyLatent ts a = .ok b) :
    b.v.YearLe B := by
  unfold applyLatent at h
  split at h
  · rename_i t hv
    split at h
    · cases hl : latentTod ts t with
      | error e => simp [hl, bind, Except.bind] at h
      | ok r => simp [hl, bind, Except.bind, pure, Except.pure] at h; subst h; exact latentTod_year ts hts B hB t r hl
    · simp [pure, Except.pure] at h; subst h; exact ha
  · rename_i f t hv
    split at h
    · cases hl : latentInterval ts f t with
      | error e => simp [hl, bind, Except.bind] at h
      | ok r =>
        simp [hl, bind, Except.bind, pure, Except.pure] at h; subst h
        -- the anchored value is an interval: no claim about the years of interval ends
        unfold latentInterval at hl
        simp only [need, bind, Except.bind, pure, Except.pure] at hl
        repeat' (split at hl)
        all_goals (try (simp [pure, Except.pure, throw, throwThe, MonadExceptOf.throw] at hl))
        all_goals (try (subst hl))
        all_goals trivial
    · simp [pure, Except.pure] at h; subst h; exact ha
  · simp [pure, Except.pure] at h; subst h; exact ha

theorem latentAll_year {S : Type} (ts : Ts) (hts : TsOk ts) (B : Int) (hB : YearCap ts B) : ∀ (cs : List (Cand S)),
    (∀ c ∈ cs, c.res.v.YearLe B) → ∀ c ∈ (latentAll ts cs).1, c.res.v.YearLe B := by
  intro cs
  induction cs with
  | nil => intro _ c hc; simp [latentAll] at hc
  | cons c0 cs ih =>
    intro hall c hc
    simp only [latentAll] at hc
    cases hl : applyLatent ts c0.res with
    | error e => simp [hl] at hc
    | ok r =>
      simp only [hl] at hc
      rcases List.mem_cons.mp hc with rfl | hc
      · exact applyLatent_year ts hts B hB c0.res r (hall c0 (by simp)) hl
      · exact ih (fun c hc => hall c (List.mem_cons_of_mem _ hc)) c hc

end QuickAdd
