import QuickAdd.Lemmas.SpanReach
/-!
# The span of a value is exactly the stretch of the matches it consumed (C09)

`Hull s p`: read left to right, every element of the production `p` is the next element of the initial sequence `s` kept as
it is, or a value that stands for a non-empty block of `s` **and spans from the start of the block's first element to the
end of its last**.  Every reachable production is a hull of its initial sequence (`reach_hull`), so the span of every
streamed candidate is the hull of a contiguous block of pattern matches of the text (`Hull.mem`).
-/
namespace QuickAdd
open Gen

inductive Hull : List Art → List Art → Prop
  | nil : Hull [] []
  | keep {a : Art} {s p : List Art} : Hull s p → Hull (a :: s) (a :: p)
  | block {x a z : Art} {b s p : List Art} : b.head? = some a → b.getLast? = some z → x.ms = a.ms → x.me = z.me → Hull s p → Hull (b ++ s) (x :: p)

theorem Hull.refl : ∀ s : List Art, Hull s s
  | [] => .nil
  | _ :: s => .keep (Hull.refl s)

theorem head?_ne_nil {b : List Art} {a : Art} (h : b.head? = some a) : b ≠ [] := by
  intro e; subst e; simp at h

theorem Hull.split : ∀ (l r : List Art) (s : List Art), Hull s (l ++ r) → ∃ s1 s2, s = s1 ++ s2 ∧ Hull s1 l ∧ Hull s2 r := by
  intro l
  induction l with
  | nil => intro r s h; exact ⟨[], s, rfl, .nil, h⟩
  | cons a l ih =>
    intro r s h
    cases h with
    | keep h' =>
      obtain ⟨s1, s2, e, c1, c2⟩ := ih r _ h'
      exact ⟨a :: s1, s2, by simp [e], .keep c1, c2⟩
    | @block _ a0 z0 b s' _ h1 h2 h3 h4 h' =>
      obtain ⟨s1, s2, e, c1, c2⟩ := ih r _ h'
      exact ⟨b ++ s1, s2, by simp [e], .block h1 h2 h3 h4 c1, c2⟩

theorem Hull.append {s1 p1 s2 p2 : List Art} (h1 : Hull s1 p1) (h2 : Hull s2 p2) : Hull (s1 ++ s2) (p1 ++ p2) := by
  induction h1 with
  | nil => exact h2
  | keep _ ih => exact .keep ih
  | @block x a z b s p e1 e2 e3 e4 _ ih => rw [List.append_assoc]; exact .block e1 e2 e3 e4 ih

theorem head?_append_of_ne {b s : List Art} (hb : b ≠ []) : (b ++ s).head? = b.head? := by
  cases b with
  | nil => exact absurd rfl hb
  | cons x xs => rfl

/-- the first element of a non-empty hulled production starts where the initial sequence starts -/
theorem Hull.first : ∀ {s w : List Art}, Hull s w → ∀ a', w.head? = some a' → ∃ a, s.head? = some a ∧ a'.ms = a.ms := by
  intro s w h
  cases h with
  | nil => intro a' e; simp at e
  | keep _ => intro a' e; simp at e; subst e; exact ⟨_, rfl, rfl⟩
  | @block x a z b s p e1 e2 e3 e4 _ =>
    intro a' e; simp at e; subst e
    exact ⟨a, by rw [head?_append_of_ne (head?_ne_nil e1)]; exact e1, e3⟩

theorem getLast?_append_nil_or {b s : List Art} : s = [] → (b ++ s).getLast? = b.getLast? := by
  intro e; subst e; simp

/-- … and its last element ends where the initial sequence ends -/
theorem Hull.last : ∀ {s w : List Art}, Hull s w → ∀ z', w.getLast? = some z' → ∃ z, s.getLast? = some z ∧ z'.me = z.me := by
  intro s w h
  induction h with
  | nil => intro z' e; simp at e
  | @keep a s p h' ih =>
    intro z' e
    cases p with
    | nil =>
      cases h'
      simp at e; subst e; exact ⟨_, rfl, rfl⟩
    | cons q qs =>
      have e' : (q :: qs).getLast? = some z' := by simpa [List.getLast?_cons_cons] using e
      obtain ⟨z, hz, hm⟩ := ih z' e'
      refine ⟨z, ?_, hm⟩
      cases s with
      | nil => simp at hz
      | cons t ts => simpa [List.getLast?_cons_cons] using hz
  | @block x a z b s p e1 e2 e3 e4 h' ih =>
    intro z' e
    cases p with
    | nil =>
      cases h'
      simp at e; subst e
      exact ⟨z, by simpa using e2, e4⟩
    | cons q qs =>
      have e' : (q :: qs).getLast? = some z' := by simpa [List.getLast?_cons_cons] using e
      obtain ⟨z2, hz, hm⟩ := ih z' e'
      refine ⟨z2, ?_, hm⟩
      cases s with
      | nil => simp at hz
      | cons t ts => rw [List.getLast?_append]; simp [hz]

/-- replacing a non-empty window by a value that spans first-to-last element of the window keeps the hull -/
theorem Hull.replace (s l w r : List Art) (x a z : Art) (ha : w.head? = some a) (hz : w.getLast? = some z)
    (hs : x.ms = a.ms) (he : x.me = z.me) (h : Hull s (l ++ w ++ r)) : Hull s (l ++ x :: r) := by
  rw [List.append_assoc] at h
  obtain ⟨s1, s2, e, c1, c2⟩ := Hull.split l (w ++ r) s h
  obtain ⟨s3, s4, e', c3, c4⟩ := Hull.split w r s2 c2
  subst e; subst e'
  obtain ⟨a0, ha0, hm0⟩ := Hull.first c3 a ha
  obtain ⟨z0, hz0, hm1⟩ := Hull.last c3 z hz
  exact Hull.append c1 (.block ha0 hz0 (hs.trans hm0) (he.trans hm1) c4)

/-- what an element of a hulled production stands for -/
theorem Hull.mem : ∀ {s p : List Art}, Hull s p → ∀ x ∈ p, ∃ pre b post a z, s = pre ++ b ++ post ∧ b.head? = some a ∧ b.getLast? = some z ∧
    x.ms = a.ms ∧ x.me = z.me := by
  intro s p h
  induction h with
  | nil => intro x hx; simp at hx
  | @keep a s p _ ih =>
    intro x hx
    rcases List.mem_cons.mp hx with rfl | hx
    · exact ⟨[], [x], s, x, x, by simp, rfl, rfl, rfl, rfl⟩
    · obtain ⟨pre, b, post, a', z', e, h1, h2, h3, h4⟩ := ih x hx
      exact ⟨a :: pre, b, post, a', z', by simp [e], h1, h2, h3, h4⟩
  | @block x0 a z b s p e1 e2 e3 e4 _ ih =>
    intro x hx
    rcases List.mem_cons.mp hx with rfl | hx
    · exact ⟨[], b, s, a, z, by simp, e1, e2, e3, e4⟩
    · obtain ⟨pre, b', post, a', z', e, h1, h2, h3, h4⟩ := ih x hx
      exact ⟨b ++ pre, b', post, a', z', by simp [e], h1, h2, h3, h4⟩

/-- **every reachable production is a hull of the initial sequence it descends from** -/
theorem reach_hull {S : Type} (sc : Scorer S) (ts : Ts) (depth : Nat) (txt : List Nat) (init : List (E Art S))
    (p : List Art) (t : List String) (rules : List (String × List Pred))
    (hr : ReachE (mkCfg sc ts depth txt) init p t rules) : ∃ e0 ∈ init, Hull e0.prod p := by
  induction hr with
  | @init e hm => exact ⟨e, hm, Hull.refl _⟩
  | @step p t rules succs p' t' k _ hexp hmem ih =>
    obtain ⟨e0, he0, hh⟩ := ih
    obtain ⟨r, _, i, hi, x, hx, e⟩ := expand_sound ts rules p t succs hexp _ hmem
    have e1 : p' = p.take i ++ x :: p.drop (i + r.2.length) := by
      have := congrArg Prod.fst e; simpa using this
    obtain ⟨a, b, ha, hl, hxs, hxe⟩ := applyRule_span r.1 ts _ x hx
    have hsplit : p = p.take i ++ (p.drop i).take r.2.length ++ p.drop (i + r.2.length) := by
      rw [List.append_assoc]
      conv => lhs; rw [← List.take_append_drop i p]
      congr 1
      conv => lhs; rw [← List.take_append_drop r.2.length (p.drop i)]
      congr 1
      rw [List.drop_drop]
    rw [hsplit] at hh
    rw [e1]
    exact ⟨e0, he0, Hull.replace _ _ _ _ x a b ha hl hxs hxe hh⟩

end QuickAdd
