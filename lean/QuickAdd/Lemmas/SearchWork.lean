import QuickAdd.Model.Search
/-! Work per main-loop iteration is bounded by (number of applicable rules) × (length of the production), and productions
    never grow: the amount of rule applications between two deadline checks does not depend on how many candidate
    sequences there are (C13).  Also: the only sources of an exception in the loop are a production and fuel (C01). -/
namespace QuickAdd
open Gen

theorem matchRule_length_le (seq : List Art) (pat : List Pred) : (matchRule seq pat).length ≤ seq.length := by
  unfold matchRule
  split
  · simp
  · calc ((List.range seq.length).filter _).length ≤ (List.range seq.length).length := List.length_filter_le _ _
      _ = seq.length := List.length_range

theorem foldOpt_length_le {β γ : Type} (g : β → Except PyErr (Option γ)) :
    ∀ (ws : List β) (acc out : List γ), foldOpt g ws acc = .ok out → out.length ≤ acc.length + ws.length := by
  intro ws
  induction ws with
  | nil => intro acc out h; simp [foldOpt] at h; subst h; simp
  | cons i is ih =>
    intro acc out h
    simp only [foldOpt] at h
    cases hr : g i with
    | error e => simp [hr] at h
    | ok r =>
      cases r with
      | none => simp only [hr] at h; have := ih acc out h; simp; omega
      | some x => simp only [hr] at h; have := ih _ out h; simp at this ⊢; omega

theorem foldAppend_length_le {β γ : Type} (g : β → Except PyErr (List γ)) (B : Nat) (hB : ∀ r outs, g r = .ok outs → outs.length ≤ B) :
    ∀ (rs : List β) (acc out : List γ), foldAppend g rs acc = .ok out → out.length ≤ acc.length + rs.length * B := by
  intro rs
  induction rs with
  | nil => intro acc out h; simp [foldAppend] at h; subst h; simp
  | cons r rs ih =>
    intro acc out h
    simp only [foldAppend] at h
    cases hr : g r with
    | error e => simp [hr] at h
    | ok outs =>
      simp only [hr] at h
      have h1 := ih _ out h
      have h2 := hB r outs hr
      simp only [List.length_append, List.length_cons] at h1 ⊢
      have : (rs.length + 1) * B = rs.length * B + B := by rw [Nat.add_mul]; simp
      omega

/-- **work bound**: one expansion makes at most |rules| · |production| rule applications / successors -/
theorem expand_count_le (ts : Ts) (rules : List (String × List Pred)) (prod : List Art) (trace : List String)
    (out : List (List Art × List String × Nat)) (h : expandArts ts rules prod trace = .ok out) : out.length ≤ rules.length * prod.length := by
  have h' : foldAppend (fun r : String × List Pred => expandRule ts r.1 r.2 prod trace) rules [] = .ok out := h
  have := foldAppend_length_le (fun r : String × List Pred => expandRule ts r.1 r.2 prod trace) prod.length
    (by
      intro r outs ho
      have ho' : foldOpt (applyAt ts r.1 r.2 prod trace) (matchRule prod r.2) [] = .ok outs := ho
      have h1 := foldOpt_length_le _ _ _ _ ho'
      have h2 := matchRule_length_le prod r.2
      simp at h1; omega) rules [] out h'
  simpa using this

/-- the applicable-rule set of any stack element is a sub-list of the registry: |rules| ≤ 69 whatever the text -/
theorem filterRules_le (seq : List Art) : (filterRules seq).length ≤ ruleSigs.length := by
  unfold filterRules; exact List.length_filter_le _ _

/-- the only sources of an exception in the worklist loop are a production (via `expand`) and fuel exhaustion -/
theorem run_err_source {α S : Type} (c : Cfg α S) : ∀ (f : Nat) (budget : Option Nat) (stack : List (E α S)) (seen : List (List α × S)) (em : List (α × S)) (e : PyErr),
    (run c f budget stack seen em).2 = some e → e = .unmodelled ∨ ∃ rules p t, c.expand rules p t = .error e := by
  intro f
  induction f with
  | zero => intro _ _ _ _ e h; simp [run] at h; exact Or.inl h.symm
  | succ f ih =>
    intro budget stack seen em e h
    simp only [run] at h
    cases hs : stack.reverse with
    | nil => simp [hs] at h
    | cons s restRev =>
      simp only [hs] at h
      split at h
      · simp at h
      · cases he : c.expand s.rules s.prod s.trace with
        | error e' =>
          simp only [he] at h
          simp at h; subst h
          exact Or.inr ⟨_, _, _, he⟩
        | ok succs =>
          simp only [he] at h
          split at h
          · exact ih _ _ _ _ e h
          · exact ih _ _ _ _ e h

end QuickAdd
