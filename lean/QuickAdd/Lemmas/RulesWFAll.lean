import QuickAdd.Lemmas.RulesWF
import QuickAdd.Lemmas.IntervalOrdRules
/-! One lemma per registered production (its own elaboration budget), then the statement for all of them.
   Per rule the argument list is destructured to the production's arity; every shape the dispatcher does not accept reduces to
   the `unmodelled` error by evaluation (`nomatch`). -/
namespace QuickAdd
open Gen

/-- field ranges (`OkV0`) and the order clause (`Ord`) together are `OkV` -/
theorem okv_of {v : Val} (h0 : v.OkV0) (h1 : v.Ord) : v.OkV := by
  cases v with
  | tok k => exact h0
  | time t => exact h0
  | interval f t => exact ⟨h0.1, h0.2, h1⟩
  | duration n u => exact h1

/-- what the two interval productions that do not compare their ends need from their signature: the first end is a bare
    time of day / part of day, hence carries no date (`Search.applyRule_ok` derives it from the rule's registered predicates) -/
def ArgsPred : RuleId → List Val → Prop
  | .ruleTODTOD, [.time a, _, _] => a.isTOD = true
  | .rulePODPOD, [.time a, _, _] => a.isPOD = true
  | _, _ => True

theorem applyId_ok_ruleAbsorbOnTime (ts : Ts) (hts : ts.Valid) (args : List Val) (hargs : ∀ a ∈ args, a.Ok) (v : Val)
    (h : applyId .ruleAbsorbOnTime ts args = .ok (some v)) : v.OkV := by
    rcases args with _ | ⟨a, _ | ⟨b, _ | ⟨c, rest⟩⟩⟩ <;> (try cases a) <;> (try cases b) <;>
      first | (have h' : some _ = some v := Except.ok.inj h; cases h'; have hm := mem2 hargs; exact hm) | (exact nomatch h)

theorem applyId_ok_ruleAbsorbFromInterval (ts : Ts) (hts : ts.Valid) (args : List Val) (hargs : ∀ a ∈ args, a.Ok) (v : Val)
    (h : applyId .ruleAbsorbFromInterval ts args = .ok (some v)) : v.OkV := by
    rcases args with _ | ⟨a, _ | ⟨b, _ | ⟨c, rest⟩⟩⟩ <;> (try cases a) <;> (try cases b) <;>
      first | (have h' : some _ = some v := Except.ok.inj h; cases h'; have hm := mem2 hargs; exact hm) | (exact nomatch h)

theorem applyId_ok_ruleNamedDOW (ts : Ts) (hts : ts.Valid) (args : List Val) (hargs : ∀ a ∈ args, a.Ok) (v : Val)
    (h : applyId .ruleNamedDOW ts args = .ok (some v)) : v.OkV := by
    rcases args with _ | ⟨a, _ | ⟨b, rest⟩⟩ <;> (try cases a) <;>
      first | (exact ruleNamedDOW_ok _ v h) | (exact nomatch h)

theorem applyId_ok_ruleNamedMonth (ts : Ts) (hts : ts.Valid) (args : List Val) (hargs : ∀ a ∈ args, a.Ok) (v : Val)
    (h : applyId .ruleNamedMonth ts args = .ok (some v)) : v.OkV := by
    rcases args with _ | ⟨a, _ | ⟨b, rest⟩⟩ <;> (try cases a) <;>
      first | (exact ruleNamedMonth_ok _ v h) | (exact nomatch h)

theorem applyId_ok_ruleNamedHour (ts : Ts) (hts : ts.Valid) (args : List Val) (hargs : ∀ a ∈ args, a.Ok) (v : Val)
    (h : applyId .ruleNamedHour ts args = .ok (some v)) : v.OkV := by
    rcases args with _ | ⟨a, _ | ⟨b, rest⟩⟩ <;> (try cases a) <;>
      first | (exact ruleNamedHour_ok _ v h) | (exact nomatch h)

theorem applyId_ok_ruleMidnight (ts : Ts) (hts : ts.Valid) (args : List Val) (hargs : ∀ a ∈ args, a.Ok) (v : Val)
    (h : applyId .ruleMidnight ts args = .ok (some v)) : v.OkV := by
    rcases args with _ | ⟨a, _ | ⟨b, rest⟩⟩ <;> (try cases a) <;>
      first | (exact ruleMidnight_ok v h) | (exact nomatch h)

theorem applyId_ok_ruleEarlyLatePOD (ts : Ts) (hts : ts.Valid) (args : List Val) (hargs : ∀ a ∈ args, a.Ok) (v : Val)
    (h : applyId .ruleEarlyLatePOD ts args = .ok (some v)) : v.OkV := by
    rcases args with _ | ⟨a, _ | ⟨b, _ | ⟨c, rest⟩⟩⟩ <;> (try cases a) <;> (try cases b) <;>
      first | (exact ruleEarlyLatePOD_ok _ _ v h) | (exact nomatch h)

theorem applyId_ok_rulePOD (ts : Ts) (hts : ts.Valid) (args : List Val) (hargs : ∀ a ∈ args, a.Ok) (v : Val)
    (h : applyId .rulePOD ts args = .ok (some v)) : v.OkV := by
    rcases args with _ | ⟨a, _ | ⟨b, rest⟩⟩ <;> (try cases a) <;>
      first | (exact rulePOD_ok _ v h) | (exact nomatch h)

theorem applyId_ok_ruleDOM1 (ts : Ts) (hts : ts.Valid) (args : List Val) (hargs : ∀ a ∈ args, a.Ok) (v : Val)
    (h : applyId .ruleDOM1 ts args = .ok (some v)) : v.OkV := by
    rcases args with _ | ⟨a, _ | ⟨b, rest⟩⟩ <;> (try cases a) <;>
      first | (exact dayTok_ok _ (mem1 hargs) v h) | (exact nomatch h)

theorem applyId_ok_ruleMonthOrdinal (ts : Ts) (hts : ts.Valid) (args : List Val) (hargs : ∀ a ∈ args, a.Ok) (v : Val)
    (h : applyId .ruleMonthOrdinal ts args = .ok (some v)) : v.OkV := by
    rcases args with _ | ⟨a, _ | ⟨b, rest⟩⟩ <;> (try cases a) <;>
      first | (exact ruleMonthOrdinal_ok _ (mem1 hargs) v h) | (exact nomatch h)

theorem applyId_ok_ruleDOM2 (ts : Ts) (hts : ts.Valid) (args : List Val) (hargs : ∀ a ∈ args, a.Ok) (v : Val)
    (h : applyId .ruleDOM2 ts args = .ok (some v)) : v.OkV := by
    rcases args with _ | ⟨a, _ | ⟨b, rest⟩⟩ <;> (try cases a) <;>
      first | (exact ruleDOM2_ok _ (mem1 hargs) v h) | (exact nomatch h)

theorem applyId_ok_ruleYear (ts : Ts) (hts : ts.Valid) (args : List Val) (hargs : ∀ a ∈ args, a.Ok) (v : Val)
    (h : applyId .ruleYear ts args = .ok (some v)) : v.OkV := by
    rcases args with _ | ⟨a, _ | ⟨b, rest⟩⟩ <;> (try cases a) <;>
      first | (exact ruleYear_ok ts _ v h) | (exact nomatch h)

theorem applyId_ok_ruleToday (ts : Ts) (hts : ts.Valid) (args : List Val) (hargs : ∀ a ∈ args, a.Ok) (v : Val)
    (h : applyId .ruleToday ts args = .ok (some v)) : v.OkV := by
    rcases args with _ | ⟨a, _ | ⟨b, rest⟩⟩ <;> (try cases a) <;>
      first | (exact ruleToday_ok ts hts v h) | (exact nomatch h)

theorem applyId_ok_ruleNow (ts : Ts) (hts : ts.Valid) (args : List Val) (hargs : ∀ a ∈ args, a.Ok) (v : Val)
    (h : applyId .ruleNow ts args = .ok (some v)) : v.OkV := by
    rcases args with _ | ⟨a, _ | ⟨b, rest⟩⟩ <;> (try cases a) <;>
      first | (exact ruleNow_ok ts hts v h) | (exact nomatch h)

theorem applyId_ok_ruleTomorrow (ts : Ts) (hts : ts.Valid) (args : List Val) (hargs : ∀ a ∈ args, a.Ok) (v : Val)
    (h : applyId .ruleTomorrow ts args = .ok (some v)) : v.OkV := by
    rcases args with _ | ⟨a, _ | ⟨b, rest⟩⟩ <;> (try cases a) <;>
      first | (exact relDays_ok ts _ v h) | (exact nomatch h)

theorem applyId_ok_ruleAfterTomorrow (ts : Ts) (hts : ts.Valid) (args : List Val) (hargs : ∀ a ∈ args, a.Ok) (v : Val)
    (h : applyId .ruleAfterTomorrow ts args = .ok (some v)) : v.OkV := by
    rcases args with _ | ⟨a, _ | ⟨b, rest⟩⟩ <;> (try cases a) <;>
      first | (exact relDays_ok ts _ v h) | (exact nomatch h)

theorem applyId_ok_ruleYesterday (ts : Ts) (hts : ts.Valid) (args : List Val) (hargs : ∀ a ∈ args, a.Ok) (v : Val)
    (h : applyId .ruleYesterday ts args = .ok (some v)) : v.OkV := by
    rcases args with _ | ⟨a, _ | ⟨b, rest⟩⟩ <;> (try cases a) <;>
      first | (exact relDays_ok ts _ v h) | (exact nomatch h)

theorem applyId_ok_ruleBeforeYesterday (ts : Ts) (hts : ts.Valid) (args : List Val) (hargs : ∀ a ∈ args, a.Ok) (v : Val)
    (h : applyId .ruleBeforeYesterday ts args = .ok (some v)) : v.OkV := by
    rcases args with _ | ⟨a, _ | ⟨b, rest⟩⟩ <;> (try cases a) <;>
      first | (exact relDays_ok ts _ v h) | (exact nomatch h)

theorem applyId_ok_ruleEOM (ts : Ts) (hts : ts.Valid) (args : List Val) (hargs : ∀ a ∈ args, a.Ok) (v : Val)
    (h : applyId .ruleEOM ts args = .ok (some v)) : v.OkV := by
    rcases args with _ | ⟨a, _ | ⟨b, rest⟩⟩ <;> (try cases a) <;>
      first | (exact ruleEOM_ok ts v h) | (exact nomatch h)

theorem applyId_ok_ruleEOY (ts : Ts) (hts : ts.Valid) (args : List Val) (hargs : ∀ a ∈ args, a.Ok) (v : Val)
    (h : applyId .ruleEOY ts args = .ok (some v)) : v.OkV := by
    rcases args with _ | ⟨a, _ | ⟨b, rest⟩⟩ <;> (try cases a) <;>
      first | (exact ruleEOY_ok ts v h) | (exact nomatch h)

theorem applyId_ok_ruleDOMMonth (ts : Ts) (hts : ts.Valid) (args : List Val) (hargs : ∀ a ∈ args, a.Ok) (v : Val)
    (h : applyId .ruleDOMMonth ts args = .ok (some v)) : v.OkV := by
    rcases args with _ | ⟨a, _ | ⟨b, _ | ⟨c, rest⟩⟩⟩ <;> (try cases a) <;> (try cases b) <;>
      first | (exact ruleDOMMonth_ok _ _ (mem1 hargs) (mem2 hargs) v h) | (exact nomatch h)

theorem applyId_ok_ruleDOMMonth2 (ts : Ts) (hts : ts.Valid) (args : List Val) (hargs : ∀ a ∈ args, a.Ok) (v : Val)
    (h : applyId .ruleDOMMonth2 ts args = .ok (some v)) : v.OkV := by
    rcases args with _ | ⟨a, _ | ⟨b, _ | ⟨c, _ | ⟨d, rest⟩⟩⟩⟩ <;> (try cases a) <;> (try cases b) <;> (try cases c) <;>
      first | (exact ruleDOMMonth_ok _ _ (mem1 hargs) (mem3 hargs) v h) | (exact nomatch h)

theorem applyId_ok_ruleMonthDOM (ts : Ts) (hts : ts.Valid) (args : List Val) (hargs : ∀ a ∈ args, a.Ok) (v : Val)
    (h : applyId .ruleMonthDOM ts args = .ok (some v)) : v.OkV := by
    rcases args with _ | ⟨a, _ | ⟨b, _ | ⟨c, rest⟩⟩⟩ <;> (try cases a) <;> (try cases b) <;>
      first | (exact ruleMonthDOM_ok _ _ (mem1 hargs) (mem2 hargs) v h) | (exact nomatch h)

theorem applyId_ok_ruleAtDOW (ts : Ts) (hts : ts.Valid) (args : List Val) (hargs : ∀ a ∈ args, a.Ok) (v : Val)
    (h : applyId .ruleAtDOW ts args = .ok (some v)) : v.OkV := by
    rcases args with _ | ⟨a, _ | ⟨b, _ | ⟨c, rest⟩⟩⟩ <;> (try cases a) <;> (try cases b) <;>
      first | (exact ruleAtDOW_ok ts _ v h) | (exact nomatch h)

theorem applyId_ok_ruleNextDOW (ts : Ts) (hts : ts.Valid) (args : List Val) (hargs : ∀ a ∈ args, a.Ok) (v : Val)
    (h : applyId .ruleNextDOW ts args = .ok (some v)) : v.OkV := by
    rcases args with _ | ⟨a, _ | ⟨b, _ | ⟨c, rest⟩⟩⟩ <;> (try cases a) <;> (try cases b) <;>
      first | (exact ruleNextDOW_ok ts _ v h) | (exact nomatch h)

theorem applyId_ok_ruleDOWNextWeek (ts : Ts) (hts : ts.Valid) (args : List Val) (hargs : ∀ a ∈ args, a.Ok) (v : Val)
    (h : applyId .ruleDOWNextWeek ts args = .ok (some v)) : v.OkV := by
    rcases args with _ | ⟨a, _ | ⟨b, _ | ⟨c, rest⟩⟩⟩ <;> (try cases a) <;> (try cases b) <;>
      first | (exact ruleNextDOW_ok ts _ v h) | (exact nomatch h)

theorem applyId_ok_ruleDOYYear (ts : Ts) (hts : ts.Valid) (args : List Val) (hargs : ∀ a ∈ args, a.Ok) (v : Val)
    (h : applyId .ruleDOYYear ts args = .ok (some v)) : v.OkV := by
    rcases args with _ | ⟨a, _ | ⟨b, _ | ⟨c, rest⟩⟩⟩ <;> (try cases a) <;> (try cases b) <;>
      first | (exact ruleDOYYear_ok _ _ (mem1 hargs) (mem2 hargs) v h) | (exact nomatch h)

theorem applyId_ok_ruleDOWPOD (ts : Ts) (hts : ts.Valid) (args : List Val) (hargs : ∀ a ∈ args, a.Ok) (v : Val)
    (h : applyId .ruleDOWPOD ts args = .ok (some v)) : v.OkV := by
    rcases args with _ | ⟨a, _ | ⟨b, _ | ⟨c, rest⟩⟩⟩ <;> (try cases a) <;> (try cases b) <;>
      first | (exact ruleDOWPOD_ok _ _ (mem1 hargs) (mem2 hargs) v h) | (exact nomatch h)

theorem applyId_ok_ruleDOWDOM (ts : Ts) (hts : ts.Valid) (args : List Val) (hargs : ∀ a ∈ args, a.Ok) (v : Val)
    (h : applyId .ruleDOWDOM ts args = .ok (some v)) : v.OkV := by
    rcases args with _ | ⟨a, _ | ⟨b, _ | ⟨c, rest⟩⟩⟩ <;> (try cases a) <;> (try cases b) <;>
      first | (exact ruleDOWDOM_ok ts _ _ (mem2 hargs) v h) | (exact nomatch h)

theorem applyId_ok_ruleDOWDate (ts : Ts) (hts : ts.Valid) (args : List Val) (hargs : ∀ a ∈ args, a.Ok) (v : Val)
    (h : applyId .ruleDOWDate ts args = .ok (some v)) : v.OkV := by
    rcases args with _ | ⟨a, _ | ⟨b, _ | ⟨c, rest⟩⟩⟩ <;> (try cases a) <;> (try cases b) <;>
      first | (exact ruleDOWDate_ok _ _ (mem1 hargs) (mem2 hargs) v h) | (exact nomatch h)

theorem applyId_ok_ruleDateDOW (ts : Ts) (hts : ts.Valid) (args : List Val) (hargs : ∀ a ∈ args, a.Ok) (v : Val)
    (h : applyId .ruleDateDOW ts args = .ok (some v)) : v.OkV := by
    rcases args with _ | ⟨a, _ | ⟨b, _ | ⟨c, rest⟩⟩⟩ <;> (try cases a) <;> (try cases b) <;>
      first | (exact ruleDOWDate_ok _ _ (mem2 hargs) (mem1 hargs) v h) | (exact nomatch h)

theorem applyId_ok_ruleLatentDOM (ts : Ts) (hts : ts.Valid) (args : List Val) (hargs : ∀ a ∈ args, a.Ok) (v : Val)
    (h : applyId .ruleLatentDOM ts args = .ok (some v)) : v.OkV := by
    rcases args with _ | ⟨a, _ | ⟨b, rest⟩⟩ <;> (try cases a) <;>
      first | (exact ruleLatentDOM_ok ts _ (mem1 hargs) v h) | (exact nomatch h)

theorem applyId_ok_ruleLatentDOW (ts : Ts) (hts : ts.Valid) (args : List Val) (hargs : ∀ a ∈ args, a.Ok) (v : Val)
    (h : applyId .ruleLatentDOW ts args = .ok (some v)) : v.OkV := by
    rcases args with _ | ⟨a, _ | ⟨b, rest⟩⟩ <;> (try cases a) <;>
      first | (exact ruleAtDOW_ok ts _ v h) | (exact nomatch h)

theorem applyId_ok_ruleLatentDOY (ts : Ts) (hts : ts.Valid) (args : List Val) (hargs : ∀ a ∈ args, a.Ok) (v : Val)
    (h : applyId .ruleLatentDOY ts args = .ok (some v)) : v.OkV := by
    rcases args with _ | ⟨a, _ | ⟨b, rest⟩⟩ <;> (try cases a) <;>
      first | (exact ruleLatentDOY_ok ts _ (mem1 hargs) v h) | (exact nomatch h)

theorem applyId_ok_ruleLatentPOD (ts : Ts) (hts : ts.Valid) (args : List Val) (hargs : ∀ a ∈ args, a.Ok) (v : Val)
    (h : applyId .ruleLatentPOD ts args = .ok (some v)) : v.OkV := by
    rcases args with _ | ⟨a, _ | ⟨b, rest⟩⟩ <;> (try cases a) <;>
      first | (exact ruleLatentPOD_ok ts hts _ v h) | (exact nomatch h)

theorem applyId_ok_ruleDDMM (ts : Ts) (hts : ts.Valid) (args : List Val) (hargs : ∀ a ∈ args, a.Ok) (v : Val)
    (h : applyId .ruleDDMM ts args = .ok (some v)) : v.OkV := by
    rcases args with _ | ⟨a, _ | ⟨b, rest⟩⟩ <;> (try cases a) <;>
      first | (exact ruleDDMM_ok _ (mem1 hargs) v h) | (exact nomatch h)

theorem applyId_ok_ruleMMDD (ts : Ts) (hts : ts.Valid) (args : List Val) (hargs : ∀ a ∈ args, a.Ok) (v : Val)
    (h : applyId .ruleMMDD ts args = .ok (some v)) : v.OkV := by
    rcases args with _ | ⟨a, _ | ⟨b, rest⟩⟩ <;> (try cases a) <;>
      first | (exact ruleDDMM_ok _ (mem1 hargs) v h) | (exact nomatch h)

theorem applyId_ok_ruleDDMMYYYY (ts : Ts) (hts : ts.Valid) (args : List Val) (hargs : ∀ a ∈ args, a.Ok) (v : Val)
    (h : applyId .ruleDDMMYYYY ts args = .ok (some v)) : v.OkV := by
    rcases args with _ | ⟨a, _ | ⟨b, rest⟩⟩ <;> (try cases a) <;>
      first | (exact ruleDDMMYYYY_ok _ (mem1 hargs) v h) | (exact nomatch h)

theorem applyId_ok_ruleHHMMmilitary (ts : Ts) (hts : ts.Valid) (args : List Val) (hargs : ∀ a ∈ args, a.Ok) (v : Val)
    (h : applyId .ruleHHMMmilitary ts args = .ok (some v)) : v.OkV := by
    rcases args with _ | ⟨a, _ | ⟨b, rest⟩⟩ <;> (try cases a) <;>
      first | (exact ruleHHMMmilitary_ok ts _ (mem1 hargs) v h) | (exact nomatch h)

theorem applyId_ok_ruleHHMM (ts : Ts) (hts : ts.Valid) (args : List Val) (hargs : ∀ a ∈ args, a.Ok) (v : Val)
    (h : applyId .ruleHHMM ts args = .ok (some v)) : v.OkV := by
    rcases args with _ | ⟨a, _ | ⟨b, rest⟩⟩ <;> (try cases a) <;>
      first | (exact ruleHHMM_ok _ (mem1 hargs) v h) | (exact nomatch h)

theorem applyId_ok_ruleHHOClock (ts : Ts) (hts : ts.Valid) (args : List Val) (hargs : ∀ a ∈ args, a.Ok) (v : Val)
    (h : applyId .ruleHHOClock ts args = .ok (some v)) : v.OkV := by
    rcases args with _ | ⟨a, _ | ⟨b, rest⟩⟩ <;> (try cases a) <;>
      first | (exact ruleHHOClock_ok _ (mem1 hargs) v h) | (exact nomatch h)

theorem applyId_ok_ruleQuarterBeforeHH (ts : Ts) (hts : ts.Valid) (args : List Val) (hargs : ∀ a ∈ args, a.Ok) (v : Val)
    (h : applyId .ruleQuarterBeforeHH ts args = .ok (some v)) : v.OkV := by
    rcases args with _ | ⟨a, _ | ⟨b, _ | ⟨c, rest⟩⟩⟩ <;> (try cases a) <;> (try cases b) <;>
      first | (exact ruleQuarterBeforeHH_ok _ (mem2 hargs) v h) | (exact nomatch h)

theorem applyId_ok_ruleQuarterAfterHH (ts : Ts) (hts : ts.Valid) (args : List Val) (hargs : ∀ a ∈ args, a.Ok) (v : Val)
    (h : applyId .ruleQuarterAfterHH ts args = .ok (some v)) : v.OkV := by
    rcases args with _ | ⟨a, _ | ⟨b, _ | ⟨c, rest⟩⟩⟩ <;> (try cases a) <;> (try cases b) <;>
      first | (exact ruleQuarterAfterHH_ok _ (mem2 hargs) v h) | (exact nomatch h)

theorem applyId_ok_ruleHalfBeforeHH (ts : Ts) (hts : ts.Valid) (args : List Val) (hargs : ∀ a ∈ args, a.Ok) (v : Val)
    (h : applyId .ruleHalfBeforeHH ts args = .ok (some v)) : v.OkV := by
    rcases args with _ | ⟨a, _ | ⟨b, _ | ⟨c, rest⟩⟩⟩ <;> (try cases a) <;> (try cases b) <;>
      first | (exact ruleHalfBeforeHH_ok _ (mem2 hargs) v h) | (exact nomatch h)

theorem applyId_ok_ruleHalfAfterHH (ts : Ts) (hts : ts.Valid) (args : List Val) (hargs : ∀ a ∈ args, a.Ok) (v : Val)
    (h : applyId .ruleHalfAfterHH ts args = .ok (some v)) : v.OkV := by
    rcases args with _ | ⟨a, _ | ⟨b, _ | ⟨c, rest⟩⟩⟩ <;> (try cases a) <;> (try cases b) <;>
      first | (exact ruleHalfAfterHH_ok _ (mem2 hargs) v h) | (exact nomatch h)

theorem applyId_ok_ruleTODPOD (ts : Ts) (hts : ts.Valid) (args : List Val) (hargs : ∀ a ∈ args, a.Ok) (v : Val)
    (h : applyId .ruleTODPOD ts args = .ok (some v)) : v.OkV := by
    rcases args with _ | ⟨a, _ | ⟨b, _ | ⟨c, rest⟩⟩⟩ <;> (try cases a) <;> (try cases b) <;>
      first | (exact ruleTODPOD_ok _ _ (mem1 hargs) (mem2 hargs) v h) | (exact nomatch h)

theorem applyId_ok_rulePODTOD (ts : Ts) (hts : ts.Valid) (args : List Val) (hargs : ∀ a ∈ args, a.Ok) (v : Val)
    (h : applyId .rulePODTOD ts args = .ok (some v)) : v.OkV := by
    rcases args with _ | ⟨a, _ | ⟨b, _ | ⟨c, rest⟩⟩⟩ <;> (try cases a) <;> (try cases b) <;>
      first | (exact ruleTODPOD_ok _ _ (mem2 hargs) (mem1 hargs) v h) | (exact nomatch h)

theorem applyId_ok_ruleDateTOD (ts : Ts) (hts : ts.Valid) (args : List Val) (hargs : ∀ a ∈ args, a.Ok) (v : Val)
    (h : applyId .ruleDateTOD ts args = .ok (some v)) : v.OkV := by
    rcases args with _ | ⟨a, _ | ⟨b, _ | ⟨c, rest⟩⟩⟩ <;> (try cases a) <;> (try cases b) <;>
      first | (exact ruleDateTOD_ok _ _ (mem1 hargs) (mem2 hargs) v h) | (exact nomatch h)

theorem applyId_ok_ruleTODDate (ts : Ts) (hts : ts.Valid) (args : List Val) (hargs : ∀ a ∈ args, a.Ok) (v : Val)
    (h : applyId .ruleTODDate ts args = .ok (some v)) : v.OkV := by
    rcases args with _ | ⟨a, _ | ⟨b, _ | ⟨c, rest⟩⟩⟩ <;> (try cases a) <;> (try cases b) <;>
      first | (exact ruleDateTOD_ok _ _ (mem2 hargs) (mem1 hargs) v h) | (exact nomatch h)

theorem applyId_ok_ruleDatePOD (ts : Ts) (hts : ts.Valid) (args : List Val) (hargs : ∀ a ∈ args, a.Ok) (v : Val)
    (h : applyId .ruleDatePOD ts args = .ok (some v)) : v.OkV := by
    rcases args with _ | ⟨a, _ | ⟨b, _ | ⟨c, rest⟩⟩⟩ <;> (try cases a) <;> (try cases b) <;>
      first | (exact ruleDatePOD_ok _ _ (mem1 hargs) (mem2 hargs) v h) | (exact nomatch h)

theorem applyId_ok_rulePODDate (ts : Ts) (hts : ts.Valid) (args : List Val) (hargs : ∀ a ∈ args, a.Ok) (v : Val)
    (h : applyId .rulePODDate ts args = .ok (some v)) : v.OkV := by
    rcases args with _ | ⟨a, _ | ⟨b, _ | ⟨c, rest⟩⟩⟩ <;> (try cases a) <;> (try cases b) <;>
      first | (exact ruleDatePOD_ok _ _ (mem2 hargs) (mem1 hargs) v h) | (exact nomatch h)

theorem applyId_ok_ruleBeforeTime (ts : Ts) (hts : ts.Valid) (args : List Val) (hargs : ∀ a ∈ args, a.Ok) (v : Val)
    (h : applyId .ruleBeforeTime ts args = .ok (some v)) : v.OkV := by
    rcases args with _ | ⟨a, _ | ⟨b, _ | ⟨c, rest⟩⟩⟩ <;> (try cases a) <;> (try cases b) <;>
      first | (exact okv_of (ruleBeforeTime_ok _ _ (mem2 hargs) v h) (ruleBeforeTime_ord _ _ v h)) | (exact nomatch h)

theorem applyId_ok_ruleAfterTime (ts : Ts) (hts : ts.Valid) (args : List Val) (hargs : ∀ a ∈ args, a.Ok) (v : Val)
    (h : applyId .ruleAfterTime ts args = .ok (some v)) : v.OkV := by
    rcases args with _ | ⟨a, _ | ⟨b, _ | ⟨c, rest⟩⟩⟩ <;> (try cases a) <;> (try cases b) <;>
      first | (exact okv_of (ruleAfterTime_ok _ _ (mem2 hargs) v h) (ruleAfterTime_ord _ _ v h)) | (exact nomatch h)

theorem applyId_ok_ruleDateDate (ts : Ts) (hts : ts.Valid) (args : List Val) (hargs : ∀ a ∈ args, a.Ok) (v : Val)
    (h : applyId .ruleDateDate ts args = .ok (some v)) : v.OkV := by
    rcases args with _ | ⟨a, _ | ⟨b, _ | ⟨c, _ | ⟨d, rest⟩⟩⟩⟩ <;> (try cases a) <;> (try cases b) <;> (try cases c) <;>
      first | (exact okv_of (ruleDateDate_ok _ _ (mem1 hargs) (mem3 hargs) v h) (ruleDateDate_ord _ _ v h)) | (exact nomatch h)

theorem applyId_ok_ruleDOMDate (ts : Ts) (hts : ts.Valid) (args : List Val) (hargs : ∀ a ∈ args, a.Ok) (v : Val)
    (h : applyId .ruleDOMDate ts args = .ok (some v)) : v.OkV := by
    rcases args with _ | ⟨a, _ | ⟨b, _ | ⟨c, _ | ⟨d, rest⟩⟩⟩⟩ <;> (try cases a) <;> (try cases b) <;> (try cases c) <;>
      first | (exact okv_of (ruleDOMDate_ok _ _ (mem1 hargs) (mem3 hargs) v h) (ruleDOMDate_ord _ _ v h)) | (exact nomatch h)

theorem applyId_ok_ruleDateDOM (ts : Ts) (hts : ts.Valid) (args : List Val) (hargs : ∀ a ∈ args, a.Ok) (v : Val)
    (h : applyId .ruleDateDOM ts args = .ok (some v)) : v.OkV := by
    rcases args with _ | ⟨a, _ | ⟨b, _ | ⟨c, _ | ⟨d, rest⟩⟩⟩⟩ <;> (try cases a) <;> (try cases b) <;> (try cases c) <;>
      first | (exact okv_of (ruleDateDOM_ok _ _ (mem1 hargs) (mem3 hargs) v h) (ruleDateDOM_ord _ _ v h)) | (exact nomatch h)

theorem applyId_ok_ruleDOYDate (ts : Ts) (hts : ts.Valid) (args : List Val) (hargs : ∀ a ∈ args, a.Ok) (v : Val)
    (h : applyId .ruleDOYDate ts args = .ok (some v)) : v.OkV := by
    rcases args with _ | ⟨a, _ | ⟨b, _ | ⟨c, _ | ⟨d, rest⟩⟩⟩⟩ <;> (try cases a) <;> (try cases b) <;> (try cases c) <;>
      first | (exact okv_of (ruleDOYDate_ok _ _ (mem1 hargs) (mem3 hargs) v h) (ruleDOYDate_ord _ _ v h)) | (exact nomatch h)

theorem applyId_ok_ruleDateTimeDateTime (ts : Ts) (hts : ts.Valid) (args : List Val) (hargs : ∀ a ∈ args, a.Ok) (v : Val)
    (h : applyId .ruleDateTimeDateTime ts args = .ok (some v)) : v.OkV := by
    rcases args with _ | ⟨a, _ | ⟨b, _ | ⟨c, _ | ⟨d, rest⟩⟩⟩⟩ <;> (try cases a) <;> (try cases b) <;> (try cases c) <;>
      first | (exact okv_of (ruleDateTimeDateTime_ok _ _ (mem1 hargs) (mem3 hargs) v h) (ruleDateTimeDateTime_ord _ _ v h)) | (exact nomatch h)

theorem applyId_ok_ruleTODTOD (ts : Ts) (hts : ts.Valid) (args : List Val) (hargs : ∀ a ∈ args, a.Ok) (hp : ArgsPred .ruleTODTOD args) (v : Val)
    (h : applyId .ruleTODTOD ts args = .ok (some v)) : v.OkV := by
    rcases args with _ | ⟨a, _ | ⟨b, _ | ⟨c, _ | ⟨d, rest⟩⟩⟩⟩ <;> (try cases a) <;> (try cases b) <;> (try cases c) <;>
      first | (exact okv_of (ruleTODTOD_ok _ _ (mem1 hargs) (mem3 hargs) v h) (ruleTODTOD_ord _ _ hp v h)) | (exact nomatch h)

theorem applyId_ok_rulePODPOD (ts : Ts) (hts : ts.Valid) (args : List Val) (hargs : ∀ a ∈ args, a.Ok) (hp : ArgsPred .rulePODPOD args) (v : Val)
    (h : applyId .rulePODPOD ts args = .ok (some v)) : v.OkV := by
    rcases args with _ | ⟨a, _ | ⟨b, _ | ⟨c, _ | ⟨d, rest⟩⟩⟩⟩ <;> (try cases a) <;> (try cases b) <;> (try cases c) <;>
      first | (exact okv_of (rulePODPOD_ok _ _ (mem1 hargs) (mem3 hargs) v h) (rulePODPOD_ord _ _ hp v h)) | (exact nomatch h)

theorem applyId_ok_ruleDateInterval (ts : Ts) (hts : ts.Valid) (args : List Val) (hargs : ∀ a ∈ args, a.Ok) (v : Val)
    (h : applyId .ruleDateInterval ts args = .ok (some v)) : v.OkV := by
    rcases args with _ | ⟨a, _ | ⟨b, _ | ⟨c, rest⟩⟩⟩ <;> (try cases a) <;> (try cases b) <;>
      first | (exact okv_of (ruleDateInterval_ok _ _ _ (mem1 hargs) (mem2 hargs).1 (mem2 hargs).2.1 v h) (ruleDateInterval_ord _ _ _ v h)) | (exact nomatch h)

theorem applyId_ok_rulePODInterval (ts : Ts) (hts : ts.Valid) (args : List Val) (hargs : ∀ a ∈ args, a.Ok) (v : Val)
    (h : applyId .rulePODInterval ts args = .ok (some v)) : v.OkV := by
    rcases args with _ | ⟨a, _ | ⟨b, _ | ⟨c, rest⟩⟩⟩ <;> (try cases a) <;> (try cases b) <;>
      first | (exact okv_of (rulePODInterval_ok _ _ _ (mem2 hargs).1 (mem2 hargs).2.1 v h) (rulePODInterval_ord _ _ _ v h)) | (exact nomatch h)

theorem applyId_ok_ruleDigitDuration (ts : Ts) (hts : ts.Valid) (args : List Val) (hargs : ∀ a ∈ args, a.Ok) (v : Val)
    (h : applyId .ruleDigitDuration ts args = .ok (some v)) : v.OkV := by
    rcases args with _ | ⟨a, _ | ⟨b, rest⟩⟩ <;> (try cases a) <;>
      first | (exact okv_of (ruleDigitDuration_ok _ v h) (ruleDigitDuration_ord _ v h)) | (exact nomatch h)

theorem applyId_ok_ruleNamedNumberDuration (ts : Ts) (hts : ts.Valid) (args : List Val) (hargs : ∀ a ∈ args, a.Ok) (v : Val)
    (h : applyId .ruleNamedNumberDuration ts args = .ok (some v)) : v.OkV := by
    rcases args with _ | ⟨a, _ | ⟨b, rest⟩⟩ <;> (try cases a) <;>
      first | (exact okv_of (ruleNamedNumberDuration_ok _ v h) (ruleNamedNumberDuration_ord _ v h)) | (exact nomatch h)

theorem applyId_ok_ruleDurationHalf (ts : Ts) (hts : ts.Valid) (args : List Val) (hargs : ∀ a ∈ args, a.Ok) (v : Val)
    (h : applyId .ruleDurationHalf ts args = .ok (some v)) : v.OkV := by
    rcases args with _ | ⟨a, _ | ⟨b, rest⟩⟩ <;> (try cases a) <;>
      first | (exact okv_of (ruleDurationHalf_ok _ v h) (ruleDurationHalf_ord _ v h)) | (exact nomatch h)

theorem applyId_ok_ruleIntervalConjDuration (ts : Ts) (hts : ts.Valid) (args : List Val) (hargs : ∀ a ∈ args, a.Ok) (v : Val)
    (h : applyId .ruleIntervalConjDuration ts args = .ok (some v)) : v.OkV := by
    rcases args with _ | ⟨a, _ | ⟨b, _ | ⟨c, _ | ⟨d, rest⟩⟩⟩⟩ <;> (try cases a) <;> (try cases b) <;> (try cases c) <;>
      first | (exact okv_of (ruleDurationInterval_ok _ _ _ _ (mem1 hargs).1 (mem1 hargs).2.1 v h) (ruleDurationInterval_ord _ _ _ _ (mem1 hargs).2.2 v h)) | (exact nomatch h)

theorem applyId_ok_ruleIntervalDuration (ts : Ts) (hts : ts.Valid) (args : List Val) (hargs : ∀ a ∈ args, a.Ok) (v : Val)
    (h : applyId .ruleIntervalDuration ts args = .ok (some v)) : v.OkV := by
    rcases args with _ | ⟨a, _ | ⟨b, _ | ⟨c, rest⟩⟩⟩ <;> (try cases a) <;> (try cases b) <;>
      first | (exact okv_of (ruleDurationInterval_ok _ _ _ _ (mem1 hargs).1 (mem1 hargs).2.1 v h) (ruleDurationInterval_ord _ _ _ _ (mem1 hargs).2.2 v h)) | (exact nomatch h)

theorem applyId_ok_ruleDurationInterval (ts : Ts) (hts : ts.Valid) (args : List Val) (hargs : ∀ a ∈ args, a.Ok) (v : Val)
    (h : applyId .ruleDurationInterval ts args = .ok (some v)) : v.OkV := by
    rcases args with _ | ⟨a, _ | ⟨b, _ | ⟨c, rest⟩⟩⟩ <;> (try cases a) <;> (try cases b) <;>
      first | (exact okv_of (ruleDurationInterval_ok _ _ _ _ (mem2 hargs).1 (mem2 hargs).2.1 v h) (ruleDurationInterval_ord _ _ _ _ (mem2 hargs).2.2 v h)) | (exact nomatch h)

theorem applyId_ok_ruleTimeDuration (ts : Ts) (hts : ts.Valid) (args : List Val) (hargs : ∀ a ∈ args, a.Ok) (v : Val)
    (h : applyId .ruleTimeDuration ts args = .ok (some v)) : v.OkV := by
    rcases args with _ | ⟨a, _ | ⟨b, _ | ⟨c, _ | ⟨d, rest⟩⟩⟩⟩ <;> (try cases a) <;> (try cases b) <;> (try cases c) <;>
      first | (exact okv_of (ruleTimeDuration_ok _ _ _ (mem1 hargs) v h) (ruleTimeDuration_ord _ _ _ (mem3 hargs) v h)) | (exact nomatch h)

/-- **every production of the rule base keeps its result well formed**: for every rule, every valid reference time and all
    arguments that are well formed (values) or carry in-range digit groups (pattern matches), a successful result is well formed -/
theorem rules_preserve_okv (r : RuleId) (ts : Ts) (hts : ts.Valid) (args : List Val) (hargs : ∀ a ∈ args, a.Ok) (hp : ArgsPred r args) (v : Val)
    (h : applyId r ts args = .ok (some v)) : v.OkV := by
  cases r
  case ruleAbsorbOnTime => exact applyId_ok_ruleAbsorbOnTime ts hts args hargs v h
  case ruleAbsorbFromInterval => exact applyId_ok_ruleAbsorbFromInterval ts hts args hargs v h
  case ruleNamedDOW => exact applyId_ok_ruleNamedDOW ts hts args hargs v h
  case ruleNamedMonth => exact applyId_ok_ruleNamedMonth ts hts args hargs v h
  case ruleNamedHour => exact applyId_ok_ruleNamedHour ts hts args hargs v h
  case ruleMidnight => exact applyId_ok_ruleMidnight ts hts args hargs v h
  case ruleEarlyLatePOD => exact applyId_ok_ruleEarlyLatePOD ts hts args hargs v h
  case rulePOD => exact applyId_ok_rulePOD ts hts args hargs v h
  case ruleDOM1 => exact applyId_ok_ruleDOM1 ts hts args hargs v h
  case ruleMonthOrdinal => exact applyId_ok_ruleMonthOrdinal ts hts args hargs v h
  case ruleDOM2 => exact applyId_ok_ruleDOM2 ts hts args hargs v h
  case ruleYear => exact applyId_ok_ruleYear ts hts args hargs v h
  case ruleToday => exact applyId_ok_ruleToday ts hts args hargs v h
  case ruleNow => exact applyId_ok_ruleNow ts hts args hargs v h
  case ruleTomorrow => exact applyId_ok_ruleTomorrow ts hts args hargs v h
  case ruleAfterTomorrow => exact applyId_ok_ruleAfterTomorrow ts hts args hargs v h
  case ruleYesterday => exact applyId_ok_ruleYesterday ts hts args hargs v h
  case ruleBeforeYesterday => exact applyId_ok_ruleBeforeYesterday ts hts args hargs v h
  case ruleEOM => exact applyId_ok_ruleEOM ts hts args hargs v h
  case ruleEOY => exact applyId_ok_ruleEOY ts hts args hargs v h
  case ruleDOMMonth => exact applyId_ok_ruleDOMMonth ts hts args hargs v h
  case ruleDOMMonth2 => exact applyId_ok_ruleDOMMonth2 ts hts args hargs v h
  case ruleMonthDOM => exact applyId_ok_ruleMonthDOM ts hts args hargs v h
  case ruleAtDOW => exact applyId_ok_ruleAtDOW ts hts args hargs v h
  case ruleNextDOW => exact applyId_ok_ruleNextDOW ts hts args hargs v h
  case ruleDOWNextWeek => exact applyId_ok_ruleDOWNextWeek ts hts args hargs v h
  case ruleDOYYear => exact applyId_ok_ruleDOYYear ts hts args hargs v h
  case ruleDOWPOD => exact applyId_ok_ruleDOWPOD ts hts args hargs v h
  case ruleDOWDOM => exact applyId_ok_ruleDOWDOM ts hts args hargs v h
  case ruleDOWDate => exact applyId_ok_ruleDOWDate ts hts args hargs v h
  case ruleDateDOW => exact applyId_ok_ruleDateDOW ts hts args hargs v h
  case ruleLatentDOM => exact applyId_ok_ruleLatentDOM ts hts args hargs v h
  case ruleLatentDOW => exact applyId_ok_ruleLatentDOW ts hts args hargs v h
  case ruleLatentDOY => exact applyId_ok_ruleLatentDOY ts hts args hargs v h
  case ruleLatentPOD => exact applyId_ok_ruleLatentPOD ts hts args hargs v h
  case ruleDDMM => exact applyId_ok_ruleDDMM ts hts args hargs v h
  case ruleMMDD => exact applyId_ok_ruleMMDD ts hts args hargs v h
  case ruleDDMMYYYY => exact applyId_ok_ruleDDMMYYYY ts hts args hargs v h
  case ruleHHMMmilitary => exact applyId_ok_ruleHHMMmilitary ts hts args hargs v h
  case ruleHHMM => exact applyId_ok_ruleHHMM ts hts args hargs v h
  case ruleHHOClock => exact applyId_ok_ruleHHOClock ts hts args hargs v h
  case ruleQuarterBeforeHH => exact applyId_ok_ruleQuarterBeforeHH ts hts args hargs v h
  case ruleQuarterAfterHH => exact applyId_ok_ruleQuarterAfterHH ts hts args hargs v h
  case ruleHalfBeforeHH => exact applyId_ok_ruleHalfBeforeHH ts hts args hargs v h
  case ruleHalfAfterHH => exact applyId_ok_ruleHalfAfterHH ts hts args hargs v h
  case ruleTODPOD => exact applyId_ok_ruleTODPOD ts hts args hargs v h
  case rulePODTOD => exact applyId_ok_rulePODTOD ts hts args hargs v h
  case ruleDateTOD => exact applyId_ok_ruleDateTOD ts hts args hargs v h
  case ruleTODDate => exact applyId_ok_ruleTODDate ts hts args hargs v h
  case ruleDatePOD => exact applyId_ok_ruleDatePOD ts hts args hargs v h
  case rulePODDate => exact applyId_ok_rulePODDate ts hts args hargs v h
  case ruleBeforeTime => exact applyId_ok_ruleBeforeTime ts hts args hargs v h
  case ruleAfterTime => exact applyId_ok_ruleAfterTime ts hts args hargs v h
  case ruleDateDate => exact applyId_ok_ruleDateDate ts hts args hargs v h
  case ruleDOMDate => exact applyId_ok_ruleDOMDate ts hts args hargs v h
  case ruleDateDOM => exact applyId_ok_ruleDateDOM ts hts args hargs v h
  case ruleDOYDate => exact applyId_ok_ruleDOYDate ts hts args hargs v h
  case ruleDateTimeDateTime => exact applyId_ok_ruleDateTimeDateTime ts hts args hargs v h
  case ruleTODTOD => exact applyId_ok_ruleTODTOD ts hts args hargs hp v h
  case rulePODPOD => exact applyId_ok_rulePODPOD ts hts args hargs hp v h
  case ruleDateInterval => exact applyId_ok_ruleDateInterval ts hts args hargs v h
  case rulePODInterval => exact applyId_ok_rulePODInterval ts hts args hargs v h
  case ruleDigitDuration => exact applyId_ok_ruleDigitDuration ts hts args hargs v h
  case ruleNamedNumberDuration => exact applyId_ok_ruleNamedNumberDuration ts hts args hargs v h
  case ruleDurationHalf => exact applyId_ok_ruleDurationHalf ts hts args hargs v h
  case ruleIntervalConjDuration => exact applyId_ok_ruleIntervalConjDuration ts hts args hargs v h
  case ruleIntervalDuration => exact applyId_ok_ruleIntervalDuration ts hts args hargs v h
  case ruleDurationInterval => exact applyId_ok_ruleDurationInterval ts hts args hargs v h
  case ruleTimeDuration => exact applyId_ok_ruleTimeDuration ts hts args hargs v h

theorem rules_preserve_ok (r : RuleId) (ts : Ts) (hts : ts.Valid) (args : List Val) (hargs : ∀ a ∈ args, a.Ok) (hp : ArgsPred r args) (v : Val)
    (h : applyId r ts args = .ok (some v)) : v.Ok := (rules_preserve_okv r ts hts args hargs hp v h).ok

end QuickAdd
