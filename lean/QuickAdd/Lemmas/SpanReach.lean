import QuickAdd.Lemmas.Span
import QuickAdd.Lemmas.SearchSound
import QuickAdd.Lemmas.ExpandSound
import QuickAdd.Lemmas.SearchWF
/-!
# Every production is an ordered, non-overlapping sequence inside the text; so is every candidate's span

`SpanOK n p`: the elements of `p` are in text order without overlap and each has `mstart < mend ≤ n`.  It holds for the
initial sequences (tokens of the match list, adjacency of the DFS), is preserved by every rule application (the result spans
first-to-last argument) and therefore holds for every reachable production and every streamed candidate.
-/
namespace QuickAdd
open Gen

def SpanOK (n : Nat) (p : List Art) : Prop := Sorted p ∧ ∀ a ∈ p, a.ms < a.me ∧ a.me ≤ n

/-- … and additionally no element starts before `lo` -/
def SpanIn (lo hi : Nat) (p : List Art) : Prop := SpanOK hi p ∧ ∀ a ∈ p, lo ≤ a.ms

theorem applyRule_span (name : String) (ts : Ts) (w : List Art) (x : Art) (h : applyRule name ts w = .ok (some x)) :
    ∃ a b, w.head? = some a ∧ w.getLast? = some b ∧ x.ms = a.ms ∧ x.me = b.me := by
  unfold applyRule at h
  simp only [bind, Except.bind, pure, Except.pure] at h
  split at h
  · simp at h
  · split at h
    · simp at h
    · split at h
      · simp at h
      · split at h
        · rename_i a b ha hb
          simp at h; subst h
          exact ⟨a, b, ha, hb, rfl, rfl⟩
        · simp [throw, throwThe, MonadExceptOf.throw] at h

theorem sorted_head_last (w : List Art) (hs : Sorted w) (hb : ∀ a ∈ w, a.ms < a.me) (a b : Art) (ha : w.head? = some a) (hl : w.getLast? = some b) :
    a.ms < b.me := by
  cases w with
  | nil => simp at ha
  | cons x xs =>
    simp at ha; subst ha
    have hbm : b ∈ x :: xs := List.mem_of_getLast? hl
    rcases List.mem_cons.mp hbm with rfl | hbx
    · exact hb _ (by simp)
    · have := (List.pairwise_cons.mp hs).1 b hbx
      have := hb x (by simp)
      have := hb b hbm
      omega

/-- a rule application keeps the invariant -/
theorem spanOK_replace (n : Nat) (l w r : List Art) (x : Art) (a b : Art) (ha : w.head? = some a) (hl : w.getLast? = some b)
    (hxs : x.ms = a.ms) (hxe : x.me = b.me) (h : SpanOK n (l ++ w ++ r)) : SpanOK n (l ++ x :: r) := by
  obtain ⟨hs, hb⟩ := h
  have ham : a ∈ w := List.mem_of_mem_head? ha
  have hbm : b ∈ w := List.mem_of_getLast? hl
  unfold Sorted at hs
  rw [List.append_assoc, List.pairwise_append] at hs
  obtain ⟨hsl, hswr, hlwr⟩ := hs
  rw [List.pairwise_append] at hswr
  obtain ⟨hsw, hsr, hwr⟩ := hswr
  have hwb : ∀ c ∈ w, c.ms < c.me := fun c hc => (hb c (by simp [hc])).1
  have hlt := sorted_head_last w hsw hwb a b ha hl
  constructor
  · unfold Sorted
    rw [List.pairwise_append]
    refine ⟨hsl, List.pairwise_cons.mpr ⟨?_, hsr⟩, ?_⟩
    · intro c hc; rw [hxe]; exact hwr b hbm c hc
    · intro c hc d hd
      rcases List.mem_cons.mp hd with rfl | hd
      · rw [hxs]; exact hlwr c hc a (List.mem_append_left _ ham)
      · exact hlwr c hc d (List.mem_append_right _ hd)
  · intro c hc
    simp only [List.mem_append, List.mem_cons] at hc
    rcases hc with hc | rfl | hc
    · exact hb c (by simp [hc])
    · rw [hxs, hxe]; exact ⟨hlt, (hb b (by simp [hbm])).2⟩
    · exact hb c (by simp [hc])

theorem matchRegex_span (txt : List Nat) : ∀ a ∈ matchRegex txt, a.ms < a.me ∧ a.me ≤ txt.length := by
  intro a ha
  unfold matchRegex at ha
  have h1 := mem_sortBy _ _ _ ha
  simp only [List.mem_flatMap, List.mem_map] at h1
  obtain ⟨p, hp, m, hm, rfl⟩ := h1
  exact (tokOfMatch_span p hp txt m hm).2

variable {S : Type}

theorem initialStack_span (sc : Scorer S) (depth num den : Nat) (txt : List Nat) (fuel : Nat) :
    ∀ e ∈ (initialStack sc depth num den txt fuel).1, SpanOK txt.length e.prod := by
  intro e he
  unfold initialStack at he
  simp only at he
  have h3 := mem_sortE _ _ _ (List.mem_filter.mp (mem_trunc _ _ _ he)).1
  simp only [List.mem_map] at h3
  obtain ⟨s, hs, rfl⟩ := h3
  refine ⟨regexStack_sorted txt _ (fun a ha => (matchRegex_span txt a ha).1) fuel s hs, ?_⟩
  intro a ha
  exact matchRegex_span txt a (regexStack_mem txt _ fuel s hs a ha)

theorem reach_span (sc : Scorer S) (ts : Ts) (depth : Nat) (txt : List Nat) (n : Nat) (init : List (E Art S))
    (hinit : ∀ e ∈ init, SpanOK n e.prod) (p : List Art) (t : List String) (rules : List (String × List Pred))
    (hr : ReachE (mkCfg sc ts depth txt) init p t rules) : SpanOK n p := by
  induction hr with
  | init hm => exact hinit _ hm
  | @step p t rules succs p' t' k _ hexp hmem ih =>
    obtain ⟨r, _, i, hi, x, hx, e⟩ := expand_sound ts rules p t succs hexp _ hmem
    have e1 : p' = p.take i ++ x :: p.drop (i + r.2.length) := by
      have := congrArg Prod.fst e; simpa using this
    obtain ⟨a, b, ha, hl, hxs, hxe⟩ := applyRule_span r.1 ts _ x hx
    have hsplit : p = p.take i ++ (p.drop i).take r.2.length ++ p.drop (i + r.2.length) := by
      rw [List.append_assoc]
      conv => lhs; rw [← List.take_append_drop i p]
      congr 1
      conv => lhs; rw [← List.take_append_drop r.2.length (p.drop i)]
      congr 1
      rw [List.drop_drop]
    rw [hsplit] at ih
    rw [e1]
    exact spanOK_replace n _ _ _ x a b ha hl hxs hxe ih

/-- the same with a lower bound: if no element of the initial sequences starts before `lo`, nothing ever does -/
theorem reach_span_in (sc : Scorer S) (ts : Ts) (depth : Nat) (txt : List Nat) (lo hi : Nat) (init : List (E Art S))
    (hinit : ∀ e ∈ init, SpanIn lo hi e.prod) (p : List Art) (t : List String) (rules : List (String × List Pred))
    (hr : ReachE (mkCfg sc ts depth txt) init p t rules) : SpanIn lo hi p := by
  induction hr with
  | init hm => exact hinit _ hm
  | @step p t rules succs p' t' k hreach hexp hmem ih =>
    have hsp := reach_span sc ts depth txt hi init (fun e he => (hinit e he).1) p' t' rules (ReachE.step hreach hexp hmem)
    refine ⟨hsp, ?_⟩
    obtain ⟨r, _, i, hi', x, hx, e⟩ := expand_sound ts rules p t succs hexp _ hmem
    have e1 : p' = p.take i ++ x :: p.drop (i + r.2.length) := by
      have := congrArg Prod.fst e; simpa using this
    obtain ⟨a, b, ha, _, hxs, _⟩ := applyRule_span r.1 ts _ x hx
    intro c hc
    rw [e1] at hc
    simp only [List.mem_append, List.mem_cons] at hc
    rcases hc with hc | rfl | hc
    · exact ih.2 c (List.mem_of_mem_take hc)
    · rw [hxs]; exact ih.2 a (List.mem_of_mem_drop (List.mem_of_mem_take (List.mem_of_mem_head? ha)))
    · exact ih.2 c (List.mem_of_mem_drop hc)

end QuickAdd
