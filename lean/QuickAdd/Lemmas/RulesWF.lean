import QuickAdd.Model.Rules
import QuickAdd.Lemmas.Cal
import QuickAdd.Lemmas.RegexGroups
import QuickAdd.Lemmas.Capture
import QuickAdd.Lemmas.IvOrdDef
/-!
# Every production keeps its result well formed (C02), for all argument values

`Time.Ok`: month 1–12, day 1–31, hour 0–23, minute 0–59, weekday 0–6, part of day known to the table — the field clauses of
C02 (that the day exists in the month is the wrapper's calendar check, `C02.wrapper_calendar`).
`TokOk`: what `C02.capture_in_range` establishes for every match of every shipped pattern on every text.
`rules_preserve_ok`: one theorem for all 69 productions.
-/
namespace QuickAdd
open Gen

structure Time.Ok (t : Time) : Prop where
  month : ∀ x, t.month = some x → 1 ≤ x ∧ x ≤ 12
  day : ∀ x, t.day = some x → 1 ≤ x ∧ x ≤ 31
  hour : ∀ x, t.hour = some x → 0 ≤ x ∧ x ≤ 23
  minute : ∀ x, t.minute = some x → 0 ≤ x ∧ x ≤ 59
  dow : ∀ x, t.dow = some x → 0 ≤ x ∧ x ≤ 6
  pod : ∀ p, t.pod = some p → (podLookup p).isSome = true

def OptOk (o : Option Time) : Prop := ∀ t, o = some t → t.Ok

/-- the captured day/month/hour/minute texts of a token read as in-range numbers (or `int()` fails on them) -/
def TokOk (k : Tok) : Prop := ∀ n lo hi w, fieldRange n = some (lo, hi) → k.group n = some w → intInRange lo hi w = true

/-- well formed: field ranges of every end; a dated interval does not start after it ends; a duration is not negative -/
def Val.Ok : Val → Prop
  | .tok k => TokOk k
  | .time t => t.Ok
  | .interval f t => OptOk f ∧ OptOk t ∧ IvOrd f t
  | .duration n _ => 0 ≤ n

/-- well formed **and a value**: no production hands back a pattern match -/
def Val.OkV : Val → Prop
  | .tok _ => False
  | .time t => t.Ok
  | .interval f t => OptOk f ∧ OptOk t ∧ IvOrd f t
  | .duration n _ => 0 ≤ n

/-- the field-range part alone (what the interval and duration productions are shown to keep first; the order clause is
    added in `RulesWFIv`) -/
def Val.OkV0 : Val → Prop
  | .tok _ => False
  | .time t => t.Ok
  | .interval f t => OptOk f ∧ OptOk t
  | .duration _ _ => True

theorem Val.OkV.ok {v : Val} (h : v.OkV) : v.Ok := by cases v <;> first | exact h | exact False.elim h
theorem Val.OkV.isVal {v : Val} (h : v.OkV) (s e : Nat) : (⟨v, s, e⟩ : Art).isVal = true := by
  cases v <;> first | rfl | exact False.elim h

/-- closes `Time.Ok` of a record built from literals, arithmetic on bounded hours and fields copied from well-formed values -/
macro "ok_rec" : tactic => `(tactic|
  (refine ⟨?_, ?_, ?_, ?_, ?_, ?_⟩ <;> intro y hy <;> simp at hy <;>
    first
      | omega
      | (subst hy; omega)
      | (subst hy; simp; done)
      | solve_by_elim [Time.Ok.month, Time.Ok.day, Time.Ok.hour, Time.Ok.minute, Time.Ok.dow, Time.Ok.pod]))

theorem Time.ok_empty : ({} : Time).Ok := by ok_rec

theorem grpInt_range (k : Tok) (hk : TokOk k) (n : String) (lo hi : Int) (hf : fieldRange n = some (lo, hi)) (x : Int) (h : grpInt k n = .ok x) : lo ≤ x ∧ x ≤ hi := by
  unfold grpInt at h
  cases hg : k.group n with
  | none => simp [hg, throw, throwThe, MonadExceptOf.throw] at h
  | some w =>
    simp only [hg] at h
    have := hk n lo hi w hf hg
    unfold intInRange at this
    simp only [h, Bool.and_eq_true, decide_eq_true_eq] at this
    exact this

/-! ### calendar facts -/
theorem ofOrd_inRange_valid (n : Int) (h : (Date.ofOrd n).inRange = true) : (Date.ofOrd n).Valid := by
  by_cases h1 : n < 1
  · simp [Date.ofOrd, h1, Date.inRange] at h
  · by_cases h2 : n > maxOrd
    · simp [Date.ofOrd, h1, h2, Date.inRange] at h
    · exact (ofOrd_spec n (by omega) (by omega)).1

theorem dateOk_valid_ofOrd (n : Int) (d : Date) (h : dateOk (Date.ofOrd n) = .ok d) : d.Valid := by
  unfold dateOk at h
  split at h
  · rename_i hr; simp [pure, Except.pure] at h; subst h; exact ofOrd_inRange_valid n hr
  · simp [throw, throwThe, MonadExceptOf.throw] at h

theorem tsTime_ok (d : Date) (h : d.Valid) : (tsTime d).Ok := by
  have hv := h
  unfold Date.Valid at hv
  have := dim_bounds d.y d.m
  unfold tsTime
  refine ⟨?_, ?_, ?_, ?_, ?_, ?_⟩ <;> intro y hy <;> simp at hy <;> first | omega | (subst hy; omega)

/-! ### single-token productions -/
theorem findIdx_lt {α} (p : α → Bool) (l : List α) (i : Nat) (h : l.findIdx? p = some i) : i < l.length :=
  (List.findIdx?_eq_some_iff_getElem.mp h).1

theorem ruleNamedDOW_ok (k : Tok) (v : Val) (h : ruleNamedDOW k = .ok (some v)) : v.OkV := by
  unfold ruleNamedDOW at h
  cases hi : firstSet k dows with
  | none => simp [hi, pure, Except.pure] at h
  | some i =>
    simp [hi, pure, Except.pure] at h; subst h
    have : i < dows.length := findIdx_lt _ _ _ hi
    have h7 : dows.length = 7 := by decide
    show Time.Ok _
    ok_rec

theorem ruleNamedMonth_ok (k : Tok) (v : Val) (h : ruleNamedMonth k = .ok (some v)) : v.OkV := by
  unfold ruleNamedMonth at h
  cases hi : firstSet k months with
  | none => simp [hi, pure, Except.pure] at h
  | some i =>
    simp [hi, pure, Except.pure] at h; subst h
    have : i < months.length := findIdx_lt _ _ _ hi
    have h12 : months.length = 12 := by decide
    show Time.Ok _
    ok_rec

theorem namedTs_range : ∀ n ∈ namedTs, n ≤ 23 := by decide

theorem ruleNamedHour_ok (k : Tok) (v : Val) (h : ruleNamedHour k = .ok (some v)) : v.OkV := by
  unfold ruleNamedHour at h
  simp only [pure, Except.pure, Except.ok.injEq] at h
  generalize hf : List.find? _ namedTs = o at h
  cases o with
  | none => simp at h
  | some n =>
    simp at h; subst h
    have := namedTs_range n (List.mem_of_find?_eq_some hf)
    show Time.Ok _
    ok_rec

theorem ruleMidnight_ok (v : Val) (h : ruleMidnight = .ok (some v)) : v.OkV := by
  simp [ruleMidnight, pure, Except.pure] at h; subst h
  show Time.Ok _
  ok_rec

theorem pods_known : ∀ p ∈ pods, (podLookup p).isSome = true := by decide

theorem rulePOD_ok (k : Tok) (v : Val) (h : rulePOD k = .ok (some v)) : v.OkV := by
  unfold rulePOD at h
  cases hi : pods.find? (k.has ·) with
  | none => simp [hi, pure, Except.pure] at h
  | some p =>
    simp [hi, pure, Except.pure] at h; subst h
    have := pods_known p (List.mem_of_find?_eq_some hi)
    show Time.Ok _
    refine ⟨?_, ?_, ?_, ?_, ?_, ?_⟩ <;> intro y hy <;> simp at hy
    subst hy; exact this

theorem ruleEarlyLatePOD_ok (k : Tok) (p : Time) (v : Val) (h : ruleEarlyLatePOD k p = .ok (some v)) : v.OkV := by
  unfold ruleEarlyLatePOD at h
  cases hp : p.pod with
  | none => simp [hp, needS, bind, Except.bind, throw, throwThe, MonadExceptOf.throw] at h
  | some q =>
    simp only [hp, needS, bind, Except.bind, pure, Except.pure] at h
    split at h
    · simp at h
    · rename_i hn
      simp at h; subst h
      show Time.Ok _
      refine ⟨?_, ?_, ?_, ?_, ?_, ?_⟩ <;> intro y hy <;> simp at hy
      subst hy
      cases hl : podLookup (podFromMatch q k) with
      | none => simp [hl] at hn
      | some x => rfl

theorem dayTok_ok (k : Tok) (hk : TokOk k) (v : Val) (h : ruleDOM1 k = .ok (some v)) : v.OkV := by
  unfold ruleDOM1 at h
  cases hg : grpInt k "day" with
  | error e => simp [hg, bind, Except.bind] at h
  | ok d =>
    simp [hg, bind, Except.bind, pure, Except.pure] at h; subst h
    have := grpInt_range k hk "day" 1 31 (by decide) d hg
    show Time.Ok _
    ok_rec

theorem ruleDOM2_ok (k : Tok) (hk : TokOk k) (v : Val) (h : ruleDOM2 k = .ok (some v)) : v.OkV := dayTok_ok k hk v h

theorem ruleMonthOrdinal_ok (k : Tok) (hk : TokOk k) (v : Val) (h : ruleMonthOrdinal k = .ok (some v)) : v.OkV := by
  unfold ruleMonthOrdinal at h
  cases hg : grpInt k "month" with
  | error e => simp [hg, bind, Except.bind] at h
  | ok d =>
    simp [hg, bind, Except.bind, pure, Except.pure] at h; subst h
    have := grpInt_range k hk "month" 1 12 (by decide) d hg
    show Time.Ok _
    ok_rec

theorem ruleYear_ok (ts : Ts) (k : Tok) (v : Val) (h : ruleYear ts k = .ok (some v)) : v.OkV := by
  unfold ruleYear at h
  cases hg : grpInt k "year" with
  | error e => simp [hg, bind, Except.bind] at h
  | ok y =>
    simp only [hg, bind, Except.bind, pure, Except.pure] at h
    split at h
    · split at h <;> (simp at h; subst h; show Time.Ok _; ok_rec)
    · simp at h; subst h; show Time.Ok _; ok_rec

/-! ### productions that read the reference time -/
theorem tsTime_ok_of (c : Date) (hm : 1 ≤ c.m ∧ c.m ≤ 12) (hd : 1 ≤ c.d ∧ c.d ≤ 31) : (tsTime c).Ok := by
  unfold tsTime
  refine ⟨?_, ?_, ?_, ?_, ?_, ?_⟩ <;> intro y hy <;> simp at hy <;> first | omega | (subst hy; omega)

theorem ruleToday_ok (ts : Ts) (hts : ts.Valid) (v : Val) (h : ruleToday ts = .ok (some v)) : v.OkV := by
  simp [ruleToday, pure, Except.pure] at h; subst h
  exact tsTime_ok _ hts.1

theorem ruleNow_ok (ts : Ts) (hts : ts.Valid) (v : Val) (h : ruleNow ts = .ok (some v)) : v.OkV := by
  simp [ruleNow, pure, Except.pure] at h; subst h
  have h1 := tsTime_ok _ hts.1
  obtain ⟨_, h2, h3, h4, h5⟩ := hts
  show Time.Ok _
  refine ⟨fun y hy => h1.month y hy, fun y hy => h1.day y hy, ?_, ?_, fun y hy => h1.dow y hy, fun y hy => h1.pod y hy⟩ <;>
    intro y hy <;> simp at hy <;> omega

theorem relDays_ok (ts : Ts) (n : Int) (v : Val) (h : relDays ts n = .ok (some v)) : v.OkV := by
  unfold relDays at h
  cases hd : dateOk (ts.date.addDays n) with
  | error e => simp [hd, bind, Except.bind] at h
  | ok d =>
    simp [hd, bind, Except.bind, pure, Except.pure] at h; subst h
    exact tsTime_ok d (dateOk_valid_ofOrd _ d hd)

theorem ruleEOM_ok (ts : Ts) (v : Val) (h : ruleEOM ts = .ok (some v)) : v.OkV := by
  unfold ruleEOM at h
  cases ha : dateOk (ts.date.addMonthsClip 1) with
  | error e => simp [ha, bind, Except.bind] at h
  | ok a =>
    simp only [ha, bind, Except.bind] at h
    cases hb : dateOk (({ a with d := 1 } : Date).addDays (-1)) with
    | error e => simp [hb] at h
    | ok b =>
      simp [hb, pure, Except.pure] at h; subst h
      exact tsTime_ok b (dateOk_valid_ofOrd _ b hb)

theorem ruleEOY_ok (ts : Ts) (v : Val) (h : ruleEOY ts = .ok (some v)) : v.OkV := by
  unfold ruleEOY at h
  cases ha : dateOk (ts.date.addMonthsClip 12) with
  | error e => simp [ha, bind, Except.bind] at h
  | ok a =>
    simp only [ha, bind, Except.bind] at h
    cases hb : dateOk ((⟨a.y, 1, 1⟩ : Date).addDays (-1)) with
    | error e => simp [hb] at h
    | ok b =>
      simp [hb, pure, Except.pure] at h; subst h
      exact tsTime_ok b (dateOk_valid_ofOrd _ b hb)

theorem ruleAtDOW_ok (ts : Ts) (dow : Time) (v : Val) (h : ruleAtDOW ts dow = .ok (some v)) : v.OkV := by
  unfold ruleAtDOW at h
  cases hw : dow.dow with
  | none => simp [hw, need, bind, Except.bind, throw, throwThe, MonadExceptOf.throw] at h
  | some w0 =>
    simp only [hw, need, bind, Except.bind, pure, Except.pure] at h
    cases hww : weekdayArg w0 with
    | error e => simp [hww] at h
    | ok w =>
      simp only [hww] at h
      generalize hd0 : (if (ts.date.toWeekday w == ts.date) = true then (ts.date.toWeekday w).addDays 7 else ts.date.toWeekday w) = d0 at h
      have hv : ∀ d, dateOk d0 = .ok d → d.Valid := by
        intro d hd; subst hd0; split at hd <;> exact dateOk_valid_ofOrd _ d hd
      cases hd : dateOk d0 with
      | error e => simp [hd] at h
      | ok d => simp [hd] at h; subst h; exact tsTime_ok d (hv d hd)

theorem ruleNextDOW_ok (ts : Ts) (dow : Time) (v : Val) (h : ruleNextDOW ts dow = .ok (some v)) : v.OkV := by
  unfold ruleNextDOW at h
  cases hw : dow.dow with
  | none => simp [hw, need, bind, Except.bind, throw, throwThe, MonadExceptOf.throw] at h
  | some w0 =>
    simp only [hw, need, bind, Except.bind, pure, Except.pure] at h
    cases hww : weekdayArg w0 with
    | error e => simp [hww] at h
    | ok w =>
      simp only [hww] at h
      cases hd : dateOk ((ts.date.addDays 7).toWeekday w) with
      | error e => simp [hd] at h
      | ok d => simp [hd] at h; subst h; exact tsTime_ok d (dateOk_valid_ofOrd _ d hd)

theorem rruleMonthly_shape (start : Date) (w d : Int) : ∀ (f : Nat) (mi : Int) (c : Date), rruleMonthly start w d f mi = some c →
    c.d = d ∧ 1 ≤ c.m ∧ c.m ≤ 12 ∧ d ≤ dim c.y c.m := by
  intro f
  induction f with
  | zero => intro mi c h; simp [rruleMonthly] at h
  | succ f ih =>
    intro mi c h
    simp only [rruleMonthly] at h
    split at h
    · simp at h
    · split at h
      · rename_i hc
        simp at h; subst h
        simp only [Bool.and_eq_true, decide_eq_true_eq] at hc
        refine ⟨rfl, ?_, ?_, hc.1.1⟩ <;> simp <;> omega
      · exact ih _ c h

theorem ruleDOWDOM_ok (ts : Ts) (dow dom : Time) (hd : dom.Ok) (v : Val) (h : ruleDOWDOM ts dow dom = .ok (some v)) : v.OkV := by
  unfold ruleDOWDOM at h
  cases hw : dow.dow with
  | none => simp [hw, need, bind, Except.bind, throw, throwThe, MonadExceptOf.throw] at h
  | some w0 =>
    simp only [hw, need, bind, Except.bind, pure, Except.pure] at h
    cases hww : weekdayArg w0 with
    | error e => simp [hww] at h
    | ok w =>
      simp only [hww] at h
      cases hdd : dom.day with
      | none => simp [hdd, throw, throwThe, MonadExceptOf.throw] at h
      | some d =>
        simp only [hdd] at h
        cases hr : rruleMonthly ts.date w d (12 * 8000) (12 * ts.date.y + (ts.date.m - 1)) with
        | none => simp [hr, throw, throwThe, MonadExceptOf.throw] at h
        | some c =>
          simp [hr] at h; subst h
          obtain ⟨h1, h2, h3, h4⟩ := rruleMonthly_shape _ _ _ _ _ _ hr
          have := hd.day d hdd
          exact tsTime_ok_of c ⟨h2, h3⟩ (by omega)

theorem latentDOMLoop_shape (ts : Ts) (d : Int) : ∀ (f : Nat) (mi : Int) (c : Date), latentDOMLoop ts d f mi = some c → c.d = d ∧ 1 ≤ c.m ∧ c.m ≤ 12 := by
  intro f
  induction f with
  | zero => intro mi c h; simp [latentDOMLoop] at h
  | succ f ih =>
    intro mi c h
    simp only [latentDOMLoop] at h
    split at h
    · simp at h; subst h
      refine ⟨rfl, ?_, ?_⟩ <;> simp <;> omega
    · exact ih _ c h

theorem ruleLatentDOM_ok (ts : Ts) (dom : Time) (hd : dom.Ok) (v : Val) (h : ruleLatentDOM ts dom = .ok (some v)) : v.OkV := by
  unfold ruleLatentDOM at h
  cases hdd : dom.day with
  | none => simp [hdd, need, bind, Except.bind, throw, throwThe, MonadExceptOf.throw] at h
  | some d =>
    simp only [hdd, need, bind, Except.bind, pure, Except.pure] at h
    cases hr : latentDOMLoop ts d 13 (12 * ts.date.y + (ts.date.m - 1)) with
    | none => simp [hr] at h
    | some c =>
      simp only [hr] at h
      cases hc : dateOk c with
      | error e => simp [hc] at h
      | ok c' =>
        simp [hc] at h; subst h
        have hcc : c' = c := by
          unfold dateOk at hc; split at hc
          · simp [pure, Except.pure] at hc; exact hc.symm
          · simp [throw, throwThe, MonadExceptOf.throw] at hc
        subst hcc
        obtain ⟨h1, h2, h3⟩ := latentDOMLoop_shape _ _ _ _ _ hr
        have := hd.day d hdd
        exact tsTime_ok_of c' ⟨h2, h3⟩ (by omega)

theorem latentDOYLoop_shape (ts : Ts) (m d : Int) : ∀ (f : Nat) (y : Int) (c : Date), latentDOYLoop ts m d f y = some c → c.d = d ∧ c.m = m := by
  intro f
  induction f with
  | zero => intro y c h; simp [latentDOYLoop] at h
  | succ f ih =>
    intro y c h
    simp only [latentDOYLoop] at h
    split at h
    · simp at h; subst h; exact ⟨rfl, rfl⟩
    · exact ih _ c h

theorem dateOk_eq (c c' : Date) (hc : dateOk c = .ok c') : c' = c := by
  unfold dateOk at hc; split at hc
  · simp [pure, Except.pure] at hc; exact hc.symm
  · simp [throw, throwThe, MonadExceptOf.throw] at hc

theorem ruleLatentDOY_ok (ts : Ts) (doy : Time) (hd : doy.Ok) (v : Val) (h : ruleLatentDOY ts doy = .ok (some v)) : v.OkV := by
  unfold ruleLatentDOY at h
  cases hm : doy.month with
  | none => simp [hm, need, bind, Except.bind, throw, throwThe, MonadExceptOf.throw] at h
  | some m =>
    cases hdd : doy.day with
    | none => simp [hm, hdd, need, bind, Except.bind, pure, Except.pure, throw, throwThe, MonadExceptOf.throw] at h
    | some d =>
      simp only [hm, hdd, need, bind, Except.bind, pure, Except.pure] at h
      split at h
      · simp [throw, throwThe, MonadExceptOf.throw] at h
      · cases hr : latentDOYLoop ts m d 9 ts.date.y with
        | none => simp [hr] at h
        | some c =>
          simp only [hr] at h
          cases hc : dateOk c with
          | error e => simp [hc] at h
          | ok c' =>
            simp [hc] at h; subst h
            have hcc := dateOk_eq c c' hc
            subst hcc
            obtain ⟨h1, h2⟩ := latentDOYLoop_shape _ _ _ _ _ _ hr
            have := hd.day d hdd
            have := hd.month m hm
            exact tsTime_ok_of c' (by omega) (by omega)

theorem ruleLatentPOD_ok (ts : Ts) (hts : ts.Valid) (pod : Time) (v : Val) (h : ruleLatentPOD ts pod = .ok (some v)) : v.OkV := by
  unfold ruleLatentPOD at h
  cases hp : pod.pod with
  | none => simp [hp, needS, bind, Except.bind, throw, throwThe, MonadExceptOf.throw] at h
  | some p =>
    simp only [hp, needS, bind, Except.bind, pure, Except.pure] at h
    cases hl : podLookup p with
    | none => simp [hl, throw, throwThe, MonadExceptOf.throw] at h
    | some ab =>
      obtain ⟨a, b⟩ := ab
      simp only [hl] at h
      split at h
      · simp [throw, throwThe, MonadExceptOf.throw] at h
      · generalize hdd : (if a * 60 ≤ ts.h * 60 + ts.mi then ts.date.addDays 1 else ts.date) = d0 at h
        cases hc : dateOk d0 with
        | error e => simp [hc] at h
        | ok d =>
          simp [hc] at h; subst h
          have hv : d.Valid := by
            subst hdd; split at hc
            · exact dateOk_valid_ofOrd _ d hc
            · rw [dateOk_eq _ _ hc]; exact hts.1
          have h1 := tsTime_ok d hv
          show Time.Ok _
          refine ⟨fun y hy => h1.month y hy, fun y hy => h1.day y hy, fun y hy => h1.hour y hy, fun y hy => h1.minute y hy, fun y hy => h1.dow y hy, ?_⟩
          intro q hq; simp at hq; subst hq; simp [hl]

/-! ### numeric dates and clock times -/
theorem months_len : months.length = 12 := by decide

theorem monthOf_range (k : Tok) (hk : TokOk k) (m : Int) (h : monthOf k = .ok m) : 1 ≤ m ∧ m ≤ 12 := by
  unfold monthOf at h
  split at h
  · exact grpInt_range k hk "month" 1 12 (by decide) m h
  · generalize hf : (List.filter _ months.zipIdx).getLast? = o at h
    cases o with
    | none => simp [throw, throwThe, MonadExceptOf.throw] at h
    | some ni =>
      obtain ⟨n, i⟩ := ni
      simp [pure, Except.pure] at h; subst h
      have hm := List.mem_of_getLast? hf
      have hz : (n, i) ∈ months.zipIdx := (List.mem_filter.mp hm).1
      have := List.mem_zipIdx hz
      have h12 := months_len
      simp at this
      omega

theorem ruleDDMM_ok (k : Tok) (hk : TokOk k) (v : Val) (h : ruleDDMM k = .ok (some v)) : v.OkV := by
  unfold ruleDDMM at h
  cases hm : monthOf k with
  | error e => simp [hm, bind, Except.bind] at h
  | ok m =>
    simp only [hm, bind, Except.bind] at h
    cases hg : grpInt k "day" with
    | error e => simp [hg] at h
    | ok d =>
      simp [hg, pure, Except.pure] at h; subst h
      have := grpInt_range k hk "day" 1 31 (by decide) d hg
      have := monthOf_range k hk m hm
      show Time.Ok _
      ok_rec

theorem ruleDDMMYYYY_ok (k : Tok) (hk : TokOk k) (v : Val) (h : ruleDDMMYYYY k = .ok (some v)) : v.OkV := by
  unfold ruleDDMMYYYY at h
  cases hy : grpInt k "year" with
  | error e => simp [hy, bind, Except.bind] at h
  | ok y =>
    simp only [hy, bind, Except.bind] at h
    cases hm : monthOf k with
    | error e => simp [hm] at h
    | ok m =>
      simp only [hm] at h
      cases hg : grpInt k "day" with
      | error e => simp [hg] at h
      | ok d =>
        simp [hg, pure, Except.pure] at h; subst h
        have := grpInt_range k hk "day" 1 31 (by decide) d hg
        have := monthOf_range k hk m hm
        show Time.Ok _
        ok_rec

theorem applyAmPm_ok (h mi : Int) (hh : 0 ≤ h ∧ h ≤ 23) (hm : 0 ≤ mi ∧ mi ≤ 59) (ampm : Option (List Nat)) :
    (applyAmPm { hour := some h, minute := some mi } ampm).Ok := by
  unfold applyAmPm
  split
  · ok_rec
  · cases ampm with
    | none => simp only; ok_rec
    | some s =>
      simp only
      split
      · ok_rec
      · split
        · ok_rec
        · split
          · rename_i hc; simp at hc; ok_rec
          · ok_rec

theorem minuteOr0_range (k : Tok) (hk : TokOk k) (m : Int) (h : minuteOr0 k = .ok m) : 0 ≤ m ∧ m ≤ 59 := by
  unfold minuteOr0 at h
  split at h
  · exact grpInt_range k hk "minute" 0 59 (by decide) m h
  · simp [pure, Except.pure] at h; omega

theorem ruleHHMM_ok (k : Tok) (hk : TokOk k) (v : Val) (h : ruleHHMM k = .ok (some v)) : v.OkV := by
  unfold ruleHHMM at h
  cases hh : grpInt k "hour" with
  | error e => simp [hh, bind, Except.bind] at h
  | ok x =>
    simp only [hh, bind, Except.bind] at h
    cases hm : minuteOr0 k with
    | error e => simp [hm] at h
    | ok m =>
      simp [hm, pure, Except.pure] at h; subst h
      exact applyAmPm_ok x m (grpInt_range k hk "hour" 0 23 (by decide) x hh) (minuteOr0_range k hk m hm) _

theorem ruleHHMMmilitary_ok (ts : Ts) (k : Tok) (hk : TokOk k) (v : Val) (h : ruleHHMMmilitary ts k = .ok (some v)) : v.OkV := by
  unfold ruleHHMMmilitary at h
  cases hh : grpInt k "hour" with
  | error e => simp [hh, bind, Except.bind] at h
  | ok x =>
    simp only [hh, bind, Except.bind] at h
    cases hm : minuteOr0 k with
    | error e => simp [hm] at h
    | ok m =>
      simp only [hm] at h
      have hok := applyAmPm_ok x m (grpInt_range k hk "hour" 0 23 (by decide) x hh) (minuteOr0_range k hk m hm) (k.group "ampm")
      cases hv : isValidMilitary ts { hour := some x, minute := some m } with
      | error e => simp [hv] at h
      | ok b =>
        simp only [hv] at h
        split at h
        · simp [pure, Except.pure] at h; subst h; exact hok
        · simp [pure, Except.pure] at h

theorem ruleHHOClock_ok (k : Tok) (hk : TokOk k) (v : Val) (h : ruleHHOClock k = .ok (some v)) : v.OkV := by
  unfold ruleHHOClock at h
  cases hh : grpInt k "hour" with
  | error e => simp [hh, bind, Except.bind] at h
  | ok x =>
    simp [hh, bind, Except.bind, pure, Except.pure] at h; subst h
    have := grpInt_range k hk "hour" 0 23 (by decide) x hh
    show Time.Ok _
    ok_rec

/-! ### gluing and clock arithmetic -/
theorem optOk_some {t : Time} (h : t.Ok) : OptOk (some t) := by intro x hx; cases hx; exact h
theorem optOk_none : OptOk none := by intro x hx; cases hx

/-- peel the early returns of a production: what is left is its final `pure (some …)` -/
macro "peel" h:ident : tactic => `(tactic|
  (iterate 8 (all_goals (try (split at $h:ident)); all_goals (try (simp [pure, Except.pure] at $h:ident; done)))))
/-- the surviving branch: the result is a `Time` record -/
macro "fin_time" h:ident : tactic => `(tactic|
  ((first | subst $h:ident | (simp [pure, Except.pure] at $h:ident; subst $h:ident)); show Time.Ok _; ok_rec))

theorem ruleDOMMonth_ok (a b : Time) (ha : a.Ok) (hb : b.Ok) (v : Val) (h : ruleDOMMonth a b = .ok (some v)) : v.OkV := by
  simp [ruleDOMMonth, pure, Except.pure] at h; subst h; show Time.Ok _; ok_rec
theorem ruleMonthDOM_ok (a b : Time) (ha : a.Ok) (hb : b.Ok) (v : Val) (h : ruleMonthDOM a b = .ok (some v)) : v.OkV := by
  simp [ruleMonthDOM, pure, Except.pure] at h; subst h; show Time.Ok _; ok_rec
theorem ruleDOYYear_ok (a b : Time) (ha : a.Ok) (hb : b.Ok) (v : Val) (h : ruleDOYYear a b = .ok (some v)) : v.OkV := by
  simp [ruleDOYYear, pure, Except.pure] at h; subst h; show Time.Ok _; ok_rec
theorem ruleDOWPOD_ok (a b : Time) (ha : a.Ok) (hb : b.Ok) (v : Val) (h : ruleDOWPOD a b = .ok (some v)) : v.OkV := by
  simp [ruleDOWPOD, pure, Except.pure] at h; subst h; show Time.Ok _; ok_rec
theorem ruleDOWDate_ok (a b : Time) (ha : a.Ok) (hb : b.Ok) (v : Val) (h : ruleDOWDate a b = .ok (some v)) : v.OkV := by
  simp [ruleDOWDate, pure, Except.pure] at h; subst h; show Time.Ok _; ok_rec
theorem ruleDateTOD_ok (a b : Time) (ha : a.Ok) (hb : b.Ok) (v : Val) (h : ruleDateTOD a b = .ok (some v)) : v.OkV := by
  simp [ruleDateTOD, pure, Except.pure] at h; subst h; show Time.Ok _; ok_rec
theorem ruleDatePOD_ok (a b : Time) (ha : a.Ok) (hb : b.Ok) (v : Val) (h : ruleDatePOD a b = .ok (some v)) : v.OkV := by
  simp [ruleDatePOD, pure, Except.pure] at h; subst h; show Time.Ok _; ok_rec

theorem ruleQuarterBeforeHH_ok (t : Time) (ht : t.Ok) (v : Val) (h : ruleQuarterBeforeHH t = .ok (some v)) : v.OkV := by
  unfold ruleQuarterBeforeHH at h
  cases hh : t.hour with
  | none =>
    simp [hh, need, bind, Except.bind, pure, Except.pure, throw, throwThe, MonadExceptOf.throw] at h
    peel h
  | some x =>
    simp [hh, need, bind, Except.bind, pure, Except.pure, throw, throwThe, MonadExceptOf.throw] at h
    have := ht.hour x hh
    peel h
    all_goals fin_time h
theorem ruleHalfBeforeHH_ok (t : Time) (ht : t.Ok) (v : Val) (h : ruleHalfBeforeHH t = .ok (some v)) : v.OkV := by
  unfold ruleHalfBeforeHH at h
  cases hh : t.hour with
  | none =>
    simp [hh, need, bind, Except.bind, pure, Except.pure, throw, throwThe, MonadExceptOf.throw] at h
    peel h
  | some x =>
    simp [hh, need, bind, Except.bind, pure, Except.pure, throw, throwThe, MonadExceptOf.throw] at h
    have := ht.hour x hh
    peel h
    all_goals fin_time h
theorem ruleQuarterAfterHH_ok (t : Time) (ht : t.Ok) (v : Val) (h : ruleQuarterAfterHH t = .ok (some v)) : v.OkV := by
  unfold ruleQuarterAfterHH at h
  peel h
  all_goals fin_time h
theorem ruleHalfAfterHH_ok (t : Time) (ht : t.Ok) (v : Val) (h : ruleHalfAfterHH t = .ok (some v)) : v.OkV := by
  unfold ruleHalfAfterHH at h
  peel h
  all_goals fin_time h

theorem ruleTODPOD_ok (a b : Time) (ha : a.Ok) (hb : b.Ok) (v : Val) (h : ruleTODPOD a b = .ok (some v)) : v.OkV := by
  unfold ruleTODPOD at h
  cases hh : a.hour <;> cases hp : b.pod <;> simp [hh, hp, need, needS, bind, Except.bind, pure, Except.pure, throw, throwThe, MonadExceptOf.throw] at h
  rename_i x p
  have := ha.hour x hh
  peel h
  all_goals fin_time h

/-! ### intervals -/
theorem ruleBeforeTime_ok (k : Tok) (t : Time) (ht : t.Ok) (v : Val) (h : ruleBeforeTime k t = .ok (some v)) : v.OkV0 := by
  unfold ruleBeforeTime at h
  split at h <;> (simp [pure, Except.pure] at h; subst h) <;> first | exact ⟨optOk_some ht, optOk_none⟩ | exact ⟨optOk_none, optOk_some ht⟩
theorem ruleAfterTime_ok (k : Tok) (t : Time) (ht : t.Ok) (v : Val) (h : ruleAfterTime k t = .ok (some v)) : v.OkV0 := by
  unfold ruleAfterTime at h
  split at h <;> (simp [pure, Except.pure] at h; subst h) <;> first | exact ⟨optOk_some ht, optOk_none⟩ | exact ⟨optOk_none, optOk_some ht⟩

theorem ruleDateDate_ok (d1 d2 : Time) (h1 : d1.Ok) (h2 : d2.Ok) (v : Val) (h : ruleDateDate d1 d2 = .ok (some v)) : v.OkV0 := by
  have : v = .interval (some d1) (some d2) := by
    unfold ruleDateDate at h
    cases hy1 : d1.year <;> cases hy2 : d2.year <;> cases hm1 : d1.month <;> cases hm2 : d2.month <;> cases hd1 : d1.day <;> cases hd2 : d2.day <;>
      simp [hy1, hy2, hm1, hm2, hd1, hd2, need, bind, Except.bind, pure, Except.pure, throw, throwThe, MonadExceptOf.throw] at h
    peel h
    all_goals (first | exact h.symm | (simp [pure, Except.pure] at h; exact h.symm))
  subst this; exact ⟨optOk_some h1, optOk_some h2⟩

theorem ruleDateTimeDateTime_ok (d1 d2 : Time) (h1 : d1.Ok) (h2 : d2.Ok) (v : Val) (h : ruleDateTimeDateTime d1 d2 = .ok (some v)) : v.OkV0 := by
  have : v = .interval (some d1) (some d2) := by
    unfold ruleDateTimeDateTime at h
    cases hy1 : d1.year <;> cases hy2 : d2.year <;> cases hm1 : d1.month <;> cases hm2 : d2.month <;> cases hd1 : d1.day <;> cases hd2 : d2.day <;>
      cases hh1 : d1.hour <;> cases hh2 : d2.hour <;>
      simp [hy1, hy2, hm1, hm2, hd1, hd2, hh1, hh2, need, bind, Except.bind, pure, Except.pure, throw, throwThe, MonadExceptOf.throw] at h
    peel h
    all_goals (first | exact h.symm | (simp [pure, Except.pure] at h; exact h.symm))
  subst this; exact ⟨optOk_some h1, optOk_some h2⟩

theorem ruleDOMDate_ok (d1 d2 : Time) (h1 : d1.Ok) (h2 : d2.Ok) (v : Val) (h : ruleDOMDate d1 d2 = .ok (some v)) : v.OkV0 := by
  have : v = .interval (some { year := d2.year, month := d2.month, day := d1.day }) (some d2) := by
    unfold ruleDOMDate at h
    cases hd1 : d1.day <;> cases hd2 : d2.day <;>
      simp [hd1, hd2, need, bind, Except.bind, pure, Except.pure, throw, throwThe, MonadExceptOf.throw] at h
    peel h
    all_goals (first | exact h.symm | (simp [pure, Except.pure] at h; exact h.symm))
  subst this; exact ⟨optOk_some (by ok_rec), optOk_some h2⟩

theorem ruleDateDOM_ok (d1 d2 : Time) (h1 : d1.Ok) (h2 : d2.Ok) (v : Val) (h : ruleDateDOM d1 d2 = .ok (some v)) : v.OkV0 := by
  have : v = .interval (some d1) (some { year := d1.year, month := d1.month, day := d2.day }) := by
    unfold ruleDateDOM at h
    cases hd1 : d1.day <;> cases hd2 : d2.day <;>
      simp [hd1, hd2, need, bind, Except.bind, pure, Except.pure, throw, throwThe, MonadExceptOf.throw] at h
    peel h
    all_goals (first | exact h.symm | (simp [pure, Except.pure] at h; exact h.symm))
  subst this; exact ⟨optOk_some h1, optOk_some (by ok_rec)⟩

theorem ruleDOYDate_ok (d1 d2 : Time) (h1 : d1.Ok) (h2 : d2.Ok) (v : Val) (h : ruleDOYDate d1 d2 = .ok (some v)) : v.OkV0 := by
  have : v = .interval (some { year := d2.year, month := d1.month, day := d1.day }) (some d2) := by
    unfold ruleDOYDate at h
    cases hm1 : d1.month <;> cases hm2 : d2.month <;> cases hd1 : d1.day <;> cases hd2 : d2.day <;>
      simp [hm1, hm2, hd1, hd2, need, bind, Except.bind, pure, Except.pure, throw, throwThe, MonadExceptOf.throw] at h
    peel h
    all_goals (first | exact h.symm | (simp [pure, Except.pure] at h; exact h.symm))
  subst this; exact ⟨optOk_some (by ok_rec), optOk_some h2⟩

theorem rulePODPOD_ok (t1 t2 : Time) (h1 : t1.Ok) (h2 : t2.Ok) (v : Val) (h : rulePODPOD t1 t2 = .ok (some v)) : v.OkV0 := by
  simp [rulePODPOD, pure, Except.pure] at h; subst h; exact ⟨optOk_some h1, optOk_some h2⟩

theorem ruleTODTOD_ok (t1 t2 : Time) (h1 : t1.Ok) (h2 : t2.Ok) (v : Val) (h : ruleTODTOD t1 t2 = .ok (some v)) : v.OkV0 := by
  unfold ruleTODTOD at h
  cases hh1 : t1.hour <;> cases hh2 : t2.hour <;>
    simp [hh1, hh2, need, bind, Except.bind, pure, Except.pure, throw, throwThe, MonadExceptOf.throw] at h
  rename_i x1 x2
  have := h1.hour x1 hh1
  have := h2.hour x2 hh2
  split at h
  · simp at h; subst h
    exact ⟨optOk_some h1, optOk_some (by ok_rec)⟩
  · simp at h; subst h
    exact ⟨optOk_some h1, optOk_some h2⟩

/-! ### dated intervals and durations -/
theorem ofMinutes_clock (n : Int) : 0 ≤ (Ts.ofMinutes n).h ∧ (Ts.ofMinutes n).h ≤ 23 ∧ 0 ≤ (Ts.ofMinutes n).mi ∧ (Ts.ofMinutes n).mi ≤ 59 := by
  unfold Ts.ofMinutes; simp only; omega

theorem tsToTime_ok (n : Int) (pod : Option String) (hp : ∀ p, pod = some p → (podLookup p).isSome = true)
    (hr : (Ts.ofMinutes n).date.inRange = true) : (tsToTime (Ts.ofMinutes n) pod).Ok := by
  have hc := ofMinutes_clock n
  have hv : (Ts.ofMinutes n).date.Valid := by
    unfold Ts.ofMinutes at hr ⊢; exact ofOrd_inRange_valid _ hr
  have h1 := tsTime_ok _ hv
  unfold tsTime at h1
  unfold tsToTime
  refine ⟨fun y hy => h1.month y hy, fun y hy => h1.day y hy, ?_, ?_, ?_, hp⟩ <;> intro y hy <;> simp at hy <;> omega

theorem dateOk_inRange (d d' : Date) (h : dateOk d = .ok d') : d.inRange = true := by
  unfold dateOk at h; split at h
  · assumption
  · simp [throw, throwThe, MonadExceptOf.throw] at h

theorem mk_ok (d x : Time) (hd : d.Ok) (hx : x.Ok) :
    ({ year := d.year, month := d.month, day := d.day, hour := x.hour, minute := x.minute, pod := x.pod } : Time).Ok := by ok_rec

theorem ruleDateInterval_ok (d : Time) (f t : Option Time) (hd : d.Ok) (hf : OptOk f) (ht : OptOk t) (v : Val)
    (h : ruleDateInterval d f t = .ok (some v)) : v.OkV0 := by
  unfold ruleDateInterval at h
  cases f with
  | none =>
    cases t with
    | none => simp [bind, Except.bind, pure, Except.pure] at h; subst h; exact ⟨optOk_none, optOk_none⟩
    | some b =>
      simp only [bind, Except.bind, pure, Except.pure, Option.map_some, Option.map_none] at h
      split at h
      · simp at h
      · simp at h; subst h; exact ⟨optOk_none, optOk_some (mk_ok d b hd (ht b rfl))⟩
  | some a =>
    cases t with
    | none =>
      simp only [bind, Except.bind, pure, Except.pure, Option.map_some, Option.map_none] at h
      split at h
      · simp at h
      · simp at h; subst h; exact ⟨optOk_some (mk_ok d a hd (hf a rfl)), optOk_none⟩
    | some b =>
      have ha := mk_ok d a hd (hf a rfl)
      have hb := mk_ok d b hd (ht b rfl)
      simp only [bind, Except.bind, pure, Except.pure, Option.map_some] at h
      generalize hA : ({ year := d.year, month := d.month, day := d.day, hour := a.hour, minute := a.minute, pod := a.pod } : Time) = A at h ha
      generalize hB : ({ year := d.year, month := d.month, day := d.day, hour := b.hour, minute := b.minute, pod := b.pod } : Time) = B at h hb
      generalize hg : (!((a.isTOD || a.isPOD) && (b.isTOD || b.isPOD))) = g at h
      cases g with
      | true => simp at h
      | false =>
        simp only [Bool.false_eq_true, if_false] at h
        cases hda : A.dt with
        | error e => simp [hda] at h
        | ok da =>
          cases hdb : B.dt with
          | error e => simp [hda, hdb] at h
          | ok db =>
            simp only [hda, hdb] at h
            have key : ∀ k : Int, ∀ e', dateOk (db.addMinutes k).date = .ok e' → (tsToTime (db.addMinutes k) b.pod).Ok := by
              intro k e' he
              exact tsToTime_ok _ _ (ht b rfl).pod (dateOk_inRange _ _ he)
            by_cases hge : da.minutes ≥ db.minutes
            · simp only [hge, if_true] at h
              cases hha : a.hour with
              | none =>
                simp only [hha] at h
                generalize he : dateOk (db.addMinutes _).date = E at h
                cases E with
                | error e => simp at h
                | ok e' => simp at h; subst h; exact ⟨optOk_some ha, optOk_some (key _ e' he)⟩
              | some xa =>
                cases hhb : b.hour with
                | none =>
                  simp only [hha, hhb] at h
                  generalize he : dateOk (db.addMinutes _).date = E at h
                  cases E with
                  | error e => simp at h
                  | ok e' => simp at h; subst h; exact ⟨optOk_some ha, optOk_some (key _ e' he)⟩
                | some xb =>
                  simp only [hha, hhb] at h
                  cases hs : shift12 xa xb da.minutes db.minutes with
                  | true =>
                    simp only [hs, if_true] at h
                    generalize he : dateOk (db.addMinutes _).date = E at h
                    cases E with
                    | error e => simp at h
                    | ok e' => simp at h; subst h; exact ⟨optOk_some ha, optOk_some (key _ e' he)⟩
                  | false =>
                    simp only [hs, Bool.false_eq_true, if_false] at h
                    generalize he : dateOk (db.addMinutes _).date = E at h
                    cases E with
                    | error e => simp at h
                    | ok e' => simp at h; subst h; exact ⟨optOk_some ha, optOk_some (key _ e' he)⟩
            · simp only [hge, if_false] at h
              simp at h; subst h; exact ⟨optOk_some ha, optOk_some hb⟩

theorem mkPod_ok (pod : String) (x : Time) (hx : x.Ok) :
    ({ year := x.year, month := x.month, day := x.day,
       hour := (match x.hour with | none => none | some h => if h < 12 && podIsPm pod then some (h + 12) else some h),
       minute := x.minute, dow := x.dow } : Time).Ok := by
  refine ⟨fun y hy => hx.month y hy, fun y hy => hx.day y hy, ?_, fun y hy => hx.minute y hy, fun y hy => hx.dow y hy, ?_⟩
  · intro y hy
    cases hh : x.hour with
    | none => simp [hh] at hy
    | some h0 =>
      have := hx.hour h0 hh
      simp only [hh] at hy
      split at hy
      · rename_i hc; simp at hc hy; omega
      · simp at hy; omega
  · intro q hq; simp at hq

theorem optOk_map (g : Time → Time) (hg : ∀ x, x.Ok → (g x).Ok) (o : Option Time) (ho : OptOk o) : OptOk (o.map g) := by
  cases o with
  | none => exact optOk_none
  | some x => exact optOk_some (hg x (ho x rfl))

theorem rulePODInterval_ok (p : Time) (f t : Option Time) (hf : OptOk f) (ht : OptOk t) (v : Val)
    (h : rulePODInterval p f t = .ok (some v)) : v.OkV0 := by
  unfold rulePODInterval at h
  cases hp : p.pod with
  | none => simp [hp, needS, bind, Except.bind, throw, throwThe, MonadExceptOf.throw] at h
  | some pod =>
    simp only [hp, needS, bind, Except.bind, pure, Except.pure] at h
    have hF := optOk_map _ (mkPod_ok pod) f hf
    have hT := optOk_map _ (mkPod_ok pod) t ht
    generalize Option.map _ f = F at h hF
    generalize Option.map _ t = T at h hT
    peel h
    all_goals (first | (simp at h; subst h; exact ⟨hF, hT⟩) | (subst h; exact ⟨hF, hT⟩))

/-- the consistency productions hand the interval back unchanged -/
theorem ruleDurationInterval_ok (n : Int) (u : DUnit) (f t : Option Time) (hf : OptOk f) (ht : OptOk t) (v : Val)
    (h : ruleDurationInterval n u f t = .ok (some v)) : v.OkV0 := by
  unfold ruleDurationInterval at h
  cases f with
  | none => simp [throw, throwThe, MonadExceptOf.throw] at h
  | some a =>
    cases t with
    | none => simp [throw, throwThe, MonadExceptOf.throw] at h
    | some b =>
      simp only [bind, Except.bind, pure, Except.pure] at h
      peel h
      all_goals (first | (simp at h; subst h; exact ⟨hf, ht⟩) | (subst h; exact ⟨hf, ht⟩))

theorem addMonthsClip_shape (x : Date) (n : Int) (hx : x.Valid) : 1 ≤ (x.addMonthsClip n).m ∧ (x.addMonthsClip n).m ≤ 12 ∧ 1 ≤ (x.addMonthsClip n).d ∧ (x.addMonthsClip n).d ≤ 31 := by
  unfold Date.addMonthsClip
  simp only
  have hd := dim_bounds ((12 * x.y + (x.m - 1) + n) / 12) ((12 * x.y + (x.m - 1) + n) % 12 + 1)
  obtain ⟨_, _, h3, h4⟩ := hx
  have := dim_bounds x.y x.m
  omega

theorem dt_valid (t : Time) (dt : Ts) (h : t.dt = .ok dt) : dt.date.Valid := by
  unfold Time.dt at h
  cases hs : t.start with
  | error e => simp [hs, bind, Except.bind] at h
  | ok s =>
    simp only [hs, bind, Except.bind] at h
    split at h
    · split at h
      · rename_i hc
        simp [pure, Except.pure] at h; subst h
        simp only [Bool.and_eq_true] at hc
        exact (Date.valid_iff _).mp hc.1.1.1.1.1
      · simp [throw, throwThe, MonadExceptOf.throw] at h
    · simp [throw, throwThe, MonadExceptOf.throw] at h

theorem ruleTimeDuration_ok (t : Time) (n : Int) (u : DUnit) (ht : t.Ok) (v : Val) (h : ruleTimeDuration t n u = .ok (some v)) : v.OkV0 := by
  unfold ruleTimeDuration at h
  cases hs : t.start with
  | error e => simp [hs, bind, Except.bind] at h
  | ok s =>
    simp only [hs, bind, Except.bind] at h
    cases hd : t.dt with
    | error e => cases e <;> simp [hd, pure, Except.pure, throw, throwThe, MonadExceptOf.throw] at h
    | ok dt =>
      simp only [hd] at h
      have hv := dt_valid t dt hd
      have dateEnd : ∀ d : Date, (1 ≤ d.m ∧ d.m ≤ 12 ∧ 1 ≤ d.d ∧ d.d ≤ 31) →
          (if d.inRange = true then (pure (some (Val.interval (some t) (some (tsTime d)))) : R) else pure none) = .ok (some v) → v.OkV0 := by
        intro d hdd hh
        split at hh
        · simp [pure, Except.pure] at hh; subst hh
          exact ⟨optOk_some ht, optOk_some (tsTime_ok_of d ⟨hdd.1, hdd.2.1⟩ ⟨hdd.2.2.1, hdd.2.2.2⟩)⟩
        · simp [pure, Except.pure] at hh
      have ofOrdShape : ∀ k : Int, (Date.ofOrd k).inRange = true → (1 ≤ (Date.ofOrd k).m ∧ (Date.ofOrd k).m ≤ 12 ∧ 1 ≤ (Date.ofOrd k).d ∧ (Date.ofOrd k).d ≤ 31) := by
        intro k hr
        have hvv := ofOrd_inRange_valid k hr
        have := dim_bounds (Date.ofOrd k).y (Date.ofOrd k).m
        obtain ⟨a1, a2, a3, a4⟩ := hvv
        exact ⟨a1, a2, a3, by omega⟩
      have minEnd : ∀ k : Int, (if (dt.addMinutes k).date.inRange = true then
            (pure (some (Val.interval (some t) (some { year := some (dt.addMinutes k).date.y, month := some (dt.addMinutes k).date.m, day := some (dt.addMinutes k).date.d, hour := some (dt.addMinutes k).h, minute := some (dt.addMinutes k).mi }))) : R)
          else pure none) = .ok (some v) → v.OkV0 := by
        intro k hh
        split at hh
        · rename_i hr
          simp [pure, Except.pure] at hh; subst hh
          refine ⟨optOk_some ht, optOk_some ?_⟩
          have := tsToTime_ok (dt.minutes + k) none (by intro p hp; cases hp) (by simpa [Ts.addMinutes] using hr)
          simpa [tsToTime, Ts.addMinutes] using this
        · simp [pure, Except.pure] at hh
      cases u with
      | days =>
        simp only at h
        by_cases hr : (dt.date.addDays n).inRange = true
        · exact dateEnd _ (ofOrdShape _ hr) h
        · simp [hr, pure, Except.pure] at h
      | nights =>
        simp only at h
        by_cases hr : (dt.date.addDays n).inRange = true
        · exact dateEnd _ (ofOrdShape _ hr) h
        · simp [hr, pure, Except.pure] at h
      | weeks =>
        simp only at h
        by_cases hr : (dt.date.addDays (7 * n)).inRange = true
        · exact dateEnd _ (ofOrdShape _ hr) h
        · simp [hr, pure, Except.pure] at h
      | months =>
        simp only at h
        exact dateEnd _ (addMonthsClip_shape dt.date n hv) h
      | hours =>
        have e1 : (DUnit.hours == DUnit.hours) = true := rfl
        simp only [e1, if_true] at h
        exact minEnd _ h
      | minutes =>
        have e1 : (DUnit.minutes == DUnit.hours) = false := rfl
        simp only [e1, Bool.false_eq_true, if_false] at h
        exact minEnd _ h

/-! ### all productions -/
theorem durationRules_ok (v : Val) (n : Int) (u : DUnit) (h : v = .duration n u) : v.OkV0 := by subst h; trivial

theorem ruleDigitDuration_ok (k : Tok) (v : Val) (h : ruleDigitDuration k = .ok (some v)) : v.OkV0 := by
  unfold ruleDigitDuration at h
  simp only [bind, Except.bind, pure, Except.pure] at h
  peel h
  all_goals (first | (simp [throw, throwThe, MonadExceptOf.throw] at h; done) | (simp at h; subst h; trivial) | (subst h; trivial))

theorem ruleNamedNumberDuration_ok (k : Tok) (v : Val) (h : ruleNamedNumberDuration k = .ok (some v)) : v.OkV0 := by
  unfold ruleNamedNumberDuration at h
  simp only [bind, Except.bind, pure, Except.pure] at h
  peel h
  all_goals (first | (simp [throw, throwThe, MonadExceptOf.throw] at h; done) | (simp at h; subst h; trivial) | (subst h; trivial))

theorem ruleDurationHalf_ok (k : Tok) (v : Val) (h : ruleDurationHalf k = .ok (some v)) : v.OkV0 := by
  unfold ruleDurationHalf at h
  simp only [bind, Except.bind, pure, Except.pure] at h
  peel h
  all_goals (first | (simp [throw, throwThe, MonadExceptOf.throw] at h; done) | (simp at h; subst h; trivial) | (subst h; trivial))

theorem mem1 {P : Val → Prop} {a : Val} {l : List Val} (h : ∀ x ∈ a :: l, P x) : P a := h a List.mem_cons_self
theorem mem2 {P : Val → Prop} {a b : Val} {l : List Val} (h : ∀ x ∈ a :: b :: l, P x) : P b := h b (by simp)
theorem mem3 {P : Val → Prop} {a b c : Val} {l : List Val} (h : ∀ x ∈ a :: b :: c :: l, P x) : P c := h c (by simp)

end QuickAdd
