import QuickAdd.Model.Rules
/-!
# The order clause of C02: a dated interval does not start after it ends

`startMin t` / `endMin t`: minutes since ordinal 0 of `t.start.dt` / `t.end.dt` when these exist (full, existing date).
`IvOrd f t`: if both are defined, start ≤ end.
-/
namespace QuickAdd
open Gen

def startMin (t : Time) : Option Int :=
  match t.start with
  | .ok s => (match s.dt with | .ok d => some d.minutes | .error _ => none)
  | .error _ => none

def endMin (t : Time) : Option Int :=
  match t.end_ with
  | .ok s => (match s.dt with | .ok d => some d.minutes | .error _ => none)
  | .error _ => none

def IvOrd (f t : Option Time) : Prop := ∀ a b, f = some a → t = some b → ∀ x y, startMin a = some x → endMin b = some y → x ≤ y

end QuickAdd
