import QuickAdd.Model.Search
/-! Lemmas about the worklist loop `run` (the model's own loop, not an abstraction of it). -/
namespace QuickAdd

variable {α S S' : Type}

/-! ### deadline: the stream under a deadline is a prefix of the stream without one -/
theorem run_deadline_prefix (c : Cfg α S) : ∀ (f : Nat) (k : Nat) (stack : List (E α S)) (seen : List (List α × S)) (em : List (α × S)),
    (run c f (some k) stack seen em).1 <+: (run c f none stack seen em).1 := by
  intro f
  induction f with
  | zero => intro k stack seen em; simp [run]
  | succ f ih =>
    intro k stack seen em
    simp only [run]
    cases hs : stack.reverse with
    | nil => simp
    | cons s restRev =>
      simp only
      cases k with
      | zero => simp
      | succ k =>
        have hk : (some (k + 1) == some 0) = false := by simp
        have hn : ((none : Option Nat) == some 0) = false := by simp
        simp only [hk, hn, Bool.false_eq_true, if_false, Option.map_some, Option.map_none, Nat.add_sub_cancel]
        cases he : c.expand s.rules s.prod s.trace with
        | error e => simp
        | ok succs =>
          simp only
          split
          · exact List.prefix_append_right_inj _ |>.mpr (ih k _ _ _)
          · exact ih k _ _ _

/-- an exhausted deadline (first check fails) yields nothing, and no exception -/
theorem run_deadline_zero (c : Cfg α S) (f : Nat) (stack : List (E α S)) (seen : List (List α × S)) (em : List (α × S)) (hf : 0 < f) :
    (run c f (some 0) stack seen em).1 = [] ∧ (run c f (some 0) stack seen em).2 = none := by
  cases f with
  | zero => omega
  | succ f =>
    simp only [run]
    cases hs : stack.reverse with
    | nil => simp
    | cons s restRev => simp

/-- a deadline never turns a clean stream into an exception: under any budget the stream ends with the exception of the
    unlimited run or with none -/
theorem run_deadline_err (c : Cfg α S) : ∀ (f : Nat) (k : Nat) (stack : List (E α S)) (seen : List (List α × S)) (em : List (α × S)),
    (run c f none stack seen em).2 = none → (run c f (some k) stack seen em).2 = none := by
  intro f
  induction f with
  | zero => intro k stack seen em h; simp [run] at h
  | succ f ih =>
    intro k stack seen em h
    simp only [run] at h ⊢
    cases hs : stack.reverse with
    | nil => simp
    | cons s restRev =>
      simp only [hs] at h ⊢
      cases k with
      | zero => simp
      | succ k =>
        have hk : (some (k + 1) == some 0) = false := by simp
        have hn : ((none : Option Nat) == some 0) = false := by simp
        simp only [hk, hn, Bool.false_eq_true, if_false, Option.map_some, Option.map_none, Nat.add_sub_cancel] at h ⊢
        cases he : c.expand s.rules s.prod s.trace with
        | error e => simp [he] at h
        | ok succs =>
          simp only [he] at h ⊢
          split
          · rename_i hc
            simp only [hc, if_true] at h
            exact ih k _ _ _ h
          · rename_i hc
            simp only [hc] at h
            exact ih k _ _ _ h

/-! ### the best candidate -/
theorem bestOf_mem (lt : S → S → Bool) : ∀ (l : List (Cand S)) (b : Cand S), bestOf lt l = some b → b ∈ l := by
  intro l
  induction l with
  | nil => intro b h; simp [bestOf] at h
  | cons c cs ih =>
    intro b h
    simp only [bestOf] at h
    cases hb : bestOf lt cs with
    | none => simp [hb] at h; subst h; simp
    | some b' =>
      simp only [hb] at h
      split at h
      · simp at h; subst h; simp
      · simp at h; subst h; exact List.mem_cons_of_mem _ (ih b' hb)

theorem bestOf_none_iff (lt : S → S → Bool) (l : List (Cand S)) : bestOf lt l = none ↔ l = [] := by
  cases l with
  | nil => simp [bestOf]
  | cons c cs =>
    simp only [bestOf]
    cases bestOf lt cs with
    | none => simp
    | some b => simp only; split <;> simp

/-- no candidate of the stream scores strictly higher than the returned one (for an irreflexive, transitive `lt`,
    e.g. `<` on numbers) -/
theorem bestOf_max (lt : S → S → Bool) (hirr : ∀ a, lt a a = false)
    (htr : ∀ a b c, lt a b = true → lt b c = true → lt a c = true) :
    ∀ (l : List (Cand S)) (b : Cand S), bestOf lt l = some b → ∀ x ∈ l, lt b.score x.score = false := by
  intro l
  induction l with
  | nil => intro b h; simp [bestOf] at h
  | cons c cs ih =>
    intro b h x hx
    simp only [bestOf] at h
    cases hb : bestOf lt cs with
    | none =>
      simp [hb] at h; subst h
      have : cs = [] := (bestOf_none_iff lt cs).mp hb
      subst this
      simp at hx; subst hx
      exact hirr _
    | some b' =>
      simp only [hb] at h
      have ihb := ih b' hb
      by_cases hlt : lt b'.score c.score = true
      · simp only [hlt, if_true] at h
        simp at h; subst h
        rcases List.mem_cons.mp hx with rfl | hx'
        · exact hirr _
        · cases hl : lt c.score x.score with
          | false => rfl
          | true =>
            have h1 := htr _ _ _ hlt hl
            have h2 := ihb x hx'
            rw [h1] at h2; exact absurd h2 (by simp)
      · simp only [hlt] at h
        simp at h; subst h
        rcases List.mem_cons.mp hx with rfl | hx'
        · simpa using hlt
        · exact ihb x hx'

end QuickAdd
