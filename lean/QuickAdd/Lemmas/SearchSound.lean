import QuickAdd.Model.Search
/-! Soundness of the worklist loop for an arbitrary ordering / pruning policy (scores, dedup, truncation, deadline):
    whatever is emitted is a value of a production reachable from the initial stack by `expand`, with that production's trace. -/
namespace QuickAdd

variable {α S : Type}

/-- productions reachable from the initial stack elements by the configured expansion -/
inductive ReachE (c : Cfg α S) (init : List (E α S)) : List α → List String → List (String × List Gen.Pred) → Prop
  | init {e : E α S} : e ∈ init → ReachE c init e.prod e.trace e.rules
  | step {p t rules succs p' t' n} : ReachE c init p t rules → c.expand rules p t = .ok succs → (p', t', n) ∈ succs → ReachE c init p' t' rules

theorem mem_ins (lt : S → S → Bool) (x : E α S) : ∀ (l : List (E α S)) (y : E α S), y ∈ ins lt x l → y = x ∨ y ∈ l := by
  intro l
  induction l with
  | nil => intro y h; simp [ins] at h; exact Or.inl h
  | cons a as ih =>
    intro y h
    simp only [ins] at h
    split at h
    · rcases List.mem_cons.mp h with h | h
      · exact Or.inl h
      · exact Or.inr h
    · rcases List.mem_cons.mp h with h | h
      · exact Or.inr (by simp [h])
      · rcases ih y h with h | h
        · exact Or.inl h
        · exact Or.inr (List.mem_cons_of_mem _ h)

theorem mem_foldl_ins (lt : S → S → Bool) (y : E α S) : ∀ (l acc : List (E α S)), y ∈ l.foldl (fun acc x => ins lt x acc) acc → y ∈ acc ∨ y ∈ l := by
  intro l
  induction l with
  | nil => intro acc h; exact Or.inl h
  | cons x xs ih =>
    intro acc h
    simp only [List.foldl_cons] at h
    rcases ih (ins lt x acc) h with h | h
    · rcases mem_ins lt x acc y h with h | h
      · exact Or.inr (by simp [h])
      · exact Or.inl h
    · exact Or.inr (List.mem_cons_of_mem _ h)

theorem mem_sortE (lt : S → S → Bool) (l : List (E α S)) (y : E α S) (h : y ∈ sortE lt l) : y ∈ l := by
  rcases mem_foldl_ins lt y l [] h with h | h
  · simp at h
  · exact h

theorem mem_trunc {β : Type} (d : Nat) (l : List β) (y : β) (h : y ∈ trunc d l) : y ∈ l := by
  unfold trunc at h
  split at h
  · exact h
  · exact List.mem_of_mem_drop h

theorem pushNew_cons (c : Cfg α S) (rules : List (String × List Gen.Pred)) (p : List α) (t : List String) (n : Nat)
    (rest : List (List α × List String × Nat)) (seen : List (List α × S)) :
    pushNew c rules ((p, t, n) :: rest) seen =
      (if (match lookupBy (listEqBy c.keyEq) p seen with | some old => c.lt old (c.scorer p t n) | none => true) = true then
        ({ prod := p, trace := t, cov := n, score := c.scorer p t n, rules := rules } :: (pushNew c rules rest ((p, c.scorer p t n) :: seen)).1,
         (pushNew c rules rest ((p, c.scorer p t n) :: seen)).2)
       else pushNew c rules rest seen) := rfl

theorem mem_pushNew (c : Cfg α S) (rules : List (String × List Gen.Pred)) :
    ∀ (succs : List (List α × List String × Nat)) (seen : List (List α × S)) (e : E α S),
      e ∈ (pushNew c rules succs seen).1 → e.rules = rules ∧ ∃ n, (e.prod, e.trace, n) ∈ succs := by
  intro succs
  induction succs with
  | nil => intro seen e h; simp [pushNew] at h
  | cons hd tl ih =>
    intro seen e h
    obtain ⟨p, t, n⟩ := hd
    rw [pushNew_cons] at h
    generalize (match lookupBy (listEqBy c.keyEq) p seen with | some old => c.lt old (c.scorer p t n) | none => true) = ok at h
    cases ok with
    | true =>
      simp only [if_true] at h
      rcases List.mem_cons.mp h with h | h
      · subst h; exact ⟨rfl, n, by simp⟩
      · obtain ⟨h1, m, h2⟩ := ih _ e h
        exact ⟨h1, m, List.mem_cons_of_mem _ h2⟩
    | false =>
      simp only [Bool.false_eq_true, if_false] at h
      obtain ⟨h1, m, h2⟩ := ih _ e h
      exact ⟨h1, m, List.mem_cons_of_mem _ h2⟩

theorem emit_cons (c : Cfg α S) (pr : List α) (tr : List String) (x : α) (xs : List α) (em : List (α × S)) :
    emit c pr tr (x :: xs) em =
      (if c.isVal x = true then
        (if (match lookupBy c.keyEq x em with | some old => c.lt old (c.final pr tr x) | none => true) = true then
          ((x, tr, c.final pr tr x) :: (emit c pr tr xs ((x, c.final pr tr x) :: em)).1, (emit c pr tr xs ((x, c.final pr tr x) :: em)).2)
         else emit c pr tr xs em)
       else emit c pr tr xs em) := rfl

theorem mem_emit (c : Cfg α S) (pr : List α) (tr : List String) :
    ∀ (xs : List α) (em : List (α × S)) (o : α × List String × S), o ∈ (emit c pr tr xs em).1 → o.1 ∈ xs ∧ c.isVal o.1 = true ∧ o.2.1 = tr ∧ o.2.2 = c.final pr tr o.1 := by
  intro xs
  induction xs with
  | nil => intro em o h; simp [emit] at h
  | cons x xs ih =>
    intro em o h
    rw [emit_cons] at h
    generalize (match lookupBy c.keyEq x em with | some old => c.lt old (c.final pr tr x) | none => true) = ok at h
    by_cases hv : c.isVal x = true
    · simp only [hv, if_true] at h
      cases ok with
      | true =>
        simp only [if_true] at h
        rcases List.mem_cons.mp h with h | h
        · subst h; exact ⟨by simp, hv, rfl, rfl⟩
        · obtain ⟨a, b, c', d⟩ := ih _ o h
          exact ⟨List.mem_cons_of_mem _ a, b, c', d⟩
      | false =>
        simp only [Bool.false_eq_true, if_false] at h
        obtain ⟨a, b, c', d⟩ := ih _ o h
        exact ⟨List.mem_cons_of_mem _ a, b, c', d⟩
    · simp only [hv, Bool.false_eq_true, if_false] at h
      obtain ⟨a, b, c', d⟩ := ih _ o h
      exact ⟨List.mem_cons_of_mem _ a, b, c', d⟩

/-- a value already in the emission table is let through again only with an `lt`-greater score -/
theorem emit_head_strict (c : Cfg α S) (pr : List α) (tr : List String) (x : α) (xs : List α) (em : List (α × S)) (old : S)
    (hv : c.isVal x = true) (hold : lookupBy c.keyEq x em = some old) (hnot : c.lt old (c.final pr tr x) = false) :
    emit c pr tr (x :: xs) em = emit c pr tr xs em := by
  rw [emit_cons]; simp [hv, hold, hnot]

/-- **soundness**: every emission is a value of a reachable production and carries that production's trace -/
theorem run_sound (c : Cfg α S) (init : List (E α S)) : ∀ (f : Nat) (budget : Option Nat) (stack : List (E α S)) (seen : List (List α × S)) (em : List (α × S)),
    (∀ e ∈ stack, ReachE c init e.prod e.trace e.rules) →
    ∀ o ∈ (run c f budget stack seen em).1, ∃ p rules, ReachE c init p o.2.1 rules ∧ o.1 ∈ p ∧ c.isVal o.1 = true ∧ o.2.2 = c.final p o.2.1 o.1 := by
  intro f
  induction f with
  | zero => intro _ _ _ _ _ o h; simp [run] at h
  | succ f ih =>
    intro budget stack seen em hinv o ho
    simp only [run] at ho
    cases hs : stack.reverse with
    | nil => simp [hs] at ho
    | cons s restRev =>
      simp only [hs] at ho
      have hsmem : s ∈ stack := by
        have : s ∈ stack.reverse := by rw [hs]; simp
        exact List.mem_reverse.mp this
      have hrest : ∀ e ∈ restRev.reverse, e ∈ stack := by
        intro e he
        have : e ∈ stack.reverse := by rw [hs]; exact List.mem_cons_of_mem _ (List.mem_reverse.mp he)
        exact List.mem_reverse.mp this
      split at ho
      · simp at ho
      · cases he : c.expand s.rules s.prod s.trace with
        | error e => simp [he] at ho
        | ok succs =>
          simp only [he] at ho
          have hs_reach := hinv s hsmem
          split at ho
          · rcases List.mem_append.mp ho with h | h
            · obtain ⟨a, b, c', d⟩ := mem_emit c s.prod s.trace s.prod em o h
              exact ⟨s.prod, s.rules, by rw [c']; exact hs_reach, a, b, by rw [c']; exact d⟩
            · exact ih _ _ _ _ (fun e he' => hinv e (hrest e he')) o h
          · apply ih _ _ _ _ _ o ho
            intro e he'
            have h1 := mem_sortE c.lt _ e (mem_trunc c.depth _ e he')
            rcases List.mem_append.mp h1 with h2 | h2
            · exact hinv e (hrest e h2)
            · obtain ⟨hr, n, hm⟩ := mem_pushNew c s.rules succs seen e h2
              rw [hr]
              exact ReachE.step hs_reach he hm

end QuickAdd
