import QuickAdd.Model.Regex
/-!
# The matcher's fuel is sufficient

`fuelNeed r n`: nesting depth the backtracking matcher can reach on a pattern `r` with `n` code points left (pattern structure;
one level per iteration of a star, and an iteration must consume).  `mtc_fuel`: with at least that much fuel the result does
not depend on the fuel.  `need_le_fuelFor`: the fuel `matchAt` uses is enough — so `matchAt` computes the fuel-free
semantics of the pattern (`matchAt_fuel_indep`), for every table set, text and offset.
-/
namespace QuickAdd

def fuelNeed : Rx → Nat → Nat
  | .eps, _ => 1 | .lit _, _ => 1 | .cls _ _, _ => 1 | .wordb, _ => 1
  | .seq a b, n => 1 + max (fuelNeed a n) (fuelNeed b n)
  | .alt a b, n => 1 + max (fuelNeed a n) (fuelNeed b n)
  | .opt a, n => 1 + fuelNeed a n
  | .star a, n => 1 + fuelNeed a n + n
  | .plus a, n => 2 + fuelNeed a n + n
  | .grp _ a, n => 1 + fuelNeed a n
  | .nla a, n => 1 + fuelNeed a n
  | .nlb a, _ => 1 + fuelNeed a 1

theorem need_mono (r : Rx) : ∀ m n, m ≤ n → fuelNeed r m ≤ fuelNeed r n := by
  induction r with
  | eps => intro m n _; simp [fuelNeed]
  | lit _ => intro m n _; simp [fuelNeed]
  | cls _ _ => intro m n _; simp [fuelNeed]
  | wordb => intro m n _; simp [fuelNeed]
  | seq a b iha ihb => intro m n h; have := iha m n h; have := ihb m n h; simp only [fuelNeed]; omega
  | alt a b iha ihb => intro m n h; have := iha m n h; have := ihb m n h; simp only [fuelNeed]; omega
  | opt a ih => intro m n h; have := ih m n h; simp only [fuelNeed]; omega
  | star a ih => intro m n h; have := ih m n h; simp only [fuelNeed]; omega
  | plus a ih => intro m n h; have := ih m n h; simp only [fuelNeed]; omega
  | grp _ a ih => intro m n h; have := ih m n h; simp only [fuelNeed]; omega
  | nla a ih => intro m n h; have := ih m n h; simp only [fuelNeed]; omega
  | nlb a _ => intro m n _; simp [fuelNeed]

theorem need_pos (r : Rx) (n : Nat) : 0 < fuelNeed r n := by cases r <;> simp [fuelNeed] <;> omega

/-- `st'` is a later position of the same text -/
def Later (st st' : St) : Prop := st.pos ≤ st'.pos ∧ st'.pos + st'.rest.length = st.pos + st.rest.length

theorem Later.refl (st : St) : Later st st := ⟨Nat.le_refl _, rfl⟩
theorem Later.trans {a b c : St} (h1 : Later a b) (h2 : Later b c) : Later a c := ⟨by have := h1.1; have := h2.1; omega, by have := h1.2; have := h2.2; omega⟩
theorem Later.len_le {a b : St} (h : Later a b) : b.rest.length ≤ a.rest.length := by have := h.1; have := h.2; omega

theorem step_later {st st' : St} {x : Nat} (h : step st = some (x, st')) : Later st st' := by
  unfold step at h
  cases hr : st.rest with
  | nil => simp [hr] at h
  | cons y ys =>
    simp [hr] at h
    obtain ⟨_, rfl⟩ := h
    constructor
    · simp
    · simp [hr]; omega

/-- the star case, by induction on the number of code points left -/
theorem mtc_fuel_star (T : Tabs) (a : Rx)
    (iha : ∀ (st : St) (cs : Caps) (k1 k2 : K) (f1 f2 : Nat), fuelNeed a st.rest.length ≤ f1 → fuelNeed a st.rest.length ≤ f2 →
      (∀ st' cs', Later st st' → k1 st' cs' = k2 st' cs') → mtc T f1 a st cs k1 = mtc T f2 a st cs k2) :
    ∀ (n : Nat) (st : St) (cs : Caps) (k1 k2 : K) (f1 f2 : Nat), st.rest.length = n → fuelNeed (.star a) n ≤ f1 → fuelNeed (.star a) n ≤ f2 →
      (∀ st' cs', Later st st' → k1 st' cs' = k2 st' cs') → mtc T f1 (.star a) st cs k1 = mtc T f2 (.star a) st cs k2 := by
  intro n
  induction n using Nat.strongRecOn with
  | _ n ihn =>
    intro st cs k1 k2 f1 f2 hn h1 h2 hk
    simp only [fuelNeed] at h1 h2
    cases f1 with
    | zero => omega
    | succ f1 =>
      cases f2 with
      | zero => omega
      | succ f2 =>
        simp only [mtc]
        have hinner : mtc T f1 a st cs (fun st' cs' => if st'.pos == st.pos then none else mtc T f1 (.star a) st' cs' k1)
            = mtc T f2 a st cs (fun st' cs' => if st'.pos == st.pos then none else mtc T f2 (.star a) st' cs' k2) := by
          apply iha st cs _ _ f1 f2 (by rw [hn]; omega) (by rw [hn]; omega)
          intro st' cs' hl
          by_cases hp : (st'.pos == st.pos) = true
          · simp [hp]
          · simp only [hp, Bool.false_eq_true, if_false]
            have hlt : st'.rest.length < n := by
              have := hl.1; have := hl.2
              have : st'.pos ≠ st.pos := by simpa using hp
              omega
            have hm := need_mono a st'.rest.length n (by omega)
            exact ihn st'.rest.length hlt st' cs' k1 k2 f1 f2 rfl (by simp only [fuelNeed]; omega) (by simp only [fuelNeed]; omega)
              (fun st'' cs'' hl' => hk st'' cs'' (hl.trans hl'))
        rw [hinner, hk st cs (Later.refl st)]

/-- **with enough fuel the result does not depend on the fuel** (continuations that agree on all later positions) -/
theorem mtc_fuel (T : Tabs) : ∀ (r : Rx) (st : St) (cs : Caps) (k1 k2 : K) (f1 f2 : Nat),
    fuelNeed r st.rest.length ≤ f1 → fuelNeed r st.rest.length ≤ f2 →
    (∀ st' cs', Later st st' → k1 st' cs' = k2 st' cs') → mtc T f1 r st cs k1 = mtc T f2 r st cs k2 := by
  intro r
  induction r with
  | eps =>
    intro st cs k1 k2 f1 f2 h1 h2 hk
    cases f1 with | zero => simp [fuelNeed] at h1 | succ f1 => cases f2 with | zero => simp [fuelNeed] at h2 | succ f2 =>
      simp only [mtc]; exact hk st cs (Later.refl st)
  | lit alts =>
    intro st cs k1 k2 f1 f2 h1 h2 hk
    cases f1 with | zero => simp [fuelNeed] at h1 | succ f1 => cases f2 with | zero => simp [fuelNeed] at h2 | succ f2 =>
      simp only [mtc]
      cases hs : step st with
      | none => rfl
      | some xs => obtain ⟨x, st'⟩ := xs; simp only; rw [hk st' cs (step_later hs)]
  | cls neg items =>
    intro st cs k1 k2 f1 f2 h1 h2 hk
    cases f1 with | zero => simp [fuelNeed] at h1 | succ f1 => cases f2 with | zero => simp [fuelNeed] at h2 | succ f2 =>
      simp only [mtc]
      cases hs : step st with
      | none => rfl
      | some xs => obtain ⟨x, st'⟩ := xs; simp only; rw [hk st' cs (step_later hs)]
  | wordb =>
    intro st cs k1 k2 f1 f2 h1 h2 hk
    cases f1 with | zero => simp [fuelNeed] at h1 | succ f1 => cases f2 with | zero => simp [fuelNeed] at h2 | succ f2 =>
      simp only [mtc]; rw [hk st cs (Later.refl st)]
  | seq a b iha ihb =>
    intro st cs k1 k2 f1 f2 h1 h2 hk
    simp only [fuelNeed] at h1 h2
    cases f1 with | zero => omega | succ f1 => cases f2 with | zero => omega | succ f2 =>
      simp only [mtc]
      apply iha st cs _ _ f1 f2 (by omega) (by omega)
      intro st' cs' hl
      have hm := need_mono b st'.rest.length st.rest.length hl.len_le
      exact ihb st' cs' k1 k2 f1 f2 (by omega) (by omega) (fun st'' cs'' hl' => hk st'' cs'' (hl.trans hl'))
  | alt a b iha ihb =>
    intro st cs k1 k2 f1 f2 h1 h2 hk
    simp only [fuelNeed] at h1 h2
    cases f1 with | zero => omega | succ f1 => cases f2 with | zero => omega | succ f2 =>
      simp only [mtc]
      rw [iha st cs k1 k2 f1 f2 (by omega) (by omega) hk, ihb st cs k1 k2 f1 f2 (by omega) (by omega) hk]
  | opt a iha =>
    intro st cs k1 k2 f1 f2 h1 h2 hk
    simp only [fuelNeed] at h1 h2
    cases f1 with | zero => omega | succ f1 => cases f2 with | zero => omega | succ f2 =>
      simp only [mtc]
      rw [iha st cs k1 k2 f1 f2 (by omega) (by omega) hk, hk st cs (Later.refl st)]
  | star a iha =>
    intro st cs k1 k2 f1 f2 h1 h2 hk
    exact mtc_fuel_star T a iha st.rest.length st cs k1 k2 f1 f2 rfl h1 h2 hk
  | plus a iha =>
    intro st cs k1 k2 f1 f2 h1 h2 hk
    simp only [fuelNeed] at h1 h2
    cases f1 with | zero => omega | succ f1 => cases f2 with | zero => omega | succ f2 =>
      simp only [mtc]
      apply iha st cs _ _ f1 f2 (by omega) (by omega)
      intro st' cs' hl
      have hm := need_mono a st'.rest.length st.rest.length hl.len_le
      have hle := hl.len_le
      exact mtc_fuel_star T a iha st'.rest.length st' cs' k1 k2 f1 f2 rfl (by simp only [fuelNeed]; omega) (by simp only [fuelNeed]; omega)
        (fun st'' cs'' hl' => hk st'' cs'' (hl.trans hl'))
  | grp i a iha =>
    intro st cs k1 k2 f1 f2 h1 h2 hk
    simp only [fuelNeed] at h1 h2
    cases f1 with | zero => omega | succ f1 => cases f2 with | zero => omega | succ f2 =>
      simp only [mtc]
      apply iha st cs _ _ f1 f2 (by omega) (by omega)
      intro st' cs' hl
      exact hk st' _ hl
  | nla a iha =>
    intro st cs k1 k2 f1 f2 h1 h2 hk
    simp only [fuelNeed] at h1 h2
    cases f1 with | zero => omega | succ f1 => cases f2 with | zero => omega | succ f2 =>
      simp only [mtc]
      rw [iha st cs (fun st' cs' => some (st'.pos, cs')) (fun st' cs' => some (st'.pos, cs')) f1 f2 (by omega) (by omega) (fun _ _ _ => rfl),
          hk st cs (Later.refl st)]
  | nlb a iha =>
    intro st cs k1 k2 f1 f2 h1 h2 hk
    simp only [fuelNeed] at h1 h2
    cases f1 with | zero => omega | succ f1 => cases f2 with | zero => omega | succ f2 =>
      simp only [mtc]
      cases hp : st.prev with
      | none => simp only; exact hk st cs (Later.refl st)
      | some p =>
        simp only
        rw [iha { prev := none, rest := [p], pos := 0 } [] _ _ f1 f2 (by simpa using (by omega : fuelNeed a 1 ≤ f1)) (by simpa using (by omega : fuelNeed a 1 ≤ f2)) (fun _ _ _ => rfl),
            hk st cs (Later.refl st)]

theorem need_le_size (r : Rx) : ∀ n, fuelNeed r n ≤ rxSize r * (n + 1) := by
  induction r with
  | eps => intro n; simp [fuelNeed, rxSize]
  | lit _ => intro n; simp [fuelNeed, rxSize]
  | cls _ _ => intro n; simp [fuelNeed, rxSize]
  | wordb => intro n; simp [fuelNeed, rxSize]
  | seq a b iha ihb => intro n; have := iha n; have := ihb n; simp only [fuelNeed, rxSize]; simp only [Nat.add_mul, Nat.mul_add] at *; omega
  | alt a b iha ihb => intro n; have := iha n; have := ihb n; simp only [fuelNeed, rxSize]; simp only [Nat.add_mul, Nat.mul_add] at *; omega
  | opt a ih => intro n; have := ih n; simp only [fuelNeed, rxSize]; simp only [Nat.add_mul, Nat.mul_add] at *; omega
  | star a ih => intro n; have := ih n; simp only [fuelNeed, rxSize]; simp only [Nat.add_mul, Nat.mul_add] at *; omega
  | plus a ih => intro n; have := ih n; simp only [fuelNeed, rxSize]; simp only [Nat.add_mul, Nat.mul_add] at *; omega
  | grp _ a ih => intro n; have := ih n; simp only [fuelNeed, rxSize]; simp only [Nat.add_mul, Nat.mul_add] at *; omega
  | nla a ih => intro n; have := ih n; simp only [fuelNeed, rxSize]; simp only [Nat.add_mul, Nat.mul_add] at *; omega
  | nlb a ih => intro n; have := ih 1; simp only [fuelNeed, rxSize]; simp only [Nat.add_mul, Nat.mul_add] at *; omega

theorem need_le_fuelFor (r : Rx) (n : Nat) : fuelNeed r n ≤ fuelFor r n := by
  unfold fuelFor
  have := need_le_size r n
  simp only [Nat.add_mul, Nat.mul_add] at *
  omega

/-- **the fuel `matchAt` uses is sufficient**: any larger fuel gives the same answer -/
theorem matchAt_fuel_indep (T : Tabs) (r : Rx) (st : St) (f : Nat) (hf : fuelFor r st.rest.length ≤ f) :
    mtc T f r st [] (fun st' cs' => some (st'.pos, cs')) = matchAt T r st := by
  unfold matchAt
  exact mtc_fuel T r st [] _ _ f _ (Nat.le_trans (need_le_fuelFor r _) hf) (need_le_fuelFor r _) (fun _ _ _ => rfl)

end QuickAdd
