import QuickAdd.Model.Search
/-! Every successor produced by `expandArts` is a licensed derivation step (used by the soundness, well-formedness and
    completeness developments; restated as property theorems in `Props/C15`). -/
namespace QuickAdd
open Gen

/-- `_match_rule`: an offset is yielded iff the whole pattern matches the window starting there -/
theorem window_sound (seq : List Art) (pat : List Pred) (i : Nat) (h : i ∈ matchRule seq pat) :
    i < seq.length ∧ ((seq.drop i).take pat.length).length = pat.length ∧
      (List.zipWith predHolds pat ((seq.drop i).take pat.length)).all id = true ∧ pat ≠ [] := by
  unfold matchRule at h
  split at h
  · simp at h
  · rename_i hne
    simp only [List.mem_filter, List.mem_range, Bool.and_eq_true, beq_iff_eq] at h
    exact ⟨h.1, h.2.1, h.2.2, by intro e; simp [e] at hne⟩

/-- generic: a fold that appends at most one element per index only adds elements produced at those indices -/
theorem foldOpt_sound {β γ : Type} (g : β → Except PyErr (Option γ)) :
    ∀ (ws : List β) (acc out : List γ), foldOpt g ws acc = Except.ok out → ∀ s ∈ out, s ∈ acc ∨ ∃ i ∈ ws, g i = .ok (some s) := by
  intro ws
  induction ws with
  | nil => intro acc out h s hs; simp [foldOpt] at h; subst h; exact Or.inl hs
  | cons i is ih =>
    intro acc out h s hs
    simp only [foldOpt] at h
    cases hr : g i with
    | error e => simp [hr] at h
    | ok r =>
      cases r with
      | none =>
        simp only [hr] at h
        rcases ih acc out h s hs with h1 | ⟨j, hj, e⟩
        · exact Or.inl h1
        · exact Or.inr ⟨j, List.mem_cons_of_mem _ hj, e⟩
      | some x =>
        simp only [hr] at h
        rcases ih _ out h s hs with h1 | ⟨j, hj, e⟩
        · rcases List.mem_append.mp h1 with h2 | h2
          · exact Or.inl h2
          · simp at h2; subst h2; exact Or.inr ⟨i, by simp, hr⟩
        · exact Or.inr ⟨j, List.mem_cons_of_mem _ hj, e⟩

theorem foldAppend_sound {β γ : Type} (g : β → Except PyErr (List γ)) :
    ∀ (rs : List β) (acc out : List γ), foldAppend g rs acc = Except.ok out →
      ∀ s ∈ out, s ∈ acc ∨ ∃ r ∈ rs, ∃ outs, g r = .ok outs ∧ s ∈ outs := by
  intro rs
  induction rs with
  | nil => intro acc out h s hs; simp [foldAppend] at h; subst h; exact Or.inl hs
  | cons r rs ih =>
    intro acc out h s hs
    simp only [foldAppend] at h
    cases hr : g r with
    | error e => simp [hr] at h
    | ok outs =>
      simp only [hr] at h
      rcases ih _ out h s hs with h1 | ⟨r', hr', o', ho', hs'⟩
      · rcases List.mem_append.mp h1 with h2 | h2
        · exact Or.inl h2
        · exact Or.inr ⟨r, by simp, outs, hr, h2⟩
      · exact Or.inr ⟨r', List.mem_cons_of_mem _ hr', o', ho', hs'⟩

/-- one application: a successful production on the window at `i`, spliced in place, trace extended by the rule's name -/
theorem applyAt_sound (ts : Ts) (name : String) (pat : List Pred) (prod : List Art) (trace : List String) (i : Nat) (s : List Art × List String × Nat)
    (h : applyAt ts name pat prod trace i = .ok (some s)) :
    ∃ x, applyRule name ts ((prod.drop i).take pat.length) = .ok (some x) ∧
      s = (prod.take i ++ x :: prod.drop (i + pat.length), trace ++ [name], coverOf (prod.take i ++ x :: prod.drop (i + pat.length))) := by
  unfold applyAt at h
  cases hr : applyRule name ts ((prod.drop i).take pat.length) with
  | error e => simp [hr, bind, Except.bind] at h
  | ok r =>
    cases r with
    | none => simp [hr, bind, Except.bind, pure, Except.pure] at h
    | some x =>
      simp only [hr, bind, Except.bind, pure, Except.pure] at h
      simp at h
      exact ⟨x, rfl, h.symm⟩

/-- **every successor is a licensed derivation step**: a rule of the applicable set, a window on which all its predicates
    hold, a successful production, the value spliced in place and the trace extended by that rule's name -/
theorem expand_sound (ts : Ts) (rules : List (String × List Pred)) (prod : List Art) (trace : List String)
    (out : List (List Art × List String × Nat)) (h : expandArts ts rules prod trace = .ok out) :
    ∀ s ∈ out, ∃ r ∈ rules, ∃ i ∈ matchRule prod r.2, ∃ x, applyRule r.1 ts ((prod.drop i).take r.2.length) = .ok (some x) ∧
      s = (prod.take i ++ x :: prod.drop (i + r.2.length), trace ++ [r.1], coverOf (prod.take i ++ x :: prod.drop (i + r.2.length))) := by
  intro s hs
  have h' : foldAppend (fun r : String × List Pred => expandRule ts r.1 r.2 prod trace) rules [] = .ok out := h
  rcases foldAppend_sound (fun r : String × List Pred => expandRule ts r.1 r.2 prod trace) rules [] out h' s hs with h1 | ⟨r, hr, outs, ho, hso⟩
  · simp at h1
  · have ho' : foldOpt (applyAt ts r.1 r.2 prod trace) (matchRule prod r.2) [] = .ok outs := ho
    rcases foldOpt_sound (applyAt ts r.1 r.2 prod trace) (matchRule prod r.2) [] outs ho' s hso with h2 | ⟨i, hi, hg⟩
    · simp at h2
    · obtain ⟨x, hx, e⟩ := applyAt_sound ts r.1 r.2 prod trace i s hg
      exact ⟨r, hr, i, hi, x, hx, e⟩

end QuickAdd
