import QuickAdd.Lemmas.RegexMust
import QuickAdd.Lemmas.SearchWF
/-!
# The groups a token reader reads are set on every token of its pattern (C01)
-/
namespace QuickAdd
open Gen

theorem insSorted_mem {α} (lt : α → α → Bool) (x : α) : ∀ (l : List α) (y : α), (y = x ∨ y ∈ l) → y ∈ insSorted lt x l := by
  intro l
  induction l with
  | nil => intro y h; rcases h with h | h <;> simp [insSorted, h] at *
  | cons a as ih =>
    intro y h
    simp only [insSorted]
    split
    · rcases h with h | h
      · simp [h]
      · exact List.mem_cons_of_mem _ h
    · rcases h with h | h
      · exact List.mem_cons_of_mem _ (ih y (Or.inl h))
      · rcases List.mem_cons.mp h with h | h
        · simp [h]
        · exact List.mem_cons_of_mem _ (ih y (Or.inr h))

theorem sortBy_mem {α} (lt : α → α → Bool) (l : List α) (y : α) (h : y ∈ l) : y ∈ sortBy lt l := by
  unfold sortBy
  have gen : ∀ (l acc : List α), (y ∈ acc ∨ y ∈ l) → y ∈ l.foldl (fun acc x => insSorted lt x acc) acc := by
    intro l
    induction l with
    | nil => intro acc h; rcases h with h | h; exact h; simp at h
    | cons x xs ih =>
      intro acc h
      simp only [List.foldl_cons]
      apply ih
      rcases h with h | h
      · exact Or.inl (insSorted_mem lt x acc y (Or.inr h))
      · rcases List.mem_cons.mp h with h | h
        · exact Or.inl (insSorted_mem lt x acc y (Or.inl h))
        · exact Or.inr h
  exact gen l [] (Or.inr h)

theorem getCap_some_of_mem (cs : Caps) (i s e : Nat) (h : (i, s, e) ∈ cs) : ∃ ab, getCap cs i = some ab := by
  unfold getCap
  cases hf : cs.find? (fun c => c.1 == i) with
  | some c => exact ⟨_, rfl⟩
  | none =>
    have := List.find?_eq_none.mp hf (i, s, e) h
    simp at this

/-- a token of pattern `p` has a text for the named group `n` whenever the match recorded that group -/
theorem tok_group_of_cap (p : Pat) (txt : List Nat) (m : Nat × Nat × Caps) (n : String) (i : Nat) (hn : (n, i) ∈ p.names) (hs : i ≠ p.self)
    (hc : HasCap [i] m.2.2) : ∀ k, (tokOfMatch p txt m).v = .tok k → ∃ w, k.group n = some w := by
  intro k hk
  obtain ⟨s, e, cs⟩ := m
  obtain ⟨c, hcm, hci⟩ := hc
  simp only [List.mem_singleton] at hci
  obtain ⟨ci, cs', ce'⟩ := c
  simp only at hci; subst hci
  obtain ⟨ab, hg⟩ := getCap_some_of_mem cs ci cs' ce' hcm
  simp only [tokOfMatch] at hk
  cases hk
  unfold Tok.group
  simp only
  have hmem : (n, slice txt ab.1 ab.2) ∈ sortBy (fun a b : String × List Nat => decide (a.1 < b.1)) (p.names.filterMap fun x : String × Nat =>
      if (x.2 == p.self) = true then none else match getCap cs x.2 with | some (a, b) => some (x.1, slice txt a b) | none => none) := by
    apply sortBy_mem
    simp only [List.mem_filterMap]
    refine ⟨(n, ci), hn, ?_⟩
    have : (ci == p.self) = false := by simpa using hs
    simp only [this, Bool.false_eq_true, if_false, hg]
  cases hf : List.find? (fun x : String × List Nat => x.1 == n) (sortBy (fun a b : String × List Nat => decide (a.1 < b.1)) (p.names.filterMap fun x : String × Nat =>
      if (x.2 == p.self) = true then none else match getCap cs x.2 with | some (a, b) => some (x.1, slice txt a b) | none => none)) with
  | some r => exact ⟨_, rfl⟩
  | none =>
    have := List.find?_eq_none.mp hf _ hmem
    simp at this

end QuickAdd
